(* C15 — MCMC driver: what the driver asks of emcee (from the regenerated source) and what follows from emcee's contract. *)
From Coq Require Import Reals ZArith String List Bool Lra Lia.
Require Import Py.PyAst Py.PyVal Py.PySem Py.XLemmas Py.Unfold Py.Tactics.
Require Import C15.Src.
Import ListNotations.
Open Scope string_scope.
Open Scope list_scope.
Fixpoint assoc {A} (k : string) (l : list (string * A)) : option A :=
  match l with [] => None | (k', v) :: t => if String.eqb k k' then Some v else assoc k t end.
Definition dict (l : list (string * val)) := VDict (map (fun kv => (VStr (fst kv), snd kv)) l).
Definition logc (tag : string) (args : list val) (w : world) : world := World (rng w) (cur w) ((tag, args) :: olog w) (decs w) (pc w).

(* ------------------------------------------------------------------------------------------- *)
(* 1. the driver, run by the interpreter with emcee / lenstronomy as LOGGING collaborators           *)
Section Driver.
Variables (mean_v sigma_v p0 : val).
Definition ret (tag : string) (v : val) : callee := COracle (fun args kws w => Ok (v, logc tag (tl args ++ map snd kws) w)).
Definition ret0 (tag : string) (v : val) : callee := COracle (fun args kws w => Ok (v, logc tag (args ++ map (fun kv => VTuple [VStr (fst kv); snd kv]) kws) w)).
Definition k2a : callee := COracle (fun args kws w =>
  Ok ((if match field_get "h0" kws with Some (VStr s) => String.eqb s "mean" | _ => false end then mean_v else sigma_v), w)).
Definition mtab : list (string * list (string * callee)) :=
  [("ParamManager", [("kwargs2args", k2a); ("param_list", ret "param_list" (VList [VStr "h0"; VStr "om"]))]);
   ("CosmoLikelihood", [("likelihood", ret "likelihood" VNone)]);
   ("Backend", [("reset", ret "reset" VNone)]);
   ("EnsembleSampler", [("run_mcmc", ret "run_mcmc" VNone); ("get_chain", ret "get_chain" (VStr "<flat chain>")); ("get_log_prob", ret "get_log_prob" (VStr "<flat log-prob>"))]);
   ("MCMCSampler", [("get_emcee_sampler", CFun src_MCMCSampler_get_emcee_sampler)])].
Definition G : fenv := FEnv (fun cls m => match assoc cls mtab with Some t => assoc m t | None => None end)
  (fun n => if String.eqb n "sampling_util.sample_ball" then Some (ret0 "sample_ball" p0)
            else if String.eqb n "emcee.EnsembleSampler" then Some (ret0 "EnsembleSampler" (VObj "EnsembleSampler" [])) else None).
Definition cl := VObj "CosmoLikelihood" [].
Definition sampler (np : Z) := VObj "MCMCSampler" [("chain", cl); ("param", VObj "ParamManager" [("num_param", VInt np)])].
Definition callback := VObj "<bound method>" [("self", cl); ("cls", VStr "CosmoLikelihood"); ("name", VStr "likelihood")].
Definition bk := VObj "Backend" [].
Definition start := [dict [("h0", VStr "mean")]; dict [("h0", VStr "sigma")]].
(* a run that does not ask to continue: the store is emptied first (reset to n_walkers x num_param), the walkers start from the ball, and
   exactly n_burn + n_run iterations are requested; the callback handed to emcee is the likelihood of the CosmoLikelihood itself *)
Theorem fresh_run (nw nb nr np : Z) rg cu :
  yields G 80 (CFun src_MCMCSampler_get_emcee_sampler) (Some (sampler np)) ([VInt nw; VInt nb; VInt nr] ++ start) [("backend", bk)] rg cu
    (VObj "EnsembleSampler" []) cu
    [("run_mcmc", [p0; VInt (nb + nr); VBool true]);
     ("EnsembleSampler", [VInt nw; VInt np; callback; VTuple [VStr "args"; VTuple []]; VTuple [VStr "backend"; bk]]);
     ("reset", [VInt nw; VInt np]);
     ("sample_ball", [mean_v; sigma_v; VInt nw])].
Proof. yields_auto. Qed.
(* continuing: NO reset, NO start positions (emcee resumes from the last stored iteration), exactly n_burn + n_run further iterations *)
Theorem continued_run (nw nb nr np : Z) rg cu :
  yields G 80 (CFun src_MCMCSampler_get_emcee_sampler) (Some (sampler np)) ([VInt nw; VInt nb; VInt nr] ++ start) [("continue_from_backend", VBool true); ("backend", bk)] rg cu
    (VObj "EnsembleSampler" []) cu
    [("run_mcmc", [VNone; VInt (nb + nr); VBool true]);
     ("EnsembleSampler", [VInt nw; VInt np; callback; VTuple [VStr "args"; VTuple []]; VTuple [VStr "backend"; bk]]);
     ("sample_ball", [mean_v; sigma_v; VInt nw])].
Proof. yields_auto. Qed.
(* no backend: in-memory store of the new sampler, start from the ball (the continue flag has nothing to continue from and is ignored) *)
Theorem memory_run (nw nb nr np : Z) (cont : bool) rg cu :
  yields G 80 (CFun src_MCMCSampler_get_emcee_sampler) (Some (sampler np)) ([VInt nw; VInt nb; VInt nr] ++ start) [("continue_from_backend", VBool cont)] rg cu
    (VObj "EnsembleSampler" []) cu
    [("run_mcmc", [p0; VInt (nb + nr); VBool true]);
     ("EnsembleSampler", [VInt nw; VInt np; callback; VTuple [VStr "args"; VTuple []]]);
     ("sample_ball", [mean_v; sigma_v; VInt nw])].
Proof. destruct cont; yields_auto. Qed.
(* what is returned: the flattened chain and log-probabilities after discarding exactly the burn-in iterations, no thinning *)
Theorem returned_samples (nw nb nr np : Z) rg cu :
  exists log,
  yields G 100 (CFun src_MCMCSampler_mcmc_emcee) (Some (sampler np)) ([VInt nw; VInt nb; VInt nr] ++ start) [("backend", bk)] rg cu
    (VTuple [VStr "<flat chain>"; VStr "<flat log-prob>"]) cu log
  /\ firstn 2 log = [("get_log_prob", [VInt nb; VInt 1; VBool true]); ("get_chain", [VInt nb; VInt 1; VBool true])].
Proof. eexists. split; [yields_auto | reflexivity]. Qed.
Theorem names_are_the_managers (latex : bool) rg cu :
  yields G 60 (CFun src_MCMCSampler_param_names) (Some (sampler 2)) [] [("latex_style", VBool latex)] rg cu (VList [VStr "h0"; VStr "om"]) cu
    [("param_list", [VBool latex])].
Proof. destruct latex; yields_auto. Qed.
End Driver.

(* ------------------------------------------------------------------------------------------- *)
(* 2. emcee's contract as an abstract store machine, and what follows from it for ANY number of walkers, iterations and runs *)
Section Backend.
Variable pos : Type.                                  (* a walker position *)
Variable f : pos -> option R.                         (* the callback: None = -inf, Some r = a finite log-probability *)
Variable inbox : pos -> Prop.
Hypothesis outside_is_neginf : forall x, ~ inbox x -> f x = None.        (* C02: outside the prior box the callback returns -inf *)
Definition walker : Type := pos * option R.
Definition iteration := list walker.
Definition store := list iteration.                   (* oldest first; append-only except for reset *)
(* one walker in one iteration: it stays, or it moves to a proposal whose log-probability is FINITE (a -inf proposal is never accepted),
   and the log-probability stored with the new position is the callback's value there *)
Inductive move : walker -> walker -> Prop :=
| stay : forall w, move w w
| jump : forall x lx y r, f y = Some r -> move (x, lx) (y, Some r).
Inductive run : iteration -> nat -> list iteration -> Prop :=
| run0 : forall e, run e 0 []
| runS : forall e e' n l, Forall2 move e e' -> run e' n l -> run e (S n) (e' :: l).
Inductive op := Reset | Run (p0 : option (list pos)) (n : nat).
Inductive exec : store -> op -> store -> Prop :=
| ex_reset : forall s, exec s Reset []
| ex_start : forall s p0 n l, run (map (fun x => (x, f x)) p0) n l -> exec s (Run (Some p0) n) (s ++ l)
| ex_continue : forall s n l, s <> [] -> run (last s []) n l -> exec s (Run None n) (s ++ l).
Inductive execs : store -> list op -> store -> Prop :=
| exs0 : forall s, execs s [] s
| exsS : forall s o s' os s'', exec s o s' -> execs s' os s'' -> execs s (o :: os) s''.

Lemma run_length e n l : run e n l -> length l = n.
Proof. induction 1; cbn; [reflexivity | now rewrite IHrun]. Qed.
(* continuing keeps every stored iteration and appends exactly the requested number *)
Theorem continue_appends s n s' : exec s (Run None n) s' -> exists l, s' = s ++ l /\ length l = n.
Proof. inversion 1; subst. eexists; split; [reflexivity | eapply run_length; eassumption]. Qed.
Fixpoint total (os : list op) : nat := match os with [] => 0 | Run _ n :: r => (n + total r)%nat | Reset :: r => total r end.
Definition all_continue (os : list op) : Prop := Forall (fun o => exists n, o = Run None n) os.
Theorem continued_runs_keep_prefix os : all_continue os -> forall s s', execs s os s' -> exists l, s' = s ++ l /\ length l = total os.
Proof.
  induction os as [|o os IH]; intros Hall s s' Hex.
  - inversion Hex; subst. exists []. rewrite app_nil_r. auto.
  - inversion Hall as [|? ? [n ->] Hrest]; subst. inversion Hex as [|? ? s1 ? ? H1 H2]; subst.
    destruct (continue_appends _ _ _ H1) as (l1 & -> & L1). destruct (IH Hrest _ _ H2) as (l2 & -> & L2).
    exists (l1 ++ l2). rewrite app_assoc, app_length. cbn [total]. split; [reflexivity | lia].
Qed.
(* a run that does not ask to continue: the driver resets first; afterwards the store holds exactly the requested iterations *)
Theorem fresh_run_store s p0 n s1 s2 : exec s Reset s1 -> exec s1 (Run (Some p0) n) s2 -> length s2 = n.
Proof. inversion 1; subst. inversion 1; subst. cbn [app]. eapply run_length; eassumption. Qed.
(* a store that is initialised but empty cannot be continued (known finding C15:continue_from_empty_backend: emcee raises) *)
Theorem continue_from_empty_impossible n s' : ~ exec [] (Run None n) s'.
Proof. intros H. inversion H as [| |s0 n0 l0 Hne Hr]; subst. apply Hne. reflexivity. Qed.

(* invariants of every stored iteration *)
Definition consistent (e : iteration) : Prop := Forall (fun w => snd w = f (fst w)) e.      (* stored log-prob = callback at the stored position *)
Definition boxed (e : iteration) : Prop := Forall (fun w => inbox (fst w)) e.
Lemma move_consistent w w' : move w w' -> snd w = f (fst w) -> snd w' = f (fst w').
Proof. destruct 1; cbn; intros; [assumption | congruence]. Qed.
Lemma move_boxed w w' : move w w' -> inbox (fst w) -> inbox (fst w').
Proof.
  destruct 1 as [|x lx y r Hy]; cbn; intros H; [assumption|].
  destruct (Classical_Prop.classic (inbox y)) as [Hin|Hout]; [assumption|]. rewrite (outside_is_neginf y Hout) in Hy. discriminate.
Qed.
Lemma step_inv (P : walker -> Prop) : (forall w w', move w w' -> P w -> P w') -> forall e e', Forall2 move e e' -> Forall P e -> Forall P e'.
Proof. intros HP e e' H. induction H; intros HF; [constructor|]. inversion HF; subst. constructor; [eapply HP; eassumption | auto]. Qed.
Lemma run_inv (P : walker -> Prop) : (forall w w', move w w' -> P w -> P w') -> forall e n l, run e n l -> Forall P e -> Forall (Forall P) l.
Proof. intros HP e n l H. induction H; intros HF; [constructor|]. pose proof (step_inv P HP _ _ H HF). constructor; auto. Qed.
Theorem stored_logprob_is_callback p0 n l : run (map (fun x => (x, f x)) p0) n l -> Forall consistent l.
Proof. intros H. eapply (run_inv _ move_consistent); [exact H|]. apply Forall_forall. intros w Hw. apply in_map_iff in Hw. destruct Hw as (x & <- & _). reflexivity. Qed.
Theorem samples_stay_in_box p0 n l : Forall inbox p0 -> run (map (fun x => (x, f x)) p0) n l -> Forall boxed l.
Proof. intros Hb H. eapply (run_inv _ move_boxed); [exact H|]. apply Forall_forall. intros w Hw. apply in_map_iff in Hw. destruct Hw as (x & <- & Hx). cbn. eapply Forall_forall; eassumption. Qed.
(* ... and through any later continued run (the store's last iteration satisfies the invariants) *)
Theorem continued_samples_stay_in_box s n l : s <> [] -> Forall boxed s -> run (last s []) n l -> Forall boxed l.
Proof.
  intros Hne Hs H. eapply (run_inv _ move_boxed); [exact H|].
  destruct (exists_last Hne) as (s0 & e & ->). rewrite last_last. apply Forall_app in Hs. destruct Hs as [_ He]. inversion He; assumption.
Qed.
(* shape: every iteration has the ensemble's number of walkers; after discarding n_burn of n_burn + n_run iterations, n_walkers * n_run samples *)
Lemma F2_length {A B} (R : A -> B -> Prop) l l' : Forall2 R l l' -> length l = length l'.
Proof. induction 1; cbn; [reflexivity | now rewrite IHForall2]. Qed.
Lemma run_widths e n l : run e n l -> Forall (fun it => length it = length e) l.
Proof.
  induction 1; [constructor|]. pose proof (F2_length _ _ _ H) as HL. constructor; [now symmetry|].
  eapply Forall_impl; [|exact IHrun]. intros a Ha. cbn in Ha. lia.
Qed.
Lemma concat_length_const {A} (l : list (list A)) k : Forall (fun it => length it = k) l -> length (concat l) = (length l * k)%nat.
Proof. induction 1 as [|x r Hx Hr IH]; [reflexivity|]. cbn [concat length]. rewrite app_length, IH, Hx. lia. Qed.
Lemma Forall_skipn {A} (P : A -> Prop) n (l : list A) : Forall P l -> Forall P (skipn n l).
Proof. revert l; induction n as [|n IH]; intros l H; [exact H|]. destruct l; [constructor|]. inversion H; subst. cbn. apply IH. assumption. Qed.
Theorem number_of_returned_samples p0 nb nr l : run (map (fun x => (x, f x)) p0) (nb + nr)%nat l -> length (concat (skipn nb l)) = (nr * length p0)%nat.
Proof.
  intros H. pose proof (run_length _ _ _ H) as HL. pose proof (run_widths _ _ _ H) as HW. rewrite map_length in HW.
  rewrite (concat_length_const (skipn nb l) (length p0)) by (apply Forall_skipn; exact HW).
  rewrite skipn_length, HL. replace (nb + nr - nb)%nat with nr by lia. reflexivity.
Qed.
(* the known finding as a theorem: a start position OUTSIDE the box is a legal history of the contract: it is stored, outside, with -inf *)
Theorem start_outside_box_refuted x : ~ inbox x -> exists l, run (map (fun x => (x, f x)) [x]) 1 l /\ l = [[(x, None)]].
Proof. intros Hx. exists [[(x, None)]]. split; [|reflexivity]. cbn [map]. rewrite (outside_is_neginf x Hx). apply runS with (e' := [(x, None)]); [repeat constructor | constructor]. Qed.
End Backend.
