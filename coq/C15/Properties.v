(* C15 — property theorems only. Source = C15.Src, regenerated from /repo on this run. *)
From Coq Require Import Reals ZArith String List Bool Lra.
Require Import Py.PyAst Py.PyVal Py.PySem Py.XLemmas.
Require Import C15.Src C15.Model.
Import ListNotations.
Open Scope string_scope.
Open Scope list_scope.

(* what the driver asks of emcee, for ANY walker / iteration / parameter counts (regenerated source, emcee and lenstronomy as logging collaborators) *)
Theorem C15_fresh_run_requests : forall (mean_v sigma_v p0 : val) (nw nb nr np : Z) rg cu,
  yields (G mean_v sigma_v p0) 80 (CFun src_MCMCSampler_get_emcee_sampler) (Some (sampler np)) ([VInt nw; VInt nb; VInt nr] ++ start) [("backend", bk)] rg cu
    (VObj "EnsembleSampler" []) cu
    [("run_mcmc", [p0; VInt (nb + nr); VBool true]);
     ("EnsembleSampler", [VInt nw; VInt np; callback; VTuple [VStr "args"; VTuple []]; VTuple [VStr "backend"; bk]]);
     ("reset", [VInt nw; VInt np]);
     ("sample_ball", [mean_v; sigma_v; VInt nw])].
Proof. exact fresh_run. Qed.
Print Assumptions C15_fresh_run_requests.
Theorem C15_continued_run_requests : forall (mean_v sigma_v p0 : val) (nw nb nr np : Z) rg cu,
  yields (G mean_v sigma_v p0) 80 (CFun src_MCMCSampler_get_emcee_sampler) (Some (sampler np)) ([VInt nw; VInt nb; VInt nr] ++ start)
    [("continue_from_backend", VBool true); ("backend", bk)] rg cu (VObj "EnsembleSampler" []) cu
    [("run_mcmc", [VNone; VInt (nb + nr); VBool true]);
     ("EnsembleSampler", [VInt nw; VInt np; callback; VTuple [VStr "args"; VTuple []]; VTuple [VStr "backend"; bk]]);
     ("sample_ball", [mean_v; sigma_v; VInt nw])].
Proof. exact continued_run. Qed.
Theorem C15_memory_run_requests : forall (mean_v sigma_v p0 : val) (nw nb nr np : Z) (cont : bool) rg cu,
  yields (G mean_v sigma_v p0) 80 (CFun src_MCMCSampler_get_emcee_sampler) (Some (sampler np)) ([VInt nw; VInt nb; VInt nr] ++ start) [("continue_from_backend", VBool cont)] rg cu
    (VObj "EnsembleSampler" []) cu
    [("run_mcmc", [p0; VInt (nb + nr); VBool true]);
     ("EnsembleSampler", [VInt nw; VInt np; callback; VTuple [VStr "args"; VTuple []]]);
     ("sample_ball", [mean_v; sigma_v; VInt nw])].
Proof. exact memory_run. Qed.
Theorem C15_returned_samples : forall (mean_v sigma_v p0 : val) (nw nb nr np : Z) rg cu,
  exists log,
  yields (G mean_v sigma_v p0) 100 (CFun src_MCMCSampler_mcmc_emcee) (Some (sampler np)) ([VInt nw; VInt nb; VInt nr] ++ start) [("backend", bk)] rg cu
    (VTuple [VStr "<flat chain>"; VStr "<flat log-prob>"]) cu log
  /\ firstn 2 log = [("get_log_prob", [VInt nb; VInt 1; VBool true]); ("get_chain", [VInt nb; VInt 1; VBool true])].
Proof. exact returned_samples. Qed.
Theorem C15_names_in_vector_order : forall (mean_v sigma_v p0 : val) (latex : bool) rg cu,
  yields (G mean_v sigma_v p0) 60 (CFun src_MCMCSampler_param_names) (Some (sampler 2)) [] [("latex_style", VBool latex)] rg cu (VList [VStr "h0"; VStr "om"]) cu
    [("param_list", [VBool latex])].
Proof. exact names_are_the_managers. Qed.

(* consequences of emcee's contract (abstract store machine), for any number of walkers, iterations and runs *)
Theorem C15_continue_keeps_prefix_and_appends : forall (pos : Type) (f : pos -> option R) os, all_continue pos os ->
  forall s s', execs pos f s os s' -> exists l, s' = s ++ l /\ length l = total pos os.
Proof. exact continued_runs_keep_prefix. Qed.
Print Assumptions C15_continue_keeps_prefix_and_appends.
Theorem C15_fresh_run_store : forall (pos : Type) (f : pos -> option R) s p0 n s1 s2,
  exec pos f s (Reset pos) s1 -> exec pos f s1 (Run pos (Some p0) n) s2 -> length s2 = n.
Proof. exact fresh_run_store. Qed.
Theorem C15_stored_logprob_is_the_likelihood : forall (pos : Type) (f : pos -> option R) p0 n l,
  run pos f (map (fun x => (x, f x)) p0) n l -> Forall (consistent pos f) l.
Proof. exact stored_logprob_is_callback. Qed.
Theorem C15_samples_in_box : forall (pos : Type) (f : pos -> option R) (inbox : pos -> Prop), (forall x, ~ inbox x -> f x = None) ->
  forall p0 n l, Forall inbox p0 -> run pos f (map (fun x => (x, f x)) p0) n l -> Forall (boxed pos inbox) l.
Proof. exact samples_stay_in_box. Qed.
Print Assumptions C15_samples_in_box.
Theorem C15_continued_samples_in_box : forall (pos : Type) (f : pos -> option R) (inbox : pos -> Prop), (forall x, ~ inbox x -> f x = None) ->
  forall s n l, s <> [] -> Forall (boxed pos inbox) s -> run pos f (last s []) n l -> Forall (boxed pos inbox) l.
Proof. exact continued_samples_stay_in_box. Qed.
Theorem C15_number_of_samples : forall (pos : Type) (f : pos -> option R) p0 nb nr l,
  run pos f (map (fun x => (x, f x)) p0) (nb + nr)%nat l -> length (concat (skipn nb l)) = (nr * length p0)%nat.
Proof. exact number_of_returned_samples. Qed.
(* the two known findings, as theorems of the contract: a start position outside the box is stored with -inf; an empty store cannot be continued *)
Theorem C15_start_outside_box_refuted : forall (pos : Type) (f : pos -> option R) (inbox : pos -> Prop), (forall x, ~ inbox x -> f x = None) ->
  forall x, ~ inbox x -> exists l, run pos f (map (fun x => (x, f x)) [x]) 1 l /\ l = [[(x, None)]].
Proof. exact start_outside_box_refuted. Qed.
Theorem C15_continue_from_empty_refuted : forall (pos : Type) (f : pos -> option R) n s', ~ exec pos f [] (Run pos None n) s'.
Proof. exact continue_from_empty_impossible. Qed.
