(* C11 — supernova likelihood: distance-scale free, anchor convention shared with the lensed-SN side. Source = C11.Src (regenerated). *)
From Coq Require Import Reals ZArith String List Bool Lra Lia.
Require Import Py.PyAst Py.PyVal Py.PySem Py.XLemmas Py.Unfold Py.Tactics.
Require Import C11.Src.
Import ListNotations.
Open Scope string_scope.
Fixpoint assoc {A} (k : string) (l : list (string * A)) : option A :=
  match l with [] => None | (k', v) :: t => if String.eqb k k' then Some v else assoc k t end.
Definition num (r : R) := VNum (Fin r).
Definition vec (l : list R) := VArr (map num l).
Definition mat (l : list (list R)) := VArr (map (fun r => VList (map num r)) l).
Definition dict (l : list (string * val)) := VDict (map (fun kv => (VStr (fst kv), snd kv)) l).
Definition logc (tag : string) (args : list val) (w : world) : world := World (rng w) (cur w) ((tag, args) :: olog w) (decs w) (pc w).
Open Scope R_scope.

(* ------------------------------------------------------------------------------------------- *)
(* 1. what the sample likelihood is handed: distance moduli RELATIVE TO THE ANCHOR               *)
Section Moduli.
Variable DA : R -> R.
Definition qty (v : val) : val := VObj "Quantity" [("value", v)].
Fixpoint reals_of (l : list val) : option (list R) :=
  match l with [] => Some [] | v :: r => match to_x v, reals_of r with Some (Fin x), Some xs => Some (x :: xs) | _, _ => None end end.
Definition ada : callee := COracle (fun args kws w => match args, kws with
   | [_; VArr l], [] => match reals_of l with Some zs => Ok (qty (vec (map DA zs)), w) | None => Stuck "ada: redshift array" end
   | [_; v], [] => match to_x v with Some (Fin z) => Ok (qty (num (DA z)), w) | _ => Stuck "ada: redshift" end
   | _, _ => Stuck "ada: one positional argument" end).
Definition sample_oracle : callee := COracle (fun args kws w => Ok (num 0, logc "log_likelihood_lum_dist" (tl args ++ map snd kws)%list w)).
Definition Gs : fenv := FEnv (fun cls m =>
    if String.eqb cls "Cosmo" then (if String.eqb m "angular_diameter_distance" then Some ada else None)
    else if String.eqb cls "Sample" then (if String.eqb m "log_likelihood_lum_dist" then Some sample_oracle else None) else None) (fun _ => None).
Definition sne (h0 h1 c0 c1 : R) := VObj "SneLikelihood" [("zhel", vec [h0; h1]); ("zcmb", vec [c0; c1]); ("_likelihood", VObj "Sample" [])].
Definition mu_sn (zh zc : R) := 5 * log10 ((1 + zh) * (1 + zc) * DA zc).
Definition mu_anchor (za : R) := 5 * log10 ((1 + za) * (1 + za) * DA za).
Theorem moduli_relative_to_anchor h0 h1 c0 c1 za (m sg : val) rg cu :
  0 < (1 + h0) * (1 + c0) * DA c0 -> 0 < (1 + h1) * (1 + c1) * DA c1 -> 0 < (1 + za) * (1 + za) * DA za ->
  yields Gs 80 (CFun src_SneLikelihood_log_likelihood) (Some (sne h0 h1 c0 c1)) [VObj "Cosmo" []]
    [("apparent_m_z", m); ("z_anchor", num za); ("sigma_m_z", sg)] rg cu (num 0) cu
    [("log_likelihood_lum_dist", [vec [mu_sn h0 c0 - mu_anchor za; mu_sn h1 c1 - mu_anchor za]; m; sg])].
Proof. intros H0 H1 Ha. unfold mu_sn, mu_anchor, sne. yields_with real_fact ltac:(val_eq). Qed.
End Moduli.
(* the relative modulus does not see an overall rescaling of the distances (H0) *)
Lemma relative_modulus_scale_free (DA : R -> R) c zh zc za : 0 < c -> 0 < DA zc -> 0 < DA za -> -1 < zh -> -1 < zc -> -1 < za ->
  mu_sn (fun z => DA z / c) zh zc - mu_anchor (fun z => DA z / c) za = mu_sn DA zh zc - mu_anchor DA za.
Proof.
  intros Hc H1 H2 H3 H4 H5. unfold mu_sn, mu_anchor, log10.
  assert (P1 : 0 < (1 + zh) * (1 + zc)) by nra. assert (P2 : 0 < (1 + za) * (1 + za)) by nra.
  assert (Q1 : 0 < (1 + zh) * (1 + zc) * DA zc) by (apply Rmult_lt_0_compat; assumption).
  assert (Q2 : 0 < (1 + za) * (1 + za) * DA za) by (apply Rmult_lt_0_compat; assumption).
  replace ((1 + zh) * (1 + zc) * (DA zc / c)) with ((1 + zh) * (1 + zc) * DA zc * / c) by (field; lra).
  replace ((1 + za) * (1 + za) * (DA za / c)) with ((1 + za) * (1 + za) * DA za * / c) by (field; lra).
  set (A := (1 + zh) * (1 + zc) * DA zc) in *. set (B := (1 + za) * (1 + za) * DA za) in *.
  assert (Hi : 0 < / c) by (apply Rinv_0_lt_compat; assumption).
  rewrite (ln_mult A (/ c)) by assumption. rewrite (ln_mult B (/ c)) by assumption.
  assert (ln 10 <> 0) by (apply Rgt_not_eq; rewrite <- ln_1; apply ln_increasing; lra).
  field. assumption.
Qed.
(* moving the anchor from za to zb while shifting the magnitude by mu(zb) - mu(za) leaves  m_data - (mu_sn - mu_anchor) - M  unchanged *)
Lemma anchor_shift (DA : R -> R) zh zc za zb mdat M :
  mdat - (mu_sn DA zh zc - mu_anchor DA zb) - (M + (mu_anchor DA zb - mu_anchor DA za)) = mdat - (mu_sn DA zh zc - mu_anchor DA za) - M.
Proof. ring. Qed.
(* the lens side uses the same convention: a lensed SN at z_source is a supernova with z_hel = z_cmb = z_source *)
Lemma lens_side_same_convention (DA : R -> R) zs za : mu_sn DA zs zs - mu_anchor DA za = 5 * log10 ((1 + zs) * (1 + zs) * DA zs) - 5 * log10 ((1 + za) * (1 + za) * DA za).
Proof. reflexivity. Qed.

(* ------------------------------------------------------------------------------------------- *)
(* 2. the custom sample likelihood on two supernovae, everything symbolic                        *)
Section Custom.
Variables (m0 m1 c00 c01 c10 c11 : R).               (* magnitudes, covariance *)
Variables (p00 p01 p10 p11 L : R).                   (* what numpy.linalg.inv / slogdet return *)
Definition inv_oracle : callee := COracle (fun args _ w => Ok (mat [[p00; p01]; [p10; p11]], logc "inv" args w)).
Definition slogdet_oracle : callee := COracle (fun args _ w => Ok (VTuple [num 1; num L], logc "slogdet" args w)).
Definition Gc : fenv := FEnv (fun cls m => if String.eqb m "_inverse_covariance_matrix" then Some (CFun src_CustomSneLikelihood_inverse_covariance_matrix) else None)
  (fun n => if String.eqb n "np.linalg.inv" then Some inv_oracle else if String.eqb n "np.linalg.slogdet" then Some slogdet_oracle else None).
Definition C := [[c00; c01]; [c10; c11]].
Definition custom (noscatter : bool) := VObj "CustomSneLikelihood"
  [("zhel", VNone); ("zcmb", VNone); ("mag", vec [m0; m1]); ("_cov_mag", mat C); ("_inv_cov_mag_input", mat [[p00; p01]; [p10; p11]]); ("num_sne", VInt 2);
   ("_no_intrinsic_scatter", VBool noscatter)].
Theorem custom_ctor (zh zc : val) rg cu :
  yields Gc 60 (CClass "CustomSneLikelihood" src_CustomSneLikelihood_init) None [vec [m0; m1]; mat C; zh; zc] [] rg cu
    (VObj "CustomSneLikelihood" [("zhel", zh); ("zcmb", zc); ("mag", vec [m0; m1]); ("_cov_mag", mat C); ("_inv_cov_mag_input", mat [[p00; p01]; [p10; p11]]);
                                 ("num_sne", VInt 2); ("_no_intrinsic_scatter", VBool false)]) cu [("inv", [mat C])].
Proof. yields_auto. Qed.
(* maximum-likelihood normalisation when no magnitude is given; residuals; quadratic form *)
Definition shat (u0 u1 d0 d1 : R) := ((m0 - u0) * (1 / d0) + (m1 - u1) * (1 / d1)) / (1 / d0 + 1 / d1).
Definition quad (r0 r1 : R) := r0 * (p00 * r0 + p01 * r1) + r1 * (p10 * r0 + p11 * r1).
Definition mvn (r0 r1 : R) := - quad r0 r1 / 2 - (2 * ln (2 * PI) + L) / 2.
Lemma inv_sum_nonzero a b : a <> 0 -> b <> 0 -> a + b <> 0 -> 1 / a + 1 / b <> 0.
Proof.
  intros Ha Hb Hs E. apply Hs. assert (E' : (1 / a + 1 / b) * (a * b) = 0) by (rewrite E; ring).
  replace ((1 / a + 1 / b) * (a * b)) with (a + b) in E' by (field; split; assumption). exact E'.
Qed.
Theorem custom_free_normalisation u0 u1 rg cu : c00 <> 0 -> c11 <> 0 -> c00 + c11 <> 0 ->
  let s := shat u0 u1 c00 c11 in
  yields Gc 100 (CFun src_CustomSneLikelihood_log_likelihood_lum_dist) (Some (custom false)) [vec [u0; u1]] [] rg cu
    (num (mvn (m0 - u0 - s) (m1 - u1 - s))) cu [("slogdet", [mat C])].
Proof.
  intros H0 H1 Hs s. subst s. unfold mvn, quad, shat, custom, C.
  pose proof (inv_sum_nonzero c00 c11 H0 H1 Hs) as Hw.
  assert (Hw' : 1 / c00 + (1 / c11 + 0) <> 0) by (intro E; apply Hw; lra).
  yields_with real_fact ltac:(val_eq).
Qed.
Theorem custom_given_magnitude u0 u1 M rg cu : c00 <> 0 -> c11 <> 0 ->
  yields Gc 100 (CFun src_CustomSneLikelihood_log_likelihood_lum_dist) (Some (custom false)) [vec [u0; u1]; num M] [] rg cu
    (num (mvn (m0 - u0 - M) (m1 - u1 - M))) cu [("slogdet", [mat C])].
Proof. intros H0 H1. unfold mvn, quad, custom, C. yields_with real_fact ltac:(val_eq). Qed.
(* intrinsic scatter: a NEW matrix C + sigma^2 I is inverted and used for the determinant; the stored matrix is not touched (C08 analysis) *)
Theorem custom_scatter u0 u1 M sg rg cu : c00 + sg ^ 2 <> 0 -> c11 + sg ^ 2 <> 0 ->
  yields Gc 100 (CFun src_CustomSneLikelihood_log_likelihood_lum_dist) (Some (custom false)) [vec [u0; u1]; num M; num sg] [] rg cu
    (num (mvn (m0 - u0 - M) (m1 - u1 - M))) cu
    [("slogdet", [mat [[c00 + sg ^ 2; c01 + 0]; [c10 + 0; c11 + sg ^ 2]]]); ("inv", [mat [[c00 + sg ^ 2; c01 + 0]; [c10 + 0; c11 + sg ^ 2]]])].
Proof. intros H0 H1. unfold mvn, quad, custom, C. yields_with real_fact ltac:(val_eq). Qed.
(* ... unless the sample was declared to carry no intrinsic scatter: stored matrix and stored inverse *)
Theorem custom_scatter_switched_off u0 u1 M sg rg cu : c00 <> 0 -> c11 <> 0 ->
  yields Gc 100 (CFun src_CustomSneLikelihood_log_likelihood_lum_dist) (Some (custom true)) [vec [u0; u1]; num M; num sg] [] rg cu
    (num (mvn (m0 - u0 - M) (m1 - u1 - M))) cu [("slogdet", [mat C])].
Proof. intros H0 H1. unfold mvn, quad, custom, C. yields_with real_fact ltac:(val_eq). Qed.
(* free normalisation: adding any constant k to all moduli (any overall distance scale, any anchor) changes nothing *)
Lemma shat_shift u0 u1 d0 d1 k : d0 <> 0 -> d1 <> 0 -> d0 + d1 <> 0 -> shat (u0 + k) (u1 + k) d0 d1 = shat u0 u1 d0 d1 - k.
Proof. intros. unfold shat. field. repeat split; try assumption; intro; lra. Qed.
Theorem free_normalisation_absorbs_constants u0 u1 k : c00 <> 0 -> c11 <> 0 -> c00 + c11 <> 0 ->
  mvn (m0 - (u0 + k) - shat (u0 + k) (u1 + k) c00 c11) (m1 - (u1 + k) - shat (u0 + k) (u1 + k) c00 c11)
  = mvn (m0 - u0 - shat u0 u1 c00 c11) (m1 - u1 - shat u0 u1 c00 c11).
Proof. intros. rewrite shat_shift by assumption. f_equal; ring. Qed.
End Custom.

(* ------------------------------------------------------------------------------------------- *)
(* 3. the from-file (Pantheon-format) variant on two bins                                        *)
Section FromFile.
Variables (m0 m1 e0 e1 : R).                          (* magnitudes, uncorrelated variances *)
Variables (p00 p01 p10 p11 : R).                      (* stored inverse covariance *)
Definition twopi_oracle : callee :=
  COracle (fun _ _ w => match eval (FEnv (fun _ _ => None) (fun _ => None)) 10 src_const_twopi [] w with Ok (v, w') => Ok (v, w') | _ => Stuck "_twopi" end).
Definition Gf : fenv := FEnv (fun _ _ => None) (fun n => if String.eqb n "_twopi" then Some twopi_oracle else None).
Definition ff := VObj "SneLikelihoodFromFile" [("diag_uncorr_errors", vec [e0; e1]); ("mag", vec [m0; m1]); ("_inv_cov", mat [[p00; p01]; [p10; p11]])].
Definition shat_f (u0 u1 : R) := ((m0 - u0) * (1 / e0) + (m1 - u1) * (1 / e1)) / (1 / e0 + 1 / e1).
Definition quad_f (r0 r1 : R) := (p00 * r0 + p01 * r1) * r0 + (p10 * r0 + p11 * r1) * r1.
Definition val_f (r0 r1 : R) := - (quad_f r0 r1 + ln ((p00 + p01 + p10 + p11) / (2 * PI))) / 2.
Theorem fromfile_free_normalisation u0 u1 rg cu : e0 <> 0 -> e1 <> 0 -> e0 + e1 <> 0 -> 0 < (p00 + p01 + p10 + p11) / (2 * PI) ->
  let s := shat_f u0 u1 in
  yields Gf 100 (CFun src_SneLikelihoodFromFile_log_likelihood_lum_dist) (Some ff) [vec [u0; u1]] [] rg cu (num (val_f (m0 - u0 - s) (m1 - u1 - s))) cu [].
Proof.
  intros H0 H1 Hs Hp s. subst s. unfold val_f, quad_f, shat_f, ff.
  pose proof (inv_sum_nonzero e0 e1 H0 H1 Hs) as Hw.
  assert (Hw' : 1 / e0 + (1 / e1 + 0) <> 0) by (intro E; apply Hw; lra).
  assert (Hp' : 0 < (p00 + (p01 + (p10 + (p11 + 0)))) / (2 * PI)) by (replace (p00 + (p01 + (p10 + (p11 + 0)))) with (p00 + p01 + p10 + p11) by ring; exact Hp).
  pose proof PI_RGT_0.
  yields_with real_fact ltac:(val_eq).
Qed.
Lemma shat_f_shift u0 u1 k : e0 <> 0 -> e1 <> 0 -> e0 + e1 <> 0 -> shat_f (u0 + k) (u1 + k) = shat_f u0 u1 - k.
Proof. intros. unfold shat_f. field. repeat split; try assumption; intro; lra. Qed.
Theorem fromfile_absorbs_constants u0 u1 k : e0 <> 0 -> e1 <> 0 -> e0 + e1 <> 0 ->
  val_f (m0 - (u0 + k) - shat_f (u0 + k) (u1 + k)) (m1 - (u1 + k) - shat_f (u0 + k) (u1 + k)) = val_f (m0 - u0 - shat_f u0 u1) (m1 - u1 - shat_f u0 u1).
Proof. intros. rewrite shat_f_shift by assumption. f_equal; ring. Qed.
End FromFile.

(* ------------------------------------------------------------------------------------------- *)
(* 4. the two sides share one (magnitude, anchor) pair                                            *)
(* lens side: the source magnitude realised for a lensed SN is the population magnitude draw plus the modulus difference to the SAME anchor *)
Theorem draw_source_adds_modulus mu sg dl rg cu :
  yields (FEnv (fun _ _ => None) (fun _ => None)) 40 (CFun src_LensLikelihood_draw_source) None [] [("mu_sne", num mu); ("sigma_sne", num sg); ("lum_dist", num dl); ("z_apparent_m_anchor", num 7)] rg cu
    (num (mu + sg * rg cu + dl)) (S cu) [].
Proof. yields_auto. Qed.
(* likelihood: the SNe term is evaluated with mu_sne, sigma_sne and z_apparent_m_anchor taken from the SAME source dictionary the lenses get *)
Section Wiring.
Variables (Ls Sn : R) (kl kk klos : val).
Definition tagged (tag : string) (v : val) : callee := COracle (fun args kws w => Ok (v, logc tag (tl args ++ map snd kws)%list w)).
Definition ttab (mu za sg : R) : list (string * list (string * callee)) :=
  [("ParamManager", [("args2kwargs", COracle (fun args kws w => Ok (VTuple [dict [("h0", num 70)]; kl; kk; dict [("mu_sne", num mu); ("z_apparent_m_anchor", num za); ("sigma_sne", num sg)]; klos], w)))]);
   ("LensSampleLikelihood", [("log_likelihood", tagged "lens" (num Ls))]);
   ("SneLikelihood", [("log_likelihood", tagged "sne" (num Sn))]);
   ("CosmoLikelihood", [("cosmo_instance", COracle (fun args kws w => Ok (VObj "Cosmo" [], w)))])].
Definition Gw mu za sg : fenv := FEnv (fun cls m => match assoc cls (ttab mu za sg) with Some t => assoc m t | None => None end) (fun _ => None).
Definition cl_obj := VObj "CosmoLikelihood"
  [("_lower_limit", VList [num 0]); ("_upper_limit", VList [num 150]); ("param", VObj "ParamManager" []); ("_cosmology", VStr "FLCDM");
   ("_likelihoodLensSample", VObj "LensSampleLikelihood" []); ("_sne_evaluate", VBool true); ("_sne_likelihood", VObj "SneLikelihood" []);
   ("_kde_evaluate", VBool false); ("_prior_add", VBool false)].
Theorem sne_term_wiring mu za sg h rg cu : 0 <= h <= 150 ->
  let src := dict [("mu_sne", num mu); ("z_apparent_m_anchor", num za); ("sigma_sne", num sg)] in
  yields (Gw mu za sg) 100 (CFun src_CosmoLikelihood_likelihood) (Some cl_obj) [VList [num h]] [] rg cu (num (Ls + Sn)) cu
    [("sne", [VObj "Cosmo" []; num mu; num za; num sg]);
     ("lens", [VObj "Cosmo" []; kl; kk; src; klos; VBool false])].
Proof. intros Hh src. subst src. yields_with real_fact ltac:(val_eq). Qed.
End Wiring.
