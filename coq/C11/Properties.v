(* C11 — property theorems only. Source = C11.Src, regenerated from /repo on this run. *)
From Coq Require Import Reals ZArith String List Bool Lra.
Require Import Py.PyAst Py.PyVal Py.PySem Py.XLemmas.
Require Import C11.Src C11.Dist C11.Model.
Import ListNotations.
Open Scope string_scope.
Open Scope R_scope.

(* the sample likelihood is handed distance moduli RELATIVE TO THE ANCHOR, 5log10((1+z_hel)(1+z_cmb) D_A(z_cmb)) - 5log10((1+z_a)^2 D_A(z_a)),
   together with the magnitude and the scatter, for any distance provider *)
Theorem C11_moduli_relative_to_anchor : forall (DA : R -> R) h0 h1 c0 c1 za (m sg : val) rg cu,
  0 < (1 + h0) * (1 + c0) * DA c0 -> 0 < (1 + h1) * (1 + c1) * DA c1 -> 0 < (1 + za) * (1 + za) * DA za ->
  yields (Gs DA) 80 (CFun src_SneLikelihood_log_likelihood) (Some (sne h0 h1 c0 c1)) [VObj "Cosmo" []]
    [("apparent_m_z", m); ("z_anchor", num za); ("sigma_m_z", sg)] rg cu (num 0) cu
    [("log_likelihood_lum_dist", [vec [mu_sn DA h0 c0 - mu_anchor DA za; mu_sn DA h1 c1 - mu_anchor DA za]; m; sg])].
Proof. exact moduli_relative_to_anchor. Qed.
Print Assumptions C11_moduli_relative_to_anchor.
(* ... which do not change under an overall rescaling of distances (H0), in both magnitude modes *)
Theorem C11_h0_free : forall (DA : R -> R) c zh zc za, 0 < c -> 0 < DA zc -> 0 < DA za -> -1 < zh -> -1 < zc -> -1 < za ->
  mu_sn (fun z => DA z / c) zh zc - mu_anchor (fun z => DA z / c) za = mu_sn DA zh zc - mu_anchor DA za.
Proof. exact relative_modulus_scale_free. Qed.
(* explicit anchor magnitude: moving the anchor while shifting the magnitude by the modulus difference leaves every residual unchanged *)
Theorem C11_anchor_shift : forall (DA : R -> R) zh zc za zb mdat M,
  mdat - (mu_sn DA zh zc - mu_anchor DA zb) - (M + (mu_anchor DA zb - mu_anchor DA za)) = mdat - (mu_sn DA zh zc - mu_anchor DA za) - M.
Proof. exact anchor_shift. Qed.

(* custom sample, two supernovae, everything symbolic: the multivariate-normal log-density of the residuals, with numpy's inverse / log-det *)
Theorem C11_custom_free_normalisation : forall m0 m1 c00 c01 c10 c11 p00 p01 p10 p11 L u0 u1 rg cu, c00 <> 0 -> c11 <> 0 -> c00 + c11 <> 0 ->
  let s := shat m0 m1 u0 u1 c00 c11 in
  yields (Gc p00 p01 p10 p11 L) 100 (CFun src_CustomSneLikelihood_log_likelihood_lum_dist) (Some (custom m0 m1 c00 c01 c10 c11 p00 p01 p10 p11 false)) [vec [u0; u1]] [] rg cu
    (num (mvn p00 p01 p10 p11 L (m0 - u0 - s) (m1 - u1 - s))) cu [("slogdet", [mat (C c00 c01 c10 c11)])].
Proof. exact custom_free_normalisation. Qed.
Theorem C11_custom_given_magnitude : forall m0 m1 c00 c01 c10 c11 p00 p01 p10 p11 L u0 u1 M rg cu, c00 <> 0 -> c11 <> 0 ->
  yields (Gc p00 p01 p10 p11 L) 100 (CFun src_CustomSneLikelihood_log_likelihood_lum_dist) (Some (custom m0 m1 c00 c01 c10 c11 p00 p01 p10 p11 false)) [vec [u0; u1]; num M] [] rg cu
    (num (mvn p00 p01 p10 p11 L (m0 - u0 - M) (m1 - u1 - M))) cu [("slogdet", [mat (C c00 c01 c10 c11)])].
Proof. exact custom_given_magnitude. Qed.
(* free normalisation absorbs any constant added to all moduli: any overall distance scale and any anchor *)
Theorem C11_free_normalisation_absorbs_constants : forall m0 m1 c00 c11 p00 p01 p10 p11 L u0 u1 k, c00 <> 0 -> c11 <> 0 -> c00 + c11 <> 0 ->
  mvn p00 p01 p10 p11 L (m0 - (u0 + k) - shat m0 m1 (u0 + k) (u1 + k) c00 c11) (m1 - (u1 + k) - shat m0 m1 (u0 + k) (u1 + k) c00 c11)
  = mvn p00 p01 p10 p11 L (m0 - u0 - shat m0 m1 u0 u1 c00 c11) (m1 - u1 - shat m0 m1 u0 u1 c00 c11).
Proof. exact free_normalisation_absorbs_constants. Qed.
Print Assumptions C11_free_normalisation_absorbs_constants.
(* intrinsic scatter: a NEW matrix C + sigma^2 I is inverted and used; the stored covariance and its stored inverse are untouched (the
   object is an immutable value here; that no store reaches it is C08's analysis); switched off -> the stored ones *)
Theorem C11_scatter_adds_to_diagonal : forall m0 m1 c00 c01 c10 c11 p00 p01 p10 p11 L u0 u1 M sg rg cu, c00 + sg ^ 2 <> 0 -> c11 + sg ^ 2 <> 0 ->
  yields (Gc p00 p01 p10 p11 L) 100 (CFun src_CustomSneLikelihood_log_likelihood_lum_dist) (Some (custom m0 m1 c00 c01 c10 c11 p00 p01 p10 p11 false)) [vec [u0; u1]; num M; num sg] [] rg cu
    (num (mvn p00 p01 p10 p11 L (m0 - u0 - M) (m1 - u1 - M))) cu
    [("slogdet", [mat [[c00 + sg ^ 2; c01 + 0]; [c10 + 0; c11 + sg ^ 2]]]); ("inv", [mat [[c00 + sg ^ 2; c01 + 0]; [c10 + 0; c11 + sg ^ 2]]])].
Proof. exact custom_scatter. Qed.
Theorem C11_scatter_switched_off : forall m0 m1 c00 c01 c10 c11 p00 p01 p10 p11 L u0 u1 M sg rg cu, c00 <> 0 -> c11 <> 0 ->
  yields (Gc p00 p01 p10 p11 L) 100 (CFun src_CustomSneLikelihood_log_likelihood_lum_dist) (Some (custom m0 m1 c00 c01 c10 c11 p00 p01 p10 p11 true)) [vec [u0; u1]; num M; num sg] [] rg cu
    (num (mvn p00 p01 p10 p11 L (m0 - u0 - M) (m1 - u1 - M))) cu [("slogdet", [mat (C c00 c01 c10 c11)])].
Proof. exact custom_scatter_switched_off. Qed.
Theorem C11_custom_constructor : forall m0 m1 c00 c01 c10 c11 p00 p01 p10 p11 L (zh zc : val) rg cu,
  yields (Gc p00 p01 p10 p11 L) 60 (CClass "CustomSneLikelihood" src_CustomSneLikelihood_init) None [vec [m0; m1]; mat (C c00 c01 c10 c11); zh; zc] [] rg cu
    (VObj "CustomSneLikelihood" [("zhel", zh); ("zcmb", zc); ("mag", vec [m0; m1]); ("_cov_mag", mat (C c00 c01 c10 c11)); ("_inv_cov_mag_input", mat [[p00; p01]; [p10; p11]]);
                                 ("num_sne", VInt 2); ("_no_intrinsic_scatter", VBool false)]) cu [("inv", [mat (C c00 c01 c10 c11)])].
Proof. exact custom_ctor. Qed.

(* from-file (Pantheon-format) variant: value and the same absorption of constants *)
Theorem C11_fromfile_free_normalisation : forall m0 m1 e0 e1 p00 p01 p10 p11 u0 u1 rg cu, e0 <> 0 -> e1 <> 0 -> e0 + e1 <> 0 -> 0 < (p00 + p01 + p10 + p11) / (2 * PI) ->
  let s := shat_f m0 m1 e0 e1 u0 u1 in
  yields Gf 100 (CFun src_SneLikelihoodFromFile_log_likelihood_lum_dist) (Some (ff m0 m1 e0 e1 p00 p01 p10 p11)) [vec [u0; u1]] [] rg cu
    (num (val_f p00 p01 p10 p11 (m0 - u0 - s) (m1 - u1 - s))) cu [].
Proof. exact fromfile_free_normalisation. Qed.
Theorem C11_fromfile_absorbs_constants : forall m0 m1 e0 e1 p00 p01 p10 p11 u0 u1 k, e0 <> 0 -> e1 <> 0 -> e0 + e1 <> 0 ->
  val_f p00 p01 p10 p11 (m0 - (u0 + k) - shat_f m0 m1 e0 e1 (u0 + k) (u1 + k)) (m1 - (u1 + k) - shat_f m0 m1 e0 e1 (u0 + k) (u1 + k))
  = val_f p00 p01 p10 p11 (m0 - u0 - shat_f m0 m1 e0 e1 u0 u1) (m1 - u1 - shat_f m0 m1 e0 e1 u0 u1).
Proof. exact fromfile_absorbs_constants. Qed.

(* one (magnitude, anchor) pair for both likelihoods: the lens side adds the modulus difference to the SAME anchor to the population draw,
   a lensed SN being a supernova with z_hel = z_cmb = z_source; the SNe term receives mu_sne, z_apparent_m_anchor, sigma_sne of the same
   source dictionary that the lenses receive *)
Theorem C11_lens_side_draw : forall mu sg dl rg cu,
  yields (FEnv (fun _ _ => None) (fun _ => None)) 40 (CFun src_LensLikelihood_draw_source) None [] [("mu_sne", num mu); ("sigma_sne", num sg); ("lum_dist", num dl); ("z_apparent_m_anchor", num 7)] rg cu
    (num (mu + sg * rg cu + dl)) (S cu) [].
Proof. exact draw_source_adds_modulus. Qed.
Theorem C11_lens_side_same_convention : forall (DA : R -> R) zs za,
  mu_sn DA zs zs - mu_anchor DA za = 5 * log10 ((1 + zs) * (1 + zs) * DA zs) - 5 * log10 ((1 + za) * (1 + za) * DA za).
Proof. exact lens_side_same_convention. Qed.
Theorem C11_sne_term_wiring : forall Ls Sn (kl kk klos : val) mu za sg h rg cu, 0 <= h <= 150 ->
  let src := dict [("mu_sne", num mu); ("z_apparent_m_anchor", num za); ("sigma_sne", num sg)] in
  yields (Gw Ls Sn kl kk klos mu za sg) 100 (CFun src_CosmoLikelihood_likelihood) (Some cl_obj) [VList [num h]] [] rg cu (num (Ls + Sn)) cu
    [("sne", [VObj "Cosmo" []; num mu; num za; num sg]); ("lens", [VObj "Cosmo" []; kl; kk; src; klos; VBool false])].
Proof. exact sne_term_wiring. Qed.

(* the lens-side modulus difference itself (the C05 distance model compiled against this property's source): for the three magnification
   types luminosity_distance_modulus returns mu(z_source) - mu(z_anchor) with mu(z) = 5 log10((1+z)^2 max(D_A(z), 1e-5)), recomputed from the
   cosmology it is handed on EVERY call (the interpreter result is a function of the arguments only) *)
Theorem C11_lens_side_modulus : forall (DA : R -> R) (DA12 : R -> R -> R),
  Forall (fun t => forall zl zs zs2 za rg cu, 0 < (1 + zs) * (1 + zs) * floor5 (DA zs) -> 0 < (1 + za) * (1 + za) * floor5 (DA za) ->
    yields (Gl DA DA12) 60 (CFun src_LensLikelihood_luminosity_distance_modulus) (Some (lens t zl zs zs2)) [cosmo0; Dist.num za] [] rg cu
      (Dist.num (mu_f DA zs - mu_f DA za)) cu []) MAGS.
Proof. exact modulus_formula. Qed.
