(* C07 — the sample log-probability is a sum of independent terms; local settings over global. Source = C07.Src (regenerated). *)
From Coq Require Import Reals ZArith String List Bool Lra Lia Permutation.
Require Import Py.PyAst Py.PyVal Py.PySem Py.XLemmas Py.Unfold Py.Tactics.
Require Import C07.Src.
Import ListNotations.
Open Scope string_scope.
Fixpoint assoc {A} (k : string) (l : list (string * A)) : option A :=
  match l with [] => None | (k', v) :: t => if String.eqb k k' then Some v else assoc k t end.
Definition num (r : R) := VNum (Fin r).
Definition dict (l : list (string * val)) := VDict (map (fun kv => (VStr (fst kv), snd kv)) l).

(* ---------------------------------------------------------------------------------------- *)
(* 1. merging global model settings into a lens' own settings                                 *)
(* the whitelist is the module-level constant of the source, evaluated by the interpreter *)
Definition whitelist_oracle : callee :=
  COracle (fun _ _ w => match eval (FEnv (fun _ _ => None) (fun _ => None)) 10 src_const_input_param_list [] w with
                        | Ok (v, w') => Ok (v, w') | _ => Stuck "whitelist" end).
Definition Gm : fenv := FEnv (fun _ _ => None) (fun n => if String.eqb n "_input_param_list" then Some whitelist_oracle else None).
(* a whitelisted key set only globally is inherited; one set in both places takes the lens' value; a global key that is not
   whitelisted is dropped; lens-only keys are kept *)
Theorem merge_local_over_global vg1 vg2 vg3 vl2 vl4 rg cu :
  yields Gm 60 (CFun src_LensSampleLikelihood_merge_global2local_settings) None []
    [("kwargs_global_model", dict [("anisotropy_model", vg1); ("log_scatter", vg2); ("not_a_lens_setting", vg3)]);
     ("kwargs_lens", dict [("log_scatter", vl2); ("z_lens", vl4)])] rg cu
    (dict [("anisotropy_model", vg1); ("log_scatter", vl2); ("z_lens", vl4)]) cu [].
Proof. yields_auto. Qed.
(* the reference merge, for arbitrary dictionaries *)
Fixpoint lookup_v (k : string) (d : list (string * val)) : option val :=
  match d with [] => None | (k', v) :: t => if String.eqb k k' then Some v else lookup_v k t end.
Definition merged (wl : list string) (g l : list (string * val)) (k : string) : option val :=
  match lookup_v k l with Some v => Some v | None => if existsb (String.eqb k) wl then lookup_v k g else None end.
Lemma merged_local_wins wl g l k v : lookup_v k l = Some v -> merged wl g l k = Some v.
Proof. intros H. unfold merged. rewrite H. reflexivity. Qed.
Lemma merged_global_if_listed wl g l k : lookup_v k l = None -> existsb (String.eqb k) wl = true -> merged wl g l k = lookup_v k g.
Proof. intros H1 H2. unfold merged. rewrite H1, H2. reflexivity. Qed.
Lemma merged_dropped wl g l k : lookup_v k l = None -> existsb (String.eqb k) wl = false -> merged wl g l k = None.
Proof. intros H1 H2. unfold merged. rewrite H1, H2. reflexivity. Qed.

(* ---------------------------------------------------------------------------------------- *)
(* 2. per-lens slope index and the number of slope parameters                                 *)
Definition lens_class : callee :=
  COracle (fun args kws w => Ok (VObj "LensLikelihood" [("gamma_pl_index", match field_get "gamma_pl_index" kws with Some v => v | None => VStr "?" end);
                                                       ("name", match field_get "name" kws with Some v => v | None => VNone end)], w)).
Definition Gi : fenv := FEnv (fun cls m => if String.eqb m "_merge_global2local_settings" then Some (CFun src_LensSampleLikelihood_merge_global2local_settings) else None)
  (fun n => if String.eqb n "_input_param_list" then Some whitelist_oracle else if String.eqb n "LensLikelihood" then Some lens_class else None).
Definition L_slope (nm : string) := dict [("name", VStr nm); ("kin_scaling_param_list", VList [VStr "a_ani"; VStr "gamma_pl"])].
Definition L_noslope (nm : string) := dict [("name", VStr nm); ("kin_scaling_param_list", VList [VStr "a_ani"])].
Definition L_plain (nm : string) := dict [("name", VStr nm)].
Definition lens_out (nm : string) (idx : val) := VObj "LensLikelihood" [("gamma_pl_index", idx); ("name", VStr nm)].
(* lenses that interpolate over slope get 0, 1, ... in list order; the others get None; the count is what the parameter manager receives *)
Theorem slope_indices rg cu :
  yields Gi 80 (CClass "LensSampleLikelihood" src_LensSampleLikelihood_init) None
    [VList [L_plain "a"; L_slope "b"; L_noslope "c"; L_slope "d"; L_slope "e"]] [] rg cu
    (VObj "LensSampleLikelihood" [("_lens_list", VList [lens_out "a" VNone; lens_out "b" (VInt 0); lens_out "c" VNone; lens_out "d" (VInt 1); lens_out "e" (VInt 2)]);
                                  ("_gamma_pl_num", VInt 3)]) cu [].
Proof. yields_auto. Qed.
(* with a global slope population no lens gets an index and no per-lens slope parameter exists *)
Theorem slope_indices_global rg cu :
  yields Gi 80 (CClass "LensSampleLikelihood" src_LensSampleLikelihood_init) None
    [VList [L_plain "a"; L_slope "b"; L_slope "d"]] [("kwargs_global_model", dict [("gamma_pl_global_sampling", VBool true)])] rg cu
    (VObj "LensSampleLikelihood" [("_lens_list", VList [lens_out "a" VNone; lens_out "b" VNone; lens_out "d" VNone]); ("_gamma_pl_num", VInt 0)]) cu [].
Proof. yields_auto. Qed.

(* ---------------------------------------------------------------------------------------- *)
(* 3. number of data points: integer per type (attribute or method), integer sum over lenses  *)
Definition Gn : fenv := FEnv (fun cls m =>
    if String.eqb cls "DSPLikelihood" then (if String.eqb m "num_data" then Some (CFun src_DSPLikelihood_num_data) else None)
    else if String.eqb cls "LensLikelihood" then (if String.eqb m "num_data" then Some (CFun src_LensLikelihoodBase_num_data) else None)
    else None) (fun _ => None).
Definition lens_attr (n : Z) := VObj "LensLikelihood" [("_lens_type", VObj "KinLikelihood" [("num_data", VInt n)])].
Definition lens_dspl := VObj "LensLikelihood" [("_lens_type", VObj "DSPLikelihood" [])].
Theorem num_data_attribute n rg cu :
  yields Gn 40 (CFun src_LensLikelihoodBase_num_data) (Some (lens_attr n)) [] [] rg cu (VInt n) cu [].
Proof. yields_auto. Qed.
Theorem num_data_method rg cu :
  yields Gn 40 (CFun src_LensLikelihoodBase_num_data) (Some lens_dspl) [] [] rg cu (VInt 1) cu [].
Proof. yields_auto. Qed.
Theorem num_data_sample n1 n2 rg cu :
  yields Gn 60 (CFun src_LensSampleLikelihood_num_data) (Some (VObj "LensSampleLikelihood" [("_lens_list", VList [lens_attr n1; lens_dspl; lens_attr n2])])) [] [] rg cu
    (VInt (0 + n1 + 1 + n2)) cu [].
Proof. yields_auto. Qed.

(* ---------------------------------------------------------------------------------------- *)
(* 4. additivity over the lens list, for lens lists of ANY length (induction over the loop)   *)
Section Additive.
Variable tfun : Z -> val -> val -> val -> val -> val -> R.       (* lens k's term as an arbitrary function of (cosmo, four hyper-parameter dicts) *)
Definition lens_k (k : Z) := VObj "Lens" [("k", VInt k)].
Definition term_oracle : callee :=
  COracle (fun args kws w =>
    match args with
    | VObj _ [(_, VInt k)] :: _ =>
        match field_get "cosmo" kws, field_get "kwargs_lens" kws, field_get "kwargs_kin" kws, field_get "kwargs_source" kws, field_get "kwargs_los" kws with
        | Some c, Some a1, Some a2, Some a3, Some a4 =>
            Ok (num (tfun k c a1 a2 a3 a4), World (rng w) (cur w) (("lens", [VInt k]) :: olog w) (decs w) (pc w))
        | _, _, _, _, _ => Stuck "lens_log_likelihood: keywords" end
    | _ => Stuck "lens_log_likelihood: self" end).
Definition Ga : fenv := FEnv (fun cls m => if String.eqb m "lens_log_likelihood" then Some term_oracle else None) (fun _ => None).
Open Scope R_scope.
Fixpoint total (c a1 a2 a3 a4 : val) (acc : R) (ks : list Z) : R :=
  match ks with [] => acc | k :: r => total c a1 a2 a3 a4 (acc + tfun k c a1 a2 a3 a4) r end.
Ltac RUNF tm := let r := eval lazy -[Rplus Rmult Rminus Rdiv Rinv Ropp Rmax Rmin Rlt Rle Rgt Rge ln exp sqrt log10 IZR dec Rpower pow PI DBL_MAX not total tfun map rev] in tm in change tm with r.

Definition envA (self c a1 a2 a3 a4 : val) (acc : R) (k : Z) : env :=
  [("self", self); ("cosmo", c); ("kwargs_lens", a1); ("kwargs_kin", a2); ("kwargs_source", a3); ("kwargs_los", a4); ("verbose", VBool false);
   ("log_likelihood", VNum (Fin acc)); ("lens", lens_k k)].
Definition logA (ks : list Z) (tl : list (string * list val)) : list (string * list val) := (rev (map (fun k => ("lens", [VInt k])) ks) ++ tl)%list.

Lemma last_default {A} (l : list A) x d d' : last (x :: l) d = last (x :: l) d'.
Proof. revert x; induction l as [|y l IH]; intros x; [reflexivity|]. change (last (y :: l) d = last (y :: l) d'). apply IH. Qed.

Lemma loop_add self c a1 a2 a3 a4 step rg cu ds pc0 :
  step = for_step (eval Ga 98) (exec Ga 98) 98 (EName "lens") (EAttr (EName "self") "_lens_list")
           (match src_LensSampleLikelihood_log_likelihood with FunDef _ _ _ _ body => match nth 1 body SPass with SFor _ _ b => b | _ => [] end end) ->
  forall ks idx acc k0 log,
  iter_loop step (map lens_k ks) idx (envA self c a1 a2 a3 a4 acc k0) (World rg cu log ds pc0)
  = Ok (ONormal (envA self c a1 a2 a3 a4 (total c a1 a2 a3 a4 acc ks) (last ks k0)), World rg cu (logA ks log) ds pc0).
Proof.
  intros Hstep. induction ks as [|k ks IH]; intros idx acc k0 log.
  - reflexivity.
  - cbn [map iter_loop]. subst step. unfold envA, lens_k in *.
    match goal with |- context [for_step ?a ?b ?c ?d ?e ?f ?g ?h ?i ?jj] => RUNF (for_step a b c d e f g h i jj) end.
    cbn [bind fst snd].
    specialize (IH (idx + 1)%Z (acc + tfun k c a1 a2 a3 a4) k (("lens", [VInt k]) :: log)). rewrite IH.
    cbn [total]. f_equal. f_equal.
    + destruct ks as [|z ks]; [reflexivity|]. change (last (k :: z :: ks) k0) with (last (z :: ks) k0). rewrite (last_default ks z k k0). reflexivity.
    + unfold logA. cbn [map rev]. rewrite <- app_assoc. reflexivity.
Qed.

Ltac prefix_run :=
    rewrite call_fun;
    cbv beta zeta delta [f_static f_params f_kwarg f_body f_name src_LensSampleLikelihood_log_likelihood] iota;
    match goal with |- context [bind_params ?a ?b ?c ?d] => RUNF (bind_params a b c d) end;
    cbn [bind fst snd];
    rewrite exec_S;
    rewrite run_stmts_cons;
    match goal with |- context [seq_out (exec_stmt ?t ?rm ?a ?es ?b ?c ?d ?e ?f) _] => RUNF (exec_stmt t rm a es b c d e f) end;
    cbn [seq_out bind fst snd];
    rewrite run_stmts_cons; cbn [exec_stmt];
    match goal with |- context [eval Ga 98 ?c ?r ?w] => RUNF (eval Ga 98 c r w) end;
    cbn [bind fst snd as_list].
Theorem sample_is_sum c a1 a2 a3 a4 (ks : list Z) rg cu :
  yields Ga 100 (CFun src_LensSampleLikelihood_log_likelihood) (Some (VObj "LensSampleLikelihood" [("_lens_list", VList (map lens_k ks))]))
    [c; a1; a2; a3; a4] [] rg cu
    (match ks with [] => VInt 0 | _ => num (total c a1 a2 a3 a4 0 ks) end) cu (logA ks []).
Proof.
  unfold yields. destruct ks as [|k ks].
  - exists []. eexists. split.
    + prefix_run. cbn [map iter_loop seq_out bind fst snd].
      match goal with |- context [run_stmts ?st ?ss ?r ?w] => RUNF (run_stmts st ss r w) end.
      reflexivity.
    + cbn. repeat split.
  - exists []. eexists. split.
    + prefix_run. cbn [map iter_loop].
      match goal with |- context [for_step ?a ?b ?c ?d ?e ?f ?g ?h ?i ?jj] => RUNF (for_step a b c d e f g h i jj) end.
      cbn [bind fst snd].
      match goal with |- context [iter_loop ?st ?it ?ix ?r ?w] =>
        let H := fresh in
        pose proof (loop_add (VObj "LensSampleLikelihood" [("_lens_list", VList (lens_k k :: map lens_k ks))]) c a1 a2 a3 a4 st rg cu [] [] eq_refl ks ix (0 + tfun k c a1 a2 a3 a4) k [("lens", [VInt k])]) as H;
        unfold envA, lens_k in H |- *; rewrite H; clear H end.
      cbn [seq_out bind fst snd].
      match goal with |- context [run_stmts ?st ?ss ?r ?w] => RUNF (run_stmts st ss r w) end.
      cbn [seq_out bind fst snd total]. reflexivity.
    + cbn [decs cur olog pc holds]. repeat split; try reflexivity.
      unfold logA. cbn [map rev]. rewrite <- app_assoc, app_nil_r. reflexivity.
Qed.

(* the sum does not depend on the order of the lens list *)
Lemma total_acc c a1 a2 a3 a4 acc ks : total c a1 a2 a3 a4 acc ks = acc + total c a1 a2 a3 a4 0 ks.
Proof. revert acc; induction ks as [|k ks IH]; intros acc; cbn [total]; [ring|]. rewrite IH, (IH (0 + _)). ring. Qed.
Theorem total_permutation c a1 a2 a3 a4 ks ks' : Permutation ks ks' -> total c a1 a2 a3 a4 0 ks = total c a1 a2 a3 a4 0 ks'.
Proof.
  induction 1 as [| x l l' _ IH | x y l | l l' l'' _ IH1 _ IH2].
  - reflexivity.
  - cbn [total]. rewrite total_acc, (total_acc _ _ _ _ _ _ l'), IH. reflexivity.
  - cbn [total]. rewrite total_acc, (total_acc _ _ _ _ _ (0 + _ + _) l). ring.
  - congruence.
Qed.
End Additive.

(* ---------------------------------------------------------------------------------------- *)
(* 5. per-lens slopes under re-ordering of the lens list (reference level)                    *)
Section Slopes.
Open Scope R_scope.
Variable A : Type.                                   (* a lens *)
Variable has_slope : A -> bool.
Variable term : A -> option R -> R.                  (* its term given the slope it is handed (None: no slope parameter) *)
(* what LensSampleLikelihood does: the j-th slope-bearing lens in list order reads gamma_pl_list[j] *)
Fixpoint total_s (ls : list A) (slopes : list R) : R :=
  match ls with
  | [] => 0
  | l :: r => if has_slope l then match slopes with g :: s => term l (Some g) + total_s r s | [] => term l None + total_s r [] end
              else term l None + total_s r slopes
  end.
(* lenses with their slopes attached *)
Fixpoint extract (p : list (A * option R)) : list R :=
  match p with [] => [] | (l, Some g) :: r => if has_slope l then g :: extract r else extract r | (_, None) :: r => extract r end.
Definition consistent (p : list (A * option R)) : Prop := Forall (fun lg => has_slope (fst lg) = true -> exists g, snd lg = Some g) p.
Fixpoint sum_p (p : list (A * option R)) : R :=
  match p with [] => 0 | (l, og) :: r => term l (if has_slope l then og else None) + sum_p r end.
Lemma total_of_attached p : consistent p -> total_s (map fst p) (extract p) = sum_p p.
Proof.
  induction p as [|[l og] p IH]; intros Hc; [reflexivity|]. inversion Hc as [|? ? H1 H2]; subst. cbn [map fst total_s extract sum_p].
  destruct (has_slope l) eqn:E.
  - destruct (H1 E) as [g Hg]. cbn [snd] in Hg. subst og. rewrite ?E. rewrite IH by assumption. reflexivity.
  - destruct og; rewrite ?E; rewrite IH by assumption; reflexivity.
Qed.
Lemma sum_p_perm p p' : Permutation p p' -> sum_p p = sum_p p'.
Proof.
  induction 1 as [| [l og] a b _ IH | [l og] [l' og'] a | a b c0 _ IH1 _ IH2]; cbn [sum_p]; try lra; try congruence.
Qed.
Lemma consistent_perm p p' : Permutation p p' -> consistent p -> consistent p'.
Proof. intros HP H. unfold consistent in *. rewrite Forall_forall in *. intros x Hx. apply H. eapply Permutation_in; [apply Permutation_sym; exact HP | exact Hx]. Qed.
(* re-ordering the lens list, with the per-lens slopes re-ordered accordingly, leaves the sample value unchanged *)
Theorem reorder_invariant p p' : consistent p -> Permutation p p' ->
  total_s (map fst p') (extract p') = total_s (map fst p) (extract p).
Proof. intros Hc HP. rewrite !total_of_attached; [symmetry; apply sum_p_perm; exact HP | exact Hc | eapply consistent_perm; eassumption]. Qed.
(* another lens' slope never enters a lens' term: the term is a function of the lens and of its own slope only (by the type of [term]);
   the number of slope parameters consumed is the number of slope-bearing lenses *)
Lemma extract_length p : consistent p -> length (extract p) = length (filter (fun lg => has_slope (fst lg)) p).
Proof.
  induction p as [|[l og] p IH]; intros Hc; [reflexivity|]. inversion Hc as [|? ? H1 H2]; subst. cbn [extract filter fst].
  destruct (has_slope l) eqn:E.
  - destruct (H1 E) as [g Hg]. cbn [snd] in Hg. subst og. rewrite ?E. cbn [length]. rewrite IH by assumption. reflexivity.
  - destruct og; rewrite ?E; apply IH; assumption.
Qed.
End Slopes.

(* ---------------------------------------------------------------------------------------- *)
(* 6. the total: lens sample + [SNe] + [chain KDE] + [custom prior], each added iff its switch is on *)
Section Total.
Variables (Ls Sn Kd Pr : R).                       (* what the four components return: arbitrary *)
Variables (kc kl kk ks klos : val).                (* the five dictionaries args2kwargs returns *)
Definition comp (tag : string) (v : val) : callee :=
  COracle (fun args kws w => Ok (v, World (rng w) (cur w) ((tag, tl args ++ map snd kws)%list :: olog w) (decs w) (pc w))).
Definition ttab : list (string * list (string * callee)) :=
  [("ParamManager", [("args2kwargs", COracle (fun args kws w => Ok (VTuple [VDict [(VStr "h0", num 70); (VStr "om", num (3/10))]; kl; kk; VDict [(VStr "mu_sne", num 19); (VStr "z_apparent_m_anchor", num (1/10)); (VStr "sigma_sne", num 0)]; klos], w)))]);
   ("LensSampleLikelihood", [("log_likelihood", comp "lens" (num Ls))]);
   ("SneLikelihood", [("log_likelihood", comp "sne" (num Sn))]);
   ("KDELikelihood", [("kdelikelihood_samples", comp "kde" (VList [num Kd]))]);
   ("Prior", [("__call__", comp "prior" (num Pr))]);
   ("CosmoLikelihood", [("cosmo_instance", COracle (fun args kws w => Ok (VObj "Cosmo" [], w)))])].
Definition Gt : fenv := FEnv (fun cls m => match assoc cls ttab with Some t => assoc m t | None => None end)
  (fun n => if String.eqb n "rescale_vector_to_unity" then Some (COracle (fun args kws w => Ok (VStr "unit point", w))) else None).
Definition cl_obj (sne kde pri : bool) := VObj "CosmoLikelihood"
  [("_lower_limit", VList [num 0; num 0]); ("_upper_limit", VList [num 150; num 1]); ("param", VObj "ParamManager" []); ("_cosmology", VStr "FLCDM");
   ("_likelihoodLensSample", VObj "LensSampleLikelihood" []); ("_sne_evaluate", VBool sne); ("_sne_likelihood", VObj "SneLikelihood" []);
   ("_kde_evaluate", VBool kde); ("_kde_likelihood", VObj "KDELikelihood" [("chain", VObj "Chain" [("rescale_dic", VStr "ranges")])]); ("_chain_params", VList [VStr "om"; VStr "h0"]);
   ("_prior_add", VBool pri); ("_custom_prior", VObj "Prior" [])].
Open Scope R_scope.
Definition total_value (sne kde pri : bool) : R :=
  let a := Ls in let b := if sne then a + Sn else a in let c := if kde then b + Kd else b in if pri then c + Pr else c.
Theorem total_is_sum_of_switched_terms (sne kde pri : bool) (h om : R) rg cu :
  0 <= h <= 150 -> 0 <= om <= 1 ->
  exists log,
  yields Gt 100 (CFun src_CosmoLikelihood_likelihood) (Some (cl_obj sne kde pri)) [VList [num h; num om]] [] rg cu
    (num (total_value sne kde pri)) cu log
  /\ map fst log = ((if pri then ["prior"] else []) ++ (if kde then ["kde"] else []) ++ (if sne then ["sne"] else []) ++ ["lens"])%list.
Proof.
  intros Hh Ho. unfold total_value.
  destruct sne, kde, pri; eexists; (split; [yields_auto | reflexivity]).
Qed.
End Total.

(* ---------------------------------------------------------------------------------------- *)
(* 7. non-interference: a lens' term does not depend on hyper-parameters that do not apply to it *)
Section NonInterference.
Variable D : list val -> list (string * val) -> R.
Variable K : val -> val.
Definition data_oracle : callee :=
  COracle (fun args kws w => Ok (num (D (tl args) kws), World (rng w) (cur w) (("log_likelihood", tl args ++ map snd kws)%list :: olog w) (decs w) (pc w))).
Definition kin_oracle : callee := COracle (fun args kws w => Ok (K (nth 1 args VNone), w)).
Definition wtab : list (string * list (string * callee)) :=
  [("LensLikelihood",
     [("_displace_ppn", CFun src_TransformedCosmography_displace_ppn);
      ("_displace_lambda_mst", CFun src_TransformedCosmography_displace_lambda_mst);
      ("displace_prediction", CFun src_TransformedCosmography_displace_prediction);
      ("draw_source", CFun src_LensLikelihood_draw_source);
      ("kin_scaling", kin_oracle);
      ("log_likelihood", data_oracle);
      ("log_likelihood_single", CFun src_LensLikelihood_log_likelihood_single)]);
   ("LensDistribution", [("draw_lens", CFun src_LensDistribution_draw_lens)]);
   ("LOSDistribution", [("draw_los", CFun src_LOSDistribution_draw_los)]);
   ("AnisotropyDistribution", [("draw_anisotropy", CFun src_AnisotropyDistribution_draw_anisotropy)]);
   ("PriorLikelihood", [("log_likelihood", CFun src_PriorLikelihood_log_likelihood)])].
Definition Gw : fenv := FEnv (fun cls m => match assoc cls wtab with Some t => assoc m t | None => None end) (fun _ => None).
(* a lens that is (not) IFU-flagged, owns slope number 1 and is assigned to line-of-sight population number 1 *)
Definition lens_self (ifu : bool) : val :=
  VObj "LensLikelihood"
    [("_lens_distribution", VObj "LensDistribution"
        [("_mst_ifu", VBool ifu); ("_lambda_scaling_property", num 0); ("_lambda_scaling_property_beta", num 0);
         ("_lambda_mst_sampling", VBool true); ("_lambda_mst_distribution", VStr "GAUSSIAN");
         ("_gamma_in_sampling", VBool false); ("_log_m2l_sampling", VBool false);
         ("_gamma_pl_model", VBool true); ("gamma_pl_index", VInt 1); ("_gamma_pl_global_sampling", VBool false)]);
     ("_los", VObj "LOSDistribution" [("_draw_kappa_individual", VBool false); ("_draw_kappa_global", VBool true);
                                      ("_global_los_distribution", VInt 1); ("_los_distribution", VStr "GAUSSIAN")]);
     ("_aniso_distribution", VObj "AnisotropyDistribution" [("_anisotropy_sampling", VBool false)]);
     ("_prior", VObj "PriorLikelihood" [("_param_name_list", VList []); ("_param_mean_list", VList []); ("_param_sigma_list", VList [])])].
Open Scope R_scope.
(* the value for sharp lambda and a sharp own LOS population mentions only: the lens' own lambda, its own slope g1, its own population k1.
   The other population's lambda (lam_other), the other slopes (g0, g2) and the other LOS populations (los0, los2: arbitrary values) do not occur. *)
Theorem own_parameters_only (ifu : bool) (ddt dd dl beta lam_own lam_other s_other g g0 g1 g2 k1 mu : R) (los0 los2 : val) (rg : nat -> R) (cu : nat) :
  1/10000 <= (lam_own + 0 * 0 + 0 * 0 + 0 * rg cu) * (1 - (k1 + 0 * rg (S cu))) ->
  let kw_lens := if ifu
     then dict [("lambda_mst", num lam_other); ("lambda_mst_sigma", num s_other); ("lambda_ifu", num lam_own); ("lambda_ifu_sigma", num 0); ("gamma_ppn", num g); ("gamma_pl_list", VList [num g0; num g1; num g2])]
     else dict [("lambda_mst", num lam_own); ("lambda_mst_sigma", num 0); ("lambda_ifu", num lam_other); ("lambda_ifu_sigma", num s_other); ("gamma_ppn", num g); ("gamma_pl_list", VList [num g0; num g1; num g2])] in
  let l := lam_own + 0 * 0 + 0 * 0 + 0 * rg cu in
  let kap := k1 + 0 * rg (S cu) in
  yields Gw 100 (CFun src_LensLikelihood_log_likelihood_single) (Some (lens_self ifu))
    [num ddt; num dd; num dl; num beta; kw_lens; dict []; dict [("mu_sne", num mu); ("sigma_sne", num 0)];
     VList [los0; dict [("mean", num k1); ("sigma", num 0)]; los2]] [] rg cu
    (num (D [VArr [num (ddt * (l * (1 - kap)))]; num (dd * (1 + g) / 2)]
            [("beta_dsp", num beta); ("kin_scaling", K (dict [("lambda_mst", num l); ("gamma_ppn", num g); ("gamma_pl", num g1)]));
             ("sigma_v_sys_error", VNone); ("mu_intrinsic", VArr [num (mu + 0 * rg (S (S cu)) + dl + 5 * log10 (l * (1 - kap)))]);
             ("gamma_pl", num g1); ("lambda_mst", num l)] + 0))
    (S (S (S cu)))
    [("log_likelihood", [VArr [num (ddt * (l * (1 - kap)))]; num (dd * (1 + g) / 2); num beta; K (dict [("lambda_mst", num l); ("gamma_ppn", num g); ("gamma_pl", num g1)]);
                         VNone; VArr [num (mu + 0 * rg (S (S cu)) + dl + 5 * log10 (l * (1 - kap)))]; num g1; num l])].
Proof.
  intros H kw_lens l kap. subst kw_lens.
  assert (Hne : l <> 0) by (intro E; unfold l in E; rewrite E in H; lra).
  unfold yields. destruct ifu; cbn [lens_self] in *.
  - exists [false; false; true]. eexists. split.
    + run. norm_dec. fold l. fold kap.
      replace (l * (1 + - kap)) with (l * (1 - kap)) by ring.
      rewrite Rmax_left by (unfold l, kap; lra).
      unfold num, dict. cbn [map fst snd app].
      replace (dd * (1 + g) / (20 / 10) * l / l) with (dd * (1 + g) / 2) by (field; assumption).
      reflexivity.
    + cbn [decs cur olog pc holds]. repeat split; try reflexivity; try assumption; norm_dec; try lra.
      all: try match goal with |- 0 < Rmax _ ?b => apply Rlt_le_trans with b; [lra | apply Rmax_r] end.
      all: try (unfold l, kap in *; lra).
  - exists [false; false; true]. eexists. split.
    + run. norm_dec. fold l. fold kap.
      replace (l * (1 + - kap)) with (l * (1 - kap)) by ring.
      rewrite Rmax_left by (unfold l, kap; lra).
      unfold num, dict. cbn [map fst snd app].
      replace (dd * (1 + g) / (20 / 10) * l / l) with (dd * (1 + g) / 2) by (field; assumption).
      reflexivity.
    + cbn [decs cur olog pc holds]. repeat split; try reflexivity; try assumption; norm_dec; try lra.
      all: try match goal with |- 0 < Rmax _ ?b => apply Rlt_le_trans with b; [lra | apply Rmax_r] end.
      all: try (unfold l, kap in *; lra).
Qed.
End NonInterference.
