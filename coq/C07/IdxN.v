(* C07 - "the j-th sampled slope goes to the j-th slope lens", for a sample of ANY size: the constructor of LensSampleLikelihood gives the lenses
   that interpolate over their own power-law slope the indices 0, 1, 2, ... in list order, None to all others, and reports their number - by
   induction over the interpreter's loop over the lens list (three lens shapes: no scaling list, a scaling list without gamma_pl, one with it;
   the real _merge_global2local_settings is executed; the LensLikelihood class is an oracle that records gamma_pl_index and name).  The loop
   writes each (unchanged) lens dictionary back into the list: resolved by a lemma, as in C05/ZMaxN.v.  Source = C07.Src (regenerated). *)
From Coq Require Import Reals ZArith String List Bool Lia.
Require Import Py.PyAst Py.PyVal Py.PySem Py.XLemmas Py.Unfold Py.Tactics Py.Sym.
Require Import C07.Src C07.Model.
Import ListNotations.
Open Scope string_scope.

Lemma call_class G f cls fd self args kws w : call G (S f) (CClass cls fd) self args kws w = call G f (CFun fd) (Some (VObj cls [])) args kws w.
Proof. reflexivity. Qed.
Lemma list_set_mid {A} (f : A -> val) (pre : list A) x rest : list_set (map f (pre ++ x :: rest)) (length pre) (f x) = Some (map f (pre ++ x :: rest)).
Proof. induction pre as [|p pre IH]; cbn [app map length list_set]; [reflexivity|]. rewrite IH. reflexivity. Qed.

Inductive kind := Plain | NoSlope | Slope.
Definition mkL (s : kind * string) : val := match fst s with Plain => L_plain (snd s) | NoSlope => L_noslope (snd s) | Slope => L_slope (snd s) end.
Definition idxv (kd : kind) (c : Z) : val := match kd with Slope => VInt c | _ => VNone end.
Definition newc (kd : kind) (c : Z) : Z := match kd with Slope => (c + 1)%Z | _ => c end.
Definition kspv (kd : kind) : val := match kd with Slope => VList [VStr "a_ani"; VStr "gamma_pl"] | _ => VList [VStr "a_ani"] end.
(* which loop variables exist, and in which order they were first assigned *)
Inductive layout := L0 | LA (kl gi kl_ : val) | LB (kl gi ksp kl_ : val) | LC (kl gi kl_ ksp : val).
Definition extraE (l : layout) : env :=
  match l with
  | L0 => []
  | LA a b c => [("kwargs_lens", a); ("gamma_pl_index_", b); ("kwargs_lens_", c)]
  | LB a b k c => [("kwargs_lens", a); ("gamma_pl_index_", b); ("kin_scaling_param_list", k); ("kwargs_lens_", c)]
  | LC a b c k => [("kwargs_lens", a); ("gamma_pl_index_", b); ("kwargs_lens_", c); ("kin_scaling_param_list", k)]
  end.
Definition next_lay (l : layout) (kd : kind) (nm : string) (c : Z) : layout :=
  let kl := mkL (kd, nm) in let gi := idxv kd c in
  match l, kd with
  | L0, Plain | LA _ _ _, Plain => LA kl gi kl
  | L0, _ => LB kl gi (kspv kd) kl
  | LA _ _ _, _ => LC kl gi kl (kspv kd)
  | LB _ _ k _, Plain => LB kl gi k kl
  | LB _ _ _ _, _ => LB kl gi (kspv kd) kl
  | LC _ _ _ k, Plain => LC kl gi kl k
  | LC _ _ _ _, _ => LC kl gi kl (kspv kd)
  end.
Definition envX (L acc : list val) (c : Z) (lay : layout) : env :=
  ([("self", VObj "LensSampleLikelihood" [("_lens_list", VList acc); ("_gamma_pl_num", VInt c)]); ("kwargs_lens_list", VList L); ("normalized", VBool false);
    ("kwargs_global_model", VDict []); ("gamma_pl_index", VInt c); ("gamma_pl_global_sampling", VBool false)] ++ extraE lay)%list.
Definition bodyX := match src_LensSampleLikelihood_init with FunDef _ _ _ _ b => match nth 5 b SPass with SFor _ _ bb => bb | _ => [] end end.
Definition stepX := for_step (eval Gi 77) (exec Gi 77) 77 (EName "kwargs_lens") (EName "kwargs_lens_list") bodyX.
Ltac RUNW tm := let r := eval lazy -[Z.add list_set Z.to_nat Z.of_nat] in tm in change tm with r.
Ltac RUNI tm := let r := eval lazy -[Z.add mkL] in tm in change tm with r.

Lemma stepX_one (L acc : list val) c lay kd nm k w :
  list_set L k (mkL (kd, nm)) = Some L ->
  stepX (mkL (kd, nm)) (Z.of_nat k) (envX L acc c lay) w
  = Ok (ONormal (envX L (acc ++ [lens_out nm (idxv kd c)]) (newc kd c) (next_lay lay kd nm c)), w).
Proof.
  intros HL. destruct lay; destruct kd;
  unfold stepX, envX, extraE, next_lay, idxv, newc, kspv, lens_out; unfold mkL, L_plain, L_noslope, L_slope, dict in HL |- *;
  cbn [fst snd map app] in HL |- *;
  (match goal with |- ?L0 = _ => RUNW L0 end); rewrite Nat2Z.id, HL; reflexivity.
Qed.

(* the lens objects the constructor appends, and the running number of slope lenses *)
Fixpoint outs (c : Z) (specs : list (kind * string)) : list val :=
  match specs with [] => [] | (kd, nm) :: r => lens_out nm (idxv kd c) :: outs (newc kd c) r end.
Fixpoint cnt (c : Z) (specs : list (kind * string)) : Z := match specs with [] => c | (kd, nm) :: r => cnt (newc kd c) r end.
Lemma loopX rest : forall pre acc c lay w,
  exists lay',
  iter_loop stepX (map mkL rest) (Z.of_nat (length pre)) (envX (map mkL (pre ++ rest)) acc c lay) w
  = Ok (ONormal (envX (map mkL (pre ++ rest)) (acc ++ outs c rest) (cnt c rest) lay'), w).
Proof.
  induction rest as [|[kd nm] r IH]; intros pre acc c lay w.
  - exists lay. cbn [map iter_loop outs cnt]. rewrite (app_nil_r acc). reflexivity.
  - cbn [map iter_loop outs cnt].
    rewrite (stepX_one (map mkL (pre ++ (kd, nm) :: r)) acc c lay kd nm (length pre) w (list_set_mid mkL pre (kd, nm) r)).
    cbn [bind fst snd]. rewrite (Sym_app_snoc pre (kd, nm) r).
    replace (Z.of_nat (length pre) + 1)%Z with (Z.of_nat (length (pre ++ [(kd, nm)]))) by (rewrite app_length; cbn [length]; lia).
    destruct (IH (pre ++ [(kd, nm)])%list (acc ++ [lens_out nm (idxv kd c)])%list (newc kd c) (next_lay lay kd nm c) w) as [lay' E].
    exists lay'. rewrite E. rewrite <- (app_assoc acc [lens_out nm (idxv kd c)] (outs (newc kd c) r)). reflexivity.
Qed.

Definition finishX (ow : outcome * world) : res (val * world) :=
  match fst ow with
  | ONormal ρ' => Ok (match lookup "self" ρ' with Some o => o | None => VNone end, snd ow)
  | OReturn v => Ok (v, snd ow)
  | OTail o targs tkws => o targs tkws (snd ow)
  end.
Lemma prefixX specs w :
  call Gi 80 (CClass "LensSampleLikelihood" src_LensSampleLikelihood_init) None [VList (map mkL specs)] [] w
  = (do ow <- seq_out (iter_loop stepX (map mkL specs) 0%Z (envX (map mkL specs) [] 0 L0) w) (fun ρ' w' => Ok (ONormal ρ', w')); finishX ow).
Proof.
  rewrite call_class, call_fun.
  cbv beta zeta delta [f_static f_params f_kwarg f_body f_name src_LensSampleLikelihood_init] iota.
  (match goal with |- context [bind_params ?a ?b ?c ?d] => RUNI (bind_params a b c d) end).
  cbn [bind fst snd]. rewrite exec_S.
  (match goal with |- context [run_stmts ?st ?body ?r ?w0] =>
     change (run_stmts st body r w0) with (run_stmts st (firstn 5 body ++ skipn 5 body) r w0) end).
  rewrite run_stmts_app. cbn [firstn].
  (match goal with |- context [seq_out (run_stmts ?st ?l ?r ?w0) _] => RUNI (run_stmts st l r w0) end).
  cbn [seq_out bind fst snd skipn]. rewrite run_stmts_one. cbn [exec_stmt].
  (match goal with |- context [eval Gi 77 ?c ?r ?w0] => RUNI (eval Gi 77 c r w0) end).
  cbn [bind fst snd as_list].
  unfold stepX, bodyX, envX, extraE, finishX.
  cbv beta iota zeta delta [src_LensSampleLikelihood_init nth]. cbn [app String.eqb Ascii.eqb Bool.eqb].
  reflexivity.
Qed.
Theorem slope_indices_any_sample specs w :
  call Gi 80 (CClass "LensSampleLikelihood" src_LensSampleLikelihood_init) None [VList (map mkL specs)] [] w
  = Ok (VObj "LensSampleLikelihood" [("_lens_list", VList (outs 0 specs)); ("_gamma_pl_num", VInt (cnt 0 specs))], w).
Proof.
  rewrite prefixX. destruct (loopX specs [] [] 0%Z L0 w) as [lay' E]. cbn [app length Z.of_nat] in E. rewrite E.
  cbn [seq_out bind fst snd]. unfold finishX, envX. cbn [fst snd app lookup String.eqb Ascii.eqb Bool.eqb]. reflexivity.
Qed.

(* what the indices are: the number of slope lenses BEFORE the lens; and the reported number is the number of slope lenses *)
Lemma zhelp (c n : Z) : (c + 1 + n = c + (n + 1))%Z. Proof. ring. Qed.
Definition is_slope (s : kind * string) : bool := match fst s with Slope => true | _ => false end.
Lemma cnt_counts specs : forall c, cnt c specs = (c + Z.of_nat (length (filter is_slope specs)))%Z.
Proof. induction specs as [|[kd nm] r IH]; intros c; [cbn [cnt filter length]; lia|]. cbn [cnt]. rewrite IH. destruct kd; cbn -[Z.of_nat Z.add]; rewrite ?Nat2Z.inj_succ; try reflexivity; unfold Z.succ; apply zhelp. Qed.
Lemma outs_nth specs : forall c pre kd nm rest, specs = (pre ++ (kd, nm) :: rest)%list ->
  nth_error (outs c specs) (length pre) = Some (lens_out nm (idxv kd (c + Z.of_nat (length (filter is_slope pre))))).
Proof.
  intros c pre. revert c specs. induction pre as [|[kp np] pre IH]; intros c specs kd nm rest ->.
  - cbn [app outs length nth_error filter]. rewrite Z.add_0_r. reflexivity.
  - cbn [app outs length nth_error]. rewrite (IH (newc kp c) _ kd nm rest eq_refl). cbn [filter].
    destruct kp; cbn -[Z.of_nat Z.add]; rewrite ?Nat2Z.inj_succ; unfold Z.succ; rewrite ?zhelp; reflexivity.
Qed.
