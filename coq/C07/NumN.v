(* C07 - the number of data points of a sample of ANY size: LensSampleLikelihood.num_data is the sum over the lenses of what each lens
   reports (an integer attribute of its likelihood, or - double source plane - the method that returns 1), by induction over the
   interpreter's loop `for lens in self._lens_list: num += lens.num_data()`; the per-lens count is computed by the REAL source of
   LensLikelihoodBase.num_data / DSPLikelihood.num_data.  Source = C07.Src (regenerated). *)
From Coq Require Import Reals ZArith String List Bool Lia.
Require Import Py.PyAst Py.PyVal Py.PySem Py.XLemmas Py.Unfold Py.Tactics.
Require Import C07.Src C07.Model.
Import ListNotations.
Open Scope string_scope.

Definition lensK (k : option Z) : val := match k with Some n => lens_attr n | None => lens_dspl end.
Definition ndK (k : option Z) : Z := match k with Some n => n | None => 1%Z end.
Definition bodyN := match src_LensSampleLikelihood_num_data with FunDef _ _ _ _ b => match nth 1 b SPass with SFor _ _ bb => bb | _ => [] end end.
Definition itN := match src_LensSampleLikelihood_num_data with FunDef _ _ _ _ b => match nth 1 b SPass with SFor _ it _ => it | _ => ENone end end.
Definition envN (selfv : val) (acc : Z) (prev : option (option Z)) : env :=
  ([("self", selfv); ("num", VInt acc)] ++ match prev with Some k => [("lens", lensK k)] | None => [] end)%list.
Definition stepN := for_step (eval Gn 58) (exec Gn 58) 58 (EName "lens") itN bodyN.
Ltac RUNN tm := let r := eval lazy -[Z.add] in tm in change tm with r.
Lemma stepN_one selfv acc prev k idx w :
  stepN (lensK k) idx (envN selfv acc prev) w = Ok (ONormal (envN selfv (acc + ndK k)%Z (Some k)), w).
Proof.
  destruct prev as [[p|]|]; destruct k as [n|]; unfold stepN, envN, lensK, ndK, lens_attr, lens_dspl; cbn [app];
  (match goal with |- ?L = _ => RUNN L end); reflexivity.
Qed.
Fixpoint totalN (acc : Z) (ks : list (option Z)) : Z := match ks with [] => acc | k :: r => totalN (acc + ndK k)%Z r end.
Lemma loopN selfv ks : forall acc prev idx w,
  exists prev', iter_loop stepN (map lensK ks) idx (envN selfv acc prev) w = Ok (ONormal (envN selfv (totalN acc ks) prev'), w).
Proof.
  induction ks as [|k r IH]; intros acc prev idx w; [exists prev; reflexivity|].
  cbn [map iter_loop totalN]. rewrite stepN_one. cbn [bind fst snd]. destruct (IH (acc + ndK k)%Z (Some k) (idx + 1)%Z w) as [p E]. exists p. exact E.
Qed.
Lemma totalN_sum ks : forall acc, totalN acc ks = (acc + fold_right (fun k s => ndK k + s) 0 ks)%Z.
Proof. induction ks as [|k r IH]; intros acc; cbn [totalN fold_right]; [lia|]. rewrite IH. lia. Qed.

Definition afterN (ρ' : env) (w' : world) :=
  run_stmts (exec_stmt (tails Gn) (runms Gn 58) (eval Gn 58) (evals_with (eval Gn 58)) (exec Gn 58) 58)
            (match src_LensSampleLikelihood_num_data with FunDef _ _ _ _ b => skipn 2 b end) ρ' w'.
Definition finishN (ow : outcome * world) : res (val * world) :=
  match fst ow with
  | ONormal ρ' => Ok (VNone, snd ow)
  | OReturn v => Ok (v, snd ow)
  | OTail o targs tkws => o targs tkws (snd ow)
  end.
Definition sampleN (ks : list (option Z)) := VObj "LensSampleLikelihood" [("_lens_list", VList (map lensK ks))].
Lemma prefixN ks w :
  call Gn 60 (CFun src_LensSampleLikelihood_num_data) (Some (sampleN ks)) [] [] w
  = (do ow <- seq_out (iter_loop stepN (map lensK ks) 0%Z (envN (sampleN ks) 0 None) w) afterN; finishN ow).
Proof.
  rewrite call_fun.
  cbv beta zeta delta [f_static f_params f_kwarg f_body f_name src_LensSampleLikelihood_num_data] iota.
  (match goal with |- context [bind_params ?a ?b ?c ?d] => RUNN (bind_params a b c d) end).
  cbn [bind fst snd]. rewrite exec_S, run_stmts_cons.
  (match goal with |- context [seq_out (exec_stmt ?t ?rm ?a ?es ?b ?c ?d ?e ?f) _] => RUNN (exec_stmt t rm a es b c d e f) end).
  cbn [seq_out bind fst snd]. rewrite run_stmts_cons. cbn [exec_stmt].
  (match goal with |- context [eval Gn 58 ?c ?r ?w0] => RUNN (eval Gn 58 c r w0) end).
  cbn [bind fst snd as_list].
  unfold stepN, itN, bodyN, envN, sampleN, afterN, finishN.
  cbv beta iota zeta delta [src_LensSampleLikelihood_num_data nth skipn]. cbn [app String.eqb Ascii.eqb Bool.eqb].
  reflexivity.
Qed.
Lemma suffixN selfv acc prev w : afterN (envN selfv acc prev) w = Ok (OReturn (VInt acc), w).
Proof.
  destruct prev as [[p|]|]; unfold afterN, envN, lensK, lens_attr, lens_dspl; cbv beta iota zeta delta [src_LensSampleLikelihood_num_data skipn]; cbn [app];
  (match goal with |- ?L = _ => RUNN L end); reflexivity.
Qed.
Theorem num_data_any_sample ks w :
  call Gn 60 (CFun src_LensSampleLikelihood_num_data) (Some (sampleN ks)) [] [] w
  = Ok (VInt (fold_right (fun k s => ndK k + s) 0 ks)%Z, w).
Proof.
  rewrite prefixN. destruct (loopN (sampleN ks) ks 0%Z None 0%Z w) as [p E]. rewrite E. cbn [seq_out bind fst snd].
  rewrite suffixN. unfold finishN. cbn [fst snd]. rewrite totalN_sum. reflexivity.
Qed.
