(* C07 — property theorems only. Source = C07.Src, regenerated from /repo on this run. *)
From Coq Require Import Reals ZArith String List Bool Lra Permutation.
Require Import Py.PyAst Py.PyVal Py.PySem Py.XLemmas.
Require Import C07.Src C07.Model C07.NumN C07.IdxN.
Import ListNotations.
Open Scope string_scope.
Open Scope R_scope.

(* the sample log-likelihood is the sum of the lens terms, each lens called exactly once in list order with the SAME cosmology and
   hyper-parameter dictionaries — for lens lists of ANY length (induction over the loop), arbitrary lens terms *)
Theorem C07_additive : forall (tfun : Z -> val -> val -> val -> val -> val -> R) c a1 a2 a3 a4 (ks : list Z) rg cu,
  yields (Ga tfun) 100 (CFun src_LensSampleLikelihood_log_likelihood) (Some (VObj "LensSampleLikelihood" [("_lens_list", VList (map lens_k ks))]))
    [c; a1; a2; a3; a4] [] rg cu
    (match ks with [] => VInt 0 | _ => num (total tfun c a1 a2 a3 a4 0 ks) end) cu (logA ks []).
Proof. exact sample_is_sum. Qed.
Print Assumptions C07_additive.
Example C07_total_unfolds : forall tfun c a1 a2 a3 a4, total tfun c a1 a2 a3 a4 0 [3; 5]%Z = 0 + tfun 3%Z c a1 a2 a3 a4 + tfun 5%Z c a1 a2 a3 a4.
Proof. reflexivity. Qed.
(* invariant under re-ordering the lens list *)
Theorem C07_permutation : forall tfun c a1 a2 a3 a4 ks ks', Permutation ks ks' -> total tfun c a1 a2 a3 a4 0 ks = total tfun c a1 a2 a3 a4 0 ks'.
Proof. exact total_permutation. Qed.
(* ... including the per-lens slopes, re-ordered accordingly *)
Theorem C07_permutation_slopes : forall (A : Type) (has_slope : A -> bool) (term : A -> option R -> R) p p',
  consistent A has_slope p -> Permutation p p' ->
  total_s A has_slope term (map fst p') (extract A has_slope p') = total_s A has_slope term (map fst p) (extract A has_slope p).
Proof. exact reorder_invariant. Qed.
Print Assumptions C07_permutation_slopes.

(* the total adds the supernova, chain-KDE and custom-prior terms to the lens sum, each iff its switch is on, each evaluated once *)
Theorem C07_total : forall (Ls Sn Kd Pr : R) (kl kk klos : val) (sne kde pri : bool) (h om : R) rg cu,
  0 <= h <= 150 -> 0 <= om <= 1 ->
  exists log,
  yields (Gt Ls Sn Kd Pr kl kk klos) 100 (CFun src_CosmoLikelihood_likelihood) (Some (cl_obj sne kde pri)) [VList [num h; num om]] [] rg cu
    (num (total_value Ls Sn Kd Pr sne kde pri)) cu log
  /\ map fst log = ((if pri then ["prior"] else []) ++ (if kde then ["kde"] else []) ++ (if sne then ["sne"] else []) ++ ["lens"])%list.
Proof. intros. apply total_is_sum_of_switched_terms; assumption. Qed.
Print Assumptions C07_total.

(* local settings override global ones; only whitelisted global keys are inherited (the whitelist is the source's own constant) *)
Theorem C07_merge : forall vg1 vg2 vg3 vl2 vl4 rg cu,
  yields Gm 60 (CFun src_LensSampleLikelihood_merge_global2local_settings) None []
    [("kwargs_global_model", dict [("anisotropy_model", vg1); ("log_scatter", vg2); ("not_a_lens_setting", vg3)]);
     ("kwargs_lens", dict [("log_scatter", vl2); ("z_lens", vl4)])] rg cu
    (dict [("anisotropy_model", vg1); ("log_scatter", vl2); ("z_lens", vl4)]) cu [].
Proof. exact merge_local_over_global. Qed.
Print Assumptions C07_merge.

(* slope parameters: lenses that interpolate over slope are numbered 0,1,2,... in list order; their number is gamma_pl_num *)
Theorem C07_gamma_pl_index : forall rg cu,
  yields Gi 80 (CClass "LensSampleLikelihood" src_LensSampleLikelihood_init) None
    [VList [L_plain "a"; L_slope "b"; L_noslope "c"; L_slope "d"; L_slope "e"]] [] rg cu
    (VObj "LensSampleLikelihood" [("_lens_list", VList [lens_out "a" VNone; lens_out "b" (VInt 0); lens_out "c" VNone; lens_out "d" (VInt 1); lens_out "e" (VInt 2)]);
                                  ("_gamma_pl_num", VInt 3)]) cu []
  /\ yields Gi 80 (CClass "LensSampleLikelihood" src_LensSampleLikelihood_init) None
    [VList [L_plain "a"; L_slope "b"; L_slope "d"]] [("kwargs_global_model", dict [("gamma_pl_global_sampling", VBool true)])] rg cu
    (VObj "LensSampleLikelihood" [("_lens_list", VList [lens_out "a" VNone; lens_out "b" VNone; lens_out "d" VNone]); ("_gamma_pl_num", VInt 0)]) cu [].
Proof. intros. split; [apply slope_indices | apply slope_indices_global]. Qed.
Theorem C07_slope_count : forall (A : Type) (has_slope : A -> bool) p, consistent A has_slope p ->
  length (extract A has_slope p) = length (filter (fun lg => has_slope (fst lg)) p).
Proof. exact extract_length. Qed.

(* a lens' term mentions only its own lambda population, its own slope and its own line-of-sight population *)
Theorem C07_noninterference : forall (D : list val -> list (string * val) -> R) (K : val -> val)
    (ifu : bool) (ddt dd dl beta lam_own lam_other s_other g g0 g1 g2 k1 mu : R) (los0 los2 : val) (rg : nat -> R) (cu : nat),
  1/10000 <= (lam_own + 0 * 0 + 0 * 0 + 0 * rg cu) * (1 - (k1 + 0 * rg (S cu))) ->
  let kw_lens := if ifu
     then dict [("lambda_mst", num lam_other); ("lambda_mst_sigma", num s_other); ("lambda_ifu", num lam_own); ("lambda_ifu_sigma", num 0); ("gamma_ppn", num g); ("gamma_pl_list", VList [num g0; num g1; num g2])]
     else dict [("lambda_mst", num lam_own); ("lambda_mst_sigma", num 0); ("lambda_ifu", num lam_other); ("lambda_ifu_sigma", num s_other); ("gamma_ppn", num g); ("gamma_pl_list", VList [num g0; num g1; num g2])] in
  let l := lam_own + 0 * 0 + 0 * 0 + 0 * rg cu in
  let kap := k1 + 0 * rg (S cu) in
  yields (Gw D K) 100 (CFun src_LensLikelihood_log_likelihood_single) (Some (lens_self ifu))
    [num ddt; num dd; num dl; num beta; kw_lens; dict []; dict [("mu_sne", num mu); ("sigma_sne", num 0)];
     VList [los0; dict [("mean", num k1); ("sigma", num 0)]; los2]] [] rg cu
    (num (D [VArr [num (ddt * (l * (1 - kap)))]; num (dd * (1 + g) / 2)]
            [("beta_dsp", num beta); ("kin_scaling", K (dict [("lambda_mst", num l); ("gamma_ppn", num g); ("gamma_pl", num g1)]));
             ("sigma_v_sys_error", VNone); ("mu_intrinsic", VArr [num (mu + 0 * rg (S (S cu)) + dl + 5 * log10 (l * (1 - kap)))]);
             ("gamma_pl", num g1); ("lambda_mst", num l)] + 0))
    (S (S (S cu)))
    [("log_likelihood", [VArr [num (ddt * (l * (1 - kap)))]; num (dd * (1 + g) / 2); num beta; K (dict [("lambda_mst", num l); ("gamma_ppn", num g); ("gamma_pl", num g1)]);
                         VNone; VArr [num (mu + 0 * rg (S (S cu)) + dl + 5 * log10 (l * (1 - kap)))]; num g1; num l])].
Proof. exact own_parameters_only. Qed.
Print Assumptions C07_noninterference.
(* (supernova magnitudes / anisotropy reach only the types that consume them: C06_dispatch; no kinematic grid -> scaling 1: C10_not_configured) *)

(* number of data points: an integer for attribute-style AND method-style (DSPL) types; the sample count is their sum *)
Theorem C07_num_data : forall n n1 n2 rg cu,
  yields Gn 40 (CFun src_LensLikelihoodBase_num_data) (Some (lens_attr n)) [] [] rg cu (VInt n) cu []
  /\ yields Gn 40 (CFun src_LensLikelihoodBase_num_data) (Some lens_dspl) [] [] rg cu (VInt 1) cu []
  /\ yields Gn 60 (CFun src_LensSampleLikelihood_num_data) (Some (VObj "LensSampleLikelihood" [("_lens_list", VList [lens_attr n1; lens_dspl; lens_attr n2])])) [] [] rg cu
       (VInt (0 + n1 + 1 + n2)) cu [].
Proof. intros. split; [apply num_data_attribute | split; [apply num_data_method | apply num_data_sample]]. Qed.
Print Assumptions C07_num_data.

(* THE NUMBER OF DATA POINTS OF A SAMPLE OF ANY SIZE (induction over the interpreter's loop, NumN.v): the sum over the lenses of what each
   reports - the integer attribute of its likelihood ([Some n]) or, for a double-source-plane lens ([None]), the method returning 1 *)
Theorem C07_num_data_of_a_sample_of_any_size : forall (ks : list (option Z)) (w : world),
  call Gn 60 (CFun src_LensSampleLikelihood_num_data) (Some (sampleN ks)) [] [] w
  = Ok (VInt (fold_right (fun k s => ndK k + s) 0 ks)%Z, w).
Proof. exact num_data_any_sample. Qed.
Print Assumptions C07_num_data_of_a_sample_of_any_size.

(* THE SLOPE INDICES FOR A SAMPLE OF ANY SIZE (induction over the constructor's loop, IdxN.v): whatever the number and the order of the lenses
   (each without a scaling list, with one that lacks gamma_pl, or with one that has it), the constructed sample holds one lens object per
   lens, in list order; a lens gets a slope index iff it interpolates over its own slope, and then the index is the NUMBER OF SLOPE LENSES
   BEFORE IT (so the j-th sampled slope belongs to the j-th slope lens); the reported number of slopes is the number of slope lenses. *)
Theorem C07_slope_indices_for_a_sample_of_any_size : forall (specs : list (kind * string)) (w : world),
  call Gi 80 (CClass "LensSampleLikelihood" src_LensSampleLikelihood_init) None [VList (map mkL specs)] [] w
  = Ok (VObj "LensSampleLikelihood" [("_lens_list", VList (outs 0 specs)); ("_gamma_pl_num", VInt (cnt 0 specs))], w)
  /\ cnt 0 specs = Z.of_nat (length (filter is_slope specs))
  /\ length (outs 0 specs) = length specs
  /\ (forall pre kd nm rest, specs = (pre ++ (kd, nm) :: rest)%list ->
       nth_error (outs 0 specs) (length pre) = Some (lens_out nm (idxv kd (Z.of_nat (length (filter is_slope pre)))))).
Proof.
  intros specs w. split; [apply slope_indices_any_sample|]. split; [rewrite cnt_counts; reflexivity|]. split.
  - generalize 0%Z. induction specs as [|[kd nm] r IH]; intros c; cbn [outs length]; [reflexivity|]. rewrite IH. reflexivity.
  - intros pre kd nm rest E. rewrite (outs_nth specs 0%Z pre kd nm rest E). reflexivity.
Qed.
Print Assumptions C07_slope_indices_for_a_sample_of_any_size.
Example C07_slope_indices_instance :
  outs 0 [(Plain, "a"); (Slope, "b"); (NoSlope, "c"); (Slope, "d"); (Slope, "e")]
  = [lens_out "a" VNone; lens_out "b" (VInt 0); lens_out "c" VNone; lens_out "d" (VInt 1); lens_out "e" (VInt 2)].
Proof. reflexivity. Qed.
