(* C19 — property theorems only. Source = C19.Src, regenerated from /repo on this run. *)
From Coq Require Import Reals ZArith String List Bool Lra.
Require Import Py.PyAst Py.PyVal Py.PySem Py.XLemmas.
Require Import C19.Src C19.Like C19.Kin C19.Flrw C19.Dist C19.Wiring C19.Cor.
Import ListNotations.
Open Scope string_scope.
Open Scope R_scope.

(* H0 -> c H0 divides every FLRW distance by c (all four models are instances of Flrw.DA12) ... *)
Theorem C19_h0_only_rescales_distances : forall H0 c om ok w0 wa z1 z2, H0 <> 0 -> c <> 0 -> 1 + z2 <> 0 ->
  DA12 (c * H0) om ok w0 wa z1 z2 = DA12 H0 om ok w0 wa z1 z2 / c.
Proof. exact DA12_h0_scaling. Qed.
Print Assumptions C19_h0_only_rescales_distances.
(* ... so that, for ANY provider scaled by 1/c: Ddt and Dd are divided by c, while beta, Ddt/Dd and the modulus difference are unchanged *)
Theorem C19_scaled_provider : forall (DA : R -> R) (DA12 : R -> R -> R) c, 0 < c ->
  (forall zl zs, DA12 zl zs <> 0 -> ddt_f (DAc DA c) (DA12c DA12 c) zl zs = ddt_f DA DA12 zl zs / c) /\
  (forall zl z1 z2, DA z1 <> 0 -> DA12 zl z2 <> 0 -> beta_f (DAc DA c) (DA12c DA12 c) zl z1 z2 = beta_f DA DA12 zl z1 z2) /\
  (forall zl zs, DA zl <> 0 -> DA12 zl zs <> 0 -> ddt_f (DAc DA c) (DA12c DA12 c) zl zs / DAc DA c zl = ddt_f DA DA12 zl zs / DA zl) /\
  (forall zs za, 0 < DA zs -> 0 < DA za -> -1 < zs -> -1 < za ->
     5 * log10 ((1 + zs) * (1 + zs) * DAc DA c zs) - 5 * log10 ((1 + za) * (1 + za) * DAc DA c za)
     = 5 * log10 ((1 + zs) * (1 + zs) * DA zs) - 5 * log10 ((1 + za) * (1 + za) * DA za)).
Proof.
  intros DA DA12 c Hc. repeat split.
  - intros; apply ddt_scales; assumption.
  - intros; apply beta_invariant; assumption.
  - intros; apply dd_ratio_invariant; assumption.
  - intros; apply modulus_invariant; assumption.
Qed.
(* the mass-sheet / PPN displacement commutes with that scaling, for all hyper-parameter values *)
Theorem C19_displacement_commutes : forall ddt dd g lam kap m c, 0 < c ->
  disp (ddt / c) (dd / c) g lam kap m = (fst (fst (disp ddt dd g lam kap m)) / c, snd (fst (disp ddt dd g lam kap m)) / c, snd (disp ddt dd g lam kap m)).
Proof. exact displacement_commutes. Qed.

(* ratio types: the serialised data likelihoods at (Ddt/c, Dd/c) return the SAME value as at (Ddt, Dd) *)
Theorem C19_kinematics_blind : forall C zl v0 v1 j0 j1 m00 m01 m10 m11 q00 q01 q10 q11 p00 p01 p10 p11 L ddt dd s0 s1 c,
  0 < c -> 0 < dd -> 0 <= ddt -> 0 < 1 + zl -> 0 <= j0 -> 0 <= j1 -> 0 <= s0 -> 0 <= s1 ->
  exists v cov ds1 w1 ds2 w2,
    call (Kin.G C p00 p01 p10 p11 L) 200 (CFun src_KinLikelihood_log_likelihood) (Some (kin_obj zl v0 v1 j0 j1 m00 m01 m10 m11 q00 q01 q10 q11 true))
         [Kin.num (ddt / c); Kin.num (dd / c)] [("kin_scaling", vec [s0; s1])] (World (fun _ => 0) 0 [] ds1 []) = Ok (v, w1)
    /\ decs w1 = [] /\ olog w1 = [("inv", [cov])] /\ holds (pc w1) /\
    call (Kin.G C p00 p01 p10 p11 L) 200 (CFun src_KinLikelihood_log_likelihood) (Some (kin_obj zl v0 v1 j0 j1 m00 m01 m10 m11 q00 q01 q10 q11 true))
         [Kin.num ddt; Kin.num dd] [("kin_scaling", vec [s0; s1])] (World (fun _ => 0) 0 [] ds2 []) = Ok (v, w2)
    /\ decs w2 = [] /\ olog w2 = [("inv", [cov])] /\ holds (pc w2).
Proof. exact kin_blind_to_h0. Qed.
Print Assumptions C19_kinematics_blind.
Theorem C19_ds_dds_blind : forall zl zs mu sg ddt dd s0 c rg cu, sg <> 0 -> dd <> 0 -> 1 + zl <> 0 -> s0 <> 0 -> 0 < c ->
  exists o v,
  yields Like.G 60 (CClass "DsDdsGaussianLikelihood" src_DsDdsGaussianLikelihood_init) None [Cor.num zl; Cor.num zs; Cor.num mu; Cor.num sg] [] rg cu o cu []
  /\ yields Like.G 60 (CFun src_DsDdsGaussianLikelihood_log_likelihood) (Some o) [Cor.num (ddt / c); Cor.num (dd / c)] [("kin_scaling", vec [s0])] rg cu (Cor.num v) cu []
  /\ yields Like.G 60 (CFun src_DsDdsGaussianLikelihood_log_likelihood) (Some o) [Cor.num ddt; Cor.num dd] [("kin_scaling", vec [s0])] rg cu (Cor.num v) cu [].
Proof. exact ds_dds_blind_to_h0. Qed.
(* double source plane and magnification never receive Ddt or Dd at all: only beta (invariant), and the source magnitude + modulus difference (invariant) *)
Theorem C19_dspl_mag_arguments : forall ret, dispatch_ok ret "DSPL" /\ dispatch_ok ret "Mag" /\ dispatch_ok ret "IFUKinCov" /\ dispatch_ok ret "DsDdsGaussian".
Proof. exact ratio_types_arguments. Qed.

(* time-delay types: H0 x c together with (measured distance scale, uncertainty) / c leaves the Gaussian value unchanged, and changes the
   log-normal value by exactly ln c, independent of every sampled parameter *)
Theorem C19_ddt_gauss : forall zl zs mu sg ddt dd c rg cu, sg <> 0 -> 0 < c ->
  exists o o' v,
  yields Like.G 60 (CClass "DdtGaussianLikelihood" src_DdtGaussianLikelihood_init) None [Cor.num zl; Cor.num zs; Cor.num (mu / c); Cor.num (sg / c)] [] rg cu o cu []
  /\ yields Like.G 60 (CFun src_DdtGaussianLikelihood_log_likelihood) (Some o) [Cor.num (ddt / c); Cor.num (dd / c)] [] rg cu (Cor.num v) cu []
  /\ yields Like.G 60 (CClass "DdtGaussianLikelihood" src_DdtGaussianLikelihood_init) None [Cor.num zl; Cor.num zs; Cor.num mu; Cor.num sg] [] rg cu o' cu []
  /\ yields Like.G 60 (CFun src_DdtGaussianLikelihood_log_likelihood) (Some o') [Cor.num ddt; Cor.num dd] [] rg cu (Cor.num v) cu [].
Proof. exact ddt_gauss_h0_times_scale. Qed.
Theorem C19_ddt_lognorm : forall zl zs mu sg ddt dd c rg cu, sg <> 0 -> 0 < ddt -> 0 < c ->
  exists o o' v,
  yields Like.G 60 (CClass "DdtLogNormLikelihood" src_DdtLogNormLikelihood_init) None [Cor.num zl; Cor.num zs; Cor.num (mu - ln c); Cor.num sg] [] rg cu o cu []
  /\ yields Like.G 60 (CFun src_DdtLogNormLikelihood_log_likelihood) (Some o) [Cor.num (ddt / c); Cor.num (dd / c)] [] rg cu (Cor.num (v + ln c)) cu []
  /\ yields Like.G 60 (CClass "DdtLogNormLikelihood" src_DdtLogNormLikelihood_init) None [Cor.num zl; Cor.num zs; Cor.num mu; Cor.num sg] [] rg cu o' cu []
  /\ yields Like.G 60 (CFun src_DdtLogNormLikelihood_log_likelihood) (Some o') [Cor.num ddt; Cor.num dd] [] rg cu (Cor.num v) cu [].
Proof. exact ddt_lognorm_h0_times_scale. Qed.
Print Assumptions C19_ddt_lognorm.
