(* C19 — distance-ratio likelihoods are blind to H0; time-delay ones see only H0 x scale.  Corollaries of the models of
   C06 (data likelihoods, compiled here as Like/Kin), C05 (distances, Dist/Flrw) and C03 (displacement, Wiring) over C19's own regenerated source. *)
From Coq Require Import Reals ZArith String List Bool Lra.
Require Import Py.PyAst Py.PyVal Py.PySem Py.XLemmas Py.Tactics.
Require Import C19.Src C19.Like C19.Kin C19.Flrw C19.Dist C19.Wiring.
Import ListNotations.
Open Scope string_scope.
Open Scope R_scope.
Definition num (r : R) := VNum (Fin r).

(* ---------- 1. kinematics (IFUKinCov): only Ddt/Dd enters ---------- *)
Lemma dsd_scale zl ddt dd c : 0 < c -> dd <> 0 -> 1 + zl <> 0 -> dsd zl (ddt / c) (dd / c) = dsd zl ddt dd.
Proof. intros Hc Hd Hz. unfold dsd. f_equal. field. repeat split; try assumption; lra. Qed.
Theorem kin_blind_to_h0 C zl v0 v1 j0 j1 m00 m01 m10 m11 q00 q01 q10 q11 p00 p01 p10 p11 L ddt dd s0 s1 c :
  0 < c -> 0 < dd -> 0 <= ddt -> 0 < 1 + zl -> 0 <= j0 -> 0 <= j1 -> 0 <= s0 -> 0 <= s1 ->
  exists v cov ds1 w1 ds2 w2,
    call (Kin.G C p00 p01 p10 p11 L) 200 (CFun src_KinLikelihood_log_likelihood) (Some (kin_obj zl v0 v1 j0 j1 m00 m01 m10 m11 q00 q01 q10 q11 true))
         [Kin.num (ddt / c); Kin.num (dd / c)] [("kin_scaling", vec [s0; s1])] (World (fun _ => 0) 0 [] ds1 []) = Ok (v, w1)
    /\ decs w1 = [] /\ olog w1 = [("inv", [cov])] /\ holds (pc w1) /\
    call (Kin.G C p00 p01 p10 p11 L) 200 (CFun src_KinLikelihood_log_likelihood) (Some (kin_obj zl v0 v1 j0 j1 m00 m01 m10 m11 q00 q01 q10 q11 true))
         [Kin.num ddt; Kin.num dd] [("kin_scaling", vec [s0; s1])] (World (fun _ => 0) 0 [] ds2 []) = Ok (v, w2)
    /\ decs w2 = [] /\ olog w2 = [("inv", [cov])] /\ holds (pc w2).
Proof.
  intros Hc Hdd Hddt Hz Hj0 Hj1 Hs0 Hs1.
  assert (Hdd' : 0 < dd / c) by (apply Rdiv_lt_0_compat; assumption).
  assert (Hddt' : 0 <= ddt / c) by (apply Rmult_le_pos; [assumption | left; apply Rinv_0_lt_compat; assumption]).
  destruct (kin_loglike_n2 C zl v0 v1 j0 j1 m00 m01 m10 m11 q00 q01 q10 q11 p00 p01 p10 p11 L (ddt / c) (dd / c) s0 s1 Hdd' Hddt' Hz Hj0 Hj1 Hs0 Hs1)
    as (ds1 & w1 & E1 & D1 & O1 & P1).
  destruct (kin_loglike_n2 C zl v0 v1 j0 j1 m00 m01 m10 m11 q00 q01 q10 q11 p00 p01 p10 p11 L ddt dd s0 s1 Hdd Hddt Hz Hj0 Hj1 Hs0 Hs1)
    as (ds2 & w2 & E2 & D2 & O2 & P2).
  unfold delta, Cov in *. rewrite dsd_scale in E1, O1 by lra.
  do 2 eexists. exists ds1, w1, ds2, w2. repeat split; eassumption.
Qed.

(* ---------- 2. Ds/Dds: Gaussian in Ddt/Dd/(1+zd) ---------- *)
Theorem ds_dds_blind_to_h0 zl zs mu sg ddt dd s0 c rg cu : sg <> 0 -> dd <> 0 -> 1 + zl <> 0 -> s0 <> 0 -> 0 < c ->
  exists o v,
  yields Like.G 60 (CClass "DsDdsGaussianLikelihood" src_DsDdsGaussianLikelihood_init) None [num zl; num zs; num mu; num sg] [] rg cu o cu []
  /\ yields Like.G 60 (CFun src_DsDdsGaussianLikelihood_log_likelihood) (Some o) [num (ddt / c); num (dd / c)] [("kin_scaling", vec [s0])] rg cu (num v) cu []
  /\ yields Like.G 60 (CFun src_DsDdsGaussianLikelihood_log_likelihood) (Some o) [num ddt; num dd] [("kin_scaling", vec [s0])] rg cu (num v) cu [].
Proof.
  intros Hs Hd Hz H0 Hc. assert (sg ^ 2 <> 0) by (apply pow_nonzero; assumption).
  assert (dd / c <> 0) by (unfold Rdiv; apply Rmult_integral_contrapositive_currified; [assumption | apply Rinv_neq_0_compat; lra]).
  eexists. exists (- (ddt / dd / (1 + zl) / s0 - mu) ^ 2 / sg ^ 2 / 2).
  split; [yields_auto|]. split; yields_with real_fact ltac:(val_eq).
Qed.

(* ---------- 3. which arguments each ratio type is handed at all (C06 dispatch table, re-proved on this run's source) ---------- *)
(* DSPL sees (beta, slope, lambda) only and Mag sees the source magnitude only: neither Ddt nor Dd reaches them *)
Theorem ratio_types_arguments ret : dispatch_ok ret "DSPL" /\ dispatch_ok ret "Mag" /\ dispatch_ok ret "IFUKinCov" /\ dispatch_ok ret "DsDdsGaussian".
Proof.
  pose proof (dispatch_table ret) as H. unfold ALLTYPES in H.
  repeat match goal with H : Forall _ (_ :: _) |- _ => inversion H; clear H; subst end. repeat split; assumption.
Qed.
Example dspl_and_mag_never_see_distances ddt dd beta ks sv mu gam lam :
  expected_args "DSPL" ddt dd beta ks sv mu gam lam = enc_kws [("beta_dsp", beta); ("gamma_pl", gam); ("lambda_mst", lam)] /\
  expected_args "Mag" ddt dd beta ks sv mu gam lam = enc_kws [("mu_intrinsic", mu)].
Proof. split; reflexivity. Qed.

(* ---------- 4. the displacement commutes with the 1/c scaling of the distances ---------- *)
Theorem displacement_commutes ddt dd g lam kap m c : 0 < c ->
  disp (ddt / c) (dd / c) g lam kap m = (fst (fst (disp ddt dd g lam kap m)) / c, snd (fst (disp ddt dd g lam kap m)) / c, snd (disp ddt dd g lam kap m)).
Proof. intros Hc. unfold disp. cbn [fst snd]. apply f_equal2; [apply f_equal2|]; [field; lra | field; lra | reflexivity]. Qed.

(* ---------- 5. time-delay likelihoods: H0 -> c H0 together with (measured distance, uncertainty) -> (./c, ./c) ---------- *)
Theorem ddt_gauss_h0_times_scale zl zs mu sg ddt dd c rg cu : sg <> 0 -> 0 < c ->
  exists o o' v,
  yields Like.G 60 (CClass "DdtGaussianLikelihood" src_DdtGaussianLikelihood_init) None [num zl; num zs; num (mu / c); num (sg / c)] [] rg cu o cu []
  /\ yields Like.G 60 (CFun src_DdtGaussianLikelihood_log_likelihood) (Some o) [num (ddt / c); num (dd / c)] [] rg cu (num v) cu []
  /\ yields Like.G 60 (CClass "DdtGaussianLikelihood" src_DdtGaussianLikelihood_init) None [num zl; num zs; num mu; num sg] [] rg cu o' cu []
  /\ yields Like.G 60 (CFun src_DdtGaussianLikelihood_log_likelihood) (Some o') [num ddt; num dd] [] rg cu (num v) cu [].
Proof.
  intros Hs Hc. assert (sg ^ 2 <> 0) by (apply pow_nonzero; assumption).
  assert (sg / c <> 0) by (unfold Rdiv; apply Rmult_integral_contrapositive_currified; [assumption | apply Rinv_neq_0_compat; lra]).
  assert ((sg / c) ^ 2 <> 0) by (apply pow_nonzero; assumption).
  do 2 eexists. exists (- (ddt - mu) ^ 2 / sg ^ 2 / 2).
  split; [yields_auto|]. split; [yields_with real_fact ltac:(val_eq)|]. split; [yields_auto|]. yields_with real_fact ltac:(val_eq).
Qed.
(* log-normal: measured ln-mean shifted by -ln c, same ln-sigma: the value changes by exactly + ln c, a constant *)
Theorem ddt_lognorm_h0_times_scale zl zs mu sg ddt dd c rg cu : sg <> 0 -> 0 < ddt -> 0 < c ->
  exists o o' v,
  yields Like.G 60 (CClass "DdtLogNormLikelihood" src_DdtLogNormLikelihood_init) None [num zl; num zs; num (mu - ln c); num sg] [] rg cu o cu []
  /\ yields Like.G 60 (CFun src_DdtLogNormLikelihood_log_likelihood) (Some o) [num (ddt / c); num (dd / c)] [] rg cu (num (v + ln c)) cu []
  /\ yields Like.G 60 (CClass "DdtLogNormLikelihood" src_DdtLogNormLikelihood_init) None [num zl; num zs; num mu; num sg] [] rg cu o' cu []
  /\ yields Like.G 60 (CFun src_DdtLogNormLikelihood_log_likelihood) (Some o') [num ddt; num dd] [] rg cu (num v) cu [].
Proof.
  intros Hs Hd Hc.
  destruct (ddt_lognorm zl zs (mu - ln c) sg (ddt / c) (dd / c) rg cu Hs) as (o & Ho & Hv); [apply Rdiv_lt_0_compat; assumption|].
  destruct (ddt_lognorm zl zs mu sg ddt dd rg cu Hs Hd) as (o' & Ho' & Hv').
  exists o, o', (- (5 / 10) * (ln ddt - mu) ^ 2 / sg ^ 2 - ln ddt - 5 / 10 * ln (sg ^ 2)).
  split; [exact Ho|]. split; [|split; [exact Ho' | exact Hv']].
  assert (E : ln (ddt / c) = ln ddt - ln c) by (unfold Rdiv; rewrite ln_mult by (try assumption; apply Rinv_0_lt_compat; assumption); rewrite ln_Rinv by assumption; ring).
  rewrite E in Hv.
  match type of Hv with yields _ _ _ _ _ _ _ _ (Like.num ?a) _ _ => replace a with (- (5 / 10) * (ln ddt - mu) ^ 2 / sg ^ 2 - ln ddt - 5 / 10 * ln (sg ^ 2) + ln c) in Hv by (field; first [assumption | apply pow_nonzero; assumption]) end.
  exact Hv.
Qed.
