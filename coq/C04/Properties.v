(* C04 — property theorems only (statement, exact, Print Assumptions). Source = C04.Src, regenerated from /repo on this run. *)
From Coq Require Import Reals ZArith String List Bool Lra.
Require Import Py.PyAst Py.PyVal Py.PySem Py.XLemmas.
Require Import C04.Src C04.Model C04.Unbiased.
Import ListNotations.
Open Scope string_scope.
Open Scope R_scope.

(* N-draw estimator, for EVERY N >= 1, every stream of single-draw log-likelihoods l_0, l_1, ... and every non-zero scatter:
   exactly N single-draw evaluations on consecutive stream segments, and the value is ln( (sum_k exp l_k) / N ):
   the log of the arithmetic mean of the likelihood, not of the log-likelihood. *)
Theorem C04_estimator : forall (N : nat) (l : nat -> R) (s : R), s <> 0 -> (1 <= N)%nat ->
  yields G 200 (CFun src_LensLikelihood_hyper_param_likelihood) (Some (lens_obj (Z.of_nat N)))
    [num 4000; num 1200; num 0] [("kwargs_lens", dict [("lambda_mst_sigma", num s)])] l 0
    (num (ln (acc l N) + - ln (IZR (Z.of_nat N)))) N (repeat ("single", []) N)
  /\ ln (acc l N) + - ln (IZR (Z.of_nat N)) = ln (acc l N / IZR (Z.of_nat N)).
Proof. intros N l s Hs HN. split; [exact (hyper_param_is_log_mean N l s Hs HN) | exact (log_mean_form l N HN)]. Qed.
Print Assumptions C04_estimator.
Example C04_estimator_nonvacuous : (1/5 <> 0) /\ (1 <= 50)%nat.
Proof. split; [lra | repeat constructor]. Qed.

(* sharp hyper-parameters: ONE evaluation whatever the configured number of draws, value = that evaluation *)
Theorem C04_sharp_one_evaluation : forall (N : Z) (l : nat -> R) cu,
  yields G 200 (CFun src_LensLikelihood_hyper_param_likelihood) (Some (lens_obj N))
    [num 4000; num 1200; num 0] [("kwargs_lens", dict [("lambda_mst_sigma", num 0)])] l cu
    (num (l cu)) (S cu) [("single", [])].
Proof. exact hyper_param_sharp. Qed.
Print Assumptions C04_sharp_one_evaluation.

(* the sharp-vs-distribution decision: True exactly when all eight scatters are zero (LOS degenerate) *)
Theorem C04_sharp_decision_true : forall rg cu,
  yields G 60 (CFun src_LensLikelihood_check_dist) (Some lens_obj0) [kl 0 0 0 0 0; kk 0 0; ks 0; VNone] [] rg cu (VBool true) cu [].
Proof. exact check_dist_true. Qed.
Theorem C04_sharp_decision_false : forall s1 s2 s3 s4 s5 s6 s7 s8 rg cu,
  ~ (s1 = 0 /\ s2 = 0 /\ s3 = 0 /\ s4 = 0 /\ s5 = 0 /\ s6 = 0 /\ s7 = 0 /\ s8 = 0) ->
  yields G 60 (CFun src_LensLikelihood_check_dist) (Some lens_obj0) [kl s1 s2 s3 s4 s5; kk s6 s7; ks s8; VNone] [] rg cu (VBool false) cu [].
Proof. exact check_dist_false. Qed.
Print Assumptions C04_sharp_decision_false.

(* line-of-sight: a non-degenerate global distribution or any individual distribution forces the N-draw path; sigma = 0 does not *)
Theorem C04_los_decision : forall m sg kl_ rg cu,
  (sg <> 0 -> yields G 60 (CFun src_LensLikelihood_check_dist) (Some (lens_obj_los (los_obj false true)))
      [kl 0 0 0 0 0; kk 0 0; ks 0; VList [dict [("mean", num m); ("sigma", num sg)]]] [] rg cu (VBool false) cu [])
  /\ yields G 60 (CFun src_LensLikelihood_check_dist) (Some (lens_obj_los (los_obj true false)))
      [kl 0 0 0 0 0; kk 0 0; ks 0; kl_] [] rg cu (VBool false) cu []
  /\ yields G 60 (CFun src_LensLikelihood_check_dist) (Some (lens_obj_los (los_obj false true)))
      [kl 0 0 0 0 0; kk 0 0; ks 0; VList [dict [("mean", num m); ("sigma", num 0)]]] [] rg cu (VBool true) cu [].
Proof. intros. split; [intro; apply check_dist_los_scatter; assumption | split; [apply check_dist_los_individual | apply check_dist_los_sharp]]. Qed.
Print Assumptions C04_los_decision.

(* one joint draw per evaluation: lens lambda (own population: IFU or not), LOS kappa, source magnitude are drawn once each,
   from consecutive stream positions, Gaussian mean + sigma*z; the data likelihood is evaluated at exactly those values *)
Theorem C04_joint_draw : forall (D : list val -> list (string * val) -> R) (K : val -> val)
    (ifu : bool) (ddt dd dl beta lam slam lifu sifu g kmean ksig mu smu : R) (rg : nat -> R) (cu : nat),
  let l := (if ifu then lifu else lam) + 0 * 0 + 0 * 0 + (if ifu then sifu else slam) * rg cu in
  let kap := kmean + ksig * rg (S cu) in
  let m := mu + smu * rg (S (S cu)) in
  1/10000 <= l * (1 - kap) ->
  yields (Gw D K) 100 (CFun src_LensLikelihood_log_likelihood_single) (Some (lens_self ifu))
    [num ddt; num dd; num dl; num beta;
     dict [("lambda_mst", num lam); ("lambda_mst_sigma", num slam); ("lambda_ifu", num lifu); ("lambda_ifu_sigma", num sifu); ("gamma_ppn", num g)];
     dict []; dict [("mu_sne", num mu); ("sigma_sne", num smu)]; VList [dict [("mean", num kmean); ("sigma", num ksig)]]] [] rg cu
    (num (D [VArr [num (ddt * (l * (1 - kap)))]; num (dd * (1 + g) / 2)]
            [("beta_dsp", num beta); ("kin_scaling", K (dict [("lambda_mst", num l); ("gamma_ppn", num g)]));
             ("sigma_v_sys_error", VNone); ("mu_intrinsic", VArr [num (m + dl + 5 * log10 (l * (1 - kap)))]);
             ("gamma_pl", VInt 2); ("lambda_mst", num l)] + 0))
    (S (S (S cu)))
    [("log_likelihood", [VArr [num (ddt * (l * (1 - kap)))]; num (dd * (1 + g) / 2); num beta; K (dict [("lambda_mst", num l); ("gamma_ppn", num g)]);
                         VNone; VArr [num (m + dl + 5 * log10 (l * (1 - kap)))]; VInt 2; num l])].
Proof. exact single_joint_draw. Qed.
Print Assumptions C04_joint_draw.

(* zero-scatter limit: when every draw returns the same value x the N-draw formula collapses to x *)
Theorem C04_zero_scatter_limit : forall x N, (1 <= N)%nat -> ln (acc (fun _ => x) N / IZR (Z.of_nat N)) = x.
Proof. exact log_mean_const. Qed.
Print Assumptions C04_zero_scatter_limit.

(* unbiasedness over any finite equiprobable outcome space of one joint draw: E_{Omega^N}[ (1/N) sum_i L(w_i) ] = E_Omega[L].
   The 1/sqrt(N) error law is the standard variance corollary and is not formalised (partial). *)
Theorem C04_unbiased_finite_partial : forall (A : Type) (om : list A), om <> [] ->
  forall (L : A -> R) n, (1 <= n)%nat -> EN A om n (fun t => sumR (map L t) / INR n) = E1 A om L.
Proof. exact mean_unbiased. Qed.
Print Assumptions C04_unbiased_finite_partial.

(* "independent draws from the declared distributions": the anisotropy draw inside every evaluation is the first in-range
   proposal mean + sigma*z (GAUSSIAN) / mean + sigma*mean*z (GAUSSIAN_SCALED) of the stream - with the SAME sigma on every re-draw
   (the theorem of C09, re-proved here against this property's own copy of the source) *)
Require Import C04.Draws.
Theorem C04_declared_anisotropy_law : forall (scaled : bool) amin amax a sg (rg : nat -> R) n cu ds p0 v w',
  rec_call n (ARGS scaled amin amax a sg) [] (World rg cu [] ds p0) = Ok (v, w') ->
  holds (pc w') ->
  holds p0 /\
  exists k x, v = VDict [(VStr "a_ani", Draws.num x)] /\ amin <= x <= amax /\ x = prop_ scaled a sg (rg (cu + k)%nat) /\ cur w' = S (cu + k)
              /\ forall j, (j < k)%nat -> ~ (amin <= prop_ scaled a sg (rg (cu + j)%nat) <= amax).
Proof. exact draw_anisotropy_in_range. Qed.
Print Assumptions C04_declared_anisotropy_law.

(* "independent draws from the declared distributions" also across re-draws: when the inner slope or the mass-to-light draw leaves the
   interpolation range, draw_lens is re-entered with exactly the caller's sixteen arguments by name (every scatter included), so each
   re-draw samples the SAME declared population (theorem of C09, re-proved here against this property's own copy of the source) *)
Theorem C04_redraw_same_population : forall lo hi x ifu lam slam gp lifu sifu al be gi sgi agi lm slm alm gmean gsig glist rg cu,
  (lo <= lm <= hi -> (hi < lm + alm * x + slm * rg (S cu) \/ lm + alm * x + slm * rg (S cu) < lo) ->
   yields Gr FUEL (CFun src_LensDistribution_draw_lens) (Some (ld_obj lo hi x ifu false true)) []
     (all_kws lam slam gp lifu sifu al be gi sgi agi lm slm alm gmean gsig glist) rg cu (VStr "<re-drawn>") (S (S cu))
     (forwarded lam slam gp lifu sifu al be gi sgi agi lm slm alm gmean gsig glist))
  /\ (lo <= gi <= hi -> (hi < gi + agi * x + sgi * rg (S cu) \/ gi + agi * x + sgi * rg (S cu) < lo) ->
   yields Gr FUEL (CFun src_LensDistribution_draw_lens) (Some (ld_obj lo hi x ifu true false)) []
     (all_kws lam slam gp lifu sifu al be gi sgi agi lm slm alm gmean gsig glist) rg cu (VStr "<re-drawn>") (S (S cu))
     (forwarded lam slam gp lifu sifu al be gi sgi agi lm slm alm gmean gsig glist)).
Proof. intros. split; intros; [apply redraw_m2l_forwards_everything | apply redraw_gamma_in_forwards_everything]; assumption. Qed.
Print Assumptions C04_redraw_same_population.
