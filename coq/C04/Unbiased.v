(* C04 — unbiasedness of the N-draw mean over any finite equiprobable outcome space (pure mathematics).
   The 1/sqrt(N) error law follows by the usual variance argument and is NOT formalised (no measure theory here). *)
From Coq Require Import Reals List Lra Lia.
Import ListNotations.
Open Scope R_scope.

Section Finite.
Variable A : Type.
Variable om : list A.                      (* the outcomes of one joint draw, equally likely *)
Hypothesis om_nonempty : om <> [].

Fixpoint sumR (l : list R) : R := match l with [] => 0 | x :: r => x + sumR r end.
Definition E1 (f : A -> R) : R := sumR (map f om) / INR (length om).
Fixpoint EN (n : nat) (g : list A -> R) : R :=
  match n with O => g [] | S m => E1 (fun a => EN m (fun t => g (a :: t))) end.

Lemma len_pos : 0 < INR (length om).
Proof. destruct om as [|a r]; [contradiction|]. apply lt_0_INR. cbn; lia. Qed.

Lemma sumR_ext (f g : A -> R) l : (forall a, f a = g a) -> sumR (map f l) = sumR (map g l).
Proof. intros H. induction l as [|a l IH]; [reflexivity|]. cbn [map sumR]. rewrite H, IH. reflexivity. Qed.
Lemma E1_ext f g : (forall a, f a = g a) -> E1 f = E1 g.
Proof. intros H. unfold E1. rewrite (sumR_ext f g om H). reflexivity. Qed.
Lemma sumR_plus (f g : A -> R) l : sumR (map (fun a => f a + g a) l) = sumR (map f l) + sumR (map g l).
Proof. induction l as [|a l IH]; cbn [map sumR]; [lra|]. rewrite IH. lra. Qed.
Lemma sumR_const c (l : list A) : sumR (map (fun _ => c) l) = INR (length l) * c.
Proof. induction l as [|a l IH]; [cbn; lra|]. cbn [map sumR length]. rewrite IH, S_INR. lra. Qed.
Lemma E1_plus f g : E1 (fun a => f a + g a) = E1 f + E1 g.
Proof. unfold E1. rewrite sumR_plus. pose proof len_pos. field. lra. Qed.
Lemma E1_const c : E1 (fun _ => c) = c.
Proof. unfold E1. rewrite sumR_const. pose proof len_pos. field. lra. Qed.

Lemma EN_ext n : forall g h, (forall t, g t = h t) -> EN n g = EN n h.
Proof. induction n as [|n IH]; intros g h H; cbn [EN]; [apply H|]. apply E1_ext. intros a. apply IH. intros t. apply H. Qed.
Lemma EN_plus n : forall g h, EN n (fun t => g t + h t) = EN n g + EN n h.
Proof.
  induction n as [|n IH]; intros g h; cbn [EN]; [reflexivity|].
  rewrite <- E1_plus. apply E1_ext. intros a. apply IH.
Qed.
Lemma EN_const n c : EN n (fun _ => c) = c.
Proof. induction n as [|n IH]; cbn [EN]; [reflexivity|]. rewrite (E1_ext _ (fun _ => c)) by (intros; apply IH). apply E1_const. Qed.

(* expectation of the sum of the single-draw likelihoods over all N-tuples *)
Theorem EN_sum (L : A -> R) n : EN n (fun t => sumR (map L t)) = INR n * E1 L.
Proof.
  induction n as [|n IH]; [cbn; lra|].
  cbn [EN]. rewrite (E1_ext _ (fun a => L a + INR n * E1 L)).
  - rewrite E1_plus, E1_const, S_INR. lra.
  - intros a. rewrite (EN_ext n _ (fun t => L a + sumR (map L t))) by (intros; reflexivity).
    rewrite EN_plus, EN_const, IH. reflexivity.
Qed.

(* the N-draw mean of the likelihood is an unbiased estimator of the population mean of L *)
Theorem mean_unbiased (L : A -> R) n : (1 <= n)%nat ->
  EN n (fun t => sumR (map L t) / INR n) = E1 L.
Proof.
  intros Hn. assert (0 < INR n) by (apply lt_0_INR; lia).
  rewrite (EN_ext n _ (fun t => / INR n * sumR (map L t) + 0)) by (intros; field; lra).
  rewrite EN_plus, EN_const.
  assert (Hs : forall c g, EN n (fun t => c * g t) = c * EN n g).
  { clear. intros c. induction n as [|n IH]; intros g; cbn [EN]; [reflexivity|].
    rewrite (E1_ext _ (fun a => c * EN n (fun t => g (a :: t)))) by (intros; apply IH).
    unfold E1. assert (Hm : forall l, sumR (map (fun a => c * EN n (fun t => g (a :: t))) l) = c * sumR (map (fun a => EN n (fun t => g (a :: t))) l)).
    { induction l as [|a l IHl]; cbn [map sumR]; [lra|]. rewrite IHl. lra. }
    rewrite Hm. unfold Rdiv. ring. }
  rewrite Hs, EN_sum. field. lra.
Qed.
End Finite.
