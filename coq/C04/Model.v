From Coq Require Import Reals ZArith String List Bool Lra Lia.
Require Import Py.PyAst Py.PyVal Py.PySem Py.XLemmas Py.Unfold Py.Tactics.
Require Import C04.Src.
(* C04 - population scatter is marginalised by an N-draw mean of the likelihood. All statements are about C04.Src,
   the functions serialised from /repo on this run. *)
Import ListNotations.
Open Scope string_scope.
Fixpoint assoc {A} (k : string) (l : list (string * A)) : option A :=
  match l with [] => None | (k', v) :: t => if String.eqb k k' then Some v else assoc k t end.
Definition num (r : R) := VNum (Fin r).
Definition dict (l : list (string * val)) := VDict (map (fun kv => (VStr (fst kv), snd kv)) l).
Definition single_oracle : callee :=
  COracle (fun args kws w => Ok (num (rng w (cur w)), World (rng w) (S (cur w)) (("single", []) :: olog w) (decs w) (pc w))).
(* scipy.special.logsumexp on a list of finite floats: ln (sum_i exp x_i) *)
Definition sumexp_v (l : list val) : R := fold_right (fun v a => match v with VNum (Fin x) => exp x + a | _ => a end)%R 0%R l.
Definition lse_oracle : callee :=
  COracle (fun args kws w => match args with [VList l] => Ok (num (ln (sumexp_v l)), w) | _ => Stuck "logsumexp: args" end).
Definition mtab : list (string * callee) :=
  [("draw_bool", CFun src_LOSDistribution_draw_bool);
   ("check_dist", CFun src_LensLikelihood_check_dist);
   ("_kwargs_init", CFun src_LensLikelihood_kwargs_init);
   ("log_likelihood_single", single_oracle);
   ("hyper_param_likelihood", CFun src_LensLikelihood_hyper_param_likelihood)].
Definition G : fenv := FEnv (fun cls m => assoc m mtab) (fun n => if String.eqb n "logsumexp" then Some lse_oracle else None).
Definition los_none := VObj "LOSDistribution" [("_draw_kappa_individual", VBool false); ("_draw_kappa_global", VBool false)].
Definition lens_obj (N : Z) := VObj "LensLikelihood" [("_los", los_none); ("_num_distribution_draws", VInt N)].
Open Scope R_scope.

Fixpoint lvals (l : nat -> R) (j : nat) : list val := match j with O => [] | S k => (lvals l k ++ [num (l k)])%list end.
Fixpoint acc (l : nat -> R) (k : nat) : R := match k with O => 0 | S j => acc l j + exp (l j) end.
Ltac RUNF t := let r := eval lazy -[Rplus Rmult Rminus Rdiv Rinv Ropp Rmax Rmin Rlt Rle Rgt Rge ln exp sqrt log10 IZR dec Rpower pow PI DBL_MAX not Z.of_nat repeat acc lvals sumexp_v length] in t in change t with r.
Ltac RUNR t := let r := eval lazy -[Rplus Rmult Rminus Rdiv Rinv Ropp Rmax Rmin Rlt Rle Rgt Rge ln exp sqrt log10 IZR dec Rpower pow PI DBL_MAX not Z.of_nat repeat zrange Z.to_nat acc lvals sumexp_v length] in t in change t with r.
Ltac STEP :=
  rewrite run_stmts_cons;
  match goal with |- context [seq_out (exec_stmt ?t ?rm ?a ?es ?b ?c ?d ?e ?f) _] => RUNF (exec_stmt t rm a es b c d e f) end;
  cbn [seq_out bind fst snd].

Definition envk (N : nat) (s : R) (l : nat -> R) (j : nat) : env :=
  [("self", lens_obj (Z.of_nat N)); ("ddt", VNum (Fin 4000)); ("dd", VNum (Fin 1200));
   ("delta_lum_dist", VNum (Fin 0)); ("beta_dsp", VNone);
   ("kwargs_lens", VDict [(VStr "lambda_mst_sigma", VNum (Fin s))]);
   ("kwargs_kin", VDict []); ("kwargs_source", VDict []); ("kwargs_los", VNone); ("cosmo", VNone);
   ("kwargs_kin_copy", VDict []); ("sigma_v_sys_error", VNone);
   ("logl_draws", VList (lvals l (S j))); ("i", VInt (Z.of_nat j)); ("logl", VNum (Fin (l j)))].
Definition wk (l : nat -> R) (s : R) (k : nat) (tl : list bool) : world :=
  World l k (repeat ("single", []) k) tl [s <> 0].



(* ---------- 1. check_dist: sharp exactly when every scatter it is given vanishes and the LOS draw is degenerate ---------- *)
Definition lens_obj0 := VObj "LensLikelihood" [("_los", los_none)].
Definition kl (s1 s2 s3 s4 s5 : R) := dict [("lambda_mst_sigma", num s1); ("lambda_ifu_sigma", num s2); ("gamma_in_sigma", num s3); ("log_m2l_sigma", num s4); ("gamma_pl_sigma", num s5)].
Definition kk (s6 s7 : R) := dict [("a_ani_sigma", num s6); ("beta_inf_sigma", num s7)].
Definition ks (s8 : R) := dict [("sigma_sne", num s8)].
Theorem check_dist_true rg cu :
  yields G 60 (CFun src_LensLikelihood_check_dist) (Some lens_obj0) [kl 0 0 0 0 0; kk 0 0; ks 0; VNone] [] rg cu (VBool true) cu [].
Proof. Time yields_auto. Time Qed.
Theorem check_dist_false s1 s2 s3 s4 s5 s6 s7 s8 rg cu :
  ~ (s1 = 0 /\ s2 = 0 /\ s3 = 0 /\ s4 = 0 /\ s5 = 0 /\ s6 = 0 /\ s7 = 0 /\ s8 = 0) ->
  yields G 60 (CFun src_LensLikelihood_check_dist) (Some lens_obj0) [kl s1 s2 s3 s4 s5; kk s6 s7; ks s8; VNone] [] rg cu (VBool false) cu [].
Proof. intros H. Time yields_with ltac:(first [real_fact | tauto]) ltac:(first [reflexivity | exfalso; tauto]). Time Qed.

(* ---------- 2. the N-draw estimator, for every N ---------- *)
Lemma loop_rest N l s tl step :
  step = for_step (eval G 197) (exec G 197) 197 (EName "i")
              (ECall (EName "range") [EAttr (EName "self") "_num_distribution_draws"] [])
              (match src_LensLikelihood_hyper_param_likelihood with
               | FunDef _ _ _ _ body => match nth 5 body SPass with SIf _ _ (_ :: SFor _ _ b :: _) => b | _ => [] end end) ->
  forall m j,
  iter_loop step (zrange (Z.of_nat (S j)) m) (Z.of_nat (S j)) (envk N s l j) (wk l s (S j) tl)
  = Ok (ONormal (envk N s l (j + m)), wk l s (S j + m) tl).
Proof.
  intros Hstep. induction m as [|m IH]; intros j.
  - cbn [iter_loop zrange]. rewrite !Nat.add_0_r. reflexivity.
  - cbn [zrange iter_loop]. subst step. unfold wk, envk.
    match goal with |- context [for_step ?a ?b ?c ?d ?e ?f ?g ?h ?i ?jj] => RUNF (for_step a b c d e f g h i jj) end.
    cbn [bind fst snd].
    replace (Z.of_nat (S j) + 1)%Z with (Z.of_nat (S (S j))) by lia.
    change (lvals l (S j) ++ [VNum (Fin (l (S j)))])%list with (lvals l (S (S j))).
    specialize (IH (S j)). unfold envk, wk in IH |- *. cbn [repeat] in IH |- *.
    replace (S j + S m)%nat with (S (S j) + m)%nat by lia.
    replace (j + S m)%nat with (S j + m)%nat by lia.
    exact IH.
Qed.

Lemma lvals_cons l j : lvals l (S j) = VNum (Fin (l 0%nat)) :: lvals (fun k => l (S k)) j.
Proof. induction j as [|j IH]; [reflexivity|]. change (lvals l (S (S j))) with (lvals l (S j) ++ [num (l (S j))])%list. rewrite IH. reflexivity. Qed.
Lemma sumexp_v_app a b : sumexp_v (a ++ b) = sumexp_v a + sumexp_v b.
Proof. induction a as [|x a IH]; cbn [app sumexp_v fold_right]; [unfold sumexp_v; cbn; ring|]. fold (sumexp_v (a ++ b)). fold (sumexp_v a). rewrite IH. destruct x as [| | |x| | | | | | |]; try ring. destruct x; ring. Qed.
Lemma sumexp_lvals l j : sumexp_v (lvals l j) = acc l j.
Proof. induction j as [|j IH]; [reflexivity|]. cbn [lvals acc]. rewrite sumexp_v_app, IH. unfold sumexp_v, num. cbn. ring. Qed.

Theorem hyper_param_is_log_mean : forall (N : nat) (l : nat -> R) (s : R), s <> 0 -> (1 <= N)%nat ->
  yields G 200 (CFun src_LensLikelihood_hyper_param_likelihood) (Some (lens_obj (Z.of_nat N)))
    [num 4000; num 1200; num 0] [("kwargs_lens", dict [("lambda_mst_sigma", num s)])] l 0
    (num (ln (acc l N) + - ln (IZR (Z.of_nat N)))) N (repeat ("single", []) N).
Proof.
  intros N l s Hs HN. unfold yields. destruct N as [|N']; [lia|].
  exists [false; true]. eexists. split.
  rewrite call_fun.
  cbv beta zeta delta [f_static f_params f_kwarg f_body src_LensLikelihood_hyper_param_likelihood] iota.
  match goal with |- context [bind_params ?a ?b ?c ?d] => RUNF (bind_params a b c d) end.
  cbn [bind fst snd].
  rewrite exec_S.
  do 5 STEP.
  rewrite run_stmts_cons. cbn [exec_stmt].
  match goal with |- context [eval G 198 ?c ?r ?w] => RUNF (eval G 198 c r w) end.
  cbn [bind fst snd].
  match goal with |- context [m_truthy ?a ?b] => RUNF (m_truthy a b) end.
  cbn [bind fst snd].
  rewrite exec_S. STEP.
  rewrite run_stmts_cons. cbn [exec_stmt].
  match goal with |- context [eval G 197 ?c ?r ?w] => RUNR (eval G 197 c r w) end.
  cbn [bind fst snd as_list]. rewrite Nat2Z.id.
  cbn [zrange iter_loop].
  match goal with |- context [for_step ?a ?b ?c ?d ?e ?f ?g ?h ?i ?j] => RUNF (for_step a b c d e f g h i j) end.
  cbn [bind fst snd].
  change (0 + 1)%Z with (Z.of_nat 1).
  match goal with |- context [iter_loop ?st ?it ?ix ?r ?w] =>
    let H := fresh in
    pose proof (loop_rest (S N') l s [true] st eq_refl N' 0%nat) as H;
    change (iter_loop st it ix r w)
      with (iter_loop st (zrange (Z.of_nat 1) N') (Z.of_nat 1) (envk (S N') s l 0) (wk l s 1 [true]));
    rewrite H; clear H end.
  unfold envk, wk. cbn [seq_out bind fst snd Nat.add].
  rewrite lvals_cons.
  match goal with |- context [run_stmts ?st ?ss ?r ?w] =>
    let r' := eval lazy -[Rplus Rmult Rminus Rdiv Rinv Ropp Rmax Rmin Rlt Rle Rgt Rge ln exp sqrt log10 IZR dec Rpower pow PI DBL_MAX not repeat acc lvals sumexp_v] in (run_stmts st ss r w) in
    change (run_stmts st ss r w) with r' end.
  cbn [seq_out bind fst snd run_stmts].
  rewrite <- lvals_cons, sumexp_lvals.
  reflexivity.
  assert (Hacc : forall k, (1 <= k)%nat -> 0 < acc l k).
  { induction k as [|k IHk]; [lia|]. intros _. cbn [acc]. destruct k as [|k].
    - cbn [acc]. pose proof (exp_pos (l 0%nat)). lra.
    - pose proof (exp_pos (l (S k))). assert (0 < acc l (S k)) by (apply IHk; lia). lra. }
  assert (HNpos : 0 < IZR (Z.of_nat (S N'))) by (apply IZR_lt; lia).
  cbn [decs cur olog pc holds]. repeat split; try lra; try assumption.
Qed.
Print Assumptions hyper_param_is_log_mean.

(* log of the MEAN of the likelihood *)
Lemma acc_pos l k : (1 <= k)%nat -> 0 < acc l k.
Proof.
  induction k as [|k IHk]; [lia|]. intros _. cbn [acc]. destruct k as [|k].
  - cbn [acc]. pose proof (exp_pos (l 0%nat)). lra.
  - pose proof (exp_pos (l (S k))). assert (0 < acc l (S k)) by (apply IHk; lia). lra.
Qed.
Lemma log_mean_form l N : (1 <= N)%nat -> ln (acc l N) + - ln (IZR (Z.of_nat N)) = ln (acc l N / IZR (Z.of_nat N)).
Proof.
  intros HN. assert (0 < IZR (Z.of_nat N)) by (apply IZR_lt; lia). pose proof (acc_pos l N HN).
  unfold Rdiv. rewrite ln_mult; [|assumption|apply Rinv_0_lt_compat; assumption]. rewrite ln_Rinv by assumption. ring.
Qed.
(* zero-scatter limit: N identical draws give back the single value *)
Lemma acc_const x N : acc (fun _ => x) N = IZR (Z.of_nat N) * exp x.
Proof. induction N as [|N IH]; [cbn; ring|]. cbn [acc]. rewrite IH, Nat2Z.inj_succ, succ_IZR. ring. Qed.
Lemma log_mean_const x N : (1 <= N)%nat -> ln (acc (fun _ => x) N / IZR (Z.of_nat N)) = x.
Proof.
  intros HN. assert (0 < IZR (Z.of_nat N)) by (apply IZR_lt; lia). rewrite acc_const.
  replace (IZR (Z.of_nat N) * exp x / IZR (Z.of_nat N)) with (exp x) by (field; lra). apply ln_exp.
Qed.
(* the estimator is a function of the multiset of draws only: exchanging two streams that agree on the first N draws *)
Lemma acc_ext l l' N : (forall k, (k < N)%nat -> l k = l' k) -> acc l N = acc l' N.
Proof. induction N as [|N IH]; intros H; [reflexivity|]. cbn [acc]. rewrite IH by (intros; apply H; lia). rewrite (H N) by lia. reflexivity. Qed.

(* ---------- 3. sharp hyper-parameters: one evaluation, whatever N ---------- *)
Theorem hyper_param_sharp : forall (N : Z) (l : nat -> R) cu,
  yields G 200 (CFun src_LensLikelihood_hyper_param_likelihood) (Some (lens_obj N))
    [num 4000; num 1200; num 0] [("kwargs_lens", dict [("lambda_mst_sigma", num 0)])] l cu
    (num (l cu)) (S cu) [("single", [])].
Proof. intros. yields_auto. Qed.

(* ---------- 4. LOS: the draw flag ---------- *)
Definition los_obj (indiv glob : bool) := VObj "LOSDistribution" [("_draw_kappa_individual", VBool indiv); ("_draw_kappa_global", VBool glob); ("_global_los_distribution", VInt 0)].
Definition Gb : fenv := FEnv (fun cls m => assoc m mtab) (fun _ => None).
Theorem draw_bool_individual glob kl rg cu :
  yields Gb 50 (CFun src_LOSDistribution_draw_bool) (Some (los_obj true glob)) [kl] [] rg cu (VBool true) cu [].
Proof. yields_auto. Qed.
Theorem draw_bool_none kl rg cu :
  yields Gb 50 (CFun src_LOSDistribution_draw_bool) (Some (los_obj false false)) [kl] [] rg cu (VBool false) cu [].
Proof. yields_auto. Qed.
Theorem draw_bool_global_sharp m rg cu :
  yields Gb 50 (CFun src_LOSDistribution_draw_bool) (Some (los_obj false true)) [VList [dict [("mean", num m); ("sigma", num 0)]]] [] rg cu (VBool false) cu [].
Proof. yields_auto. Qed.
Theorem draw_bool_global_scatter m sg rg cu : sg <> 0 ->
  yields Gb 50 (CFun src_LOSDistribution_draw_bool) (Some (los_obj false true)) [VList [dict [("mean", num m); ("sigma", num sg)]]] [] rg cu (VBool true) cu [].
Proof. intros. yields_auto. Qed.
(* a non-degenerate LOS distribution alone makes check_dist answer False *)
Definition lens_obj_los (los : val) := VObj "LensLikelihood" [("_los", los)].
Theorem check_dist_los_scatter m sg rg cu : sg <> 0 ->
  yields G 60 (CFun src_LensLikelihood_check_dist) (Some (lens_obj_los (los_obj false true)))
    [kl 0 0 0 0 0; kk 0 0; ks 0; VList [dict [("mean", num m); ("sigma", num sg)]]] [] rg cu (VBool false) cu [].
Proof. intros. yields_auto. Qed.
Theorem check_dist_los_individual kl_ rg cu :
  yields G 60 (CFun src_LensLikelihood_check_dist) (Some (lens_obj_los (los_obj true false)))
    [kl 0 0 0 0 0; kk 0 0; ks 0; kl_] [] rg cu (VBool false) cu [].
Proof. yields_auto. Qed.
Theorem check_dist_los_sharp m rg cu :
  yields G 60 (CFun src_LensLikelihood_check_dist) (Some (lens_obj_los (los_obj false true)))
    [kl 0 0 0 0 0; kk 0 0; ks 0; VList [dict [("mean", num m); ("sigma", num 0)]]] [] rg cu (VBool true) cu [].
Proof. yields_auto. Qed.

(* ---------- 5. one joint draw per evaluation: lens lambda, LOS kappa, source magnitude, in this order ---------- *)
Section Joint.
Variable D : list val -> list (string * val) -> R.
Variable K : val -> val.
Definition data_oracle : callee :=
  COracle (fun args kws w => Ok (num (D (tl args) kws), World (rng w) (cur w) (("log_likelihood", tl args ++ map snd kws)%list :: olog w) (decs w) (pc w))).
Definition kin_oracle : callee := COracle (fun args kws w => Ok (K (nth 1 args VNone), w)).
Definition wtab : list (string * list (string * callee)) :=
  [("LensLikelihood",
     [("_displace_ppn", CFun src_TransformedCosmography_displace_ppn);
      ("_displace_lambda_mst", CFun src_TransformedCosmography_displace_lambda_mst);
      ("displace_prediction", CFun src_TransformedCosmography_displace_prediction);
      ("draw_source", CFun src_LensLikelihood_draw_source);
      ("kin_scaling", kin_oracle);
      ("log_likelihood", data_oracle);
      ("log_likelihood_single", CFun src_LensLikelihood_log_likelihood_single)]);
   ("LensDistribution", [("draw_lens", CFun src_LensDistribution_draw_lens)]);
   ("LOSDistribution", [("draw_los", CFun src_LOSDistribution_draw_los)]);
   ("AnisotropyDistribution", [("draw_anisotropy", CFun src_AnisotropyDistribution_draw_anisotropy)]);
   ("PriorLikelihood", [("log_likelihood", CFun src_PriorLikelihood_log_likelihood)])].
Definition Gw : fenv := FEnv (fun cls m => match assoc cls wtab with Some t => assoc m t | None => None end) (fun _ => None).
Definition lens_dist (ifu : bool) : val :=
  VObj "LensDistribution"
    [("_mst_ifu", VBool ifu); ("_lambda_scaling_property", num 0); ("_lambda_scaling_property_beta", num 0);
     ("_lambda_mst_sampling", VBool true); ("_lambda_mst_distribution", VStr "GAUSSIAN");
     ("_gamma_in_sampling", VBool false); ("_log_m2l_sampling", VBool false);
     ("_gamma_pl_model", VBool false); ("_gamma_pl_global_sampling", VBool false)].
Definition lens_self (ifu : bool) : val :=
  VObj "LensLikelihood"
    [("_lens_distribution", lens_dist ifu);
     ("_los", VObj "LOSDistribution" [("_draw_kappa_individual", VBool false); ("_draw_kappa_global", VBool true);
                                      ("_global_los_distribution", VInt 0); ("_los_distribution", VStr "GAUSSIAN")]);
     ("_aniso_distribution", VObj "AnisotropyDistribution" [("_anisotropy_sampling", VBool false)]);
     ("_prior", VObj "PriorLikelihood" [("_param_name_list", VList []); ("_param_mean_list", VList []); ("_param_sigma_list", VList [])])].

Theorem single_joint_draw (ifu : bool) (ddt dd dl beta lam slam lifu sifu g kmean ksig mu smu : R) (rg : nat -> R) (cu : nat) :
  let l := (if ifu then lifu else lam) + 0 * 0 + 0 * 0 + (if ifu then sifu else slam) * rg cu in
  let kap := kmean + ksig * rg (S cu) in
  let m := mu + smu * rg (S (S cu)) in
  1/10000 <= l * (1 - kap) ->
  yields Gw 100 (CFun src_LensLikelihood_log_likelihood_single) (Some (lens_self ifu))
    [num ddt; num dd; num dl; num beta;
     dict [("lambda_mst", num lam); ("lambda_mst_sigma", num slam); ("lambda_ifu", num lifu); ("lambda_ifu_sigma", num sifu); ("gamma_ppn", num g)];
     dict []; dict [("mu_sne", num mu); ("sigma_sne", num smu)]; VList [dict [("mean", num kmean); ("sigma", num ksig)]]] [] rg cu
    (num (D [VArr [num (ddt * (l * (1 - kap)))]; num (dd * (1 + g) / 2)]
            [("beta_dsp", num beta); ("kin_scaling", K (dict [("lambda_mst", num l); ("gamma_ppn", num g)]));
             ("sigma_v_sys_error", VNone); ("mu_intrinsic", VArr [num (m + dl + 5 * log10 (l * (1 - kap)))]);
             ("gamma_pl", VInt 2); ("lambda_mst", num l)] + 0))
    (S (S (S cu)))
    [("log_likelihood", [VArr [num (ddt * (l * (1 - kap)))]; num (dd * (1 + g) / 2); num beta; K (dict [("lambda_mst", num l); ("gamma_ppn", num g)]);
                         VNone; VArr [num (m + dl + 5 * log10 (l * (1 - kap)))]; VInt 2; num l])].
Proof.
  intros l kap m H.
  assert (Hne : l <> 0) by (intro E; rewrite E in H; lra).
  destruct ifu; subst l kap m; cbn [lens_self lens_dist] in *; cbv iota in *.
  - set (l := lifu + 0 * 0 + 0 * 0 + sifu * rg cu) in *. set (kap := kmean + ksig * rg (S cu)) in *. set (m := mu + smu * rg (S (S cu))).
    exists [false; false; true]. eexists. split.
    + run. norm_dec. fold l. fold kap. fold m.
      replace (l * (1 + - kap)) with (l * (1 - kap)) by ring.
      rewrite Rmax_left by lra.
      unfold num, dict. cbn [map fst snd app].
      replace (dd * (1 + g) / (20 / 10) * l / l) with (dd * (1 + g) / 2) by (field; assumption).
      reflexivity.
    + cbn [decs cur olog pc holds]. repeat split; try reflexivity; try assumption; norm_dec; try lra.
      all: try match goal with |- 0 < Rmax _ ?b => apply Rlt_le_trans with b; [lra | apply Rmax_r] end.
  - set (l := lam + 0 * 0 + 0 * 0 + slam * rg cu) in *. set (kap := kmean + ksig * rg (S cu)) in *. set (m := mu + smu * rg (S (S cu))).
    exists [false; false; true]. eexists. split.
    + run. norm_dec. fold l. fold kap. fold m.
      replace (l * (1 + - kap)) with (l * (1 - kap)) by ring.
      rewrite Rmax_left by lra.
      unfold num, dict. cbn [map fst snd app].
      replace (dd * (1 + g) / (20 / 10) * l / l) with (dd * (1 + g) / 2) by (field; assumption).
      reflexivity.
    + cbn [decs cur olog pc holds]. repeat split; try reflexivity; try assumption; norm_dec; try lra.
      all: try match goal with |- 0 < Rmax _ ?b => apply Rlt_le_trans with b; [lra | apply Rmax_r] end.
Qed.
End Joint.
