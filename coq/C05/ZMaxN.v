(* C05 - the redshift range of the interpolated cosmology covers EVERY source redshift of a sample of ANY size.  CosmoLikelihood.__init__ runs
       z_max = 0
       for kwargs_lens in kwargs_likelihood_list:
           if "z_source" in kwargs_lens and kwargs_lens["z_source"] > z_max: z_max = kwargs_lens["z_source"]
           if "z_source2" in kwargs_lens and kwargs_lens["z_source2"] > z_max: z_max = kwargs_lens["z_source2"]
       z_max = max(z_max, kwargs_model.get("z_apparent_m_anchor", 0.1))
   The theorems of Model.v (Section ZMax) run the constructor on a two-lens list; here the loop is taken by induction over the interpreter,
   for lenses with both, one or no source redshift: the stored _z_max is max(running maximum over all source redshifts, anchor), hence
   >= every z_source and every z_source2 of the sample.  Source = C05.Src (regenerated). *)
From Coq Require Import Reals ZArith String List Bool Lra Lia.
Require Import Py.PyAst Py.PyVal Py.PySem Py.XLemmas Py.Unfold Py.Tactics Py.Sym.
Require Import C05.Src C05.Model.
Import ListNotations.
Open Scope string_scope.

Definition spec := (option R * option R)%type.       (* (z_source, z_source2) of a lens, each present or not *)
Definition mk_lens (s : spec) : val :=
  match s with
  | (Some a, Some b) => dict [("z_lens", num (1/2)); ("z_source", num a); ("z_source2", num b)]
  | (Some a, None) => dict [("z_lens", num (1/2)); ("z_source", num a)]
  | (None, Some b) => dict [("z_lens", num (1/2)); ("z_source2", num b)]
  | (None, None) => dict [("name", VStr "no redshift")]
  end.
Lemma call_class G f cls fd self args kws w : call G (S f) (CClass cls fd) self args kws w = call G f (CFun fd) (Some (VObj cls [])) args kws w.
Proof. reflexivity. Qed.
Lemma list_set_mid {A} (f : A -> val) (pre : list A) x rest : list_set (map f (pre ++ x :: rest)) (length pre) (f x) = Some (map f (pre ++ x :: rest)).
Proof. induction pre as [|p pre IH]; cbn [app map length list_set]; [reflexivity|]. rewrite IH. reflexivity. Qed.

(* the running maximum: the integer 0 until a source redshift exceeds it *)
Definition zv (o : option R) : val := match o with None => VInt 0 | Some z => num z end.
Definition zr (o : option R) : R := match o with None => 0%R | Some z => z end.
Definition upd (o : option R) (z : R) (b : bool) : option R := if b then Some z else o.

Section ZN.
Variable za : R.
Definition bodyI := match src_CosmoLikelihood_init with FunDef _ _ _ _ b => b end.
Definition bodyZ := match nth 16 bodyI SPass with SFor _ _ bb => bb | _ => [] end.
Definition envZ (selfv : val) (L : list val) (o : option R) (prev : option spec) : env :=
  ([("self", selfv); ("kwargs_likelihood_list", VList L); ("cosmology", VStr "FLCDM");
    ("kwargs_model", VDict [(VStr "z_apparent_m_anchor", num za)]); ("kwargs_bounds", VDict []); ("sne_likelihood", VNone);
    ("kwargs_sne_likelihood", VNone); ("KDE_likelihood_chain", VNone); ("kwargs_kde_likelihood", VNone); ("normalized", VBool false);
    ("custom_prior", VNone); ("interpolate_cosmo", VBool true); ("num_redshift_interp", VInt 100); ("cosmo_fixed", VNone);
    ("gamma_pl_num", VInt 0); ("z_max", zv o)] ++ match prev with Some s => [("kwargs_lens", mk_lens s)] | None => [] end)%list.
Definition stepZ := for_step (eval Gz 117) (exec Gz 117) 117 (EName "kwargs_lens") (EName "kwargs_likelihood_list") bodyZ.
Ltac RUNZ tm := let r := eval lazy -[Rplus Rmult Rminus Rdiv Rinv Ropp Rmax Rmin Rlt Rle Rgt Rge ln exp sqrt log10 IZR dec Rpower pow PI DBL_MAX not mk_lens] in tm in change tm with r.
Ltac RUNW tm := let r := eval lazy -[Rplus Rmult Rminus Rdiv Rinv Ropp Rmax Rmin Rlt Rle Rgt Rge ln exp sqrt log10 IZR dec Rpower pow PI DBL_MAX not list_set Z.to_nat Z.of_nat] in tm in change tm with r.

(* one lens, with given answers to the (at most two) questions "is this source redshift above the running maximum" *)
Definition qs (s : spec) (b1 b2 : bool) : list bool := match s with (Some _, Some _) => [b1; b2] | (Some _, None) => [b1] | (None, Some _) => [b2] | (None, None) => [] end.
Definition o1 (o : option R) (s : spec) (b1 : bool) : option R := match fst s with Some a => upd o a b1 | None => o end.
Definition o2 (o : option R) (s : spec) (b1 b2 : bool) : option R := match snd s with Some b => upd (o1 o s b1) b b2 | None => o1 o s b1 end.
Definition pcs (o : option R) (s : spec) (b1 b2 : bool) (pc : list Prop) : list Prop :=
  let p1 := match fst s with Some a => [if b1 then (zr o < a)%R else (~ zr o < a)%R] | None => [] end in
  let p2 := match snd s with Some b => [if b2 then (zr (o1 o s b1) < b)%R else (~ zr (o1 o s b1) < b)%R] | None => [] end in
  (p2 ++ p1 ++ pc)%list.
Lemma stepZ_one selfv (L : list val) (k : nat) s o prev b1 b2 rg cu lg ds pc :
  list_set L k (mk_lens s) = Some L ->          (* the element at the loop position is this lens (written back unchanged) *)
  stepZ (mk_lens s) (Z.of_nat k) (envZ selfv L o prev) (World rg cu lg (qs s b1 b2 ++ ds) pc)
  = Ok (ONormal (envZ selfv L (o2 o s b1 b2) (Some s)), World rg cu lg ds (pcs o s b1 b2 pc)).
Proof.
  intros HL.
  destruct o as [z|]; destruct prev as [[[pa|] [pb|]]|]; destruct s as [[a|] [b|]]; destruct b1; destruct b2;
  unfold stepZ, envZ, zv, qs, o2, o1, upd, pcs, zr; unfold mk_lens in HL |- *; unfold dict, num in HL; cbn [map fst snd] in HL; cbn [app fst snd];
  (match goal with |- ?L0 = _ => RUNW L0 end); rewrite Nat2Z.id, HL;
  (match goal with |- ?L0 = _ => RUNW L0 end); reflexivity.
Qed.

(* the reference: a left-to-right scan with a running maximum *)
Definition ask (o : option R) (z : R) : bool := if Rlt_dec (zr o) z then true else false.
Definition b1_of (o : option R) (s : spec) : bool := match fst s with Some a => ask o a | None => false end.
Definition b2_of (o : option R) (s : spec) : bool := match snd s with Some b => ask (o1 o s (b1_of o s)) b | None => false end.
Definition next (o : option R) (s : spec) : option R := o2 o s (b1_of o s) (b2_of o s).
Fixpoint zfold (o : option R) (specs : list spec) : option R := match specs with [] => o | s :: r => zfold (next o s) r end.
Fixpoint ansZ (o : option R) (specs : list spec) : list bool :=
  match specs with [] => [] | s :: r => (qs s (b1_of o s) (b2_of o s) ++ ansZ (next o s) r)%list end.
Fixpoint pcZ (o : option R) (specs : list spec) (pc0 : list Prop) : list Prop :=
  match specs with [] => pc0 | s :: r => pcZ (next o s) r (pcs o s (b1_of o s) (b2_of o s) pc0) end.
Lemma ask_fact o z : if ask o z then (zr o < z)%R else (~ zr o < z)%R.
Proof. unfold ask. destruct (Rlt_dec (zr o) z); assumption. Qed.
Lemma pcZ_holds specs : forall o pc0, holds pc0 -> holds (pcZ o specs pc0).
Proof.
  induction specs as [|s r IH]; intros o pc0 H0; [exact H0|]. cbn [pcZ]. apply IH. unfold pcs, b1_of, b2_of.
  destruct s as [[a|] [b|]]; cbn [fst snd app holds]; repeat split; try exact H0; try apply ask_fact.
Qed.
(* the running maximum never decreases and dominates every source redshift seen *)
Lemma upd_ask_ge o z : (zr o <= zr (upd o z (ask o z)))%R /\ (z <= zr (upd o z (ask o z)))%R.
Proof. unfold upd, ask. destruct (Rlt_dec (zr o) z); cbn [zr]; lra. Qed.
Lemma next_ge o s : (zr o <= zr (next o s))%R /\ (forall a, fst s = Some a -> (a <= zr (next o s))%R) /\ (forall b, snd s = Some b -> (b <= zr (next o s))%R).
Proof.
  unfold next, o2, o1, b2_of, b1_of, o1. destruct s as [[a|] [b|]]; cbn [fst snd].
  - pose proof (upd_ask_ge o a) as [H1 H2]. pose proof (upd_ask_ge (upd o a (ask o a)) b) as [H3 H4].
    repeat split; [lra | intros ? [= <-]; lra | intros ? [= <-]; lra].
  - pose proof (upd_ask_ge o a) as [H1 H2]. repeat split; [lra | intros ? [= <-]; lra | discriminate].
  - pose proof (upd_ask_ge o b) as [H1 H2]. repeat split; [lra | discriminate | intros ? [= <-]; lra].
  - repeat split; [lra | discriminate | discriminate].
Qed.
Lemma zfold_ge specs : forall o, (zr o <= zr (zfold o specs))%R /\
  (forall s, In s specs -> (forall a, fst s = Some a -> (a <= zr (zfold o specs))%R) /\ (forall b, snd s = Some b -> (b <= zr (zfold o specs))%R)).
Proof.
  induction specs as [|s r IH]; intros o; cbn [zfold]; [split; [lra | intros ? []]|].
  destruct (IH (next o s)) as [H1 H2]. destruct (next_ge o s) as [G1 [G2 G3]]. split; [lra|].
  intros t [<-|Ht]; [split; intros z Hz; [specialize (G2 z Hz) | specialize (G3 z Hz)]; lra | apply H2; exact Ht].
Qed.

Lemma loopZ selfv rest : forall pre o prev rg cu lg ds pc0,
  exists prev',
  iter_loop stepZ (map mk_lens rest) (Z.of_nat (length pre)) (envZ selfv (map mk_lens (pre ++ rest)) o prev) (World rg cu lg (ansZ o rest ++ ds) pc0)
  = Ok (ONormal (envZ selfv (map mk_lens (pre ++ rest)) (zfold o rest) prev'), World rg cu lg ds (pcZ o rest pc0)).
Proof.
  induction rest as [|s r IH]; intros pre o prev rg cu lg ds pc0.
  - exists prev. reflexivity.
  - cbn [map iter_loop ansZ pcZ zfold]. rewrite <- app_assoc.
    rewrite (stepZ_one selfv (map mk_lens (pre ++ s :: r)) (length pre) s o prev (b1_of o s) (b2_of o s) rg cu lg _ pc0 (list_set_mid mk_lens pre s r)).
    cbn [bind fst snd]. rewrite (Sym_app_snoc pre s r).
    replace (Z.of_nat (length pre) + 1)%Z with (Z.of_nat (length (pre ++ [s]))) by (rewrite app_length; cbn [length]; lia).
    destruct (IH (pre ++ [s])%list (next o s) (Some s) rg cu lg ds (pcs o s (b1_of o s) (b2_of o s) pc0)) as [prev' E].
    exists prev'. exact E.
Qed.

(* the constructor around the loop *)
Definition afterZ (ρ' : env) (w' : world) :=
  run_stmts (exec_stmt (tails Gz) (runms Gz 117) (eval Gz 117) (evals_with (eval Gz 117)) (exec Gz 117) 117) (skipn 17 bodyI) ρ' w'.
Definition finishZ (ow : outcome * world) : res (val * world) :=
  match fst ow with
  | ONormal ρ' => Ok (match lookup "self" ρ' with Some o => o | None => VNone end, snd ow)
  | OReturn v => Ok (v, snd ow)
  | OTail o targs tkws => o targs tkws (snd ow)
  end.
Definition ctor_args (specs : list spec) : list val := [VList (map mk_lens specs); VStr "FLCDM"; dict [("z_apparent_m_anchor", num za)]; dict []].
Lemma prefixZ specs w :
  exists fs,
  call Gz 120 (CClass "CosmoLikelihood" src_CosmoLikelihood_init) None (ctor_args specs) [] w
  = (do ow <- seq_out (iter_loop stepZ (map mk_lens specs) 0%Z (envZ (VObj "CosmoLikelihood" fs) (map mk_lens specs) None None) w) afterZ; finishZ ow).
Proof.
  eexists. rewrite call_class, call_fun. unfold ctor_args.
  cbv beta zeta delta [f_static f_params f_kwarg f_body f_name src_CosmoLikelihood_init] iota.
  (match goal with |- context [bind_params ?a ?b ?c ?d] => RUNZ (bind_params a b c d) end).
  cbn [bind fst snd]. rewrite exec_S.
  (match goal with |- context [run_stmts ?st ?body ?r ?w0] =>
     change (run_stmts st body r w0) with (run_stmts st (firstn 16 body ++ skipn 16 body) r w0) end).
  rewrite run_stmts_app. cbn [firstn].
  (match goal with |- context [seq_out (run_stmts ?st ?l ?r ?w0) _] => RUNZ (run_stmts st l r w0) end).
  cbn [seq_out bind fst snd skipn]. rewrite run_stmts_cons. cbn [exec_stmt].
  (match goal with |- context [eval Gz 117 ?c ?r ?w0] => RUNZ (eval Gz 117 c r w0) end).
  cbn [bind fst snd as_list].
  unfold stepZ, bodyZ, bodyI, envZ, afterZ, finishZ, zv, dict, num.
  cbv beta iota zeta delta [src_CosmoLikelihood_init nth skipn]. cbn [app map fst snd String.eqb Ascii.eqb Bool.eqb].
  reflexivity.
Qed.
Lemma field_get_set_same k v fs : field_get k (field_set k v fs) = Some v.
Proof. induction fs as [|[k' v'] fs IH]; cbn [field_set field_get]; [rewrite String.eqb_refl; reflexivity|]. destruct (String.eqb k k') eqn:E; cbn [field_get]; rewrite E; [reflexivity | exact IH]. Qed.
Ltac RUNS tm := let r := eval lazy -[Rplus Rmult Rminus Rdiv Rinv Ropp Rmax Rmin Rlt Rle Rgt Rge ln exp sqrt log10 IZR dec Rpower pow PI DBL_MAX not field_set] in tm in change tm with r.
Lemma suffixZ fs L o prev w :
  exists obj, (do ow <- afterZ (envZ (VObj "CosmoLikelihood" fs) L o prev) w; finishZ ow) = Ok (obj, w) /\ fieldz obj "_z_max" = Some (num (Rmax (zr o) za)).
Proof.
  destruct o as [z|]; destruct prev as [s|]; eexists; (split;
  [ unfold afterZ, bodyI, envZ, finishZ, zv; cbv beta iota zeta delta [src_CosmoLikelihood_init skipn]; cbn [app];
    (match goal with |- ?L0 = _ => RUNS L0 end); reflexivity
  | cbn [fieldz]; rewrite field_get_set_same; reflexivity ]).
Qed.

(* the constructor, for a sample of any size: _z_max = max(running maximum over all source redshifts, anchor redshift) *)
Theorem z_max_any_number_of_lenses specs rg cu :
  exists obj,
  yields Gz 120 (CClass "CosmoLikelihood" src_CosmoLikelihood_init) None (ctor_args specs) [] rg cu obj cu []
  /\ fieldz obj "_z_max" = Some (num (Rmax (zr (zfold None specs)) za)).
Proof.
  destruct (prefixZ specs (World rg cu [] (ansZ None specs ++ []) [])) as [fs EP].
  destruct (loopZ (VObj "CosmoLikelihood" fs) specs [] None None rg cu [] [] []) as [prev' EL]. cbn [app length Z.of_nat] in EL.
  destruct (suffixZ fs (map mk_lens specs) (zfold None specs) prev' (World rg cu [] [] (pcZ None specs []))) as [obj [ES EF]].
  exists obj. split; [|exact EF]. unfold yields. exists (ansZ None specs ++ [])%list. eexists. split.
  - rewrite EP, EL. cbn [seq_out bind fst snd]. exact ES.
  - cbn [decs cur olog pc]. repeat split. apply pcZ_holds. exact I.
Qed.
End ZN.
