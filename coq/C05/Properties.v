(* C05 — property theorems only. Source = C05.Src, regenerated from /repo on this run. *)
From Coq Require Import Reals ZArith String List Bool Lra.
Require Import Py.PyAst Py.PyVal Py.PySem Py.XLemmas.
Require Import C05.Src C05.Flrw C05.Model C05.ZMaxN.
Import ListNotations.
Open Scope string_scope.
Open Scope R_scope.

(* sampled parameters -> astropy model: exactly these keywords, nothing else (no radiation, no neutrinos, no extra key is forwarded) *)
Theorem C05_param_map_FLCDM : forall h om ok w w0 wa rg cu,
  yields Gp 60 (CFun src_CosmoParam_cosmo) (Some (cparam "FLCDM")) [kw h om ok w w0 wa] [] rg cu (VObj "FlatLambdaCDM" [("H0", num h); ("Om0", num om)]) cu [].
Proof. exact map_FLCDM. Qed.
Theorem C05_param_map_FwCDM : forall h om ok w w0 wa rg cu,
  yields Gp 60 (CFun src_CosmoParam_cosmo) (Some (cparam "FwCDM")) [kw h om ok w w0 wa] [] rg cu (VObj "FlatwCDM" [("H0", num h); ("Om0", num om); ("w0", num w)]) cu [].
Proof. exact map_FwCDM. Qed.
Theorem C05_param_map_w0waCDM : forall h om ok w w0 wa rg cu,
  yields Gp 60 (CFun src_CosmoParam_cosmo) (Some (cparam "w0waCDM")) [kw h om ok w w0 wa] [] rg cu
    (VObj "w0waCDM" [("H0", num h); ("Om0", num om); ("Ode0", num (1 - om)); ("w0", num w0); ("wa", num wa)]) cu [].
Proof. exact map_w0waCDM. Qed.
Theorem C05_param_map_oLCDM : forall h om ok w w0 wa rg cu,
  yields Gp 60 (CFun src_CosmoParam_cosmo) (Some (cparam "oLCDM")) [kw h om ok w w0 wa] [] rg cu
    (VObj "LambdaCDM" [("H0", num h); ("Om0", num om); ("Ode0", num (1 - om - ok))]) cu [].
Proof. exact map_oLCDM. Qed.
Print Assumptions C05_param_map_oLCDM.
Theorem C05_curvature_is_sampled_ok : forall om ok, 1 - om - (1 - om - ok) = ok.
Proof. exact olcdm_curvature. Qed.
Theorem C05_param_map_none_and_unsupported : (forall k rg cu, yields Gp 60 (CFun src_CosmoParam_cosmo) (Some (cparam "NONE")) [k] [] rg cu VNone cu []) /\
  (forall k w, call Gp 60 (CFun src_CosmoParam_cosmo) (Some (cparam "wCDM")) [k] [] w = Exc "ValueError").
Proof. split; [exact map_NONE | exact map_unsupported]. Qed.

(* what a lens derives from ANY distance provider (DA, DA12), for all 13 non-DSPL types: Ddt = max((1+zd) Dd Ds / Dds, 1e-5), Dd = max(DA zd, 1e-5) *)
Theorem C05_ddt_dd : forall (DA : R -> R) (DA12 : R -> R -> R), Forall (ddt_dd_ok DA DA12) NON_DSPL.
Proof. exact ddt_dd_formula. Qed.
Print Assumptions C05_ddt_dd.
(* distance-modulus difference source - anchor for the three magnification types, 0 for the others *)
Theorem C05_modulus : forall (DA : R -> R) (DA12 : R -> R -> R),
  Forall (fun t => forall zl zs zs2 za rg cu, 0 < (1 + zs) * (1 + zs) * floor5 (DA zs) -> 0 < (1 + za) * (1 + za) * floor5 (DA za) ->
    yields (Gl DA DA12) 60 (CFun src_LensLikelihood_luminosity_distance_modulus) (Some (lens t zl zs zs2)) [cosmo0; num za] [] rg cu
      (num (mu_f DA zs - mu_f DA za)) cu []) MAGS.
Proof. exact modulus_formula. Qed.
Theorem C05_modulus_zero_other : forall (DA : R -> R) (DA12 : R -> R -> R), Forall (fun t => forall zl zs zs2 za rg cu,
  yields (Gl DA DA12) 60 (CFun src_LensLikelihood_luminosity_distance_modulus) (Some (lens t zl zs zs2)) [cosmo0; za] [] rg cu (VInt 0) cu []) NON_MAGS.
Proof. exact modulus_zero_other. Qed.
(* double-source-plane ratio beta = Dds1/Ds1 * Ds2/Dds2 *)
Theorem C05_beta : forall (DA : R -> R) (DA12 : R -> R -> R) zl zs zs2 rg cu, DA zs <> 0 -> DA12 zl zs2 <> 0 ->
  yields (Gl DA DA12) 60 (CFun src_LensLikelihoodBase_beta_dsp) (Some (lens "DSPL" zl zs zs2)) [cosmo0] [] rg cu (num (beta_f DA DA12 zl zs zs2)) cu [].
Proof. exact beta_formula. Qed.
(* and these are the numbers fed to the marginalised likelihood, once, together with the population's own anchor redshift *)
Theorem C05_fed_to_likelihood : forall (DA : R -> R) (DA12 : R -> R -> R) zl zs zs2 za kl kk klos rg cu, DA12 zl zs <> 0 ->
  0 < (1 + zs) * (1 + zs) * floor5 (DA zs) -> 0 < (1 + za) * (1 + za) * floor5 (DA za) ->
  yields (Gl DA DA12) 80 (CFun src_LensLikelihood_lens_log_likelihood) (Some (lens "TDMag" zl zs zs2))
    [cosmo0; kl; kk; dict [("mu_sne", num 19); ("z_apparent_m_anchor", num za)]; klos] [] rg cu (num 0) cu
    [("hyper_param_likelihood", [num (floor5 (ddt_f DA DA12 zl zs)); num (floor5 (DA zl)); num (mu_f DA zs - mu_f DA za); VNone; kl; kk;
                                 dict [("mu_sne", num 19); ("z_apparent_m_anchor", num za)]; klos; cosmo0])].
Proof. exact fed_to_likelihood_mag. Qed.
Theorem C05_fed_to_likelihood_dspl : forall (DA : R -> R) (DA12 : R -> R -> R) zl zs zs2 kl kk klos rg cu, DA zs <> 0 -> DA12 zl zs2 <> 0 ->
  yields (Gl DA DA12) 80 (CFun src_LensLikelihood_lens_log_likelihood) (Some (lens "DSPL" zl zs zs2)) [cosmo0; kl; kk; VNone; klos] [] rg cu (num 0) cu
    [("hyper_param_likelihood", [VInt 0; VInt 0; VInt 0; num (beta_f DA DA12 zl zs zs2); kl; kk; dict []; klos; cosmo0])].
Proof. exact fed_to_likelihood_dspl. Qed.
(* outputs are positive: the floor *)
Theorem C05_positive : forall x, 1/100000 <= floor5 x.
Proof. intros x. unfold floor5. apply Rmax_r. Qed.

(* the ways of supplying a cosmology *)
Theorem C05_mode_tabulated : forall interp fixed (dl zl : val) h rg cu,
  yields Gm 60 (CFun src_CosmoLikelihood_cosmo_instance) (Some (clike interp fixed []))
    [dict [("h0", num h); ("ang_diameter_distances", dl); ("redshifts", zl)]] [] rg cu
    (VObj "CosmoInterp" [("ang_dist_list", dl); ("z_list", zl); ("Ok0", VNone); ("K", VNone)]) cu [("new CosmoInterp", [dl; zl; VNone; VNone])].
Proof. exact mode_tabulated. Qed.
Theorem C05_mode_sampled_interp : forall (k : val) rg cu, k = dict [("h0", num 70); ("om", num (3/10))] ->
  yields Gm 60 (CFun src_CosmoLikelihood_cosmo_instance) (Some (clike true VNone [])) [k] [] rg cu
    (VObj "CosmoInterp" [("cosmo", VObj "astropy" [("from", k)]); ("z_stop", num 3); ("num_interp", VInt 100)]) cu
    [("new CosmoInterp", [VObj "astropy" [("from", k)]; num 3; VInt 100])].
Proof. exact mode_sampled_interp. Qed.
Theorem C05_mode_sampled_exact : forall (k : val) rg cu, k = dict [("h0", num 70); ("om", num (3/10))] ->
  yields Gm 60 (CFun src_CosmoLikelihood_cosmo_instance) (Some (clike false VNone [])) [k] [] rg cu (VObj "astropy" [("from", k)]) cu [].
Proof. exact mode_sampled_exact. Qed.
Theorem C05_mode_fixed : forall (fx k cached : val) rg cu, fx = VObj "UserCosmology" [] -> k = dict [("h0", num 70)] -> cached = VObj "CosmoInterp" [("tag", VStr "cached")] ->
  yields Gm 60 (CFun src_CosmoLikelihood_cosmo_instance) (Some (clike false fx [])) [k] [] rg cu fx cu [] /\
  yields Gm 60 (CFun src_CosmoLikelihood_cosmo_instance) (Some (clike true fx [])) [k] [] rg cu
    (VObj "CosmoInterp" [("cosmo", fx); ("z_stop", num 3); ("num_interp", VInt 100)]) cu [("new CosmoInterp", [fx; num 3; VInt 100])] /\
  yields Gm 60 (CFun src_CosmoLikelihood_cosmo_instance) (Some (clike true fx [("_cosmo_fixed_interp", cached)])) [k] [] rg cu cached cu [].
Proof. intros fx k cached rg cu H1 H2 H3. repeat split; [exact (mode_fixed_exact fx k rg cu H1 H2) | exact (mode_fixed_interp_first fx k rg cu H1 H2) | exact (mode_fixed_interp_cached fx k cached rg cu H1 H2 H3)]. Qed.

(* the Friedmann specification: every distance is (c/H0) x (a function of the other parameters); H0 -> c H0 divides distances by c,
   hence (Section Scaling) Ddt and Dd scale by 1/c while beta, Ddt/Dd and the modulus difference do not change *)
Theorem C05_h0_scaling : forall H0 c om ok w0 wa z1 z2, H0 <> 0 -> c <> 0 -> 1 + z2 <> 0 -> DA12 (c * H0) om ok w0 wa z1 z2 = DA12 H0 om ok w0 wa z1 z2 / c.
Proof. exact DA12_h0_scaling. Qed.
Print Assumptions C05_h0_scaling.
Theorem C05_scaled_provider : forall (DA : R -> R) (DA12 : R -> R -> R) c, 0 < c ->
  (forall zl zs, DA12 zl zs <> 0 -> ddt_f (DAc DA c) (DA12c DA12 c) zl zs = ddt_f DA DA12 zl zs / c) /\
  (forall zl z1 z2, DA z1 <> 0 -> DA12 zl z2 <> 0 -> beta_f (DAc DA c) (DA12c DA12 c) zl z1 z2 = beta_f DA DA12 zl z1 z2) /\
  (forall zl zs, DA zl <> 0 -> DA12 zl zs <> 0 -> ddt_f (DAc DA c) (DA12c DA12 c) zl zs / DAc DA c zl = ddt_f DA DA12 zl zs / DA zl) /\
  (forall zs za, 0 < DA zs -> 0 < DA za -> -1 < zs -> -1 < za ->
     5 * log10 ((1 + zs) * (1 + zs) * DAc DA c zs) - 5 * log10 ((1 + za) * (1 + za) * DAc DA c za)
     = 5 * log10 ((1 + zs) * (1 + zs) * DA zs) - 5 * log10 ((1 + za) * (1 + za) * DA za)).
Proof.
  intros DA DA12 c Hc. repeat split.
  - intros; apply ddt_scales; assumption.
  - intros; apply beta_invariant; assumption.
  - intros; apply dd_ratio_invariant; assumption.
  - intros; apply modulus_invariant; assumption.
Qed.

(* the redshift range of the interpolated supply modes (z_stop = _z_max, C05_mode_sampled_interp / C05_mode_fixed) covers every redshift a
   distance is asked at: it is the largest of all source and second-source redshifts - a second source IN FRONT of the first does not
   shorten it - and the anchor redshift *)
Theorem C05_z_max_covers_all_redshifts : forall zs1 zs2a zs2b za rg cu,
  (0 < zs1 -> zs1 < zs2a -> zs2a < zs2b ->
     exists o, yields Gz 120 (CClass "CosmoLikelihood" src_CosmoLikelihood_init) None (init_args zs1 zs2a zs2b za) [] rg cu o cu [] /\ fieldz o "_z_max" = Some (num (Rmax zs2b za)))
  /\ (0 < zs1 -> zs1 < zs2a -> zs2b < zs2a ->
     exists o, yields Gz 120 (CClass "CosmoLikelihood" src_CosmoLikelihood_init) None (init_args zs1 zs2a zs2b za) [] rg cu o cu [] /\ fieldz o "_z_max" = Some (num (Rmax zs2a za)))
  /\ (0 < zs2a -> zs2a < zs1 -> zs2b < zs1 ->
     exists o, yields Gz 120 (CClass "CosmoLikelihood" src_CosmoLikelihood_init) None (init_args zs1 zs2a zs2b za) [] rg cu o cu [] /\ fieldz o "_z_max" = Some (num (Rmax zs1 za))).
Proof. intros. split; [apply z_max_second_behind | split; [apply z_max_second_in_front | apply z_max_first_lens_highest]]. Qed.
Print Assumptions C05_z_max_covers_all_redshifts.

(* THE INTERPOLATION RANGE COVERS A SAMPLE OF ANY SIZE (induction over the interpreter's loop in CosmoLikelihood.__init__, ZMaxN.v): for every
   list of lenses - each with both, one or no source redshift - the constructed object stores
       _z_max = max(running maximum of all source redshifts, anchor redshift),
   so every z_source and every z_source2 of the sample, and the anchor, lie inside [0, _z_max]; no variate is consumed, nothing is logged. *)
Theorem C05_z_max_covers_a_sample_of_any_size : forall (za : R) (specs : list spec) rg cu,
  exists obj zmax,
  yields Gz 120 (CClass "CosmoLikelihood" src_CosmoLikelihood_init) None (ctor_args za specs) [] rg cu obj cu []
  /\ fieldz obj "_z_max" = Some (Model.num zmax)
  /\ za <= zmax /\ 0 <= zmax
  /\ (forall s, In s specs -> (forall a, fst s = Some a -> a <= zmax) /\ (forall b, snd s = Some b -> b <= zmax)).
Proof.
  intros za specs rg cu. destruct (z_max_any_number_of_lenses za specs rg cu) as [obj [Hy Hf]].
  exists obj, (Rmax (zr (zfold None specs)) za). split; [exact Hy|]. split; [exact Hf|].
  destruct (zfold_ge specs None) as [H0 H1]. cbn [zr] in H0.
  pose proof (Rmax_l (zr (zfold None specs)) za). pose proof (Rmax_r (zr (zfold None specs)) za).
  split; [lra|]. split; [lra|]. intros s Hs. destruct (H1 s Hs) as [Ha Hb].
  split; intros z Hz; [specialize (Ha z Hz) | specialize (Hb z Hz)]; lra.
Qed.
Print Assumptions C05_z_max_covers_a_sample_of_any_size.
