(* The Friedmann (FLRW) distances, as a specification: dimensionless comoving distance by Coquelicot's Riemann integral.
   Radiation and neutrinos are NOT part of the model: hierArc builds its astropy cosmologies without Tcmb0/Neff. *)
From Coq Require Import Reals Lra.
From Coquelicot Require Import Coquelicot.
Open Scope R_scope.
Definition ckm : R := 299792458 / 1000.                       (* speed of light in km/s *)
(* E(z)^2 for matter, curvature and dark energy with w(a) = w0 + wa (1 - a) *)
Definition E2 (om ok w0 wa z : R) : R :=
  om * (1 + z) ^ 3 + ok * (1 + z) ^ 2 + (1 - om - ok) * (Rpower (1 + z) (3 * (1 + w0 + wa)) * exp (- 3 * wa * z / (1 + z))).
Definition chi (om ok w0 wa z1 z2 : R) : R := RInt (fun x => / sqrt (E2 om ok w0 wa x)) z1 z2.
(* transverse comoving distance in units of c/H0 *)
Definition sk (ok x : R) : R :=
  if Rlt_dec 0 ok then sinh (sqrt ok * x) / sqrt ok else if Rlt_dec ok 0 then sin (sqrt (- ok) * x) / sqrt (- ok) else x.
Definition DA12 (H0 om ok w0 wa z1 z2 : R) : R := ckm / H0 * sk ok (chi om ok w0 wa z1 z2) / (1 + z2).
Definition DA (H0 om ok w0 wa z : R) : R := DA12 H0 om ok w0 wa 0 z.
Lemma sk_flat x : sk 0 x = x.
Proof. unfold sk. destruct (Rlt_dec 0 0); [lra|]. reflexivity. Qed.
Lemma sk_zero ok x : ok = 0 -> sk ok x = x.
Proof. intros ->. apply sk_flat. Qed.
Lemma sk_open ok x : 0 < ok -> sk ok x = (exp (sqrt ok * x) - exp (- (sqrt ok * x))) / 2 / sqrt ok.
Proof. intros H. unfold sk. destruct (Rlt_dec 0 ok); [|contradiction]. unfold sinh. reflexivity. Qed.
Lemma sk_closed ok x : ok < 0 -> sk ok x = sin (sqrt (- ok) * x) / sqrt (- ok).
Proof. intros H. unfold sk. destruct (Rlt_dec 0 ok); [lra|]. destruct (Rlt_dec ok 0); [reflexivity|contradiction]. Qed.
(* every FLRW distance is (c/H0) x a function of the other parameters: H0 -> c H0 divides all distances by c *)
Theorem DA12_h0_scaling H0 c om ok w0 wa z1 z2 : H0 <> 0 -> c <> 0 -> 1 + z2 <> 0 ->
  DA12 (c * H0) om ok w0 wa z1 z2 = DA12 H0 om ok w0 wa z1 z2 / c.
Proof. intros. unfold DA12. field. repeat split; assumption. Qed.
Theorem DA_h0_scaling H0 c om ok w0 wa z : H0 <> 0 -> c <> 0 -> 1 + z <> 0 -> DA (c * H0) om ok w0 wa z = DA H0 om ok w0 wa z / c.
Proof. intros. unfold DA. apply DA12_h0_scaling; assumption. Qed.
(* the model families of hierArc as instances *)
Definition DA_FLCDM H0 om z := DA H0 om 0 (-1) 0 z.
Definition DA_FwCDM H0 om w z := DA H0 om 0 w 0 z.
Definition DA_w0waCDM H0 om w0 wa z := DA H0 om 0 w0 wa z.
Definition DA_oLCDM H0 om ok z := DA H0 om ok (-1) 0 z.
