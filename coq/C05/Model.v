(* C05 — distances fed to the likelihoods are the FLRW distances of the sampled cosmology. Source = C05.Src (regenerated). *)
From Coq Require Import Reals ZArith String List Bool Lra Lia.
Require Import Py.PyAst Py.PyVal Py.PySem Py.XLemmas Py.Unfold Py.Tactics.
Require Import C05.Src.
Import ListNotations.
Open Scope string_scope.
Fixpoint assoc {A} (k : string) (l : list (string * A)) : option A :=
  match l with [] => None | (k', v) :: t => if String.eqb k k' then Some v else assoc k t end.
Definition num (r : R) := VNum (Fin r).
Definition dict (l : list (string * val)) := VDict (map (fun kv => (VStr (fst kv), snd kv)) l).
Open Scope R_scope.

(* ------------------------------------------------------------------------------------------- *)
(* 1. sampled parameters -> cosmological model: each astropy constructor is an oracle that RECORDS every keyword it is given *)
Definition ctor (name : string) : callee :=
  COracle (fun args kws w => match args with [] => Ok (VObj name kws, w) | _ => Stuck "cosmology constructor: positional argument" end).
Definition Gp : fenv := FEnv (fun _ _ => None)
  (fun n => if existsb (String.eqb n) ["FlatLambdaCDM"; "FlatwCDM"; "w0waCDM"; "LambdaCDM"] then Some (ctor n) else None).
Definition cparam (model : string) := VObj "CosmoParam" [("_cosmology", VStr model)].
Definition kw (h om ok w w0 wa : R) := dict [("h0", num h); ("om", num om); ("ok", num ok); ("w", num w); ("w0", num w0); ("wa", num wa); ("extra", VStr "ignored")].
Theorem map_FLCDM h om ok w w0 wa rg cu :
  yields Gp 60 (CFun src_CosmoParam_cosmo) (Some (cparam "FLCDM")) [kw h om ok w w0 wa] [] rg cu
    (VObj "FlatLambdaCDM" [("H0", num h); ("Om0", num om)]) cu [].
Proof. yields_auto. Qed.
Theorem map_FwCDM h om ok w w0 wa rg cu :
  yields Gp 60 (CFun src_CosmoParam_cosmo) (Some (cparam "FwCDM")) [kw h om ok w w0 wa] [] rg cu
    (VObj "FlatwCDM" [("H0", num h); ("Om0", num om); ("w0", num w)]) cu [].
Proof. yields_auto. Qed.
Theorem map_w0waCDM h om ok w w0 wa rg cu :
  yields Gp 60 (CFun src_CosmoParam_cosmo) (Some (cparam "w0waCDM")) [kw h om ok w w0 wa] [] rg cu
    (VObj "w0waCDM" [("H0", num h); ("Om0", num om); ("Ode0", num (1 - om)); ("w0", num w0); ("wa", num wa)]) cu [].
Proof. yields_with real_fact ltac:(val_eq). Qed.
Theorem map_oLCDM h om ok w w0 wa rg cu :
  yields Gp 60 (CFun src_CosmoParam_cosmo) (Some (cparam "oLCDM")) [kw h om ok w w0 wa] [] rg cu
    (VObj "LambdaCDM" [("H0", num h); ("Om0", num om); ("Ode0", num (1 - om - ok))]) cu [].
Proof. yields_with real_fact ltac:(val_eq). Qed.
Theorem map_NONE k rg cu : yields Gp 60 (CFun src_CosmoParam_cosmo) (Some (cparam "NONE")) [k] [] rg cu VNone cu [].
Proof. yields_auto. Qed.
Theorem map_unsupported k w : call Gp 60 (CFun src_CosmoParam_cosmo) (Some (cparam "wCDM")) [k] [] w = Exc "ValueError".
Proof. reflexivity. Qed.
(* Omega_k of the curved model that is built is the sampled ok:  Ok0 = 1 - Om0 - Ode0 *)
Lemma olcdm_curvature om ok : 1 - om - (1 - om - ok) = ok.  Proof. ring. Qed.

(* ------------------------------------------------------------------------------------------- *)
(* 2. the quantities a lens derives from ANY distance provider (DA, DA12)                          *)
Section Formulas.
Variable DA : R -> R.
Variable DA12 : R -> R -> R.
Definition qty (r : R) : val := VObj "Quantity" [("value", num r)].
Definition logc (tag : string) (args : list val) (w : world) : world := World (rng w) (cur w) ((tag, args) :: olog w) (decs w) (pc w).
Definition ada : callee := COracle (fun args kws w => match args, kws with
   | [_; v], [] => match to_x v with Some (Fin z) => Ok (qty (DA z), w) | _ => Stuck "angular_diameter_distance: redshift" end
   | _, _ => Stuck "angular_diameter_distance: one positional redshift" end).
Definition ada12 : callee := COracle (fun args kws w => match args, kws with
   | [_; v1; v2], [] => match to_x v1, to_x v2 with Some (Fin z1), Some (Fin z2) => Ok (qty (DA12 z1 z2), w) | _, _ => Stuck "z1z2: redshifts" end
   | _, _ => Stuck "z1z2: two positional redshifts" end).
Definition hyper : callee := COracle (fun args kws w => Ok (num 0, logc "hyper_param_likelihood" (tl args ++ map snd kws)%list w)).
Definition ltab : list (string * list (string * callee)) :=
  [("LensLikelihood", [("angular_diameter_distances", CFun src_LensLikelihood_angular_diameter_distances);
                       ("luminosity_distance_modulus", CFun src_LensLikelihood_luminosity_distance_modulus);
                       ("beta_dsp", CFun src_LensLikelihoodBase_beta_dsp);
                       ("_kwargs_init", CFun src_LensLikelihood_kwargs_init);
                       ("hyper_param_likelihood", hyper)]);
   ("Cosmo", [("angular_diameter_distance", ada); ("angular_diameter_distance_z1z2", ada12)])].
Definition Gl : fenv := FEnv (fun cls m => match assoc cls ltab with Some t => assoc m t | None => None end)
  (fun n => if String.eqb n "beta_double_source_plane" then Some (CFun src_fn_beta_double_source_plane) else None).
Definition lens (t : string) (zl zs zs2 : R) : val :=
  VObj "LensLikelihood" [("likelihood_type", VStr t); ("_z_lens", num zl); ("_z_source", num zs); ("z_lens", num zl); ("z_source", num zs); ("z_source2", num zs2); ("name", VStr "lens")].
Definition cosmo0 := VObj "Cosmo" [].
Definition ddt_f zl zs := (1 + zl) * DA zl * DA zs / DA12 zl zs.
Definition floor5 x := Rmax x (1/100000).

Definition NON_DSPL := ["DdtGaussian"; "DdtLogNorm"; "DdtHist"; "DdtHistKDE"; "DdtDdKDE"; "DdtDdGaussian"; "DsDdsGaussian";
                        "DdtHistKin"; "IFUKinCov"; "DdtGaussKin"; "Mag"; "TDMag"; "TDMagMagnitude"].
Definition MAGS := ["Mag"; "TDMag"; "TDMagMagnitude"].
Definition NON_MAGS := ["DdtGaussian"; "DdtLogNorm"; "DdtHist"; "DdtHistKDE"; "DdtDdKDE"; "DdtDdGaussian"; "DsDdsGaussian"; "DdtHistKin"; "IFUKinCov"; "DdtGaussKin"; "DSPL"].

(* time-delay distance and D_d, for every type but DSPL (which does not use them) *)
Definition ddt_dd_ok (t : string) : Prop := forall zl zs zs2 rg cu, DA12 zl zs <> 0 ->
  yields Gl 60 (CFun src_LensLikelihood_angular_diameter_distances) (Some (lens t zl zs zs2)) [cosmo0] [] rg cu
    (VTuple [num (floor5 (ddt_f zl zs)); num (floor5 (DA zl))]) cu [].
Theorem ddt_dd_formula : Forall ddt_dd_ok NON_DSPL.
Proof.
  unfold NON_DSPL. repeat constructor; unfold ddt_dd_ok, floor5, ddt_f, lens; intros zl zs zs2 rg cu Hd; yields_with real_fact ltac:(val_eq).
Qed.
Theorem ddt_dd_dspl zl zs zs2 rg cu :
  yields Gl 60 (CFun src_LensLikelihood_angular_diameter_distances) (Some (lens "DSPL" zl zs zs2)) [cosmo0] [] rg cu (VTuple [VInt 0; VInt 0]) cu [].
Proof. yields_auto. Qed.

(* distance-modulus difference between source and anchor redshift (magnification types); 0 for every other type *)
Definition mu_f z := 5 * log10 ((1 + z) * (1 + z) * floor5 (DA z)).
Definition modulus_ok (t : string) : Prop := forall zl zs zs2 za rg cu,
  yields Gl 60 (CFun src_LensLikelihood_luminosity_distance_modulus) (Some (lens t zl zs zs2)) [cosmo0; num za] [] rg cu
    (num (mu_f zs - mu_f za)) cu [].
Theorem modulus_formula : Forall (fun t => forall zl zs zs2 za rg cu, 0 < (1 + zs) * (1 + zs) * floor5 (DA zs) -> 0 < (1 + za) * (1 + za) * floor5 (DA za) ->
  yields Gl 60 (CFun src_LensLikelihood_luminosity_distance_modulus) (Some (lens t zl zs zs2)) [cosmo0; num za] [] rg cu
    (num (mu_f zs - mu_f za)) cu []) MAGS.
Proof.
  unfold MAGS. repeat constructor; unfold mu_f, floor5, lens; intros zl zs zs2 za rg cu H1 H2; yields_with real_fact ltac:(val_eq).
Qed.
Theorem modulus_zero_other : Forall (fun t => forall zl zs zs2 za rg cu,
  yields Gl 60 (CFun src_LensLikelihood_luminosity_distance_modulus) (Some (lens t zl zs zs2)) [cosmo0; za] [] rg cu (VInt 0) cu []) NON_MAGS.
Proof. unfold NON_MAGS. repeat constructor; unfold lens; intros; yields_auto. Qed.
(* double-source-plane ratio *)
Definition beta_f zl z1 z2 := DA12 zl z1 / DA z1 * DA z2 / DA12 zl z2.
Theorem beta_formula zl zs zs2 rg cu : DA zs <> 0 -> DA12 zl zs2 <> 0 ->
  yields Gl 60 (CFun src_LensLikelihoodBase_beta_dsp) (Some (lens "DSPL" zl zs zs2)) [cosmo0] [] rg cu (num (beta_f zl zs zs2)) cu [].
Proof. intros H1 H2. unfold beta_f, lens. yields_with real_fact ltac:(val_eq). Qed.
Theorem beta_none_other : Forall (fun t => forall zl zs zs2 rg cu,
  yields Gl 60 (CFun src_LensLikelihoodBase_beta_dsp) (Some (lens t zl zs zs2)) [cosmo0] [] rg cu VNone cu []) NON_DSPL.
Proof. unfold NON_DSPL. repeat constructor; unfold lens; intros; yields_auto. Qed.

(* these are the numbers handed on: lens_log_likelihood passes (Ddt, Dd, modulus difference at the population's anchor, beta) and the
   cosmology object itself to the marginalisation, once *)
Theorem fed_to_likelihood_mag zl zs zs2 za kl kk klos rg cu : DA12 zl zs <> 0 ->
  0 < (1 + zs) * (1 + zs) * floor5 (DA zs) -> 0 < (1 + za) * (1 + za) * floor5 (DA za) ->
  yields Gl 80 (CFun src_LensLikelihood_lens_log_likelihood) (Some (lens "TDMag" zl zs zs2))
    [cosmo0; kl; kk; dict [("mu_sne", num 19); ("z_apparent_m_anchor", num za)]; klos] [] rg cu (num 0) cu
    [("hyper_param_likelihood", [num (floor5 (ddt_f zl zs)); num (floor5 (DA zl)); num (mu_f zs - mu_f za); VNone; kl; kk;
                                 dict [("mu_sne", num 19); ("z_apparent_m_anchor", num za)]; klos; cosmo0])].
Proof. intros H0 H1 H2. unfold mu_f, floor5, ddt_f, lens in *. yields_with real_fact ltac:(val_eq). Qed.
Theorem fed_to_likelihood_dspl zl zs zs2 kl kk klos rg cu : DA zs <> 0 -> DA12 zl zs2 <> 0 ->
  yields Gl 80 (CFun src_LensLikelihood_lens_log_likelihood) (Some (lens "DSPL" zl zs zs2)) [cosmo0; kl; kk; VNone; klos] [] rg cu (num 0) cu
    [("hyper_param_likelihood", [VInt 0; VInt 0; VInt 0; num (beta_f zl zs zs2); kl; kk; dict []; klos; cosmo0])].
Proof. intros H1 H2. unfold beta_f, lens. yields_with real_fact ltac:(val_eq). Qed.
End Formulas.

(* ------------------------------------------------------------------------------------------- *)
(* 3. consequences used by C11 / C19: a distance provider scaled by 1/c (what H0 -> c*H0 does to FLRW distances) *)
Section Scaling.
Variables (DA : R -> R) (DA12 : R -> R -> R) (c : R).
Hypothesis cpos : 0 < c.
Definition DAc z := DA z / c.  Definition DA12c z1 z2 := DA12 z1 z2 / c.
Lemma ddt_scales zl zs : DA12 zl zs <> 0 -> ddt_f DAc DA12c zl zs = ddt_f DA DA12 zl zs / c.
Proof. intros H. unfold ddt_f, DAc, DA12c. field. split; lra. Qed.
Lemma beta_invariant zl z1 z2 : DA z1 <> 0 -> DA12 zl z2 <> 0 -> beta_f DAc DA12c zl z1 z2 = beta_f DA DA12 zl z1 z2.
Proof. intros H1 H2. unfold beta_f, DAc, DA12c. field. repeat split; lra. Qed.
Lemma dd_ratio_invariant zl zs : DA zl <> 0 -> DA12 zl zs <> 0 -> ddt_f DAc DA12c zl zs / DAc zl = ddt_f DA DA12 zl zs / DA zl.
Proof. intros H1 H2. unfold ddt_f, DAc, DA12c. field. repeat split; lra. Qed.
(* modulus difference (floors inactive): log10 of a ratio in which c cancels *)
Lemma modulus_invariant zs za : 0 < DA zs -> 0 < DA za -> -1 < zs -> -1 < za ->
  5 * log10 ((1 + zs) * (1 + zs) * DAc zs) - 5 * log10 ((1 + za) * (1 + za) * DAc za)
  = 5 * log10 ((1 + zs) * (1 + zs) * DA zs) - 5 * log10 ((1 + za) * (1 + za) * DA za).
Proof.
  intros H1 H2 H3 H4. unfold DAc, log10.
  assert (P1 : 0 < (1 + zs) * (1 + zs)) by nra. assert (P2 : 0 < (1 + za) * (1 + za)) by nra.
  assert (Q1 : 0 < (1 + zs) * (1 + zs) * DA zs) by (apply Rmult_lt_0_compat; assumption).
  assert (Q2 : 0 < (1 + za) * (1 + za) * DA za) by (apply Rmult_lt_0_compat; assumption).
  replace ((1 + zs) * (1 + zs) * (DA zs / c)) with ((1 + zs) * (1 + zs) * DA zs * / c) by (field; lra).
  replace ((1 + za) * (1 + za) * (DA za / c)) with ((1 + za) * (1 + za) * DA za * / c) by (field; lra).
  set (A := (1 + zs) * (1 + zs) * DA zs) in *. set (B := (1 + za) * (1 + za) * DA za) in *.
  assert (Hc : 0 < / c) by (apply Rinv_0_lt_compat; assumption).
  rewrite (ln_mult A (/ c)) by assumption. rewrite (ln_mult B (/ c)) by assumption.
  assert (ln 10 <> 0) by (apply Rgt_not_eq; rewrite <- ln_1; apply ln_increasing; lra).
  field. assumption.
Qed.
End Scaling.

(* ------------------------------------------------------------------------------------------- *)
(* 4. the ways of supplying a cosmology: which provider cosmo_instance returns                     *)
Section Modes.
Definition rec_ctor (name : string) : callee :=
  COracle (fun args kws w => Ok (VObj name (map (fun a => ("<positional>", a)) args ++ kws), logc ("new " ++ name) (args ++ map snd kws)%list w)).
Definition mtab : list (string * list (string * callee)) :=
  [("CosmoParam", [("cosmo", COracle (fun args kws w => Ok (VObj "astropy" [("from", nth 1 args VNone)], w)))])].
Definition Gm : fenv := FEnv (fun cls m => match assoc cls mtab with Some t => assoc m t | None => None end)
  (fun n => if String.eqb n "CosmoInterp" then Some (rec_ctor "CosmoInterp") else None).
Definition clike (interp : bool) (fixed : val) (extra : list (string * val)) : val :=
  VObj "CosmoLikelihood" ([("param", VObj "CosmoParam" []); ("_cosmo_fixed", fixed); ("_interpolate_cosmo", VBool interp); ("_z_max", num 3); ("_num_redshift_interp", VInt 100)] ++ extra).
(* (a) user-tabulated distances: interpolation object on exactly those tables, curvature from 'ok' (None for flat models) and K if given *)
Theorem mode_tabulated interp fixed (dl zl : val) h rg cu :
  yields Gm 60 (CFun src_CosmoLikelihood_cosmo_instance) (Some (clike interp fixed []))
    [dict [("h0", num h); ("ang_diameter_distances", dl); ("redshifts", zl)]] [] rg cu
    (VObj "CosmoInterp" [("ang_dist_list", dl); ("z_list", zl); ("Ok0", VNone); ("K", VNone)]) cu [("new CosmoInterp", [dl; zl; VNone; VNone])].
Proof. destruct interp; yields_auto. Qed.
Theorem mode_tabulated_curved interp fixed (dl zl : val) h ok K rg cu :
  yields Gm 60 (CFun src_CosmoLikelihood_cosmo_instance) (Some (clike interp fixed []))
    [dict [("h0", num h); ("ok", num ok); ("ang_diameter_distances", dl); ("redshifts", zl); ("K", num K)]] [] rg cu
    (VObj "CosmoInterp" [("ang_dist_list", dl); ("z_list", zl); ("Ok0", num ok); ("K", num K)]) cu [("new CosmoInterp", [dl; zl; num ok; num K])].
Proof. destruct interp; yields_auto. Qed.
(* (b) sampled, with redshift interpolation up to z_max on the configured number of nodes *)
Theorem mode_sampled_interp (k : val) rg cu : k = dict [("h0", num 70); ("om", num (3/10))] ->
  yields Gm 60 (CFun src_CosmoLikelihood_cosmo_instance) (Some (clike true VNone [])) [k] [] rg cu
    (VObj "CosmoInterp" [("cosmo", VObj "astropy" [("from", k)]); ("z_stop", num 3); ("num_interp", VInt 100)]) cu
    [("new CosmoInterp", [VObj "astropy" [("from", k)]; num 3; VInt 100])].
Proof. intros ->. yields_auto. Qed.
(* (c) sampled, no interpolation: the astropy model of the sampled parameters itself *)
Theorem mode_sampled_exact (k : val) rg cu : k = dict [("h0", num 70); ("om", num (3/10))] ->
  yields Gm 60 (CFun src_CosmoLikelihood_cosmo_instance) (Some (clike false VNone [])) [k] [] rg cu (VObj "astropy" [("from", k)]) cu [].
Proof. intros ->. yields_auto. Qed.
(* (d) fixed cosmology object: itself, or its interpolation built at first use and re-used afterwards (no second construction) *)
Theorem mode_fixed_exact (fx k : val) rg cu : fx = VObj "UserCosmology" [] -> k = dict [("h0", num 70)] ->
  yields Gm 60 (CFun src_CosmoLikelihood_cosmo_instance) (Some (clike false fx [])) [k] [] rg cu fx cu [].
Proof. intros -> ->. yields_auto. Qed.
Theorem mode_fixed_interp_first (fx k : val) rg cu : fx = VObj "UserCosmology" [] -> k = dict [("h0", num 70)] ->
  yields Gm 60 (CFun src_CosmoLikelihood_cosmo_instance) (Some (clike true fx [])) [k] [] rg cu
    (VObj "CosmoInterp" [("cosmo", fx); ("z_stop", num 3); ("num_interp", VInt 100)]) cu [("new CosmoInterp", [fx; num 3; VInt 100])].
Proof. intros -> ->. yields_auto. Qed.
Theorem mode_fixed_interp_cached (fx k cached : val) rg cu : fx = VObj "UserCosmology" [] -> k = dict [("h0", num 70)] -> cached = VObj "CosmoInterp" [("tag", VStr "cached")] ->
  yields Gm 60 (CFun src_CosmoLikelihood_cosmo_instance) (Some (clike true fx [("_cosmo_fixed_interp", cached)])) [k] [] rg cu cached cu [].
Proof. intros -> -> ->. yields_auto. Qed.
End Modes.

(* ------------------------------------------------------------------------------------------- *)
(* 6. the interpolation range z_max set by CosmoLikelihood.__init__ covers EVERY redshift a distance is asked at: each lens' source and
      second-source redshift (whichever is larger - a second source may lie in front of the first) and the anchor redshift *)
Section ZMax.
Definition capz (cls : string) (extra : list (string * val)) : callee := COracle (fun args kws w => Ok (VObj cls (extra ++ kws), w)).
Definition Gz : fenv := FEnv (fun _ _ => None)
  (fun n => if String.eqb n "LensSampleLikelihood" then Some (capz n [("gamma_pl_num", VInt 0)])
            else if String.eqb n "ParamManager" then Some (capz n [("param_bounds", VTuple [VList []; VList []])]) else None).
Definition fieldz (o : val) (k : string) : option val := match o with VObj _ fs => field_get k fs | _ => None end.
Variables (zs1 zs2a zs2b za : R).
Definition two_lenses := VList [dict [("z_lens", num (1/2)); ("z_source", num zs1)];
                                dict [("z_lens", num (1/2)); ("z_source", num zs2a); ("z_source2", num zs2b)]].
Definition init_args := [two_lenses; VStr "FLCDM"; dict [("z_apparent_m_anchor", num za)]; dict []].
(* second source BEHIND the first: the range follows it *)
Theorem z_max_second_behind rg cu : 0 < zs1 -> zs1 < zs2a -> zs2a < zs2b ->
  exists o, yields Gz 120 (CClass "CosmoLikelihood" src_CosmoLikelihood_init) None init_args [] rg cu o cu [] /\ fieldz o "_z_max" = Some (num (Rmax zs2b za)).
Proof. intros H0 H1 H2. eexists. split; [unfold init_args, two_lenses; yields_with real_fact ltac:(reflexivity) | reflexivity]. Qed.
(* second source IN FRONT of the first: the range still reaches the first source *)
Theorem z_max_second_in_front rg cu : 0 < zs1 -> zs1 < zs2a -> zs2b < zs2a ->
  exists o, yields Gz 120 (CClass "CosmoLikelihood" src_CosmoLikelihood_init) None init_args [] rg cu o cu [] /\ fieldz o "_z_max" = Some (num (Rmax zs2a za)).
Proof. intros H0 H1 H2. eexists. split; [unfold init_args, two_lenses; yields_with real_fact ltac:(reflexivity) | reflexivity]. Qed.
(* an earlier lens with the highest source: kept *)
Theorem z_max_first_lens_highest rg cu : 0 < zs2a -> zs2a < zs1 -> zs2b < zs1 ->
  exists o, yields Gz 120 (CClass "CosmoLikelihood" src_CosmoLikelihood_init) None init_args [] rg cu o cu [] /\ fieldz o "_z_max" = Some (num (Rmax zs1 za)).
Proof. intros H0 H1 H2. eexists. split; [unfold init_args, two_lenses; yields_with real_fact ltac:(reflexivity) | reflexivity]. Qed.
End ZMax.
