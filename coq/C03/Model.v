(* C03 — MST, external convergence and PPN are multiplicative distance rescalings.
   Every statement is about the functions serialised from /repo on this run (C03.Src). *)
From Coq Require Import Reals ZArith String List Bool Lra Lia.
Require Import Py.PyAst Py.PyVal Py.PySem Py.XLemmas Py.Unfold.
Require Import C03.Src.
Import ListNotations.
Open Scope string_scope.

Fixpoint assoc {A} (k : string) (l : list (string * A)) : option A :=
  match l with [] => None | (k', v) :: t => if String.eqb k k' then Some v else assoc k t end.
Definition num (r : R) := VNum (Fin r).
Definition dict (l : list (string * val)) := VDict (map (fun kv => (VStr (fst kv), snd kv)) l).

(* ---------------------------------------------------------------------------------------- *)
(* 1. displace_prediction                                                                     *)
Definition mtab : list (string * callee) :=
  [("_displace_ppn", CFun src_TransformedCosmography_displace_ppn);
   ("_displace_lambda_mst", CFun src_TransformedCosmography_displace_lambda_mst);
   ("_displace_kappa_ext", CFun src_TransformedCosmography_displace_kappa_ext);
   ("displace_prediction", CFun src_TransformedCosmography_displace_prediction)].
Definition G : fenv := FEnv (fun cls m => assoc m mtab) (fun _ => None).
Definition self := VObj "LensLikelihood" [].
Open Scope R_scope.

Definition displaced (ddt dd g lam kap m : R) : val :=
  VTuple [num (ddt * (lam * (1 - kap))); num (dd * (1 + g) / 2); num (m + 5 * log10 (lam * (1 - kap)))].

Theorem displace_prediction_spec ddt dd g lam kap m rg cu :
  1/10000 <= lam * (1 - kap) ->
  yields G 100 (CFun src_TransformedCosmography_displace_prediction) (Some self)
       [num ddt; num dd] [("gamma_ppn", num g); ("lambda_mst", num lam); ("kappa_ext", num kap); ("mag_source", num m)] rg cu
       (displaced ddt dd g lam kap m) cu [].
Proof.
  intros H. assert (lam <> 0) by (intro; subst; lra).
  exists [false; false; true]. eexists. split.
  run. norm_dec.
  replace (lam * (1 + - kap)) with (lam * (1 - kap)) by ring.
  rewrite Rmax_left by lra.
  unfold displaced, num. replace (dd * (1 + g) / (20 / 10) * lam / lam) with (dd * (1 + g) / 2) by (field; assumption).
  reflexivity.
  cbn.
  repeat split; try lra.
Qed.

(* below the floor the total lambda is replaced by 1e-4 (the floor region, excluded from the property) *)
Theorem displace_prediction_floor ddt dd g lam kap m rg cu :
  lam * (1 - kap) < 1/10000 -> lam <> 0 ->
  yields G 100 (CFun src_TransformedCosmography_displace_prediction) (Some self)
       [num ddt; num dd] [("gamma_ppn", num g); ("lambda_mst", num lam); ("kappa_ext", num kap); ("mag_source", num m)] rg cu
       (VTuple [num (ddt * (1/10000)); num (dd * (1 + g) / 2); num (m + 5 * log10 (1/10000))]) cu [].
Proof.
  intros H Hl.
  exists [false; false; true]. eexists. split.
  run. norm_dec.
  replace (lam * (1 + - kap)) with (lam * (1 - kap)) by ring.
  rewrite Rmax_right by lra.
  unfold num. replace (dd * (1 + g) / (20 / 10) * lam / lam) with (dd * (1 + g) / 2) by (field; assumption).
  reflexivity.
  cbn.
  repeat split; try lra.
Qed.

(* the output triple as real numbers, for the algebraic corollaries *)
Definition disp (ddt dd g lam kap m : R) : R * R * R :=
  (ddt * (lam * (1 - kap)), dd * (1 + g) / 2, m + 5 * log10 (lam * (1 - kap))).

Lemma log10_1 : log10 1 = 0.
Proof. unfold log10. rewrite ln_1. unfold Rdiv. ring. Qed.

Lemma disp_neutral ddt dd m : disp ddt dd 1 1 0 m = (ddt, dd, m).
Proof. unfold disp. replace (1 * (1 - 0)) with 1 by ring. rewrite log10_1. f_equal; [f_equal|]; field. Qed.

Lemma disp_degenerate ddt dd g lam kap m : disp ddt dd g lam kap m = disp ddt dd g (lam * (1 - kap)) 0 m.
Proof. unfold disp. replace (lam * (1 - kap) * (1 - 0)) with (lam * (1 - kap)) by ring. reflexivity. Qed.

(* the three rescalings as separate maps on (ddt, dd, m): they commute pairwise *)
Definition r_ppn (g : R) (t : R * R * R) : R * R * R := let '(a, b, c) := t in (a, b * (1 + g) / 2, c).
Definition r_mst (lam : R) (t : R * R * R) : R * R * R := let '(a, b, c) := t in (a * lam, b, c + 5 * log10 lam).
Definition r_kap (kap : R) (t : R * R * R) : R * R * R := let '(a, b, c) := t in (a * (1 - kap), b, c + 5 * log10 (1 - kap)).

Lemma log10_mult a b : 0 < a -> 0 < b -> log10 (a * b) = log10 a + log10 b.
Proof. intros. unfold log10. rewrite ln_mult by assumption. field. apply Rgt_not_eq. rewrite <- ln_1. apply ln_increasing; lra. Qed.

Lemma disp_factor ddt dd g lam kap m : 0 < lam -> 0 < 1 - kap ->
  disp ddt dd g lam kap m = r_ppn g (r_mst lam (r_kap kap (ddt, dd, m))).
Proof.
  intros Hl Hk. unfold disp, r_ppn, r_mst, r_kap. rewrite log10_mult by assumption.
  f_equal; [f_equal|]; ring.
Qed.
Lemma r_commute_ppn_mst g lam t : r_ppn g (r_mst lam t) = r_mst lam (r_ppn g t).
Proof. destruct t as [[a b] c]. reflexivity. Qed.
Lemma r_commute_ppn_kap g kap t : r_ppn g (r_kap kap t) = r_kap kap (r_ppn g t).
Proof. destruct t as [[a b] c]. reflexivity. Qed.
Lemma r_commute_mst_kap lam kap t : r_mst lam (r_kap kap t) = r_kap kap (r_mst lam t).
Proof. destruct t as [[a b] c]. unfold r_mst, r_kap. f_equal; [f_equal|]; ring. Qed.

(* ---------------------------------------------------------------------------------------- *)
(* 2. the per-lens lambda: LensDistribution.draw_lens with sharp hyper-parameters              *)
Definition lens_dist (ifu sampling : bool) (x y : R) : val :=
  VObj "LensDistribution"
    [("_mst_ifu", VBool ifu); ("_lambda_scaling_property", num x); ("_lambda_scaling_property_beta", num y);
     ("_lambda_mst_sampling", VBool sampling); ("_lambda_mst_distribution", VStr (if sampling then "GAUSSIAN" else "NONE"));
     ("_gamma_in_sampling", VBool false); ("_log_m2l_sampling", VBool false);
     ("_gamma_pl_model", VBool false); ("_gamma_pl_global_sampling", VBool false)].
Definition lens_kws (lam lifu al be g : R) : list (string * val) :=
  [("lambda_mst", num lam); ("lambda_ifu", num lifu); ("alpha_lambda", num al); ("beta_lambda", num be); ("gamma_ppn", num g)].
Definition lambda_lens (ifu : bool) (lam lifu al be x y : R) : R := (if ifu then lifu else lam) + al * x + be * y.
Definition Gd : fenv := FEnv (fun cls m => if String.eqb m "draw_lens" then Some (CFun src_LensDistribution_draw_lens) else None) (fun _ => None).

Definition lam_out (sampling : bool) (l z : R) : R := if sampling then l + 0 * z else l.
Lemma lam_out_eq sampling l z : lam_out sampling l z = l.
Proof. destruct sampling; unfold lam_out; ring. Qed.

Theorem draw_lens_sharp ifu sampling lam lifu al be g x y rg cu :
  yields Gd 100 (CFun src_LensDistribution_draw_lens) (Some (lens_dist ifu sampling x y)) [] (lens_kws lam lifu al be g) rg cu
    (dict [("lambda_mst", num (lam_out sampling (lambda_lens ifu lam lifu al be x y) (rg cu))); ("gamma_ppn", num g)])
    (if sampling then S cu else cu) [].
Proof.
  destruct ifu, sampling; exists []; eexists; (split; [run; reflexivity | cbn; repeat split]).
Qed.

(* ---------------------------------------------------------------------------------------- *)
(* 3. log_likelihood_single wires draw -> displacement -> data likelihood                      *)
Section Wiring.
Variable D : list val -> list (string * val) -> R.        (* the per-type data log-likelihood: arbitrary *)
Variable K : val -> val.                                   (* the kinematic scaling: arbitrary function of the realised parameters *)

Definition data_oracle : callee :=
  COracle (fun args kws w => Ok (num (D (tl args) kws), World (rng w) (cur w) (("log_likelihood", tl args ++ map snd kws)%list :: olog w) (decs w) (pc w))).
Definition kin_oracle : callee := COracle (fun args kws w => Ok (K (nth 1 args VNone), w)).

Definition wtab : list (string * list (string * callee)) :=
  [("LensLikelihood",
     [("_displace_ppn", CFun src_TransformedCosmography_displace_ppn);
      ("_displace_lambda_mst", CFun src_TransformedCosmography_displace_lambda_mst);
      ("displace_prediction", CFun src_TransformedCosmography_displace_prediction);
      ("draw_source", CFun src_LensLikelihood_draw_source);
      ("kin_scaling", kin_oracle);
      ("log_likelihood", data_oracle);
      ("log_likelihood_single", CFun src_LensLikelihood_log_likelihood_single)]);
   ("LensDistribution", [("draw_lens", CFun src_LensDistribution_draw_lens)]);
   ("LOSDistribution", [("draw_los", CFun src_LOSDistribution_draw_los)]);
   ("AnisotropyDistribution", [("draw_anisotropy", CFun src_AnisotropyDistribution_draw_anisotropy)]);
   ("PriorLikelihood", [("log_likelihood", CFun src_PriorLikelihood_log_likelihood)])].
Definition Gw : fenv := FEnv (fun cls m => match assoc cls wtab with Some t => assoc m t | None => None end) (fun _ => None).

(* a lens assigned to global line-of-sight population 0 (GAUSSIAN), no anisotropy sampling, no priors *)
Definition lens_self (ifu : bool) (x y : R) : val :=
  VObj "LensLikelihood"
    [("_lens_distribution", lens_dist ifu false x y);
     ("_los", VObj "LOSDistribution" [("_draw_kappa_individual", VBool false); ("_draw_kappa_global", VBool true);
                                      ("_global_los_distribution", VInt 0); ("_los_distribution", VStr "GAUSSIAN")]);
     ("_aniso_distribution", VObj "AnisotropyDistribution" [("_anisotropy_sampling", VBool false)]);
     ("_prior", VObj "PriorLikelihood" [("_param_name_list", VList []); ("_param_mean_list", VList []); ("_param_sigma_list", VList [])])].

(* the arguments the data likelihood receives for sharp hyper-parameters *)
Definition data_args (ddt dd dl beta : R) (ifu : bool) (lam lifu al be g x y kap mu : R) : list val * list (string * val) :=
  let l := lambda_lens ifu lam lifu al be x y in
  ([VArr [num (ddt * (l * (1 - kap)))]; num (dd * (1 + g) / 2)],      (* the line-of-sight draw has size=1: Ddt and the magnitude are 1-element arrays *)
   [("beta_dsp", num beta);
    ("kin_scaling", K (dict [("lambda_mst", num l); ("gamma_ppn", num g)]));
    ("sigma_v_sys_error", VNone);
    ("mu_intrinsic", VArr [num (mu + dl + 5 * log10 (l * (1 - kap)))]);
    ("gamma_pl", VInt 2);
    ("lambda_mst", num l)]).

Theorem single_wiring ifu ddt dd dl beta lam lifu al be g x y kap mu rg cu :
  1/10000 <= lambda_lens ifu lam lifu al be x y * (1 - kap) ->
  let da := data_args ddt dd dl beta ifu lam lifu al be g x y kap mu in
  yields Gw 100 (CFun src_LensLikelihood_log_likelihood_single) (Some (lens_self ifu x y))
    [num ddt; num dd; num dl; num beta; dict (lens_kws lam lifu al be g); dict [];
     dict [("mu_sne", num mu); ("sigma_sne", num 0)]; VList [dict [("mean", num kap); ("sigma", num 0)]]] [] rg cu
    (num (D (fst da) (snd da) + 0)) (S (S cu)) [("log_likelihood", (fst da ++ map snd (snd da))%list)].
Proof.
  intros H da. subst da. unfold data_args.
  assert (Hne : lambda_lens ifu lam lifu al be x y <> 0) by (intro E; rewrite E in H; lra).
  destruct ifu; unfold lambda_lens in *; cbn [lens_self lens_dist].
  - exists [false; false; true]. eexists. split.
    + run. norm_dec.
      repeat match goal with |- context [?a + 0 * ?z] => replace (a + 0 * z) with a by ring end.
      replace ((lifu + al * x + be * y) * (1 + - kap)) with ((lifu + al * x + be * y) * (1 - kap)) by ring.
      rewrite Rmax_left by lra.
      unfold num, dict. cbn [map fst snd app].
      replace (dd * (1 + g) / (20 / 10) * (lifu + al * x + be * y) / (lifu + al * x + be * y)) with (dd * (1 + g) / 2) by (field; assumption).
      reflexivity.
    + cbn. repeat split; try lra.
  - exists [false; false; true]. eexists. split.
    + run. norm_dec.
      repeat match goal with |- context [?a + 0 * ?z] => replace (a + 0 * z) with a by ring end.
      replace ((lam + al * x + be * y) * (1 + - kap)) with ((lam + al * x + be * y) * (1 - kap)) by ring.
      rewrite Rmax_left by lra.
      unfold num, dict. cbn [map fst snd app].
      replace (dd * (1 + g) / (20 / 10) * (lam + al * x + be * y) / (lam + al * x + be * y)) with (dd * (1 + g) / 2) by (field; assumption).
      reflexivity.
    + cbn. repeat split; try lra.
Qed.
End Wiring.
