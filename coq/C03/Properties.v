(* C03 — property theorems only: statement, `exact`, Print Assumptions.
   Source functions are the ones serialised from /repo on this run (C03.Src). *)
From Coq Require Import Reals ZArith String List Bool Lra.
Require Import Py.PyAst Py.PyVal Py.PySem Py.XLemmas.
Require Import C03.Src C03.Model.
Import ListNotations.
Open Scope string_scope.
Open Scope R_scope.

(* displace_prediction(ddt, dd; gamma_ppn, lambda_mst, kappa_ext, mag_source) returns, above the 1e-4 floor,
   (Ddt*lambda*(1-kappa), Dd*(1+gamma_ppn)/2, m + 5 log10(lambda*(1-kappa))), draws nothing, calls no oracle *)
Theorem C03_displace : forall ddt dd g lam kap m rg cu,
  1/10000 <= lam * (1 - kap) ->
  yields G 100 (CFun src_TransformedCosmography_displace_prediction) (Some self)
       [num ddt; num dd] [("gamma_ppn", num g); ("lambda_mst", num lam); ("kappa_ext", num kap); ("mag_source", num m)] rg cu
       (VTuple [num (ddt * (lam * (1 - kap))); num (dd * (1 + g) / 2); num (m + 5 * log10 (lam * (1 - kap)))]) cu [].
Proof. exact displace_prediction_spec. Qed.
Print Assumptions C03_displace.

(* non-vacuity: the hypothesis is met by the neutral values *)
Example C03_displace_nonvacuous : 1/10000 <= 1 * (1 - 0).
Proof. lra. Qed.

(* the floor region, for completeness: lambda_tot is replaced by 1e-4 *)
Theorem C03_floor : forall ddt dd g lam kap m rg cu,
  lam * (1 - kap) < 1/10000 -> lam <> 0 ->
  yields G 100 (CFun src_TransformedCosmography_displace_prediction) (Some self)
       [num ddt; num dd] [("gamma_ppn", num g); ("lambda_mst", num lam); ("kappa_ext", num kap); ("mag_source", num m)] rg cu
       (VTuple [num (ddt * (1/10000)); num (dd * (1 + g) / 2); num (m + 5 * log10 (1/10000))]) cu [].
Proof. exact displace_prediction_floor. Qed.
Print Assumptions C03_floor.

(* neutral values leave the prediction unchanged *)
Theorem C03_neutral : forall ddt dd m, disp ddt dd 1 1 0 m = (ddt, dd, m).
Proof. exact disp_neutral. Qed.
Print Assumptions C03_neutral.

(* (lambda, kappa_ext) and (lambda*(1-kappa_ext), 0) give the same displaced triple, hence the same data likelihood *)
Theorem C03_degeneracy : forall ddt dd g lam kap m, disp ddt dd g lam kap m = disp ddt dd g (lam * (1 - kap)) 0 m.
Proof. exact disp_degenerate. Qed.
Print Assumptions C03_degeneracy.

(* the displacement is the composition of three multiplicative maps, which commute pairwise *)
Theorem C03_factor : forall ddt dd g lam kap m, 0 < lam -> 0 < 1 - kap ->
  disp ddt dd g lam kap m = r_ppn g (r_mst lam (r_kap kap (ddt, dd, m))).
Proof. exact disp_factor. Qed.
Theorem C03_commute : forall g lam kap t,
  r_ppn g (r_mst lam t) = r_mst lam (r_ppn g t) /\ r_ppn g (r_kap kap t) = r_kap kap (r_ppn g t) /\ r_mst lam (r_kap kap t) = r_kap kap (r_mst lam t).
Proof. intros; split; [apply r_commute_ppn_mst | split; [apply r_commute_ppn_kap | apply r_commute_mst_kap]]. Qed.
Print Assumptions C03_commute.

(* per-lens lambda for sharp hyper-parameters: (lambda_ifu if the lens is IFU-flagged else lambda_mst) + alpha*x + beta*y,
   whether or not the Gaussian lambda distribution is switched on (scatter 0) *)
Theorem C03_lambda_lens : forall ifu sampling lam lifu al be g x y rg cu,
  yields Gd 100 (CFun src_LensDistribution_draw_lens) (Some (lens_dist ifu sampling x y)) [] (lens_kws lam lifu al be g) rg cu
    (dict [("lambda_mst", num (lam_out sampling ((if ifu then lifu else lam) + al * x + be * y) (rg cu))); ("gamma_ppn", num g)])
    (if sampling then S cu else cu) []
  /\ lam_out sampling ((if ifu then lifu else lam) + al * x + be * y) (rg cu) = (if ifu then lifu else lam) + al * x + be * y.
Proof. intros; split; [exact (draw_lens_sharp ifu sampling lam lifu al be g x y rg cu) | apply lam_out_eq]. Qed.
Print Assumptions C03_lambda_lens.

(* wiring: for sharp hyper-parameters log_likelihood_single evaluates the (arbitrary) data likelihood D exactly once, at the
   displaced distances, the displaced source magnitude, the cosmological beta, the lens' own lambda and slope; no prior -> + 0 *)
Theorem C03_single_wiring : forall (D : list val -> list (string * val) -> R) (K : val -> val)
    (ifu : bool) (ddt dd dl beta lam lifu al be g x y kap mu : R) (rg : nat -> R) (cu : nat),
  let l := (if ifu then lifu else lam) + al * x + be * y in
  1/10000 <= l * (1 - kap) ->
  (* the lens is assigned to a global Gaussian line-of-sight population: numpy's size=1 draw makes Ddt and the magnitude 1-element arrays *)
  let args := [VArr [num (ddt * (l * (1 - kap)))]; num (dd * (1 + g) / 2)] in
  let kws := [("beta_dsp", num beta); ("kin_scaling", K (dict [("lambda_mst", num l); ("gamma_ppn", num g)]));
              ("sigma_v_sys_error", VNone); ("mu_intrinsic", VArr [num (mu + dl + 5 * log10 (l * (1 - kap)))]);
              ("gamma_pl", VInt 2); ("lambda_mst", num l)] in
  yields (Gw D K) 100 (CFun src_LensLikelihood_log_likelihood_single) (Some (lens_self ifu x y))
    [num ddt; num dd; num dl; num beta; dict (lens_kws lam lifu al be g); dict [];
     dict [("mu_sne", num mu); ("sigma_sne", num 0)]; VList [dict [("mean", num kap); ("sigma", num 0)]]] [] rg cu
    (num (D args kws + 0)) (S (S cu)) [("log_likelihood", (args ++ map snd kws)%list)].
Proof. intros D K ifu ddt dd dl beta lam lifu al be g x y kap mu rg cu l H. exact (single_wiring D K ifu ddt dd dl beta lam lifu al be g x y kap mu rg cu H). Qed.
Print Assumptions C03_single_wiring.
