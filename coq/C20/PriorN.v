(* C20 - "exactly -(x-mu)^2/(2 sigma^2) for every listed parameter the lens realises, nothing for listed parameters it does not have": the
   prior of a lens for a prior list of ANY length (repeated names included: every entry counts) and any set of realised parameters, by
   induction over the interpreter's loop in PriorLikelihood.log_likelihood
       for i, param in enumerate(self._param_name_list):
           if param in kwargs: lnlikelihood -= (kwargs[param] - self._param_mean_list[i])**2 / (2*self._param_sigma_list[i]**2)
   The loop body is stepped at a symbolic index (coq/Base/Sym.v): mean[i], sigma[i] at i = length(prefix) and the look-ups in the symbolic
   dictionary are resolved by rewriting.  Source = C20.Src (regenerated). *)
From Coq Require Import Reals ZArith String List Bool Lra Lia.
Require Import Py.PyAst Py.PyVal Py.PySem Py.XLemmas Py.Unfold Py.Tactics Py.Sym.
Require Import C20.Src C20.Model.
Import ListNotations.
Open Scope string_scope.

Definition bodyP := match src_PriorLikelihood_log_likelihood with FunDef _ _ _ _ b => match nth 1 b SPass with SFor _ _ bb => bb | _ => [] end end.
Definition itP := match src_PriorLikelihood_log_likelihood with FunDef _ _ _ _ b => match nth 1 b SPass with SFor _ it _ => it | _ => ENone end end.
Definition tgP := match src_PriorLikelihood_log_likelihood with FunDef _ _ _ _ b => match nth 1 b SPass with SFor t _ _ => t | _ => ENone end end.
Definition selfP (names : list string) (mus sgs : list R) := VObj "PriorLikelihood"
  [("_param_name_list", VList (map VStr names)); ("_param_mean_list", VList (map snum mus)); ("_param_sigma_list", VList (map snum sgs))].
(* the running value: the integer 0 until the first realised entry, a float afterwards *)
Definition accv (o : option R) : val := match o with None => VInt 0 | Some a => snum a end.
Definition accr (o : option R) : R := match o with None => 0%R | Some a => a end.
Definition termI (x mu sg : R) : R := ((x + - mu) ^ 2 / (2 * sg ^ 2))%R.
Definition envP (self : val) (d : list (val * val)) (o : option R) (prev : option (Z * string)) : env :=
  ([("self", self); ("kwargs", VDict d); ("lnlikelihood", accv o)] ++ match prev with Some (i, p) => [("i", VInt i); ("param", VStr p)] | None => [] end)%list.
Definition stepP := for_step (eval G0 58) (exec G0 58) 58 tgP itP bodyP.

Ltac RUNP tm := let r := eval lazy -[Rplus Rmult Rminus Rdiv Rinv Ropp Rmax Rmin Rlt Rle Rgt Rge ln exp sqrt log10 IZR dec Rpower pow PI DBL_MAX not snum map app length subscript dict_get Z.of_nat] in tm in change tm with r.
Ltac RUNQ tm := let r := eval lazy -[Rplus Rmult Rminus Rdiv Rinv Ropp Rmax Rmin Rlt Rle Rgt Rge ln exp sqrt log10 IZR dec Rpower pow PI DBL_MAX not map app length subscript dict_get Z.of_nat] in tm in change tm with r.
Ltac leafP :=
  match goal with
  | |- context [eval ?G ?f (EName ?x) ?r ?w] => RUNP (eval G f (EName x) r w)
  | |- context [eval ?G ?f (EAttr ?a ?b) ?r ?w] => RUNP (eval G f (EAttr a b) r w)
  | |- context [eval ?G ?f (EInt ?k) ?r ?w] => RUNP (eval G f (EInt k) r w)
  | |- context [do_cmp ?o (VStr ?a) (VDict ?b) ?w] => RUNP (do_cmp o (VStr a) (VDict b) w)
  | |- context [m_truthy (VBool ?b) ?w] => RUNP (m_truthy (VBool b) w)
  | |- context [is_arr (VStr ?a)] => RUNP (is_arr (VStr a))
  | |- context [is_arr (VDict ?a)] => RUNP (is_arr (VDict a))
  | |- context [do_binop_np ?o ?a ?b ?w] => RUNQ (do_binop_np o a b w)
  | |- context [exec ?G ?f (@nil stmt) ?r ?w] => RUNP (exec G f (@nil stmt) r w)
  end.
Ltac symP Hg :=
  repeat first [ rewrite subscript_dict | rewrite (eval_ECmp G0) | rewrite (eval_ESub G0) | rewrite (eval_EBin G0) | rewrite Hg
               | erewrite subscript_at by (first [reflexivity | eassumption | symmetry; eassumption])
               | rewrite exec_S, run_stmts_one; cbn [exec_stmt]
               | progress cbn [bind fst snd orb negb seq_out] | progress leafP ].
Ltac startP :=
  unfold stepP, envP, for_step, accv; cbn [app];
  (match goal with |- context [assign ?a ?b ?c ?d ?e ?f] => RUNP (assign a b c d e f) end);
  cbn [bind fst snd]; unfold bodyP; cbv beta iota zeta delta [src_PriorLikelihood_log_likelihood nth];
  rewrite exec_S, run_stmts_one; cbn [exec_stmt].

Section Step.
Variables (pren : list string) (prem pres : list R) (n : string) (mu sg : R) (rn : list string) (rm rs : list R) (d : list (val * val)).
Hypothesis Hm : length prem = length pren.
Hypothesis Hs : length pres = length pren.
Notation SELF := (selfP (pren ++ n :: rn) (prem ++ mu :: rm) (pres ++ sg :: rs)).
Notation ITEM := (VTuple [VInt (Z.of_nat (length pren)); VStr n]).
(* a listed parameter that the lens realises: its Gaussian term is subtracted (one question: is the denominator zero) *)
Lemma stepP_present o prev x idx rg cu lg ds pc :
  dict_get (VStr n) d = Some (snum x) ->
  stepP ITEM idx (envP SELF d o prev) (World rg cu lg (false :: ds) pc)
  = Ok (ONormal (envP SELF d (Some (accr o + - termI x mu sg)%R) (Some (Z.of_nat (length pren), n))), World rg cu lg ds ((2 * sg ^ 2 <> 0)%R :: pc)).
Proof.
  intros Hg. destruct o as [a|]; destruct prev as [[pi pp]|]; startP; symP Hg;
  (match goal with |- ?L = _ => RUNQ L end); reflexivity.
Qed.
(* a listed parameter that the lens does not have: nothing happens, nothing is asked *)
Lemma stepP_absent o prev idx w :
  dict_get (VStr n) d = None ->
  stepP ITEM idx (envP SELF d o prev) w = Ok (ONormal (envP SELF d o (Some (Z.of_nat (length pren), n))), w).
Proof.
  intros Hg. destruct o as [a|]; destruct prev as [[pi pp]|]; startP; symP Hg;
  (match goal with |- ?L = _ => RUNQ L end); reflexivity.
Qed.
End Step.

(* the realised parameters of the lens, as the dictionary the likelihood hands over *)
Definition dict_of (realised : list (string * R)) : list (val * val) := map (fun kv => (VStr (fst kv), snum (snd kv))) realised.
Lemma dict_get_of n realised : dict_get (VStr n) (dict_of realised) = option_map snum (lookup_r n realised).
Proof.
  induction realised as [|[k x] r IH]; [reflexivity|]. cbn [dict_of map dict_get lookup_r fst snd].
  change (val_eqb (VStr n) (VStr k)) with (String.eqb n k). destruct (String.eqb n k); [reflexivity | exact IH].
Qed.

(* what the loop consumes and leaves, entry by entry *)
Fixpoint ansP (names : list string) (realised : list (string * R)) : list bool :=
  match names with [] => [] | n :: r => match lookup_r n realised with Some _ => false :: ansP r realised | None => ansP r realised end end.
Fixpoint pcP (names : list string) (sgs : list R) (realised : list (string * R)) (pc0 : list Prop) : list Prop :=
  match names, sgs with
  | n :: r, s :: ss => match lookup_r n realised with Some _ => pcP r ss realised ((2 * s ^ 2 <> 0)%R :: pc0) | None => pcP r ss realised pc0 end
  | _, _ => pc0 end.
Fixpoint accP (o : option R) (names : list string) (mus sgs : list R) (realised : list (string * R)) : option R :=
  match names, mus, sgs with
  | n :: r, m :: ms, s :: ss =>
      match lookup_r n realised with Some x => accP (Some (accr o + - termI x m s)%R) r ms ss realised | None => accP o r ms ss realised end
  | _, _, _ => o end.

Lemma loopP names : forall mus sgs realised pren prem pres o prev idx rg cu lg ds pc0,
  length mus = length names -> length sgs = length names -> length prem = length pren -> length pres = length pren ->
  exists prev',
  iter_loop stepP (enum_from (Z.of_nat (length pren)) (map VStr names)) idx
            (envP (selfP (pren ++ names) (prem ++ mus) (pres ++ sgs)) (dict_of realised) o prev) (World rg cu lg (ansP names realised ++ ds) pc0)
  = Ok (ONormal (envP (selfP (pren ++ names) (prem ++ mus) (pres ++ sgs)) (dict_of realised) (accP o names mus sgs realised) prev'),
        World rg cu lg ds (pcP names sgs realised pc0)).
Proof.
  induction names as [|n names IH]; intros mus sgs realised pren prem pres o prev idx rg cu lg ds pc0 Hmu Hsg Hpm Hps.
  - exists prev. destruct mus; [|discriminate]. destruct sgs; [|discriminate]. reflexivity.
  - destruct mus as [|mu mus]; [discriminate|]. destruct sgs as [|sg sgs]; [discriminate|].
    cbn [map enum_from iter_loop ansP pcP accP].
    pose proof (dict_get_of n realised) as Hg.
    destruct (lookup_r n realised) as [x|] eqn:Hl; cbn [option_map] in Hg.
    + cbn [app]. rewrite (stepP_present pren prem pres n mu sg names mus sgs (dict_of realised) Hpm Hps o prev x idx rg cu lg _ pc0 Hg).
      cbn [bind fst snd].
      rewrite (Sym_app_snoc pren n names), (Sym_app_snoc prem mu mus), (Sym_app_snoc pres sg sgs).
      replace (Z.of_nat (length pren) + 1)%Z with (Z.of_nat (length (pren ++ [n]))) by (rewrite app_length; cbn [length]; lia).
      destruct (IH mus sgs realised (pren ++ [n])%list (prem ++ [mu])%list (pres ++ [sg])%list (Some (accr o + - termI x mu sg)%R)
                   (Some (Z.of_nat (length pren), n)) (idx + 1)%Z rg cu lg ds ((2 * sg ^ 2 <> 0)%R :: pc0)) as [prev' E];
        [ cbn in Hmu; lia | cbn in Hsg; lia | rewrite !app_length; cbn [length]; lia | rewrite !app_length; cbn [length]; lia |].
      exists prev'. exact E.
    + rewrite (stepP_absent pren prem pres n mu sg names mus sgs (dict_of realised) o prev idx _ Hg).
      cbn [bind fst snd].
      rewrite (Sym_app_snoc pren n names), (Sym_app_snoc prem mu mus), (Sym_app_snoc pres sg sgs).
      replace (Z.of_nat (length pren) + 1)%Z with (Z.of_nat (length (pren ++ [n]))) by (rewrite app_length; cbn [length]; lia).
      destruct (IH mus sgs realised (pren ++ [n])%list (prem ++ [mu])%list (pres ++ [sg])%list o
                   (Some (Z.of_nat (length pren), n)) (idx + 1)%Z rg cu lg ds pc0) as [prev' E];
        [ cbn in Hmu; lia | cbn in Hsg; lia | rewrite !app_length; cbn [length]; lia | rewrite !app_length; cbn [length]; lia |].
      exists prev'. exact E.
Qed.

(* the function around the loop *)
Definition afterP (ρ' : env) (w' : world) :=
  run_stmts (exec_stmt (tails G0) (runms G0 58) (eval G0 58) (evals_with (eval G0 58)) (exec G0 58) 58)
            (match src_PriorLikelihood_log_likelihood with FunDef _ _ _ _ b => skipn 2 b end) ρ' w'.
Definition finishP (ow : outcome * world) : res (val * world) :=
  match fst ow with
  | ONormal ρ' => Ok (VNone, snd ow)
  | OReturn v => Ok (v, snd ow)
  | OTail o targs tkws => o targs tkws (snd ow)
  end.
Lemma prefixP names mus sgs d w :
  call G0 60 (CFun src_PriorLikelihood_log_likelihood) (Some (selfP names mus sgs)) [VDict d] [] w
  = (do ow <- seq_out (iter_loop stepP (enum_from 0 (map VStr names)) 0%Z (envP (selfP names mus sgs) d None None) w) afterP; finishP ow).
Proof.
  rewrite call_fun.
  cbv beta zeta delta [f_static f_params f_kwarg f_body f_name src_PriorLikelihood_log_likelihood] iota.
  (match goal with |- context [bind_params ?a ?b ?c ?d] => RUNP (bind_params a b c d) end).
  cbn [bind fst snd]. rewrite exec_S, run_stmts_cons.
  (match goal with |- context [seq_out (exec_stmt ?t ?rm ?a ?es ?b ?c ?d ?e ?f) _] => RUNP (exec_stmt t rm a es b c d e f) end).
  cbn [seq_out bind fst snd]. rewrite run_stmts_cons. cbn [exec_stmt].
  (match goal with |- context [eval G0 58 ?c ?r ?w] => RUNP (eval G0 58 c r w) end).
  cbn [bind fst snd as_list].
  unfold stepP, itP, tgP, bodyP, envP, selfP, afterP, finishP, accv.
  cbv beta iota zeta delta [src_PriorLikelihood_log_likelihood nth skipn]. cbn [app String.eqb Ascii.eqb Bool.eqb].
  reflexivity.
Qed.
Lemma suffixP self d o prev w : afterP (envP self d o prev) w = Ok (OReturn (accv o), w).
Proof.
  destruct o; destruct prev as [[pi pp]|]; unfold afterP, envP, accv; cbv beta iota zeta delta [src_PriorLikelihood_log_likelihood skipn]; cbn [app];
  (match goal with |- ?L = _ => RUNP L end); reflexivity.
Qed.

(* the value is the reference sum: every listed entry whose name is realised contributes its own Gaussian term, the others nothing *)
Definition pl_names (pl : list (string * R * R)) := map (fun e => fst (fst e)) pl.
Definition pl_mus (pl : list (string * R * R)) := map (fun e => snd (fst e)) pl.
Definition pl_sgs (pl : list (string * R * R)) := map (fun e => snd e) pl.
Lemma accP_is_prior_sum pl realised : forall o,
  accr (accP o (pl_names pl) (pl_mus pl) (pl_sgs pl) realised) = (accr o + prior_sum pl realised)%R.
Proof.
  induction pl as [|[[n m] s] pl IH]; intros o; cbn [pl_names pl_mus pl_sgs map accP prior_sum fst snd]; [ring|].
  fold (pl_names pl) (pl_mus pl) (pl_sgs pl).
  destruct (lookup_r n realised) as [x|]; rewrite IH; cbn [accr]; unfold termI; [|ring].
  replace (x + - m)%R with (x - m)%R by ring. ring.
Qed.
Lemma pcP_holds pl realised : forall pc0,
  (forall n m s, In (n, m, s) pl -> lookup_r n realised <> None -> s <> 0%R) -> holds pc0 -> holds (pcP (pl_names pl) (pl_sgs pl) realised pc0).
Proof.
  induction pl as [|[[n m] s] pl IH]; intros pc0 Hs H0; [exact H0|]. cbn [pl_names pl_sgs map pcP fst snd]. fold (pl_names pl) (pl_sgs pl).
  destruct (lookup_r n realised) as [x|] eqn:Hl.
  - apply IH; [intros; eapply Hs; [right; eassumption | assumption]|]. cbn [holds]. split; [|exact H0].
    assert (s <> 0%R) by (eapply (Hs n m s); [left; reflexivity | rewrite Hl; discriminate]).
    apply Rmult_integral_contrapositive_currified; [lra | apply pow_nonzero; assumption].
  - apply IH; [intros; eapply Hs; [right; eassumption | assumption] | exact H0].
Qed.

Theorem prior_any_length (pl : list (string * R * R)) (realised : list (string * R)) rg cu :
  (forall n m s, In (n, m, s) pl -> lookup_r n realised <> None -> s <> 0%R) ->
  exists o,
  yields G0 60 (CFun src_PriorLikelihood_log_likelihood) (Some (selfP (pl_names pl) (pl_mus pl) (pl_sgs pl))) [VDict (dict_of realised)] [] rg cu
    (accv o) cu []
  /\ accr o = prior_sum pl realised.
Proof.
  intros Hs. exists (accP None (pl_names pl) (pl_mus pl) (pl_sgs pl) realised). split.
  - unfold yields. exists (ansP (pl_names pl) realised ++ [])%list. eexists. split.
    + rewrite prefixP.
      destruct (loopP (pl_names pl) (pl_mus pl) (pl_sgs pl) realised [] [] [] None None 0%Z rg cu [] [] []) as [prev' E];
        [unfold pl_mus, pl_names; rewrite !map_length; reflexivity | unfold pl_sgs, pl_names; rewrite !map_length; reflexivity | reflexivity | reflexivity |].
      cbn [app length Z.of_nat] in E. rewrite E. cbn [seq_out bind fst snd]. rewrite suffixP. reflexivity.
    + cbn [decs cur olog pc]. repeat split. apply pcP_holds; [exact Hs | exact I].
  - rewrite accP_is_prior_sum. cbn [accr]. ring.
Qed.
