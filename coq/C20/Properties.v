(* C20 — property theorems only. Source = C20.Src, regenerated from /repo on this run. *)
From Coq Require Import Reals ZArith String List Bool Lra.
Require Import Py.PyAst Py.PyVal Py.PySem Py.XLemmas.
Require Import Py.Sym.
Require Import C20.Src C20.Model C20.PriorN.
Import ListNotations.
Open Scope string_scope.
Open Scope R_scope.

(* the prior object built by the real constructor adds exactly  -(x-mu)^2/(2 sigma^2)  for every listed name that is among the
   realised parameters and nothing for the others (here: two realised, one not) *)
Theorem C20_formula : forall x1 x2 x3 m1 s1 m2 s2 m3 s3 rg cu, s1 <> 0 -> s3 <> 0 ->
  exists o,
  yields G0 60 (CClass "PriorLikelihood" src_PriorLikelihood_init) None
    [VList [VList [VStr "lambda_mst"; num m1; num s1]; VList [VStr "a_ani"; num m2; num s2]; VList [VStr "gamma_pl"; num m3; num s3]]] [] rg cu o cu []
  /\ yields G0 60 (CFun src_PriorLikelihood_log_likelihood) (Some o)
       [dict [("gamma_pl", num x3); ("gamma_ppn", num x2); ("lambda_mst", num x1)]] [] rg cu
       (num (prior_sum [("lambda_mst", m1, s1); ("a_ani", m2, s2); ("gamma_pl", m3, s3)] [("gamma_pl", x3); ("gamma_ppn", x2); ("lambda_mst", x1)])) cu [].
Proof. exact prior_three. Qed.
Print Assumptions C20_formula.
Example C20_formula_value : prior_sum [("lambda_mst", 1, 1/10); ("a_ani", 2, 3)] [("lambda_mst", 11/10)] = - ((11/10 - 1) ^ 2 / (2 * (1/10) ^ 2)) + (0 + 0).
Proof. reflexivity. Qed.
Theorem C20_no_prior : forall kw rg cu,
  exists o, yields G0 60 (CClass "PriorLikelihood" src_PriorLikelihood_init) None [] [] rg cu o cu []
  /\ yields G0 60 (CFun src_PriorLikelihood_log_likelihood) (Some o) [dict kw] [] rg cu (VInt 0) cu [].
Proof. exact prior_empty. Qed.
Theorem C20_absent_adds_nothing : forall pl realised, (forall n m s, In (n, m, s) pl -> lookup_r n realised = None) -> prior_sum pl realised = 0.
Proof. exact prior_sum_absent. Qed.
Theorem C20_additive_over_entries : forall a b realised, prior_sum (a ++ b) realised = prior_sum a realised + prior_sum b realised.
Proof. exact prior_sum_app. Qed.

(* evaluated at the value REALISED in this evaluation and added INSIDE the single-draw log-likelihood (hence inside the population
   average of C04): the drawn lambda (own population: IFU or not, + alpha*x + beta*y + sigma*z), the lens' OWN slope gamma_pl_list[index],
   the a_ani handed through; a listed name the lens never realises (lambda_ifu) adds nothing; exactly one data evaluation *)
Theorem C20_realised : forall (D : list val -> list (string * val) -> R) (K : val -> val)
    (ifu : bool) (ddt dd dl beta lam slam lifu sifu al be g x y g0 g1 g2 aani ml sl mi si mg sg ma sa : R) (rg : nat -> R) (cu : nat),
  let l := (if ifu then lifu else lam) + al * x + be * y + (if ifu then sifu else slam) * rg cu in
  1/10000 <= l * (1 - 0) -> sl <> 0 -> sg <> 0 -> sa <> 0 ->
  exists v log,
  yields (Gw D K) 100 (CFun src_LensLikelihood_log_likelihood_single) (Some (lens_self ifu x y ml sl mi si mg sg ma sa))
    [num ddt; num dd; num dl; num beta;
     dict [("lambda_mst", num lam); ("lambda_mst_sigma", num slam); ("lambda_ifu", num lifu); ("lambda_ifu_sigma", num sifu);
           ("alpha_lambda", num al); ("beta_lambda", num be); ("gamma_ppn", num g); ("gamma_pl_list", VList [num g0; num g1; num g2])];
     dict [("a_ani", num aani)]; dict []; VNone] [] rg cu v (S (S cu)) log
  /\ exists dval, length log = 1%nat /\
      v = num (dval + prior_sum [("lambda_mst", ml, sl); ("lambda_ifu", mi, si); ("gamma_pl", mg, sg); ("a_ani", ma, sa)]
                                [("lambda_mst", l); ("gamma_ppn", g); ("gamma_pl", g1); ("a_ani", aani)]).
Proof. exact prior_on_realised. Qed.
Print Assumptions C20_realised.
(* Isolation: a lens' term is the value of a call whose only inputs are that lens' own object (with its own _prior field) and the
   shared hyper-parameters; no other lens' prior list occurs in it. This is immediate from the form of C20_realised (the statement
   mentions one lens object) and from C07_additive (the sample value is the sum of such calls). *)

(* a prior on one lens never reaches another lens through the code that EMITS the per-lens prior list: no function of this property
   (the prior class, the single-draw pipeline, the four hierarchy_configuration emitters) writes in place through a parameter whose
   default is a mutable object - so a default list is never shared state between two calls / two lenses (cf. coq/Base/Defaults.v) *)
Require Import Py.Defaults.
Theorem C20_no_shared_default_state : all_defaults_safe src_fundefs = true.
Proof. vm_compute. reflexivity. Qed.
Print Assumptions C20_no_shared_default_state.

(* A PRIOR LIST OF ANY LENGTH (induction over the interpreter's loop, PriorN.v): for every list of (name, mean, sigma) entries - repeated names
   included, each entry counts - and every set of realised parameters, PriorLikelihood.log_likelihood returns the reference sum
   [prior_sum]: -(x - mu)^2 / (2 sigma^2) for each listed entry whose name the lens realises (x its realised value), nothing for the others;
   one question is asked per realised entry (is the denominator zero), no random variate is consumed, nothing is logged.
   ([accv o] is the integer 0 when no entry was realised and the float [accr o] otherwise.) *)
Theorem C20_prior_list_of_any_length : forall (pl : list (string * R * R)) (realised : list (string * R)) rg cu,
  (forall n m s, In (n, m, s) pl -> lookup_r n realised <> None -> s <> 0) ->
  exists o,
  yields G0 60 (CFun src_PriorLikelihood_log_likelihood) (Some (selfP (pl_names pl) (pl_mus pl) (pl_sgs pl))) [VDict (dict_of realised)] [] rg cu
    (accv o) cu []
  /\ accr o = prior_sum pl realised.
Proof. exact prior_any_length. Qed.
Print Assumptions C20_prior_list_of_any_length.
Example C20_repeated_names_each_count :
  prior_sum [("lambda_mst", 1, 1/10); ("gamma_pl", 2, 1/5); ("lambda_mst", 11/10, 1/5)] [("lambda_mst", 12/10)]
  = - ((12/10 - 1) ^ 2 / (2 * (1/10) ^ 2)) + (0 + (- ((12/10 - 11/10) ^ 2 / (2 * (1/5) ^ 2)) + 0)).
Proof. reflexivity. Qed.
