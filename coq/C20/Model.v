(* C20 — per-lens Gaussian priors act on the lens' own realised parameters only. Source = C20.Src (regenerated). *)
From Coq Require Import Reals ZArith String List Bool Lra Lia.
Require Import Py.PyAst Py.PyVal Py.PySem Py.XLemmas Py.Unfold Py.Tactics.
Require Import C20.Src.
Import ListNotations.
Open Scope string_scope.
Fixpoint assoc {A} (k : string) (l : list (string * A)) : option A :=
  match l with [] => None | (k', v) :: t => if String.eqb k k' then Some v else assoc k t end.
Definition num (r : R) := VNum (Fin r).
Definition dict (l : list (string * val)) := VDict (map (fun kv => (VStr (fst kv), snd kv)) l).
Definition G0 : fenv := FEnv (fun cls m => if String.eqb m "log_likelihood" then Some (CFun src_PriorLikelihood_log_likelihood) else None)
                             (fun n => if String.eqb n "PriorLikelihood" then Some (CClass "PriorLikelihood" src_PriorLikelihood_init) else None).
Open Scope R_scope.

(* the reference: sum over the listed entries whose name is among the realised parameters *)
Fixpoint lookup_r (k : string) (d : list (string * R)) : option R :=
  match d with [] => None | (k', v) :: t => if String.eqb k k' then Some v else lookup_r k t end.
Fixpoint prior_sum (pl : list (string * R * R)) (realised : list (string * R)) : R :=
  match pl with
  | [] => 0
  | (name, mu, sg) :: r =>
      (match lookup_r name realised with Some x => - ((x - mu) ^ 2 / (2 * sg ^ 2)) | None => 0 end) + prior_sum r realised
  end.

(* constructor + evaluation on a three-entry list: two listed names are realised, one is not *)
Theorem prior_three x1 x2 x3 m1 s1 m2 s2 m3 s3 rg cu : s1 <> 0 -> s3 <> 0 ->
  exists o,
  yields G0 60 (CClass "PriorLikelihood" src_PriorLikelihood_init) None
    [VList [VList [VStr "lambda_mst"; num m1; num s1]; VList [VStr "a_ani"; num m2; num s2]; VList [VStr "gamma_pl"; num m3; num s3]]] [] rg cu o cu []
  /\ yields G0 60 (CFun src_PriorLikelihood_log_likelihood) (Some o)
       [dict [("gamma_pl", num x3); ("gamma_ppn", num x2); ("lambda_mst", num x1)]] [] rg cu
       (num (prior_sum [("lambda_mst", m1, s1); ("a_ani", m2, s2); ("gamma_pl", m3, s3)] [("gamma_pl", x3); ("gamma_ppn", x2); ("lambda_mst", x1)])) cu [].
Proof.
  intros H1 H3. assert (2 * s1 ^ 2 <> 0) by (apply Rmult_integral_contrapositive_currified; [lra | apply pow_nonzero; assumption]).
  assert (2 * s3 ^ 2 <> 0) by (apply Rmult_integral_contrapositive_currified; [lra | apply pow_nonzero; assumption]).
  eexists. split; [yields_auto|].
  yields_with real_fact ltac:(finish_num ltac:(unfold num, prior_sum, lookup_r; cbn [String.eqb Ascii.eqb Bool.eqb]; cbv iota)).
Qed.
(* no prior list (None or []) adds exactly 0 *)
Theorem prior_empty kw rg cu :
  exists o, yields G0 60 (CClass "PriorLikelihood" src_PriorLikelihood_init) None [] [] rg cu o cu []
  /\ yields G0 60 (CFun src_PriorLikelihood_log_likelihood) (Some o) [dict kw] [] rg cu (VInt 0) cu [].
Proof. eexists. split; yields_auto. Qed.

(* generic facts about the reference *)
Lemma prior_sum_absent pl realised : (forall n m s, In (n, m, s) pl -> lookup_r n realised = None) -> prior_sum pl realised = 0.
Proof.
  induction pl as [|[[n m] s] pl IH]; intros H; [reflexivity|]. cbn [prior_sum].
  rewrite (H n m s) by (left; reflexivity). rewrite IH; [ring|]. intros; eapply H; right; eassumption.
Qed.
Lemma prior_sum_app a b realised : prior_sum (a ++ b) realised = prior_sum a realised + prior_sum b realised.
Proof. induction a as [|[[n m] s] a IH]; cbn [app prior_sum]; [ring|]. rewrite IH. ring. Qed.
Lemma prior_sum_nonpos pl realised : (forall n m s, In (n, m, s) pl -> s <> 0) -> prior_sum pl realised <= 0.
Proof.
  induction pl as [|[[n m] s] pl IH]; intros H; [cbn; lra|]. cbn [prior_sum].
  assert (Hs : s <> 0) by (eapply H; left; reflexivity).
  assert (IH' : prior_sum pl realised <= 0) by (apply IH; intros; eapply H; right; eassumption).
  destruct (lookup_r n realised) as [x|]; [|lra].
  assert (0 <= (x - m) ^ 2 / (2 * s ^ 2)).
  { apply Rmult_le_pos; [apply pow2_ge_0 | left; apply Rinv_0_lt_compat]. assert (0 < s ^ 2) by (rewrite <- Rsqr_pow2; apply Rsqr_pos_lt; assumption). lra. }
  lra.
Qed.

(* ---------- the prior is evaluated on the REALISED values of this evaluation, inside the single-draw log-likelihood ---------- *)
Section Realised.
Variable D : list val -> list (string * val) -> R.
Variable K : val -> val.
Definition data_oracle : callee :=
  COracle (fun args kws w => Ok (num (D (tl args) kws), World (rng w) (cur w) (("log_likelihood", tl args ++ map snd kws)%list :: olog w) (decs w) (pc w))).
Definition kin_oracle : callee := COracle (fun args kws w => Ok (K (nth 1 args VNone), w)).
Definition wtab : list (string * list (string * callee)) :=
  [("LensLikelihood",
     [("_displace_ppn", CFun src_TransformedCosmography_displace_ppn);
      ("_displace_lambda_mst", CFun src_TransformedCosmography_displace_lambda_mst);
      ("displace_prediction", CFun src_TransformedCosmography_displace_prediction);
      ("draw_source", CFun src_LensLikelihood_draw_source);
      ("kin_scaling", kin_oracle);
      ("log_likelihood", data_oracle);
      ("log_likelihood_single", CFun src_LensLikelihood_log_likelihood_single)]);
   ("LensDistribution", [("draw_lens", CFun src_LensDistribution_draw_lens)]);
   ("LOSDistribution", [("draw_los", CFun src_LOSDistribution_draw_los)]);
   ("AnisotropyDistribution", [("draw_anisotropy", CFun src_AnisotropyDistribution_draw_anisotropy)]);
   ("PriorLikelihood", [("log_likelihood", CFun src_PriorLikelihood_log_likelihood)])].
Definition Gw : fenv := FEnv (fun cls m => match assoc cls wtab with Some t => assoc m t | None => None end) (fun _ => None).
Definition lens_dist (ifu : bool) (x y : R) : val :=
  VObj "LensDistribution"
    [("_mst_ifu", VBool ifu); ("_lambda_scaling_property", num x); ("_lambda_scaling_property_beta", num y);
     ("_lambda_mst_sampling", VBool true); ("_lambda_mst_distribution", VStr "GAUSSIAN");
     ("_gamma_in_sampling", VBool false); ("_log_m2l_sampling", VBool false);
     ("_gamma_pl_model", VBool true); ("gamma_pl_index", VInt 1); ("_gamma_pl_global_sampling", VBool false)].
(* priors on lambda_mst, on lambda_ifu (never a realised name), on the lens' own slope and on a_ani (passed through un-drawn) *)
Definition lens_self (ifu : bool) (x y ml sl mi si mg sg ma sa : R) : val :=
  VObj "LensLikelihood"
    [("_lens_distribution", lens_dist ifu x y);
     ("_los", VObj "LOSDistribution" [("_draw_kappa_individual", VBool false); ("_draw_kappa_global", VBool false)]);
     ("_aniso_distribution", VObj "AnisotropyDistribution" [("_anisotropy_sampling", VBool false)]);
     ("_prior", VObj "PriorLikelihood"
        [("_param_name_list", VList [VStr "lambda_mst"; VStr "lambda_ifu"; VStr "gamma_pl"; VStr "a_ani"]);
         ("_param_mean_list", VList [num ml; num mi; num mg; num ma]);
         ("_param_sigma_list", VList [num sl; num si; num sg; num sa])])].

Theorem prior_on_realised (ifu : bool) (ddt dd dl beta lam slam lifu sifu al be g x y g0 g1 g2 aani ml sl mi si mg sg ma sa : R) (rg : nat -> R) (cu : nat) :
  let l := (if ifu then lifu else lam) + al * x + be * y + (if ifu then sifu else slam) * rg cu in
  1/10000 <= l * (1 - 0) -> sl <> 0 -> sg <> 0 -> sa <> 0 ->
  exists v log,
  yields Gw 100 (CFun src_LensLikelihood_log_likelihood_single) (Some (lens_self ifu x y ml sl mi si mg sg ma sa))
    [num ddt; num dd; num dl; num beta;
     dict [("lambda_mst", num lam); ("lambda_mst_sigma", num slam); ("lambda_ifu", num lifu); ("lambda_ifu_sigma", num sifu);
           ("alpha_lambda", num al); ("beta_lambda", num be); ("gamma_ppn", num g); ("gamma_pl_list", VList [num g0; num g1; num g2])];
     dict [("a_ani", num aani)]; dict []; VNone] [] rg cu v (S (S cu)) log
  /\ exists dval, length log = 1%nat /\
      v = num (dval + prior_sum [("lambda_mst", ml, sl); ("lambda_ifu", mi, si); ("gamma_pl", mg, sg); ("a_ani", ma, sa)]
                                [("lambda_mst", l); ("gamma_ppn", g); ("gamma_pl", g1); ("a_ani", aani)]).
Proof.
  intros l H Hsl Hsg Hsa.
  assert (2 * sl ^ 2 <> 0) by (apply Rmult_integral_contrapositive_currified; [lra | apply pow_nonzero; assumption]).
  assert (2 * sg ^ 2 <> 0) by (apply Rmult_integral_contrapositive_currified; [lra | apply pow_nonzero; assumption]).
  assert (2 * sa ^ 2 <> 0) by (apply Rmult_integral_contrapositive_currified; [lra | apply pow_nonzero; assumption]).
  assert (Hne : l <> 0) by (intro E; rewrite E in H; lra).
  destruct ifu; subst l; cbn [lens_self lens_dist] in *; cbv iota in *; do 2 eexists.
  - set (l := lifu + al * x + be * y + sifu * rg cu) in *.
    split; [yields_with ltac:(first [real_fact | (fold l; norm_dec; norm_max; lra) | (fold l; assumption)]) ltac:(reflexivity)|].
    eexists. split; [reflexivity|]. unfold num. apply f_equal. apply f_equal. apply (f_equal2 Rplus); [reflexivity|].
    unfold prior_sum, lookup_r. cbn [String.eqb Ascii.eqb Bool.eqb]. cbv iota. fold l. unfold Rminus. field. repeat split; assumption.
  - set (l := lam + al * x + be * y + slam * rg cu) in *.
    split; [yields_with ltac:(first [real_fact | (fold l; norm_dec; norm_max; lra) | (fold l; assumption)]) ltac:(reflexivity)|].
    eexists. split; [reflexivity|]. unfold num. apply f_equal. apply f_equal. apply (f_equal2 Rplus); [reflexivity|].
    unfold prior_sum, lookup_r. cbn [String.eqb Ascii.eqb Bool.eqb]. cbv iota. fold l. unfold Rminus. field. repeat split; assumption.
Qed.
End Realised.
