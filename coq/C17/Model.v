(* C17 — blinding hides the absolute H0 and lambda_int and touches nothing else. Source = C17.Src (regenerated). *)
From Coq Require Import Reals ZArith String List Bool Lra Lia.
Require Import Py.PyAst Py.PyVal Py.PySem Py.XLemmas Py.Unfold Py.Tactics.
Require Import C17.Src.
Import ListNotations.
Open Scope string_scope.
Definition num (r : R) := VNum (Fin r).
Definition arr1 (l : list R) : val := VArr (map num l).
Definition arr2 (m : list (list R)) : val := VArr (map arr1 m).
Fixpoint reals_of (l : list val) : option (list R) :=
  match l with [] => Some [] | VNum (Fin x) :: r => match reals_of r with Some xs => Some (x :: xs) | None => None end | _ => None end.

(* ------------------------------------------------------------------------------------------- *)
(* 1. reference: what blinding does, for posteriors of any size                                  *)
Section Ref.
Variable med : list R -> R.                       (* numpy.median on a column *)
Open Scope R_scope.
Definition col (j : nat) (M : list (list R)) : list R := map (fun r => nth j r 0) M.
Definition factor (nm : string) (c : list R) : option R :=
  if String.eqb nm "lambda_mst" then Some (1 / med c) else if String.eqb nm "h0" then Some (70 / med c) else None.
Definition app_f (f : option R) (x : R) : R := match f with Some k => x * k | None => x end.
Fixpoint factors (j : nat) (names : list string) (M : list (list R)) : list (option R) :=
  match names with [] => [] | nm :: r => factor nm (col j M) :: factors (S j) r M end.
Fixpoint zipf (fs : list (option R)) (r : list R) : list R :=
  match fs, r with f :: fs', x :: r' => app_f f x :: zipf fs' r' | _, _ => r end.
Definition blind_ref (names : list string) (M : list (list R)) : list (list R) := map (zipf (factors 0 names M)) M.

Lemma factors_length j names M : length (factors j names M) = length names.
Proof. revert j; induction names as [|n r IH]; intros j; cbn; [reflexivity | now rewrite IH]. Qed.
Lemma factors_nth names M : forall j k d, (k < length names)%nat ->
  nth k (factors j names M) None = factor (nth k names d) (col (j + k) M).
Proof.
  induction names as [|n r IH]; intros j k d Hk; [cbn in Hk; lia|].
  destruct k as [|k]; cbn [factors nth]; [now rewrite Nat.add_0_r|].
  cbn in Hk. rewrite (IH (S j) k d) by lia. now replace (S j + k)%nat with (j + S k)%nat by lia.
Qed.
Lemma zipf_nth fs : forall r k, (k < length r)%nat -> nth k (zipf fs r) 0 = app_f (nth k fs None) (nth k r 0).
Proof.
  induction fs as [|f fs IH]; intros r k Hk; [destruct r, k; reflexivity|].
  destruct r as [|x r]; [cbn in Hk; lia|]. destruct k as [|k]; cbn [zipf nth]; [reflexivity|]. apply IH. cbn in Hk; lia.
Qed.
Lemma zipf_length fs : forall r, length (zipf fs r) = length r.
Proof. induction fs as [|f fs IH]; intros [|x r]; cbn; try reflexivity. now rewrite IH. Qed.

(* blinding acts column by column: column k is multiplied by the factor of its name, computed from that column alone *)
Definition wide (n : nat) (M : list (list R)) : Prop := Forall (fun r => length r = n) M.
Lemma col_blind names M k : wide (length names) M -> (k < length names)%nat ->
  col k (blind_ref names M) = map (app_f (factor (nth k names "") (col k M))) (col k M).
Proof.
  intros HW Hk. unfold blind_ref, col. rewrite !map_map. apply map_ext_in. intros r Hr.
  assert (length r = length names) by (eapply (proj1 (Forall_forall _ _) HW); exact Hr).
  rewrite zipf_nth by lia. rewrite (factors_nth names M 0 k "") by lia. reflexivity.
Qed.
Lemma col_blind_beyond names M k : (length names <= k)%nat -> col k (blind_ref names M) = col k M.
Proof.
  intros Hk. unfold blind_ref, col. rewrite map_map. apply map_ext. intros r.
  destruct (Nat.lt_ge_cases k (length r)) as [Hl|Hl].
  - rewrite zipf_nth by lia. rewrite nth_overflow by (rewrite factors_length; lia). reflexivity.
  - rewrite !nth_overflow; [reflexivity | lia | rewrite zipf_length; lia].
Qed.

(* every column whose name is neither h0 nor lambda_mst is returned as it was *)
Theorem other_columns_identical names M k : wide (length names) M -> (k < length names)%nat ->
  nth k names "" <> "h0" -> nth k names "" <> "lambda_mst" -> col k (blind_ref names M) = col k M.
Proof.
  intros HW Hk H1 H2. rewrite col_blind by assumption. unfold factor.
  destruct (String.eqb_spec (nth k names "") "lambda_mst") as [E|_]; [contradiction|].
  destruct (String.eqb_spec (nth k names "") "h0") as [E|_]; [contradiction|].
  cbn [app_f]. apply map_id.
Qed.

(* the library contract used: the median is positively homogeneous *)
Hypothesis med_hom : forall c l, 0 < c -> l <> [] -> med (map (fun x => x * c) l) = med l * c.

Theorem median_h0 names M k : wide (length names) M -> (k < length names)%nat -> M <> [] ->
  nth k names "" = "h0" -> 0 < med (col k M) -> med (col k (blind_ref names M)) = 70.
Proof.
  intros HW Hk HM Hn Hm. rewrite col_blind by assumption. rewrite Hn. unfold factor. cbn [String.eqb Ascii.eqb Bool.eqb]. cbv iota.
  unfold app_f. rewrite med_hom.
  - field. lra.
  - apply Rdiv_lt_0_compat; lra.
  - unfold col. destruct M; [contradiction|discriminate].
Qed.
Theorem median_lambda names M k : wide (length names) M -> (k < length names)%nat -> M <> [] ->
  nth k names "" = "lambda_mst" -> 0 < med (col k M) -> med (col k (blind_ref names M)) = 1.
Proof.
  intros HW Hk HM Hn Hm. rewrite col_blind by assumption. rewrite Hn. unfold factor. cbn [String.eqb Ascii.eqb Bool.eqb]. cbv iota.
  unfold app_f. rewrite med_hom.
  - field. lra.
  - apply Rdiv_lt_0_compat; lra.
  - unfold col. destruct M; [contradiction|discriminate].
Qed.

(* ratios inside a blinded column are preserved: every entry is multiplied by the same non-zero number *)
Theorem ratios_preserved names M k : wide (length names) M -> (k < length names)%nat -> 0 < med (col k M) ->
  exists f, f <> 0 /\ col k (blind_ref names M) = map (fun x => x * f) (col k M).
Proof.
  intros HW Hk Hm. rewrite col_blind by assumption. unfold factor.
  destruct (String.eqb (nth k names "") "lambda_mst").
  - exists (1 / med (col k M)). split; [apply Rgt_not_eq; apply Rdiv_lt_0_compat; lra | reflexivity].
  - destruct (String.eqb (nth k names "") "h0").
    + exists (70 / med (col k M)). split; [apply Rgt_not_eq; apply Rdiv_lt_0_compat; lra | reflexivity].
    + exists 1. split; [lra|]. unfold app_f. apply map_ext. intros; ring.
Qed.

(* multiplying a blinded column of the input by any c > 0 does not change the output: the result carries no information about
   the absolute scale of H0 / lambda_int *)
Definition blind_col (nm : string) (c : list R) : list R := map (app_f (factor nm c)) c.
Lemma blind_col_scale nm c l : (nm = "h0" \/ nm = "lambda_mst") -> 0 < c -> med l <> 0 -> l <> [] ->
  blind_col nm (map (fun x => x * c) l) = blind_col nm l.
Proof.
  intros Hn Hc Hm Hl. unfold blind_col, factor. rewrite med_hom by assumption. rewrite map_map.
  destruct Hn as [-> | ->]; cbn [String.eqb Ascii.eqb Bool.eqb]; cbv iota; unfold app_f; apply map_ext; intros x; field; split; lra.
Qed.
Theorem scale_blind names M M' k c : wide (length names) M -> wide (length names) M' -> (k < length names)%nat -> M <> [] ->
  (nth k names "" = "h0" \/ nth k names "" = "lambda_mst") -> 0 < c -> med (col k M) <> 0 ->
  col k M' = map (fun x => x * c) (col k M) -> (forall j, j <> k -> col j M' = col j M) ->
  forall j, (j < length names)%nat -> col j (blind_ref names M') = col j (blind_ref names M).
Proof.
  intros HW HW' Hk HM Hn Hc Hm Hcol Hoth j Hj. rewrite !col_blind by assumption.
  destruct (Nat.eq_dec j k) as [->|Hne].
  - rewrite Hcol. apply (blind_col_scale (nth k names "") c (col k M)); try assumption. unfold col. destruct M; [contradiction|discriminate].
  - rewrite (Hoth j Hne). reflexivity.
Qed.
End Ref.

(* ------------------------------------------------------------------------------------------- *)
(* 2. a concrete median (sort, then the middle element / the mean of the two middle ones) IS positively homogeneous,
      so the hypothesis above is satisfiable by what numpy.median computes                        *)
Section Median.
Open Scope R_scope.
Fixpoint insertR (x : R) (l : list R) : list R :=
  match l with [] => [x] | y :: r => if Rle_dec x y then x :: l else y :: insertR x r end.
Fixpoint sortR (l : list R) : list R := match l with [] => [] | x :: r => insertR x (sortR r) end.
Definition medianR (l : list R) : R :=
  let s := sortR l in let n := length s in
  if Nat.even n then (nth (n / 2 - 1) s 0 + nth (n / 2) s 0) / 2 else nth (n / 2) s 0.
Lemma insertR_scale c x l : 0 < c -> insertR (x * c) (map (fun y => y * c) l) = map (fun y => y * c) (insertR x l).
Proof.
  intros Hc. induction l as [|y r IH]; [reflexivity|]. cbn [map insertR].
  destruct (Rle_dec x y) as [H|H], (Rle_dec (x * c) (y * c)) as [H'|H']; cbn [map].
  - reflexivity.
  - exfalso. apply H'. apply Rmult_le_compat_r; lra.
  - exfalso. apply H. apply Rmult_le_reg_r with c; assumption.
  - now rewrite IH.
Qed.
Lemma sortR_scale c l : 0 < c -> sortR (map (fun y => y * c) l) = map (fun y => y * c) (sortR l).
Proof. intros Hc. induction l as [|x r IH]; [reflexivity|]. cbn [map sortR]. rewrite IH. now apply insertR_scale. Qed.
Lemma insertR_length x l : length (insertR x l) = S (length l).
Proof. induction l as [|y r IH]; [reflexivity|]. cbn [insertR]. destruct (Rle_dec x y); cbn [length]; [reflexivity | now rewrite IH]. Qed.
Lemma sortR_length l : length (sortR l) = length l.
Proof. induction l as [|x r IH]; [reflexivity|]. cbn [sortR]. now rewrite insertR_length, IH. Qed.
Lemma nth_map_scale c (s : list R) k : (k < length s)%nat -> nth k (map (fun y => y * c) s) 0 = nth k s 0 * c.
Proof. intros Hk. rewrite (nth_indep _ 0 (0 * c)) by (now rewrite map_length). apply (map_nth (fun y => y * c)). Qed.
Theorem medianR_hom c l : 0 < c -> l <> [] -> medianR (map (fun x => x * c) l) = medianR l * c.
Proof.
  intros Hc Hl. unfold medianR. rewrite sortR_scale by assumption. rewrite map_length.
  assert (Hn : (0 < length (sortR l))%nat) by (rewrite sortR_length; destruct l; [contradiction | cbn; lia]).
  set (s := sortR l) in *. set (n := length s) in *.
  assert (n / 2 < n)%nat by (apply Nat.div_lt; lia).
  destruct (Nat.even n).
  - rewrite !nth_map_scale by lia. field.
  - rewrite nth_map_scale by lia. reflexivity.
Qed.
End Median.

(* ------------------------------------------------------------------------------------------- *)
(* 3. the real function, run by the interpreter: it computes blind_ref                            *)
Section Run.
Variable med : list R -> R.
Definition median_oracle : callee :=
  COracle (fun args kws w => match args, kws with
                             | [VArr l], [] => match reals_of l with Some xs => Ok (num (med xs), w) | None => Stuck "median: non-finite entry" end
                             | _, _ => Stuck "median: arguments (one array, no keywords)" end).
Definition G : fenv := FEnv (fun _ _ => None) (fun n => if String.eqb n "np.median" then Some median_oracle else None).
Definition names_v (l : list string) : val := VList (map VStr l).
Open Scope R_scope.

(* 3 samples x 5 parameters; h0 and lambda_mst in the middle of other names, in this order *)
Theorem run_blind_a (a0 a1 a2 a3 a4 b0 b1 b2 b3 b4 c0 c1 c2 c3 c4 : R) rg cu :
  let M := [[a0; a1; a2; a3; a4]; [b0; b1; b2; b3; b4]; [c0; c1; c2; c3; c4]] in
  let names := ["om"; "h0"; "a_ani"; "lambda_mst"; "h0_other"] in
  med (col 1 M) <> 0 -> med (col 3 M) <> 0 ->
  yields G 80 (CFun src_fn_blind_posterior) None [arr2 M; names_v names] [] rg cu (arr2 (blind_ref med names M)) cu [].
Proof. intros M names H1 H3. subst M names. cbn [col map nth] in H1, H3. yields_auto. Qed.
(* the other order, lambda_mst first and h0 last, a name list that is shorter than... no: same width, 2 samples *)
Theorem run_blind_b (a0 a1 a2 b0 b1 b2 : R) rg cu :
  let M := [[a0; a1; a2]; [b0; b1; b2]] in
  let names := ["lambda_mst"; "w0"; "h0"] in
  med (col 0 M) <> 0 -> med (col 2 M) <> 0 ->
  yields G 80 (CFun src_fn_blind_posterior) None [arr2 M; names_v names] [] rg cu (arr2 (blind_ref med names M)) cu [].
Proof. intros M names H1 H3. subst M names. cbn [col map nth] in H1, H3. yields_auto. Qed.
(* neither name present: the posterior comes back unchanged and the median is never asked for *)
Theorem run_blind_none (a0 a1 b0 b1 : R) rg cu :
  yields G 80 (CFun src_fn_blind_posterior) None [arr2 [[a0; a1]; [b0; b1]]; names_v ["om"; "H0"]] [] rg cu (arr2 [[a0; a1]; [b0; b1]]) cu [].
Proof. yields_auto. Qed.
End Run.

(* ------------------------------------------------------------------------------------------- *)
(* 4. the input is not written: every store of the function goes through a local that was bound to copy.deepcopy(...) *)
Fixpoint root_name (e : expr) : option string :=
  match e with EName x => Some x | ESub c _ => root_name c | EAttr c _ => root_name c | _ => None end.
Definition is_deepcopy (e : expr) : bool :=
  match e with ECall (EAttr (EName m) f) _ _ => String.eqb m "copy" && String.eqb f "deepcopy" | _ => false end.
Fixpoint names_of_target (t : expr) : list string :=
  match t with EName x => [x] | ETuple l => flat_map names_of_target l | _ => [] end.
(* [fresh]: locals known to hold a private copy; [loc]: plain locals (loop variables) *)
Fixpoint stores_ok (fuel : nat) (fresh : list string) (ss : list stmt) : bool :=
  match fuel with O => false | S f =>
  match ss with
  | [] => true
  | SAssign (EName x) e :: rest => if is_deepcopy e then stores_ok f (x :: fresh) rest else stores_ok f (filter (fun y => negb (String.eqb x y)) fresh) rest
  | SAssign t _ :: rest | SAug _ t _ :: rest =>
      match t with
      | ESub _ _ | EAttr _ _ => match root_name t with Some r => existsb (String.eqb r) fresh && stores_ok f fresh rest | None => false end
      | _ => false end
  | SIf _ a b :: rest => stores_ok f fresh a && stores_ok f fresh b && stores_ok f fresh rest
  | SFor t _ body :: rest =>
      let fresh' := filter (fun y => negb (existsb (String.eqb y) (names_of_target t))) fresh in
      stores_ok f fresh' body && stores_ok f fresh' rest
  | SReturn _ :: rest | SPass :: rest => stores_ok f fresh rest
  | _ => false            (* calls as statements (append, pop, ...), try, raise: not accepted here *)
  end end.
Definition input_untouched (fd : fundef) : bool := stores_ok 50 [] (f_body fd).
Lemma blind_writes_only_its_copy : input_untouched src_fn_blind_posterior = true.
Proof. vm_compute. reflexivity. Qed.
