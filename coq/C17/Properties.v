(* C17 — property theorems only. Source = C17.Src, regenerated from /repo on this run. *)
From Coq Require Import Reals ZArith String List Bool Lra.
Require Import Py.PyAst Py.PyVal Py.PySem Py.XLemmas.
Require Import C17.Src C17.Model.
Import ListNotations.
Open Scope string_scope.
Open Scope R_scope.

(* the real blind_posterior, run by the interpreter on symbolic posteriors, computes the reference blind_ref (median = any function) *)
Theorem C17_source_computes_reference_a : forall (med : list R -> R) (a0 a1 a2 a3 a4 b0 b1 b2 b3 b4 c0 c1 c2 c3 c4 : R) rg cu,
  let M := [[a0; a1; a2; a3; a4]; [b0; b1; b2; b3; b4]; [c0; c1; c2; c3; c4]] in
  let names := ["om"; "h0"; "a_ani"; "lambda_mst"; "h0_other"] in
  med (col 1 M) <> 0 -> med (col 3 M) <> 0 ->
  yields (G med) 80 (CFun src_fn_blind_posterior) None [arr2 M; names_v names] [] rg cu (arr2 (blind_ref med names M)) cu [].
Proof. exact run_blind_a. Qed.
Print Assumptions C17_source_computes_reference_a.
Theorem C17_source_computes_reference_b : forall (med : list R -> R) (a0 a1 a2 b0 b1 b2 : R) rg cu,
  let M := [[a0; a1; a2]; [b0; b1; b2]] in
  let names := ["lambda_mst"; "w0"; "h0"] in
  med (col 0 M) <> 0 -> med (col 2 M) <> 0 ->
  yields (G med) 80 (CFun src_fn_blind_posterior) None [arr2 M; names_v names] [] rg cu (arr2 (blind_ref med names M)) cu [].
Proof. exact run_blind_b. Qed.
Theorem C17_absent_names_identity : forall (med : list R -> R) (a0 a1 b0 b1 : R) rg cu,
  yields (G med) 80 (CFun src_fn_blind_posterior) None [arr2 [[a0; a1]; [b0; b1]]; names_v ["om"; "H0"]] [] rg cu (arr2 [[a0; a1]; [b0; b1]]) cu [].
Proof. exact run_blind_none. Qed.

(* for posteriors of ANY size (any number of samples, any parameter list): *)
Theorem C17_median_h0 : forall med : list R -> R, (forall c l, 0 < c -> l <> [] -> med (map (fun x => x * c) l) = med l * c) ->
  forall names M k, wide (length names) M -> (k < length names)%nat -> M <> [] ->
  nth k names "" = "h0" -> 0 < med (col k M) -> med (col k (blind_ref med names M)) = 70.
Proof. exact median_h0. Qed.
Print Assumptions C17_median_h0.
Theorem C17_median_lambda : forall med : list R -> R, (forall c l, 0 < c -> l <> [] -> med (map (fun x => x * c) l) = med l * c) ->
  forall names M k, wide (length names) M -> (k < length names)%nat -> M <> [] ->
  nth k names "" = "lambda_mst" -> 0 < med (col k M) -> med (col k (blind_ref med names M)) = 1.
Proof. exact median_lambda. Qed.
Theorem C17_scale_blind : forall med : list R -> R, (forall c l, 0 < c -> l <> [] -> med (map (fun x => x * c) l) = med l * c) ->
  forall names M M' k c, wide (length names) M -> wide (length names) M' -> (k < length names)%nat -> M <> [] ->
  (nth k names "" = "h0" \/ nth k names "" = "lambda_mst") -> 0 < c -> med (col k M) <> 0 ->
  col k M' = map (fun x => x * c) (col k M) -> (forall j, j <> k -> col j M' = col j M) ->
  forall j, (j < length names)%nat -> col j (blind_ref med names M') = col j (blind_ref med names M).
Proof. exact scale_blind. Qed.
Print Assumptions C17_scale_blind.
Theorem C17_ratios_preserved : forall (med : list R -> R) names M k, wide (length names) M -> (k < length names)%nat -> 0 < med (col k M) ->
  exists f, f <> 0 /\ col k (blind_ref med names M) = map (fun x => x * f) (col k M).
Proof. exact ratios_preserved. Qed.
Theorem C17_other_columns_identical : forall (med : list R -> R) names M k, wide (length names) M -> (k < length names)%nat ->
  nth k names "" <> "h0" -> nth k names "" <> "lambda_mst" -> col k (blind_ref med names M) = col k M.
Proof. exact other_columns_identical. Qed.
(* the contract assumed of numpy.median holds for the textbook median (sort, middle element / mean of the two middle ones) *)
Theorem C17_median_contract_satisfiable : forall c l, 0 < c -> l <> [] -> medianR (map (fun x => x * c) l) = medianR l * c.
Proof. exact medianR_hom. Qed.
Print Assumptions C17_median_contract_satisfiable.
(* the input posterior is never written: every store goes through the local bound to copy.deepcopy(posterior) *)
Theorem C17_input_untouched : input_untouched src_fn_blind_posterior = true.
Proof. exact blind_writes_only_its_copy. Qed.
(* non-vacuity: the hypotheses of the median theorems are met by a one-sample posterior with h0 = 2 *)
Example C17_nonvacuous : wide (length ["h0"]) [[2]] /\ (0 < length ["h0"])%nat /\ [[2]] <> [] /\ nth 0 ["h0"] "" = "h0" /\ 0 < medianR (col 0 [[2]]).
Proof. repeat split; try (repeat constructor); try discriminate. unfold medianR; cbn. lra. Qed.
