(* C14 — goodness-of-fit outputs describe the same model that the likelihood evaluates. Source = C14.Src (regenerated); the kinematic
   likelihood model of C06 (Kin.v) is compiled here against this property's source. *)
From Coq Require Import Reals ZArith String List Bool Lra Lia.
Require Import Py.PyAst Py.PyVal Py.PySem Py.XLemmas Py.Unfold Py.Tactics.
Require Import C14.Src C14.Kin.
Import ListNotations.
Open Scope string_scope.
Definition dict (l : list (string * val)) := VDict (map (fun kv => (VStr (fst kv), snd kv)) l).
Definition logc (tag : string) (args : list val) (w : world) : world := World (rng w) (cur w) ((tag, args) :: olog w) (decs w) (pc w).
Open Scope R_scope.

(* ------------------------------------------------------------------------------------------- *)
(* 1. what the kinematic likelihood REPORTS (two symbolic bins) and how it relates to what it EVALUATES (C06: delta, Cov) *)
Section Reported.
Variables (C zl v0 v1 j0 j1 m00 m01 m10 m11 q00 q01 q10 q11 : R).
Variables (p00 p01 p10 p11 L : R).
Definition mtab14 : list (string * callee) :=
  [("sigma_v_prediction", CFun src_KinLikelihood_sigma_v_prediction); ("sigma_v_measurement", CFun src_KinLikelihood_sigma_v_measurement);
   ("sigma_v_measurement_mean", CFun src_KinLikelihood_sigma_v_measurement_mean); ("sigma_v_model", CFun src_KinLikelihood_sigma_v_model);
   ("cov_error_model", CFun src_KinLikelihood_cov_error_model); ("cov_error_measurement", CFun src_KinLikelihood_cov_error_measurement)].
Definition G14 : fenv := FEnv (fun _ m => assoc m mtab14) (fun n => assoc n (gtab C p00 p01 p10 p11 L)).
Definition kobj := kin_obj zl v0 v1 j0 j1 m00 m01 m10 m11 q00 q01 q10 q11 true.
Definition pred (ddt dd s : R) (j : R) := sqrt (j * dsd zl ddt dd * s) * C / 1000.
Definition cpred (ddt dd s0 s1 : R) : list (list R) :=
  [[q00 * (sqrt s0 * sqrt s0) * dsd zl ddt dd * (C / 1000) ^ 2; q01 * (sqrt s0 * sqrt s1) * dsd zl ddt dd * (C / 1000) ^ 2];
   [q10 * (sqrt s1 * sqrt s0) * dsd zl ddt dd * (C / 1000) ^ 2; q11 * (sqrt s1 * sqrt s1) * dsd zl ddt dd * (C / 1000) ^ 2]].
Theorem reported_prediction ddt dd s0 s1 rg cu : dd <> 0 -> 1 + zl <> 0 -> 0 <= j0 * dsd zl ddt dd * s0 -> 0 <= j1 * dsd zl ddt dd * s1 -> 0 <= s0 -> 0 <= s1 ->
  yields G14 100 (CFun src_KinLikelihood_sigma_v_prediction) (Some kobj) [Kin.num ddt; Kin.num dd] [("kin_scaling", vec [s0; s1])] rg cu
    (VTuple [vec [pred ddt dd s0 j0; pred ddt dd s1 j1]; mat (cpred ddt dd s0 s1)]) cu [].
Proof. intros Hd Hz H0 H1 Hs0 Hs1. unfold pred, cpred, dsd, kobj, kin_obj in *. yields_with real_fact ltac:(val_eq). Qed.
Theorem reported_measurement rg cu :
  yields G14 100 (CFun src_KinLikelihood_sigma_v_measurement) (Some kobj) [] [] rg cu (VTuple [vec [v0; v1]; mat [[m00; m01]; [m10; m11]]]) cu [].
Proof. unfold kobj, kin_obj. yields_auto. Qed.
(* consistency: measurement minus reported prediction is the residual the likelihood uses; measurement covariance plus reported model
   covariance is the matrix the likelihood inverts. Hence lnL = mvn log-density of the reported quantities (C06: kin_loglike_n2). *)
Theorem reported_is_evaluated ddt dd s0 s1 :
  v0 - pred ddt dd s0 j0 = delta C zl v0 v1 j0 j1 ddt dd s0 s1 false /\ v1 - pred ddt dd s1 j1 = delta C zl v0 v1 j0 j1 ddt dd s0 s1 true /\
  map (fun rc => map (fun ab => fst ab + snd ab) (combine (fst rc) (snd rc))) (combine [[m00; m01]; [m10; m11]] (cpred ddt dd s0 s1))
  = Cov C zl m00 m01 m10 m11 q00 q01 q10 q11 ddt dd s0 s1.
Proof. unfold pred, delta, Cov, cpred. cbn [map combine fst snd]. repeat split; field. Qed.
End Reported.

(* ------------------------------------------------------------------------------------------- *)
(* 2. LensLikelihood.sigma_v_measured_vs_predict and ddt_dd_model_prediction for SHARP hyper-parameters, two draws  *)
Section Lens.
Variables (ddt dd lam gpp kap ddt_ dd_ : R) (p0 p1 c00 c01 c10 c11 v0 v1 m00 m01 m10 m11 k00 k01 k10 k11 : R) (ks : val).
Definition ret (tag : string) (v : val) : callee := COracle (fun args kws w => Ok (v, logc tag (tl args ++ map snd kws)%list w)).
Definition lens_draw := dict [("lambda_mst", Kin.num lam); ("gamma_ppn", Kin.num gpp)].
Definition ltab : list (string * list (string * callee)) :=
  [("LensLikelihood", [("angular_diameter_distances", ret "distances" (VTuple [Kin.num ddt; Kin.num dd]));
                       ("sigma_v_measurement", ret "measurement" (VTuple [vec [v0; v1]; mat [[m00; m01]; [m10; m11]]]));
                       ("displace_prediction", ret "displace" (VTuple [Kin.num ddt_; Kin.num dd_; VNone]));
                       ("kin_scaling", ret "kin_scaling" ks);
                       ("sigma_v_prediction", ret "prediction" (VTuple [vec [p0; p1]; mat [[c00; c01]; [c10; c11]]]))]);
   ("LensDistribution", [("draw_lens", ret "draw_lens" lens_draw)]);
   ("LOSDistribution", [("draw_los", ret "draw_los" (Kin.num kap))]);
   ("AnisotropyDistribution", [("draw_anisotropy", ret "draw_anisotropy" (dict [("a_ani", Kin.num 2)]))])].
Definition Gl : fenv := FEnv (fun cls m => match assoc cls ltab with Some t => assoc m t | None => None end)
  (fun n => if String.eqb n "np.cov" then Some (COracle (fun args kws w => Ok (mat [[k00; k01]; [k10; k11]], logc "np.cov" (args ++ map snd kws)%list w))) else None).
Definition lens (t : string) := VObj "LensLikelihood"
  [("likelihood_type", VStr t); ("_num_distribution_draws", VInt 2); ("_lens_distribution", VObj "LensDistribution" []); ("_los", VObj "LOSDistribution" []);
   ("_aniso_distribution", VObj "AnisotropyDistribution" [])].
Definition mean2 (x : R) := (0 + x + x) / 2.
Lemma mean2_id x : mean2 x = x.  Proof. unfold mean2. field. Qed.
Definition cosmo0 := VObj "Cosmo" [].
Definition one_draw (klos : val) : list (string * list val) :=
  [("draw_lens", [Kin.num 1]); ("draw_los", [klos]); ("displace", [Kin.num ddt; Kin.num dd; Kin.num gpp; Kin.num lam; Kin.num kap]);
   ("draw_anisotropy", [Kin.num 2]); ("kin_scaling", [dict [("lambda_mst", Kin.num lam); ("gamma_ppn", Kin.num gpp); ("a_ani", Kin.num 2)]]);
   ("prediction", [Kin.num ddt_; Kin.num dd_; ks])].
(* each draw: lens draw -> LOS draw -> DISPLACED distances -> anisotropy draw (the systematic error split off) -> scaling of the merged
   parameters -> prediction at the displaced distances with that scaling; the report is the mean over the draws plus numpy.cov of the
   per-draw predictions (bins x draws) *)
Theorem measured_vs_predict (klos : val) rg cu :
  exists log,
  yields Gl 100 (CFun src_LensLikelihood_sigma_v_measured_vs_predict) (Some (lens "IFUKinCov"))
    [cosmo0] [("kwargs_lens", dict [("lambda_mst", Kin.num 1)]); ("kwargs_kin", dict [("a_ani", Kin.num 2); ("sigma_v_sys_error", Kin.num 7)]); ("kwargs_los", klos)] rg cu
    (VTuple [vec [v0; v1]; mat [[m00; m01]; [m10; m11]]; vec [mean2 p0; mean2 p1];
             VArr [VList [Kin.num (mean2 c00 + k00); Kin.num (mean2 c01 + k01)]; VList [Kin.num (mean2 c10 + k10); Kin.num (mean2 c11 + k11)]]]) cu log
  /\ rev log = ([("distances", [cosmo0]); ("measurement", [Kin.num 7])] ++ one_draw klos ++ one_draw klos ++
                [("np.cov", [VArr [VList [Kin.num p0; Kin.num p0]; VList [Kin.num p1; Kin.num p1]]])])%list.
Proof. unfold mean2. eexists. split; [yields_with real_fact ltac:(val_eq) | reflexivity]. Qed.
(* types without kinematics report nothing *)
Theorem measured_vs_predict_none rg cu :
  Forall (fun t => yields Gl 100 (CFun src_LensLikelihood_sigma_v_measured_vs_predict) (Some (lens t)) [cosmo0] [] rg cu (VTuple [VNone; VNone; VNone; VNone]) cu [])
    ["DdtGaussian"; "DdtLogNorm"; "DdtHist"; "DdtHistKDE"; "DdtDdKDE"; "DdtDdGaussian"; "DsDdsGaussian"; "Mag"; "TDMag"; "TDMagMagnitude"; "DSPL"].
Proof. repeat constructor; yields_auto. Qed.
(* model Ddt and Dd: mean and spread over the draws of the DISPLACED distances; for sharp parameters the displaced distances and zero *)
Definition std2 (a b : R) := sqrt (((a + - ((a + (b + 0)) / 2)) ^ 2 + ((b + - ((a + (b + 0)) / 2)) ^ 2 + 0)) / 2).
Lemma std2_same a : std2 a a = 0.
Proof. unfold std2. replace (((a + - ((a + (a + 0)) / 2)) ^ 2 + ((a + - ((a + (a + 0)) / 2)) ^ 2 + 0)) / 2) with 0 by field. apply sqrt_0. Qed.
Theorem model_prediction (klos : val) rg cu :
  exists log,
  yields Gl 100 (CFun src_LensLikelihood_ddt_dd_model_prediction) (Some (lens "DdtGaussian")) [cosmo0] [("kwargs_lens", dict [("lambda_mst", Kin.num 1)]); ("kwargs_los", klos)] rg cu
    (VTuple [Kin.num ((ddt_ + (ddt_ + 0)) / 2); Kin.num (std2 ddt_ ddt_); Kin.num ((dd_ + (dd_ + 0)) / 2); Kin.num (std2 dd_ dd_)]) cu log
  /\ rev log = [("distances", [cosmo0]);
                ("draw_lens", [Kin.num 1]); ("draw_los", [klos]); ("displace", [Kin.num ddt; Kin.num dd; Kin.num gpp; Kin.num lam; Kin.num kap]);
                ("draw_lens", [Kin.num 1]); ("draw_los", [klos]); ("displace", [Kin.num ddt; Kin.num dd; Kin.num gpp; Kin.num lam; Kin.num kap])].
Proof.
  unfold std2.
  assert (H1 : 0 <= ((ddt_ + - ((ddt_ + (ddt_ + 0)) / 2)) ^ 2 + ((ddt_ + - ((ddt_ + (ddt_ + 0)) / 2)) ^ 2 + 0)) / 2) by (right; field).
  assert (H2 : 0 <= ((dd_ + - ((dd_ + (dd_ + 0)) / 2)) ^ 2 + ((dd_ + - ((dd_ + (dd_ + 0)) / 2)) ^ 2 + 0)) / 2) by (right; field).
  eexists. split; [yields_with real_fact ltac:(val_eq) | reflexivity].
Qed.
End Lens.

(* ------------------------------------------------------------------------------------------- *)
(* 3. reduced chi^2 = -2 lnL / N_data of the UN-NORMALISED sample likelihood                      *)
Section Chi2.
Variables (Ls : R) (N : Z).
Definition gtab : list (string * list (string * callee)) :=
  [("LensSampleLikelihood", [("log_likelihood", COracle (fun args kws w => Ok (Kin.num Ls, logc "log_likelihood" (tl args ++ map snd kws)%list w)));
                             ("num_data", COracle (fun args kws w => Ok (VInt N, w)))])].
Definition Gg : fenv := FEnv (fun cls m => match assoc cls gtab with Some t => assoc m t | None => None end)
  (fun n => if String.eqb n "LensSampleLikelihood" then Some (COracle (fun args kws w => Ok (VObj "LensSampleLikelihood" (map (fun a => ("<positional>", a)) args ++ kws), w))) else None).
Theorem gof_ctor (ll km : val) rg cu :
  yields Gg 60 (CClass "GoodnessOfFit" src_GoodnessOfFit_init) None [ll; km] [] rg cu
    (VObj "GoodnessOfFit" [("_kwargs_likelihood_list", ll);
                           ("_sample_likelihood", VObj "LensSampleLikelihood" [("<positional>", ll); ("normalized", VBool false); ("kwargs_global_model", km)])]) cu [].
Proof. yields_auto. Qed.
Theorem reduced_chi2_formula (c kl kk ks kls : val) rg cu : IZR N <> 0 ->
  yields Gg 60 (CFun src_GoodnessOfFit_reduced_chi2) (Some (VObj "GoodnessOfFit" [("_sample_likelihood", VObj "LensSampleLikelihood" [])])) [c; kl; kk; ks; kls] [] rg cu
    (Kin.num (- Ls * 2 / IZR N)) cu [("log_likelihood", [c; kl; kk; ks; kls; VBool false])].
Proof. intros HN. yields_with real_fact ltac:(val_eq). Qed.
End Chi2.
(* zero when every measurement equals its prediction, for the Gaussian forms (un-normalised) *)
Lemma gauss_chi2_zero mu sg : sg <> 0 -> - (mu - mu) ^ 2 / sg ^ 2 / 2 = 0.
Proof. intros. field. assumption. Qed.
Lemma quad_chi2_zero p00 p01 p10 p11 : - (0 * (p00 * 0 + p01 * 0) + 0 * (p10 * 0 + p11 * 0)) / 2 = 0.
Proof. field. Qed.
