(* C14 — property theorems only. Source = C14.Src, regenerated from /repo on this run. *)
From Coq Require Import Reals ZArith String List Bool Lra.
Require Import Py.PyAst Py.PyVal Py.PySem Py.XLemmas.
Require Import C14.Src C14.Kin C14.Model.
Import ListNotations.
Open Scope string_scope.
Open Scope R_scope.

(* what the kinematic likelihood reports (two symbolic bins): prediction vector, model covariance, measurement vector, measurement covariance *)
Theorem C14_reported_prediction : forall C zl v0 v1 j0 j1 m00 m01 m10 m11 q00 q01 q10 q11 p00 p01 p10 p11 L ddt dd s0 s1 rg cu,
  dd <> 0 -> 1 + zl <> 0 -> 0 <= j0 * dsd zl ddt dd * s0 -> 0 <= j1 * dsd zl ddt dd * s1 -> 0 <= s0 -> 0 <= s1 ->
  yields (G14 C p00 p01 p10 p11 L) 100 (CFun src_KinLikelihood_sigma_v_prediction) (Some (kobj zl v0 v1 j0 j1 m00 m01 m10 m11 q00 q01 q10 q11))
    [Kin.num ddt; Kin.num dd] [("kin_scaling", vec [s0; s1])] rg cu
    (VTuple [vec [pred C zl ddt dd s0 j0; pred C zl ddt dd s1 j1]; mat (cpred C zl q00 q01 q10 q11 ddt dd s0 s1)]) cu [].
Proof. exact reported_prediction. Qed.
Print Assumptions C14_reported_prediction.
Theorem C14_reported_measurement : forall C zl v0 v1 j0 j1 m00 m01 m10 m11 q00 q01 q10 q11 p00 p01 p10 p11 L rg cu,
  yields (G14 C p00 p01 p10 p11 L) 100 (CFun src_KinLikelihood_sigma_v_measurement) (Some (kobj zl v0 v1 j0 j1 m00 m01 m10 m11 q00 q01 q10 q11)) [] [] rg cu
    (VTuple [vec [v0; v1]; mat [[m00; m01]; [m10; m11]]]) cu [].
Proof. exact reported_measurement. Qed.
(* ... and they ARE what the likelihood evaluates: residual = measurement - reported prediction, inverted matrix = measurement covariance +
   reported model covariance; with C14_kin_value below, lnL is the multivariate-normal log-density of the reported quantities *)
Theorem C14_reported_is_evaluated : forall C zl v0 v1 j0 j1 m00 m01 m10 m11 q00 q01 q10 q11 ddt dd s0 s1,
  v0 - pred C zl ddt dd s0 j0 = delta C zl v0 v1 j0 j1 ddt dd s0 s1 false /\ v1 - pred C zl ddt dd s1 j1 = delta C zl v0 v1 j0 j1 ddt dd s0 s1 true /\
  map (fun rc => map (fun ab => fst ab + snd ab) (combine (fst rc) (snd rc))) (combine [[m00; m01]; [m10; m11]] (cpred C zl q00 q01 q10 q11 ddt dd s0 s1))
  = Cov C zl m00 m01 m10 m11 q00 q01 q10 q11 ddt dd s0 s1.
Proof. exact reported_is_evaluated. Qed.
Theorem C14_kin_value : forall C zl v0 v1 j0 j1 m00 m01 m10 m11 q00 q01 q10 q11 p00 p01 p10 p11 L ddt dd s0 s1,
  0 < dd -> 0 <= ddt -> 0 < 1 + zl -> 0 <= j0 -> 0 <= j1 -> 0 <= s0 -> 0 <= s1 ->
  exists ds w',
    call (Kin.G C p00 p01 p10 p11 L) 200 (CFun src_KinLikelihood_log_likelihood) (Some (kin_obj zl v0 v1 j0 j1 m00 m01 m10 m11 q00 q01 q10 q11 true))
         [Kin.num ddt; Kin.num dd] [("kin_scaling", vec [s0; s1])] (World (fun _ => 0) 0 [] ds []) =
    Ok (Kin.num (- (delta C zl v0 v1 j0 j1 ddt dd s0 s1 false * (p00 * delta C zl v0 v1 j0 j1 ddt dd s0 s1 false + p01 * delta C zl v0 v1 j0 j1 ddt dd s0 s1 true)
              + delta C zl v0 v1 j0 j1 ddt dd s0 s1 true * (p10 * delta C zl v0 v1 j0 j1 ddt dd s0 s1 false + p11 * delta C zl v0 v1 j0 j1 ddt dd s0 s1 true)) / 2
            - (2 * ln (2 * PI) + L) / 2), w')
    /\ decs w' = [] /\ olog w' = [("inv", [mat (Cov C zl m00 m01 m10 m11 q00 q01 q10 q11 ddt dd s0 s1)])] /\ holds (pc w').
Proof. exact kin_loglike_n2. Qed.

(* the lens-level report for sharp hyper-parameters (two draws): per draw the prediction is made at the DISPLACED distances with the scaling
   of the drawn parameters; the report is the per-draw mean (= the single-draw prediction) plus numpy.cov of the per-draw predictions *)
Theorem C14_measured_vs_predict : forall ddt dd lam gpp kap ddt_ dd_ p0 p1 c00 c01 c10 c11 v0 v1 m00 m01 m10 m11 k00 k01 k10 k11 (ks klos : val) rg cu,
  exists log,
  yields (Gl ddt dd lam gpp kap ddt_ dd_ p0 p1 c00 c01 c10 c11 v0 v1 m00 m01 m10 m11 k00 k01 k10 k11 ks) 100 (CFun src_LensLikelihood_sigma_v_measured_vs_predict) (Some (lens "IFUKinCov"))
    [cosmo0] [("kwargs_lens", dict [("lambda_mst", Kin.num 1)]); ("kwargs_kin", dict [("a_ani", Kin.num 2); ("sigma_v_sys_error", Kin.num 7)]); ("kwargs_los", klos)] rg cu
    (VTuple [vec [v0; v1]; mat [[m00; m01]; [m10; m11]]; vec [mean2 p0; mean2 p1];
             VArr [VList [Kin.num (mean2 c00 + k00); Kin.num (mean2 c01 + k01)]; VList [Kin.num (mean2 c10 + k10); Kin.num (mean2 c11 + k11)]]]) cu log
  /\ rev log = ([("distances", [cosmo0]); ("measurement", [Kin.num 7])] ++ one_draw ddt dd lam gpp kap ddt_ dd_ ks klos ++ one_draw ddt dd lam gpp kap ddt_ dd_ ks klos ++
                [("np.cov", [VArr [VList [Kin.num p0; Kin.num p0]; VList [Kin.num p1; Kin.num p1]]])])%list.
Proof. exact measured_vs_predict. Qed.
Print Assumptions C14_measured_vs_predict.
Theorem C14_mean_of_identical_draws : forall x, mean2 x = x.
Proof. exact mean2_id. Qed.
(* model Ddt / Dd: mean and spread of the DISPLACED distances over the draws: for sharp parameters the displaced distances and zero *)
Theorem C14_model_prediction : forall ddt dd lam gpp kap ddt_ dd_ p0 p1 c00 c01 c10 c11 v0 v1 m00 m01 m10 m11 k00 k01 k10 k11 (ks klos : val) rg cu,
  exists log,
  yields (Gl ddt dd lam gpp kap ddt_ dd_ p0 p1 c00 c01 c10 c11 v0 v1 m00 m01 m10 m11 k00 k01 k10 k11 ks) 100 (CFun src_LensLikelihood_ddt_dd_model_prediction) (Some (lens "DdtGaussian"))
    [cosmo0] [("kwargs_lens", dict [("lambda_mst", Kin.num 1)]); ("kwargs_los", klos)] rg cu
    (VTuple [Kin.num ((ddt_ + (ddt_ + 0)) / 2); Kin.num (std2 ddt_ ddt_); Kin.num ((dd_ + (dd_ + 0)) / 2); Kin.num (std2 dd_ dd_)]) cu log
  /\ rev log = [("distances", [cosmo0]);
                ("draw_lens", [Kin.num 1]); ("draw_los", [klos]); ("displace", [Kin.num ddt; Kin.num dd; Kin.num gpp; Kin.num lam; Kin.num kap]);
                ("draw_lens", [Kin.num 1]); ("draw_los", [klos]); ("displace", [Kin.num ddt; Kin.num dd; Kin.num gpp; Kin.num lam; Kin.num kap])].
Proof. exact model_prediction. Qed.
Theorem C14_zero_spread : forall a, std2 a a = 0 /\ (a + (a + 0)) / 2 = a.
Proof. intros a. split; [apply std2_same | field]. Qed.

(* reduced chi^2 = -2 lnL / N_data of the sample likelihood that the constructor builds with normalized=False and the global model settings *)
Theorem C14_chi2 : forall Ls (N : Z) (c kl kk ks kls : val) rg cu, IZR N <> 0 ->
  yields (Gg Ls N) 60 (CFun src_GoodnessOfFit_reduced_chi2) (Some (VObj "GoodnessOfFit" [("_sample_likelihood", VObj "LensSampleLikelihood" [])])) [c; kl; kk; ks; kls] [] rg cu
    (Kin.num (- Ls * 2 / IZR N)) cu [("log_likelihood", [c; kl; kk; ks; kls; VBool false])].
Proof. exact reduced_chi2_formula. Qed.
Theorem C14_chi2_uses_unnormalised_likelihood : forall Ls (N : Z) (ll km : val) rg cu,
  yields (Gg Ls N) 60 (CClass "GoodnessOfFit" src_GoodnessOfFit_init) None [ll; km] [] rg cu
    (VObj "GoodnessOfFit" [("_kwargs_likelihood_list", ll);
                           ("_sample_likelihood", VObj "LensSampleLikelihood" [("<positional>", ll); ("normalized", VBool false); ("kwargs_global_model", km)])]) cu [].
Proof. exact gof_ctor. Qed.
Theorem C14_chi2_zero_at_perfect_fit : (forall mu sg, sg <> 0 -> - (mu - mu) ^ 2 / sg ^ 2 / 2 = 0) /\
  (forall p00 p01 p10 p11, - (0 * (p00 * 0 + p01 * 0) + 0 * (p10 * 0 + p11 * 0)) / 2 = 0).
Proof. split; [exact gauss_chi2_zero | exact quad_chi2_zero]. Qed.

(* the joint types report what their parts report: DdtGaussKin / DdtHistKin hand (ddt, dd, kin_scaling) and the systematic arguments (by
   keyword) to their kinematic part and return its answer unchanged; their Ddt measurement is the Ddt part's (r: arbitrary answer) *)
Require Import C14.Joint.
Theorem C14_joint_types_report_their_parts : forall (r ddt dd ks e o : val) rg cu,
  yields (Gj r) 50 (CFun src_DdtGaussKinLikelihood_sigma_v_prediction) (Some gauss_kin) [ddt; dd] [("kin_scaling", ks)] rg cu r cu [("kin.sigma_v_prediction", [ddt; dd; ks])]
  /\ yields (Gj r) 50 (CFun src_DdtGaussKinLikelihood_sigma_v_measurement) (Some gauss_kin) [] [("sigma_v_sys_error", e); ("sigma_v_sys_offset", o)] rg cu r cu
       [("kin.sigma_v_measurement", [e; o])]
  /\ yields (Gj r) 50 (CFun src_DdtGaussKinLikelihood_ddt_measurement) (Some gauss_kin) [] [] rg cu r cu [("DdtGaussianLikelihood.ddt_measurement", [])]
  /\ yields (Gj r) 50 (CFun src_DdtHistKinLikelihood_sigma_v_prediction) (Some hist_kin) [ddt; dd] [("kin_scaling", ks)] rg cu r cu [("kin.sigma_v_prediction", [ddt; dd; ks])]
  /\ yields (Gj r) 50 (CFun src_DdtHistKinLikelihood_sigma_v_measurement) (Some hist_kin) [] [("sigma_v_sys_error", e); ("sigma_v_sys_offset", o)] rg cu r cu
       [("kin.sigma_v_measurement", [e; o])]
  /\ yields (Gj r) 50 (CFun src_DdtHistKinLikelihood_ddt_measurement) (Some hist_kin) [] [] rg cu r cu [("DdtHistKDELikelihood.ddt_measurement", [])].
Proof. intros. repeat split; [apply gauss_kin_prediction | apply gauss_kin_measurement | apply gauss_kin_ddt | apply hist_kin_prediction | apply hist_kin_measurement | apply hist_kin_ddt]. Qed.
Print Assumptions C14_joint_types_report_their_parts.
