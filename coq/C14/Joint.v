(* C14 — the joint types (DdtGaussKin, DdtHistKin) REPORT what their parts report: the kinematic measurement / prediction of the kinematic
   part (same distances, same scaling, same systematic arguments, by keyword) and the Ddt measurement of the Ddt part. Source = C14.Src. *)
From Coq Require Import Reals ZArith String List Bool Lra.
Require Import Py.PyAst Py.PyVal Py.PySem Py.XLemmas Py.Unfold Py.Tactics.
Require Import C14.Src.
Import ListNotations.
Open Scope string_scope.

Section Joint.
Variable r : val.        (* whatever the part returns: arbitrary *)
Definition part (tag : string) : callee :=
  COracle (fun args kws w => Ok (r, World (rng w) (cur w) ((tag, tl args ++ map snd kws)%list :: olog w) (decs w) (pc w))).
Definition Gj : fenv :=
  FEnv (fun cls m =>
          if String.eqb cls "KinLikelihood" then
            (if String.eqb m "sigma_v_prediction" then Some (part "kin.sigma_v_prediction")
             else if String.eqb m "sigma_v_measurement" then Some (part "kin.sigma_v_measurement") else None)
          else if String.eqb m "ddt_measurement" then Some (part (cls ++ ".ddt_measurement")) else None)
       (fun _ => None).
Definition gauss_kin := VObj "DdtGaussKinLikelihood" [("_ddt_gauss_likelihood", VObj "DdtGaussianLikelihood" []); ("_kinlikelihood", VObj "KinLikelihood" [])].
Definition hist_kin := VObj "DdtHistKinLikelihood" [("_tdLikelihood", VObj "DdtHistKDELikelihood" []); ("_kinlikelihood", VObj "KinLikelihood" [])].

Theorem gauss_kin_prediction ddt dd ks rg cu :
  yields Gj 50 (CFun src_DdtGaussKinLikelihood_sigma_v_prediction) (Some gauss_kin) [ddt; dd] [("kin_scaling", ks)] rg cu r cu [("kin.sigma_v_prediction", [ddt; dd; ks])].
Proof. yields_auto. Qed.
Theorem gauss_kin_measurement e o rg cu :
  yields Gj 50 (CFun src_DdtGaussKinLikelihood_sigma_v_measurement) (Some gauss_kin) [] [("sigma_v_sys_error", e); ("sigma_v_sys_offset", o)] rg cu r cu
    [("kin.sigma_v_measurement", [e; o])].
Proof. yields_auto. Qed.
Theorem gauss_kin_ddt rg cu :
  yields Gj 50 (CFun src_DdtGaussKinLikelihood_ddt_measurement) (Some gauss_kin) [] [] rg cu r cu [("DdtGaussianLikelihood.ddt_measurement", [])].
Proof. yields_auto. Qed.
Theorem hist_kin_prediction ddt dd ks rg cu :
  yields Gj 50 (CFun src_DdtHistKinLikelihood_sigma_v_prediction) (Some hist_kin) [ddt; dd] [("kin_scaling", ks)] rg cu r cu [("kin.sigma_v_prediction", [ddt; dd; ks])].
Proof. yields_auto. Qed.
Theorem hist_kin_measurement e o rg cu :
  yields Gj 50 (CFun src_DdtHistKinLikelihood_sigma_v_measurement) (Some hist_kin) [] [("sigma_v_sys_error", e); ("sigma_v_sys_offset", o)] rg cu r cu
    [("kin.sigma_v_measurement", [e; o])].
Proof. yields_auto. Qed.
Theorem hist_kin_ddt rg cu :
  yields Gj 50 (CFun src_DdtHistKinLikelihood_ddt_measurement) (Some hist_kin) [] [] rg cu r cu [("DdtHistKDELikelihood.ddt_measurement", [])].
Proof. yields_auto. Qed.
End Joint.
