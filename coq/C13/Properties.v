(* C13 — property theorems only. Source = C13.Src, regenerated from /repo on this run. *)
From Coq Require Import Reals ZArith String List Bool Lra.
Require Import Py.PyAst Py.PyVal Py.PySem Py.XLemmas Py.Tactics.
Require Import C13.Src C13.Model.
Import ListNotations.
Open Scope string_scope.
Open Scope R_scope.

(* rescaling the chain to the unit cube: each column becomes (x - min)/(max - min), ranges stored as [max, min] under the column's name,
   the flag is set; two columns of different lengths, all entries symbolic *)
Theorem C13_to_unity : forall a0 a1 a2 b0 b1 rg cu, amax a0 a1 a2 - amin a0 a1 a2 <> 0 -> bmax b0 b1 - bmin b0 b1 <> 0 ->
  yields_f (run_method G0 60 src_Chain_rescale_to_unity (raw a0 a1 a2 b0 b1) vfalse) rg cu (scaled a0 a1 a2 b0 b1) cu [].
Proof. exact to_unity_spec. Qed.
Print Assumptions C13_to_unity.
(* ... and back restores the original samples exactly (in the reals) and clears the flag *)
Theorem C13_from_unity_restores : forall a0 a1 a2 b0 b1 rg cu, amax a0 a1 a2 - amin a0 a1 a2 <> 0 -> bmax b0 b1 - bmin b0 b1 <> 0 ->
  yields_f (run_method G0 60 src_Chain_rescale_from_unity (scaled a0 a1 a2 b0 b1) vfalse) rg cu (back a0 a1 a2 b0 b1) cu [].
Proof. exact from_unity_spec. Qed.
Print Assumptions C13_from_unity_restores.
Example C13_back_has_original_samples : forall a0 a1 a2 b0 b1,
  field_get "params" (match back a0 a1 a2 b0 b1 with VObj _ fs => fs | _ => [] end) = field_get "params" (match raw a0 a1 a2 b0 b1 with VObj _ fs => fs | _ => [] end).
Proof. reflexivity. Qed.
(* a second rescaling in the same direction is refused (RuntimeError) for ANY chain content, before anything is evaluated *)
Theorem C13_double_to_unity_refused : forall params dic' w,
  run_method G0 60 src_Chain_rescale_to_unity (chain_obj params (VDict ((VStr "rescaled", VBool true) :: dic'))) vfalse w = Exc "RuntimeError".
Proof. exact to_unity_twice_refused. Qed.
Theorem C13_from_unity_unrescaled_refused : forall params dic' w,
  run_method G0 60 src_Chain_rescale_from_unity (chain_obj params (VDict ((VStr "rescaled", VBool false) :: dic'))) vfalse w = Exc "RuntimeError".
Proof. exact from_unity_unrescaled_refused. Qed.
(* the constructor starts from {"rescaled": False} and rescales exactly when asked to *)
Theorem C13_ctor_rescales : forall p wts rg cu,
  exists o, yields Gc 60 (CClass "Chain" src_Chain_init) None [VStr "base"; VStr "probe"; p; wts; VStr "FLCDM"] [] rg cu o cu
    [("rescale_to_unity", [VObj "Chain" [("kw", VStr "base"); ("probe", VStr "probe"); ("params", p); ("weights", VDict [(VStr "default", wts)]); ("cosmology", VStr "FLCDM");
                                         ("loglsamples", VNone); ("rescale", VBool true); ("rescale_dic", VDict [(VStr "rescaled", VBool false)])]])].
Proof. exact ctor_rescales. Qed.
Theorem C13_list_params : forall a0 b0 b1 rg cu,
  yields G0 60 (CFun src_Chain_list_params) (Some (chain_obj (dict [("om", arr1 [b0; b1]); ("mnu", VList []); ("h0", arr1 [a0])]) (dict []))) [] [] rg cu
    (VList [VStr "om"; VStr "h0"]) cu [].
Proof. exact list_params_order. Qed.

(* the vector helpers use the range stored under keys[i] for component i (keys in an order that differs from the dictionary's) *)
Theorem C13_vector_to_unity : forall x0 x1 x2 M0 m0 M1 m1 M2 m2 rg cu, M0 - m0 <> 0 -> M1 - m1 <> 0 -> M2 - m2 <> 0 ->
  yields G0 60 (CFun src_fn_rescale_vector_to_unity) None [VArr [VList [num x0; num x1; num x2]]; ranges M0 m0 M1 m1 M2 m2; keys] [] rg cu
    (VArr [VList [num ((x0 - m1) / (M1 - m1)); num ((x1 - m2) / (M2 - m2)); num ((x2 - m0) / (M0 - m0))]]) cu [].
Proof. exact vector_to_unity. Qed.
Theorem C13_vector_from_unity : forall x0 x1 x2 M0 m0 M1 m1 M2 m2 rg cu,
  yields G0 60 (CFun src_fn_rescale_vector_from_unity) None [VArr [VList [num x0; num x1; num x2]]; ranges M0 m0 M1 m1 M2 m2; keys] [] rg cu
    (VArr [VList [num ((M1 - m1) * x0 + m1); num ((M2 - m2) * x1 + m2); num ((M0 - m0) * x2 + m0)]]) cu [].
Proof. exact vector_from_unity. Qed.
Theorem C13_vector_inverse : forall x M m, M - m <> 0 -> (M - m) * ((x - m) / (M - m)) + m = x /\ ((M - m) * x + m - m) / (M - m) = x.
Proof. intros x M m H. split; [apply unit_inverse | apply unit_inverse']; assumption. Qed.

(* the chain-KDE term: evaluated once, at the sampled point mapped with the CHAIN'S OWN ranges, components in the order of the chain's
   parameter list (both orders) — so listing the chain's parameters in another order permutes columns and point alike *)
Theorem C13_eval_point_om_h0 : forall Ls Kd M0 m0 M1 m1 h om rg cu, 0 <= h <= 150 -> 0 <= om <= 1 -> M0 - m0 <> 0 -> M1 - m1 <> 0 ->
  yields (Gk Ls Kd h om) 100 (CFun src_CosmoLikelihood_likelihood) (Some (cl_obj M0 m0 M1 m1 ["om"; "h0"])) [VList [num h; num om]] [] rg cu
    (num (Ls + Kd)) cu [("kde", [VArr [VList [num ((om - m1) / (M1 - m1)); num ((h - m0) / (M0 - m0))]]])].
Proof. exact kde_eval_point_om_h0. Qed.
Print Assumptions C13_eval_point_om_h0.
Theorem C13_eval_point_h0_om : forall Ls Kd M0 m0 M1 m1 h om rg cu, 0 <= h <= 150 -> 0 <= om <= 1 -> M0 - m0 <> 0 -> M1 - m1 <> 0 ->
  yields (Gk Ls Kd h om) 100 (CFun src_CosmoLikelihood_likelihood) (Some (cl_obj M0 m0 M1 m1 ["h0"; "om"])) [VList [num h; num om]] [] rg cu
    (num (Ls + Kd)) cu [("kde", [VArr [VList [num ((h - m0) / (M0 - m0)); num ((om - m1) / (M1 - m1))]]])].
Proof. exact kde_eval_point_h0_om. Qed.

(* affine change of units of a chain column (a > 0) with the evaluation point changed accordingly: the unit-cube column and the unit-cube
   point are unchanged, for columns of ANY length — hence so is the KDE term *)
Theorem C13_affine_column : forall a b x l, 0 < a -> lmax x l - lmin x l <> 0 ->
  unit_col (a * x + b) (map (fun v => a * v + b) l) = unit_col x l.
Proof. exact unit_col_affine. Qed.
Theorem C13_affine_point : forall x M m a b, a <> 0 -> M - m <> 0 -> ((a * x + b) - (a * m + b)) / ((a * M + b) - (a * m + b)) = (x - m) / (M - m).
Proof. exact unit_affine. Qed.
Theorem C13_roundtrip_any_length : forall x l, lmax x l - lmin x l <> 0 -> from_unit_col (lmax x l) (lmin x l) (unit_col x l) = x :: l.
Proof. exact unit_col_roundtrip. Qed.
Example C13_unit_col_is_what_the_source_computes : forall a0 a1 a2, unit_col a0 [a1; a2] = map (unit_a a0 a1 a2) [a0; a1; a2].
Proof. reflexivity. Qed.

(* Planck-format import: the table "pattern found in a .paramnames line -> parameters that read column (line index + 2)" extracted from the
   serialised elif chain is the documented one; parameter p is read from column params_index[p], weights from column 0, log-likelihoods from column 1 *)
Theorem C13_planck_columns : planck_table = Some planck_expected.
Proof. exact planck_table_ok. Qed.
Theorem C13_planck_weights_loglike : reads 30 (f_body src_fn_import_Planck_chain) =
  [("params_values", ESub (EName "params_index") (EName "p")); ("default_weights", EInt 0); ("logl_samples", EInt 1)].
Proof. exact planck_reads_ok. Qed.

(* known finding: a constant column (max = min) is turned into NaN, so the round trip is lost for it *)
Theorem C13_constant_column_refuted : forall c rg cu,
  yields_f (run_method G0 60 src_Chain_rescale_to_unity (chain_obj (dict [("h0", arr1 [c; c])]) (dict [("rescaled", VBool false)])) vfalse) rg cu
    (chain_obj (dict [("h0", VArr [VNum NaN; VNum NaN])]) (dict [("rescaled", VBool true); ("h0", VList [num (Rmax c c); num (Rmin c c)])])) cu [].
Proof. exact constant_column_nan. Qed.
