(* C13 — external-chain prior: unit-cube rescaling invertible, KDE term evaluated at the chain's own ranges and order. Source = C13.Src. *)
From Coq Require Import Reals ZArith String List Bool Lra Lia.
Require Import Py.PyAst Py.PyVal Py.PySem Py.XLemmas Py.Unfold Py.Tactics.
Require Import C13.Src.
Import ListNotations.
Open Scope string_scope.
Fixpoint assoc {A} (k : string) (l : list (string * A)) : option A :=
  match l with [] => None | (k', v) :: t => if String.eqb k k' then Some v else assoc k t end.
Definition num (r : R) := VNum (Fin r).
Definition arr1 (l : list R) : val := VArr (map num l).
Definition dict (l : list (string * val)) := VDict (map (fun kv => (VStr (fst kv), snd kv)) l).
Definition G0 : fenv := FEnv (fun _ _ => None) (fun _ => None).
Definition chain_obj (params dic : val) : val := VObj "Chain" [("params", params); ("rescale_dic", dic)].
Open Scope R_scope.

(* ------------------------------------------------------------------------------------------- *)
(* 1. the chain's own rescaling, on a chain with two parameters (3 and 2 samples, all symbolic)   *)
Section Chain.
Variables a0 a1 a2 b0 b1 : R.
Definition amax := Rmax (Rmax a0 a1) a2.  Definition amin := Rmin (Rmin a0 a1) a2.
Definition bmax := Rmax b0 b1.            Definition bmin := Rmin b0 b1.
Definition raw := chain_obj (dict [("h0", arr1 [a0; a1; a2]); ("om", arr1 [b0; b1])]) (dict [("rescaled", VBool false)]).
Definition unit_a x := (x - amin) / (amax - amin).
Definition unit_b x := (x - bmin) / (bmax - bmin).
Definition scaled := chain_obj (dict [("h0", arr1 [unit_a a0; unit_a a1; unit_a a2]); ("om", arr1 [unit_b b0; unit_b b1])])
                               (dict [("rescaled", VBool true); ("h0", VList [num amax; num amin]); ("om", VList [num bmax; num bmin])]).
Definition back := chain_obj (dict [("h0", arr1 [a0; a1; a2]); ("om", arr1 [b0; b1])])
                             (dict [("rescaled", VBool false); ("h0", VList [num amax; num amin]); ("om", VList [num bmax; num bmin])]).
Definition vfalse : env := [("verbose", VBool false)].

(* to the unit cube: every column becomes (x - min)/(max - min), the ranges are stored as [max, min] under the column's name *)
Theorem to_unity_spec rg cu : amax - amin <> 0 -> bmax - bmin <> 0 ->
  yields_f (run_method G0 60 src_Chain_rescale_to_unity raw vfalse) rg cu scaled cu [].
Proof.
  intros Ha Hb. unfold raw, scaled, unit_a, unit_b, amax, amin, bmax, bmin in *.
  yields_f_with real_fact ltac:(val_eq).
Qed.
(* and back: (max - min) * u + min with the STORED ranges; composed with the above this is the identity on the samples *)
Theorem from_unity_spec rg cu : amax - amin <> 0 -> bmax - bmin <> 0 ->
  yields_f (run_method G0 60 src_Chain_rescale_from_unity scaled vfalse) rg cu back cu [].
Proof.
  intros Ha Hb. unfold back, scaled, unit_a, unit_b in *.
  yields_f_with real_fact ltac:(val_eq).
Qed.
(* a second rescaling in the same direction is refused, whatever the data, and nothing is evaluated *)
Theorem to_unity_twice_refused params dic' w :
  run_method G0 60 src_Chain_rescale_to_unity (chain_obj params (VDict ((VStr "rescaled", VBool true) :: dic'))) vfalse w = Exc "RuntimeError".
Proof. reflexivity. Qed.
Theorem from_unity_unrescaled_refused params dic' w :
  run_method G0 60 src_Chain_rescale_from_unity (chain_obj params (VDict ((VStr "rescaled", VBool false) :: dic'))) vfalse w = Exc "RuntimeError".
Proof. reflexivity. Qed.
(* list_params: the non-empty columns in the dictionary's own order *)
Theorem list_params_order rg cu :
  yields G0 60 (CFun src_Chain_list_params) (Some (chain_obj (dict [("om", arr1 [b0; b1]); ("mnu", VList []); ("h0", arr1 [a0])]) (dict []))) [] [] rg cu
    (VList [VStr "om"; VStr "h0"]) cu [].
Proof. yields_auto. Qed.
End Chain.

(* the constructor rescales exactly when asked to, starting from an un-rescaled record *)
Section Ctor.
Definition log_call (tag : string) : callee :=
  COracle (fun args kws w => Ok (VNone, World (rng w) (cur w) ((tag, args) :: olog w) (decs w) (pc w))).
Definition Gc : fenv := FEnv (fun cls m => if String.eqb m "rescale_to_unity" then Some (log_call "rescale_to_unity") else None) (fun _ => None).
Theorem ctor_rescales p wts rg cu :
  exists o, yields Gc 60 (CClass "Chain" src_Chain_init) None [VStr "base"; VStr "probe"; p; wts; VStr "FLCDM"] [] rg cu o cu
    [("rescale_to_unity", [VObj "Chain" [("kw", VStr "base"); ("probe", VStr "probe"); ("params", p); ("weights", VDict [(VStr "default", wts)]); ("cosmology", VStr "FLCDM");
                                         ("loglsamples", VNone); ("rescale", VBool true); ("rescale_dic", VDict [(VStr "rescaled", VBool false)])]])].
Proof. eexists. yields_auto. Qed.
Theorem ctor_no_rescale p wts rg cu :
  exists o, yields Gc 60 (CClass "Chain" src_Chain_init) None [VStr "base"; VStr "probe"; p; wts; VStr "FLCDM"] [("rescale", VBool false)] rg cu o cu [].
Proof. eexists. yields_auto. Qed.
End Ctor.

(* ------------------------------------------------------------------------------------------- *)
(* 2. the vector helpers: column i is rescaled with the range stored under keys[i]               *)
Section Vec.
Variables x0 x1 x2 M0 m0 M1 m1 M2 m2 : R.
Definition ranges := dict [("rescaled", VBool true); ("h0", VList [num M0; num m0]); ("om", VList [num M1; num m1]); ("w0", VList [num M2; num m2])].
Definition keys := VList [VStr "om"; VStr "w0"; VStr "h0"].       (* deliberately not the dictionary's order *)
Theorem vector_to_unity rg cu : M0 - m0 <> 0 -> M1 - m1 <> 0 -> M2 - m2 <> 0 ->
  yields G0 60 (CFun src_fn_rescale_vector_to_unity) None [VArr [VList [num x0; num x1; num x2]]; ranges; keys] [] rg cu
    (VArr [VList [num ((x0 - m1) / (M1 - m1)); num ((x1 - m2) / (M2 - m2)); num ((x2 - m0) / (M0 - m0))]]) cu [].
Proof. intros. yields_with real_fact ltac:(val_eq). Qed.
Theorem vector_from_unity rg cu :
  yields G0 60 (CFun src_fn_rescale_vector_from_unity) None [VArr [VList [num x0; num x1; num x2]]; ranges; keys] [] rg cu
    (VArr [VList [num ((M1 - m1) * x0 + m1); num ((M2 - m2) * x1 + m2); num ((M0 - m0) * x2 + m0)]]) cu [].
Proof. yields_with real_fact ltac:(val_eq). Qed.
(* mutual inverses, at the level of the formulas the two theorems above establish *)
Lemma unit_inverse x M m : M - m <> 0 -> (M - m) * ((x - m) / (M - m)) + m = x.
Proof. intros; field; assumption. Qed.
Lemma unit_inverse' u M m : M - m <> 0 -> ((M - m) * u + m - m) / (M - m) = u.
Proof. intros; field; assumption. Qed.
(* affine change of units of a column: the unit-cube image of a*x+b under the range (a*M+b, a*m+b) is that of x under (M, m) *)
Lemma unit_affine x M m a b : a <> 0 -> M - m <> 0 -> ((a * x + b) - (a * m + b)) / ((a * M + b) - (a * m + b)) = (x - m) / (M - m).
Proof. intros; field; split; [assumption | nra]. Qed.
Lemma Rmax_affine a b x y : 0 < a -> Rmax (a * x + b) (a * y + b) = a * Rmax x y + b.
Proof. intros Ha. unfold Rmax. destruct (Rle_dec x y), (Rle_dec (a * x + b) (a * y + b)); try reflexivity; exfalso; nra. Qed.
Lemma Rmin_affine a b x y : 0 < a -> Rmin (a * x + b) (a * y + b) = a * Rmin x y + b.
Proof. intros Ha. unfold Rmin. destruct (Rle_dec x y), (Rle_dec (a * x + b) (a * y + b)); try reflexivity; exfalso; nra. Qed.
End Vec.

(* ------------------------------------------------------------------------------------------- *)
(* 3. the chain-KDE term of the cosmological likelihood: evaluated at the sampled point mapped with the chain's own ranges,
      components in the order of the chain's parameter list                                                         *)
Section Kde.
Variables (Ls Kd : R) (M0 m0 M1 m1 : R).
Definition comp (tag : string) (v : val) : callee :=
  COracle (fun args kws w => Ok (v, World (rng w) (cur w) ((tag, tl args ++ map snd kws)%list :: olog w) (decs w) (pc w))).
Definition ttab (h om : R) : list (string * list (string * callee)) :=
  [("ParamManager", [("args2kwargs", COracle (fun args kws w => Ok (VTuple [dict [("h0", num h); ("om", num om)]; VNone; VNone; dict []; VNone], w)))]);
   ("LensSampleLikelihood", [("log_likelihood", COracle (fun _ _ w => Ok (num Ls, w)))]);
   ("KDELikelihood", [("kdelikelihood_samples", comp "kde" (VList [num Kd]))]);
   ("CosmoLikelihood", [("cosmo_instance", COracle (fun args kws w => Ok (VObj "Cosmo" [], w)))])].
Definition Gk h om : fenv := FEnv (fun cls m => match assoc cls (ttab h om) with Some t => assoc m t | None => None end)
  (fun n => if String.eqb n "rescale_vector_to_unity" then Some (CFun src_fn_rescale_vector_to_unity) else None).
Definition cl_obj (order : list string) := VObj "CosmoLikelihood"
  [("_lower_limit", VList [num 0; num 0]); ("_upper_limit", VList [num 150; num 1]); ("param", VObj "ParamManager" []); ("_cosmology", VStr "FLCDM");
   ("_likelihoodLensSample", VObj "LensSampleLikelihood" []); ("_sne_evaluate", VBool false);
   ("_kde_evaluate", VBool true);
   ("_kde_likelihood", VObj "KDELikelihood" [("chain", VObj "Chain" [("rescale_dic", dict [("rescaled", VBool true); ("h0", VList [num M0; num m0]); ("om", VList [num M1; num m1])])])]);
   ("_chain_params", VList (map VStr order)); ("_prior_add", VBool false)].
Theorem kde_eval_point_om_h0 (h om : R) rg cu : 0 <= h <= 150 -> 0 <= om <= 1 -> M0 - m0 <> 0 -> M1 - m1 <> 0 ->
  yields (Gk h om) 100 (CFun src_CosmoLikelihood_likelihood) (Some (cl_obj ["om"; "h0"])) [VList [num h; num om]] [] rg cu
    (num (Ls + Kd)) cu [("kde", [VArr [VList [num ((om - m1) / (M1 - m1)); num ((h - m0) / (M0 - m0))]]])].
Proof. intros. yields_with real_fact ltac:(val_eq). Qed.
Theorem kde_eval_point_h0_om (h om : R) rg cu : 0 <= h <= 150 -> 0 <= om <= 1 -> M0 - m0 <> 0 -> M1 - m1 <> 0 ->
  yields (Gk h om) 100 (CFun src_CosmoLikelihood_likelihood) (Some (cl_obj ["h0"; "om"])) [VList [num h; num om]] [] rg cu
    (num (Ls + Kd)) cu [("kde", [VArr [VList [num ((h - m0) / (M0 - m0)); num ((om - m1) / (M1 - m1))]]])].
Proof. intros. yields_with real_fact ltac:(val_eq). Qed.
End Kde.

(* ------------------------------------------------------------------------------------------- *)
(* 4. affine change of units of a column, for columns of ANY length (reference level)            *)
Section Affine.
Open Scope R_scope.
Fixpoint lmax (x : R) (l : list R) : R := match l with [] => x | y :: r => lmax (Rmax x y) r end.   (* np.max as the interpreter folds it *)
Fixpoint lmin (x : R) (l : list R) : R := match l with [] => x | y :: r => lmin (Rmin x y) r end.
Definition unit_col (x : R) (l : list R) : list R := map (fun v => (v - lmin x l) / (lmax x l - lmin x l)) (x :: l).
Definition from_unit_col (M m : R) (u : list R) : list R := map (fun v => (M - m) * v + m) u.
Lemma lmax_affine a b l : 0 < a -> forall x, lmax (a * x + b) (map (fun v => a * v + b) l) = a * lmax x l + b.
Proof. intros Ha. induction l as [|y r IH]; intros x; [reflexivity|]. cbn [map lmax]. rewrite Rmax_affine by assumption. apply IH. Qed.
Lemma lmin_affine a b l : 0 < a -> forall x, lmin (a * x + b) (map (fun v => a * v + b) l) = a * lmin x l + b.
Proof. intros Ha. induction l as [|y r IH]; intros x; [reflexivity|]. cbn [map lmin]. rewrite Rmin_affine by assumption. apply IH. Qed.
Theorem unit_col_affine a b x l : 0 < a -> lmax x l - lmin x l <> 0 ->
  unit_col (a * x + b) (map (fun v => a * v + b) l) = unit_col x l.
Proof.
  intros Ha Hd. unfold unit_col. rewrite lmax_affine, lmin_affine by assumption.
  change ((a * x + b) :: map (fun v => a * v + b) l) with (map (fun v => a * v + b) (x :: l)). rewrite map_map.
  apply map_ext. intros v. field. split; [assumption | nra].
Qed.
Theorem unit_col_roundtrip x l : lmax x l - lmin x l <> 0 -> from_unit_col (lmax x l) (lmin x l) (unit_col x l) = x :: l.
Proof.
  intros Hd. unfold from_unit_col, unit_col. rewrite map_map. rewrite <- (map_id (x :: l)) at 2. apply map_ext. intros v. field. assumption.
Qed.
End Affine.

(* ------------------------------------------------------------------------------------------- *)
(* 5. Planck-format import: which column each requested parameter is read from (table extracted from the serialised source) *)
Definition tabc : string := String (Ascii.ascii_of_nat 9) "".
Definition nlc : string := String (Ascii.ascii_of_nat 10) "".
(* the elif chain of the loop over the .paramnames lines:  if "<pattern>" in line: params_index[<key>] = ind + 2 ... *)
Definition idx_assign (s : stmt) : option string :=
  match s with
  | SAssign (ESub (EName d) (EStr k)) (EBin Add (EName i) (EInt off)) =>
      if String.eqb d "params_index" && String.eqb i "ind" && (off =? 2)%Z then Some k else None
  | _ => None end.
Fixpoint all_some {A} (l : list (option A)) : option (list A) :=
  match l with [] => Some [] | Some x :: r => match all_some r with Some xs => Some (x :: xs) | None => None end | None :: _ => None end.
Fixpoint chain_table (fuel : nat) (ss : list stmt) : option (list (string * list string)) :=
  match fuel with O => None | S f =>
  match ss with
  | [] => Some []
  | [SIf (ECmp CIn (EStr pat) (EName l)) body els] =>
      if String.eqb l "line" then
        match all_some (map idx_assign body), chain_table f els with
        | Some ks, Some rest => Some ((pat, ks) :: rest)
        | _, _ => None end
      else None
  | _ => None end end.
Fixpoint find_params_loop (ss : list stmt) : option (list stmt) :=
  match ss with
  | [] => None
  | SFor (ETuple [EName i; EName l]) (ECall (EName e) [EName src] []) body :: rest =>
      if String.eqb i "ind" && String.eqb l "line" && String.eqb e "enumerate" && String.eqb src "params_all" then Some body else find_params_loop rest
  | _ :: rest => find_params_loop rest end.
Definition planck_table : option (list (string * list string)) :=
  match find_params_loop (f_body src_fn_import_Planck_chain) with Some b => chain_table 30 b | None => None end.
Definition planck_expected : list (string * list string) :=
  [("omegal*" ++ tabc ++ "\Omega_\Lambda" ++ nlc, ["ol"]);
   ("ns" ++ tabc ++ "n_s" ++ nlc, ["ns"]);
   ("H0*" ++ tabc ++ "H_0" ++ nlc, ["h0"]);
   ("omegam*" ++ tabc ++ "\Omega_m" ++ nlc, ["om"]);
   ("mnu" ++ tabc ++ "\Sigma m_\nu" ++ nlc, ["mnu"]);
   ("nnu" ++ tabc ++ "N_{eff}" ++ nlc, ["nnu"]);
   ("omegak" ++ tabc ++ "\Omega_K" ++ nlc, ["ok"]);
   ("w" ++ tabc ++ "w" ++ nlc, ["w"; "w0"]);
   ("wa" ++ tabc ++ "w_a" ++ nlc, ["wa"]);
   ("meffsterile" ++ tabc ++ "m_{\nu,{\rm{sterile}}}^{\rm{eff}}" ++ nlc, ["meffsterile"])].
Lemma planck_table_ok : planck_table = Some planck_expected.
Proof. vm_compute. reflexivity. Qed.
(* inside the per-file block: parameter p is read from column params_index[p], the weight from column 0, the log-likelihood from column 1 *)
Definition comp_col (e : expr) : option expr :=       (* [s[<c>] for s in samples]  ->  <c> *)
  match e with
  | EListComp (ESub (EName s) c) (EName s') (EName src) [] => if String.eqb s "s" && String.eqb s' "s" && String.eqb src "samples" then Some c else None
  | _ => None end.
Fixpoint reads (fuel : nat) (ss : list stmt) : list (string * expr) :=         (* (accumulator written, column expression) *)
  match fuel with O => [] | S f =>
  match ss with
  | [] => []
  | SAug Add t e :: rest =>
      (match comp_col e with
       | Some c => match t with EName x => [(x, c)] | ESub (EName x) _ => [(x, c)] | _ => [] end
       | None => [] end) ++ reads f rest
  | SWith _ _ b :: rest => reads f b ++ reads f rest
  | SFor _ _ b :: rest => reads f b ++ reads f rest
  | SIf _ a b :: rest => reads f a ++ reads f b ++ reads f rest
  | _ :: rest => reads f rest end end.
Lemma planck_reads_ok :
  reads 30 (f_body src_fn_import_Planck_chain) =
  [("params_values", ESub (EName "params_index") (EName "p")); ("default_weights", EInt 0); ("logl_samples", EInt 1)].
Proof. vm_compute. reflexivity. Qed.

(* the known finding: a constant column has max = min, the rescaling divides 0 by 0 and the column becomes NaN *)
Theorem constant_column_nan (c : R) rg cu :
  yields_f (run_method G0 60 src_Chain_rescale_to_unity (chain_obj (dict [("h0", arr1 [c; c])]) (dict [("rescaled", VBool false)])) vfalse) rg cu
    (chain_obj (dict [("h0", VArr [VNum NaN; VNum NaN])]) (dict [("rescaled", VBool true); ("h0", VList [num (Rmax c c); num (Rmin c c)])])) cu [].
Proof. yields_f_with real_fact ltac:(val_eq). Qed.
