(* C06 — property theorems only. Source = C06.Src, regenerated from /repo on this run. *)
From Coq Require Import Reals ZArith String List Bool Lra.
Require Import Py.PyAst Py.PyVal Py.PySem Py.XLemmas.
Require Import C06.Src C06.Kin C06.Model.
Import ListNotations.
Open Scope string_scope.
Open Scope R_scope.

(* scalar types: the object built by the class constructor evaluates the stated (un-normalised) density *)
Theorem C06_ddt_gauss : forall zl zs mu sg ddt dd rg cu, sg <> 0 ->
  exists o,
  yields G 60 (CClass "DdtGaussianLikelihood" src_DdtGaussianLikelihood_init) None [num zl; num zs; num mu; num sg] [] rg cu o cu []
  /\ yields G 60 (CFun src_DdtGaussianLikelihood_log_likelihood) (Some o) [num ddt; num dd] [] rg cu (num (- (ddt - mu) ^ 2 / sg ^ 2 / 2)) cu []
  /\ yields G 60 (CFun src_DdtGaussianLikelihood_ddt_measurement) (Some o) [] [] rg cu (VTuple [num mu; num sg]) cu [].
Proof. exact ddt_gauss. Qed.
Theorem C06_ddt_gauss_reference : forall x mu sg, 0 < sg -> - (x - mu) ^ 2 / sg ^ 2 / 2 = gauss_logpdf x mu sg + ln (sg * sqrt (2 * PI)).
Proof. exact ddt_gauss_is_density. Qed.
Print Assumptions C06_ddt_gauss.

Theorem C06_ddt_lognorm : forall zl zs mu sg ddt dd rg cu, sg <> 0 -> 0 < ddt ->
  exists o,
  yields G 60 (CClass "DdtLogNormLikelihood" src_DdtLogNormLikelihood_init) None [num zl; num zs; num mu; num sg] [] rg cu o cu []
  /\ yields G 60 (CFun src_DdtLogNormLikelihood_log_likelihood) (Some o) [num ddt; num dd] [] rg cu
       (num (- (5 / 10) * (ln ddt - mu) ^ 2 / sg ^ 2 - ln ddt - 5 / 10 * ln (sg ^ 2))) cu [].
Proof. exact ddt_lognorm. Qed.
Theorem C06_ddt_lognorm_reference : forall x mu sg, 0 < sg ->
  - (5 / 10) * (ln x - mu) ^ 2 / sg ^ 2 - ln x - 5 / 10 * ln (sg ^ 2) = lognorm_logpdf x mu sg + ln (sqrt (2 * PI)).
Proof. exact ddt_lognorm_is_density. Qed.

Theorem C06_ddt_dd_gauss : forall zl zs mu sg dmu dsg ddt dd s0 rg cu, sg <> 0 -> dsg <> 0 ->
  exists o,
  yields G 60 (CClass "DdtDdGaussian" src_DdtDdGaussian_init) None [num zl; num zs; num mu; num sg; num dmu; num dsg] [] rg cu o cu []
  /\ yields G 60 (CFun src_DdtDdGaussian_log_likelihood) (Some o) [num ddt; num dd] [("kin_scaling", vec [s0])] rg cu
       (num (- (ddt - mu) ^ 2 / sg ^ 2 / 2 - (dd * s0 - dmu) ^ 2 / dsg ^ 2 / 2)) cu []
  /\ yields G 60 (CFun src_DdtDdGaussian_log_likelihood) (Some o) [num ddt; num dd] [] rg cu
       (num (- (ddt - mu) ^ 2 / sg ^ 2 / 2 - (dd - dmu) ^ 2 / dsg ^ 2 / 2)) cu [].
Proof. exact ddt_dd_gauss. Qed.

Theorem C06_ds_dds : forall zl zs mu sg ddt dd s0 rg cu, sg <> 0 -> dd <> 0 -> 1 + zl <> 0 -> s0 <> 0 ->
  exists o,
  yields G 60 (CClass "DsDdsGaussianLikelihood" src_DsDdsGaussianLikelihood_init) None [num zl; num zs; num mu; num sg] [] rg cu o cu []
  /\ yields G 60 (CFun src_DsDdsGaussianLikelihood_log_likelihood) (Some o) [num ddt; num dd] [("kin_scaling", vec [s0])] rg cu
       (num (- (ddt / dd / (1 + zl) / s0 - mu) ^ 2 / sg ^ 2 / 2)) cu []
  /\ yields G 60 (CFun src_DsDdsGaussianLikelihood_log_likelihood) (Some o) [num ddt; num dd] [] rg cu
       (num (- (ddt / dd / (1 + zl) / 1 - mu) ^ 2 / sg ^ 2 / 2)) cu [].
Proof. exact ds_dds_gauss. Qed.

(* double source plane: the flag removes exactly ln(2 pi sigma^2)/2 *)
Theorem C06_dspl : forall (normalized : bool) b sg beta gam lam rg cu, sg <> 0 -> gam - 1 <> 0 -> 0 < beta - (1 - lam) * (1 - beta) ->
  exists o,
  yields G 60 (CClass "DSPLikelihood" src_DSPLikelihood_init) None [num b; num sg] [("normalized", VBool normalized)] rg cu o cu []
  /\ yields G 60 (CFun src_DSPLikelihood_log_likelihood) (Some o) [] [("beta_dsp", num beta); ("gamma_pl", num gam); ("lambda_mst", num lam)] rg cu
       (num (- (5 / 10) * ((theta_ratio beta gam lam - b) / sg) ^ 2 - (if normalized then 1 / (20 / 10) * ln (2 * PI * sg ^ 2) else 0))) cu [].
Proof. exact dspl. Qed.
Print Assumptions C06_dspl.

(* IFU kinematics, two symbolic bins: mu_i = (c/1000) sqrt(J_i Ds/Dds s_i), C = M + Q_ij sqrt(s_i) sqrt(s_j) Ds/Dds (c/1000)^2,
   value = -delta^T C^-1 delta / 2 - (n ln 2pi + ln det C)/2 with (C^-1, ln det) what numpy.linalg returns *)
Theorem C06_kin_normalised : forall C zl v0 v1 j0 j1 m00 m01 m10 m11 q00 q01 q10 q11 p00 p01 p10 p11 L ddt dd s0 s1,
  0 < dd -> 0 <= ddt -> 0 < 1 + zl -> 0 <= j0 -> 0 <= j1 -> 0 <= s0 -> 0 <= s1 ->
  let d := delta C zl v0 v1 j0 j1 ddt dd s0 s1 in
  exists ds w',
    call (Kin.G C p00 p01 p10 p11 L) 200 (CFun src_KinLikelihood_log_likelihood) (Some (kin_obj zl v0 v1 j0 j1 m00 m01 m10 m11 q00 q01 q10 q11 true))
         [Kin.num ddt; Kin.num dd] [("kin_scaling", Kin.vec [s0; s1])] (World (fun _ => 0) 0 [] ds []) =
    Ok (Kin.num (- (d false * (p00 * d false + p01 * d true) + d true * (p10 * d false + p11 * d true)) / 2 - (2 * ln (2 * PI) + L) / 2), w')
    /\ decs w' = [] /\ olog w' = [("inv", [Kin.mat (Cov C zl m00 m01 m10 m11 q00 q01 q10 q11 ddt dd s0 s1)])] /\ holds (pc w').
Proof. intros. apply kin_loglike_n2; assumption. Qed.
Print Assumptions C06_kin_normalised.
Theorem C06_kin_unnormalised : forall C zl v0 v1 j0 j1 m00 m01 m10 m11 q00 q01 q10 q11 p00 p01 p10 p11 L ddt dd s0 s1,
  0 < dd -> 0 <= ddt -> 0 < 1 + zl -> 0 <= j0 -> 0 <= j1 -> 0 <= s0 -> 0 <= s1 ->
  let d := delta C zl v0 v1 j0 j1 ddt dd s0 s1 in
  exists ds w',
    call (Kin.G C p00 p01 p10 p11 L) 200 (CFun src_KinLikelihood_log_likelihood) (Some (kin_obj zl v0 v1 j0 j1 m00 m01 m10 m11 q00 q01 q10 q11 false))
         [Kin.num ddt; Kin.num dd] [("kin_scaling", Kin.vec [s0; s1])] (World (fun _ => 0) 0 [] ds []) =
    Ok (Kin.num (- (d false * (p00 * d false + p01 * d true) + d true * (p10 * d false + p11 * d true)) / 2), w')
    /\ decs w' = [] /\ olog w' = [("inv", [Kin.mat (Cov C zl m00 m01 m10 m11 q00 q01 q10 q11 ddt dd s0 s1)])] /\ holds (pc w').
Proof. intros. apply kin_loglike_n2_unnormalised; assumption. Qed.
(* the flag drops exactly -(n ln 2 pi + ln det C)/2 *)
Theorem C06_norm_flag : forall L q, (q - (2 * ln (2 * PI) + L) / 2) - q = - (2 * ln (2 * PI) + L) / 2.
Proof. exact kin_norm_difference. Qed.
(* singular covariance -> -inf, not an exception *)
Theorem C06_kin_singular : forall C zl v0 v1 j0 j1 m00 m01 m10 m11 q00 q01 q10 q11 p00 p01 p10 p11 L ddt dd s0 s1,
  0 < dd -> 0 <= ddt -> 0 < 1 + zl -> 0 <= j0 -> 0 <= j1 -> 0 <= s0 -> 0 <= s1 ->
  exists ds w',
    call (Gs C p00 p01 p10 p11 L) 200 (CFun src_KinLikelihood_log_likelihood) (Some (kin_obj zl v0 v1 j0 j1 m00 m01 m10 m11 q00 q01 q10 q11 true))
         [Kin.num ddt; Kin.num dd] [("kin_scaling", Kin.vec [s0; s1])] (World (fun _ => 0) 0 [] ds []) = Ok (VNum NegInf, w').
Proof. intros. apply kin_singular_is_neginf; assumption. Qed.
Print Assumptions C06_kin_singular.
(* optional fractional systematic error *)
Theorem C06_kin_systematic : forall C v0 v1 m00 m01 m10 m11 p00 p01 p10 p11 L eps rg cu,
  yields (Kin.G C p00 p01 p10 p11 L) 60 (CFun src_KinLikelihood_cov_error_measurement)
    (Some (VObj "KinLikelihood" [("_sigma_v_measured", Kin.vec [v0; v1]); ("_error_cov_measurement", Kin.mat [[m00; m01]; [m10; m11]]); ("_sigma_sys_error_include", VBool true)]))
    [Kin.num eps] [] rg cu
    (Kin.mat [[m00 + v0 * eps * (v0 * eps); m01 + v0 * eps * (v1 * eps)]; [m10 + v1 * eps * (v0 * eps); m11 + v1 * eps * (v1 * eps)]]) cu []
  /\ yields (Kin.G C p00 p01 p10 p11 L) 60 (CFun src_KinLikelihood_cov_error_measurement)
    (Some (VObj "KinLikelihood" [("_sigma_v_measured", Kin.vec [v0; v1]); ("_error_cov_measurement", Kin.mat [[m00; m01]; [m10; m11]]); ("_sigma_sys_error_include", VBool false)]))
    [Kin.num eps] [] rg cu (Kin.mat [[m00; m01]; [m10; m11]]) cu []
  /\ yields (Kin.G C p00 p01 p10 p11 L) 60 (CFun src_KinLikelihood_cov_error_measurement)
    (Some (VObj "KinLikelihood" [("_sigma_v_measured", Kin.vec [v0; v1]); ("_error_cov_measurement", Kin.mat [[m00; m01]; [m10; m11]]); ("_sigma_sys_error_include", VBool true)]))
    [VNone] [] rg cu (Kin.mat [[m00; m01]; [m10; m11]]) cu [].
Proof. intros. apply cov_measurement_sys. Qed.

(* joint Ddt + kinematics likelihoods: the sum of their parts, each evaluated once *)
Theorem C06_joint_sum : forall fa fb ddt dd ks sv rg cu,
  yields (Gj fa fb) 40 (CFun src_DdtGaussKinLikelihood_log_likelihood)
    (Some (VObj "DdtGaussKinLikelihood" [("_ddt_gauss_likelihood", VObj "A" []); ("_kinlikelihood", VObj "B" [])]))
    [ddt; dd] [("kin_scaling", ks); ("sigma_v_sys_error", sv)] rg cu
    (num (fa [ddt] [] + fb [ddt; dd; ks] [("sigma_v_sys_error", sv); ("sigma_v_sys_offset", VNone)])) cu
    [("kin", [ddt; dd; ks; VTuple [VStr "sigma_v_sys_error"; sv]; VTuple [VStr "sigma_v_sys_offset"; VNone]]); ("ddt", [ddt])]
  /\ yields (Gj fa fb) 40 (CFun src_DdtHistKinLikelihood_log_likelihood)
    (Some (VObj "DdtHistKinLikelihood" [("_tdLikelihood", VObj "A" []); ("_kinlikelihood", VObj "B" [])]))
    [ddt; dd] [("kin_scaling", ks); ("sigma_v_sys_error", sv)] rg cu
    (num (fa [ddt] [] + fb [ddt; dd; ks] [("sigma_v_sys_error", sv)])) cu
    [("kin", [ddt; dd; ks; VTuple [VStr "sigma_v_sys_error"; sv]]); ("ddt", [ddt])].
Proof. intros. split; [apply ddt_gauss_kin_is_sum | apply ddt_hist_kin_is_sum]. Qed.
Print Assumptions C06_joint_sum.

(* type dispatch: each of the 14 types receives exactly the documented arguments; an unknown type raises *)
Theorem C06_dispatch : forall ret, Forall (dispatch_ok ret) ALLTYPES.
Proof. exact dispatch_table. Qed.
Theorem C06_dispatch_unknown : forall ret ddt dd rg cu ds p0,
  call (Gd ret) 40 (CFun src_LensLikelihoodBase_log_likelihood) (Some (base_obj "Nonsense")) [ddt; dd] [] (World rg cu [] ds p0) = Exc "ValueError".
Proof. exact dispatch_unknown_raises. Qed.
Print Assumptions C06_dispatch.

(* a sampled velocity-dispersion systematic error forces the fully normalised density irrespective of the flag *)
Theorem C06_forced_norm : forall (normalized : bool) rg cu,
  (exists o log, yields Gc 80 (CClass "CosmoLikelihood" src_CosmoLikelihood_init) None [] (init_args (dict [("sigma_v_systematics", VBool true)]) normalized) rg cu o cu log
                 /\ received log = Some (VBool true))
  /\ (exists o log, yields Gc 80 (CClass "CosmoLikelihood" src_CosmoLikelihood_init) None [] (init_args (dict [("sigma_v_systematics", VBool false)]) normalized) rg cu o cu log
                 /\ received log = Some (VBool normalized))
  /\ (exists o log, yields Gc 80 (CClass "CosmoLikelihood" src_CosmoLikelihood_init) None [] (init_args (dict []) normalized) rg cu o cu log
                 /\ received log = Some (VBool normalized)).
Proof. exact sigma_v_systematics_forces_normalisation. Qed.
Print Assumptions C06_forced_norm.

(* constructors: the joint classes hand data and BOTH flags to the right parts (KinLikelihood is built by its real constructor, so a
   positional mix-up of normalized / sigma_sys_error_include would show); the base class builds the documented class per type *)
Require Import C06.Ctor.
Theorem C06_ctor_ddt_gauss_kin : forall (inc nrm : bool) zl zs mu sg j0 j1 v0 v1 (cm cj : val) rg cu,
  exists o,
  yields Ctor.Gc 80 (CClass "DdtGaussKinLikelihood" src_DdtGaussKinLikelihood_init) None [Ctor.num zl; Ctor.num zs; Ctor.num mu; Ctor.num sg]
    (kin_args (VList [Ctor.num v0; Ctor.num v1]) (VList [Ctor.num j0; Ctor.num j1]) cm cj inc nrm) rg cu o cu []
  /\ field o ["_kinlikelihood"; "_normalized"] = Some (VBool nrm)
  /\ field o ["_kinlikelihood"; "_sigma_sys_error_include"] = Some (VBool inc)
  /\ field o ["_kinlikelihood"; "_sigma_v_measured"] = Some (VArr [Ctor.num v0; Ctor.num v1])
  /\ field o ["_kinlikelihood"; "_j_model"] = Some (VArr [Ctor.num j0; Ctor.num j1])
  /\ field o ["_kinlikelihood"; "_error_cov_measurement"] = Some (arr cm)
  /\ field o ["_kinlikelihood"; "_error_cov_j_sqrt"] = Some (arr cj)
  /\ field o ["_ddt_gauss_likelihood"; "_ddt_mean"] = Some (Ctor.num mu)
  /\ field o ["_ddt_gauss_likelihood"; "_ddt_sigma"] = Some (Ctor.num sg)
  /\ field o ["num_data"] = Some (VInt (1 + 2)).
Proof. exact ddt_gauss_kin_ctor. Qed.
Theorem C06_ctor_ddt_hist_kin : forall (inc nrm : bool) zl zs (samples weights kern bw nb : val) j0 j1 v0 v1 (cm cj : val) rg cu,
  exists o,
  yields Ctor.Gc 80 (CClass "DdtHistKinLikelihood" src_DdtHistKinLikelihood_init) None [Ctor.num zl; Ctor.num zs; samples]
    (kin_args (VList [Ctor.num v0; Ctor.num v1]) (VList [Ctor.num j0; Ctor.num j1]) cm cj inc nrm ++ [("ddt_weights", weights); ("kde_kernel", kern); ("bandwidth", bw); ("nbins_hist", nb)]) rg cu o cu []
  /\ field o ["_tdLikelihood"; "kde_kernel"] = Some kern
  /\ field o ["_tdLikelihood"; "bandwidth"] = Some bw
  /\ field o ["_tdLikelihood"; "nbins_hist"] = Some nb
  /\ field o ["_kinlikelihood"; "_normalized"] = Some (VBool nrm)
  /\ field o ["_kinlikelihood"; "_sigma_sys_error_include"] = Some (VBool inc)
  /\ field o ["_kinlikelihood"; "_sigma_v_measured"] = Some (VArr [Ctor.num v0; Ctor.num v1])
  /\ field o ["_kinlikelihood"; "_j_model"] = Some (VArr [Ctor.num j0; Ctor.num j1])
  /\ field o ["_tdLikelihood"; "normalized"] = Some (VBool nrm)
  /\ field o ["_tdLikelihood"; "ddt_weights"] = Some weights
  /\ field o ["_tdLikelihood"; "args"] = Some (VList [Ctor.num zl; Ctor.num zs; samples]).
Proof. exact ddt_hist_kin_ctor. Qed.
Theorem C06_ctor_table : Forall ctor_ok Ctor.ALLTYPES.
Proof. exact ctor_table. Qed.
Print Assumptions C06_ctor_table.

(* ---- magnification and time-delay + magnification likelihoods (2 x 2, symbolic; numpy.linalg returns (P, L)) ---- *)
Require Import C06.Mag C06.TDMag.
(* Mag: source amplitude A = magnitude2cps(mu, zero point) (arbitrary function); model_i = A mu_i; the matrix handed to numpy.linalg.inv is
   C_ij + Q_ij A^2; value = -d^T P d / 2 - (2 ln 2pi + L)/2 with d_i = a_i - A mu_i *)
Theorem C06_mag : forall (m2c : R -> R -> R) a0 a1 c00 c01 c10 c11 mu0 mu1 q00 q01 q10 q11 zp p00 p01 p10 p11 L mu rg cu,
  let G := Gm m2c p00 p01 p10 p11 L in
  let o := mag_obj a0 a1 c00 c01 c10 c11 mu0 mu1 q00 q01 q10 q11 zp in
  let A := m2c mu zp in
  let d0 := a0 - A * mu0 in let d1 := a1 - A * mu1 in
  let cov := Mag.mat [[c00 + q00 * (A * A); c01 + q01 * (A * A)]; [c10 + q10 * (A * A); c11 + q11 * (A * A)]] in
  yields G 80 (CFun src_MagnificationLikelihood_scale_model) (Some o) [Mag.num mu] [] rg cu (VTuple [Mag.vec [A * mu0; A * mu1]; cov]) cu []
  /\ yields G 120 (CFun src_MagnificationLikelihood_log_likelihood) (Some o) [Mag.num mu] [] rg cu
       (Mag.num (- (d0 * (p00 * d0 + p01 * d1) + d1 * (p10 * d0 + p11 * d1)) / 2 - 1 / 2 * (2 * ln (2 * PI) + L))) cu [("inv", [cov])].
Proof. intros. split; [apply scale_model_n2 | apply mag_loglike_n2]. Qed.
Print Assumptions C06_mag.

(* TDMag (fluxes): scale s = (Ddt * unit, A); model = s .* (Fermat difference, magnification); total covariance D_ij + s_i s_j Q_ji (the
   code multiplies the TRANSPOSED model covariance: identical for a symmetric matrix); value = the multivariate-normal form of P, L.
   TDMagMagnitude: the delay is scaled by Ddt * unit, the magnitude entry is magnification-in-magnitudes + source magnitude, only the delay
   row/column of the model covariance is scaled *)
Theorem C06_tdmag : forall (m2c : R -> R -> R) t0 x0 f0 g0 u zp d00 d01 d10 d11 q00 q01 q10 q11 p00 p01 p10 p11 L ddt mu rg cu,
  let G := Gtd m2c p00 p01 p10 p11 L in
  let o := td_obj t0 x0 f0 g0 u zp d00 d01 d10 d11 q00 q01 q10 q11 "TDMagLikelihood" in
  let s0 := ddt * u * 1 in let s1 := m2c mu zp * 1 in
  let e0 := t0 - s0 * f0 in let e1 := x0 - s1 * g0 in
  let cov := Mag.mat [[d00 + s0 * (q00 * s0); d01 + s1 * (q10 * s0)]; [d10 + s0 * (q01 * s1); d11 + s1 * (q11 * s1)]] in
  yields G 100 (CFun src_TDMagLikelihood_model_cov) (Some o) [Mag.num ddt; Mag.num mu] [] rg cu (VTuple [Mag.vec [s0 * f0; s1 * g0]; cov]) cu []
  /\ yields G 140 (CFun src_TDMagLikelihood_log_likelihood) (Some o) [Mag.num ddt; Mag.num mu] [] rg cu
       (Mag.num (- (e0 * (p00 * e0 + p01 * e1) + e1 * (p10 * e0 + p11 * e1)) / 2 - 1 / 2 * (2 * ln (2 * PI) + L))) cu [("inv", [cov])].
Proof. intros. split; [apply tdmag_model_cov | apply tdmag_loglike]. Qed.
Print Assumptions C06_tdmag.
Theorem C06_tdmag_magnitude : forall (m2c : R -> R -> R) t0 x0 f0 g0 u zp d00 d01 d10 d11 q00 q01 q10 q11 p00 p01 p10 p11 L ddt mu rg cu,
  let G := Gtd m2c p00 p01 p10 p11 L in
  let o := td_obj t0 x0 f0 g0 u zp d00 d01 d10 d11 q00 q01 q10 q11 "TDMagMagnitudeLikelihood" in
  let s0 := ddt * u * 1 in
  let e0 := t0 - ddt * u * f0 in let e1 := x0 - (g0 + mu) in
  let cov := Mag.mat [[d00 + s0 * (q00 * s0); d01 + 1 * (q10 * s0)]; [d10 + s0 * (q01 * 1); d11 + 1 * (q11 * 1)]] in
  yields G 100 (CFun src_TDMagMagnitudeLikelihood_model_cov) (Some o) [Mag.num ddt; Mag.num mu] [] rg cu (VTuple [Mag.vec [ddt * u * f0; g0 + mu]; cov]) cu []
  /\ yields G 140 (CFun src_TDMagMagnitudeLikelihood_log_likelihood) (Some o) [Mag.num ddt; Mag.num mu] [] rg cu
       (Mag.num (- (e0 * (p00 * e0 + p01 * e1) + e1 * (p10 * e0 + p11 * e1)) / 2 - 1 / 2 * (2 * ln (2 * PI) + L))) cu [("inv", [cov])].
Proof. intros. split; [apply tdmagmag_model_cov | apply tdmagmag_loglike]. Qed.
Print Assumptions C06_tdmag_magnitude.
(* the same class for a lens entered with its time delays only (two delays, NO magnitude): the source magnitude mu appears nowhere *)
Theorem C06_tdmag_magnitude_without_magnitudes : forall (m2c : R -> R -> R) (t0 f0 u d00 d01 d10 d11 q00 q01 q10 q11 p00 p01 p10 p11 L t1 f1 ddt mu : R) rg cu,
  let s0 := ddt * u * 1 in
  yields (Gtd m2c p00 p01 p10 p11 L) 100 (CFun src_TDMagMagnitudeLikelihood_model_cov)
    (Some (td_only_obj t0 f0 u d00 d01 d10 d11 q00 q01 q10 q11 t1 f1)) [Mag.num ddt; Mag.num mu] [] rg cu
    (VTuple [Mag.vec [ddt * u * f0; ddt * u * f1];
             Mag.mat [[d00 + s0 * (q00 * s0); d01 + s0 * (q10 * s0)]; [d10 + s0 * (q01 * s0); d11 + s0 * (q11 * s0)]]]) cu [].
Proof. intros. apply (tdmagmag_no_magnitudes m2c t0 f0 u d00 d01 d10 d11 q00 q01 q10 q11 p00 p01 p10 p11 L t1 f1). Qed.

(* ---- the two-dimensional (Ddt, Dd) KDE likelihood: the evaluation point ---- *)
Require Import C06.DdtDdKde.
(* the density of the posterior samples (an arbitrary function dens of (Dd, Ddt), recorded by the KDE oracle) is evaluated at
   (Dd * kinematic scaling, Ddt) - in that argument order - a shape-(1,) Ddt is squeezed to a scalar first, the value is the KDE's entry unchanged;
   lenstronomy's current method name is used when the object has it, the old one otherwise *)
Theorem C06_ddt_dd_kde_point : forall (dens : R -> R -> R) ddt dd s rg cu,
  yields (Gkde dens true) 80 (CFun src_DdtDdKDELikelihood_log_likelihood) (Some kde_obj) [Mag.num ddt; Mag.num dd] [("kin_scaling", Mag.vec [s])] rg cu
    (Mag.num (dens (dd * s) ddt)) cu [("kde.log_likelihood", [Mag.num (dd * s); Mag.num ddt])]
  /\ yields (Gkde dens true) 80 (CFun src_DdtDdKDELikelihood_log_likelihood) (Some kde_obj) [VArr [Mag.num ddt]; Mag.num dd] [] rg cu
    (Mag.num (dens dd ddt)) cu [("kde.log_likelihood", [Mag.num dd; Mag.num ddt])]
  /\ yields (Gkde dens false) 80 (CFun src_DdtDdKDELikelihood_log_likelihood) (Some kde_obj) [Mag.num ddt; Mag.num dd] [] rg cu
    (Mag.num (dens dd ddt)) cu [("kde.logLikelihood", [Mag.num dd; Mag.num ddt])].
Proof. intros. split; [apply kde_point_scaled | split; [apply kde_point_unscaled | apply kde_point_old_api]]. Qed.
Print Assumptions C06_ddt_dd_kde_point.

(* ---- what the evaluators of C06_mag / C06_tdmag find in the object: the constructors ---- *)
Require Import C06.TDCtor.
(* TDMag / TDMagMagnitude (one delay, two images): data vector = (delay, brightnesses), model = (Fermat difference, magnifications), the DATA
   covariance is block diagonal - delay block, brightness block, zeros between - and the Fermat unit is Mpc / c / day * arcsec^2 *)
Theorem C06_tdmag_constructors : forall cMpc cc cday carc t0 vt x0 x1 a00 a01 a10 a11 f0 g0 g1 q00 q01 q02 q10 q11 q12 q20 q21 q22 zp rg cu, cc <> 0 -> cday <> 0 ->
  (exists o,
   yields (Gtc cMpc cc cday carc) 120 (CClass "TDMagLikelihood" src_TDMagLikelihood_init) None
     [Mag.vec [t0]; Mag.mat [[vt]]; Mag.vec [x0; x1]; Mag.mat [[a00; a01]; [a10; a11]]; Mag.vec [f0]; Mag.vec [g0; g1]; Mag.mat [[q00; q01; q02]; [q10; q11; q12]; [q20; q21; q22]]]
     [("magnitude_zero_point", Mag.num zp)] rg cu o cu []
   /\ fieldc o "_data_vector" = Some (Mag.vec [t0; x0; x1]) /\ fieldc o "_model_tot" = Some (Mag.vec [f0; g0; g1])
   /\ fieldc o "_cov_data" = Some (Mag.mat [[vt; 0; 0]; [0; a00; a01]; [0; a10; a11]])
   /\ fieldc o "_cov_model" = Some (Mag.mat [[q00; q01; q02]; [q10; q11; q12]; [q20; q21; q22]])
   /\ fieldc o "_n_td" = Some (VInt 1) /\ fieldc o "_n_amp" = Some (VInt 2) /\ fieldc o "num_data" = Some (VInt 3)
   /\ fieldc o "_fermat_unit_conversion" = Some (Mag.num (cMpc / cc / cday * carc ^ 2))
   /\ fieldc o "_magnitude_zero_point" = Some (Mag.num zp))
  /\ (exists o,
   yields (Gtc cMpc cc cday carc) 120 (CClass "TDMagMagnitudeLikelihood" src_TDMagMagnitudeLikelihood_init) None
     [Mag.vec [t0]; Mag.mat [[vt]]; Mag.vec [x0; x1]; Mag.mat [[a00; a01]; [a10; a11]]; Mag.vec [f0]; Mag.vec [g0; g1]; Mag.mat [[q00; q01; q02]; [q10; q11; q12]; [q20; q21; q22]]] [] rg cu o cu []
   /\ fieldc o "_data_vector" = Some (Mag.vec [t0; x0; x1]) /\ fieldc o "_model_tot" = Some (Mag.vec [f0; g0; g1])
   /\ fieldc o "_cov_data" = Some (Mag.mat [[vt; 0; 0]; [0; a00; a01]; [0; a10; a11]])
   /\ fieldc o "_n_td" = Some (VInt 1) /\ fieldc o "_n_amp" = Some (VInt 2) /\ fieldc o "num_data" = Some (VInt 3)).
Proof. intros. split; [apply tdmag_ctor | apply tdmagmag_ctor]; assumption. Qed.
Print Assumptions C06_tdmag_constructors.
Theorem C06_mag_constructor : forall cMpc cc cday carc a0 a1 c00 c01 c10 c11 mu0 mu1 q00 q01 q10 q11 zp rg cu,
  yields (Gtc cMpc cc cday carc) 80 (CClass "MagnificationLikelihood" src_MagnificationLikelihood_init) None
    [Mag.vec [a0; a1]; Mag.mat [[c00; c01]; [c10; c11]]; Mag.vec [mu0; mu1]; Mag.mat [[q00; q01]; [q10; q11]]] [("magnitude_zero_point", Mag.num zp)] rg cu
    (mag_obj a0 a1 c00 c01 c10 c11 mu0 mu1 q00 q01 q10 q11 zp) cu [].
Proof. intros. apply mag_ctor. Qed.
Print Assumptions C06_mag_constructor.

(* THE IFU KINEMATICS LIKELIHOOD FOR ANY NUMBER OF BINS (KinN.v, Py.ArrN).  For every n >= 1, every measurement vector, J-model vector and scaling
   vector of length n, every n x n measurement and sqrt(J) covariance, and whatever n x n matrix / log-determinant numpy.linalg returns:
   KinLikelihood.log_likelihood hands to numpy.linalg.inv EXACTLY the matrix covN and returns -delta^T P delta / 2 (un-normalised) resp. that minus
   (n ln 2 pi + ln det) / 2 (normalised) - and nothing else; the decisions taken on the way are exactly: every j_i * Ds/Dds * s_i and every s_i is
   >= 0 (under the square roots), dd <> 0, 1 + z_lens <> 0.  C06_kin_entries spells delta and covN out entry by entry:
   delta_i = v_i - c/1000 * sqrt(j_i * Ds/Dds * s_i),  C_ij = M_ij + Q_ij * sqrt(s_i) sqrt(s_j) * Ds/Dds * (c/1000)^2  with Ds/Dds = max(ddt/dd/(1+z), 0). *)
Require Import Py.Sym Py.ArrN C06.KinN.
Theorem C06_kin_any_number_of_bins : forall (C zl : R) (vs js : list R) (Mm Qm Pm : list (list R)) (L : R) (normalized : bool) (ddt dd : R) (ks : list R) rg cu (n : nat),
  length js = n -> length ks = n -> length vs = n -> length Mm = n -> length Qm = n -> length Pm = n -> wf n Mm -> wf n Qm -> wf n Pm -> n <> 0%nat ->
  exists w',
    call (GN C Pm L) 200 (CFun src_KinLikelihood_log_likelihood) (Some (objN zl vs js Mm Qm normalized)) [snum ddt; snum dd] [("kin_scaling", vecR ks)]
         (World rg cu [] (dsN n normalized) [])
    = Ok (snum (if normalized then - quadN C zl vs js Pm ddt dd ks / 2 + - (1 / 2 * (IZR (Z.of_nat (length js)) * ln (2 * PI) + L))
                else - quadN C zl vs js Pm ddt dd ks / 2), w')
    /\ decs w' = [] /\ olog w' = [("inv", [matR (covN C zl Mm Qm ddt dd ks)])]
    /\ (holds (pc w') <-> (Forall (fun x => 0 <= x) (map2R (fun x y => x * y) (mapR (fun x => x * dsd zl ddt dd) js) ks) /\ Forall (fun x => 0 <= x) ks
                           /\ dd <> 0 /\ 1 + zl <> 0)).
Proof. intros C zl vs js Mm Qm Pm L normalized. exact (kin_run C zl vs js Mm Qm Pm L normalized). Qed.
Print Assumptions C06_kin_any_number_of_bins.
Theorem C06_kin_entries : forall (C zl : R) (vs js : list R) (Mm Qm : list (list R)) (ddt dd : R) (ks : list R) (n i j : nat),
  length js = n -> length ks = n -> length vs = n -> length Mm = n -> length Qm = n -> wf n Mm -> wf n Qm -> (i < n)%nat -> (j < n)%nat ->
  nth i (deltaN C zl vs js ddt dd ks) 0 = nth i vs 0 + - (sqrt (nth i js 0 * dsd zl ddt dd * nth i ks 0) * C / 1000)
  /\ nth j (nth i (covN C zl Mm Qm ddt dd ks) []) 0 =
     nth j (nth i Mm []) 0 + nth j (nth i Qm []) 0 * (sqrt (nth i ks 0) * sqrt (nth j ks 0)) * dsd zl ddt dd * (C / 1000) ^ 2.
Proof.
  intros. split; [eapply deltaN_entry; eassumption | eapply covN_entry; eassumption].
Qed.
Print Assumptions C06_kin_entries.
(* non-vacuity: three bins with concrete numbers satisfy the hypotheses and the recorded decisions *)
Example C06_kin_any_number_nonvacuous :
  let js := [1; 2; 3] in let ks := [1; 1; 1] in
  (length js = 3%nat /\ length ks = 3%nat /\ wf 3 [[1;0;0];[0;1;0];[0;0;1]] /\ 3%nat <> 0%nat)
  /\ Forall (fun x => 0 <= x) (map2R (fun x y => x * y) (mapR (fun x => x * dsd 0 2 1) js) ks) /\ Forall (fun x => 0 <= x) ks /\ 1 <> 0 /\ 1 + 0 <> 0.
Proof.
  cbv zeta. split; [repeat split; try reflexivity; [repeat constructor | discriminate] |].
  assert (Hd : 0 <= dsd 0 2 1) by (unfold dsd; apply Rmax_r).
  split; [ | split; [repeat (constructor; [lra|]); constructor | split; lra]].
  unfold map2R, map2, mapR. cbn [map combine fst snd]. repeat (constructor; [nra|]). constructor.
Qed.
