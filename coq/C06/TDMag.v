(* C06 - time-delay + magnification likelihoods (one delay, one image: 2 x 2, symbolic): model vector, total covariance, value.
   Flux version (TDMagLikelihood): scale = (Ddt * fermat unit, source amplitude); magnitude version (TDMagMagnitudeLikelihood):
   scale = (Ddt * fermat unit, 1) and the source magnitude is ADDED to the magnification-in-magnitudes.  Source = C06.Src. *)
From Coq Require Import Reals ZArith String List Bool Lra.
Require Import Py.PyAst Py.PyVal Py.PySem Py.XLemmas Py.Tactics.
Require Import C06.Src C06.Mag.
Import ListNotations.
Open Scope string_scope.

Section TD.
Variable m2c : R -> R -> R.
Variables (t0 x0 f0 g0 u zp : R).                         (* measured delay, measured flux / magnitude, Fermat difference, magnification (/ in magnitudes), unit conversion *)
Variables (d00 d01 d10 d11 q00 q01 q10 q11 : R).          (* data covariance (block matrix as stored), model covariance *)
Variables (p00 p01 p10 p11 L : R).
Definition gtab_td : list (string * callee) :=
  [("np.linalg.inv", COracle (fun args _ w => Ok (mat [[p00; p01]; [p10; p11]], World (rng w) (cur w) (("inv", args) :: olog w) (decs w) (pc w))));
   ("np.linalg.slogdet", COracle (fun args _ w => Ok (VTuple [num 1; num L], w)));
   ("magnitude2cps", COracle (fun args kws w => match field_get "magnitude" kws, field_get "magnitude_zero_point" kws with
                                                 | Some (VNum (Fin a)), Some (VNum (Fin b)) => Ok (num (m2c a b), w) | _, _ => Stuck "magnitude2cps" end))].
Definition Gtd : fenv := FEnv (fun cls m => if String.eqb m "_model_cov" then
                                              (if String.eqb cls "TDMagLikelihood" then Some (CFun src_TDMagLikelihood_model_cov) else Some (CFun src_TDMagMagnitudeLikelihood_model_cov))
                                            else None) (fun n => assoc n gtab_td).
Definition td_obj (cls : string) := VObj cls
  [("_data_vector", vec [t0; x0]); ("_n_td", VInt 1); ("_n_amp", VInt 1); ("_cov_data", mat [[d00; d01]; [d10; d11]]);
   ("_fermat_unit_conversion", num u); ("_model_tot", vec [f0; g0]); ("_cov_model", mat [[q00; q01]; [q10; q11]]); ("num_data", VInt 2);
   ("_magnitude_zero_point", num zp)].
Open Scope R_scope.
Definition Aa (mu : R) := m2c mu zp.
(* flux version *)
Definition s0 (ddt : R) := ddt * u * 1.
Definition s1 (mu : R) := Aa mu * 1.
Definition CovF (ddt mu : R) : list (list R) :=
  [[d00 + s0 ddt * (q00 * s0 ddt); d01 + s1 mu * (q10 * s0 ddt)]; [d10 + s0 ddt * (q01 * s1 mu); d11 + s1 mu * (q11 * s1 mu)]].
Theorem tdmag_model_cov ddt mu rg cu :
  yields Gtd 100 (CFun src_TDMagLikelihood_model_cov) (Some (td_obj "TDMagLikelihood")) [num ddt; num mu] [] rg cu
    (VTuple [vec [s0 ddt * f0; s1 mu * g0]; mat (CovF ddt mu)]) cu [].
Proof. unfold td_obj, CovF, s0, s1, Aa. yields_with real_fact ltac:(val_eq). Qed.
Definition dF (ddt mu : R) (i : bool) : R := if i then x0 - s1 mu * g0 else t0 - s0 ddt * f0.
Theorem tdmag_loglike ddt mu rg cu :
  yields Gtd 140 (CFun src_TDMagLikelihood_log_likelihood) (Some (td_obj "TDMagLikelihood")) [num ddt; num mu] [] rg cu
    (num (- (dF ddt mu false * (p00 * dF ddt mu false + p01 * dF ddt mu true) + dF ddt mu true * (p10 * dF ddt mu false + p11 * dF ddt mu true)) / 2
          - 1 / 2 * (2 * ln (2 * PI) + L)))
    cu [("inv", [mat (CovF ddt mu)])].
Proof. unfold td_obj, CovF, dF, s0, s1, Aa. yields_with real_fact ltac:(val_eq). Qed.
(* magnitude version: the delay is scaled by Ddt * unit, the magnitude is SHIFTED by the source magnitude; only the delay row / column of the
   model covariance is scaled *)
Definition CovMg (ddt : R) : list (list R) :=
  [[d00 + s0 ddt * (q00 * s0 ddt); d01 + 1 * (q10 * s0 ddt)]; [d10 + s0 ddt * (q01 * 1); d11 + 1 * (q11 * 1)]].
Theorem tdmagmag_model_cov ddt mu rg cu :
  yields Gtd 100 (CFun src_TDMagMagnitudeLikelihood_model_cov) (Some (td_obj "TDMagMagnitudeLikelihood")) [num ddt; num mu] [] rg cu
    (VTuple [vec [ddt * u * f0; g0 + mu]; mat (CovMg ddt)]) cu [].
Proof. unfold td_obj, CovMg, s0. yields_with real_fact ltac:(val_eq). Qed.
Definition dM (ddt mu : R) (i : bool) : R := if i then x0 - (g0 + mu) else t0 - ddt * u * f0.
Theorem tdmagmag_loglike ddt mu rg cu :
  yields Gtd 140 (CFun src_TDMagMagnitudeLikelihood_log_likelihood) (Some (td_obj "TDMagMagnitudeLikelihood")) [num ddt; num mu] [] rg cu
    (num (- (dM ddt mu false * (p00 * dM ddt mu false + p01 * dM ddt mu true) + dM ddt mu true * (p10 * dM ddt mu false + p11 * dM ddt mu true)) / 2
          - 1 / 2 * (2 * ln (2 * PI) + L)))
    cu [("inv", [mat (CovMg ddt)])].
Proof. unfold td_obj, CovMg, dM, s0. yields_with real_fact ltac:(val_eq). Qed.

(* a lens entered with its time delays ONLY (two delays, no magnitude): the source magnitude touches nothing - the model vector is
   Ddt * unit * Fermat differences, the whole model covariance is scaled by (Ddt * unit)^2 *)
Variables (t1 f1 : R).
Definition td_only_obj := VObj "TDMagMagnitudeLikelihood"
  [("_data_vector", vec [t0; t1]); ("_n_td", VInt 2); ("_n_amp", VInt 0); ("_cov_data", mat [[d00; d01]; [d10; d11]]);
   ("_fermat_unit_conversion", num u); ("_model_tot", vec [f0; f1]); ("_cov_model", mat [[q00; q01]; [q10; q11]]); ("num_data", VInt 2)].
Definition CovTd (ddt : R) : list (list R) :=
  [[d00 + s0 ddt * (q00 * s0 ddt); d01 + s0 ddt * (q10 * s0 ddt)]; [d10 + s0 ddt * (q01 * s0 ddt); d11 + s0 ddt * (q11 * s0 ddt)]].
Theorem tdmagmag_no_magnitudes ddt mu rg cu :
  yields Gtd 100 (CFun src_TDMagMagnitudeLikelihood_model_cov) (Some td_only_obj) [num ddt; num mu] [] rg cu
    (VTuple [vec [ddt * u * f0; ddt * u * f1]; mat (CovTd ddt)]) cu [].
Proof. unfold td_only_obj, CovTd, s0. yields_with real_fact ltac:(val_eq). Qed.
End TD.
