(* C06 - IFU kinematics likelihood (n = 2 bins, symbolic): the covariance handed to numpy.linalg.inv and the value. Source = C06.Src. *)
From Coq Require Import Reals ZArith String List Bool Lra.
Require Import Py.PyAst Py.PyVal Py.PySem Py.XLemmas Py.Tactics.
Require Import C06.Src.
Import ListNotations.
Open Scope string_scope.
Fixpoint assoc {A} (k : string) (l : list (string * A)) : option A :=
  match l with [] => None | (k', v) :: t => if String.eqb k k' then Some v else assoc k t end.
Definition num (r : R) := VNum (Fin r).
(* numpy arrays: a vector, a matrix (rows as nested lists) *)
Definition vec (l : list R) := VArr (map num l).
Definition mat (l : list (list R)) := VArr (map (fun r => VList (map num r)) l).

Section Kin2.
Variables (C zl v0 v1 j0 j1 m00 m01 m10 m11 q00 q01 q10 q11 : R).   (* c [m/s], data, J, measurement and sqrt(J) covariances *)
Variables (p00 p01 p10 p11 L : R).                                   (* what numpy.linalg returns: inverse entries, log-determinant *)
Definition inv_oracle : callee := COracle (fun args _ w =>
  Ok (mat [[p00; p01]; [p10; p11]], World (rng w) (cur w) (("inv", args) :: olog w) (decs w) (pc w))).
Definition slogdet_oracle : callee := COracle (fun args _ w => Ok (VTuple [num 1; num L], w)).
Definition gtab : list (string * callee) :=
  [("np.linalg.inv", inv_oracle); ("np.linalg.slogdet", slogdet_oracle); ("const.c", COracle (fun _ _ w => Ok (num C, w)))].
Definition mtab : list (string * callee) :=
  [("log_likelihood", CFun src_KinLikelihood_log_likelihood);
   ("sigma_v_measurement_mean", CFun src_KinLikelihood_sigma_v_measurement_mean);
   ("sigma_v_model", CFun src_KinLikelihood_sigma_v_model);
   ("cov_error_model", CFun src_KinLikelihood_cov_error_model);
   ("cov_error_measurement", CFun src_KinLikelihood_cov_error_measurement)].
Definition G : fenv := FEnv (fun _ m => assoc m mtab) (fun n => assoc n gtab).
Definition kin_obj (normalized : bool) := VObj "KinLikelihood"
  [("_z_lens", num zl); ("_j_model", vec [j0; j1]); ("_sigma_v_measured", vec [v0; v1]);
   ("_error_cov_measurement", mat [[m00; m01]; [m10; m11]]); ("_error_cov_j_sqrt", mat [[q00; q01]; [q10; q11]]);
   ("num_data", VInt 2); ("_normalized", VBool normalized); ("_sigma_sys_error_include", VBool false)].
Open Scope R_scope.

Ltac RUNV t := eval lazy -[Rplus Rmult Rminus Rdiv Rinv Ropp Rmax Rmin Rlt Rle Rgt Rge ln exp sqrt log10 IZR dec Rpower pow PI DBL_MAX not] in t.
(* choose the answers by the shape of the question: equalities and "< 0" are answered no, the rest yes;
   whether the choice is right is what [holds pc] decides afterwards *)
Ltac guess mk ds :=
  let r := RUNV (mk ds) in
  lazymatch r with
  | Need (?a = ?b) => idtac "Q:" a "=" b; let ds' := eval cbv in (ds ++ [false])%list in guess mk ds'
  | Need (?a < IZR 0) => idtac "Q:" a "< 0"; let ds' := eval cbv in (ds ++ [false])%list in guess mk ds'
  | Need ?P => idtac "Q:" P; let ds' := eval cbv in (ds ++ [true])%list in guess mk ds'
  | Ok (?v, ?w) => idtac "answers:" ds; idtac "value:" v; idtac "world:" w
  | ?other => idtac "stopped:" other
  end.
(* C06 (kinematics, n = 2, every input): the covariance handed to numpy.linalg.inv and the value returned *)
Definition dsd (ddt dd : R) := Rmax (ddt / dd / (1 + zl)) 0.
Definition Cov (ddt dd s0 s1 : R) : list (list R) :=
  [[m00 + q00 * (sqrt s0 * sqrt s0) * dsd ddt dd * (C / 1000) ^ 2; m01 + q01 * (sqrt s0 * sqrt s1) * dsd ddt dd * (C / 1000) ^ 2];
   [m10 + q10 * (sqrt s1 * sqrt s0) * dsd ddt dd * (C / 1000) ^ 2; m11 + q11 * (sqrt s1 * sqrt s1) * dsd ddt dd * (C / 1000) ^ 2]].
Definition delta (ddt dd s0 s1 : R) (i : bool) : R :=
  if i then v1 - C / 1000 * sqrt (j1 * dsd ddt dd * s1) else v0 - C / 1000 * sqrt (j0 * dsd ddt dd * s0).

Theorem kin_loglike_n2 ddt dd s0 s1 : 0 < dd -> 0 <= ddt -> 0 < 1 + zl -> 0 <= j0 -> 0 <= j1 -> 0 <= s0 -> 0 <= s1 ->
  exists ds w',
    call G 200 (CFun src_KinLikelihood_log_likelihood) (Some (kin_obj true)) [num ddt; num dd] [("kin_scaling", vec [s0; s1])]
         (World (fun _ => 0) 0 [] ds []) =
    Ok (num (- (delta ddt dd s0 s1 false * (p00 * delta ddt dd s0 s1 false + p01 * delta ddt dd s0 s1 true)
              + delta ddt dd s0 s1 true * (p10 * delta ddt dd s0 s1 false + p11 * delta ddt dd s0 s1 true)) / 2
            - (2 * ln (2 * PI) + L) / 2), w')
    /\ decs w' = [] /\ olog w' = [("inv", [mat (Cov ddt dd s0 s1)])] /\ holds (pc w').
Proof.
  intros Hdd Hddt Hz Hj0 Hj1 Hs0 Hs1.
  exists [false; false; true; true; false; false; true; true; true; true; false; false; false; false; true]. eexists. split.
  - lazy -[Rplus Rmult Rminus Rdiv Rinv Ropp Rmax Rmin Rlt Rle Rgt Rge ln exp sqrt log10 IZR dec Rpower pow PI DBL_MAX not].
    norm_dec. fold (dsd ddt dd). unfold num, delta.
    match goal with |- Ok (VNum (Fin ?a), _) = Ok (VNum (Fin ?b), _) => replace a with b by field end. reflexivity.
  - cbn [decs olog pc holds]. norm_dec. fold (dsd ddt dd).
    assert (Hd : 0 <= dsd ddt dd) by (unfold dsd; apply Rmax_r).
    pose proof PI_RGT_0.
    repeat split; try lra; try (apply Rmult_le_pos; [apply Rmult_le_pos|]; assumption).
Qed.

(* facts about the inputs that the code asks about *)

(* un-normalised form: the same quadratic form and NOTHING else; slogdet is not even consulted *)
Theorem kin_loglike_n2_unnormalised ddt dd s0 s1 : 0 < dd -> 0 <= ddt -> 0 < 1 + zl -> 0 <= j0 -> 0 <= j1 -> 0 <= s0 -> 0 <= s1 ->
  exists ds w',
    call G 200 (CFun src_KinLikelihood_log_likelihood) (Some (kin_obj false)) [num ddt; num dd] [("kin_scaling", vec [s0; s1])]
         (World (fun _ => 0) 0 [] ds []) =
    Ok (num (- (delta ddt dd s0 s1 false * (p00 * delta ddt dd s0 s1 false + p01 * delta ddt dd s0 s1 true)
              + delta ddt dd s0 s1 true * (p10 * delta ddt dd s0 s1 false + p11 * delta ddt dd s0 s1 true)) / 2), w')
    /\ decs w' = [] /\ olog w' = [("inv", [mat (Cov ddt dd s0 s1)])] /\ holds (pc w').
Proof.
  intros Hdd Hddt Hz Hj0 Hj1 Hs0 Hs1.
  exists [false; false; true; true; false; false; true; true; true; true; false; false]. eexists. split.
  - lazy -[Rplus Rmult Rminus Rdiv Rinv Ropp Rmax Rmin Rlt Rle Rgt Rge ln exp sqrt log10 IZR dec Rpower pow PI DBL_MAX not].
    norm_dec. fold (dsd ddt dd). unfold num, delta.
    match goal with |- Ok (VNum (Fin ?a), _) = Ok (VNum (Fin ?b), _) => replace a with b by field end. reflexivity.
  - cbn [decs olog pc holds]. norm_dec. fold (dsd ddt dd).
    assert (Hd : 0 <= dsd ddt dd) by (unfold dsd; apply Rmax_r).
    repeat split; try lra; try (apply Rmult_le_pos; [apply Rmult_le_pos|]; assumption).
Qed.
(* hence: normalised - un-normalised = -(n ln 2pi + ln det C)/2 with n = 2, for all inputs *)
Lemma kin_norm_difference q : (q - (2 * ln (2 * PI) + L) / 2) - q = - (2 * ln (2 * PI) + L) / 2.
Proof. field. Qed.

(* a singular covariance (numpy.linalg.inv raises) gives -inf, not an exception *)
Definition inv_raises : callee := COracle (fun _ _ _ => Exc "LinAlgError").
Definition Gs : fenv := FEnv (fun _ m => assoc m mtab) (fun n => if String.eqb n "np.linalg.inv" then Some inv_raises else assoc n gtab).
Theorem kin_singular_is_neginf ddt dd s0 s1 : 0 < dd -> 0 <= ddt -> 0 < 1 + zl -> 0 <= j0 -> 0 <= j1 -> 0 <= s0 -> 0 <= s1 ->
  exists ds w',
    call Gs 200 (CFun src_KinLikelihood_log_likelihood) (Some (kin_obj true)) [num ddt; num dd] [("kin_scaling", vec [s0; s1])]
         (World (fun _ => 0) 0 [] ds []) = Ok (VNum NegInf, w').
Proof.
  intros Hdd Hddt Hz Hj0 Hj1 Hs0 Hs1.
  exists [false; false; true; true; false; false; true; true; true; true; false]. eexists.
  lazy -[Rplus Rmult Rminus Rdiv Rinv Ropp Rmax Rmin Rlt Rle Rgt Rge ln exp sqrt log10 IZR dec Rpower pow PI DBL_MAX not].
  reflexivity.
Qed.

(* fractional systematic error: when included, outer(v*eps, v*eps) is added to the measurement covariance; otherwise ignored *)
Definition Gm : fenv := G.
Theorem cov_measurement_sys eps rg cu :
  yields G 60 (CFun src_KinLikelihood_cov_error_measurement)
    (Some (VObj "KinLikelihood" [("_sigma_v_measured", vec [v0; v1]); ("_error_cov_measurement", mat [[m00; m01]; [m10; m11]]); ("_sigma_sys_error_include", VBool true)]))
    [num eps] [] rg cu
    (mat [[m00 + v0 * eps * (v0 * eps); m01 + v0 * eps * (v1 * eps)]; [m10 + v1 * eps * (v0 * eps); m11 + v1 * eps * (v1 * eps)]]) cu []
  /\ yields G 60 (CFun src_KinLikelihood_cov_error_measurement)
    (Some (VObj "KinLikelihood" [("_sigma_v_measured", vec [v0; v1]); ("_error_cov_measurement", mat [[m00; m01]; [m10; m11]]); ("_sigma_sys_error_include", VBool false)]))
    [num eps] [] rg cu (mat [[m00; m01]; [m10; m11]]) cu []
  /\ yields G 60 (CFun src_KinLikelihood_cov_error_measurement)
    (Some (VObj "KinLikelihood" [("_sigma_v_measured", vec [v0; v1]); ("_error_cov_measurement", mat [[m00; m01]; [m10; m11]]); ("_sigma_sys_error_include", VBool true)]))
    [VNone] [] rg cu (mat [[m00; m01]; [m10; m11]]) cu [].
Proof. split; [yields_auto | split; yields_auto]. Qed.
End Kin2.

