(* C06 - two-dimensional (Ddt, Dd) KDE likelihood: WHERE the density of the posterior samples is evaluated.  The KDE object (lenstronomy) is
   an oracle that records its arguments: the theorem is about the evaluation point - (Dd scaled by the kinematic scaling, Ddt), in that order -
   and about the value being the KDE's first entry unchanged.  Source = C06.Src. *)
From Coq Require Import Reals ZArith String List Bool Lra.
Require Import Py.PyAst Py.PyVal Py.PySem Py.XLemmas Py.Tactics.
Require Import C06.Src C06.Mag.
Import ListNotations.
Open Scope string_scope.

Section KDE2.
Variable dens : R -> R -> R.          (* log-density of the (Dd, Ddt) posterior samples: arbitrary *)
Definition kde_oracle (tag : string) : callee :=
  COracle (fun args kws w => match args with
    | [_; VNum (Fin a); VNum (Fin b)] => Ok (VArr [num (dens a b)], World (rng w) (cur w) ((tag, tl args) :: olog w) (decs w) (pc w))
    | _ => Stuck "KDE: two float arguments" end).
Definition Gkde (new_api : bool) : fenv :=
  FEnv (fun cls m =>
          if String.eqb cls "DdtDdKDELikelihood" then (if String.eqb m "_kde_log_likelihood" then Some (CFun src_DdtDdKDELikelihood_kde_log_likelihood) else None)
          else if String.eqb m "log_likelihood" then (if new_api then Some (kde_oracle "kde.log_likelihood") else None)
          else if String.eqb m "logLikelihood" then Some (kde_oracle "kde.logLikelihood") else None)
       (fun _ => None).
Definition kde_obj := VObj "DdtDdKDELikelihood" [("_kde_likelihood", VObj "KDELikelihood" []); ("_interpol", VBool false); ("num_data", VInt 2)].
Open Scope R_scope.
(* with a kinematic scaling: evaluated at (dd * s, ddt); the current lenstronomy method name is used when it exists *)
Theorem kde_point_scaled ddt dd s rg cu :
  yields (Gkde true) 80 (CFun src_DdtDdKDELikelihood_log_likelihood) (Some kde_obj) [num ddt; num dd] [("kin_scaling", vec [s])] rg cu
    (num (dens (dd * s) ddt)) cu [("kde.log_likelihood", [num (dd * s); num ddt])].
Proof. unfold kde_obj. yields_with real_fact ltac:(val_eq). Qed.
(* without: at (dd, ddt); a shape-(1,) Ddt (line-of-sight draw) is squeezed to a scalar first *)
Theorem kde_point_unscaled ddt dd rg cu :
  yields (Gkde true) 80 (CFun src_DdtDdKDELikelihood_log_likelihood) (Some kde_obj) [VArr [num ddt]; num dd] [] rg cu
    (num (dens dd ddt)) cu [("kde.log_likelihood", [num dd; num ddt])].
Proof. unfold kde_obj. yields_with real_fact ltac:(val_eq). Qed.
(* older lenstronomy: falls back to logLikelihood *)
Theorem kde_point_old_api ddt dd rg cu :
  yields (Gkde false) 80 (CFun src_DdtDdKDELikelihood_log_likelihood) (Some kde_obj) [num ddt; num dd] [] rg cu
    (num (dens dd ddt)) cu [("kde.logLikelihood", [num dd; num ddt])].
Proof. unfold kde_obj. yields_with real_fact ltac:(val_eq). Qed.
End KDE2.
