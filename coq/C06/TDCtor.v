(* C06 - constructors of the magnification / time-delay + magnification likelihoods: what the evaluators of Mag.v / TDMag.v find in the object.
   TDMag: data vector = (delays, fluxes), model = (Fermat differences, magnifications), and the DATA covariance is block diagonal:
   delay block, flux block, zeros between (the two measurements are independent).  Source = C06.Src. *)
From Coq Require Import Reals ZArith String List Bool Lra.
Require Import Py.PyAst Py.PyVal Py.PySem Py.XLemmas Py.Tactics.
Require Import C06.Src C06.Mag.
Import ListNotations.
Open Scope string_scope.

Section Ctors.
Variables (cMpc cc cday carc : R).       (* lenstronomy constants Mpc, c, day_s, arcsec: arbitrary (their product is the Fermat unit) *)
Definition cst (r : R) : callee := COracle (fun _ _ w => Ok (num r, w)).
Definition Gtc : fenv := FEnv (fun _ _ => None)
  (fun n => if String.eqb n "const.Mpc" then Some (cst cMpc) else if String.eqb n "const.c" then Some (cst cc)
            else if String.eqb n "const.day_s" then Some (cst cday) else if String.eqb n "const.arcsec" then Some (cst carc) else None).
Open Scope R_scope.
Theorem mag_ctor a0 a1 c00 c01 c10 c11 mu0 mu1 q00 q01 q10 q11 zp rg cu :
  yields Gtc 80 (CClass "MagnificationLikelihood" src_MagnificationLikelihood_init) None
    [vec [a0; a1]; mat [[c00; c01]; [c10; c11]]; vec [mu0; mu1]; mat [[q00; q01]; [q10; q11]]] [("magnitude_zero_point", num zp)] rg cu
    (VObj "MagnificationLikelihood"
       [("_amp_measured", vec [a0; a1]); ("_cov_amp_measured", mat [[c00; c01]; [c10; c11]]);
        ("_mean_magnification_model", vec [mu0; mu1]); ("_cov_magnification_model", mat [[q00; q01]; [q10; q11]]);
        ("num_data", VInt 2); ("_magnitude_zero_point", num zp)]) cu [].
Proof. yields_with real_fact ltac:(val_eq). Qed.
(* one delay, two images *)
Definition fieldc (o : val) (k : string) : option val := match o with VObj _ fs => field_get k fs | _ => None end.
Theorem tdmag_ctor t0 vt x0 x1 a00 a01 a10 a11 f0 g0 g1 q00 q01 q02 q10 q11 q12 q20 q21 q22 zp rg cu : cc <> 0 -> cday <> 0 ->
  exists o,
  yields Gtc 120 (CClass "TDMagLikelihood" src_TDMagLikelihood_init) None
    [vec [t0]; mat [[vt]]; vec [x0; x1]; mat [[a00; a01]; [a10; a11]]; vec [f0]; vec [g0; g1]; mat [[q00; q01; q02]; [q10; q11; q12]; [q20; q21; q22]]]
    [("magnitude_zero_point", num zp)] rg cu o cu []
  /\ fieldc o "_data_vector" = Some (vec [t0; x0; x1])
  /\ fieldc o "_model_tot" = Some (vec [f0; g0; g1])
  /\ fieldc o "_cov_data" = Some (mat [[vt; 0; 0]; [0; a00; a01]; [0; a10; a11]])
  /\ fieldc o "_cov_model" = Some (mat [[q00; q01; q02]; [q10; q11; q12]; [q20; q21; q22]])
  /\ fieldc o "_n_td" = Some (VInt 1) /\ fieldc o "_n_amp" = Some (VInt 2) /\ fieldc o "num_data" = Some (VInt 3)
  /\ fieldc o "_fermat_unit_conversion" = Some (num (cMpc / cc / cday * carc ^ 2))
  /\ fieldc o "_magnitude_zero_point" = Some (num zp).
Proof. intros Hc Hd. eexists. split; [yields_with real_fact ltac:(reflexivity) | cbn; repeat split; reflexivity]. Qed.
(* the magnitude version stores the same block-diagonal data covariance (magnitudes instead of fluxes) *)
Theorem tdmagmag_ctor t0 vt x0 x1 a00 a01 a10 a11 f0 g0 g1 q00 q01 q02 q10 q11 q12 q20 q21 q22 rg cu : cc <> 0 -> cday <> 0 ->
  exists o,
  yields Gtc 120 (CClass "TDMagMagnitudeLikelihood" src_TDMagMagnitudeLikelihood_init) None
    [vec [t0]; mat [[vt]]; vec [x0; x1]; mat [[a00; a01]; [a10; a11]]; vec [f0]; vec [g0; g1]; mat [[q00; q01; q02]; [q10; q11; q12]; [q20; q21; q22]]] [] rg cu o cu []
  /\ fieldc o "_data_vector" = Some (vec [t0; x0; x1])
  /\ fieldc o "_model_tot" = Some (vec [f0; g0; g1])
  /\ fieldc o "_cov_data" = Some (mat [[vt; 0; 0]; [0; a00; a01]; [0; a10; a11]])
  /\ fieldc o "_n_td" = Some (VInt 1) /\ fieldc o "_n_amp" = Some (VInt 2) /\ fieldc o "num_data" = Some (VInt 3).
Proof. intros Hc Hd. eexists. split; [yields_with real_fact ltac:(reflexivity) | cbn; repeat split; reflexivity]. Qed.
End Ctors.
