(* C06 - magnification likelihood (two images, symbolic): the model vector, the total covariance handed to numpy.linalg.inv and the value.
   Source = C06.Src. *)
From Coq Require Import Reals ZArith String List Bool Lra.
Require Import Py.PyAst Py.PyVal Py.PySem Py.XLemmas Py.Tactics.
Require Import C06.Src.
Import ListNotations.
Open Scope string_scope.
Fixpoint assoc {A} (k : string) (l : list (string * A)) : option A :=
  match l with [] => None | (k', v) :: t => if String.eqb k k' then Some v else assoc k t end.
Definition num (r : R) := VNum (Fin r).
Definition vec (l : list R) := VArr (map num l).
Definition mat (l : list (list R)) := VArr (map (fun r => VList (map num r)) l).

Section Mag2.
Variable m2c : R -> R -> R.                                             (* lenstronomy magnitude2cps(magnitude, zero point): arbitrary *)
Variables (a0 a1 c00 c01 c10 c11 mu0 mu1 q00 q01 q10 q11 zp : R).       (* measured amplitudes + covariance, model magnifications + covariance *)
Variables (p00 p01 p10 p11 L : R).                                      (* what numpy.linalg returns: inverse entries, log-determinant *)
Definition inv_oracle : callee := COracle (fun args _ w =>
  Ok (mat [[p00; p01]; [p10; p11]], World (rng w) (cur w) (("inv", args) :: olog w) (decs w) (pc w))).
Definition gtab : list (string * callee) :=
  [("np.linalg.inv", inv_oracle); ("np.linalg.slogdet", COracle (fun args _ w => Ok (VTuple [num 1; num L], w)));
   ("magnitude2cps", COracle (fun args kws w => match field_get "magnitude" kws, field_get "magnitude_zero_point" kws with
                                                 | Some (VNum (Fin a)), Some (VNum (Fin b)) => Ok (num (m2c a b), w) | _, _ => Stuck "magnitude2cps" end))].
Definition Gm : fenv := FEnv (fun cls m => if String.eqb m "_scale_model" then Some (CFun src_MagnificationLikelihood_scale_model) else None) (fun n => assoc n gtab).
Definition mag_obj := VObj "MagnificationLikelihood"
  [("_amp_measured", vec [a0; a1]); ("_cov_amp_measured", mat [[c00; c01]; [c10; c11]]);
   ("_mean_magnification_model", vec [mu0; mu1]); ("_cov_magnification_model", mat [[q00; q01]; [q10; q11]]);
   ("num_data", VInt 2); ("_magnitude_zero_point", num zp)].
Open Scope R_scope.
(* source amplitude A = magnitude2cps(mu, zero point); model_i = A mu_i; total covariance = C_ij + Q_ij A^2 *)
Definition A (mu : R) := m2c mu zp.
Definition CovM (mu : R) : list (list R) :=
  [[c00 + q00 * (A mu * A mu); c01 + q01 * (A mu * A mu)]; [c10 + q10 * (A mu * A mu); c11 + q11 * (A mu * A mu)]].
Definition dl (mu : R) (i : bool) : R := if i then a1 - A mu * mu1 else a0 - A mu * mu0.

Theorem scale_model_n2 mu rg cu :
  yields Gm 80 (CFun src_MagnificationLikelihood_scale_model) (Some mag_obj) [num mu] [] rg cu
    (VTuple [vec [A mu * mu0; A mu * mu1]; mat (CovM mu)]) cu [].
Proof. unfold mag_obj, CovM, A. yields_with real_fact ltac:(val_eq). Qed.

Theorem mag_loglike_n2 mu rg cu :
  yields Gm 120 (CFun src_MagnificationLikelihood_log_likelihood) (Some mag_obj) [num mu] [] rg cu
    (num (- (dl mu false * (p00 * dl mu false + p01 * dl mu true) + dl mu true * (p10 * dl mu false + p11 * dl mu true)) / 2
          - 1 / 2 * (2 * ln (2 * PI) + L)))
    cu [("inv", [mat (CovM mu)])].
Proof. unfold mag_obj, CovM, A, dl. yields_with real_fact ltac:(val_eq). Qed.
End Mag2.
