(* C06 — constructors hand the flags (normalized, sigma_sys_error_include) and the data to the right parts. Source = C06.Src. *)
From Coq Require Import Reals ZArith String List Bool Lra Lia.
Require Import Py.PyAst Py.PyVal Py.PySem Py.XLemmas Py.Unfold Py.Tactics.
Require Import C06.Src.
Import ListNotations.
Open Scope string_scope.
Fixpoint assoc {A} (k : string) (l : list (string * A)) : option A :=
  match l with [] => None | (k', v) :: t => if String.eqb k k' then Some v else assoc k t end.
Definition num (r : R) := VNum (Fin r).
Definition dict (l : list (string * val)) := VDict (map (fun kv => (VStr (fst kv), snd kv)) l).

(* KinLikelihood is built by its REAL constructor (so positional arguments bind by its real signature); the histogram part
   is a recording class *)
Definition rec_class (cls : string) : callee :=
  COracle (fun args kws w => Ok (VObj cls (("args", VList args) :: kws ++ [("num_data", VInt 1)]), w)).
Definition gtab : list (string * callee) :=
  [("KinLikelihood", CClass "KinLikelihood" src_KinLikelihood_init);
   ("DdtGaussianLikelihood", CClass "DdtGaussianLikelihood" src_DdtGaussianLikelihood_init);
   ("DdtHistKDELikelihood", rec_class "DdtHistKDELikelihood")].
Definition Gc : fenv := FEnv (fun _ _ => None) (fun n => assoc n gtab).
Definition field (o : val) (path : list string) : option val :=
  fold_left (fun acc f => match acc with Some (VObj _ fs) => field_get f fs | _ => None end) path (Some o).
Definition kin_args (sv jm cm cj : val) (inc nrm : bool) : list (string * val) :=
  [("sigma_v_measurement", sv); ("j_model", jm); ("error_cov_measurement", cm); ("error_cov_j_sqrt", cj);
   ("sigma_sys_error_include", VBool inc); ("normalized", VBool nrm)].

Theorem ddt_gauss_kin_ctor (inc nrm : bool) zl zs mu sg j0 j1 v0 v1 (cm cj : val) rg cu :
  exists o,
  yields Gc 80 (CClass "DdtGaussKinLikelihood" src_DdtGaussKinLikelihood_init) None [num zl; num zs; num mu; num sg]
    (kin_args (VList [num v0; num v1]) (VList [num j0; num j1]) cm cj inc nrm) rg cu o cu []
  /\ field o ["_kinlikelihood"; "_normalized"] = Some (VBool nrm)
  /\ field o ["_kinlikelihood"; "_sigma_sys_error_include"] = Some (VBool inc)
  /\ field o ["_kinlikelihood"; "_sigma_v_measured"] = Some (VArr [num v0; num v1])
  /\ field o ["_kinlikelihood"; "_j_model"] = Some (VArr [num j0; num j1])
  /\ field o ["_kinlikelihood"; "_error_cov_measurement"] = Some (arr cm)
  /\ field o ["_kinlikelihood"; "_error_cov_j_sqrt"] = Some (arr cj)
  /\ field o ["_ddt_gauss_likelihood"; "_ddt_mean"] = Some (num mu)
  /\ field o ["_ddt_gauss_likelihood"; "_ddt_sigma"] = Some (num sg)
  /\ field o ["num_data"] = Some (VInt (1 + 2)).
Proof. destruct inc, nrm; eexists; (split; [yields_auto | repeat split; reflexivity]). Qed.

Theorem ddt_hist_kin_ctor (inc nrm : bool) zl zs (samples weights kern bw nb : val) j0 j1 v0 v1 (cm cj : val) rg cu :
  exists o,
  yields Gc 80 (CClass "DdtHistKinLikelihood" src_DdtHistKinLikelihood_init) None [num zl; num zs; samples]
    (kin_args (VList [num v0; num v1]) (VList [num j0; num j1]) cm cj inc nrm ++ [("ddt_weights", weights); ("kde_kernel", kern); ("bandwidth", bw); ("nbins_hist", nb)]) rg cu o cu []
  (* the histogram part receives EVERY one of its settings: kernel, bandwidth, number of bins, weights and the normalisation flag *)
  /\ field o ["_tdLikelihood"; "kde_kernel"] = Some kern
  /\ field o ["_tdLikelihood"; "bandwidth"] = Some bw
  /\ field o ["_tdLikelihood"; "nbins_hist"] = Some nb
  /\ field o ["_kinlikelihood"; "_normalized"] = Some (VBool nrm)
  /\ field o ["_kinlikelihood"; "_sigma_sys_error_include"] = Some (VBool inc)
  /\ field o ["_kinlikelihood"; "_sigma_v_measured"] = Some (VArr [num v0; num v1])
  /\ field o ["_kinlikelihood"; "_j_model"] = Some (VArr [num j0; num j1])
  /\ field o ["_tdLikelihood"; "normalized"] = Some (VBool nrm)
  /\ field o ["_tdLikelihood"; "ddt_weights"] = Some weights
  /\ field o ["_tdLikelihood"; "args"] = Some (VList [num zl; num zs; samples]).
Proof. destruct inc, nrm; eexists; (split; [yields_auto | repeat split; reflexivity]). Qed.

(* LensLikelihoodBase.__init__: which class each type constructs and whether it is handed the normalisation flag *)
Definition all_classes := ["DdtGaussianLikelihood"; "DdtDdKDELikelihood"; "DdtDdGaussian"; "DsDdsGaussianLikelihood"; "DdtLogNormLikelihood"; "KinLikelihood";
  "DdtHistLikelihood"; "DdtHistKDELikelihood"; "DdtHistKinLikelihood"; "DdtGaussKinLikelihood"; "MagnificationLikelihood"; "TDMagLikelihood";
  "TDMagMagnitudeLikelihood"; "DSPLikelihood"].
Definition Gb : fenv := FEnv (fun _ _ => None) (fun n => if existsb (String.eqb n) all_classes then Some (rec_class n) else None).
Definition expected_class (t : string) : string * bool * bool :=      (* class, receives (z_lens, z_source), receives normalized *)
  if String.eqb t "DdtGaussian" then ("DdtGaussianLikelihood", true, false) else if String.eqb t "DdtDdKDE" then ("DdtDdKDELikelihood", true, false)
  else if String.eqb t "DdtDdGaussian" then ("DdtDdGaussian", true, false) else if String.eqb t "DsDdsGaussian" then ("DsDdsGaussianLikelihood", true, false)
  else if String.eqb t "DdtLogNorm" then ("DdtLogNormLikelihood", true, false) else if String.eqb t "IFUKinCov" then ("KinLikelihood", true, true)
  else if String.eqb t "DdtHist" then ("DdtHistLikelihood", true, true) else if String.eqb t "DdtHistKDE" then ("DdtHistKDELikelihood", true, true)
  else if String.eqb t "DdtHistKin" then ("DdtHistKinLikelihood", true, true) else if String.eqb t "DdtGaussKin" then ("DdtGaussKinLikelihood", true, true)
  else if String.eqb t "Mag" then ("MagnificationLikelihood", false, false) else if String.eqb t "TDMag" then ("TDMagLikelihood", false, false)
  else if String.eqb t "TDMagMagnitude" then ("TDMagMagnitudeLikelihood", false, false) else ("DSPLikelihood", false, true).
Definition ALLTYPES := ["DdtGaussian"; "DdtLogNorm"; "DdtHist"; "DdtHistKDE"; "DdtDdKDE"; "DdtDdGaussian"; "DsDdsGaussian";
                        "DdtHistKin"; "IFUKinCov"; "DdtGaussKin"; "Mag"; "TDMag"; "TDMagMagnitude"; "DSPL"].
Definition ctor_ok (t : string) : Prop := forall (nrm : bool) zl zs (data : val) rg cu,
  let '(cls, zz, flag) := expected_class t in
  exists o,
  yields Gb 80 (CClass "LensLikelihoodBase" src_LensLikelihoodBase_init) None [num zl; num zs; VStr t]
    [("normalized", VBool nrm); ("data_key", data)] rg cu o cu []
  /\ field o ["likelihood_type"] = Some (VStr t)
  /\ field o ["_lens_type"] = Some (VObj cls ((("args", VList (if zz then [num zl; num zs] else []))
                                              :: (if flag then [("normalized", VBool nrm)] else []) ++ [("data_key", data)]) ++ [("num_data", VInt 1)])).
Theorem ctor_table : Forall ctor_ok ALLTYPES.
Proof.
  unfold ALLTYPES. repeat constructor; unfold ctor_ok; intros nrm zl zs data rg cu; cbn [expected_class String.eqb Ascii.eqb Bool.eqb]; cbv iota;
  destruct nrm; eexists; (split; [yields_auto | split; reflexivity]).
Qed.
