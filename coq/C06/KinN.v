(* C06 - the IFU kinematics likelihood for ANY number of bins n.  KinLikelihood.log_likelihood (and the four methods it calls) are run by the
   interpreter on vectors / matrices given as lists of reals of arbitrary length: statement by statement, the stuck numpy primitives resolved by
   the lemmas of Py.ArrN (proved by induction on the lists).  Source = C06.Src. *)
From Coq Require Import Reals ZArith String List Bool Lra Lia.
Require Import Py.PyAst Py.PyVal Py.PySem Py.XLemmas Py.Unfold Py.Tactics Py.Sym Py.ArrN.
Require Import C06.Src C06.Kin.
Import ListNotations.
Open Scope string_scope.

Ltac STMT_next := unfold seq_out at 1; cbn [bind fst snd]; try rewrite run_stmts_cons.

Section KinN.
Variables (C zl : R) (vs js : list R) (Mm Qm : list (list R)).     (* c [m/s], lens redshift, data, J, measurement and sqrt(J) covariances *)
Variables (Pm : list (list R)) (L : R).                             (* what numpy.linalg returns: the inverse, the log-determinant *)
Definition inv_oracleN : callee := COracle (fun args _ w => Ok (matR Pm, World (rng w) (cur w) (("inv", args) :: olog w) (decs w) (pc w))).
Definition slogdet_oracleN : callee := COracle (fun args _ w => Ok (VTuple [snum 1; snum L], w)).
Definition GN : fenv := FEnv (fun _ m => assoc m mtab)
  (fun n => if String.eqb n "const.c" then Some (COracle (fun _ _ w => Ok (snum C, w)))
            else if String.eqb n "np.linalg.inv" then Some inv_oracleN else if String.eqb n "np.linalg.slogdet" then Some slogdet_oracleN else None).
Definition objN (normalized : bool) := VObj "KinLikelihood"
  [("_z_lens", snum zl); ("_j_model", vecR js); ("_sigma_v_measured", vecR vs);
   ("_error_cov_measurement", matR Mm); ("_error_cov_j_sqrt", matR Qm);
   ("num_data", VInt (Z.of_nat (length js))); ("_normalized", VBool normalized); ("_sigma_sys_error_include", VBool false)].
(* the answers to the decisions, as a function of n: dd = 0? 1+z = 0? | n times 0 <= j*r*s | n times 1000 = 0? | 2n times 0 <= s | 1000 = 0? 2.0 = 0? det < 0? 2.0 = 0? 0 < 2 pi *)
Definition dsN (n : nat) (normalized : bool) : list bool :=
  false :: false :: cat (rpt true n) (cat (rpt false n) (cat (rpt true n) (cat (rpt true n) (false :: false :: (if normalized then [false; false; true] else []))))).
Open Scope R_scope.
Definition dsd (ddt dd : R) := Rmax (ddt / dd / (1 + zl)) 0.
(* the prediction, the residual, the covariance handed to numpy.linalg.inv *)
Definition predN (ddt dd : R) (ks : list R) : list R :=
  mapR (fun x => x / 1000) (mapR (fun x => x * C) (mapR sqrt (map2R (fun x y => x * y) (mapR (fun x => x * dsd ddt dd) js) ks))).
Definition deltaN (ddt dd : R) (ks : list R) : list R := map2R (fun x y => x + - y) vs (predN ddt dd ks).
Definition covN (ddt dd : R) (ks : list R) : list (list R) :=
  mmap2R (fun x y => x + y) Mm (mmapR (fun x => x * (C / 1000) ^ 2) (mmapR (fun x => x * dsd ddt dd) (mmap2R (fun x y => x * y) Qm (outerR (mapR sqrt ks) (mapR sqrt ks))))).
Definition quadN (ddt dd : R) (ks : list R) : R := dotR (deltaN ddt dd ks) (mvR Pm (deltaN ddt dd ks)).

Lemma kin_run (normalized : bool) ddt dd ks rg cu n :
  length js = n -> length ks = n -> length vs = n -> length Mm = n -> length Qm = n -> length Pm = n -> wf n Mm -> wf n Qm -> wf n Pm -> n <> 0%nat ->
  exists w',
    call GN 200 (CFun src_KinLikelihood_log_likelihood) (Some (objN normalized)) [snum ddt; snum dd] [("kin_scaling", vecR ks)] (World rg cu [] (dsN n normalized) [])
    = Ok (snum (if normalized then - quadN ddt dd ks / 2 + - (1 / 2 * (IZR (Z.of_nat (length js)) * ln (2 * PI) + L)) else - quadN ddt dd ks / 2), w')
    /\ decs w' = [] /\ olog w' = [("inv", [matR (covN ddt dd ks)])]
    /\ (holds (pc w') <-> (Forall (fun x => 0 <= x) (map2R (fun x y => x * y) (mapR (fun x => x * dsd ddt dd) js) ks) /\ Forall (fun x => 0 <= x) ks
                           /\ dd <> 0 /\ 1 + zl <> 0)).
Proof.
  intros Lj Lk Lv LM LQ LP WM WQ WP Nn. unfold dsN.
  rewrite call_fun. cbv zeta.
  match goal with |- context [bind_params ?a ?b ?c ?d] => let r := ARR_RUN (bind_params a b c d) in change (bind_params a b c d) with r end.
  cbn [bind fst snd f_kwarg f_body src_KinLikelihood_log_likelihood]. rewrite exec_S. rewrite run_stmts_cons.
  STMT n; STMT_next; STMT n; STMT_next; STMT n; STMT_next; STMT n; STMT_next; STMT n; STMT_next; STMT n; STMT_next; STMT n; STMT_next.
  destruct normalized.
  all: STMT n; STMT_next; STMT n.
  all: unfold seq_out; cbn [bind fst snd].
  all: match goal with |- exists w', Ok (VNum (Fin ?a), ?W) = _ /\ _ => exists W end.
  all: split; [ apply (f_equal (fun v : R => @Ok (val * world) (VNum (Fin v), _))); unfold quadN, deltaN, predN, dsd; norm_dec; field | ].
  all: cbn [decs olog pc]; split; [reflexivity|]; split; [reflexivity|].
  all: cbn [holds]; rewrite !holds_pcapp; cbn [holds]; norm_dec; fold (dsd ddt dd).
  all: split; [ intros H; decompose [and] H; repeat split; assumption
              | intros (Hjk & Hk & Hd & Hz); pose proof PI_RGT_0; repeat split; try assumption; try lra; try (apply Forall_const; lra) ].
Qed.

(* what those vectors / matrices are, entry by entry: the residual of bin i and the (i, j) entry of the covariance handed to numpy.linalg.inv *)
Lemma deltaN_entry ddt dd ks n i : length js = n -> length ks = n -> length vs = n -> (i < n)%nat ->
  nth i (deltaN ddt dd ks) 0 = nth i vs 0 + - (sqrt (nth i js 0 * dsd ddt dd * nth i ks 0) * C / 1000).
Proof.
  intros Lj Lk Lv Hi. unfold deltaN, predN.
  rewrite nth_map2R by len. rewrite nth_mapR by len. rewrite nth_mapR by len. rewrite nth_mapR by len. rewrite nth_map2R by len. rewrite nth_mapR by len.
  reflexivity.
Qed.
Lemma covN_entry ddt dd ks n i j : length ks = n -> length Mm = n -> length Qm = n -> wf n Mm -> wf n Qm -> (i < n)%nat -> (j < n)%nat ->
  nth j (nth i (covN ddt dd ks) []) 0 =
  nth j (nth i Mm []) 0 + nth j (nth i Qm []) 0 * (sqrt (nth i ks 0) * sqrt (nth j ks 0)) * dsd ddt dd * (C / 1000) ^ 2.
Proof.
  intros Lk LM LQ WM WQ Hi Hj. unfold covN.
  assert (LMi : length (nth i Mm []) = n) by (apply wf_nth; [assumption | lia]).
  assert (LQi : length (nth i Qm []) = n) by (apply wf_nth; [assumption | lia]).
  assert (W1 : wf n (mmap2R (fun x y => x * y) Qm (outerR (mapR sqrt ks) (mapR sqrt ks)))) by wfs2.
  assert (W2 : wf n (mmapR (fun x => x * dsd ddt dd) (mmap2R (fun x y => x * y) Qm (outerR (mapR sqrt ks) (mapR sqrt ks))))) by wfs2.
  assert (W3 : wf n (mmapR (fun x => x * (C / 1000) ^ 2) (mmapR (fun x => x * dsd ddt dd) (mmap2R (fun x y => x * y) Qm (outerR (mapR sqrt ks) (mapR sqrt ks)))))) by wfs2.
  rewrite nth_mmap2R; [ | len | len | rewrite LMi; symmetry; apply wf_nth; [exact W3 | len] | lia ].
  rewrite nth_mmapR; [ | len | rewrite (wf_nth n) by (try exact W2; len); lia ].
  rewrite nth_mmapR; [ | len | rewrite (wf_nth n) by (try exact W1; len); lia ].
  rewrite nth_mmap2R; [ | len | len | rewrite LQi; symmetry; apply wf_nth; [apply outerR_wf_n; len | len] | lia ].
  rewrite nth_outerR by len. rewrite !nth_mapR by len. reflexivity.
Qed.
End KinN.
