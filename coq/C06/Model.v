(* C06 — each data likelihood is the stated density; the normalisation flag drops constants only. Source = C06.Src. *)
From Coq Require Import Reals ZArith String List Bool Lra Lia.
Require Import Py.PyAst Py.PyVal Py.PySem Py.XLemmas Py.Unfold Py.Tactics.
Require Import C06.Src.
Import ListNotations.
Open Scope string_scope.
Fixpoint assoc {A} (k : string) (l : list (string * A)) : option A :=
  match l with [] => None | (k', v) :: t => if String.eqb k k' then Some v else assoc k t end.
Definition num (r : R) := VNum (Fin r).
Definition dict (l : list (string * val)) := VDict (map (fun kv => (VStr (fst kv), snd kv)) l).
Definition vec (l : list R) := VArr (map num l).
Definition mat (l : list (list R)) := VArr (map (fun r => VList (map num r)) l).

Definition mtab : list (string * list (string * callee)) :=
  [("DdtGaussianLikelihood", [("log_likelihood", CFun src_DdtGaussianLikelihood_log_likelihood); ("ddt_measurement", CFun src_DdtGaussianLikelihood_ddt_measurement)]);
   ("DdtLogNormLikelihood", [("log_likelihood", CFun src_DdtLogNormLikelihood_log_likelihood)]);
   ("DdtDdGaussian", [("log_likelihood", CFun src_DdtDdGaussian_log_likelihood)]);
   ("DsDdsGaussianLikelihood", [("log_likelihood", CFun src_DsDdsGaussianLikelihood_log_likelihood)]);
   ("DSPLikelihood", [("log_likelihood", CFun src_DSPLikelihood_log_likelihood)])].
Definition gtab : list (string * callee) :=
  [("DdtGaussianLikelihood", CClass "DdtGaussianLikelihood" src_DdtGaussianLikelihood_init);
   ("DdtLogNormLikelihood", CClass "DdtLogNormLikelihood" src_DdtLogNormLikelihood_init);
   ("DdtDdGaussian", CClass "DdtDdGaussian" src_DdtDdGaussian_init);
   ("DsDdsGaussianLikelihood", CClass "DsDdsGaussianLikelihood" src_DsDdsGaussianLikelihood_init);
   ("DSPLikelihood", CClass "DSPLikelihood" src_DSPLikelihood_init);
   ("beta2theta_e_ratio", CFun src_fn_beta2theta_e_ratio)].
Definition G : fenv := FEnv (fun cls m => match assoc cls mtab with Some t => assoc m t | None => None end) (fun n => assoc n gtab).
Open Scope R_scope.

(* reference densities *)
Definition gauss_logpdf (x mu sg : R) : R := - (x - mu) ^ 2 / (2 * sg ^ 2) - ln (sg * sqrt (2 * PI)).
Definition lognorm_logpdf (x mu sg : R) : R := - (ln x - mu) ^ 2 / (2 * sg ^ 2) - ln x - ln sg - ln (sqrt (2 * PI)).

Ltac fin_val := unfold num; repeat f_equal.

(* --- DdtGaussian: Gaussian in Ddt without the prefactor (always un-normalised) --- *)
Theorem ddt_gauss zl zs mu sg ddt dd rg cu : sg <> 0 ->
  exists o,
  yields G 60 (CClass "DdtGaussianLikelihood" src_DdtGaussianLikelihood_init) None [num zl; num zs; num mu; num sg] [] rg cu o cu []
  /\ yields G 60 (CFun src_DdtGaussianLikelihood_log_likelihood) (Some o) [num ddt; num dd] [] rg cu
       (num (- (ddt - mu) ^ 2 / sg ^ 2 / 2)) cu []
  /\ yields G 60 (CFun src_DdtGaussianLikelihood_ddt_measurement) (Some o) [] [] rg cu (VTuple [num mu; num sg]) cu [].
Proof.
  intros Hs. assert (sg ^ 2 <> 0) by (apply pow_nonzero; assumption).
  eexists. split; [yields_auto | split; yields_auto].
Qed.
Lemma ddt_gauss_is_density x mu sg : 0 < sg -> - (x - mu) ^ 2 / sg ^ 2 / 2 = gauss_logpdf x mu sg + ln (sg * sqrt (2 * PI)).
Proof. intros. unfold gauss_logpdf. field. lra. Qed.

(* --- DdtLogNorm --- *)
Theorem ddt_lognorm zl zs mu sg ddt dd rg cu : sg <> 0 -> 0 < ddt ->
  exists o,
  yields G 60 (CClass "DdtLogNormLikelihood" src_DdtLogNormLikelihood_init) None [num zl; num zs; num mu; num sg] [] rg cu o cu []
  /\ yields G 60 (CFun src_DdtLogNormLikelihood_log_likelihood) (Some o) [num ddt; num dd] [] rg cu
       (num (- (5 / 10) * (ln ddt - mu) ^ 2 / sg ^ 2 - ln ddt - 5 / 10 * ln (sg ^ 2))) cu [].
Proof.
  intros Hs Hd. assert (sg ^ 2 <> 0) by (apply pow_nonzero; assumption). assert (0 < sg ^ 2) by (rewrite <- Rsqr_pow2; apply Rsqr_pos_lt; assumption).
  eexists. split; [yields_auto|].
  yields_with real_fact ltac:(finish_num ltac:(unfold num)).
Qed.
Lemma ddt_lognorm_is_density x mu sg : 0 < sg ->
  - (5 / 10) * (ln x - mu) ^ 2 / sg ^ 2 - ln x - 5 / 10 * ln (sg ^ 2) = lognorm_logpdf x mu sg + ln (sqrt (2 * PI)).
Proof.
  intros. unfold lognorm_logpdf. replace (ln (sg ^ 2)) with (2 * ln sg).
  - field. lra.
  - replace (sg ^ 2) with (sg * sg) by ring. rewrite ln_mult by assumption. ring.
Qed.

(* --- DdtDdGaussian: independent Gaussians in Ddt and in Dd * scaling[0] --- *)
Theorem ddt_dd_gauss zl zs mu sg dmu dsg ddt dd s0 rg cu : sg <> 0 -> dsg <> 0 ->
  exists o,
  yields G 60 (CClass "DdtDdGaussian" src_DdtDdGaussian_init) None [num zl; num zs; num mu; num sg; num dmu; num dsg] [] rg cu o cu []
  /\ yields G 60 (CFun src_DdtDdGaussian_log_likelihood) (Some o) [num ddt; num dd] [("kin_scaling", vec [s0])] rg cu
       (num (- (ddt - mu) ^ 2 / sg ^ 2 / 2 - (dd * s0 - dmu) ^ 2 / dsg ^ 2 / 2)) cu []
  /\ yields G 60 (CFun src_DdtDdGaussian_log_likelihood) (Some o) [num ddt; num dd] [] rg cu
       (num (- (ddt - mu) ^ 2 / sg ^ 2 / 2 - (dd - dmu) ^ 2 / dsg ^ 2 / 2)) cu [].
Proof.
  intros Hs Hd. assert (sg ^ 2 <> 0) by (apply pow_nonzero; assumption). assert (dsg ^ 2 <> 0) by (apply pow_nonzero; assumption).
  eexists. split; [yields_auto | split; yields_with real_fact ltac:(finish_num ltac:(unfold num))].
Qed.

(* --- DsDdsGaussian: Gaussian in Ddt/Dd/(1+z_d)/scaling[0] --- *)
Theorem ds_dds_gauss zl zs mu sg ddt dd s0 rg cu : sg <> 0 -> dd <> 0 -> 1 + zl <> 0 -> s0 <> 0 ->
  exists o,
  yields G 60 (CClass "DsDdsGaussianLikelihood" src_DsDdsGaussianLikelihood_init) None [num zl; num zs; num mu; num sg] [] rg cu o cu []
  /\ yields G 60 (CFun src_DsDdsGaussianLikelihood_log_likelihood) (Some o) [num ddt; num dd] [("kin_scaling", vec [s0])] rg cu
       (num (- (ddt / dd / (1 + zl) / s0 - mu) ^ 2 / sg ^ 2 / 2)) cu []
  /\ yields G 60 (CFun src_DsDdsGaussianLikelihood_log_likelihood) (Some o) [num ddt; num dd] [] rg cu
       (num (- (ddt / dd / (1 + zl) / 1 - mu) ^ 2 / sg ^ 2 / 2)) cu [].
Proof.
  intros Hs Hd Hz H0. assert (sg ^ 2 <> 0) by (apply pow_nonzero; assumption).
  eexists. split; [yields_auto | split; yields_with real_fact ltac:(finish_num ltac:(unfold num))].
Qed.

(* --- DSPL: Gaussian in the Einstein-radius ratio; the normalised form subtracts exactly ln(2 pi sigma^2)/2 --- *)
Definition theta_ratio (beta gam lam : R) : R := Rpower (beta - (1 - lam) * (1 - beta)) (1 / (gam - 1)).
Theorem dspl (normalized : bool) b sg beta gam lam rg cu : sg <> 0 -> gam - 1 <> 0 -> 0 < beta - (1 - lam) * (1 - beta) ->
  exists o,
  yields G 60 (CClass "DSPLikelihood" src_DSPLikelihood_init) None [num b; num sg] [("normalized", VBool normalized)] rg cu o cu []
  /\ yields G 60 (CFun src_DSPLikelihood_log_likelihood) (Some o) [] [("beta_dsp", num beta); ("gamma_pl", num gam); ("lambda_mst", num lam)] rg cu
       (num (- (5 / 10) * ((theta_ratio beta gam lam - b) / sg) ^ 2 - (if normalized then 1 / (20 / 10) * ln (2 * PI * sg ^ 2) else 0))) cu [].
Proof.
  intros Hs Hg Hb. assert (0 < sg ^ 2) by (rewrite <- Rsqr_pow2; apply Rsqr_pos_lt; assumption).
  assert (0 < 2 * PI * sg ^ 2) by (apply Rmult_lt_0_compat; [pose proof PI_RGT_0; lra | assumption]).
  destruct normalized; (eexists; split; [yields_auto|]);
  yields_with real_fact ltac:(finish_num ltac:(unfold num, theta_ratio)).
Qed.

(* ---------- type dispatch: which arguments each of the 14 types receives ---------- *)
Section Dispatch.
Variable ret : R.
Definition enc_kws (kws : list (string * val)) : list val := map (fun kv => VTuple [VStr (fst kv); snd kv]) kws.
Definition log_oracle : callee :=
  COracle (fun args kws w => Ok (num ret, World (rng w) (cur w) (("log_likelihood", tl args ++ enc_kws kws)%list :: olog w) (decs w) (pc w))).
Definition Gd : fenv := FEnv (fun cls m => if String.eqb cls "T" then (if String.eqb m "log_likelihood" then Some log_oracle else None)
                                        else if String.eqb m "log_likelihood" then Some (CFun src_LensLikelihoodBase_log_likelihood) else None) (fun _ => None).
Definition base_obj (t : string) := VObj "LensLikelihoodBase" [("likelihood_type", VStr t); ("_lens_type", VObj "T" [])].
Definition ALLKW (beta ks sv mu gam lam : val) : list (string * val) :=
  [("beta_dsp", beta); ("kin_scaling", ks); ("sigma_v_sys_error", sv); ("mu_intrinsic", mu); ("gamma_pl", gam); ("lambda_mst", lam)].
(* the documented table *)
Definition expected_args (t : string) (ddt dd beta ks sv mu gam lam : val) : list val :=
  if existsb (String.eqb t) ["DdtGaussian"; "DdtLogNorm"; "DdtHist"; "DdtHistKDE"] then [ddt; dd]
  else if existsb (String.eqb t) ["DdtDdKDE"; "DdtDdGaussian"; "DsDdsGaussian"] then [ddt; dd] ++ enc_kws [("kin_scaling", ks)]
  else if existsb (String.eqb t) ["DdtHistKin"; "IFUKinCov"; "DdtGaussKin"] then [ddt; dd] ++ enc_kws [("kin_scaling", ks); ("sigma_v_sys_error", sv)]
  else if String.eqb t "Mag" then enc_kws [("mu_intrinsic", mu)]
  else if existsb (String.eqb t) ["TDMag"; "TDMagMagnitude"] then enc_kws [("ddt", ddt); ("mu_intrinsic", mu)]
  else enc_kws [("beta_dsp", beta); ("gamma_pl", gam); ("lambda_mst", lam)].
Definition dispatch_ok (t : string) : Prop := forall ddt dd beta ks sv mu gam lam rg cu,
  yields Gd 40 (CFun src_LensLikelihoodBase_log_likelihood) (Some (base_obj t)) [ddt; dd] (ALLKW beta ks sv mu gam lam) rg cu
    (num ret) cu [("log_likelihood", expected_args t ddt dd beta ks sv mu gam lam)].
Definition ALLTYPES := ["DdtGaussian"; "DdtLogNorm"; "DdtHist"; "DdtHistKDE"; "DdtDdKDE"; "DdtDdGaussian"; "DsDdsGaussian";
                        "DdtHistKin"; "IFUKinCov"; "DdtGaussKin"; "Mag"; "TDMag"; "TDMagMagnitude"; "DSPL"].
Theorem dispatch_table : Forall dispatch_ok ALLTYPES.
Proof. unfold ALLTYPES. repeat constructor; unfold dispatch_ok; intros; yields_auto. Qed.
Theorem dispatch_unknown_raises ddt dd rg cu ds p0 :
  call Gd 40 (CFun src_LensLikelihoodBase_log_likelihood) (Some (base_obj "Nonsense")) [ddt; dd] [] (World rg cu [] ds p0) = Exc "ValueError".
Proof. run. reflexivity. Qed.
End Dispatch.

(* ---------- joint Ddt + kinematics likelihoods are the sum of their parts ---------- *)
Section Joint.
Variables (fa fb : list val -> list (string * val) -> R).
Definition part (tag : string) (f : list val -> list (string * val) -> R) : callee :=
  COracle (fun args kws w => Ok (num (f (tl args) kws), World (rng w) (cur w) ((tag, tl args ++ enc_kws kws)%list :: olog w) (decs w) (pc w))).
Definition Gj : fenv := FEnv (fun cls m => if String.eqb m "log_likelihood" then
     (if String.eqb cls "A" then Some (part "ddt" fa) else if String.eqb cls "B" then Some (part "kin" fb) else None) else None) (fun _ => None).
Theorem ddt_gauss_kin_is_sum ddt dd ks sv rg cu :
  yields Gj 40 (CFun src_DdtGaussKinLikelihood_log_likelihood)
    (Some (VObj "DdtGaussKinLikelihood" [("_ddt_gauss_likelihood", VObj "A" []); ("_kinlikelihood", VObj "B" [])]))
    [ddt; dd] [("kin_scaling", ks); ("sigma_v_sys_error", sv)] rg cu
    (num (fa [ddt] [] + fb [ddt; dd; ks] [("sigma_v_sys_error", sv); ("sigma_v_sys_offset", VNone)])) cu
    [("kin", [ddt; dd; ks; VTuple [VStr "sigma_v_sys_error"; sv]; VTuple [VStr "sigma_v_sys_offset"; VNone]]); ("ddt", [ddt])].
Proof. yields_auto. Qed.
Theorem ddt_hist_kin_is_sum ddt dd ks sv rg cu :
  yields Gj 40 (CFun src_DdtHistKinLikelihood_log_likelihood)
    (Some (VObj "DdtHistKinLikelihood" [("_tdLikelihood", VObj "A" []); ("_kinlikelihood", VObj "B" [])]))
    [ddt; dd] [("kin_scaling", ks); ("sigma_v_sys_error", sv)] rg cu
    (num (fa [ddt] [] + fb [ddt; dd; ks] [("sigma_v_sys_error", sv)])) cu
    [("kin", [ddt; dd; ks; VTuple [VStr "sigma_v_sys_error"; sv]]); ("ddt", [ddt])].
Proof. yields_auto. Qed.
End Joint.

(* ---------- a sampled velocity-dispersion systematic forces the fully normalised density ---------- *)
Definition lsl_class : callee :=
  COracle (fun args kws w => Ok (VObj "LensSampleLikelihood" [("gamma_pl_num", VInt 0)],
                                 World (rng w) (cur w) (("LensSampleLikelihood", enc_kws kws) :: olog w) (decs w) (pc w))).
Definition pm_class : callee := COracle (fun args kws w => Ok (VObj "ParamManager" [("param_bounds", VTuple [VList []; VList []])], w)).
Definition Gc : fenv := FEnv (fun _ _ => None)
  (fun n => if String.eqb n "LensSampleLikelihood" then Some lsl_class else if String.eqb n "ParamManager" then Some pm_class else None).
Definition init_args (model : val) (normalized : bool) : list (string * val) :=
  [("kwargs_likelihood_list", VList []); ("cosmology", VStr "FLCDM"); ("kwargs_model", model); ("kwargs_bounds", dict []); ("normalized", VBool normalized)].
Definition received (log : list (string * list val)) : option val :=
  match log with [(_, kws)] => (fix find (l : list val) := match l with VTuple [VStr "normalized"; v] :: _ => Some v | _ :: r => find r | [] => None end) kws | _ => None end.
Theorem sigma_v_systematics_forces_normalisation (normalized : bool) rg cu :
  (exists o log, yields Gc 80 (CClass "CosmoLikelihood" src_CosmoLikelihood_init) None [] (init_args (dict [("sigma_v_systematics", VBool true)]) normalized) rg cu o cu log
                 /\ received log = Some (VBool true))
  /\ (exists o log, yields Gc 80 (CClass "CosmoLikelihood" src_CosmoLikelihood_init) None [] (init_args (dict [("sigma_v_systematics", VBool false)]) normalized) rg cu o cu log
                 /\ received log = Some (VBool normalized))
  /\ (exists o log, yields Gc 80 (CClass "CosmoLikelihood" src_CosmoLikelihood_init) None [] (init_args (dict []) normalized) rg cu o cu log
                 /\ received log = Some (VBool normalized)).
Proof.
  destruct normalized; (split; [|split]); (do 2 eexists; split; [yields_auto | reflexivity]).
Qed.
