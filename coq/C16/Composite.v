(* C16 - composite (stars + dark matter) configuration: the scaling grids over (anisotropy, inner slope, mass-to-light) and the reference
   they are normalised by.  Every node = J(parameters at the node) / J(base), the base being the anisotropy base values and the MEAN of the
   inner-slope axis (and of the mass-to-light axis in the population-level mode) - the same point the marginalisation evaluates J at.
   Source = C16.Src. *)
From Coq Require Import Reals ZArith String List Bool Lra.
Require Import Py.PyAst Py.PyVal Py.PySem Py.XLemmas Py.Unfold Py.Tactics.
Require Import C16.Src C16.Model.
Import ListNotations.
Open Scope string_scope.

Section CompGrid.
(* the two draw functions behind the grids: bin -> anisotropy kwargs -> inner slope -> [log M/L] -> keywords -> J : arbitrary *)
Variable Jp : nat -> val -> val -> val -> list (string * val) -> R.
Variable Jl : nat -> val -> val -> list (string * val) -> R.
Variable re : R.
Definition jdraw_pop : callee := COracle (fun args kws w => match args with
   | [_; ka; g; l] => Ok (vec [Jp 0 ka g l kws; Jp 1 ka g l kws], w) | _ => Stuck "j_kin_draw_composite: three positional arguments" end).
Definition jdraw_m2l : callee := COracle (fun args kws w => match args with
   | [_; ka; g] => Ok (vec [Jl 0 ka g kws; Jl 1 ka g kws], w) | _ => Stuck "j_kin_draw_composite_m2l: two positional arguments" end).
Definition ctab2 : list (string * callee) :=
  [("j_kin_draw_composite", jdraw_pop); ("j_kin_draw_composite_m2l", jdraw_m2l);
   reg src_KinScalingConfig_kin_scaling_param_array; reg src_KinScalingConfig_param_name_list; reg src_KinScalingConfig_anisotropy_kwargs;
   reg src_KinScalingConfig_kwargs_anisotropy_base;
   ("_anisotropy_scaling_relative", CFun src_KinConstraintsComposite_anisotropy_scaling_relative);
   ("_anisotropy_scaling_relative_m2l", CFun src_KinConstraintsComposite_anisotropy_scaling_relative_m2l)].
Definition Gc2 : fenv := FEnv (fun _ m => assoc m ctab2) (fun _ => None).
Definition ccon (model : string) (pop : bool) (axes : list val) (gin lml : val) := VObj "KinConstraintsComposite"
  [("_sigma_v_measured", vec [250; 260]); ("_anisotropy_model", VStr model); ("_r_eff", num re); ("_ani_param_array", VList axes);
   ("gamma_in_array", gin); ("log_m2l_array", lml); ("_is_m2l_population_level", VBool pop)].
Definition ne := [("no_error", VBool true)].
Definition aOM (a : R) := dict [("r_ani", num (a * re))].
Definition aGOM (a b : R) := dict [("r_ani", num (a * re)); ("beta_inf", num b)].
Open Scope R_scope.

(* per-lens M/L mode, OM: axes (a_ani, gamma_in); grid[m][i, k] = J_m(a_i, g_k) / J_m(base) *)
Theorem comp_grid_m2l_om a0 a1 g0 g1 g2 j00 j01 rg cu : j00 <> 0 -> j01 <> 0 ->
  yields Gc2 200 (CFun src_KinConstraintsComposite_anisotropy_scaling_relative_m2l) (Some (ccon "OM" false [vec [a0; a1]] (vec [g0; g1; g2]) VNone)) [vec [j00; j01]] [] rg cu
    (VList [VArr [VList [num (Jl 0 (aOM a0) (num g0) ne / j00); num (Jl 0 (aOM a0) (num g1) ne / j00); num (Jl 0 (aOM a0) (num g2) ne / j00)];
                  VList [num (Jl 0 (aOM a1) (num g0) ne / j00); num (Jl 0 (aOM a1) (num g1) ne / j00); num (Jl 0 (aOM a1) (num g2) ne / j00)]];
            VArr [VList [num (Jl 1 (aOM a0) (num g0) ne / j01); num (Jl 1 (aOM a0) (num g1) ne / j01); num (Jl 1 (aOM a0) (num g2) ne / j01)];
                  VList [num (Jl 1 (aOM a1) (num g0) ne / j01); num (Jl 1 (aOM a1) (num g1) ne / j01); num (Jl 1 (aOM a1) (num g2) ne / j01)]]]) cu [].
Proof. intros H0 H1. unfold ccon, ne, aOM. yields_with real_fact ltac:(val_eq). Qed.

(* population-level M/L mode, OM: axes (a_ani, gamma_in, log_m2l), rank 3; grid[m][i, k, l] = J_m(a_i, g_k, l_l) / J_m(base) *)
Definition cell (m : nat) (a g l j : R) := num (Jp m (aOM a) (num g) (num l) ne / j).
Theorem comp_grid_pop_om a0 a1 g0 g1 l0 l1 j00 j01 rg cu : j00 <> 0 -> j01 <> 0 ->
  yields Gc2 260 (CFun src_KinConstraintsComposite_anisotropy_scaling_relative) (Some (ccon "OM" true [vec [a0; a1]] (vec [g0; g1]) (vec [l0; l1]))) [vec [j00; j01]] [] rg cu
    (VList [VArr [VList [VList [cell 0 a0 g0 l0 j00; cell 0 a0 g0 l1 j00]; VList [cell 0 a0 g1 l0 j00; cell 0 a0 g1 l1 j00]];
                  VList [VList [cell 0 a1 g0 l0 j00; cell 0 a1 g0 l1 j00]; VList [cell 0 a1 g1 l0 j00; cell 0 a1 g1 l1 j00]]];
            VArr [VList [VList [cell 1 a0 g0 l0 j01; cell 1 a0 g0 l1 j01]; VList [cell 1 a0 g1 l0 j01; cell 1 a0 g1 l1 j01]];
                  VList [VList [cell 1 a1 g0 l0 j01; cell 1 a1 g0 l1 j01]; VList [cell 1 a1 g1 l0 j01; cell 1 a1 g1 l1 j01]]]]) cu [].
Proof. intros H0 H1. unfold ccon, ne, aOM, cell. yields_with real_fact ltac:(val_eq). Qed.

(* per-lens M/L mode, GOM: axes (a_ani, beta_inf, gamma_in), rank 3 *)
Definition cellG (m : nat) (a b g j : R) := num (Jl m (aGOM a b) (num g) ne / j).
Theorem comp_grid_m2l_gom a0 a1 b0 b1 g0 g1 j00 j01 rg cu : j00 <> 0 -> j01 <> 0 ->
  yields Gc2 260 (CFun src_KinConstraintsComposite_anisotropy_scaling_relative_m2l) (Some (ccon "GOM" false [vec [a0; a1]; vec [b0; b1]] (vec [g0; g1]) VNone)) [vec [j00; j01]] [] rg cu
    (VList [VArr [VList [VList [cellG 0 a0 b0 g0 j00; cellG 0 a0 b0 g1 j00]; VList [cellG 0 a0 b1 g0 j00; cellG 0 a0 b1 g1 j00]];
                  VList [VList [cellG 0 a1 b0 g0 j00; cellG 0 a1 b0 g1 j00]; VList [cellG 0 a1 b1 g0 j00; cellG 0 a1 b1 g1 j00]]];
            VArr [VList [VList [cellG 1 a0 b0 g0 j01; cellG 1 a0 b0 g1 j01]; VList [cellG 1 a0 b1 g0 j01; cellG 1 a0 b1 g1 j01]];
                  VList [VList [cellG 1 a1 b0 g0 j01; cellG 1 a1 b0 g1 j01]; VList [cellG 1 a1 b1 g0 j01; cellG 1 a1 b1 g1 j01]]]]) cu [].
Proof. intros H0 H1. unfold ccon, ne, aGOM, cellG. yields_with real_fact ltac:(val_eq). Qed.

(* the reference the grids are divided by: J at the anisotropy base values and at the MEAN of the inner-slope axis (and of the M/L axis in
   the population-level mode); the grid function then receives exactly that J.  Three-node inner-slope axis: the mean is NOT a node in general. *)
Definition base_om := dict [("r_ani", num (1 * re))].
Theorem comp_reference_m2l a0 a1 g0 g1 g2 rg cu :
  Jl 0 base_om (num ((g0 + (g1 + (g2 + 0))) / 3)) ne <> 0 -> Jl 1 base_om (num ((g0 + (g1 + (g2 + 0))) / 3)) ne <> 0 ->
  exists grids,
  yields Gc2 300 (CFun src_KinConstraintsComposite_anisotropy_scaling) (Some (ccon "OM" false [vec [a0; a1]] (vec [g0; g1; g2]) VNone)) [] [] rg cu grids cu []
  /\ yields Gc2 200 (CFun src_KinConstraintsComposite_anisotropy_scaling_relative_m2l) (Some (ccon "OM" false [vec [a0; a1]] (vec [g0; g1; g2]) VNone))
       [vec [Jl 0 base_om (num ((g0 + (g1 + (g2 + 0))) / 3)) ne; Jl 1 base_om (num ((g0 + (g1 + (g2 + 0))) / 3)) ne]] [] rg cu grids cu [].
Proof.
  intros H0 H1. eexists. split.
  - unfold ccon, ne, base_om. yields_with real_fact ltac:(reflexivity).
  - apply comp_grid_m2l_om; assumption.
Qed.
End CompGrid.

(* the marginalisation of the composite class evaluates J at the SAME base point the grids are normalised by: the anisotropy base values and
   the MEAN of the inner-slope axis (and of the mass-to-light axis in the population-level mode), with errors switched ON; J-model = mean over
   the draws, the covariance is numpy.cov of sqrt(J) (bins x draws) *)
Section CompMarginal.
Variables (a0 a1 b0 b1 g0 g1 g2 l0 l1 : R) (cv ka : val).
Definition log2 (tag : string) (args : list val) (w : world) : world := World (rng w) (cur w) ((tag, args) :: olog w) (decs w) (pc w).
Definition mtabc : list (string * callee) :=
  [("j_kin_draw_composite", COracle (fun args kws w => Ok ((if Nat.eqb (length (olog w)) 0 then vec [a0; a1] else vec [b0; b1]), log2 "j_kin_draw_composite" (tl args ++ map snd kws)%list w)));
   ("j_kin_draw_composite_m2l", COracle (fun args kws w => Ok ((if Nat.eqb (length (olog w)) 0 then vec [a0; a1] else vec [b0; b1]), log2 "j_kin_draw_composite_m2l" (tl args ++ map snd kws)%list w)));
   ("@kwargs_anisotropy_base", COracle (fun _ _ w => Ok (ka, w)))].
Definition Gmc : fenv := FEnv (fun _ m => assoc m mtabc)
  (fun n => if String.eqb n "np.cov" then Some (COracle (fun args kws w => Ok (cv, log2 "np.cov" args w))) else None).
Definition cobj (pop : bool) := VObj "KinConstraintsComposite"
  [("_sigma_v_measured", vec [250; 260]); ("_is_m2l_population_level", VBool pop); ("gamma_in_array", vec [g0; g1; g2]); ("log_m2l_array", vec [l0; l1])].
Open Scope R_scope.
Theorem comp_marginalisation_pop rg cu : 0 <= a0 -> 0 <= a1 -> 0 <= b0 -> 0 <= b1 ->
  yields Gmc 120 (CFun src_KinConstraintsComposite_model_marginalization) (Some (cobj true)) [VInt 2] [] rg cu
    (VTuple [vec [(a0 + (b0 + 0)) / 2; (a1 + (b1 + 0)) / 2]; cv]) cu
    [("np.cov", [VArr [VList [num (sqrt a0); num (sqrt b0)]; VList [num (sqrt a1); num (sqrt b1)]]]);
     ("j_kin_draw_composite", [ka; num ((g0 + (g1 + (g2 + 0))) / 3); num ((l0 + (l1 + 0)) / 2); VBool false]);
     ("j_kin_draw_composite", [ka; num ((g0 + (g1 + (g2 + 0))) / 3); num ((l0 + (l1 + 0)) / 2); VBool false])].
Proof. intros. unfold cobj. yields_with real_fact ltac:(val_eq). Qed.
Theorem comp_marginalisation_m2l rg cu : 0 <= a0 -> 0 <= a1 -> 0 <= b0 -> 0 <= b1 ->
  yields Gmc 120 (CFun src_KinConstraintsComposite_model_marginalization) (Some (cobj false)) [VInt 2] [] rg cu
    (VTuple [vec [(a0 + (b0 + 0)) / 2; (a1 + (b1 + 0)) / 2]; cv]) cu
    [("np.cov", [VArr [VList [num (sqrt a0); num (sqrt b0)]; VList [num (sqrt a1); num (sqrt b1)]]]);
     ("j_kin_draw_composite_m2l", [ka; num ((g0 + (g1 + (g2 + 0))) / 3); VBool false]);
     ("j_kin_draw_composite_m2l", [ka; num ((g0 + (g1 + (g2 + 0))) / 3); VBool false])].
Proof. intros. unfold cobj. yields_with real_fact ltac:(val_eq). Qed.
End CompMarginal.
