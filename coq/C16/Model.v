(* C16 — posterior processing emits a self-consistent kinematic likelihood configuration. Source = C16.Src (regenerated). The kinematics
   engine (lenstronomy GalKin behind velocity_dispersion_map_dimension_less) is an ARBITRARY logged function. *)
From Coq Require Import Reals ZArith String List Bool Lra Lia.
Require Import Py.PyAst Py.PyVal Py.PySem Py.XLemmas Py.Unfold Py.Tactics.
Require Import C16.Src.
Import ListNotations.
Open Scope string_scope.
Open Scope list_scope.
Fixpoint assoc {A} (k : string) (l : list (string * A)) : option A :=
  match l with [] => None | (k', v) :: t => if String.eqb k k' then Some v else assoc k t end.
Definition num (r : R) := VNum (Fin r).
Definition vec (l : list R) := VArr (map num l).
Definition mat (l : list (list R)) := VArr (map (fun r => VList (map num r)) l).
Definition dict (l : list (string * val)) := VDict (map (fun kv => (VStr (fst kv), snd kv)) l).
Definition logc (tag : string) (args : list val) (w : world) : world := World (rng w) (cur w) ((tag, args) :: olog w) (decs w) (pc w).
(* a method table entry named after the function itself: a @property is registered as "@name" because the SOURCE says so *)
Definition reg (fd : fundef) : string * callee := (f_name fd, CFun fd).
Open Scope R_scope.

(* ------------------------------------------------------------------------------------------- *)
(* 1. lens-model draws respect their physical ranges, for every random stream                    *)
Section Draws.
Variables (tE sE g sg re sre : R).
Definition G0 : fenv := FEnv (fun _ _ => None) (fun _ => None).
Definition img := VObj "ImageModelPosterior" [("_theta_E", num tE); ("_theta_E_error", num sE); ("_gamma", num g); ("_gamma_error", num sg); ("_r_eff", num re); ("_r_eff_error", num sre)].
Theorem img_ctor rg cu : yields G0 40 (CClass "ImageModelPosterior" src_ImageModelPosterior_init) None [num tE; num sE; num g; num sg; num re; num sre] [] rg cu img cu [].
Proof. yields_auto. Qed.
Definition clip_g (x : R) := - Rmax (- Rmax x 1) (- (2999 / 1000)).            (* min(max(x, 1), 2.999) as the interpreter writes it *)
Lemma clip_g_range x : 1 <= clip_g x <= 2999 / 1000.
Proof. unfold clip_g. unfold Rmax. repeat (destruct (Rle_dec _ _)); lra. Qed.
Theorem draw_lens_ranges rg cu : re <> 0 ->
  yields G0 60 (CFun src_ImageModelPosterior_draw_lens) (Some img) [] [] rg cu
    (VTuple [num (Rmax (tE + sE * rg cu) 0); num (clip_g (g + sg * rg (S cu))); num (Rmax (1 + sre / re * rg (S (S cu))) (1 / 1000) * re);
             num (Rmax (1 + sre / re * rg (S (S cu))) (1 / 1000))]) (S (S (S cu))) [].
Proof. intros H. unfold clip_g, img. yields_with real_fact ltac:(val_eq). Qed.
Theorem draw_lens_given_slope gp rg cu : re <> 0 ->
  yields G0 60 (CFun src_ImageModelPosterior_draw_lens) (Some img) [] [("gamma_pl", num gp)] rg cu
    (VTuple [num (Rmax (tE + sE * rg cu) 0); num gp; num (Rmax (1 + sre / re * rg (S cu)) (1 / 1000) * re); num (Rmax (1 + sre / re * rg (S cu)) (1 / 1000))]) (S (S cu)) [].
Proof. intros H. unfold img. yields_with real_fact ltac:(val_eq). Qed.
Theorem draw_lens_no_error rg cu :
  yields G0 60 (CFun src_ImageModelPosterior_draw_lens) (Some img) [] [("no_error", VBool true)] rg cu (VTuple [num tE; num g; num re; VInt 1]) cu [].
Proof. yields_auto. Qed.
End Draws.

(* ------------------------------------------------------------------------------------------- *)
(* 2. measurement covariance                                                                      *)
Section CovMeas.
Variables (i0 i1 cv : R).
Definition kc (ind cov cm : val) := VObj "KinConstraints" [("_sigma_v_error_independent", ind); ("_sigma_v_error_covariant", cov); ("_sigma_v_error_cov_matrix", cm)].
Theorem cov_meas_from_parts rg cu :
  yields G0 60 (CFun src_KinConstraints_error_cov_measurement) (Some (kc (vec [i0; i1]) (num cv) VNone)) [] [] rg cu
    (mat [[cv * cv + i0 ^ 2; cv * cv + 0]; [cv * cv + 0; cv * cv + i1 ^ 2]]) cu [].
Proof. unfold kc. yields_with real_fact ltac:(val_eq). Qed.
Theorem cov_meas_supplied (ind cov m : val) rg cu : m = mat [[1; 2]; [2; 5]] ->
  yields G0 60 (CFun src_KinConstraints_error_cov_measurement) (Some (kc ind cov m)) [] [] rg cu m cu [].
Proof. intros ->. yields_auto. Qed.
Theorem cov_meas_missing_raises w : call G0 60 (CFun src_KinConstraints_error_cov_measurement) (Some (kc (vec [i0; i1]) VNone VNone)) [] [] w = Exc "ValueError".
Proof. reflexivity. Qed.
End CovMeas.

(* ------------------------------------------------------------------------------------------- *)
(* 3. scaling configuration: declared parameter order, axes, and the meaning handed to the engine  *)
Section Config.
Definition lin : callee := COracle (fun args kws w => Ok (VObj "linspace" (map (fun a => ("<positional>", a)) args), w)).
Definition Gc : fenv := FEnv (fun cls m => if String.eqb cls "KinScalingConfig" then (if String.eqb m "__init__" then Some (CFun src_KinScalingParamManager_init) else None) else None)
  (fun n => if String.eqb n "np.linspace" then Some lin else if String.eqb n "KinScalingParamManager.__init__" then Some (CFun src_KinScalingParamManager_init) else None).
Definition om_axis := VArr [VNum (Fin (dec 1 (-1))); VNum (Fin (dec 2 (-1))); VNum (Fin (dec 5 (-1))); VInt 1; VInt 2; VInt 5].
Definition field (o : val) (k : string) : option val := match o with VObj _ fs => field_get k fs | _ => None end.
(* GOM + inner slope + mass-to-light + power-law slope: names and axes in the SAME declared order (a_ani, beta_inf, gamma_in, log_m2l, gamma_pl) *)
Theorem config_order (re : R) (gi lm gp : val) rg cu : gi = VList [num 1; num 2] -> lm = VList [num 3; num 4] -> gp = VList [num 5; num 6] ->
  exists o, yields Gc 80 (CClass "KinScalingConfig" src_KinScalingConfig_init) None [VStr "GOM"; num re] [("gamma_in_scaling", gi); ("log_m2l_scaling", lm); ("gamma_pl_scaling", gp)] rg cu o cu []
  /\ field o "_param_name_list" = Some (VList [VStr "a_ani"; VStr "beta_inf"; VStr "gamma_in"; VStr "log_m2l"; VStr "gamma_pl"])
  /\ field o "_ani_param_array" = Some (VList [om_axis; VArr [VInt 0; VNum (Fin (dec 5 (-1))); VNum (Fin (dec 8 (-1))); VInt 1]; VArr [num 1; num 2]; VArr [num 3; num 4]; VArr [num 5; num 6]])
  /\ field o "_param_list" = Some (VList [VStr "a_ani"; VStr "beta_inf"; VStr "gamma_in"; VStr "log_m2l"; VStr "gamma_pl"])
  /\ field o "_num_param" = Some (VInt 5).
Proof. intros -> -> ->. eexists. split; [yields_auto | repeat split; reflexivity]. Qed.
Theorem config_om (re : R) rg cu :
  exists o, yields Gc 80 (CClass "KinScalingConfig" src_KinScalingConfig_init) None [VStr "OM"; num re] [] rg cu o cu []
  /\ field o "_param_name_list" = Some (VList [VStr "a_ani"]) /\ field o "_ani_param_array" = Some (VList [om_axis]).
Proof. eexists. split; [yields_auto | split; reflexivity]. Qed.
Theorem config_unsupported re w : call Gc 80 (CClass "KinScalingConfig" src_KinScalingConfig_init) None [VStr "TAN"; num re] [] w = Exc "ValueError".
Proof. reflexivity. Qed.
(* the anisotropy parameters reach the engine as r_ani = a_ani * r_eff (OM, GOM), beta_inf (GOM), beta = a_ani (const) *)
Definition cfg (model : string) (re : R) := VObj "KinScalingConfig" [("_anisotropy_model", VStr model); ("_r_eff", num re)].
Theorem aniso_meaning a b re rg cu :
  yields G0 40 (CFun src_KinScalingConfig_anisotropy_kwargs) (Some (cfg "OM" re)) [] [("a_ani", num a)] rg cu (dict [("r_ani", num (a * re))]) cu [] /\
  yields G0 40 (CFun src_KinScalingConfig_anisotropy_kwargs) (Some (cfg "GOM" re)) [] [("a_ani", num a); ("beta_inf", num b)] rg cu (dict [("r_ani", num (a * re)); ("beta_inf", num b)]) cu [] /\
  yields G0 40 (CFun src_KinScalingConfig_anisotropy_kwargs) (Some (cfg "const" re)) [] [("a_ani", num a)] rg cu (dict [("beta", num a)]) cu [].
Proof. repeat split; yields_auto. Qed.
Theorem aniso_base re rg cu :
  yields G0 40 (CFun src_KinScalingConfig_kwargs_anisotropy_base) (Some (cfg "OM" re)) [] [] rg cu (dict [("r_ani", num (1 * re))]) cu [] /\
  yields G0 40 (CFun src_KinScalingConfig_kwargs_anisotropy_base) (Some (cfg "GOM" re)) [] [] rg cu (dict [("r_ani", num (1 * re)); ("beta_inf", VInt 1)]) cu [] /\
  yields G0 40 (CFun src_KinScalingConfig_kwargs_anisotropy_base) (Some (cfg "const" re)) [] [] rg cu (dict [("beta", VNum (Fin (dec 1 (-1))))]) cu [].
Proof. repeat split; yields_with real_fact ltac:(val_eq). Qed.
End Config.

(* ------------------------------------------------------------------------------------------- *)
(* 4. what reaches the kinematics engine from a power-law draw                                    *)
Section Engine.
Variables (tE gm re dre : R) (J0 J1 : R).
Definition engine : callee := COracle (fun args kws w => Ok (vec [J0; J1], logc "engine" (map (fun kv => VTuple [VStr (fst kv); snd kv]) kws) w)).
Definition drawl : callee := COracle (fun args kws w => Ok (VTuple [num tE; num gm; num re; num dre], logc "draw_lens" (map (fun kv => VTuple [VStr (fst kv); snd kv]) kws) w)).
Definition Ge : fenv := FEnv (fun cls m => if String.eqb m "velocity_dispersion_map_dimension_less" then Some engine else if String.eqb m "draw_lens" then Some drawl else None) (fun _ => None).
Definition kobj (light : val) := VObj "KinConstraints" [("_kwargs_lens_light", light)].
Definition lensk := VList [dict [("theta_E", num tE); ("gamma", num gm); ("center_x", VInt 0); ("center_y", VInt 0)]].
(* default Hernquist light: Rs = 0.551 r_eff of the draw *)
Theorem engine_args_default (ka : val) gp rg cu :
  yields Ge 80 (CFun src_KinConstraints_j_kin_draw) (Some (kobj VNone)) [ka] [("gamma_pl", num gp); ("no_error", VBool true)] rg cu (vec [J0; J1]) cu
    [("engine", [VTuple [VStr "kwargs_lens"; lensk]; VTuple [VStr "kwargs_lens_light"; VList [dict [("Rs", num (re * (551 / 1000))); ("amp", num 1)]]];
                 VTuple [VStr "kwargs_anisotropy"; ka]; VTuple [VStr "r_eff"; num re]; VTuple [VStr "theta_E"; num tE]; VTuple [VStr "gamma"; num gm]]);
     ("draw_lens", [VTuple [VStr "gamma_pl"; num gp]; VTuple [VStr "no_error"; VBool true]])].
Proof. yields_with real_fact ltac:(val_eq). Qed.
(* supplied light profiles: a COPY whose sizes are scaled with the drawn half-light radius; other entries untouched *)
Theorem engine_args_light (ka : val) r1 r2 a1 rg cu :
  yields Ge 80 (CFun src_KinConstraints_j_kin_draw) (Some (kobj (VList [dict [("Rs", num r1); ("amp", num a1)]; dict [("R_sersic", num r2); ("n_sersic", num 4)]]))) [ka] [] rg cu (vec [J0; J1]) cu
    [("engine", [VTuple [VStr "kwargs_lens"; lensk];
                 VTuple [VStr "kwargs_lens_light"; VList [dict [("Rs", num (r1 * dre)); ("amp", num a1)]; dict [("R_sersic", num (r2 * dre)); ("n_sersic", num 4)]]];
                 VTuple [VStr "kwargs_anisotropy"; ka]; VTuple [VStr "r_eff"; num re]; VTuple [VStr "theta_E"; num tE]; VTuple [VStr "gamma"; num gm]]);
     ("draw_lens", [VTuple [VStr "gamma_pl"; VNone]; VTuple [VStr "no_error"; VBool false]])].
Proof. yields_with real_fact ltac:(val_eq). Qed.
End Engine.

(* ------------------------------------------------------------------------------------------- *)
(* 5. every node of each scaling grid is J(parameters at the node) / J(base), axes in the declared order   *)
Section Grid.
Variable Jf : nat -> val -> list (string * val) -> R.        (* the engine behind j_kin_draw: bin -> anisotropy kwargs -> other keywords -> J *)
Variables (re j00 j01 : R).                                   (* J at the base configuration, per bin *)
Definition jdraw : callee := COracle (fun args kws w => match args with
   | [_; ka] => Ok (vec [Jf 0 ka kws; Jf 1 ka kws], w) | _ => Stuck "j_kin_draw: one positional argument" end).
Definition gtab : list (string * callee) :=
  [("j_kin_draw", jdraw); reg src_KinScalingConfig_kin_scaling_param_array; reg src_KinScalingConfig_param_name_list; reg src_KinScalingParamManager_num_scaling_dim;
   reg src_KinScalingParamManager_param_array2kwargs; reg src_KinScalingConfig_anisotropy_kwargs].
Definition Gg : fenv := FEnv (fun _ m => assoc m gtab) (fun _ => None).
Definition kcon (model : string) (names : list string) (axes : list val) := VObj "KinConstraints"
  [("_sigma_v_measured", vec [250; 260]); ("_anisotropy_model", VStr model); ("_r_eff", num re); ("_param_name_list", VList (map VStr names));
   ("_param_list", VList (map VStr names)); ("_num_param", VInt (Z.of_nat (length names))); ("_ani_param_array", VList axes)].
Definition ne := [("no_error", VBool true)].
(* one axis (OM): two nodes, two bins *)
Theorem grid_one_axis a0 a1 rg cu : j00 <> 0 -> j01 <> 0 ->
  yields Gg 120 (CFun src_KinConstraints_anisotropy_scaling_relative) (Some (kcon "OM" ["a_ani"] [vec [a0; a1]])) [vec [j00; j01]] [] rg cu
    (VList [vec [Jf 0 (dict [("r_ani", num (a0 * re))]) ne / j00; Jf 0 (dict [("r_ani", num (a1 * re))]) ne / j00];
            vec [Jf 1 (dict [("r_ani", num (a0 * re))]) ne / j01; Jf 1 (dict [("r_ani", num (a1 * re))]) ne / j01]]) cu [].
Proof. intros H0 H1. unfold kcon, ne. yields_with real_fact ltac:(val_eq). Qed.
(* two axes (GOM: a_ani x beta_inf), non-square 2 x 3 grid: index [i, j] <-> (a_ani_i, beta_inf_j) *)
Definition nodeG a b := dict [("r_ani", num (a * re)); ("beta_inf", num b)].
Theorem grid_two_axes_gom a0 a1 b0 b1 b2 rg cu : j00 <> 0 -> j01 <> 0 ->
  yields Gg 160 (CFun src_KinConstraints_anisotropy_scaling_relative) (Some (kcon "GOM" ["a_ani"; "beta_inf"] [vec [a0; a1]; vec [b0; b1; b2]])) [vec [j00; j01]] [] rg cu
    (VList [VArr [VList [num (Jf 0 (nodeG a0 b0) ne / j00); num (Jf 0 (nodeG a0 b1) ne / j00); num (Jf 0 (nodeG a0 b2) ne / j00)];
                  VList [num (Jf 0 (nodeG a1 b0) ne / j00); num (Jf 0 (nodeG a1 b1) ne / j00); num (Jf 0 (nodeG a1 b2) ne / j00)]];
            VArr [VList [num (Jf 1 (nodeG a0 b0) ne / j01); num (Jf 1 (nodeG a0 b1) ne / j01); num (Jf 1 (nodeG a0 b2) ne / j01)];
                  VList [num (Jf 1 (nodeG a1 b0) ne / j01); num (Jf 1 (nodeG a1 b1) ne / j01); num (Jf 1 (nodeG a1 b2) ne / j01)]]]) cu [].
Proof. intros H0 H1. unfold kcon, ne, nodeG. yields_with real_fact ltac:(val_eq). Qed.
(* two axes of different kinds (OM anisotropy x power-law slope): the slope is routed to the LENS keywords of the draw *)
Theorem grid_two_axes_slope a0 a1 g0 g1 rg cu : j00 <> 0 -> j01 <> 0 ->
  yields Gg 160 (CFun src_KinConstraints_anisotropy_scaling_relative) (Some (kcon "OM" ["a_ani"; "gamma_pl"] [vec [a0; a1]; vec [g0; g1]])) [vec [j00; j01]] [] rg cu
    (VList [VArr [VList [num (Jf 0 (dict [("r_ani", num (a0 * re))]) (ne ++ [("gamma_pl", num g0)]) / j00); num (Jf 0 (dict [("r_ani", num (a0 * re))]) (ne ++ [("gamma_pl", num g1)]) / j00)];
                  VList [num (Jf 0 (dict [("r_ani", num (a1 * re))]) (ne ++ [("gamma_pl", num g0)]) / j00); num (Jf 0 (dict [("r_ani", num (a1 * re))]) (ne ++ [("gamma_pl", num g1)]) / j00)]];
            VArr [VList [num (Jf 1 (dict [("r_ani", num (a0 * re))]) (ne ++ [("gamma_pl", num g0)]) / j01); num (Jf 1 (dict [("r_ani", num (a0 * re))]) (ne ++ [("gamma_pl", num g1)]) / j01)];
                  VList [num (Jf 1 (dict [("r_ani", num (a1 * re))]) (ne ++ [("gamma_pl", num g0)]) / j01); num (Jf 1 (dict [("r_ani", num (a1 * re))]) (ne ++ [("gamma_pl", num g1)]) / j01)]]]) cu [].
Proof. intros H0 H1. unfold kcon, ne. yields_with real_fact ltac:(val_eq). Qed.
End Grid.

(* ------------------------------------------------------------------------------------------- *)
(* 6. the emitted configuration: every key carries the quantity with that meaning                 *)
Section Emit.
Variables (jm ecj grid ecm axes : val).
Definition htab : list (string * callee) :=
  [("model_marginalization", COracle (fun args kws w => Ok (VTuple [jm; ecj], logc "model_marginalization" (tl args ++ map snd kws) w)));
   ("anisotropy_scaling", COracle (fun args kws w => Ok (grid, w)));
   ("@error_cov_measurement", COracle (fun args kws w => Ok (ecm, w)));
   reg src_KinScalingConfig_kin_scaling_param_array; reg src_KinScalingConfig_param_name_list].
Definition Gh : fenv := FEnv (fun _ m => assoc m htab) (fun _ => None).
Definition hobj (names : val) (cls : string) (extra : list (string * val)) := VObj cls
  ([("_z_lens", num (1/2)); ("_z_source", num 2); ("_sigma_v_measured", vec [250; 260]); ("_anisotropy_model", VStr "OM"); ("_param_name_list", names); ("_ani_param_array", axes);
    ("_gamma", num 2); ("_gamma_error", num (1/10))] ++ extra).
Definition common (names : val) (t : string) (mid : list (string * val)) : list (string * val) :=
  [("z_lens", num (1/2)); ("z_source", num 2); ("likelihood_type", VStr t)] ++ mid ++
  [("sigma_v_measurement", vec [250; 260]); ("anisotropy_model", VStr "OM"); ("j_model", jm); ("error_cov_measurement", ecm); ("error_cov_j_sqrt", ecj);
   ("kin_scaling_param_list", names); ("j_kin_scaling_param_axes", axes); ("j_kin_scaling_grid_list", grid)].
Definition n2 := VList [VStr "a_ani"; VStr "gamma_pl"].  Definition n1 := VList [VStr "a_ani"].
Theorem emitted_kin_with_slope rg cu :
  yields Gh 80 (CFun src_KinConstraints_hierarchy_configuration) (Some (hobj n2 "KinConstraints" [])) [] [("num_sample_model", VInt 7)] rg cu
    (dict (common n2 "IFUKinCov" [] ++ [("prior_list", VList [VList [VStr "gamma_pl"; num 2; num (1/10)]])])) cu [("model_marginalization", [VInt 7])].
Proof. yields_auto. Qed.
Theorem emitted_kin_without_slope rg cu :
  yields Gh 80 (CFun src_KinConstraints_hierarchy_configuration) (Some (hobj n1 "KinConstraints" [])) [] [] rg cu
    (dict (common n1 "IFUKinCov" [] ++ [("prior_list", VList [])])) cu [("model_marginalization", [VInt 20])].
Proof. yields_auto. Qed.
Theorem emitted_ddt_hist_kin (sm wt : val) rg cu :
  yields Gh 80 (CFun src_DdtKinConstraints_hierarchy_configuration) (Some (hobj n2 "DdtKinConstraints" [("_ddt_sample", sm); ("_ddt_weights", wt)])) [] [] rg cu
    (dict (common n2 "DdtHistKin" [("ddt_samples", sm); ("ddt_weights", wt)] ++ [("prior_list", VList [VList [VStr "gamma_pl"; num 2; num (1/10)]])])) cu [("model_marginalization", [VInt 20])].
Proof. yields_auto. Qed.
Theorem emitted_ddt_gauss_kin (mu sg : val) rg cu :
  yields Gh 80 (CFun src_DdtGaussKinConstraints_hierarchy_configuration) (Some (hobj n1 "DdtGaussKinConstraints" [("_ddt_mean", mu); ("_ddt_sigma", sg)])) [] [] rg cu
    (dict (common n1 "DdtGaussKin" [("ddt_mean", mu); ("ddt_sigma", sg)])) cu [("model_marginalization", [VInt 20])].
Proof. yields_auto. Qed.
(* composite: a gamma_in prior exactly when the array and both prior numbers are given *)
Theorem emitted_composite_prior (gia : val) pm ps rg cu : gia = vec [1; 2] ->
  yields Gh 80 (CFun src_KinConstraintsComposite_hierarchy_configuration) (Some (hobj n1 "KinConstraintsComposite" [("gamma_in_array", gia); ("_gamma_in_prior_mean", num pm); ("_gamma_in_prior_std", num ps)])) [] [] rg cu
    (dict (common n1 "IFUKinCov" [] ++ [("prior_list", VList [VList [VStr "gamma_in"; num pm; num ps]])])) cu [("model_marginalization", [VInt 20])].
Proof. intros ->. yields_auto. Qed.
Theorem emitted_composite_no_prior (gia : val) pm rg cu : gia = vec [1; 2] ->
  yields Gh 80 (CFun src_KinConstraintsComposite_hierarchy_configuration) (Some (hobj n1 "KinConstraintsComposite" [("gamma_in_array", gia); ("_gamma_in_prior_mean", num pm); ("_gamma_in_prior_std", VNone)])) [] [] rg cu
    (dict (common n1 "IFUKinCov" [] ++ [("prior_list", VNone)])) cu [("model_marginalization", [VInt 20])].
Proof. intros ->. yields_auto. Qed.
End Emit.

(* J-model and sqrt(J) covariance: the mean over the lens-model draws and numpy.cov of sqrt(J) (bins x draws), each draw WITH errors at the base configuration *)
Section Marginal.
Variables (a0 a1 b0 b1 : R) (cv ka : val).
Definition mtab : list (string * callee) :=
  [("j_kin_draw", COracle (fun args kws w => Ok ((if Nat.eqb (length (olog w)) 0 then vec [a0; a1] else vec [b0; b1]), logc "j_kin_draw" (tl args ++ map snd kws) w)));
   ("@kwargs_anisotropy_base", COracle (fun _ _ w => Ok (ka, w))); ("@kwargs_lens_base", COracle (fun _ _ w => Ok (dict [("gamma_pl", num 2)], w)))].
Definition Gm : fenv := FEnv (fun _ m => assoc m mtab)
  (fun n => if String.eqb n "np.cov" then Some (COracle (fun args kws w => Ok (cv, logc "np.cov" args w))) else None).
Theorem marginalisation rg cu : 0 <= a0 -> 0 <= a1 -> 0 <= b0 -> 0 <= b1 ->
  yields Gm 100 (CFun src_KinConstraints_model_marginalization) (Some (VObj "KinConstraints" [("_sigma_v_measured", vec [250; 260])])) [VInt 2] [] rg cu
    (VTuple [vec [(a0 + (b0 + 0)) / 2; (a1 + (b1 + 0)) / 2]; cv]) cu
    [("np.cov", [VArr [VList [num (sqrt a0); num (sqrt b0)]; VList [num (sqrt a1); num (sqrt b1)]]]);
     ("j_kin_draw", [ka; VBool false; num 2]); ("j_kin_draw", [ka; VBool false; num 2])].
Proof. intros. yields_with real_fact ltac:(val_eq). Qed.
End Marginal.

(* ------------------------------------------------------------------------------------------- *)
(* 7. composite (stars + dark matter) draws: stellar amplitude 10^log(M/L) x light / Sigma_crit in BOTH mass-to-light modes,
      light sizes scaled with the drawn half-light radius, halo normalisation by the selected input mode                     *)
Section Composite.
Variables (hn rs lm re dre amp sg0 sc tE gm gin : R) (J0 : R) (aRs : R).
Definition engine_c : callee := COracle (fun args kws w => Ok (vec [J0], logc "engine" (map (fun kv => VTuple [VStr (fst kv); snd kv]) kws) w)).
Definition ctab (pop : bool) : list (string * callee) :=
  [("velocity_dispersion_map_dimension_less", engine_c);
   ("draw_lens", COracle (fun args kws w => Ok ((if pop then VTuple [num hn; num rs; num re; num dre] else VTuple [num hn; num rs; num lm; num re; num dre]),
                                                logc "draw_lens" (map snd kws) w)));
   ("kappa_s_to_alpha_Rs", COracle (fun args kws w => Ok (num aRs, logc "kappa_s_to_alpha_Rs" (tl args) w)))].
Definition Gk (pop : bool) : fenv := FEnv (fun _ m => assoc m (ctab pop)) (fun n => if String.eqb n "GNFW" then Some (COracle (fun _ _ w => Ok (VObj "GNFW" [], w))) else None).
Definition comp (alpha_mode : bool) := VObj "KinConstraintsComposite"
  [("_kwargs_lens_light", VList [dict [("amp", num amp); ("sigma", num sg0)]]); ("lensCosmo", VObj "LensCosmo" [("sigma_crit_angle", num sc)]);
   ("_is_normalization_alpha_Rs", VBool alpha_mode); ("_theta_E", num tE); ("_gamma", num gm)].
Definition expected_engine (alpha : R) (lml : R) : list val :=
  [VTuple [VStr "kwargs_lens"; VList [dict [("Rs", num rs); ("gamma_in", num gin); ("alpha_Rs", num alpha); ("center_x", VInt 0); ("center_y", VInt 0)];
                                       dict [("amp", num (amp * (Rpower 10 lml / sc))); ("sigma", num (sg0 * dre))]]];
   VTuple [VStr "kwargs_lens_light"; VList [dict [("amp", num amp); ("sigma", num (sg0 * dre))]]];
   VTuple [VStr "kwargs_anisotropy"; VStr "ka"]; VTuple [VStr "r_eff"; num re]; VTuple [VStr "theta_E"; num tE]; VTuple [VStr "gamma"; num gm]].
Theorem composite_population_level rg cu : sc <> 0 ->
  yields (Gk true) 100 (CFun src_KinConstraintsComposite_j_kin_draw_composite) (Some (comp true)) [VStr "ka"; num gin; num lm] [] rg cu (vec [J0]) cu
    [("engine", expected_engine hn lm); ("draw_lens", [VBool false])].
Proof. intros H. unfold expected_engine, comp. yields_with real_fact ltac:(val_eq). Qed.
Theorem composite_per_lens_m2l rg cu : sc <> 0 ->
  yields (Gk false) 100 (CFun src_KinConstraintsComposite_j_kin_draw_composite_m2l) (Some (comp true)) [VStr "ka"; num gin] [] rg cu (vec [J0]) cu
    [("engine", expected_engine hn lm); ("draw_lens", [VBool false])].
Proof. intros H. unfold expected_engine, comp. yields_with real_fact ltac:(val_eq). Qed.
(* kappa_s input mode: converted with the drawn scale radius and the inner slope *)
Theorem composite_kappa_s_mode rg cu : sc <> 0 ->
  yields (Gk true) 100 (CFun src_KinConstraintsComposite_j_kin_draw_composite) (Some (comp false)) [VStr "ka"; num gin; num lm] [] rg cu (vec [J0]) cu
    [("engine", expected_engine aRs lm); ("kappa_s_to_alpha_Rs", [num hn; num rs; num gin]); ("draw_lens", [VBool false])].
Proof. intros H. unfold expected_engine, comp. yields_with real_fact ltac:(val_eq). Qed.
End Composite.
