(* C16 - BaseLensConfig.__init__: every lens-posterior number reaches the part of the object that uses it.  The lenstronomy base class
   (TDCosmography.__init__, kinematics_modeling_settings) records what it is given; ImageModelPosterior.__init__ and KinScalingConfig.__init__
   are the real serialised constructors.  Source = C16.Src. *)
From Coq Require Import Reals ZArith String List Bool Lra.
Require Import Py.PyAst Py.PyVal Py.PySem Py.XLemmas Py.Unfold Py.Tactics.
Require Import C16.Src C16.Model.
Import ListNotations.
Open Scope string_scope.

Section BaseCfg.
Definition rec_base (tag : string) : callee :=
  COracle (fun args kws w => Ok (hd VNone args, World (rng w) (cur w) ((tag, tl args ++ map (fun kv => VTuple [VStr (fst kv); snd kv]) kws)%list :: olog w) (decs w) (pc w))).
Definition rec_meth (tag : string) : callee :=
  COracle (fun args kws w => Ok (VNone, World (rng w) (cur w) ((tag, tl args ++ map (fun kv => VTuple [VStr (fst kv); snd kv]) kws)%list :: olog w) (decs w) (pc w))).
Definition Gb : fenv :=
  FEnv (fun cls m => if String.eqb m "kinematics_modeling_settings" then Some (rec_meth "kinematics_modeling_settings") else None)
       (fun n => if String.eqb n "TDCosmography.__init__" then Some (rec_base "TDCosmography.__init__")
                 else if String.eqb n "ImageModelPosterior.__init__" then Some (CFun src_ImageModelPosterior_init)
                 else if String.eqb n "KinScalingConfig.__init__" then Some (CFun src_KinScalingConfig_init)
                 else if String.eqb n "KinScalingParamManager.__init__" then Some (CFun src_KinScalingParamManager_init)
                 else if String.eqb n "np.array" then None else None).
Definition fld (o : val) (k : string) : option val := match o with VObj _ fs => field_get k fs | _ => None end.
Variables (zl zs tE sE gm sg re sre : R) (ap see numk light gpl : val).
Definition base_args : list val := [num zl; num zs; num tE; num sE; num gm; num sg; num re; num sre; ap; see; numk; VStr "OM"].
Theorem base_config_wiring rg cu : gpl = vec [1; 2] ->
  exists o log,
  yields Gb 160 (CClass "BaseLensConfig" src_BaseLensConfig_init) None base_args [("kwargs_lens_light", light); ("gamma_pl_scaling", gpl)] rg cu o cu log
  (* the imaging posterior: each mean and each error in its own slot *)
  /\ fld o "_theta_E" = Some (num tE) /\ fld o "_theta_E_error" = Some (num sE)
  /\ fld o "_gamma" = Some (num gm) /\ fld o "_gamma_error" = Some (num sg)
  /\ fld o "_r_eff" = Some (num re) /\ fld o "_r_eff_error" = Some (num sre)
  /\ fld o "_z_lens" = Some (num zl) /\ fld o "_z_source" = Some (num zs)
  /\ fld o "_kwargs_lens_light" = Some light
  /\ fld o "_anisotropy_model" = Some (VStr "OM")
  (* the engine is configured once, with this anisotropy model and these numerics, and is told the aperture / seeing of THIS lens *)
  /\ map fst (rev log) = ["TDCosmography.__init__"; "kinematics_modeling_settings"]
  /\ (exists rest, nth 1 (rev log) ("", []) = ("kinematics_modeling_settings", VStr "OM" :: numk :: rest))
  /\ (exists m rest, nth 0 (rev log) ("", []) = ("TDCosmography.__init__", num zl :: num zs :: m :: rest)
        /\ In (VTuple [VStr "kwargs_seeing"; see]) rest /\ In (VTuple [VStr "kwargs_aperture"; ap]) rest).
Proof.
  intros ->. eexists. eexists. split; [unfold base_args; yields_with real_fact ltac:(reflexivity)|].
  cbn. repeat split; try reflexivity.
  - eexists. reflexivity.
  - eexists. eexists. split; [reflexivity|]. split; cbn; tauto.
Qed.
(* KinConstraints.__init__: the measurement and its three error specifications are stored as given, and the base class receives the
   twelve positional numbers in ITS order (z_lens, z_source, theta_E, its error, gamma, its error, r_eff, its error, aperture, seeing,
   numerics, anisotropy model) and the scaling axes by keyword *)
Definition Gk : fenv := FEnv (fun _ _ => None) (fun n => if String.eqb n "BaseLensConfig.__init__" then Some (rec_base "BaseLensConfig.__init__") else None).
Variables (sv ind cov cm gin lm : val).
Theorem kin_constraints_ctor_wiring rg cu :
  exists o log,
  yields Gk 120 (CClass "KinConstraints" src_KinConstraints_init) None
    [num zl; num zs; num tE; num sE; num gm; num sg; num re; num sre; sv; ap; see; numk; VStr "GOM"]
    [("sigma_v_error_independent", ind); ("sigma_v_error_covariant", cov); ("sigma_v_error_cov_matrix", cm); ("kwargs_lens_light", light);
     ("gamma_in_scaling", gin); ("log_m2l_scaling", lm); ("gamma_pl_scaling", gpl)] rg cu o cu log
  /\ fld o "_sigma_v_measured" = Some (arr sv) /\ fld o "_sigma_v_error_independent" = Some (arr ind)
  /\ fld o "_sigma_v_error_covariant" = Some cov /\ fld o "_sigma_v_error_cov_matrix" = Some cm
  /\ fld o "_kwargs_lens_light" = Some light /\ fld o "_anisotropy_model" = Some (VStr "GOM")
  /\ (exists rest, log = [("BaseLensConfig.__init__", num zl :: num zs :: num tE :: num sE :: num gm :: num sg :: num re :: num sre :: ap :: see :: numk :: VStr "GOM" :: rest)]
        /\ In (VTuple [VStr "kwargs_lens_light"; light]) rest /\ In (VTuple [VStr "gamma_in_scaling"; gin]) rest
        /\ In (VTuple [VStr "log_m2l_scaling"; lm]) rest /\ In (VTuple [VStr "gamma_pl_scaling"; gpl]) rest).
Proof.
  eexists. eexists. split; [yields_with real_fact ltac:(reflexivity)|].
  cbn. repeat split; try reflexivity. eexists. split; [reflexivity|]. cbn. tauto.
Qed.
End BaseCfg.
