(* C16 - the three sub-class constructors of the posterior processing (DdtKinConstraints, DdtGaussKinConstraints, KinConstraintsComposite): what the
   user passes reaches, THROUGH the serialised KinConstraints.__init__, the base configuration under the parameter of the same name - positional
   arguments land on the base's parameters in the base's own order - and the quantities the sub-class keeps for itself are stored unswapped.
   `super(C, self).__init__` is resolved through the class statement's base list (src_bases, regenerated).  Source = C16.Src. *)
From Coq Require Import Reals ZArith String List Bool Lra.
Require Import Py.PyAst Py.PyVal Py.PySem Py.XLemmas Py.Unfold Py.Tactics.
Require Import C16.Src C16.Model C16.BaseCfg.
Import ListNotations.
Open Scope string_scope.

Fixpoint assoc {A} (k : string) (l : list (string * A)) : option A :=
  match l with [] => None | (k', v) :: t => if String.eqb k k' then Some v else assoc k t end.
(* the constructor of the (single) base class named in the class statement *)
Definition ctor_table : list (string * callee) := [("KinConstraints", CFun src_KinConstraints_init)].
Definition super_init (c : string) : option callee :=
  match assoc c src_bases with Some [b] => assoc b ctor_table | _ => None end.
Definition is_true (v : val) : bool := match v with VBool true => true | _ => false end.
Definition Gs : fenv :=
  FEnv (fun cls m => if String.eqb m "_check_arrays" then Some (CFun src_KinConstraintsComposite_check_arrays)
                     else if String.eqb m "get_kappa_s_r_s_angle" then Some (COracle (fun args _ w => Ok (VTuple [VStr "kappa_s(rho0,r_s)"; VStr "r_s_angle(rho0,r_s)"],
                                         World (rng w) (cur w) (("get_kappa_s_r_s_angle", tl args) :: olog w) (decs w) (pc w))))
                     else None)
       (fun n => if String.eqb n "BaseLensConfig.__init__" then Some (rec_base "BaseLensConfig.__init__")
                 else if String.eqb n "super(DdtKinConstraints).__init__" then super_init "DdtKinConstraints"
                 else if String.eqb n "super(DdtGaussKinConstraints).__init__" then super_init "DdtGaussKinConstraints"
                 else if String.eqb n "super(KinConstraintsComposite).__init__" then super_init "KinConstraintsComposite"
                 else None).

(* every parameter (but self) gets its own name as value, except the overridden ones *)
Definition tagged (fd : fundef) (over : list (string * val)) : list (string * val) :=
  map (fun p => (fst p, match assoc (fst p) over with Some v => v | None => VStr (fst p) end)) (tl (f_params fd)).
(* what the base constructor was given, as one association list: positional arguments bound to the base's parameters in ITS order *)
Definition base_params : list string := map fst (tl (f_params src_BaseLensConfig_init)).
Fixpoint bind_pos (ps : list string) (args : list val) : list (string * val) :=
  match ps, args with
  | p :: ps', VTuple [VStr k; v] :: r => (k, v) :: bind_pos ps r        (* keyword part of the record *)
  | p :: ps', a :: r => (p, a) :: bind_pos ps' r
  | _, _ => [] end.
Definition received (log : list (string * list val)) : list (string * val) :=
  match log with [(_, args)] => bind_pos (base_params ++ repeat "" 40)%list args | _ => [] end.
(* every parameter the sub-class shares with the base configuration reaches it under its own name (after the documented renames) *)
Definition shared (sub : fundef) : list string := filter (fun p => existsb (String.eqb p) base_params) (map fst (tl (f_params sub))).
Definition reaches_base (sub : fundef) (over : list (string * val)) (log : list (string * list val)) (except : list string) : bool :=
  forallb (fun p => existsb (String.eqb p) except ||
                    match assoc p (received log), assoc p (tagged sub over) with Some a, Some b => val_eqb a b | _, _ => false end) (shared sub).
Definition fld (o : val) (k : string) : option val := match o with VObj _ fs => field_get k fs | _ => None end.

Section Sub.
Variables (rg : nat -> R) (cu : nat).

(* DdtKinConstraints: samples and weights, kappa_ext mean and sigma are kept (unswapped); 25 shared parameters reach the base configuration *)
Theorem ddt_kin_ctor :
  exists o log, yields Gs 120 (CClass "DdtKinConstraints" src_DdtKinConstraints_init) None [] (tagged src_DdtKinConstraints_init []) rg cu o cu log
    /\ fld o "_ddt_sample" = Some (VStr "ddt_samples") /\ fld o "_ddt_weights" = Some (VStr "ddt_weights")
    /\ fld o "_kappa_ext_mean" = Some (VStr "kappa_ext") /\ fld o "_kappa_ext_sigma" = Some (VStr "kappa_ext_sigma")
    /\ fld o "_sigma_v_measured" = Some (VStr "sigma_v_measured") /\ fld o "_sigma_v_error_independent" = Some (VStr "sigma_v_error_independent")
    /\ fld o "_sigma_v_error_covariant" = Some (VStr "sigma_v_error_covariant") /\ fld o "_sigma_v_error_cov_matrix" = Some (VStr "sigma_v_error_cov_matrix")
    /\ reaches_base src_DdtKinConstraints_init [] log [] = true
    /\ List.length (shared src_DdtKinConstraints_init) = 22%nat
    /\ assoc "gamma_pl_scaling" (received log) = Some (VStr "gamma_pl_scaling").
Proof. eexists. eexists. split; [unfold tagged; yields_auto | vm_compute; repeat split; reflexivity]. Qed.

(* DdtGaussKinConstraints: mean and sigma of the time-delay distance, kappa_ext mean and sigma kept; no slope axis is configured *)
Theorem ddt_gauss_kin_ctor :
  exists o log, yields Gs 120 (CClass "DdtGaussKinConstraints" src_DdtGaussKinConstraints_init) None [] (tagged src_DdtGaussKinConstraints_init []) rg cu o cu log
    /\ fld o "_ddt_mean" = Some (VStr "ddt_mean") /\ fld o "_ddt_sigma" = Some (VStr "ddt_sigma")
    /\ fld o "_kappa_ext_mean" = Some (VStr "kappa_ext") /\ fld o "_kappa_ext_sigma" = Some (VStr "kappa_ext_sigma")
    /\ fld o "_sigma_v_measured" = Some (VStr "sigma_v_measured") /\ fld o "_sigma_v_error_independent" = Some (VStr "sigma_v_error_independent")
    /\ reaches_base src_DdtGaussKinConstraints_init [] log [] = true
    /\ List.length (shared src_DdtGaussKinConstraints_init) = 21%nat
    /\ assoc "gamma_pl_scaling" (received log) = Some VNone.
Proof. eexists. eexists. split; [unfold tagged; yields_auto | vm_compute; repeat split; reflexivity]. Qed.

(* KinConstraintsComposite: which arrays become the halo normalisation and the scale radius in each of the three supported input modes, the flag
   that says whether the normalisation is alpha_Rs, the axes handed on (gamma_in_scaling = gamma_in_array; log_m2l_scaling = log_m2l_array exactly
   when the mass-to-light ratio is a population-level parameter), the lens model ["GNFW", "MULTI_GAUSSIAN"], and the two refusals *)
Definition tv (a b : string) : val := VArr [VStr a; VStr b].
Definition comp_over (alpha rsa kappa rho rs : val) (pop : bool) (m2l : val) : list (string * val) :=
  [("lens_light_model_list", VList [VStr "MULTI_GAUSSIAN"]); ("gamma_in_array", tv "g0" "g1"); ("log_m2l_array", m2l);
   ("alpha_Rs_array", alpha); ("r_s_angle_array", rsa); ("kappa_s_array", kappa); ("rho0_array", rho); ("r_s_array", rs);
   ("is_m2l_population_level", VBool pop)].
Definition comp_run (ov : list (string * val)) (o : val) (log : list (string * list val)) : Prop :=
  yields Gs 140 (CClass "KinConstraintsComposite" src_KinConstraintsComposite_init) None [] (tagged src_KinConstraintsComposite_init ov) rg cu o cu log.
Definition base_of (log : list (string * list val)) : list (string * val) :=
  match log with (t, args) :: _ => if String.eqb t "BaseLensConfig.__init__" then received [(t, args)] else [] | _ => [] end.
Theorem composite_ctor_alpha (pop : bool) :
  let ov := comp_over (tv "a0" "a1") (tv "r0" "r1") (tv "k0" "k1") (tv "h0" "h1") (tv "s0" "s1") pop (tv "l0" "l1") in
  exists o log, comp_run ov o log
    /\ fld o "_halo_normalization_array" = Some (tv "a0" "a1") /\ fld o "_is_normalization_alpha_Rs" = Some (VBool true)
    /\ fld o "_r_scale_angle_array" = Some (tv "r0" "r1")
    /\ fld o "gamma_in_array" = Some (tv "g0" "g1") /\ fld o "log_m2l_array" = Some (tv "l0" "l1")
    /\ fld o "_is_m2l_population_level" = Some (VBool pop)
    /\ fld o "_gamma_in_prior_mean" = Some (VStr "gamma_in_prior_mean") /\ fld o "_gamma_in_prior_std" = Some (VStr "gamma_in_prior_std")
    /\ assoc "gamma_in_scaling" (base_of (rev log)) = Some (tv "g0" "g1")
    /\ assoc "log_m2l_scaling" (base_of (rev log)) = Some (if pop then tv "l0" "l1" else VNone)
    /\ assoc "lens_model_list" (base_of (rev log)) = Some (VList [VStr "GNFW"; VStr "MULTI_GAUSSIAN"])
    /\ assoc "MGE_light" (base_of (rev log)) = Some (VBool false) /\ assoc "hernquist_approx" (base_of (rev log)) = Some (VBool false)
    /\ reaches_base src_KinConstraintsComposite_init ov [hd ("", []) (rev log)] ["kwargs_mge_light"] = true.
Proof. destruct pop; eexists; eexists; (split; [unfold comp_run, tagged; yields_auto | vm_compute; repeat split; reflexivity]). Qed.
Theorem composite_ctor_kappa :
  let ov := comp_over VNone (tv "r0" "r1") (tv "k0" "k1") (tv "h0" "h1") (tv "s0" "s1") true (tv "l0" "l1") in
  exists o log, comp_run ov o log
    /\ fld o "_halo_normalization_array" = Some (tv "k0" "k1") /\ fld o "_is_normalization_alpha_Rs" = Some (VBool false)
    /\ fld o "_r_scale_angle_array" = Some (tv "r0" "r1").
Proof. eexists; eexists; (split; [unfold comp_run, tagged; yields_auto | vm_compute; repeat split; reflexivity]). Qed.
Theorem composite_ctor_rho0 :
  let ov := comp_over VNone VNone (tv "k0" "k1") (tv "h0" "h1") (tv "s0" "s1") true (tv "l0" "l1") in
  exists o log, comp_run ov o log
    /\ fld o "_halo_normalization_array" = Some (VStr "kappa_s(rho0,r_s)") /\ fld o "_is_normalization_alpha_Rs" = Some (VBool false)
    /\ fld o "_r_scale_angle_array" = Some (VStr "r_s_angle(rho0,r_s)")
    /\ hd ("", []) log = ("get_kappa_s_r_s_angle", [tv "h0" "h1"; tv "s0" "s1"]).
Proof. eexists; eexists; (split; [unfold comp_run, tagged; yields_auto | vm_compute; repeat split; reflexivity]). Qed.
(* no complete pair of arrays, or arrays of different lengths: refused *)
Theorem composite_ctor_refuses :
  (exists ds, call Gs 140 (CClass "KinConstraintsComposite" src_KinConstraintsComposite_init) None []
     (tagged src_KinConstraintsComposite_init (comp_over VNone (tv "r0" "r1") VNone (tv "h0" "h1") VNone true (tv "l0" "l1"))) (World rg cu [] ds []) = Exc "ValueError")
  /\ (exists ds, call Gs 140 (CClass "KinConstraintsComposite" src_KinConstraintsComposite_init) None []
     (tagged src_KinConstraintsComposite_init (comp_over (VArr [VStr "a0"; VStr "a1"; VStr "a2"]) (tv "r0" "r1") VNone VNone VNone true (tv "l0" "l1"))) (World rg cu [] ds []) = Exc "ValueError")
  (* per-lens mass-to-light ratios must pair off with the halo normalisations *)
  /\ (exists ds, call Gs 140 (CClass "KinConstraintsComposite" src_KinConstraintsComposite_init) None []
     (tagged src_KinConstraintsComposite_init (comp_over (tv "a0" "a1") (tv "r0" "r1") VNone VNone VNone false (VArr [VStr "l0"]))) (World rg cu [] ds []) = Exc "ValueError").
Proof.
  repeat split;
  lazymatch goal with |- exists ds, call ?G ?f ?c ?sf ?a ?k (World ?r ?u [] ds []) = Exc ?e =>
    find_answers real_fact (fun ds => call G f c sf a k (World r u [] ds [])) (@nil bool) ltac:(fun ds => exists ds; reflexivity) end.
Qed.
End Sub.
