(* C16 — property theorems only (statements printed by Coq from Model.v and re-checked here). Source = C16.Src, regenerated from /repo on this run. *)
From Coq Require Import Reals ZArith String List Bool Lra.
Require Import Py.PyAst Py.PyVal Py.PySem Py.XLemmas.
Require Import C16.Src C16.Model.
Import ListNotations.
Open Scope string_scope.
Open Scope list_scope.
Open Scope R_scope.

(* lens-model draws respect their physical ranges for EVERY random stream: theta_E >= 0, 1 <= gamma <= 2.999, delta_r_eff >= 0.001, r_eff = delta x mean *)
Theorem C16_draw_lens_ranges :
  forall (tE sE g sg re sre : R) (rg : nat -> R) (cu : nat),
       re <> 0 ->
       yields G0 60 (CFun src_ImageModelPosterior_draw_lens) (Some (img tE sE g sg re sre)) [] [] rg cu
         (VTuple
            [num (Rmax (tE + sE * rg cu) 0); num (clip_g (g + sg * rg (S cu))); num (Rmax (1 + sre / re * rg (S (S cu))) (1 / 1000) * re);
             num (Rmax (1 + sre / re * rg (S (S cu))) (1 / 1000))]) (S (S (S cu))) [].
Proof. exact draw_lens_ranges. Qed.
Print Assumptions C16_draw_lens_ranges.
Theorem C16_draw_lens_given_slope :
  forall (tE sE g sg re sre gp : R) (rg : nat -> R) (cu : nat),
       re <> 0 ->
       yields G0 60 (CFun src_ImageModelPosterior_draw_lens) (Some (img tE sE g sg re sre)) [] [("gamma_pl", num gp)] rg cu
         (VTuple
            [num (Rmax (tE + sE * rg cu) 0); num gp; num (Rmax (1 + sre / re * rg (S cu)) (1 / 1000) * re); num (Rmax (1 + sre / re * rg (S cu)) (1 / 1000))])
         (S (S cu)) [].
Proof. exact draw_lens_given_slope. Qed.
Theorem C16_draw_lens_no_error :
  forall (tE sE g sg re sre : R) (rg : nat -> R) (cu : nat),
       yields G0 60 (CFun src_ImageModelPosterior_draw_lens) (Some (img tE sE g sg re sre)) [] [("no_error", VBool true)] rg cu
         (VTuple [num tE; num g; num re; VInt 1]) cu [].
Proof. exact draw_lens_no_error. Qed.
Theorem C16_clip_g_range :
  forall x : R, 1 <= clip_g x <= 2999 / 1000.
Proof. exact clip_g_range. Qed.
(* measurement covariance = covariant^2 (all entries) + diag(independent^2); a supplied matrix is used as is; missing pieces raise *)
Theorem C16_cov_meas_from_parts :
  forall (i0 i1 cv : R) (rg : nat -> R) (cu : nat),
       yields G0 60 (CFun src_KinConstraints_error_cov_measurement) (Some (kc (vec [i0; i1]) (num cv) VNone)) [] [] rg cu
         (mat [[cv * cv + i0 ^ 2; cv * cv + 0]; [cv * cv + 0; cv * cv + i1 ^ 2]]) cu [].
Proof. exact cov_meas_from_parts. Qed.
Theorem C16_cov_meas_supplied :
  forall (ind cov m : val) (rg : nat -> R) (cu : nat),
       m = mat [[1; 2]; [2; 5]] -> yields G0 60 (CFun src_KinConstraints_error_cov_measurement) (Some (kc ind cov m)) [] [] rg cu m cu [].
Proof. exact cov_meas_supplied. Qed.
Theorem C16_cov_meas_missing_raises :
  forall (i0 i1 : R) (w : world),
       call G0 60 (CFun src_KinConstraints_error_cov_measurement) (Some (kc (vec [i0; i1]) VNone VNone)) [] [] w = Exc "ValueError".
Proof. exact cov_meas_missing_raises. Qed.
(* scaling configuration: names and axes in ONE declared order (a_ani, beta_inf, gamma_in, log_m2l, gamma_pl) *)
Theorem C16_config_order :
  forall (re : R) (gi lm gp : val) (rg : nat -> R) (cu : nat),
       gi = VList [num 1; num 2] ->
       lm = VList [num 3; num 4] ->
       gp = VList [num 5; num 6] ->
       exists o : val,
         yields Gc 80 (CClass "KinScalingConfig" src_KinScalingConfig_init) None [VStr "GOM"; num re]
           [("gamma_in_scaling", gi); ("log_m2l_scaling", lm); ("gamma_pl_scaling", gp)] rg cu o cu [] /\
         field o "_param_name_list" = Some (VList [VStr "a_ani"; VStr "beta_inf"; VStr "gamma_in"; VStr "log_m2l"; VStr "gamma_pl"]) /\
         field o "_ani_param_array" =
         Some
           (VList
              [om_axis; VArr [VInt 0; VNum (Fin (dec 5 (-1))); VNum (Fin (dec 8 (-1))); VInt 1]; VArr [num 1; num 2]; VArr [num 3; num 4]; VArr [num 5; num 6]]) /\
         field o "_param_list" = Some (VList [VStr "a_ani"; VStr "beta_inf"; VStr "gamma_in"; VStr "log_m2l"; VStr "gamma_pl"]) /\
         field o "_num_param" = Some (VInt 5).
Proof. exact config_order. Qed.
(* meaning of the anisotropy parameters at the engine: r_ani = a_ani x r_eff (OM, GOM), beta_inf, beta = a_ani (const) *)
Theorem C16_aniso_meaning :
  forall (a b re : R) (rg : nat -> R) (cu : nat),
       yields G0 40 (CFun src_KinScalingConfig_anisotropy_kwargs) (Some (cfg "OM" re)) [] [("a_ani", num a)] rg cu (dict [("r_ani", num (a * re))]) cu [] /\
       yields G0 40 (CFun src_KinScalingConfig_anisotropy_kwargs) (Some (cfg "GOM" re)) [] [("a_ani", num a); ("beta_inf", num b)] rg cu
         (dict [("r_ani", num (a * re)); ("beta_inf", num b)]) cu [] /\
       yields G0 40 (CFun src_KinScalingConfig_anisotropy_kwargs) (Some (cfg "const" re)) [] [("a_ani", num a)] rg cu (dict [("beta", num a)]) cu [].
Proof. exact aniso_meaning. Qed.
Theorem C16_aniso_base :
  forall (re : R) (rg : nat -> R) (cu : nat),
       yields G0 40 (CFun src_KinScalingConfig_kwargs_anisotropy_base) (Some (cfg "OM" re)) [] [] rg cu (dict [("r_ani", num (1 * re))]) cu [] /\
       yields G0 40 (CFun src_KinScalingConfig_kwargs_anisotropy_base) (Some (cfg "GOM" re)) [] [] rg cu (dict [("r_ani", num (1 * re)); ("beta_inf", VInt 1)])
         cu [] /\
       yields G0 40 (CFun src_KinScalingConfig_kwargs_anisotropy_base) (Some (cfg "const" re)) [] [] rg cu (dict [("beta", VNum (Fin (dec 1 (-1))))]) cu [].
Proof. exact aniso_base. Qed.
(* what reaches the kinematics engine from a power-law draw; supplied light profiles are COPIED and their sizes scaled with the drawn half-light radius *)
Theorem C16_engine_args_default :
  forall (tE gm re dre J0 J1 : R) (ka : val) (gp : R) (rg : nat -> R) (cu : nat),
       yields (Ge tE gm re dre J0 J1) 80 (CFun src_KinConstraints_j_kin_draw) (Some (kobj VNone)) [ka] [("gamma_pl", num gp); ("no_error", VBool true)] rg cu
         (vec [J0; J1]) cu
         [("engine",
           [VTuple [VStr "kwargs_lens"; lensk tE gm]; VTuple [VStr "kwargs_lens_light"; VList [dict [("Rs", num (re * (551 / 1000))); ("amp", num 1)]]];
            VTuple [VStr "kwargs_anisotropy"; ka]; VTuple [VStr "r_eff"; num re]; VTuple [VStr "theta_E"; num tE]; VTuple [VStr "gamma"; num gm]]);
          ("draw_lens", [VTuple [VStr "gamma_pl"; num gp]; VTuple [VStr "no_error"; VBool true]])].
Proof. exact engine_args_default. Qed.
Theorem C16_engine_args_light :
  forall (tE gm re dre J0 J1 : R) (ka : val) (r1 r2 a1 : R) (rg : nat -> R) (cu : nat),
       yields (Ge tE gm re dre J0 J1) 80 (CFun src_KinConstraints_j_kin_draw)
         (Some (kobj (VList [dict [("Rs", num r1); ("amp", num a1)]; dict [("R_sersic", num r2); ("n_sersic", num 4)]]))) [ka] [] rg cu 
         (vec [J0; J1]) cu
         [("engine",
           [VTuple [VStr "kwargs_lens"; lensk tE gm];
            VTuple [VStr "kwargs_lens_light"; VList [dict [("Rs", num (r1 * dre)); ("amp", num a1)]; dict [("R_sersic", num (r2 * dre)); ("n_sersic", num 4)]]];
            VTuple [VStr "kwargs_anisotropy"; ka]; VTuple [VStr "r_eff"; num re]; VTuple [VStr "theta_E"; num tE]; VTuple [VStr "gamma"; num gm]]);
          ("draw_lens", [VTuple [VStr "gamma_pl"; VNone]; VTuple [VStr "no_error"; VBool false]])].
Proof. exact engine_args_light. Qed.
(* every node of each scaling grid is J(parameters at the node) / J(base), axes in the declared order (1 axis; 2 x 3 GOM grid; anisotropy x slope with the slope routed to the lens keywords) *)
Theorem C16_grid_one_axis :
  forall (Jf : nat -> val -> list (string * val) -> R) (re j00 j01 a0 a1 : R) (rg : nat -> R) (cu : nat),
       j00 <> 0 ->
       j01 <> 0 ->
       yields (Gg Jf) 120 (CFun src_KinConstraints_anisotropy_scaling_relative) (Some (kcon re "OM" ["a_ani"] [vec [a0; a1]])) [vec [j00; j01]] [] rg cu
         (VList
            [vec [Jf 0%nat (dict [("r_ani", num (a0 * re))]) ne / j00; Jf 0%nat (dict [("r_ani", num (a1 * re))]) ne / j00];
             vec [Jf 1%nat (dict [("r_ani", num (a0 * re))]) ne / j01; Jf 1%nat (dict [("r_ani", num (a1 * re))]) ne / j01]]) cu [].
Proof. exact grid_one_axis. Qed.
Theorem C16_grid_two_axes_gom :
  forall (Jf : nat -> val -> list (string * val) -> R) (re j00 j01 a0 a1 b0 b1 b2 : R) (rg : nat -> R) (cu : nat),
       j00 <> 0 ->
       j01 <> 0 ->
       yields (Gg Jf) 160 (CFun src_KinConstraints_anisotropy_scaling_relative) (Some (kcon re "GOM" ["a_ani"; "beta_inf"] [vec [a0; a1]; vec [b0; b1; b2]]))
         [vec [j00; j01]] [] rg cu
         (VList
            [VArr
               [VList [num (Jf 0%nat (nodeG re a0 b0) ne / j00); num (Jf 0%nat (nodeG re a0 b1) ne / j00); num (Jf 0%nat (nodeG re a0 b2) ne / j00)];
                VList [num (Jf 0%nat (nodeG re a1 b0) ne / j00); num (Jf 0%nat (nodeG re a1 b1) ne / j00); num (Jf 0%nat (nodeG re a1 b2) ne / j00)]];
             VArr
               [VList [num (Jf 1%nat (nodeG re a0 b0) ne / j01); num (Jf 1%nat (nodeG re a0 b1) ne / j01); num (Jf 1%nat (nodeG re a0 b2) ne / j01)];
                VList [num (Jf 1%nat (nodeG re a1 b0) ne / j01); num (Jf 1%nat (nodeG re a1 b1) ne / j01); num (Jf 1%nat (nodeG re a1 b2) ne / j01)]]]) cu [].
Proof. exact grid_two_axes_gom. Qed.
Print Assumptions C16_grid_two_axes_gom.
Theorem C16_grid_two_axes_slope :
  forall (Jf : nat -> val -> list (string * val) -> R) (re j00 j01 a0 a1 g0 g1 : R) (rg : nat -> R) (cu : nat),
       j00 <> 0 ->
       j01 <> 0 ->
       yields (Gg Jf) 160 (CFun src_KinConstraints_anisotropy_scaling_relative) (Some (kcon re "OM" ["a_ani"; "gamma_pl"] [vec [a0; a1]; vec [g0; g1]]))
         [vec [j00; j01]] [] rg cu
         (VList
            [VArr
               [VList
                  [num (Jf 0%nat (dict [("r_ani", num (a0 * re))]) (ne ++ [("gamma_pl", num g0)]) / j00);
                   num (Jf 0%nat (dict [("r_ani", num (a0 * re))]) (ne ++ [("gamma_pl", num g1)]) / j00)];
                VList
                  [num (Jf 0%nat (dict [("r_ani", num (a1 * re))]) (ne ++ [("gamma_pl", num g0)]) / j00);
                   num (Jf 0%nat (dict [("r_ani", num (a1 * re))]) (ne ++ [("gamma_pl", num g1)]) / j00)]];
             VArr
               [VList
                  [num (Jf 1%nat (dict [("r_ani", num (a0 * re))]) (ne ++ [("gamma_pl", num g0)]) / j01);
                   num (Jf 1%nat (dict [("r_ani", num (a0 * re))]) (ne ++ [("gamma_pl", num g1)]) / j01)];
                VList
                  [num (Jf 1%nat (dict [("r_ani", num (a1 * re))]) (ne ++ [("gamma_pl", num g0)]) / j01);
                   num (Jf 1%nat (dict [("r_ani", num (a1 * re))]) (ne ++ [("gamma_pl", num g1)]) / j01)]]]) cu [].
Proof. exact grid_two_axes_slope. Qed.
(* the emitted configuration: each key carries the quantity of that meaning; gamma_pl prior (imaging mean, error) iff gamma_pl is interpolated; composite gamma_in prior iff array and both numbers given *)
Theorem C16_emitted_kin_with_slope :
  forall (jm ecj grid ecm axes : val) (rg : nat -> R) (cu : nat),
       yields (Gh jm ecj grid ecm) 80 (CFun src_KinConstraints_hierarchy_configuration) (Some (hobj axes n2 "KinConstraints" [])) []
         [("num_sample_model", VInt 7)] rg cu
         (dict (common jm ecj grid ecm axes n2 "IFUKinCov" [] ++ [("prior_list", VList [VList [VStr "gamma_pl"; num 2; num (1 / 10)]])])) cu
         [("model_marginalization", [VInt 7])].
Proof. exact emitted_kin_with_slope. Qed.
Theorem C16_emitted_kin_without_slope :
  forall (jm ecj grid ecm axes : val) (rg : nat -> R) (cu : nat),
       yields (Gh jm ecj grid ecm) 80 (CFun src_KinConstraints_hierarchy_configuration) (Some (hobj axes n1 "KinConstraints" [])) [] [] rg cu
         (dict (common jm ecj grid ecm axes n1 "IFUKinCov" [] ++ [("prior_list", VList [])])) cu [("model_marginalization", [VInt 20])].
Proof. exact emitted_kin_without_slope. Qed.
Theorem C16_emitted_ddt_hist_kin :
  forall (jm ecj grid ecm axes sm wt : val) (rg : nat -> R) (cu : nat),
       yields (Gh jm ecj grid ecm) 80 (CFun src_DdtKinConstraints_hierarchy_configuration)
         (Some (hobj axes n2 "DdtKinConstraints" [("_ddt_sample", sm); ("_ddt_weights", wt)])) [] [] rg cu
         (dict
            (common jm ecj grid ecm axes n2 "DdtHistKin" [("ddt_samples", sm); ("ddt_weights", wt)] ++
             [("prior_list", VList [VList [VStr "gamma_pl"; num 2; num (1 / 10)]])])) cu [("model_marginalization", [VInt 20])].
Proof. exact emitted_ddt_hist_kin. Qed.
Theorem C16_emitted_ddt_gauss_kin :
  forall (jm ecj grid ecm axes mu sg : val) (rg : nat -> R) (cu : nat),
       yields (Gh jm ecj grid ecm) 80 (CFun src_DdtGaussKinConstraints_hierarchy_configuration)
         (Some (hobj axes n1 "DdtGaussKinConstraints" [("_ddt_mean", mu); ("_ddt_sigma", sg)])) [] [] rg cu
         (dict (common jm ecj grid ecm axes n1 "DdtGaussKin" [("ddt_mean", mu); ("ddt_sigma", sg)])) cu [("model_marginalization", [VInt 20])].
Proof. exact emitted_ddt_gauss_kin. Qed.
Theorem C16_emitted_composite_prior :
  forall (jm ecj grid ecm axes gia : val) (pm ps : R) (rg : nat -> R) (cu : nat),
       gia = vec [1; 2] ->
       yields (Gh jm ecj grid ecm) 80 (CFun src_KinConstraintsComposite_hierarchy_configuration)
         (Some (hobj axes n1 "KinConstraintsComposite" [("gamma_in_array", gia); ("_gamma_in_prior_mean", num pm); ("_gamma_in_prior_std", num ps)])) [] [] rg
         cu (dict (common jm ecj grid ecm axes n1 "IFUKinCov" [] ++ [("prior_list", VList [VList [VStr "gamma_in"; num pm; num ps]])])) cu
         [("model_marginalization", [VInt 20])].
Proof. exact emitted_composite_prior. Qed.
Theorem C16_emitted_composite_no_prior :
  forall (jm ecj grid ecm axes gia : val) (pm : R) (rg : nat -> R) (cu : nat),
       gia = vec [1; 2] ->
       yields (Gh jm ecj grid ecm) 80 (CFun src_KinConstraintsComposite_hierarchy_configuration)
         (Some (hobj axes n1 "KinConstraintsComposite" [("gamma_in_array", gia); ("_gamma_in_prior_mean", num pm); ("_gamma_in_prior_std", VNone)])) [] [] rg
         cu (dict (common jm ecj grid ecm axes n1 "IFUKinCov" [] ++ [("prior_list", VNone)])) cu [("model_marginalization", [VInt 20])].
Proof. exact emitted_composite_no_prior. Qed.
(* J-model = mean over the lens-model draws (with errors, base configuration), sqrt(J) covariance = numpy.cov of sqrt(J) arranged bins x draws *)
Theorem C16_marginalisation :
  forall (a0 a1 b0 b1 : R) (cv ka : val) (rg : nat -> R) (cu : nat),
       0 <= a0 ->
       0 <= a1 ->
       0 <= b0 ->
       0 <= b1 ->
       yields (Gm a0 a1 b0 b1 cv ka) 100 (CFun src_KinConstraints_model_marginalization) (Some (VObj "KinConstraints" [("_sigma_v_measured", vec [250; 260])]))
         [VInt 2] [] rg cu (VTuple [vec [(a0 + (b0 + 0)) / 2; (a1 + (b1 + 0)) / 2]; cv]) cu
         [("np.cov", [VArr [VList [num (sqrt a0); num (sqrt b0)]; VList [num (sqrt a1); num (sqrt b1)]]]); ("j_kin_draw", [ka; VBool false; num 2]);
          ("j_kin_draw", [ka; VBool false; num 2])].
Proof. exact marginalisation. Qed.
(* composite models: stellar amplitude 10^log(M/L) x light / Sigma_crit in BOTH mass-to-light modes, sizes x delta_r_eff, halo normalisation by input mode *)
Theorem C16_composite_population_level :
  forall (hn rs lm re dre amp sg0 sc tE gm gin J0 aRs : R) (rg : nat -> R) (cu : nat),
       sc <> 0 ->
       yields (Gk hn rs lm re dre J0 aRs true) 100 (CFun src_KinConstraintsComposite_j_kin_draw_composite) (Some (comp amp sg0 sc tE gm true))
         [VStr "ka"; num gin; num lm] [] rg cu (vec [J0]) cu [("engine", expected_engine rs re dre amp sg0 sc tE gm gin hn lm); ("draw_lens", [VBool false])].
Proof. exact composite_population_level. Qed.
Theorem C16_composite_per_lens_m2l :
  forall (hn rs lm re dre amp sg0 sc tE gm gin J0 aRs : R) (rg : nat -> R) (cu : nat),
       sc <> 0 ->
       yields (Gk hn rs lm re dre J0 aRs false) 100 (CFun src_KinConstraintsComposite_j_kin_draw_composite_m2l) (Some (comp amp sg0 sc tE gm true))
         [VStr "ka"; num gin] [] rg cu (vec [J0]) cu [("engine", expected_engine rs re dre amp sg0 sc tE gm gin hn lm); ("draw_lens", [VBool false])].
Proof. exact composite_per_lens_m2l. Qed.
Print Assumptions C16_composite_per_lens_m2l.
Theorem C16_composite_kappa_s_mode :
  forall (hn rs lm re dre amp sg0 sc tE gm gin J0 aRs : R) (rg : nat -> R) (cu : nat),
       sc <> 0 ->
       yields (Gk hn rs lm re dre J0 aRs true) 100 (CFun src_KinConstraintsComposite_j_kin_draw_composite) (Some (comp amp sg0 sc tE gm false))
         [VStr "ka"; num gin; num lm] [] rg cu (vec [J0]) cu
         [("engine", expected_engine rs re dre amp sg0 sc tE gm gin aRs lm); ("kappa_s_to_alpha_Rs", [num hn; num rs; num gin]); ("draw_lens", [VBool false])].
Proof. exact composite_kappa_s_mode. Qed.

(* ---- composite (stars + dark matter) configuration: scaling grids and their reference ---- *)
Require Import C16.Composite.
(* per-lens M/L mode: grid[m][i, k] (OM) / grid[m][i, j, k] (GOM) = J_m(anisotropy node, inner-slope node) / j0_m;
   population-level mode (OM): grid[m][i, k, l] = J_m(a_i, g_k, logM/L_l) / j0_m - axes in the order (anisotropy..., gamma_in, log_m2l) *)
Theorem C16_composite_grid_nodes : forall (Jp : nat -> val -> val -> val -> list (string * val) -> R) (Jl : nat -> val -> val -> list (string * val) -> R) re
    a0 a1 g0 g1 g2 l0 l1 b0 b1 j00 j01 rg cu, j00 <> 0 -> j01 <> 0 ->
  let c := fun m a g => num (Jl m (aOM re a) (num g) ne / (if Nat.eqb m 0 then j00 else j01)) in
  yields (Gc2 Jp Jl) 200 (CFun src_KinConstraintsComposite_anisotropy_scaling_relative_m2l) (Some (ccon re "OM" false [vec [a0; a1]] (vec [g0; g1; g2]) VNone)) [vec [j00; j01]] [] rg cu
    (VList [VArr [VList [c 0%nat a0 g0; c 0%nat a0 g1; c 0%nat a0 g2]; VList [c 0%nat a1 g0; c 0%nat a1 g1; c 0%nat a1 g2]];
            VArr [VList [c 1%nat a0 g0; c 1%nat a0 g1; c 1%nat a0 g2]; VList [c 1%nat a1 g0; c 1%nat a1 g1; c 1%nat a1 g2]]]) cu []
  /\ yields (Gc2 Jp Jl) 260 (CFun src_KinConstraintsComposite_anisotropy_scaling_relative) (Some (ccon re "OM" true [vec [a0; a1]] (vec [g0; g1]) (vec [l0; l1]))) [vec [j00; j01]] [] rg cu
    (VList [VArr [VList [VList [cell Jp re 0 a0 g0 l0 j00; cell Jp re 0 a0 g0 l1 j00]; VList [cell Jp re 0 a0 g1 l0 j00; cell Jp re 0 a0 g1 l1 j00]];
                  VList [VList [cell Jp re 0 a1 g0 l0 j00; cell Jp re 0 a1 g0 l1 j00]; VList [cell Jp re 0 a1 g1 l0 j00; cell Jp re 0 a1 g1 l1 j00]]];
            VArr [VList [VList [cell Jp re 1 a0 g0 l0 j01; cell Jp re 1 a0 g0 l1 j01]; VList [cell Jp re 1 a0 g1 l0 j01; cell Jp re 1 a0 g1 l1 j01]];
                  VList [VList [cell Jp re 1 a1 g0 l0 j01; cell Jp re 1 a1 g0 l1 j01]; VList [cell Jp re 1 a1 g1 l0 j01; cell Jp re 1 a1 g1 l1 j01]]]]) cu []
  /\ yields (Gc2 Jp Jl) 260 (CFun src_KinConstraintsComposite_anisotropy_scaling_relative_m2l) (Some (ccon re "GOM" false [vec [a0; a1]; vec [b0; b1]] (vec [g0; g1]) VNone)) [vec [j00; j01]] [] rg cu
    (VList [VArr [VList [VList [cellG Jl re 0 a0 b0 g0 j00; cellG Jl re 0 a0 b0 g1 j00]; VList [cellG Jl re 0 a0 b1 g0 j00; cellG Jl re 0 a0 b1 g1 j00]];
                  VList [VList [cellG Jl re 0 a1 b0 g0 j00; cellG Jl re 0 a1 b0 g1 j00]; VList [cellG Jl re 0 a1 b1 g0 j00; cellG Jl re 0 a1 b1 g1 j00]]];
            VArr [VList [VList [cellG Jl re 1 a0 b0 g0 j01; cellG Jl re 1 a0 b0 g1 j01]; VList [cellG Jl re 1 a0 b1 g0 j01; cellG Jl re 1 a0 b1 g1 j01]];
                  VList [VList [cellG Jl re 1 a1 b0 g0 j01; cellG Jl re 1 a1 b0 g1 j01]; VList [cellG Jl re 1 a1 b1 g0 j01; cellG Jl re 1 a1 b1 g1 j01]]]]) cu [].
Proof. intros Jp Jl re a0 a1 g0 g1 g2 l0 l1 b0 b1 j00 j01 rg cu H0 H1 c. split; [exact (comp_grid_m2l_om Jp Jl re a0 a1 g0 g1 g2 j00 j01 rg cu H0 H1) | split; [apply comp_grid_pop_om; assumption | apply comp_grid_m2l_gom; assumption]]. Qed.
Print Assumptions C16_composite_grid_nodes.
(* the reference: J at the anisotropy base values and the MEAN of the inner-slope axis (not its middle node); the grids of the emitted
   configuration are exactly the node ratios with that reference *)
Theorem C16_composite_reference_is_axis_mean : forall (Jp : nat -> val -> val -> val -> list (string * val) -> R) (Jl : nat -> val -> val -> list (string * val) -> R) re a0 a1 g0 g1 g2 rg cu,
  Jl 0%nat (base_om re) (num ((g0 + (g1 + (g2 + 0))) / 3)) ne <> 0 -> Jl 1%nat (base_om re) (num ((g0 + (g1 + (g2 + 0))) / 3)) ne <> 0 ->
  exists grids,
  yields (Gc2 Jp Jl) 300 (CFun src_KinConstraintsComposite_anisotropy_scaling) (Some (ccon re "OM" false [vec [a0; a1]] (vec [g0; g1; g2]) VNone)) [] [] rg cu grids cu []
  /\ yields (Gc2 Jp Jl) 200 (CFun src_KinConstraintsComposite_anisotropy_scaling_relative_m2l) (Some (ccon re "OM" false [vec [a0; a1]] (vec [g0; g1; g2]) VNone))
       [vec [Jl 0%nat (base_om re) (num ((g0 + (g1 + (g2 + 0))) / 3)) ne; Jl 1%nat (base_om re) (num ((g0 + (g1 + (g2 + 0))) / 3)) ne]] [] rg cu grids cu [].
Proof. exact comp_reference_m2l. Qed.
Print Assumptions C16_composite_reference_is_axis_mean.

(* the emitters never write in place through a parameter with a mutable default (the constructors have lens_light_model_list=["HERNQUIST"]-style
   defaults in the un-serialised part; of the serialised functions none mutates one): two hierarchy_configuration calls cannot influence
   each other through a default argument *)
Require Import Py.Defaults.
Theorem C16_no_shared_default_state : all_defaults_safe src_fundefs = true.
Proof. vm_compute. reflexivity. Qed.
Print Assumptions C16_no_shared_default_state.

(* the composite marginalisation evaluates J at the point the grids are normalised by (anisotropy base values, MEAN of the inner-slope axis,
   MEAN of the mass-to-light axis in the population-level mode), errors on; J-model = mean over the draws, covariance = numpy.cov of sqrt(J) *)
Theorem C16_composite_marginalisation : forall a0 a1 b0 b1 g0 g1 g2 l0 l1 (cv ka : val) rg cu, 0 <= a0 -> 0 <= a1 -> 0 <= b0 -> 0 <= b1 ->
  yields (Gmc a0 a1 b0 b1 cv ka) 120 (CFun src_KinConstraintsComposite_model_marginalization) (Some (cobj g0 g1 g2 l0 l1 true)) [VInt 2] [] rg cu
    (VTuple [vec [(a0 + (b0 + 0)) / 2; (a1 + (b1 + 0)) / 2]; cv]) cu
    [("np.cov", [VArr [VList [num (sqrt a0); num (sqrt b0)]; VList [num (sqrt a1); num (sqrt b1)]]]);
     ("j_kin_draw_composite", [ka; num ((g0 + (g1 + (g2 + 0))) / 3); num ((l0 + (l1 + 0)) / 2); VBool false]);
     ("j_kin_draw_composite", [ka; num ((g0 + (g1 + (g2 + 0))) / 3); num ((l0 + (l1 + 0)) / 2); VBool false])]
  /\ yields (Gmc a0 a1 b0 b1 cv ka) 120 (CFun src_KinConstraintsComposite_model_marginalization) (Some (cobj g0 g1 g2 l0 l1 false)) [VInt 2] [] rg cu
    (VTuple [vec [(a0 + (b0 + 0)) / 2; (a1 + (b1 + 0)) / 2]; cv]) cu
    [("np.cov", [VArr [VList [num (sqrt a0); num (sqrt b0)]; VList [num (sqrt a1); num (sqrt b1)]]]);
     ("j_kin_draw_composite_m2l", [ka; num ((g0 + (g1 + (g2 + 0))) / 3); VBool false]);
     ("j_kin_draw_composite_m2l", [ka; num ((g0 + (g1 + (g2 + 0))) / 3); VBool false])].
Proof. intros. split; [apply comp_marginalisation_pop | apply comp_marginalisation_m2l]; assumption. Qed.
Print Assumptions C16_composite_marginalisation.

(* BaseLensConfig.__init__ (real source; the lenstronomy base class records what it is given): each mean and each error of the imaging
   posterior lands in its own slot (what draw_lens, C16_draw_lens_ranges, reads), the supplied light profile is stored, the scaling-axis
   configuration receives THIS r_eff and slope, the engine is configured once with this anisotropy model / numerics / aperture / seeing *)
Require Import C16.BaseCfg.
Theorem C16_base_config_wiring : forall (zl zs tE sE gm sg re sre : R) (ap see numk light gpl : val) rg cu, gpl = vec [1; 2] ->
  exists o log,
  yields Gb 160 (CClass "BaseLensConfig" src_BaseLensConfig_init) None (base_args zl zs tE sE gm sg re sre ap see numk) [("kwargs_lens_light", light); ("gamma_pl_scaling", gpl)] rg cu o cu log
  /\ fld o "_theta_E" = Some (num tE) /\ fld o "_theta_E_error" = Some (num sE)
  /\ fld o "_gamma" = Some (num gm) /\ fld o "_gamma_error" = Some (num sg)
  /\ fld o "_r_eff" = Some (num re) /\ fld o "_r_eff_error" = Some (num sre)
  /\ fld o "_z_lens" = Some (num zl) /\ fld o "_z_source" = Some (num zs)
  /\ fld o "_kwargs_lens_light" = Some light
  /\ fld o "_anisotropy_model" = Some (VStr "OM")
  /\ map fst (rev log) = ["TDCosmography.__init__"; "kinematics_modeling_settings"]
  /\ (exists rest, nth 1 (rev log) ("", []) = ("kinematics_modeling_settings", VStr "OM" :: numk :: rest))
  /\ (exists m rest, nth 0 (rev log) ("", []) = ("TDCosmography.__init__", num zl :: num zs :: m :: rest)
        /\ In (VTuple [VStr "kwargs_seeing"; see]) rest /\ In (VTuple [VStr "kwargs_aperture"; ap]) rest).
Proof. intros. apply base_config_wiring. assumption. Qed.
Print Assumptions C16_base_config_wiring.

(* KinConstraints.__init__: measurement and error specifications stored as given; the base class gets its twelve positional numbers in its own
   order and the scaling axes by keyword *)
Theorem C16_kin_constraints_constructor : forall (zl zs tE sE gm sg re sre : R) (ap see numk light gpl sv ind cov cm gin lm : val) rg cu,
  exists o log,
  yields Gk 120 (CClass "KinConstraints" src_KinConstraints_init) None
    [num zl; num zs; num tE; num sE; num gm; num sg; num re; num sre; sv; ap; see; numk; VStr "GOM"]
    [("sigma_v_error_independent", ind); ("sigma_v_error_covariant", cov); ("sigma_v_error_cov_matrix", cm); ("kwargs_lens_light", light);
     ("gamma_in_scaling", gin); ("log_m2l_scaling", lm); ("gamma_pl_scaling", gpl)] rg cu o cu log
  /\ fld o "_sigma_v_measured" = Some (arr sv) /\ fld o "_sigma_v_error_independent" = Some (arr ind)
  /\ fld o "_sigma_v_error_covariant" = Some cov /\ fld o "_sigma_v_error_cov_matrix" = Some cm
  /\ fld o "_kwargs_lens_light" = Some light /\ fld o "_anisotropy_model" = Some (VStr "GOM")
  /\ (exists rest, log = [("BaseLensConfig.__init__", num zl :: num zs :: num tE :: num sE :: num gm :: num sg :: num re :: num sre :: ap :: see :: numk :: VStr "GOM" :: rest)]
        /\ In (VTuple [VStr "kwargs_lens_light"; light]) rest /\ In (VTuple [VStr "gamma_in_scaling"; gin]) rest
        /\ In (VTuple [VStr "log_m2l_scaling"; lm]) rest /\ In (VTuple [VStr "gamma_pl_scaling"; gpl]) rest).
Proof. intros. apply kin_constraints_ctor_wiring. Qed.
Print Assumptions C16_kin_constraints_constructor.

(* THE SUB-CLASS CONSTRUCTORS (SubCtor.v): DdtKinConstraints, DdtGaussKinConstraints and KinConstraintsComposite run on parameters that each carry
   their own name as value; `super(C, self).__init__` is the serialised KinConstraints.__init__ (base list read from the class statement), which
   calls the recording BaseLensConfig.__init__.  What the sub-class keeps (Ddt samples / weights or mean / sigma, kappa_ext mean / sigma) is stored
   unswapped, and every parameter shared with the base configuration reaches it under its own name - positional arguments bound to the base's
   parameters in the base's order.  For the composite model: which arrays become the halo normalisation / scale radius in each input mode, the axes
   handed on, and the refusals. *)
Require Import C16.SubCtor.
Theorem C16_ddt_kin_constructor : forall rg cu,
  exists o log, yields Gs 120 (CClass "DdtKinConstraints" src_DdtKinConstraints_init) None [] (tagged src_DdtKinConstraints_init []) rg cu o cu log
    /\ SubCtor.fld o "_ddt_sample" = Some (VStr "ddt_samples") /\ SubCtor.fld o "_ddt_weights" = Some (VStr "ddt_weights")
    /\ SubCtor.fld o "_kappa_ext_mean" = Some (VStr "kappa_ext") /\ SubCtor.fld o "_kappa_ext_sigma" = Some (VStr "kappa_ext_sigma")
    /\ SubCtor.fld o "_sigma_v_measured" = Some (VStr "sigma_v_measured") /\ SubCtor.fld o "_sigma_v_error_independent" = Some (VStr "sigma_v_error_independent")
    /\ SubCtor.fld o "_sigma_v_error_covariant" = Some (VStr "sigma_v_error_covariant") /\ SubCtor.fld o "_sigma_v_error_cov_matrix" = Some (VStr "sigma_v_error_cov_matrix")
    /\ reaches_base src_DdtKinConstraints_init [] log [] = true
    /\ List.length (shared src_DdtKinConstraints_init) = 22%nat
    /\ SubCtor.assoc "gamma_pl_scaling" (received log) = Some (VStr "gamma_pl_scaling").
Proof. exact ddt_kin_ctor. Qed.
Print Assumptions C16_ddt_kin_constructor.
Theorem C16_ddt_gauss_kin_constructor : forall rg cu,
  exists o log, yields Gs 120 (CClass "DdtGaussKinConstraints" src_DdtGaussKinConstraints_init) None [] (tagged src_DdtGaussKinConstraints_init []) rg cu o cu log
    /\ SubCtor.fld o "_ddt_mean" = Some (VStr "ddt_mean") /\ SubCtor.fld o "_ddt_sigma" = Some (VStr "ddt_sigma")
    /\ SubCtor.fld o "_kappa_ext_mean" = Some (VStr "kappa_ext") /\ SubCtor.fld o "_kappa_ext_sigma" = Some (VStr "kappa_ext_sigma")
    /\ SubCtor.fld o "_sigma_v_measured" = Some (VStr "sigma_v_measured") /\ SubCtor.fld o "_sigma_v_error_independent" = Some (VStr "sigma_v_error_independent")
    /\ reaches_base src_DdtGaussKinConstraints_init [] log [] = true
    /\ List.length (shared src_DdtGaussKinConstraints_init) = 21%nat
    /\ SubCtor.assoc "gamma_pl_scaling" (received log) = Some VNone.
Proof. exact ddt_gauss_kin_ctor. Qed.
Print Assumptions C16_ddt_gauss_kin_constructor.
Theorem C16_composite_constructor : forall rg cu (pop : bool),
  let ov := comp_over (tv "a0" "a1") (tv "r0" "r1") (tv "k0" "k1") (tv "h0" "h1") (tv "s0" "s1") pop (tv "l0" "l1") in
  exists o log, comp_run rg cu ov o log
    /\ SubCtor.fld o "_halo_normalization_array" = Some (tv "a0" "a1") /\ SubCtor.fld o "_is_normalization_alpha_Rs" = Some (VBool true)
    /\ SubCtor.fld o "_r_scale_angle_array" = Some (tv "r0" "r1")
    /\ SubCtor.fld o "gamma_in_array" = Some (tv "g0" "g1") /\ SubCtor.fld o "log_m2l_array" = Some (tv "l0" "l1")
    /\ SubCtor.fld o "_is_m2l_population_level" = Some (VBool pop)
    /\ SubCtor.fld o "_gamma_in_prior_mean" = Some (VStr "gamma_in_prior_mean") /\ SubCtor.fld o "_gamma_in_prior_std" = Some (VStr "gamma_in_prior_std")
    /\ SubCtor.assoc "gamma_in_scaling" (base_of (rev log)) = Some (tv "g0" "g1")
    /\ SubCtor.assoc "log_m2l_scaling" (base_of (rev log)) = Some (if pop then tv "l0" "l1" else VNone)
    /\ SubCtor.assoc "lens_model_list" (base_of (rev log)) = Some (VList [VStr "GNFW"; VStr "MULTI_GAUSSIAN"])
    /\ SubCtor.assoc "MGE_light" (base_of (rev log)) = Some (VBool false) /\ SubCtor.assoc "hernquist_approx" (base_of (rev log)) = Some (VBool false)
    /\ reaches_base src_KinConstraintsComposite_init ov [hd ("", []) (rev log)] ["kwargs_mge_light"] = true.
Proof. exact composite_ctor_alpha. Qed.
Print Assumptions C16_composite_constructor.
Theorem C16_composite_constructor_other_modes : forall rg cu,
  (let ov := comp_over VNone (tv "r0" "r1") (tv "k0" "k1") (tv "h0" "h1") (tv "s0" "s1") true (tv "l0" "l1") in
   exists o log, comp_run rg cu ov o log
    /\ SubCtor.fld o "_halo_normalization_array" = Some (tv "k0" "k1") /\ SubCtor.fld o "_is_normalization_alpha_Rs" = Some (VBool false)
    /\ SubCtor.fld o "_r_scale_angle_array" = Some (tv "r0" "r1"))
  /\ (let ov := comp_over VNone VNone (tv "k0" "k1") (tv "h0" "h1") (tv "s0" "s1") true (tv "l0" "l1") in
   exists o log, comp_run rg cu ov o log
    /\ SubCtor.fld o "_halo_normalization_array" = Some (VStr "kappa_s(rho0,r_s)") /\ SubCtor.fld o "_is_normalization_alpha_Rs" = Some (VBool false)
    /\ SubCtor.fld o "_r_scale_angle_array" = Some (VStr "r_s_angle(rho0,r_s)")
    /\ hd ("", []) log = ("get_kappa_s_r_s_angle", [tv "h0" "h1"; tv "s0" "s1"])).
Proof. intros rg cu. exact (conj (composite_ctor_kappa rg cu) (composite_ctor_rho0 rg cu)). Qed.
Print Assumptions C16_composite_constructor_other_modes.
Theorem C16_composite_constructor_refuses : forall rg cu,
  (exists ds, call Gs 140 (CClass "KinConstraintsComposite" src_KinConstraintsComposite_init) None []
     (tagged src_KinConstraintsComposite_init (comp_over VNone (tv "r0" "r1") VNone (tv "h0" "h1") VNone true (tv "l0" "l1"))) (World rg cu [] ds []) = Exc "ValueError")
  /\ (exists ds, call Gs 140 (CClass "KinConstraintsComposite" src_KinConstraintsComposite_init) None []
     (tagged src_KinConstraintsComposite_init (comp_over (VArr [VStr "a0"; VStr "a1"; VStr "a2"]) (tv "r0" "r1") VNone VNone VNone true (tv "l0" "l1"))) (World rg cu [] ds []) = Exc "ValueError")
  /\ (exists ds, call Gs 140 (CClass "KinConstraintsComposite" src_KinConstraintsComposite_init) None []
     (tagged src_KinConstraintsComposite_init (comp_over (tv "a0" "a1") (tv "r0" "r1") VNone VNone VNone false (VArr [VStr "l0"]))) (World rg cu [] ds []) = Exc "ValueError").
Proof. exact composite_ctor_refuses. Qed.
Print Assumptions C16_composite_constructor_refuses.
