(* C02 — property theorems only. Source = C02.Src, regenerated from /repo on this run. *)
From Coq Require Import Reals ZArith String List Bool Lra.
Require Import Py.PyAst Py.PyVal Py.PySem Py.XLemmas.
Require Import Py.Sym.
Require Import C02.Src C02.Model C02.Edge C02.BoxN C02.GuardN.
Import ListNotations.
Open Scope string_scope.
Open Scope R_scope.

(* outside the box in any component (three symbolic components, any position, either side): -inf, and NOTHING is evaluated -
   the oracle log is empty: no vector->dictionary map, no cosmology, no lens likelihood. The edge is inside. *)
Theorem C02_outside_box : forall (Ls : R) (lens_list : val) (cosmology : string) l0 l1 l2 u0 u1 u2 x0 x1 x2 om ok h rg cu,
  ~ (inside l0 u0 x0 /\ inside l1 u1 x1 /\ inside l2 u2 x2) ->
  yields (Gt Ls om ok h) 100 (CFun src_CosmoLikelihood_likelihood) (Some (cl_obj lens_list cosmology l0 l1 l2 u0 u1 u2)) [VList [num x0; num x1; num x2]] [] rg cu
    (VNum NegInf) cu [].
Proof. exact outside_box. Qed.
Print Assumptions C02_outside_box.
Example C02_outside_nonvacuous : ~ (inside 0 1 2 /\ inside 0 1 (1/2) /\ inside 0 1 (1/2)).
Proof. unfold inside. lra. Qed.
Theorem C02_box_check_any_length : forall x lo hi, length lo = length x -> length hi = length x -> (box_check x lo hi = true <-> box_ok x lo hi).
Proof. exact box_check_spec. Qed.
Theorem C02_edge_is_inside : forall a l h, l <= h -> (a = l \/ a = h) -> l <= a <= h.
Proof. exact box_edge_inside. Qed.

Theorem C02_inside_evaluates_once : forall (Ls : R) l0 l1 l2 u0 u1 u2 x0 x1 x2 om ok h rg cu,
  inside l0 u0 x0 -> inside l1 u1 x1 -> inside l2 u2 x2 ->
  exists log,
  yields (Gt Ls om ok h) 100 (CFun src_CosmoLikelihood_likelihood) (Some (cl_obj (VList []) "FLCDM" l0 l1 l2 u0 u1 u2)) [VList [num x0; num x1; num x2]] [] rg cu
    (num Ls) cu log
  /\ map fst log = ["lens"; "cosmo"; "args2kwargs"].
Proof. exact inside_box_evaluates_once. Qed.

(* curved LCDM: non-positive E(z)^2 at a lens' highest source redshift (z_source2, else z_source, else 1100) or non-positive dark energy
   -> -inf with only the vector->dictionary map evaluated; otherwise the lens sample is evaluated exactly once *)
Theorem C02_olcdm_guard : forall (Ls : R) zs1 zs2a zs2b om ok h l0 l1 l2 u0 u1 u2 x0 x1 x2 rg cu,
  inside l0 u0 x0 -> inside l1 u1 x1 -> inside l2 u2 x2 ->
  E2 om ok zs1 <= 0 \/ E2 om ok zs2b <= 0 \/ E2 om ok 1100 <= 0 \/ 1 - om - ok <= 0 ->
  yields (Gt Ls om ok h) 100 (CFun src_CosmoLikelihood_likelihood) (Some (cl_obj (lenses zs1 zs2a zs2b) "oLCDM" l0 l1 l2 u0 u1 u2)) [VList [num x0; num x1; num x2]] [] rg cu
    (VNum NegInf) cu [("args2kwargs", [VList [num x0; num x1; num x2]])].
Proof. exact olcdm_guard_rejects. Qed.
(* a supplied distance table with its own curvature entries does not blind the guard: it judges the SAMPLED (om, ok) *)
Theorem C02_olcdm_guard_judges_sampled_curvature : forall (Ls : R) zs1 zs2a zs2b om ok h okt kt (tab zz : val) l0 l1 l2 u0 u1 u2 x0 x1 x2 rg cu,
  inside l0 u0 x0 -> inside l1 u1 x1 -> inside l2 u2 x2 ->
  E2 om ok zs1 <= 0 \/ E2 om ok zs2b <= 0 \/ E2 om ok 1100 <= 0 \/ 1 - om - ok <= 0 ->
  yields (Gt Ls om ok h) 100 (CFun src_CosmoLikelihood_likelihood) (Some (cl_obj (lenses zs1 zs2a zs2b) "oLCDM" l0 l1 l2 u0 u1 u2)) [VList [num x0; num x1; num x2]]
    [("kwargs_cosmo_interp", dict [("ang_diameter_distances", tab); ("redshifts", zz); ("ok", num okt); ("K", num kt)])] rg cu
    (VNum NegInf) cu [("args2kwargs", [VList [num x0; num x1; num x2]])].
Proof. exact olcdm_guard_judges_sampled_curvature. Qed.
Print Assumptions C02_olcdm_guard_judges_sampled_curvature.
(* a sample with no lens at all (supernovae / KDE likelihoods only): non-positive dark-energy density is still rejected, nothing evaluated *)
Theorem C02_olcdm_guard_without_lenses : forall (Ls : R) om ok h l0 l1 l2 u0 u1 u2 x0 x1 x2 rg cu,
  inside l0 u0 x0 -> inside l1 u1 x1 -> inside l2 u2 x2 ->
  (1 - om - ok <= 0 ->
   yields (Gt Ls om ok h) 100 (CFun src_CosmoLikelihood_likelihood) (Some (cl_obj (VList []) "oLCDM" l0 l1 l2 u0 u1 u2)) [VList [num x0; num x1; num x2]] [] rg cu
     (VNum NegInf) cu [("args2kwargs", [VList [num x0; num x1; num x2]])]) /\
  (0 < 1 - om - ok -> exists log,
   yields (Gt Ls om ok h) 100 (CFun src_CosmoLikelihood_likelihood) (Some (cl_obj (VList []) "oLCDM" l0 l1 l2 u0 u1 u2)) [VList [num x0; num x1; num x2]] [] rg cu
     (num Ls) cu log /\ map fst log = ["lens"; "cosmo"; "args2kwargs"]).
Proof. intros; split; intros; [eapply olcdm_guard_no_lenses | eapply olcdm_no_lenses_passes]; eassumption. Qed.
Print Assumptions C02_olcdm_guard_without_lenses.
Theorem C02_olcdm_guard_passes : forall (Ls : R) zs1 zs2a zs2b om ok h l0 l1 l2 u0 u1 u2 x0 x1 x2 rg cu,
  inside l0 u0 x0 -> inside l1 u1 x1 -> inside l2 u2 x2 ->
  0 < E2 om ok zs1 -> 0 < E2 om ok zs2b -> 0 < E2 om ok 1100 -> 0 < 1 - om - ok ->
  exists log,
  yields (Gt Ls om ok h) 100 (CFun src_CosmoLikelihood_likelihood) (Some (cl_obj (lenses zs1 zs2a zs2b) "oLCDM" l0 l1 l2 u0 u1 u2)) [VList [num x0; num x1; num x2]] [] rg cu
    (num Ls) cu log
  /\ map fst log = ["lens"; "cosmo"; "args2kwargs"].
Proof. exact olcdm_guard_passes. Qed.
Print Assumptions C02_olcdm_guard.
(* the statement "E(z)^2 > 0 UP TO the highest source redshift" is NOT what the guard checks: witness with E^2 < 0 in between
   (known finding C02:olcdm_interior_E2); for ok >= 0 the end-point test does imply positivity everywhere *)
Theorem C02_interior_refuted : exists om ok zstar z, 0 < z < zstar /\ 0 < E2 om ok zstar /\ 0 < 1 - om - ok /\ E2 om ok z < 0.
Proof. exact olcdm_interior_refuted. Qed.
Theorem C02_interior_ok_nonneg_partial : forall om ok z, 0 <= om -> 0 <= ok -> 0 < 1 - om - ok -> 0 <= z -> 0 < E2 om ok z.
Proof. exact E2_pos_open_universe. Qed.

(* never NaN / +inf: a lens' value is nan_to_num of whatever the marginalisation produced, hence always a finite real;
   distances are floored at 1e-5 and finite even for Dds = 0; the mass-sheet factor is floored at 1e-4; singular covariance -> -inf *)
Theorem C02_lens_value_finite : forall (x : xreal) rg cu,
  exists v, yields (Gf x) 60 (CFun src_LensLikelihood_lens_log_likelihood) (Some (VObj "LensLikelihood" [("name", VStr "x")])) [VObj "Cosmo" []] [] rg cu v cu []
            /\ v = VNum (xnan_to_num x) /\ is_finite_val v.
Proof. exact lens_value_is_finite. Qed.
Theorem C02_distance_floor : forall dd ds dds rg cu,
  exists a b, yields (Gz dd ds dds) 60 (CFun src_LensLikelihood_angular_diameter_distances) (Some lens_z) [VObj "Cosmo" []] [] rg cu (VTuple [a; b]) cu []
              /\ floor5 a /\ floor5 b.
Proof. exact distances_floored. Qed.
Theorem C02_lambda_floor : forall ddt dd lam kap m rg cu, lam <> 0 ->
  exists a b c, yields Gl 40 (CFun src_TransformedCosmography_displace_lambda_mst) None [num ddt; num dd] [("lambda_mst", num lam); ("kappa_ext", num kap); ("mag_source", num m)] rg cu
                  (VTuple [VNum (Fin a); VNum (Fin b); VNum (Fin c)]) cu []
                /\ a = ddt * Rmax (lam * (1 + - kap)) (1/10000).
Proof. exact lambda_floor. Qed.
Theorem C02_mag_singular : forall (m2c : R -> R -> R) a0 a1 c00 c01 c10 c11 mu0 mu1 q00 q01 q10 q11 zp mu rg cu,
  yields (Gs m2c) 80 (CFun src_MagnificationLikelihood_log_likelihood)
    (Some (VObj "MagnificationLikelihood" [("_amp_measured", vec [a0; a1]); ("_cov_amp_measured", mat [[c00; c01]; [c10; c11]]);
            ("_mean_magnification_model", vec [mu0; mu1]); ("_cov_magnification_model", mat [[q00; q01]; [q10; q11]]);
            ("num_data", VInt 2); ("_magnitude_zero_point", num zp)]))
    [num mu] [] rg cu (VNum NegInf) cu [].
Proof. exact mag_singular_is_neginf. Qed.
Print Assumptions C02_distance_floor.
(* "does not raise" for the real numpy/scipy/astropy stack and float overflow are runtime facts: oracle only (partial) *)

(* the prior box of an interpolated anisotropy parameter may be the WHOLE interpolation range: a population mean anywhere in the CLOSED
   range - the edges included - is accepted (no ValueError), handed on unchanged, with no variate consumed *)
Theorem C02_mean_on_range_edge_accepted : forall amin amax bmin bmax a b sa sb rg cu,
  amin <= a <= amax -> bmin <= b <= bmax ->
  yields G0 100 (CFun src_AnisotropyDistribution_draw_anisotropy) None [aniso_obj "GOM" amin amax bmin bmax; Edge.num a; Edge.num sa; Edge.num b; Edge.num sb] [] rg cu
    (VDict [(VStr "a_ani", Edge.num a); (VStr "beta_inf", Edge.num b)]) cu [] /\
  (forall model, model = "OM" \/ model = "const" ->
   yields G0 100 (CFun src_AnisotropyDistribution_draw_anisotropy) None [aniso_obj model amin amax bmin bmax; Edge.num a; Edge.num sa; VNone; VInt 0] [] rg cu
    (VDict [(VStr "a_ani", Edge.num a)]) cu []).
Proof. intros; split; [apply mean_in_closed_range_accepted_gom; assumption | intros; apply mean_in_closed_range_accepted_om; assumption]. Qed.
Print Assumptions C02_mean_on_range_edge_accepted.
Example C02_edge_nonvacuous : (1/2 <= 1/2 <= 5) /\ (0 <= 1 <= 1).
Proof. lra. Qed.

(* THE PRIOR BOX FOR SAMPLING VECTORS OF ANY LENGTH n (the loop `for i in range(0, len(args))` taken by induction over the interpreter):
   with [box_ok] the statement "every component lies in [lower_i, upper_i]" (edges included),
     - if some component is outside, the value is -inf, the oracle log is EMPTY (nothing at all is evaluated, not even args2kwargs) and no
       random variate is consumed - whatever the declared cosmology;
     - if all components are inside (flat model), the value is the lens-sample value, evaluated exactly once after args2kwargs. *)
Theorem C02_box_any_length : forall (Ls : R) (cosmology : string) om ok h (xs los his : list R) rg cu,
  length los = length xs -> length his = length xs ->
  (~ box_ok xs los his ->
   yields (Gt Ls om ok h) 100 (CFun src_CosmoLikelihood_likelihood) (Some (selfN cosmology los his)) [VList (map snum xs)] [] rg cu
     (VNum NegInf) cu []) /\
  (box_ok xs los his -> exists log,
   yields (Gt Ls om ok h) 100 (CFun src_CosmoLikelihood_likelihood) (Some (selfN "FLCDM" los his)) [VList (map snum xs)] [] rg cu
     (snum Ls) cu log /\ map fst log = ["lens"; "cosmo"; "args2kwargs"]).
Proof.
  intros Ls cosmology om ok h xs los his rg cu Hl Hh. pose proof (box_check_spec xs los his Hl Hh) as Hs. split.
  - intros Hn. apply box_outside_any_length; try assumption. destruct (box_check xs los his); [exfalso; apply Hn, Hs; reflexivity | reflexivity].
  - intros Hb. apply box_inside_any_length; try assumption. apply Hs. exact Hb.
Qed.
Print Assumptions C02_box_any_length.
Example C02_box_any_length_nonvacuous : box_ok [1; 2; 3; 4; 5] [0; 0; 0; 0; 5] [1; 9; 9; 9; 9] /\ ~ box_ok [1; 2; 3; 4; 5] [0; 0; 0; 0; 0] [9; 9; 9; 9; 4].
Proof. cbn. lra. Qed.

(* THE CURVED-LCDM GUARD FOR SAMPLES WITH ANY NUMBER OF LENSES (the loop over self._kwargs_lens_list taken by induction; every lens has both
   source redshifts, one of them, or none - [zstar] is its highest source redshift: z_source2, else z_source, else 1100).  Inside the box:
     - E(z)^2 <= 0 at the highest source redshift of SOME lens, or 1 - om - ok <= 0: -inf, and args2kwargs is the only thing evaluated;
     - otherwise the lens sample is evaluated exactly once (after args2kwargs and the cosmology).
   The empty sample (supernovae / KDE only) is the case specs = []. *)
Theorem C02_olcdm_guard_any_number_of_lenses : forall (Ls om ok h l0 l1 l2 u0 u1 u2 x0 x1 x2 : R) (specs : list spec) rg cu,
  inside_box l0 l1 l2 u0 u1 u2 x0 x1 x2 ->
  ((exists s, In s specs /\ E2 om ok (zstar s) <= 0) \/ 1 - om - ok <= 0 ->
   yields (Gt Ls om ok h) 100 (CFun src_CosmoLikelihood_likelihood) (Some (selfG l0 l1 l2 u0 u1 u2 specs)) [argsG x0 x1 x2] [] rg cu
     (VNum NegInf) cu (logA x0 x1 x2)) /\
  ((forall s, In s specs -> 0 < E2 om ok (zstar s)) -> 0 < 1 - om - ok ->
   exists log,
   yields (Gt Ls om ok h) 100 (CFun src_CosmoLikelihood_likelihood) (Some (selfG l0 l1 l2 u0 u1 u2 specs)) [argsG x0 x1 x2] [] rg cu
     (Model.num Ls) cu log /\ map fst log = ["lens"; "cosmo"; "args2kwargs"]).
Proof.
  intros Ls om ok h l0 l1 l2 u0 u1 u2 x0 x1 x2 specs rg cu Hbox. split.
  - intros Hrej. apply guard_rejects_any; [exact Hbox|]. destruct Hrej as [[s [Hin Hs]]|Hode].
    + left. destruct (all_pos om ok specs) eqn:Ha; [|reflexivity]. exfalso.
      pose proof (proj1 (all_pos_spec om ok specs) Ha s Hin) as Hp. rewrite cutI_E2 in Hp. lra.
    + right. rewrite odeI_ode. exact Hode.
  - intros Hall Hode. apply guard_passes_any; [exact Hbox | | rewrite odeI_ode; exact Hode].
    apply all_pos_spec. intros s Hin. rewrite cutI_E2. apply Hall, Hin.
Qed.
Print Assumptions C02_olcdm_guard_any_number_of_lenses.
Example C02_guard_any_number_nonvacuous :
  (exists s, In s [(Some 2, None); (Some (1/2), Some 4); (None, None)] /\ E2 (1/10) (-55/100) (zstar s) <= 0)
  /\ (forall s, In s [(Some 2, None); (Some (1/2), Some 4)] -> 0 < E2 (3/10) 0 (zstar s)).
Proof.
  split.
  - exists (Some 2, None). split; [left; reflexivity|]. unfold E2, zstar. cbn [pow]. lra.
  - intros s [<-|[<-|[]]]; unfold E2, zstar; cbn [pow]; lra.
Qed.
