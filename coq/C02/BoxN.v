(* C02 - the prior box for sampling vectors of ANY length.  CosmoLikelihood.likelihood starts with
       for i in range(0, len(args)):
           if args[i] < self._lower_limit[i] or args[i] > self._upper_limit[i]: ... return -np.inf
   The theorems of Model.v run the interpreter on a 3-component vector; here the loop is taken by induction, for every length n:
   the interpreter's loop asks exactly the questions of the reference [box_check] (the first offending component decides), returns -inf with an
   EMPTY oracle log when a component is outside, and otherwise falls through to the rest of the function, which evaluates the lens sample once.
   The loop body is stepped symbolically: one-level unfolding lemmas of the interpreter along the spine of the body, the subscripts args[i],
   lower[i], upper[i] at the symbolic index i = length(prefix) resolved by a lemma, everything else computed.  Source = C02.Src (regenerated). *)
From Coq Require Import Reals ZArith String List Bool Lra Lia.
Require Import Py.PyAst Py.PyVal Py.PySem Py.XLemmas Py.Unfold Py.Tactics Py.Sym.
Require Import C02.Src C02.Model.
Import ListNotations.
Open Scope string_scope.

Section BoxN.
Variable Ls : R.
Variable cosmology : string.
Definition selfN (los his : list R) := VObj "CosmoLikelihood"
  [("_lower_limit", VList (map snum los)); ("_upper_limit", VList (map snum his)); ("param", VObj "ParamManager" []);
   ("_cosmology", VStr cosmology); ("_kwargs_lens_list", VList []);
   ("_likelihoodLensSample", VObj "LensSampleLikelihood" []); ("_sne_evaluate", VBool false); ("_kde_evaluate", VBool false); ("_prior_add", VBool false)].
Definition body := match src_CosmoLikelihood_likelihood with FunDef _ _ _ _ b => match nth 0 b SPass with SFor _ _ bb => bb | _ => [] end end.
Definition itx := match src_CosmoLikelihood_likelihood with FunDef _ _ _ _ b => match nth 0 b SPass with SFor _ it _ => it | _ => ENone end end.
Definition rest_of_body := match src_CosmoLikelihood_likelihood with FunDef _ _ _ _ b => tl b end.
(* the environment of the loop: the bound parameters, and the loop variable once the first iteration has assigned it *)
Definition envO (self : val) (xs : list R) (oi : option Z) : env :=
  ([("self", self); ("args", VList (map snum xs)); ("kwargs_cosmo_interp", VNone); ("verbose", VBool false)]
   ++ match oi with Some i => [("i", VInt i)] | None => [] end)%list.

Ltac RUNF tm := SYM_RUNF tm.
Ltac sym := SYM_sym.

Section Step.
Variables om ok h : R.
Notation G := (Gt Ls om ok h).
Definition step := for_step (eval G 98) (exec G 98) 98 (EName "i") itx body.
Variables (prel preh prex : list R) (l hh x : R) (rl rh rx : list R).
Hypothesis Hl : length prel = length prex.
Hypothesis Hh : length preh = length prex.
Notation SELF := (selfN (prel ++ l :: rl) (preh ++ hh :: rh)).
Notation XS := (prex ++ x :: rx)%list.
Open Scope R_scope.

Ltac start oi :=
  destruct oi; unfold step, envO, for_step; cbn [app];
  (match goal with |- context [assign ?a ?b ?c ?d ?e ?f] => RUNF (assign a b c d e f) end);
  cbn [bind fst snd]; unfold body; cbv beta iota zeta delta [src_CosmoLikelihood_likelihood nth];
  rewrite exec_S, run_stmts_one; cbn [exec_stmt]; sym.
Ltac finish := match goal with |- ?L = _ => RUNF L end; reflexivity.

Lemma step_inside oi idx rg cu lg ds pc0 :
  step (VInt (Z.of_nat (length prex))) idx (envO SELF XS oi) (World rg cu lg (false :: false :: ds) pc0)
  = Ok (ONormal (envO SELF XS (Some (Z.of_nat (length prex)))), World rg cu lg ds ((~ hh < x) :: (~ x < l) :: pc0)).
Proof. start oi; finish. Qed.
Lemma step_low oi idx rg cu lg ds pc0 :
  step (VInt (Z.of_nat (length prex))) idx (envO SELF XS oi) (World rg cu lg (true :: ds) pc0)
  = Ok (OReturn (VNum NegInf), World rg cu lg ds ((x < l) :: pc0)).
Proof. start oi; finish. Qed.
Lemma step_high oi idx rg cu lg ds pc0 :
  step (VInt (Z.of_nat (length prex))) idx (envO SELF XS oi) (World rg cu lg (false :: true :: ds) pc0)
  = Ok (OReturn (VNum NegInf), World rg cu lg ds ((hh < x) :: (~ x < l) :: pc0)).
Proof. start oi; finish. Qed.
End Step.

(* the questions the loop asks, in order, and the path condition it leaves: those of the reference [box_check] *)
Fixpoint answers (rx rl rh : list R) : list bool :=
  match rx, rl, rh with
  | x :: rx', l :: rl', h :: rh' => if Rlt_dec x l then [true] else if Rlt_dec h x then [false; true] else false :: false :: answers rx' rl' rh'
  | _, _, _ => [] end.
Fixpoint pcond (rx rl rh : list R) (pc0 : list Prop) : list Prop :=
  match rx, rl, rh with
  | x :: rx', l :: rl', h :: rh' =>
      if Rlt_dec x l then (x < l)%R :: pc0 else if Rlt_dec h x then (h < x)%R :: (~ x < l)%R :: pc0
      else pcond rx' rl' rh' ((~ h < x)%R :: (~ x < l)%R :: pc0)
  | _, _, _ => pc0 end.
Lemma pcond_holds rx : forall rl rh pc0, holds pc0 -> holds (pcond rx rl rh pc0).
Proof.
  induction rx as [|x rx IH]; intros rl rh pc0 H0; [exact H0|].
  destruct rl as [|l rl]; [exact H0|]. destruct rh as [|h rh]; [exact H0|]. cbn [pcond].
  destruct (Rlt_dec x l) as [Hxl|Hxl]; [cbn [holds]; split; assumption|].
  destruct (Rlt_dec h x) as [Hhx|Hhx]; [cbn [holds]; repeat split; assumption|].
  apply IH. cbn [holds]. repeat split; assumption.
Qed.
Lemma app_snoc {A} (p : list A) a r : (p ++ a :: r = (p ++ [a]) ++ r)%list.
Proof. rewrite <- app_assoc. reflexivity. Qed.

Section Loop.
Variables om ok h : R.
Notation G := (Gt Ls om ok h).
(* the whole loop, from any iteration on: it ends normally iff the remaining components are all inside, and returns -inf at the first one
   that is not; the decisions consumed and the path condition are those of the reference *)
Lemma loop_box rx : forall rl rh prex prel preh oi idx rg cu lg ds pc0,
  length rl = length rx -> length rh = length rx -> length prel = length prex -> length preh = length prex ->
  exists oi',
  iter_loop (step om ok h) (zrange (Z.of_nat (length prex)) (length rx)) idx (envO (selfN (prel ++ rl) (preh ++ rh)) (prex ++ rx) oi)
            (World rg cu lg (answers rx rl rh ++ ds) pc0)
  = Ok ((if box_check rx rl rh then ONormal (envO (selfN (prel ++ rl) (preh ++ rh)) (prex ++ rx) oi') else OReturn (VNum NegInf)),
        World rg cu lg ds (pcond rx rl rh pc0)).
Proof.
  induction rx as [|x rx IH]; intros rl rh prex prel preh oi idx rg cu lg ds pc0 Hrl Hrh Hpl Hph.
  - exists oi. destruct rl; [|discriminate]. destruct rh; [|discriminate]. reflexivity.
  - destruct rl as [|l rl]; [discriminate|]. destruct rh as [|hh rh]; [discriminate|].
    cbn [length zrange iter_loop answers pcond box_check].
    destruct (Rlt_dec x l) as [Hxl|Hxl].
    + exists oi. cbn [app]. rewrite (step_low om ok h prel preh prex l hh x rl rh rx Hpl). reflexivity.
    + destruct (Rlt_dec hh x) as [Hhx|Hhx].
      * exists oi. cbn [app]. rewrite (step_high om ok h prel preh prex l hh x rl rh rx Hpl Hph). reflexivity.
      * cbn [app]. rewrite (step_inside om ok h prel preh prex l hh x rl rh rx Hpl Hph). cbn [bind fst snd].
        rewrite (app_snoc prex x rx), (app_snoc prel l rl), (app_snoc preh hh rh).
        replace (Z.of_nat (length prex) + 1)%Z with (Z.of_nat (length (prex ++ [x]))) by (rewrite app_length; cbn [length]; lia).
        replace (Some (Z.of_nat (length prex))) with (Some (Z.of_nat (length (prex ++ [x])) - 1)%Z) by (f_equal; rewrite app_length; cbn [length]; lia).
        destruct (IH rl rh (prex ++ [x])%list (prel ++ [l])%list (preh ++ [hh])%list (Some (Z.of_nat (length (prex ++ [x])) - 1)%Z) (idx + 1)%Z rg cu lg ds
                     ((~ hh < x)%R :: (~ x < l)%R :: pc0)) as [oi' E];
          [ cbn in Hrl; lia | cbn in Hrh; lia | rewrite !app_length; cbn [length]; lia | rewrite !app_length; cbn [length]; lia |].
        exists oi'. exact E.
Qed.
End Loop.
End BoxN.

(* ------------------------------------------------------------------------------------------------------------------------------ *)
(* the whole function, for a vector of any length                                                                                  *)
Ltac RUNF tm := SYM_RUNF tm.
Ltac prefix_run Ls cosmology om ok h xs los his rg cu :=
  rewrite call_fun;
  cbv beta zeta delta [f_static f_params f_kwarg f_body f_name src_CosmoLikelihood_likelihood] iota;
  (match goal with |- context [bind_params ?a ?b ?c ?d] => RUNF (bind_params a b c d) end);
  cbn [bind fst snd];
  rewrite exec_S, run_stmts_cons; cbn [exec_stmt];
  (match goal with |- context [eval ?G 98 ?c ?r ?w] => RUNF (eval G 98 c r w) end);
  cbn [bind fst snd as_list]; rewrite Z.sub_0_r, Nat2Z.id, map_length.
Definition after_loop (G : fenv) (ρ' : env) (w' : world) :=
  run_stmts (exec_stmt (tails G) (runms G 98) (eval G 98) (evals_with (eval G 98)) (exec G 98) 98) rest_of_body ρ' w'.
Definition finish_call (ow : outcome * world) : res (val * world) :=
  match fst ow with
  | ONormal ρ' => Ok (VNone, snd ow)
  | OReturn v => Ok (v, snd ow)
  | OTail o targs tkws => o targs tkws (snd ow)
  end.
Lemma prefix_eq Ls cosmology om ok h xs los his w :
  call (Gt Ls om ok h) 100 (CFun src_CosmoLikelihood_likelihood) (Some (selfN cosmology los his)) [VList (map snum xs)] [] w
  = (do ow <- seq_out (iter_loop (step Ls om ok h) (zrange 0 (length xs)) 0%Z (envO (selfN cosmology los his) xs None) w) (after_loop (Gt Ls om ok h));
     finish_call ow).
Proof.
  prefix_run Ls cosmology om ok h xs los his rg cu.
  unfold step, itx, body, envO, selfN, after_loop, rest_of_body, finish_call.
  cbv beta iota zeta delta [src_CosmoLikelihood_likelihood nth tl]. cbn [app String.eqb Ascii.eqb Bool.eqb].
  reflexivity.
Qed.

Theorem box_outside_any_length Ls cosmology om ok h xs los his rg cu :
  length los = length xs -> length his = length xs -> box_check xs los his = false ->
  yields (Gt Ls om ok h) 100 (CFun src_CosmoLikelihood_likelihood) (Some (selfN cosmology los his)) [VList (map snum xs)] [] rg cu
    (VNum NegInf) cu [].
Proof.
  intros Hl Hh Hb. unfold yields. exists (answers xs los his ++ [])%list. eexists. split.
  - rewrite prefix_eq.
    destruct (loop_box Ls cosmology om ok h xs los his [] [] [] None 0%Z rg cu [] [] [] Hl Hh eq_refl eq_refl) as [oi' E].
    cbn [app length Z.of_nat] in E. rewrite E, Hb. cbn [seq_out bind fst snd]. unfold finish_call. cbn [fst snd]. reflexivity.
  - cbn [decs cur olog pc]. repeat split. apply pcond_holds. exact I.
Qed.

Lemma suffix_eq Ls om ok h xs los his oi' rg cu pcs :
  exists log,
  after_loop (Gt Ls om ok h) (envO (selfN "FLCDM" los his) xs oi') (World rg cu [] [] pcs)
  = Ok (OReturn (snum Ls), World rg cu log [] pcs) /\ map fst log = ["lens"; "cosmo"; "args2kwargs"].
Proof.
  destruct oi'; eexists; (split;
  [ unfold after_loop, rest_of_body, envO, selfN; cbv beta iota zeta delta [src_CosmoLikelihood_likelihood tl]; cbn [app];
    (match goal with |- ?L = _ => RUNF L end); reflexivity
  | reflexivity ]).
Qed.

Theorem box_inside_any_length Ls om ok h xs los his rg cu :
  length los = length xs -> length his = length xs -> box_check xs los his = true ->
  exists log,
  yields (Gt Ls om ok h) 100 (CFun src_CosmoLikelihood_likelihood) (Some (selfN "FLCDM" los his)) [VList (map snum xs)] [] rg cu
    (snum Ls) cu log
  /\ map fst log = ["lens"; "cosmo"; "args2kwargs"].
Proof.
  intros Hl Hh Hb.
  destruct (loop_box Ls "FLCDM" om ok h xs los his [] [] [] None 0%Z rg cu [] [] [] Hl Hh eq_refl eq_refl) as [oi' E].
  cbn [app length Z.of_nat] in E.
  destruct (suffix_eq Ls om ok h xs los his oi' rg cu (pcond xs los his [])) as [log [ES EL]].
  exists log. split; [|exact EL].
  unfold yields. exists (answers xs los his ++ [])%list. eexists. split.
  - rewrite prefix_eq, E, Hb. cbn [seq_out bind fst snd]. rewrite ES. cbn [bind fst snd]. unfold finish_call. cbn [fst snd]. reflexivity.
  - cbn [decs cur olog pc]. repeat split. apply pcond_holds. exact I.
Qed.
