(* C02 - "inside the box (edge included) does not raise, provided the bounds of interpolated kinematic parameters lie inside their
   interpolation range": the range test of the anisotropy population mean is INCLUSIVE - a mean on the first / last grid node (the prior box
   is usually the whole interpolation range) is accepted and handed on unchanged.  Source = C02.Src (regenerated). *)
From Coq Require Import Reals ZArith String List Bool Lra Lia.
Require Import Py.PyAst Py.PyVal Py.PySem Py.XLemmas Py.Unfold Py.Tactics.
Require Import C02.Src.
Import ListNotations.
Open Scope string_scope.
Definition num (r : R) := VNum (Fin r).
Definition G0 : fenv := FEnv (fun _ _ => None) (fun _ => None).
Definition aniso_obj (model : string) (amin amax bmin bmax : R) : val :=
  VObj "AnisotropyDistribution"
    [("_anisotropy_sampling", VBool true); ("_anisotropy_model", VStr model); ("_distribution_function", VStr "NONE");
     ("_a_ani_min", num amin); ("_a_ani_max", num amax); ("_beta_inf_min", num bmin); ("_beta_inf_max", num bmax)].
Open Scope R_scope.
Theorem mean_in_closed_range_accepted_gom amin amax bmin bmax a b sa sb rg cu :
  amin <= a <= amax -> bmin <= b <= bmax ->
  yields G0 100 (CFun src_AnisotropyDistribution_draw_anisotropy) None [aniso_obj "GOM" amin amax bmin bmax; num a; num sa; num b; num sb] [] rg cu
    (VDict [(VStr "a_ani", num a); (VStr "beta_inf", num b)]) cu [].
Proof. intros Ha Hb. yields_with ltac:(first [real_fact | lra | (exfalso; lra)]) ltac:(first [reflexivity | exfalso; lra]). Qed.
Theorem mean_in_closed_range_accepted_om (model : string) amin amax bmin bmax a sa rg cu :
  model = "OM" \/ model = "const" ->
  amin <= a <= amax ->
  yields G0 100 (CFun src_AnisotropyDistribution_draw_anisotropy) None [aniso_obj model amin amax bmin bmax; num a; num sa; VNone; VInt 0] [] rg cu
    (VDict [(VStr "a_ani", num a)]) cu [].
Proof. intros [-> | ->] Ha; yields_with ltac:(first [real_fact | lra | (exfalso; lra)]) ltac:(first [reflexivity | exfalso; lra]). Qed.
