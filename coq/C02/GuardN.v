(* C02 - the curved-LCDM guard for samples with ANY NUMBER of lenses.  After the prior box, CosmoLikelihood.likelihood runs
       for lens in self._kwargs_lens_list:
           z = lens["z_source2"] if present, else lens["z_source"] if present, else 1100
           cut = ok*(1+z)**2 + om*(1+z)**3 + (1-om-ok);  if cut <= 0: return -inf
       if 1-om-ok <= 0: return -inf
   Model.v proves the guard for a 3-lens list; here the loop over the lenses is taken by induction (lenses of the four shapes: both source
   redshifts, one of them, none), for every list length including the empty sample: -inf exactly when E(z)^2 <= 0 at SOME lens' highest
   source redshift or Omega_Lambda <= 0, with only args2kwargs evaluated; otherwise the lens sample is evaluated exactly once.
   Built from small lemmas assembled by rewriting (see DESIGN.md, "Loops of any length").  Source = C02.Src (regenerated). *)
From Coq Require Import Reals ZArith String List Bool Lra Lia.
Require Import Py.PyAst Py.PyVal Py.PySem Py.XLemmas Py.Unfold Py.Tactics.
Require Import C02.Src C02.Model.
Import ListNotations.
Open Scope string_scope.

Definition spec := (option R * option R)%type.       (* (z_source, z_source2) of a lens, each present or not *)
Definition mk_lens (s : spec) : val :=
  match s with
  | (Some a, Some b) => dict [("z_lens", num (1/2)); ("z_source", num a); ("z_source2", num b)]
  | (Some a, None) => dict [("z_lens", num (1/2)); ("z_source", num a)]
  | (None, Some b) => dict [("z_lens", num (1/2)); ("z_source2", num b)]
  | (None, None) => dict [("name", VStr "no redshift")]
  end.
Definition zstar (s : spec) : R := match s with (_, Some b) => b | (Some a, None) => a | (None, None) => 1100 end.
Definition zval (s : spec) : val := match s with (_, Some b) => num b | (Some a, None) => num a | (None, None) => VInt 1100 end.
(* E(z)^2 in the form the interpreter computes it (1.0 is the decimal literal 10 * 10^-1) *)
Definition cutI (om ok z : R) : R := (ok * (dec 10 (-1) + z) ^ 2 + om * (dec 10 (-1) + z) ^ 3 + (dec 10 (-1) + - om + - ok))%R.
Definition odeI (om ok : R) : R := (dec 10 (-1) + - om + - ok)%R.
Lemma cutI_E2 om ok z : cutI om ok z = E2 om ok z.
Proof. unfold cutI, E2, dec. change (10 ^ - (-1))%Z with 10%Z. replace (10 / 10)%R with 1%R by lra. ring. Qed.
Lemma odeI_ode om ok : odeI om ok = (1 - om - ok)%R.
Proof. unfold odeI, dec. change (10 ^ - (-1))%Z with 10%Z. replace (10 / 10)%R with 1%R by lra. ring. Qed.

Section GuardN.
Variable Ls : R.
Variables om ok h : R.
Notation G := (Gt Ls om ok h).
Variables l0 l1 l2 u0 u1 u2 x0 x1 x2 : R.
Definition selfG (specs : list spec) := VObj "CosmoLikelihood"
  [("_lower_limit", VList [num l0; num l1; num l2]); ("_upper_limit", VList [num u0; num u1; num u2]); ("param", VObj "ParamManager" []);
   ("_cosmology", VStr "oLCDM"); ("_kwargs_lens_list", VList (map mk_lens specs));
   ("_likelihoodLensSample", VObj "LensSampleLikelihood" []); ("_sne_evaluate", VBool false); ("_kde_evaluate", VBool false); ("_prior_add", VBool false)].
Definition argsG := VList [num x0; num x1; num x2].
(* the environment inside the oLCDM block; the loop variables exist once the first iteration has assigned them *)
Definition envG (selfv : val) (prev : option spec) : env :=
  ([("self", selfv); ("args", argsG); ("kwargs_cosmo_interp", VNone); ("verbose", VBool false); ("i", VInt 2);
    ("kwargs_cosmo", VDict [(VStr "h0", num h); (VStr "om", num om); (VStr "ok", num ok)]); ("kwargs_lens", VDict []);
    ("kwargs_kin", VDict []); ("kwargs_source", VDict []); ("kwargs_los", VNone); ("h0", num h); ("ok", num ok); ("om", num om)]
   ++ match prev with Some s => [("lens", mk_lens s); ("z", zval s); ("cut", num (cutI om ok (zstar s)))] | None => [] end)%list.
Definition blockG := match src_CosmoLikelihood_likelihood with FunDef _ _ _ _ b => match nth 2 b SPass with SIf _ blk _ => blk | _ => [] end end.
Definition bodyG := match nth 1 blockG SPass with SFor _ _ bb => bb | _ => [] end.
Definition itG := match nth 1 blockG SPass with SFor _ it _ => it | _ => ENone end.
Definition stepG := for_step (eval G 97) (exec G 97) 97 (EName "lens") itG bodyG.
Ltac RUNG tm := let r := eval lazy -[Rplus Rmult Rminus Rdiv Rinv Ropp Rmax Rmin Rlt Rle Rgt Rge ln exp sqrt log10 IZR dec Rpower pow PI DBL_MAX not mk_lens cutI odeI] in tm in change tm with r.
Ltac RUNL tm := let r := eval lazy -[Rplus Rmult Rminus Rdiv Rinv Ropp Rmax Rmin Rlt Rle Rgt Rge ln exp sqrt log10 IZR dec Rpower pow PI DBL_MAX not] in tm in change tm with r.

(* one lens: E(z)^2 at its highest source redshift is asked about; non-positive -> -inf at once *)
Lemma stepG_one selfv prev s b idx rg cu lg ds pc :
  stepG (mk_lens s) idx (envG selfv prev) (World rg cu lg (b :: ds) pc)
  = if b then Ok (OReturn (VNum NegInf), World rg cu lg ds ((cutI om ok (zstar s) <= 0)%R :: pc))
    else Ok (ONormal (envG selfv (Some s)), World rg cu lg ds ((~ cutI om ok (zstar s) <= 0)%R :: pc)).
Proof.
  destruct prev as [[[pa|] [pb|]]|]; destruct s as [[a|] [c|]]; destruct b;
  unfold stepG, envG, mk_lens, zval, zstar, cutI, argsG; cbn [app];
  (match goal with |- ?L = _ => RUNL L end); reflexivity.
Qed.

(* the answers the loop consumes, the path condition it leaves, and whether it falls through: those of a left-to-right scan *)
Fixpoint ansG (specs : list spec) : list bool :=
  match specs with [] => [] | s :: r => if Rle_dec (cutI om ok (zstar s)) 0 then [true] else false :: ansG r end.
Fixpoint pcG (specs : list spec) (pc0 : list Prop) : list Prop :=
  match specs with [] => pc0
  | s :: r => if Rle_dec (cutI om ok (zstar s)) 0 then (cutI om ok (zstar s) <= 0)%R :: pc0 else pcG r ((~ cutI om ok (zstar s) <= 0)%R :: pc0) end.
Fixpoint all_pos (specs : list spec) : bool :=
  match specs with [] => true | s :: r => if Rle_dec (cutI om ok (zstar s)) 0 then false else all_pos r end.
Lemma pcG_holds specs : forall pc0, holds pc0 -> holds (pcG specs pc0).
Proof.
  induction specs as [|s r IH]; intros pc0 H0; [exact H0|]. cbn [pcG].
  destruct (Rle_dec (cutI om ok (zstar s)) 0) as [Hc|Hc]; [cbn [holds]; split; assumption|]. apply IH. cbn [holds]. split; assumption.
Qed.
Lemma all_pos_spec specs : all_pos specs = true <-> (forall s, In s specs -> (0 < cutI om ok (zstar s))%R).
Proof.
  induction specs as [|s r IH]; cbn [all_pos In]; [split; [intros _ s []| reflexivity]|].
  destruct (Rle_dec (cutI om ok (zstar s)) 0) as [Hc|Hc].
  - split; [discriminate|]. intros H. specialize (H s (or_introl eq_refl)). lra.
  - rewrite IH. split; [intros H t [<-|Ht]; [lra | apply H; exact Ht] | intros H t Ht; apply H; right; exact Ht].
Qed.
Lemma loopG selfv specs : forall prev idx rg cu lg ds pc0,
  exists prev',
  iter_loop stepG (map mk_lens specs) idx (envG selfv prev) (World rg cu lg (ansG specs ++ ds) pc0)
  = Ok ((if all_pos specs then ONormal (envG selfv prev') else OReturn (VNum NegInf)), World rg cu lg ds (pcG specs pc0)).
Proof.
  induction specs as [|s r IH]; intros prev idx rg cu lg ds pc0.
  - exists prev. reflexivity.
  - cbn [map iter_loop ansG pcG all_pos]. destruct (Rle_dec (cutI om ok (zstar s)) 0) as [Hc|Hc].
    + exists prev. cbn [app]. rewrite stepG_one. reflexivity.
    + cbn [app]. rewrite stepG_one. cbn [bind fst snd].
      destruct (IH (Some s) (idx + 1)%Z rg cu lg ds ((~ cutI om ok (zstar s) <= 0)%R :: pc0)) as [prev' E]. exists prev'. exact E.
Qed.

(* the function around the loop *)
Definition kinG (ρ' : env) (w' : world) :=
  run_stmts (exec_stmt (tails G) (runms G 97) (eval G 97) (evals_with (eval G 97)) (exec G 97) 97) (skipn 2 blockG) ρ' w'.
Definition koutG (ρ' : env) (w' : world) :=
  run_stmts (exec_stmt (tails G) (runms G 98) (eval G 98) (evals_with (eval G 98)) (exec G 98) 98)
            (match src_CosmoLikelihood_likelihood with FunDef _ _ _ _ b => skipn 3 b end) ρ' w'.
Definition finishG (ow : outcome * world) : res (val * world) :=
  match fst ow with
  | ONormal ρ' => Ok (VNone, snd ow)
  | OReturn v => Ok (v, snd ow)
  | OTail o targs tkws => o targs tkws (snd ow)
  end.
Definition boxpc : list Prop := [~ u2 < x2; ~ x2 < l2; ~ u1 < x1; ~ x1 < l1; ~ u0 < x0; ~ x0 < l0]%R.
Definition logA : list (string * list val) := [("args2kwargs", [argsG])].
Lemma prefixG specs rg cu ds :
  call G 100 (CFun src_CosmoLikelihood_likelihood) (Some (selfG specs)) [argsG] []
       (World rg cu [] (false :: false :: false :: false :: false :: false :: ds) [])
  = (do ow <- seq_out (seq_out (iter_loop stepG (map mk_lens specs) 0%Z (envG (selfG specs) None) (World rg cu logA ds boxpc)) kinG) koutG; finishG ow).
Proof.
  rewrite call_fun.
  cbv beta zeta delta [f_static f_params f_kwarg f_body f_name src_CosmoLikelihood_likelihood] iota.
  (match goal with |- context [bind_params ?a ?b ?c ?d] => RUNG (bind_params a b c d) end).
  cbn [bind fst snd]. rewrite exec_S, run_stmts_cons.
  (match goal with |- context [seq_out (exec_stmt ?t ?rm ?a ?es ?b ?c ?d ?e ?f) _] => RUNG (exec_stmt t rm a es b c d e f) end).
  cbn [seq_out bind fst snd]. rewrite run_stmts_cons.
  (match goal with |- context [seq_out (exec_stmt ?t ?rm ?a ?es ?b ?c ?d ?e ?f) _] => RUNG (exec_stmt t rm a es b c d e f) end).
  cbn [seq_out bind fst snd]. rewrite run_stmts_cons. cbn [exec_stmt].
  (match goal with |- context [eval ?GG 98 ?c ?r ?w] => RUNG (eval GG 98 c r w) end).
  cbn [bind fst snd].
  (match goal with |- context [m_truthy ?c ?w] => RUNG (m_truthy c w) end).
  cbn [bind fst snd].
  rewrite exec_S, run_stmts_cons.
  (match goal with |- context [seq_out (exec_stmt ?t ?rm ?a ?es ?b ?c ?d ?e ?f) _] => RUNG (exec_stmt t rm a es b c d e f) end).
  cbn [seq_out bind fst snd]. rewrite run_stmts_cons. cbn [exec_stmt].
  (match goal with |- context [eval ?GG 97 ?c ?r ?w] => RUNG (eval GG 97 c r w) end).
  cbn [bind fst snd as_list].
  unfold stepG, itG, bodyG, blockG, envG, selfG, argsG, kinG, koutG, finishG, boxpc, logA, num, blockG.
  cbv beta iota zeta delta [src_CosmoLikelihood_likelihood nth skipn]. cbn [app String.eqb Ascii.eqb Bool.eqb].
  reflexivity.
Qed.

(* after the loop: the dark-energy condition *)
Lemma kinG_reject selfv prev rg cu lg ds pc :
  kinG (envG selfv prev) (World rg cu lg (true :: ds) pc) = Ok (OReturn (VNum NegInf), World rg cu lg ds ((odeI om ok <= 0)%R :: pc)).
Proof.
  destruct prev as [[[pa|] [pb|]]|]; unfold kinG, envG, blockG, mk_lens, zval, zstar, odeI, argsG;
  cbv beta iota zeta delta [src_CosmoLikelihood_likelihood nth skipn]; cbn [app];
  (match goal with |- ?L = _ => RUNL L end); reflexivity.
Qed.
Lemma kinG_pass selfv prev rg cu lg ds pc :
  kinG (envG selfv prev) (World rg cu lg (false :: ds) pc) = Ok (ONormal (envG selfv prev), World rg cu lg ds ((~ odeI om ok <= 0)%R :: pc)).
Proof.
  destruct prev as [[[pa|] [pb|]]|]; unfold kinG, envG, blockG, mk_lens, zval, zstar, odeI, argsG;
  cbv beta iota zeta delta [src_CosmoLikelihood_likelihood nth skipn]; cbn [app];
  (match goal with |- ?L = _ => RUNL L end); reflexivity.
Qed.
(* the rest of the function: cosmology, then the lens sample, once *)
Lemma koutG_eval specs prev rg cu pc :
  exists log, koutG (envG (selfG specs) prev) (World rg cu logA [] pc) = Ok (OReturn (num Ls), World rg cu log [] pc)
              /\ map fst log = ["lens"; "cosmo"; "args2kwargs"].
Proof.
  destruct prev as [[[pa|] [pb|]]|]; eexists; (split;
  [ unfold koutG, envG, selfG, logA, argsG; cbv beta iota zeta delta [src_CosmoLikelihood_likelihood skipn]; cbn [app];
    (match goal with |- ?L = _ => RUNG L end); reflexivity
  | reflexivity ]).
Qed.

Definition inside_box : Prop := (l0 <= x0 <= u0 /\ l1 <= x1 <= u1 /\ l2 <= x2 <= u2)%R.
Lemma boxpc_holds : inside_box -> holds boxpc.
Proof. unfold inside_box, boxpc. intros H. cbn [holds]. repeat split; lra. Qed.

Theorem guard_rejects_any specs rg cu :
  inside_box -> all_pos specs = false \/ (odeI om ok <= 0)%R ->
  yields G 100 (CFun src_CosmoLikelihood_likelihood) (Some (selfG specs)) [argsG] [] rg cu (VNum NegInf) cu logA.
Proof.
  intros Hbox Hrej. unfold yields. destruct (all_pos specs) eqn:Ha.
  - destruct Hrej as [Hf|Hode]; [discriminate|].
    exists (false :: false :: false :: false :: false :: false :: (ansG specs ++ [true]))%list. eexists. split.
    + rewrite prefixG. destruct (loopG (selfG specs) specs None 0%Z rg cu logA [true] boxpc) as [prev' E].
      rewrite E, Ha. cbn [seq_out bind fst snd]. rewrite kinG_reject. cbn [seq_out bind fst snd]. unfold finishG. cbn [fst snd]. reflexivity.
    + cbn [decs cur olog pc holds]. repeat split; [exact Hode|]. apply pcG_holds, boxpc_holds, Hbox.
  - exists (false :: false :: false :: false :: false :: false :: (ansG specs ++ []))%list. eexists. split.
    + rewrite prefixG. destruct (loopG (selfG specs) specs None 0%Z rg cu logA [] boxpc) as [prev' E].
      rewrite E, Ha. cbn [seq_out bind fst snd]. unfold finishG. cbn [fst snd]. reflexivity.
    + cbn [decs cur olog pc]. repeat split. apply pcG_holds, boxpc_holds, Hbox.
Qed.
Theorem guard_passes_any specs rg cu :
  inside_box -> all_pos specs = true -> (0 < odeI om ok)%R ->
  exists log, yields G 100 (CFun src_CosmoLikelihood_likelihood) (Some (selfG specs)) [argsG] [] rg cu (num Ls) cu log
              /\ map fst log = ["lens"; "cosmo"; "args2kwargs"].
Proof.
  intros Hbox Ha Hode.
  destruct (loopG (selfG specs) specs None 0%Z rg cu logA [false] boxpc) as [prev' E].
  destruct (koutG_eval specs prev' rg cu ((~ odeI om ok <= 0)%R :: pcG specs boxpc)) as [log [EK EL]].
  exists log. split; [|exact EL]. unfold yields.
  exists (false :: false :: false :: false :: false :: false :: (ansG specs ++ [false]))%list. eexists. split.
  - rewrite prefixG, E, Ha. cbn [seq_out bind fst snd]. rewrite kinG_pass. cbn [seq_out bind fst snd]. rewrite EK. cbn [bind fst snd].
    unfold finishG. cbn [fst snd]. reflexivity.
  - cbn [decs cur olog pc holds]. repeat split; [lra|]. apply pcG_holds, boxpc_holds, Hbox.
Qed.
End GuardN.
