(* C02 — log-probability is -inf exactly outside the prior box (no data likelihood evaluated) and never NaN inside. Source = C02.Src. *)
From Coq Require Import Reals ZArith String List Bool Lra Lia.
Require Import Py.PyAst Py.PyVal Py.PySem Py.XLemmas Py.Unfold Py.Tactics.
Require Import C02.Src.
Import ListNotations.
Open Scope string_scope.
Fixpoint assoc {A} (k : string) (l : list (string * A)) : option A :=
  match l with [] => None | (k', v) :: t => if String.eqb k k' then Some v else assoc k t end.
Definition num (r : R) := VNum (Fin r).
Definition dict (l : list (string * val)) := VDict (map (fun kv => (VStr (fst kv), snd kv)) l).

(* every collaborator of CosmoLikelihood.likelihood is a LOGGING oracle: a non-empty log = something was evaluated *)
Section Box.
Variable Ls : R.
Variables (lens_list : val) (cosmology : string).
Definition comp (tag : string) (v : val) : callee :=
  COracle (fun args kws w => Ok (v, World (rng w) (cur w) ((tag, tl args ++ map snd kws)%list :: olog w) (decs w) (pc w))).
Definition a2k (om ok h : R) : callee :=
  COracle (fun args kws w => Ok (VTuple [VDict [(VStr "h0", num h); (VStr "om", num om); (VStr "ok", num ok)]; VDict []; VDict []; VDict []; VNone],
                                 World (rng w) (cur w) (("args2kwargs", tl args) :: olog w) (decs w) (pc w))).
Definition ttab (om ok h : R) : list (string * list (string * callee)) :=
  [("ParamManager", [("args2kwargs", a2k om ok h)]);
   ("LensSampleLikelihood", [("log_likelihood", comp "lens" (num Ls))]);
   ("CosmoLikelihood", [("cosmo_instance", comp "cosmo" (VObj "Cosmo" []))])].
Definition Gt om ok h : fenv := FEnv (fun cls m => match assoc cls (ttab om ok h) with Some t => assoc m t | None => None end) (fun _ => None).
Definition cl_obj (l0 l1 l2 u0 u1 u2 : R) := VObj "CosmoLikelihood"
  [("_lower_limit", VList [num l0; num l1; num l2]); ("_upper_limit", VList [num u0; num u1; num u2]); ("param", VObj "ParamManager" []);
   ("_cosmology", VStr cosmology); ("_kwargs_lens_list", lens_list);
   ("_likelihoodLensSample", VObj "LensSampleLikelihood" []); ("_sne_evaluate", VBool false); ("_kde_evaluate", VBool false); ("_prior_add", VBool false)].
Open Scope R_scope.
Definition inside (l u x : R) : Prop := l <= x <= u.

(* outside the box in ANY component: -inf and nothing at all is evaluated (not even the vector -> dictionary map) *)
Theorem outside_box l0 l1 l2 u0 u1 u2 x0 x1 x2 om ok h rg cu :
  ~ (inside l0 u0 x0 /\ inside l1 u1 x1 /\ inside l2 u2 x2) ->
  yields (Gt om ok h) 100 (CFun src_CosmoLikelihood_likelihood) (Some (cl_obj l0 l1 l2 u0 u1 u2)) [VList [num x0; num x1; num x2]] [] rg cu
    (VNum NegInf) cu [].
Proof.
  unfold inside. intros H.
  yields_with ltac:(first [real_fact | (exfalso; apply H; lra)]) ltac:(first [reflexivity | exfalso; apply H; repeat split; lra]).
Qed.
End Box.

(* the general fact behind the loop, for vectors of any length: the first offending component decides *)
Open Scope R_scope.
Fixpoint box_ok (x lo hi : list R) : Prop :=
  match x, lo, hi with
  | [], _, _ => True
  | a :: x', l :: lo', h :: hi' => (l <= a <= h) /\ box_ok x' lo' hi'
  | _, _, _ => False
  end.
Fixpoint box_check (x lo hi : list R) : bool :=       (* what the loop computes *)
  match x, lo, hi with
  | [], _, _ => true
  | a :: x', l :: lo', h :: hi' => if Rlt_dec a l then false else if Rlt_dec h a then false else box_check x' lo' hi'
  | _, _, _ => false
  end.
Lemma box_check_spec x : forall lo hi, length lo = length x -> length hi = length x -> (box_check x lo hi = true <-> box_ok x lo hi).
Proof.
  induction x as [|a x IH]; intros lo hi Hl Hh; [cbn; tauto|].
  destruct lo as [|l lo]; [discriminate|]. destruct hi as [|h hi]; [discriminate|]. cbn [box_check box_ok].
  destruct (Rlt_dec a l); [split; [discriminate | intros [? _]; lra]|].
  destruct (Rlt_dec h a); [split; [discriminate | intros [? _]; lra]|].
  rewrite IH by (cbn in *; lia). split; [intros; split; [lra | assumption] | tauto].
Qed.
(* the edge belongs to the box *)
Lemma box_edge_inside a l h : l <= h -> (a = l \/ a = h) -> l <= a <= h.
Proof. intros ? [-> | ->]; lra. Qed.

(* the literal 1.0 *)
Ltac one := unfold dec in *; change (10 ^ - (-1))%Z with 10%Z in *; try replace (10 / 10)%R with 1%R in * by lra.
Section Inside.
Variable Ls : R.
Open Scope R_scope.
(* inside the box (edges included), non-curved model: the lens-sample likelihood is evaluated exactly once, after args2kwargs *)
Theorem inside_box_evaluates_once l0 l1 l2 u0 u1 u2 x0 x1 x2 om ok h rg cu :
  inside l0 u0 x0 -> inside l1 u1 x1 -> inside l2 u2 x2 ->
  exists log,
  yields (Gt Ls om ok h) 100 (CFun src_CosmoLikelihood_likelihood) (Some (cl_obj (VList []) "FLCDM" l0 l1 l2 u0 u1 u2)) [VList [num x0; num x1; num x2]] [] rg cu
    (num Ls) cu log
  /\ map fst log = ["lens"; "cosmo"; "args2kwargs"].
Proof. unfold inside. intros. eexists. split; [yields_auto | reflexivity]. Qed.

(* curved LCDM: E(z)^2 at each lens' highest source redshift (z_source2, else z_source, else 1100) and Omega_Lambda must be positive *)
Definition E2 (om ok z : R) : R := ok * (1 + z) ^ 2 + om * (1 + z) ^ 3 + (1 - om - ok).
Definition lenses (zs1 zs2a zs2b : R) : val :=
  VList [dict [("z_lens", num (1/2)); ("z_source", num zs1)];
         dict [("z_lens", num (1/2)); ("z_source", num zs2a); ("z_source2", num zs2b)];
         dict [("name", VStr "no redshift")]].
Theorem olcdm_guard_rejects zs1 zs2a zs2b om ok h l0 l1 l2 u0 u1 u2 x0 x1 x2 rg cu :
  inside l0 u0 x0 -> inside l1 u1 x1 -> inside l2 u2 x2 ->
  E2 om ok zs1 <= 0 \/ E2 om ok zs2b <= 0 \/ E2 om ok 1100 <= 0 \/ 1 - om - ok <= 0 ->
  yields (Gt Ls om ok h) 100 (CFun src_CosmoLikelihood_likelihood) (Some (cl_obj (lenses zs1 zs2a zs2b) "oLCDM" l0 l1 l2 u0 u1 u2)) [VList [num x0; num x1; num x2]] [] rg cu
    (VNum NegInf) cu [("args2kwargs", [VList [num x0; num x1; num x2]])].
Proof.
  unfold inside, E2. intros H0 H1 H2 HG.
  yields_with ltac:(first [real_fact | (one; lra) | (exfalso; one; lra)])
              ltac:(first [reflexivity | exfalso; one; destruct HG as [HG|[HG|[HG|HG]]]; lra]).
Qed.
Theorem olcdm_guard_passes zs1 zs2a zs2b om ok h l0 l1 l2 u0 u1 u2 x0 x1 x2 rg cu :
  inside l0 u0 x0 -> inside l1 u1 x1 -> inside l2 u2 x2 ->
  0 < E2 om ok zs1 -> 0 < E2 om ok zs2b -> 0 < E2 om ok 1100 -> 0 < 1 - om - ok ->
  exists log,
  yields (Gt Ls om ok h) 100 (CFun src_CosmoLikelihood_likelihood) (Some (cl_obj (lenses zs1 zs2a zs2b) "oLCDM" l0 l1 l2 u0 u1 u2)) [VList [num x0; num x1; num x2]] [] rg cu
    (num Ls) cu log
  /\ map fst log = ["lens"; "cosmo"; "args2kwargs"].
Proof.
  unfold inside, E2. intros. eexists. split; [yields_with ltac:(first [real_fact | (one; lra)]) ltac:(reflexivity) | reflexivity].
Qed.
(* the same with a supplied distance table that carries ITS OWN curvature entries: the guard still judges the SAMPLED (om, ok) - the table
   is merged into the cosmology dictionary only after the guard - and rejects before anything is evaluated *)
Theorem olcdm_guard_judges_sampled_curvature zs1 zs2a zs2b om ok h okt kt (tab zz : val) l0 l1 l2 u0 u1 u2 x0 x1 x2 rg cu :
  inside l0 u0 x0 -> inside l1 u1 x1 -> inside l2 u2 x2 ->
  E2 om ok zs1 <= 0 \/ E2 om ok zs2b <= 0 \/ E2 om ok 1100 <= 0 \/ 1 - om - ok <= 0 ->
  yields (Gt Ls om ok h) 100 (CFun src_CosmoLikelihood_likelihood) (Some (cl_obj (lenses zs1 zs2a zs2b) "oLCDM" l0 l1 l2 u0 u1 u2)) [VList [num x0; num x1; num x2]]
    [("kwargs_cosmo_interp", dict [("ang_diameter_distances", tab); ("redshifts", zz); ("ok", num okt); ("K", num kt)])] rg cu
    (VNum NegInf) cu [("args2kwargs", [VList [num x0; num x1; num x2]])].
Proof.
  unfold inside, E2. intros H0 H1 H2 HG.
  yields_with ltac:(first [real_fact | (one; lra) | (exfalso; one; lra)])
              ltac:(first [reflexivity | exfalso; one; destruct HG as [HG|[HG|[HG|HG]]]; lra]).
Qed.
(* a sample WITHOUT lenses (supernovae / KDE only): the per-lens loop has nothing to look at, the dark-energy condition still rejects,
   and again before anything is evaluated *)
Theorem olcdm_guard_no_lenses om ok h l0 l1 l2 u0 u1 u2 x0 x1 x2 rg cu :
  inside l0 u0 x0 -> inside l1 u1 x1 -> inside l2 u2 x2 ->
  1 - om - ok <= 0 ->
  yields (Gt Ls om ok h) 100 (CFun src_CosmoLikelihood_likelihood) (Some (cl_obj (VList []) "oLCDM" l0 l1 l2 u0 u1 u2)) [VList [num x0; num x1; num x2]] [] rg cu
    (VNum NegInf) cu [("args2kwargs", [VList [num x0; num x1; num x2]])].
Proof.
  unfold inside. intros H0 H1 H2 HG.
  yields_with ltac:(first [real_fact | (one; lra) | (exfalso; one; lra)]) ltac:(first [reflexivity | exfalso; one; lra]).
Qed.
Theorem olcdm_no_lenses_passes om ok h l0 l1 l2 u0 u1 u2 x0 x1 x2 rg cu :
  inside l0 u0 x0 -> inside l1 u1 x1 -> inside l2 u2 x2 ->
  0 < 1 - om - ok ->
  exists log,
  yields (Gt Ls om ok h) 100 (CFun src_CosmoLikelihood_likelihood) (Some (cl_obj (VList []) "oLCDM" l0 l1 l2 u0 u1 u2)) [VList [num x0; num x1; num x2]] [] rg cu
    (num Ls) cu log
  /\ map fst log = ["lens"; "cosmo"; "args2kwargs"].
Proof.
  unfold inside. intros. eexists. split; [yields_with ltac:(first [real_fact | (one; lra)]) ltac:(reflexivity) | reflexivity].
Qed.
End Inside.

(* the guard looks at the END POINT only: E^2 can be negative in between although the guard passes (known finding, C02:olcdm_interior_E2) *)
Open Scope R_scope.
Theorem olcdm_interior_refuted : exists om ok zstar z, 0 < z < zstar /\ 0 < E2 om ok zstar /\ 0 < 1 - om - ok /\ E2 om ok z < 0.
Proof. exists (1/10), (-55/100), 4, (5/2). unfold E2. lra. Qed.
(* what the guard does give: positivity at the end point and of Omega_Lambda; and for ok >= 0 positivity everywhere *)
Lemma E2_pos_open_universe om ok z : 0 <= om -> 0 <= ok -> 0 < 1 - om - ok -> 0 <= z -> 0 < E2 om ok z.
Proof.
  intros. unfold E2. assert (0 <= (1 + z) ^ 2) by (apply pow_le; lra). assert (0 <= (1 + z) ^ 3) by (apply pow_le; lra).
  assert (0 <= ok * (1 + z) ^ 2) by (apply Rmult_le_pos; assumption). assert (0 <= om * (1 + z) ^ 3) by (apply Rmult_le_pos; assumption). lra.
Qed.

(* ---------- never NaN / +inf: what a lens returns is nan_to_num of the marginalised value ---------- *)
Definition hp_oracle (x : xreal) : callee := COracle (fun args kws w => Ok (VNum x, w)).   (* whatever hyper_param_likelihood produced *)
Definition lens_tab (x : xreal) : list (string * callee) :=
  [("angular_diameter_distances", COracle (fun args kws w => Ok (VTuple [num 3000; num 1200], w)));
   ("beta_dsp", COracle (fun args kws w => Ok (VNone, w)));
   ("_kwargs_init", CFun src_LensLikelihood_kwargs_init);
   ("luminosity_distance_modulus", COracle (fun args kws w => Ok (VInt 0, w)));
   ("hyper_param_likelihood", hp_oracle x)].
Definition Gf (x : xreal) : fenv := FEnv (fun cls m => assoc m (lens_tab x)) (fun _ => None).
Definition is_finite_val (v : val) : Prop := match v with VNum (Fin _) => True | _ => False end.
Theorem lens_value_is_finite (x : xreal) rg cu :
  exists v, yields (Gf x) 60 (CFun src_LensLikelihood_lens_log_likelihood) (Some (VObj "LensLikelihood" [("name", VStr "x")])) [VObj "Cosmo" []] [] rg cu v cu []
            /\ v = VNum (xnan_to_num x) /\ is_finite_val v.
Proof. destruct x; eexists; (split; [yields_auto | split; [reflexivity | exact I]]). Qed.

(* distances handed to the likelihoods: never below 1e-5 Mpc, never non-finite, whatever (finite) numbers the cosmology object returns,
   including Dds = 0 (division by zero -> inf/nan -> nan_to_num -> floor) *)
Section Floors.
Variables (dd ds dds : R).
Definition qty (r : R) : val := VObj "Quantity" [("value", num r)].
Definition cosmo_tab : list (string * callee) :=
  [("angular_diameter_distance", COracle (fun args kws w => match args with [_; VNum (Fin z)] => Ok (qty (if Req_EM_T z (1/2) then dd else ds), w) | _ => Stuck "ada" end));
   ("angular_diameter_distance_z1z2", COracle (fun args kws w => Ok (qty dds, w)))].
Definition Gz : fenv := FEnv (fun cls m => if String.eqb cls "Cosmo" then assoc m cosmo_tab else None) (fun _ => None).
Definition lens_z := VObj "LensLikelihood" [("likelihood_type", VStr "DdtGaussian"); ("_z_lens", num (1/2)); ("_z_source", num 2)].
Open Scope R_scope.
Definition floor5 (v : val) : Prop := match v with VNum (Fin r) => 1/100000 <= r | _ => False end.
Theorem distances_floored rg cu :
  exists a b, yields Gz 60 (CFun src_LensLikelihood_angular_diameter_distances) (Some lens_z) [VObj "Cosmo" []] [] rg cu (VTuple [a; b]) cu []
              /\ floor5 a /\ floor5 b.
Proof.
  assert (E1 : (if Req_EM_T (1/2) (1/2) then dd else ds) = dd) by (destruct (Req_EM_T (1/2) (1/2)); [reflexivity | lra]).
  assert (E2' : (if Req_EM_T 2 (1/2) then dd else ds) = ds) by (destruct (Req_EM_T 2 (1/2)); [lra | reflexivity]).
  unfold yields.
  destruct (Req_dec dds 0) as [Hz | Hnz].
  - (* Dds = 0 *)
    destruct (Rlt_dec 0 ((1 + 1/2) * dd * ds)) as [Hp | Hnp].
    + do 2 eexists. split.
      * exists [true; true]. eexists. split; [run; rewrite ?E1, ?E2'; norm_dec; reflexivity |].
        cbn [decs cur olog pc holds]. rewrite ?E1, ?E2'. norm_dec. try replace (10/10 + 5/10) with (1 + 1/2) by lra. repeat split; try reflexivity; try lra; try assumption.
      * unfold floor5, xmax, xnan_to_num, DBL_MAX. norm_dec. split; apply Rmax_r.
    + destruct (Rlt_dec ((1 + 1/2) * dd * ds) 0) as [Hn | Hnn].
      * do 2 eexists. split.
        -- exists [true; false; true]. eexists. split; [run; rewrite ?E1, ?E2'; norm_dec; reflexivity |].
           cbn [decs cur olog pc holds]. rewrite ?E1, ?E2'. norm_dec. try replace (10/10 + 5/10) with (1 + 1/2) by lra. repeat split; try reflexivity; try lra; try assumption.
        -- unfold floor5, xmax, xnan_to_num. norm_dec. split; apply Rmax_r.
      * do 2 eexists. split.
        -- exists [true; false; false]. eexists. split; [run; rewrite ?E1, ?E2'; norm_dec; reflexivity |].
           cbn [decs cur olog pc holds]. rewrite ?E1, ?E2'. norm_dec. try replace (10/10 + 5/10) with (1 + 1/2) by lra. repeat split; try reflexivity; try lra; try assumption.
        -- unfold floor5, xmax, xnan_to_num. norm_dec. split; apply Rmax_r.
  - do 2 eexists. split.
    + exists [false]. eexists. split; [run; rewrite ?E1, ?E2'; norm_dec; reflexivity |].
      cbn [decs cur olog pc holds]. repeat split; try reflexivity; assumption.
    + unfold floor5, xmax, xnan_to_num. norm_dec. split; apply Rmax_r.
Qed.
End Floors.

(* the total mass-sheet factor is floored at 1e-4, so the magnitude shift 5 log10(lambda_tot) is finite for every (lambda, kappa) *)
Section LambdaFloor.
Open Scope R_scope.
Definition Gl : fenv := FEnv (fun _ _ => None) (fun _ => None).
Theorem lambda_floor ddt dd lam kap m rg cu : lam <> 0 ->
  exists a b c, yields Gl 40 (CFun src_TransformedCosmography_displace_lambda_mst) None [num ddt; num dd] [("lambda_mst", num lam); ("kappa_ext", num kap); ("mag_source", num m)] rg cu
                  (VTuple [VNum (Fin a); VNum (Fin b); VNum (Fin c)]) cu []
                /\ a = ddt * Rmax (lam * (1 + - kap)) (1/10000).
Proof.
  intros Hl. do 3 eexists. split; [|reflexivity].
  assert (0 < Rmax (lam * (1 + - kap)) (1/10000)) by (apply Rlt_le_trans with (1/10000); [lra | apply Rmax_r]).
  yields_with ltac:(first [real_fact | (norm_dec; assumption)]) ltac:(norm_dec; reflexivity).
Qed.
End LambdaFloor.

(* a singular total covariance (numpy.linalg.inv raises) gives -inf, not an exception: magnification likelihood, two images *)
Section MagSingular.
Open Scope R_scope.
Variable m2c : R -> R -> R.         (* lenstronomy magnitude2cps(magnitude, zero point): arbitrary *)
Definition vec (l : list R) := VArr (map num l).
Definition mat (l : list (list R)) := VArr (map (fun r => VList (map num r)) l).
Definition gsing : list (string * callee) :=
  [("np.linalg.inv", COracle (fun _ _ _ => Exc "LinAlgError"));
   ("magnitude2cps", COracle (fun args kws w => match field_get "magnitude" kws, field_get "magnitude_zero_point" kws with
                                                 | Some (VNum (Fin a)), Some (VNum (Fin b)) => Ok (num (m2c a b), w) | _, _ => Stuck "magnitude2cps" end))].
Definition Gs : fenv := FEnv (fun cls m => if String.eqb m "_scale_model" then Some (CFun src_MagnificationLikelihood_scale_model) else None) (fun n => assoc n gsing).
Theorem mag_singular_is_neginf a0 a1 c00 c01 c10 c11 mu0 mu1 q00 q01 q10 q11 zp mu rg cu :
  yields Gs 80 (CFun src_MagnificationLikelihood_log_likelihood)
    (Some (VObj "MagnificationLikelihood" [("_amp_measured", vec [a0; a1]); ("_cov_amp_measured", mat [[c00; c01]; [c10; c11]]);
            ("_mean_magnification_model", vec [mu0; mu1]); ("_cov_magnification_model", mat [[q00; q01]; [q10; q11]]);
            ("num_data", VInt 2); ("_magnitude_zero_point", num zp)]))
    [num mu] [] rg cu (VNum NegInf) cu [].
Proof. yields_auto. Qed.
End MagSingular.
