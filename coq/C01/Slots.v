(* C01 — guarded slot lists: the semantic core.  A parameter block is three parallel ladders (args2kwargs, kwargs2args,
   param_list); flattened (LTree.flatten_tree) each becomes a list of guarded leaves.  Here: their meaning, the decidable
   compatibility checks, and the theorems that the checks imply for EVERY configuration and EVERY real vector. *)
From Coq Require Import Reals List String Bool Arith Lia Lra.
Require Import C01.LTree.
Import ListNotations.
Open Scope string_scope.

Inductive tr := Id | Pow10 | Log10.
Inductive tsel := T1 (t : tr) | TIf (a : atom) (t1 t2 : tr).
Definition trsem (t : tr) (x : R) : R :=
  match t with Id => x | Pow10 => Rpower 10 x | Log10 => (ln x / ln 10)%R end.
Definition tsel_sem (c : cfg) (t : tsel) : R -> R :=
  match t with T1 t => trsem t | TIf a t1 t2 => if aeval c a then trsem t1 else trsem t2 end.

(* dictionary values are lists of reals: a scalar parameter is a singleton, gamma_pl_list is the whole list *)
Definition dict := list (string * list R).

Inductive a2k_leaf :=
| AFix (k : string)                  (* kwargs[k] = self._kwargs_fixed[k] *)
| AConst (k attr : string)           (* kwargs[k] = self.<attr>            (z_apparent_m_anchor) *)
| AFree (k : string) (t : tsel)      (* kwargs[k] = t(args[i]); i += 1 *)
| AFreeN (k f : string).             (* kwargs[k] = [args[i], ..., args[i+n-1]]; i += n   with n = self.<f> *)
Inductive k2a_leaf :=
| KApp (k : string) (t : tsel)       (* args.append(t(kwargs[k])) *)
| KAppN (k f : string).              (* for j in range(self.<f>): args.append(kwargs[k][j]) *)
Definition akey (l : a2k_leaf) := match l with AFix k | AConst k _ | AFree k _ | AFreeN k _ => k end.
Definition is_free (l : a2k_leaf) : bool := match l with AFree _ _ | AFreeN _ _ => true | _ => false end.
Definition width (c : cfg) (l : a2k_leaf) : nat := match l with AFree _ _ => 1 | AFreeN _ f => cn c f | _ => 0 end.

Definition a2k_st := (dict * nat)%type.
Definition do_a2k (args : list R) (c : cfg) (l : a2k_leaf) (s : a2k_st) : option a2k_st :=
  let '(kw, i) := s in
  match l with
  | AFix k => match lookup k (cfix c) with Some v => Some ((k, [v]) :: kw, i) | None => None end
  | AConst k a => Some ((k, [cconst c a]) :: kw, i)
  | AFree k t => match nth_error args i with Some x => Some ((k, [tsel_sem c t x]) :: kw, S i) | None => None end
  | AFreeN k f => if Nat.leb (i + cn c f) (List.length args) then Some ((k, firstn (cn c f) (skipn i args)) :: kw, i + cn c f) else None
  end.
Definition do_k2a (kw : dict) (c : cfg) (l : k2a_leaf) (acc : list R) : option (list R) :=
  match l with
  | KApp k t => match lookup k kw with Some [v] => Some (acc ++ [tsel_sem c t v])%list | _ => None end
  | KAppN k f => match lookup k kw with Some vs => if Nat.leb (cn c f) (List.length vs) then Some (acc ++ firstn (cn c f) vs)%list else None | None => None end
  end.

(* ---------- decidable compatibility ---------- *)
Definition tr_inv (a b : tr) : bool := match a, b with Id, Id | Pow10, Log10 => true | _, _ => false end.
Fixpoint strs_eqb (l1 l2 : list string) : bool :=
  match l1, l2 with [], [] => true | a :: r, b :: s => String.eqb a b && strs_eqb r s | _, _ => false end.
Lemma strs_eqb_eq l1 l2 : strs_eqb l1 l2 = true -> l1 = l2.
Proof. revert l2; induction l1; destruct l2; cbn; try discriminate; auto.
  intros H; apply andb_true_iff in H as [H1 H2]. apply String.eqb_eq in H1. f_equal; auto. Qed.
Definition atom_eqb (a b : atom) : bool :=
  match a, b with
  | ABool f, ABool g => String.eqb f g
  | AStrEq f v, AStrEq g w => String.eqb f g && String.eqb v w
  | AStrIn f vs, AStrIn g ws => String.eqb f g && strs_eqb vs ws
  | AFixed k, AFixed l => String.eqb k l
  | ANatPos f, ANatPos g => String.eqb f g
  | ALatex, ALatex => true
  | _, _ => false
  end.
Lemma atom_eqb_eq a b : atom_eqb a b = true -> a = b.
Proof.
  destruct a, b; cbn; try discriminate; intros H; auto.
  - apply String.eqb_eq in H; congruence.
  - apply andb_true_iff in H as [H1 H2]. apply String.eqb_eq in H1, H2; congruence.
  - apply andb_true_iff in H as [H1 H2]. apply String.eqb_eq in H1. apply strs_eqb_eq in H2; congruence.
  - apply String.eqb_eq in H; congruence.
  - apply String.eqb_eq in H; congruence.
Qed.
Definition lit_eqb (x y : lit) := atom_eqb (fst x) (fst y) && Bool.eqb (snd x) (snd y).
Lemma lit_eqb_eq x y : lit_eqb x y = true -> x = y.
Proof. destruct x, y; unfold lit_eqb; cbn. intros H. apply andb_true_iff in H as [H1 H2].
  apply atom_eqb_eq in H1. apply Bool.eqb_prop in H2. congruence. Qed.
Fixpoint guard_eqb (g h : guard) : bool :=
  match g, h with [], [] => true | x :: g', y :: h' => lit_eqb x y && guard_eqb g' h' | _, _ => false end.
Lemma guard_eqb_eq g h : guard_eqb g h = true -> g = h.
Proof. revert h; induction g; destruct h; cbn; try discriminate; auto.
  intros H. apply andb_true_iff in H as [H1 H2]. apply lit_eqb_eq in H1. f_equal; auto. Qed.
Definition tsel_inv (a b : tsel) : bool :=
  match a, b with
  | T1 x, T1 y => tr_inv x y
  | TIf p x1 x2, TIf q y1 y2 => atom_eqb p q && tr_inv x1 y1 && tr_inv x2 y2
  | _, _ => false
  end.

(* the free slots of args2kwargs pair off, in order, with the slots of kwargs2args: same guard, same key, inverse transforms *)
Fixpoint compat (S : list (guard * a2k_leaf)) (K : list (guard * k2a_leaf)) : bool :=
  match S with
  | [] => match K with [] => true | _ => false end
  | (g, AFix _) :: S' | (g, AConst _ _) :: S' => compat S' K
  | (g, AFree k t) :: S' =>
      match K with
      | (h, KApp k' t') :: K' => guard_eqb g h && String.eqb k k' && tsel_inv t t' && compat S' K'
      | _ => false
      end
  | (g, AFreeN k f) :: S' =>
      match K with
      | (h, KAppN k' f') :: K' => guard_eqb g h && String.eqb k k' && String.eqb f f' && compat S' K'
      | _ => false
      end
  end.
(* a key repeats only under mutually exclusive guards *)
Fixpoint has_lit (l : lit) (g : guard) : bool := match g with [] => false | x :: r => lit_eqb x l || has_lit l r end.
Definition excl (g h : guard) : bool := existsb (fun l => has_lit (fst l, negb (snd l)) h) g.
Fixpoint keys_ok (S : list (guard * a2k_leaf)) : bool :=
  match S with
  | [] => true
  | (g, l) :: r => forallb (fun gl => negb (String.eqb (akey (snd gl)) (akey l)) || excl g (fst gl)) r && keys_ok r
  end.
(* a fixed slot and the free slot of the same key are guarded by  "k in fixed"  /  "k not in fixed" *)
Definition fix_guarded (S : list (guard * a2k_leaf)) : bool :=
  forallb (fun gl => match snd gl with
                     | AFix k => has_lit (AFixed k, true) (fst gl)
                     | AFree k _ => has_lit (AFixed k, false) (fst gl)
                     | _ => true end) S.

(* ---------- soundness ---------- *)
Lemma ln10_neq0 : ln 10 <> 0%R.
Proof. assert (0 < ln 10)%R by (rewrite <- ln_1; apply ln_increasing; lra). lra. Qed.
Lemma tr_inv_sound a b x : tr_inv a b = true -> trsem b (trsem a x) = x.
Proof. destruct a, b; cbn; try discriminate; intros _; [reflexivity|].
  unfold Rpower. rewrite ln_exp. field. apply ln10_neq0. Qed.
Lemma tsel_inv_sound c a b x : tsel_inv a b = true -> tsel_sem c b (tsel_sem c a x) = x.
Proof.
  destruct a as [t|p t1 t2], b as [u|q u1 u2]; cbn; try discriminate.
  - apply tr_inv_sound.
  - intros H. apply andb_true_iff in H as [H H2]. apply andb_true_iff in H as [H0 H1].
    apply atom_eqb_eq in H0; subst q. destruct (aeval c p); now apply tr_inv_sound.
Qed.
(* the other direction (dictionary -> vector -> dictionary) needs positivity for the log-sampled scatters *)
Lemma tr_inv_sound_rev a b y : tr_inv a b = true -> (a = Pow10 -> 0 < y)%R -> trsem a (trsem b y) = y.
Proof.
  destruct a, b; cbn; try discriminate; intros _ Hy; [reflexivity|].
  unfold Rpower. replace (ln y / ln 10 * ln 10)%R with (ln y) by (field; apply ln10_neq0). apply exp_ln. now apply Hy.
Qed.
Lemma has_lit_geval c l g : has_lit l g = true -> geval c g = true -> Bool.eqb (aeval c (fst l)) (snd l) = true.
Proof.
  induction g as [|x r IH]; cbn; [discriminate|]. intros H Hg.
  apply andb_true_iff in Hg as [Hx Hr]. apply orb_true_iff in H as [H|H]; [|auto].
  apply lit_eqb_eq in H. now subst.
Qed.
Lemma excl_sound c g h : excl g h = true -> geval c g = true -> geval c h = true -> False.
Proof.
  unfold excl. intros H Hg Hh. apply existsb_exists in H as [[a b] [Hin H]]. cbn in H.
  pose proof (has_lit_geval c _ _ H Hh) as E1. cbn in E1.
  assert (E2 : Bool.eqb (aeval c a) b = true).
  { unfold geval in Hg. rewrite forallb_forall in Hg. exact (Hg _ Hin). }
  apply Bool.eqb_prop in E1, E2. rewrite E2 in E1. destruct b; discriminate.
Qed.

Lemma skipn_cons_nth {A} (l : list A) i x : nth_error l i = Some x -> skipn i l = x :: skipn (S i) l.
Proof. revert l; induction i; intros [|a l]; cbn; try discriminate; [now intros [= ->] | intros H; now apply IHi]. Qed.
Lemma firstn_add_skipn0 {A} (l : list A) n m : firstn (n + m) l = (firstn n l ++ firstn m (skipn n l))%list.
Proof. revert l; induction n as [|n IH]; intros l; cbn [Nat.add firstn skipn app]; [reflexivity|]. destruct l; [now destruct m|]. cbn [firstn skipn app]. now rewrite IH. Qed.
Lemma skipn_add {A} (l : list A) i n : skipn (i + n) l = skipn n (skipn i l).
Proof. revert l; induction i; intros l; cbn [Nat.add skipn]; [reflexivity|]. destruct l; [now destruct n|]. apply IHi. Qed.
Lemma firstn_skipn_add {A} (l : list A) i n m : firstn (n + m) (skipn i l) = (firstn n (skipn i l) ++ firstn m (skipn (i + n) l))%list.
Proof. rewrite firstn_add_skipn0, skipn_add. reflexivity. Qed.

Section RT.
Variables (c : cfg) (args : list R).
Notation run_a := (exec_flat (do_a2k args) c).

(* a key written by an active slot is not overwritten by a later active slot *)
Lemma run_a_lookup : forall S kw i kw' n k v g0,
  run_a S (kw, i) = Some (kw', n) -> lookup k kw = Some v -> geval c g0 = true ->
  forallb (fun gl => negb (String.eqb (akey (snd gl)) k) || excl g0 (fst gl)) S = true ->
  lookup k kw' = Some v.
Proof.
  induction S as [|[g l] S IH]; intros kw i kw' n k v g0 Hr Hk Hg0 Hm; cbn in Hr.
  - now inversion Hr; subst.
  - cbn [forallb] in Hm. apply andb_true_iff in Hm as [Hh Hm]. cbn [snd fst] in Hh.
    destruct (geval c g) eqn:Hg.
    + assert (Hne : String.eqb (akey l) k = false).
      { apply orb_true_iff in Hh as [Hh|Hh]; [now apply negb_true_iff in Hh|].
        exfalso. eapply excl_sound; eauto. }
      destruct l as [k0|k0 a0|k0 t|k0 f]; cbn in Hr, Hne.
      * destruct (lookup k0 (cfix c)); [|discriminate].
        eapply IH; [exact Hr| |exact Hg0|exact Hm]. cbn. rewrite String.eqb_sym, Hne. exact Hk.
      * eapply IH; [exact Hr| |exact Hg0|exact Hm]. cbn. rewrite String.eqb_sym, Hne. exact Hk.
      * destruct (nth_error args i); [|discriminate].
        eapply IH; [exact Hr| |exact Hg0|exact Hm]. cbn. rewrite String.eqb_sym, Hne. exact Hk.
      * destruct (Nat.leb (i + cn c f) (List.length args)); [|discriminate].
        eapply IH; [exact Hr| |exact Hg0|exact Hm]. cbn. rewrite String.eqb_sym, Hne. exact Hk.
    + eapply IH; eauto.
Qed.

(* vector -> dictionaries -> vector returns exactly the components that were read, in order, and the running index advances
   by the number of components read *)
Theorem roundtrip_flat : forall S K kw i kw' n acc,
  compat S K = true -> keys_ok S = true -> (i <= List.length args)%nat ->
  run_a S (kw, i) = Some (kw', n) ->
  (i <= n <= List.length args)%nat /\
  exec_flat (do_k2a kw') c K acc = Some (acc ++ firstn (n - i) (skipn i args))%list.
Proof.
  induction S as [|[g l] S IH]; intros K kw i kw' n acc Hc Hn Hi Hr.
  - cbn in Hc, Hr. destruct K; [|discriminate]. inversion Hr; subst. split; [lia|].
    rewrite Nat.sub_diag. cbn. now rewrite app_nil_r.
  - cbn [keys_ok] in Hn. apply andb_true_iff in Hn as [Hfresh Hn].
    cbn [exec_flat] in Hr. cbn [compat] in Hc.
    destruct l as [k0|k0 a0|k0 t|k0 f].
    + destruct (geval c g); [cbn in Hr; destruct (lookup k0 (cfix c)); [|discriminate]|]; eapply IH; eauto.
    + destruct (geval c g); [cbn in Hr|]; eapply IH; eauto.
    + destruct K as [|[h [k' t'|k' f']] K]; try discriminate.
      apply andb_true_iff in Hc as [Hc HcK]. apply andb_true_iff in Hc as [Hc Hinv].
      apply andb_true_iff in Hc as [Hg Hk]. apply guard_eqb_eq in Hg. apply String.eqb_eq in Hk. subst h k'.
      cbn [exec_flat].
      destruct (geval c g) eqn:Hge.
      * cbn in Hr. destruct (nth_error args i) as [x|] eqn:Hx; [|discriminate].
        assert (Hil : (i < List.length args)%nat) by (apply nth_error_Some; congruence).
        pose proof (run_a_lookup S _ _ _ _ k0 [tsel_sem c t x] g Hr) as Hl.
        cbn [do_k2a]. rewrite Hl; [|cbn; now rewrite String.eqb_refl|exact Hge|exact Hfresh].
        destruct (IH K _ _ _ _ (acc ++ [tsel_sem c t' (tsel_sem c t x)])%list HcK Hn Hil Hr) as [H1 H3].
        split; [lia|]. rewrite H3, (tsel_inv_sound c _ _ _ Hinv), <- app_assoc. f_equal.
        replace (n - i)%nat with (1 + (n - Datatypes.S i))%nat by lia.
        rewrite firstn_skipn_add. rewrite (skipn_cons_nth _ _ _ Hx). cbn [firstn app].
        replace (i + 1)%nat with (Datatypes.S i) by lia. reflexivity.
      * eapply IH; eauto.
    + destruct K as [|[h [k' t'|k' f']] K]; try discriminate.
      apply andb_true_iff in Hc as [Hc HcK]. apply andb_true_iff in Hc as [Hc Hf].
      apply andb_true_iff in Hc as [Hg Hk]. apply guard_eqb_eq in Hg. apply String.eqb_eq in Hk, Hf. subst h k' f'.
      cbn [exec_flat].
      destruct (geval c g) eqn:Hge.
      * cbn in Hr. destruct (Nat.leb (i + cn c f) (List.length args)) eqn:Hle; [|discriminate].
        apply Nat.leb_le in Hle.
        pose proof (run_a_lookup S _ _ _ _ k0 (firstn (cn c f) (skipn i args)) g Hr) as Hl.
        cbn [do_k2a]. rewrite Hl; [|cbn; now rewrite String.eqb_refl|exact Hge|exact Hfresh].
        assert (Hlen : List.length (firstn (cn c f) (skipn i args)) = cn c f).
        { rewrite firstn_length, skipn_length. lia. }
        rewrite Hlen, Nat.leb_refl.
        destruct (IH K _ _ _ _ (acc ++ firstn (cn c f) (firstn (cn c f) (skipn i args)))%list HcK Hn Hle Hr) as [H1 H3].
        split; [lia|]. rewrite H3, <- app_assoc. f_equal.
        rewrite firstn_firstn, Nat.min_id.
        replace (n - i)%nat with (cn c f + (n - (i + cn c f)))%nat by lia.
        rewrite firstn_skipn_add. reflexivity.
      * eapply IH; eauto.
Qed.

(* fixed parameters: an active fixed slot puts the fixed value into the dictionary, and it stays there *)
Theorem fixed_value_flat : forall S kw i kw' n g k v,
  keys_ok S = true -> run_a S (kw, i) = Some (kw', n) ->
  In (g, AFix k) S -> geval c g = true -> lookup k (cfix c) = Some v ->
  lookup k kw' = Some [v].
Proof.
  induction S as [|[g0 l0] S IH]; intros kw i kw' n g k v Hn Hr Hin Hg Hv; [contradiction|].
  cbn [keys_ok] in Hn. apply andb_true_iff in Hn as [Hfresh Hn]. cbn [exec_flat] in Hr.
  destruct Hin as [E | Hin].
  - inversion E; subst g0 l0. rewrite Hg in Hr. cbn in Hr. rewrite Hv in Hr.
    eapply run_a_lookup; [exact Hr | cbn; now rewrite String.eqb_refl | exact Hg | exact Hfresh].
  - destruct (geval c g0).
    + destruct (do_a2k args c l0 (kw, i)) as [[kw1 i1]|] eqn:E; [|discriminate]. eapply IH; eauto.
    + eapply IH; eauto.
Qed.
(* ... and never occupies a vector slot: under "k in fixed" no free slot of key k is active *)
Theorem fixed_has_no_slot : forall S g k t v,
  fix_guarded S = true -> In (g, AFree k t) S -> lookup k (cfix c) = Some v -> geval c g = false.
Proof.
  intros S g k t v Hf Hin Hv. unfold fix_guarded in Hf. rewrite forallb_forall in Hf. specialize (Hf _ Hin). cbn in Hf.
  destruct (geval c g) eqn:E; [|reflexivity]. pose proof (has_lit_geval c _ _ Hf E) as H. cbn in H. rewrite Hv in H. discriminate.
Qed.
End RT.

(* ---------- the slot table: which key (and transform) sits at which vector position ---------- *)
Inductive slot := SScalar (k : string) (t : tsel) | SList (k : string) (j : nat).     (* position = one component *)
Fixpoint expand (k : string) (n : nat) (j : nat) : list slot := match n with O => [] | S m => SList k j :: expand k m (S j) end.
Fixpoint table (c : cfg) (S : list (guard * a2k_leaf)) : list slot :=
  match S with
  | [] => []
  | (g, l) :: r => (if geval c g then match l with AFree k t => [SScalar k t] | AFreeN k f => expand k (cn c f) 0 | _ => [] end else []) ++ table c r
  end.
Lemma expand_length k n j : List.length (expand k n j) = n.
Proof. revert j; induction n; intros j; cbn; [reflexivity | now rewrite IHn]. Qed.

(* the running index advances by exactly the table length: the vector is read left to right without gaps *)
Theorem index_advance c args : forall S kw i kw' n,
  exec_flat (do_a2k args) c S (kw, i) = Some (kw', n) -> n = (i + List.length (table c S))%nat.
Proof.
  induction S as [|[g l] S IH]; intros kw i kw' n Hr; cbn in Hr; [inversion Hr; cbn; lia|].
  cbn [table]. rewrite app_length. destruct (geval c g).
  - destruct l as [k|k a|k t|k f]; cbn in Hr.
    + destruct (lookup k (cfix c)); [|discriminate]. apply IH in Hr. cbn. lia.
    + apply IH in Hr. cbn. lia.
    + destruct (nth_error args i); [|discriminate]. apply IH in Hr. cbn. lia.
    + destruct (Nat.leb (i + cn c f) (List.length args)); [|discriminate]. apply IH in Hr. rewrite expand_length. lia.
  - apply IH in Hr. cbn. lia.
Qed.

(* what the dictionary holds for the slot at table position p: the (transformed) vector component i0 + p *)
Definition slot_value (c : cfg) (kw : dict) (s : slot) : option R :=
  match s with
  | SScalar k t => match lookup k kw with Some [v] => Some v | _ => None end
  | SList k j => match lookup k kw with Some vs => nth_error vs j | None => None end
  end.
Definition slot_tr (c : cfg) (s : slot) (x : R) : R := match s with SScalar _ t => tsel_sem c t x | SList _ _ => x end.

Lemma nth_error_expand k n j0 p : (p < n)%nat -> nth_error (expand k n j0) p = Some (SList k (j0 + p)).
Proof. revert j0 p; induction n; intros j0 p H; [lia|]. destruct p; cbn; [now rewrite Nat.add_0_r|]. rewrite IHn by lia. f_equal. f_equal. lia. Qed.
Lemma nth_error_firstn_skipn {A} (l : list A) i n p : (p < n)%nat -> nth_error (firstn n (skipn i l)) p = nth_error l (i + p).
Proof.
  intros H. revert l; induction i; intros l; cbn [skipn Nat.add].
  - revert l p H; induction n; intros l p H; [lia|]. destruct l; [now destruct p|]. destruct p; cbn; [reflexivity|]. apply IHn. lia.
  - destruct l; [now destruct p; destruct n|]. cbn. apply IHi.
Qed.

Theorem slot_alignment c args : forall S kw i kw' n p s,
  keys_ok S = true ->
  exec_flat (do_a2k args) c S (kw, i) = Some (kw', n) ->
  nth_error (table c S) p = Some s ->
  exists x, nth_error args (i + p) = Some x /\ slot_value c kw' s = Some (slot_tr c s x).
Proof.
  induction S as [|[g l] S IH]; intros kw i kw' n p s Hn Hr Hp; [destruct p; discriminate|].
  cbn [keys_ok] in Hn. apply andb_true_iff in Hn as [Hfresh Hn]. cbn [exec_flat] in Hr. cbn [table] in Hp.
  destruct (geval c g) eqn:Hg; [|cbn [app] in Hp; eapply IH; eauto].
  destruct l as [k|k a|k t|k f]; cbn in Hr.
  - destruct (lookup k (cfix c)); [|discriminate]. cbn [app] in Hp. eapply IH; eauto.
  - cbn [app] in Hp. eapply IH; eauto.
  - destruct (nth_error args i) as [x|] eqn:Hx; [|discriminate]. destruct p as [|p].
    + cbn in Hp. inversion Hp; subst s. exists x. rewrite Nat.add_0_r. split; [exact Hx|]. cbn [slot_value slot_tr].
      erewrite (run_a_lookup c args S _ _ _ _ k [tsel_sem c t x] g Hr); [reflexivity | cbn; now rewrite String.eqb_refl | exact Hg | exact Hfresh].
    + cbn [app nth_error] in Hp. destruct (IH _ _ _ _ p s Hn Hr Hp) as (y & Hy & Hv). exists y. split; [|exact Hv].
      now replace (i + Datatypes.S p)%nat with (Datatypes.S i + p)%nat by lia.
  - destruct (Nat.leb (i + cn c f) (List.length args)) eqn:Hle; [|discriminate]. apply Nat.leb_le in Hle.
    destruct (Nat.ltb p (cn c f)) eqn:Hlt.
    + apply Nat.ltb_lt in Hlt. rewrite nth_error_app1 in Hp by (now rewrite expand_length).
      rewrite nth_error_expand in Hp by exact Hlt. inversion Hp; subst s. cbn [Nat.add].
      assert (Hx : exists x, nth_error args (i + p) = Some x).
      { destruct (nth_error args (i + p)) eqn:E; [eauto|]. apply nth_error_None in E. lia. }
      destruct Hx as [x Hx]. exists x. split; [exact Hx|]. cbn [slot_value slot_tr].
      erewrite (run_a_lookup c args S _ _ _ _ k _ g Hr); [|cbn; now rewrite String.eqb_refl | exact Hg | exact Hfresh].
      rewrite nth_error_firstn_skipn by exact Hlt. exact Hx.
    + apply Nat.ltb_ge in Hlt. rewrite nth_error_app2 in Hp by (now rewrite expand_length). rewrite expand_length in Hp.
      destruct (IH _ _ _ _ (p - cn c f)%nat s Hn Hr Hp) as (y & Hy & Hv). exists y. split; [|exact Hv].
      now replace (i + p)%nat with (i + cn c f + (p - cn c f))%nat by lia.
Qed.

(* ---------- names: the i-th name is the documented name of the key at slot i ---------- *)
Inductive name_leaf := NName (s : string) | NNameN (pre f : string).      (* list.append(s)  |  for i in range(self.f): list.append(pre % i) *)
Definition do_name (render : string -> nat -> string) (c : cfg) (l : name_leaf) (acc : list string) : option (list string) :=
  match l with
  | NName s => Some (acc ++ [s])%list
  | NNameN pre f => Some (acc ++ map (render pre) (seq 0 (cn c f)))%list
  end.
(* documented plain name of a slot *)
Definition slot_name (render : string -> nat -> string) (kname listpre : string -> string) (s : slot) : string :=
  match s with SScalar k _ => kname k | SList k j => render (listpre k) j end.
(* the plain-name branch of param_list pairs off with the free slots: same guard plus (latex = false), name = key *)
Fixpoint drop_lit (l : lit) (g : guard) : guard := match g with [] => [] | x :: r => if lit_eqb x l then r else x :: drop_lit l r end.
Fixpoint names_compat (kname listpre : string -> string) (S : list (guard * a2k_leaf)) (N : list (guard * name_leaf)) : bool :=
  match S with
  | [] => match N with [] => true | _ => false end
  | (g, AFix _) :: S' | (g, AConst _ _) :: S' => names_compat kname listpre S' N
  | (g, AFree k _) :: S' =>
      match N with
      | (h, NName s) :: N' => guard_eqb g h && String.eqb (kname k) s && names_compat kname listpre S' N'
      | _ => false end
  | (g, AFreeN k f) :: S' =>
      match N with
      | (h, NNameN pre f') :: N' => guard_eqb g h && String.eqb (listpre k) pre && String.eqb f f' && names_compat kname listpre S' N'
      | _ => false end
  end.
Lemma map_expand render kname listpre k n j0 : map (slot_name render kname listpre) (expand k n j0) = map (render (listpre k)) (seq j0 n).
Proof. revert j0; induction n; intros j0; cbn; [reflexivity|]. now rewrite IHn. Qed.
Theorem names_alignment render kname listpre c : forall S N acc,
  names_compat kname listpre S N = true ->
  exec_flat (do_name render) c N acc = Some (acc ++ map (slot_name render kname listpre) (table c S))%list.
Proof.
  induction S as [|[g l] S IH]; intros N acc Hc; cbn [names_compat] in Hc.
  - destruct N; [|discriminate]. cbn. now rewrite app_nil_r.
  - cbn [table]. rewrite map_app.
    destruct l as [k|k a|k t|k f].
    + destruct (geval c g); cbn [app map]; now apply IH.
    + destruct (geval c g); cbn [app map]; now apply IH.
    + destruct N as [|[h [s|pre f']] N]; try discriminate.
      apply andb_true_iff in Hc as [Hc HcN]. apply andb_true_iff in Hc as [Hg Hk].
      apply guard_eqb_eq in Hg. apply String.eqb_eq in Hk. subst h s. cbn [exec_flat].
      destruct (geval c g); cbn [do_name map app slot_name].
      * rewrite IH by exact HcN. now rewrite <- app_assoc.
      * now apply IH.
    + destruct N as [|[h [s|pre f']] N]; try discriminate.
      apply andb_true_iff in Hc as [Hc HcN]. apply andb_true_iff in Hc as [Hc Hf]. apply andb_true_iff in Hc as [Hg Hk].
      apply guard_eqb_eq in Hg. apply String.eqb_eq in Hk, Hf. subst h pre f'. cbn [exec_flat].
      destruct (geval c g); cbn [do_name].
      * rewrite IH by exact HcN. rewrite map_expand, <- app_assoc. reflexivity.
      * cbn [map app]. now apply IH.
Qed.
