(* C01 - LOSParam.args2kwargs for ANY number of line-of-sight populations (none with a fixed parameter), at interpreter level: definitions, the
   lemmas that resolve subscripts / item assignments at the symbolic population and vector indices, the list comprehension
   [{} for _ in range(n)] for symbolic n, and ONE ITERATION of the loop for the three kinds of population (the expensive part: three nested
   conditionals, six subscripts, up to three nested item assignments kwargs[k][name] = args[i]).  Used by A2KN.v.  Source = C01.Src. *)
From Coq Require Import Reals ZArith String List Bool Lra Lia.
Require Import Py.PyAst Py.PyVal Py.PySem Py.XLemmas Py.Unfold Py.Tactics Py.Sym.
Require Import C01.Src C01.LosStep.
Import ListNotations.
Open Scope string_scope.
Lemma eval_EListComp G f elt target iter conds ρ w :
  eval G (S f) (EListComp elt target iter conds) ρ w =
  (do iw <- eval G f iter ρ w; do items <- as_list (fst iw);
      (fix go (items : list val) (acc : list val) (w : world) : res (val * world) :=
         match items with
         | [] => Ok (VList (rev acc), w)
         | x :: r =>
             do a <- assign (eval G f) f target x ρ w;
             do cw <- (fix conj (cs : list expr) (w : world) : res (bool * world) :=
                         match cs with
                         | [] => Ok (true, w)
                         | c :: cs' => do vw <- eval G f c (fst a) w; do t <- m_truthy (fst vw) (snd vw);
                                       if fst t then conj cs' (snd t) else Ok (false, snd t)
                         end) conds (snd a);
             if fst cw then do ew <- eval G f elt (fst a) (snd cw); go r (fst ew :: acc) (snd ew)
             else go r acc (snd cw)
         end) items [] (snd iw)).
Proof. reflexivity. Qed.
(* list comprehension [ {} for _ in <range of n> ] *)
Lemma listcomp_empty_dicts G f it ρ w a n :
  eval G (S (S f)) it ρ w = Ok (VList (zrange a n), w) ->
  eval G (S (S (S f))) (EListComp (EDict []) (EName "_") it []) ρ w = Ok (VList (repeat (VDict []) n), w).
Proof.
  intros Hit. rewrite eval_EListComp, Hit. cbn [bind fst snd as_list].
  change (VList (repeat (VDict []) n)) with (VList (rev (@nil val) ++ repeat (VDict []) n)).
  clear Hit. generalize (@nil val) as acc. revert a.
  induction n as [|n IH]; intros a acc.
  - cbn [zrange repeat]. rewrite app_nil_r. reflexivity.
  - cbn [zrange repeat]. cbn [assign bind fst snd]. cbn [eval bind fst snd].
    rewrite IH. cbn [rev]. rewrite <- app_assoc. reflexivity.
Qed.

Lemma assign_ESub ev fu c i v ρ w :
  assign ev (S fu) (ESub c i) v ρ w = (do cw <- ev c ρ w; do iw <- ev i ρ (snd cw); do c' <- set_item (fst cw) (fst iw) v; assign ev fu c c' ρ (snd iw)).
Proof. reflexivity. Qed.
Lemma subscript_app_at (l1 : list val) x l2 k : length l1 = k -> subscript (VList (l1 ++ x :: l2)) (VInt (Z.of_nat k)) = Ok x.
Proof.
  intros <-. unfold subscript. destruct (Z.ltb_spec (Z.of_nat (length l1)) 0); [lia|].
  rewrite Nat2Z.id, nth_error_app2 by lia. rewrite Nat.sub_diag. reflexivity.
Qed.
Lemma list_set_app_at (l1 : list val) x l2 y : list_set (l1 ++ x :: l2) (Datatypes.length l1) y = Some (l1 ++ y :: l2)%list.
Proof. induction l1 as [|a l1 IH]; cbn [app length list_set]; [reflexivity|]. rewrite IH. reflexivity. Qed.
Lemma set_item_app_at (l1 : list val) x l2 y k : length l1 = k -> set_item (VList (l1 ++ x :: l2)) (VInt (Z.of_nat k)) y = Ok (VList (l1 ++ y :: l2)).
Proof. intros <-. unfold set_item. rewrite Nat2Z.id, list_set_app_at. reflexivity. Qed.
Lemma subscript_num_at (used : list R) (a : R) more k : length used = k -> subscript (VList (map snum (used ++ a :: more))) (VInt (Z.of_nat k)) = Ok (snum a).
Proof. intros H. apply subscript_at. exact H. Qed.
Lemma subscript_num_at1 (used : list R) (a b : R) more : subscript (VList (map snum (used ++ a :: b :: more))) (VInt (Z.of_nat (length used) + 1)) = Ok (snum b).
Proof.
  replace (Z.of_nat (length used) + 1)%Z with (Z.of_nat (length (used ++ [a]))) by (rewrite app_length; cbn [length]; lia).
  rewrite (Sym_app_snoc used a (b :: more)). apply subscript_at. reflexivity.
Qed.
Lemma subscript_num_at2 (used : list R) (a b c : R) more : subscript (VList (map snum (used ++ a :: b :: c :: more))) (VInt (Z.of_nat (length used) + 1 + 1)) = Ok (snum c).
Proof.
  replace (Z.of_nat (length used) + 1 + 1)%Z with (Z.of_nat (length ((used ++ [a]) ++ [b]))) by (rewrite !app_length; cbn [length]; lia).
  rewrite (Sym_app_snoc used a (b :: c :: more)), (Sym_app_snoc (used ++ [a]) b (c :: more)). apply subscript_at. reflexivity.
Qed.

Definition free_r (p : pop) : list R := match pk p with DOther => [] | DGauss => [vm p; vs p] | DGev => [vm p; vs p; vx p] end.
Definition blockA := match src_LOSParam_args2kwargs with FunDef _ _ _ _ b => match nth 1 b SPass with SIf _ blk _ => blk | _ => [] end end.
Definition bodyA := match nth 0 blockA SPass with SFor _ _ bb => bb | _ => [] end.
Definition itA := match nth 0 blockA SPass with SFor _ it _ => it | _ => ENone end.
Definition tgA := match nth 0 blockA SPass with SFor t _ _ => t | _ => ENone end.
Definition envA (pops : list pop) (argl : list R) (i : Z) (KW : list val) (prev : option (Z * val)) : env :=
  ([("self", selfL pops); ("args", VList (map snum argl)); ("i", VInt i); ("kwargs", VList KW)]
   ++ match prev with Some (k, d) => [("k", VInt k); ("los_distribution", d)] | None => [] end)%list.
Definition stepA := for_step (eval G0 77) (exec G0 77) 77 tgA itA bodyA.
Ltac RUNP tm := let r := eval lazy -[Rplus Rmult Rminus Rdiv Rinv Ropp Rmax Rmin Rlt Rle Rgt Rge ln exp sqrt log10 IZR dec Rpower pow PI DBL_MAX not snum map app length subscript set_item Z.of_nat Z.add dstr fixd kwd repeat] in tm in change tm with r.
Ltac RUNQ tm := let r := eval lazy -[Rplus Rmult Rminus Rdiv Rinv Ropp Rmax Rmin Rlt Rle Rgt Rge ln exp sqrt log10 IZR dec Rpower pow PI DBL_MAX not snum map length Z.of_nat Z.add repeat] in tm in change tm with r.
Ltac leafA :=
  match goal with
  | |- context [eval ?G ?f (EName ?x) ?r ?w] => RUNP (eval G f (EName x) r w)
  | |- context [eval ?G ?f (EAttr ?a ?b) ?r ?w] => RUNP (eval G f (EAttr a b) r w)
  | |- context [eval ?G ?f (EStr ?k) ?r ?w] => RUNP (eval G f (EStr k) r w)
  | |- context [eval ?G ?f (EInt ?k) ?r ?w] => RUNP (eval G f (EInt k) r w)
  | |- context [eval ?G ?f (EList ?l) ?r ?w] => RUNP (eval G f (EList l) r w)
  | |- context [do_cmp ?o (VStr ?a) ?b ?w] => RUNQ (do_cmp o (VStr a) b w)
  | |- context [do_binop_np ?o (VInt ?a) (VInt ?b) ?w] => RUNP (do_binop_np o (VInt a) (VInt b) w)
  | |- context [m_truthy (VBool ?b) ?w] => RUNP (m_truthy (VBool b) w)
  | |- context [is_arr (VStr ?a)] => RUNP (is_arr (VStr a))
  | |- context [is_arr (VList ?a)] => RUNP (is_arr (VList a))
  | |- context [is_arr (fixd ?a)] => RUNQ (is_arr (fixd a))
  | |- context [is_arr (dstr ?a)] => RUNQ (is_arr (dstr a))
  | |- context [do_cmp ?o (dstr ?a) ?b ?w] => RUNQ (do_cmp o (dstr a) b w)
  | |- context [set_item (VDict ?d) (VStr ?k) ?v] => RUNQ (set_item (VDict d) (VStr k) v)
  | |- context [exec ?G ?f (@nil stmt) ?r ?w] => RUNP (exec G f (@nil stmt) r w)
  | |- context [run_stmts ?st (@nil stmt) ?r ?w] => RUNP (run_stmts st (@nil stmt) r w)
  | |- context [assign ?a ?b (EName ?x) ?v ?r ?w] => RUNP (assign a b (EName x) v r w)
  end.
Ltac symA :=
  repeat first [ rewrite (eval_ECmp G0) | rewrite (eval_ESub G0) | rewrite assign_ESub
               | erewrite subscript_map_at by (first [reflexivity | eassumption | symmetry; eassumption])
               | erewrite subscript_app_at by (rewrite ?map_length; reflexivity)
               | erewrite set_item_app_at by (rewrite ?map_length; reflexivity)
               | rewrite subscript_num_at2 | rewrite subscript_num_at1 | erewrite subscript_num_at by reflexivity
               | rewrite exec_S | rewrite run_stmts_cons; cbn [exec_stmt] | rewrite run_stmts_one; cbn [exec_stmt]
               | progress cbn [bind fst snd orb negb seq_out] | progress leafA ].
Definition iafter (used : list R) (p : pop) : Z :=
  match pk p with
  | DOther => Z.of_nat (Datatypes.length used)
  | DGauss => (Z.of_nat (Datatypes.length used) + 1 + 1)%Z
  | DGev => (Z.of_nat (Datatypes.length used) + 1 + 1 + 1)%Z
  end.
Lemma iafter_eq used p : iafter used p = Z.of_nat (Datatypes.length (used ++ free_r p)).
Proof. unfold iafter, free_r. destruct (pk p); rewrite app_length; cbn [Datatypes.length]; lia. Qed.
(* the loop body on the environment in which the loop variables exist (after the target assignment it always has this shape) *)
Lemma bodyA_run (pre rest : list pop) p used more tl w :
  exec G0 77 bodyA (envA (pre ++ p :: rest) (used ++ free_r p ++ more) (Z.of_nat (Datatypes.length used)) (map kwd pre ++ VDict [] :: tl)
                         (Some (Z.of_nat (Datatypes.length pre), dstr p))) w
  = Ok (ONormal (envA (pre ++ p :: rest) (used ++ free_r p ++ more) (iafter used p) (map kwd pre ++ kwd p :: tl) (Some (Z.of_nat (Datatypes.length pre), dstr p))), w).
Proof.
  destruct p as [k m s x]. destruct k; unfold iafter, free_r, kwd, envA; cbn [pk vm vs vx app];
  unfold bodyA, blockA; cbv beta iota zeta delta [src_LOSParam_args2kwargs nth]; symA;
  (match goal with |- ?L = _ => RUNP L end); reflexivity.
Qed.
(* one iteration: the dictionary of population k is filled with the next free values of the vector, the read position advances by their number *)
Lemma stepA_one (pre rest : list pop) p used more tl prev idx w :
  stepA (VTuple [VInt (Z.of_nat (Datatypes.length pre)); dstr p]) idx
        (envA (pre ++ p :: rest) (used ++ free_r p ++ more) (Z.of_nat (Datatypes.length used)) (map kwd pre ++ VDict [] :: tl) prev) w
  = Ok (ONormal (envA (pre ++ p :: rest) (used ++ free_r p ++ more) (iafter used p) (map kwd pre ++ kwd p :: tl) (Some (Z.of_nat (Datatypes.length pre), dstr p))), w).
Proof.
  destruct prev as [[pk0 pd0]|]; unfold stepA, for_step;
  unfold envA at 1; cbn [app];
  (match goal with |- context [assign ?a ?b ?c ?d ?e ?f] => RUNP (assign a b c d e f) end);
  cbn [bind fst snd];
  (match goal with |- context [exec G0 77 bodyA ?r ?w0] =>
     change (exec G0 77 bodyA r w0)
       with (exec G0 77 bodyA (envA (pre ++ p :: rest) (used ++ free_r p ++ more) (Z.of_nat (Datatypes.length used)) (map kwd pre ++ VDict [] :: tl)
                                    (Some (Z.of_nat (Datatypes.length pre), dstr p))) w0) end);
  rewrite bodyA_run; cbn [bind fst snd]; unfold envA;
  (match goal with |- ?L = _ => RUNP L end); reflexivity.
Qed.
