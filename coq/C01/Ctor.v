(* C01 - the constructors of the five parameter blocks: every switch / distribution name / fixed dictionary the user passes is stored under the
   attribute that the three ladders (param_list, args2kwargs, kwargs2args) read, and under no other.  Source = C01.Src (regenerated). *)
From Coq Require Import Reals ZArith List String Bool.
Require Import Py.PyAst Py.PyVal Py.PySem Py.XLemmas Py.Unfold Py.Tactics.
Require Import C01.Src.
Import ListNotations.
Open Scope string_scope.
Open Scope list_scope.

Definition E0 : fenv := FEnv (fun _ _ => None) (fun _ => None).
Definition const_oracle (e : expr) : callee :=
  COracle (fun _ _ w => match eval E0 10 e [] w with Ok (v, _) => Ok (v, w) | _ => Stuck "module constant" end).
Definition Gc : fenv := FEnv (fun _ _ => None)
  (fun n => if String.eqb n "_LOS_DISTRIBUTIONS" then Some (const_oracle src_const_LOS_DISTRIBUTIONS)
            else if String.eqb n "_SNE_DISTRIBUTIONS" then Some (const_oracle src_const_SNE_DISTRIBUTIONS) else None).

(* every constructor parameter (but self) is given its own name as a symbolic value, except those listed in [over]
   (parameters the constructor validates against a list of supported names) *)
Fixpoint assoc {A} (k : string) (l : list (string * A)) : option A :=
  match l with [] => None | (k', v) :: t => if String.eqb k k' then Some v else assoc k t end.
Definition tagged (fd : fundef) (over : list (string * val)) : list (string * val) :=
  map (fun p => (fst p, match assoc (fst p) over with Some v => v | None => VStr (fst p) end)) (tl (f_params fd)).
(* the object stores parameter p under the attribute _p, with the value that was passed *)
Definition stores (o : val) (kws : list (string * val)) : bool :=
  match o with
  | VObj _ fs => forallb (fun kv => match field_get (String.append "_" (fst kv)) fs with Some v => val_eqb v (snd kv) | None => false end) kws
  | _ => false end.
(* ... and has no attribute beyond those and the listed extra ones *)
Definition only_fields (o : val) (kws : list (string * val)) (extra : list string) : bool :=
  match o with
  | VObj _ fs => forallb (fun f => existsb (fun kv => String.eqb (fst f) (String.append "_" (fst kv))) kws || existsb (String.eqb (fst f)) extra) fs
  | _ => false end.
Definition field_of (o : val) (a : string) : option val := match o with VObj _ fs => field_get a fs | _ => None end.

(* the attributes a method body reads from self *)
Fixpoint reads_e (fuel : nat) (e : expr) : list string :=
  match fuel with O => [] | S f =>
  match e with
  | EAttr (EName "self") a => [a]
  | EAttr e' _ => reads_e f e'
  | ESub a b | EBin _ a b | ECmp _ a b => reads_e f a ++ reads_e f b
  | EUn _ a => reads_e f a
  | EBoolOp _ l | EList l | ETuple l => flat_map (reads_e f) l
  | ECall (EAttr (EName "self") _) args kws => flat_map (reads_e f) args ++ flat_map (fun kv => reads_e f (snd kv)) kws   (* a method call, not an attribute read *)
  | ECall g args kws => reads_e f g ++ flat_map (reads_e f) args ++ flat_map (fun kv => reads_e f (snd kv)) kws
  | EDict l => flat_map (fun kv => (match fst kv with Some k => reads_e f k | None => [] end) ++ reads_e f (snd kv)) l
  | EIfExp c a b => reads_e f c ++ reads_e f a ++ reads_e f b
  | EListComp a t i cs => reads_e f a ++ reads_e f i ++ flat_map (reads_e f) cs
  | _ => [] end end.
Fixpoint reads_s (fuel : nat) (ss : list stmt) : list string :=
  match fuel with O => [] | S f =>
  flat_map (fun s => match s with
    | SAssign t v | SAug _ t v => reads_e 30 t ++ reads_e 30 v
    | SIf c a b => reads_e 30 c ++ reads_s f a ++ reads_s f b
    | SFor t i b => reads_e 30 i ++ reads_s f b
    | SReturn (Some e) | SExpr e | SAssert e => reads_e 30 e
    | STry a b => reads_s f a ++ reads_s f b
    | SWith c _ b => reads_e 30 c ++ reads_s f b
    | _ => [] end) ss end.
Definition reads (fd : fundef) : list string := reads_s 30 (f_body fd).
(* every attribute the ladders read was stored by the constructor *)
Definition reads_stored (o : val) (fds : list fundef) : bool :=
  match o with
  | VObj _ fs => forallb (fun a => match field_get a fs with Some _ => true | None => false end) (flat_map reads fds)
  | _ => false end.

Section Blocks.
Variables (rg : nat -> R) (cu : nat).

(* LensParam: 17 parameters, no validation; kwargs_fixed=None becomes an empty dictionary *)
Theorem lens_ctor :
  exists o, yields Gc 60 (CClass "LensParam" src_LensParam_init) None [] (tagged src_LensParam_init []) rg cu o cu []
    /\ stores o (tagged src_LensParam_init []) = true /\ only_fields o (tagged src_LensParam_init []) [] = true
    /\ reads_stored o [src_LensParam_param_list; src_LensParam_args2kwargs; src_LensParam_kwargs2args] = true
    /\ List.length (tagged src_LensParam_init []) = 17%nat.
Proof. eexists. split; [unfold tagged; yields_auto | vm_compute; repeat split; reflexivity]. Qed.
Theorem lens_ctor_default_fixed :
  exists o, yields Gc 60 (CClass "LensParam" src_LensParam_init) None [] (tagged src_LensParam_init [("kwargs_fixed", VNone)]) rg cu o cu []
    /\ field_of o "_kwargs_fixed" = Some (VDict []).
Proof. eexists. split; [unfold tagged; yields_auto | reflexivity]. Qed.

(* KinParam: the anisotropy model is asserted to be one of the four supported names *)
Theorem kin_ctor (m : string) : In m ["NONE"; "GOM"; "OM"; "const"] ->
  exists o, yields Gc 60 (CClass "KinParam" src_KinParam_init) None [] (tagged src_KinParam_init [("anisotropy_model", VStr m)]) rg cu o cu []
    /\ stores o (tagged src_KinParam_init [("anisotropy_model", VStr m)]) = true
    /\ only_fields o (tagged src_KinParam_init []) [] = true
    /\ reads_stored o [src_KinParam_param_list; src_KinParam_args2kwargs; src_KinParam_kwargs2args] = true.
Proof.
  intros H. cbn [In] in H. repeat (destruct H as [<- | H]; [eexists; split; [unfold tagged; yields_auto | vm_compute; repeat split; reflexivity]|]). contradiction.
Qed.
Theorem kin_ctor_default_fixed :
  exists o, yields Gc 60 (CClass "KinParam" src_KinParam_init) None [] (tagged src_KinParam_init [("anisotropy_model", VStr "OM"); ("kwargs_fixed", VNone)]) rg cu o cu []
    /\ field_of o "_kwargs_fixed" = Some (VDict []).
Proof. eexists. split; [unfold tagged; yields_auto | reflexivity]. Qed.

(* CosmoParam: the cosmology must be a supported name; an unsupported one is refused *)
Theorem cosmo_ctor (c : string) : In c ["FLCDM"; "FwCDM"; "w0waCDM"; "oLCDM"; "NONE"] ->
  exists o, yields Gc 60 (CClass "CosmoParam" src_CosmoParam_init) None [] (tagged src_CosmoParam_init [("cosmology", VStr c)]) rg cu o cu []
    /\ stores o (tagged src_CosmoParam_init [("cosmology", VStr c)]) = true
    /\ only_fields o (tagged src_CosmoParam_init []) ["_supported_cosmologies"] = true
    /\ reads_stored o [src_CosmoParam_param_list; src_CosmoParam_args2kwargs; src_CosmoParam_kwargs2args] = true.
Proof.
  intros H. cbn [In] in H. repeat (destruct H as [<- | H]; [eexists; split; [unfold tagged; yields_auto | vm_compute; repeat split; reflexivity]|]). contradiction.
Qed.
Theorem cosmo_ctor_unsupported :
  exists ds, call Gc 60 (CClass "CosmoParam" src_CosmoParam_init) None [] (tagged src_CosmoParam_init []) (World rg cu [] ds []) = Exc "ValueError".
Proof. exists []. reflexivity. Qed.
Theorem cosmo_ctor_default_fixed :
  exists o, yields Gc 60 (CClass "CosmoParam" src_CosmoParam_init) None [] (tagged src_CosmoParam_init [("cosmology", VStr "FLCDM"); ("kwargs_fixed", VNone)]) rg cu o cu []
    /\ field_of o "_kwargs_fixed" = Some (VDict []).
Proof. eexists. split; [unfold tagged; yields_auto | reflexivity]. Qed.

(* SourceParam: the supernova distribution must be a supported name *)
Theorem source_ctor (d : string) : In d ["GAUSSIAN"; "NONE"] ->
  exists o, yields Gc 60 (CClass "SourceParam" src_SourceParam_init) None [] (tagged src_SourceParam_init [("sne_distribution", VStr d)]) rg cu o cu []
    /\ stores o (tagged src_SourceParam_init [("sne_distribution", VStr d)]) = true
    /\ only_fields o (tagged src_SourceParam_init []) [] = true
    /\ reads_stored o [src_SourceParam_param_list; src_SourceParam_args2kwargs; src_SourceParam_kwargs2args] = true.
Proof.
  intros H. cbn [In] in H. repeat (destruct H as [<- | H]; [eexists; split; [unfold tagged; yields_auto | vm_compute; repeat split; reflexivity]|]). contradiction.
Qed.
Theorem source_ctor_unsupported :
  exists ds, call Gc 60 (CClass "SourceParam" src_SourceParam_init) None [] (tagged src_SourceParam_init []) (World rg cu [] ds []) = Exc "ValueError".
Proof. exists []. reflexivity. Qed.

(* LOSParam: a list of supported distribution names is stored as given; None -> no population; the default fixed list has one EMPTY
   dictionary per population (each a fresh one: the comprehension evaluates {} once per element) *)
Definition los_names := [VStr "GAUSSIAN"; VStr "GEV"; VStr "NONE"; VStr "GEV"].
Theorem los_ctor :
  exists o, yields Gc 60 (CClass "LOSParam" src_LOSParam_init) None [] (tagged src_LOSParam_init [("los_distributions", VList los_names)]) rg cu o cu []
    /\ stores o (tagged src_LOSParam_init [("los_distributions", VList los_names)]) = true
    /\ only_fields o (tagged src_LOSParam_init []) [] = true
    /\ reads_stored o [src_LOSParam_param_list; src_LOSParam_args2kwargs; src_LOSParam_kwargs2args] = true.
Proof. eexists. split; [unfold tagged; yields_auto | vm_compute; repeat split; reflexivity]. Qed.
Theorem los_ctor_defaults :
  exists o, yields Gc 60 (CClass "LOSParam" src_LOSParam_init) None [] (tagged src_LOSParam_init [("los_distributions", VList los_names); ("kwargs_fixed", VNone)]) rg cu o cu []
    /\ field_of o "_kwargs_fixed" = Some (VList [VDict []; VDict []; VDict []; VDict []])
  /\ exists o', yields Gc 60 (CClass "LOSParam" src_LOSParam_init) None [] (tagged src_LOSParam_init [("los_distributions", VNone); ("kwargs_fixed", VNone)]) rg cu o' cu []
    /\ field_of o' "_los_distributions" = Some (VList []) /\ field_of o' "_kwargs_fixed" = Some (VList []).
Proof. eexists. split; [unfold tagged; yields_auto | split; [reflexivity|]]. eexists. split; [unfold tagged; yields_auto | split; reflexivity]. Qed.
Theorem los_ctor_unsupported :
  exists ds, call Gc 60 (CClass "LOSParam" src_LOSParam_init) None [] (tagged src_LOSParam_init [("los_distributions", VList [VStr "GAUSS"])]) (World rg cu [] ds []) = Exc "ValueError".
Proof. exists []. reflexivity. Qed.
End Blocks.
