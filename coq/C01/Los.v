(* C01 — the line-of-sight block: one small ladder per population, run for every population in list order. *)
From Coq Require Import Reals ZArith List String Bool Arith Lia.
Require Import Py.PyAst.
Require Import C01.LTree C01.Slots C01.Blocks C01.ToLadder C01.Src.
Import ListNotations.
Open Scope string_scope.

(* ---------- the dialect of the per-population loop body ---------- *)
Definition idx_name (e : expr) : bool := is_name "k" e || is_name "i" e.
Definition fixed_sub (e : expr) : bool :=
  match e with ESub d j => match self_attr d with Some a => String.eqb a "_kwargs_fixed" && idx_name j | None => false end | _ => false end.
Definition kw_key_los (e : expr) : option string :=
  match e with ESub (ESub d j) (EStr k) => if is_name "kwargs" d && idx_name j then Some k else None | _ => None end.
Definition fixed_read_los (e : expr) : option string :=
  match e with ESub d (EStr k) => if fixed_sub d then Some k else None | _ => None end.
Definition cond_of_los (e : expr) : option (atom * bool) :=
  match e with
  | ECmp CIs x (EBool true) => if is_name "latex_style" x then Some (ALatex, true) else None
  | ECmp CIn (EStr k) d => if fixed_sub d then Some (AFixed k, true) else None
  | ECmp CNotIn (EStr k) d => if fixed_sub d then Some (AFixed k, false) else None
  | ECmp CIn x (EList vs) => if is_name "los_distribution" x then match strs_of vs with Some l => Some (AStrIn "los_distribution" l, true) | None => None end else None
  | _ => None
  end.
(* name_list.append(str("mean_los_" + str(i)))   |   name_list.append(r"$..%s..$" % i) : the leaf carries the prefix / the format *)
Definition name_of_los (s : stmt) : option string :=
  match s with
  | SExpr (ECall (EAttr r m) [ECall (EName s1) [EBin Add (EStr p) (ECall (EName s2) [j] [])] []] []) =>
      if lname r && String.eqb m "append" && String.eqb s1 "str" && String.eqb s2 "str" && idx_name j then Some p else None
  | SExpr (ECall (EAttr r m) [EBin Mod (EStr p) j] []) => if lname r && String.eqb m "append" && idx_name j then Some p else None
  | _ => None
  end.

(* the outer shape:  RES = init ; if self._los_sampling is True: for IDX, los_distribution in enumerate(self._los_distributions): BODY ; return ... *)
Definition los_outer (res : string) (ss : list stmt) : option (list stmt) :=
  match ss with
  | [SAssign (EName r) _; SIf (ECmp CIs sam (EBool true)) [SFor (ETuple [EName j; EName ld]) (ECall (EName en) [pops] []) body] []; SReturn (Some _)] =>
      match self_attr sam, self_attr pops with
      | Some a, Some b =>
          if String.eqb r res && String.eqb a "_los_sampling" && String.eqb b "_los_distributions" && String.eqb en "enumerate"
             && String.eqb ld "los_distribution" && (String.eqb j "k" || String.eqb j "i") then Some body else None
      | _, _ => None end
  | _ => None
  end.
Definition read_los : option block :=
  match los_outer "kwargs" (f_body src_LOSParam_args2kwargs), los_outer "args" (f_body src_LOSParam_kwargs2args), los_outer "name_list" (f_body src_LOSParam_param_list) with
  | Some ba, Some bk, Some bn =>
      match a2k_of cond_of_los kw_key_los fixed_read_los 100 ba, k2a_of cond_of_los kw_key_los 100 bk,
            names_of cond_of_los name_of_los 100 bn, lnames_of cond_of_los name_of_los 100 bn with
      | Some a, Some k, Some n, Some l => Some (Block a k n l)
      | _, _, _, _ => None end
  | _, _, _ => None
  end.
Definition los_elem := Eval vm_compute in match read_los with Some b => b | None => Block [] [] [] [] end.
Lemma los_read : read_los = Some los_elem. Proof. vm_compute. reflexivity. Qed.
(* documented names: key K of population j is called  K_los_j *)
Definition kname_los (k : string) : string := k ++ "_los_".
Definition listpre_los (k : string) : string := k.
Lemma los_ok : block_ok kname_los listpre_los los_elem = true. Proof. vm_compute. reflexivity. Qed.

(* ---------- semantics of the whole block: the element ladder once per population, in order ---------- *)
Record pop := Pop { p_dist : string; p_fixed : list (string * R) }.
Definition pop_cfg (latex : bool) (p : pop) : cfg :=
  {| cb := fun _ => false; cs := fun f => if String.eqb f "los_distribution" then p_dist p else ""; cn := fun _ => 0%nat;
     cfix := p_fixed p; cconst := fun _ => 0%R; clatex := latex |}.

Section LosSem.
Variable render : string -> nat -> string.     (* prefix, population index |-> the name  (str(prefix + str(j))  or  fmt % j) *)
Variables (latex : bool) (args : list R).
Fixpoint los_a2k (pops : list pop) (i : nat) : option (list dict * nat) :=
  match pops with
  | [] => Some ([], i)
  | p :: r => match run_a2k los_elem (pop_cfg latex p) args i with
              | Some (kw, n) => match los_a2k r n with Some (kws, m) => Some (kw :: kws, m) | None => None end
              | None => None end
  end.
Fixpoint los_k2a (pops : list pop) (kws : list dict) : option (list R) :=
  match pops, kws with
  | [], _ => Some []
  | p :: r, kw :: kws' => match run_k2a los_elem (pop_cfg latex p) kw, los_k2a r kws' with Some a, Some b => Some (a ++ b)%list | _, _ => None end
  | _ :: _, [] => None
  end.
Fixpoint los_width (pops : list pop) : nat :=
  match pops with [] => 0 | p :: r => List.length (slots los_elem (pop_cfg latex p)) + los_width r end.

Theorem los_roundtrip : forall pops i kws n, (i <= List.length args)%nat -> los_a2k pops i = Some (kws, n) ->
  n = (i + los_width pops)%nat /\ (n <= List.length args)%nat /\ los_k2a pops kws = Some (firstn (n - i) (skipn i args)) /\ List.length kws = List.length pops.
Proof.
  induction pops as [|p r IH]; intros i kws n Hi H; cbn [los_a2k] in H.
  - inversion H; subst kws n. cbn [los_width los_k2a List.length]. rewrite Nat.sub_diag. cbn [firstn]. repeat split; try lia.
  - destruct (run_a2k los_elem (pop_cfg latex p) args i) as [[kw n1]|] eqn:E1; [|discriminate].
    destruct (los_a2k r n1) as [[kws' m]|] eqn:E2; [|discriminate]. inversion H; subst kws n. clear H.
    destruct (block_roundtrip kname_los listpre_los los_elem los_ok (pop_cfg latex p) args i kw n1 Hi E1) as (Hn1 & Hle1 & Hk1).
    destruct (IH n1 kws' m Hle1 E2) as (Hm & Hlem & Hk2 & Hlen).
    cbn [los_width los_k2a List.length]. rewrite Hk1, Hk2. repeat split; try lia.
    f_equal. replace (m - i)%nat with ((n1 - i) + (m - n1))%nat by lia. rewrite firstn_skipn_add.
    replace (i + (n1 - i))%nat with n1 by lia. reflexivity.
Qed.
End LosSem.

(* names of the whole block *)
Section LosNames.
Variable render : string -> nat -> string.
Definition rename (j : nat) (pre : string) (_ : nat) : string := render pre j.      (* inside population j every leaf is rendered with index j *)
Fixpoint los_names (latex : bool) (pops : list pop) (j : nat) : option (list string) :=
  match pops with
  | [] => Some []
  | p :: r =>
      match (if latex then run_lnames (rename j) los_elem (pop_cfg latex p) else
             match run_names (rename j) los_elem (pop_cfg latex p) with Some l => Some (map (fun s => render s j) l) | None => None end),
            los_names latex r (S j) with
      | Some a, Some b => Some (a ++ b)%list | _, _ => None end
  end.
(* plain style: one name per slot, the name of key K of population j is  render (K ++ "_los_") j *)
Theorem los_names_plain : forall pops j, exists l, los_names false pops j = Some l /\ List.length l = los_width false pops.
Proof.
  induction pops as [|p r IH]; intros j; [exists []; split; reflexivity|].
  cbn [los_names los_width]. rewrite (block_names (rename j) kname_los listpre_los los_elem los_ok (pop_cfg false p) eq_refl).
  destruct (IH (S j)) as (l & Hl & Hlen). rewrite Hl. eexists. split; [reflexivity|]. rewrite app_length, !map_length, Hlen. reflexivity.
Qed.
End LosNames.
