(* C01 — the four dictionary blocks (cosmo, lens, kin, source) read from the serialised source, and the computed checks *)
From Coq Require Import Reals ZArith List String Bool Lia.
Require Import Py.PyAst.
Require Import C01.LTree C01.Slots C01.Blocks C01.ToLadder C01.Src.
Import ListNotations.
Open Scope string_scope.

Definition listpre (k : string) : string := if String.eqb k "gamma_pl_list" then "gamma_pl_%s" else k.
Definition kname_id (k : string) : string := k.
Definition get_block (o : option block) : block := match o with Some b => b | None => Block [] [] [] [] end.

Definition cosmo_block := Eval vm_compute in get_block (read_block src_CosmoParam_args2kwargs src_CosmoParam_kwargs2args src_CosmoParam_param_list).
Definition lens_block := Eval vm_compute in get_block (read_block src_LensParam_args2kwargs src_LensParam_kwargs2args src_LensParam_param_list).
Definition kin_block := Eval vm_compute in get_block (read_block src_KinParam_args2kwargs src_KinParam_kwargs2args src_KinParam_param_list).
Definition source_block := Eval vm_compute in get_block (read_block src_SourceParam_args2kwargs src_SourceParam_kwargs2args src_SourceParam_param_list).

(* the reader accepted all three functions of each block (fail-closed: otherwise these do not hold) *)
Lemma cosmo_read : read_block src_CosmoParam_args2kwargs src_CosmoParam_kwargs2args src_CosmoParam_param_list = Some cosmo_block. Proof. vm_compute. reflexivity. Qed.
Lemma lens_read : read_block src_LensParam_args2kwargs src_LensParam_kwargs2args src_LensParam_param_list = Some lens_block. Proof. vm_compute. reflexivity. Qed.
Lemma kin_read : read_block src_KinParam_args2kwargs src_KinParam_kwargs2args src_KinParam_param_list = Some kin_block. Proof. vm_compute. reflexivity. Qed.
Lemma source_read : read_block src_SourceParam_args2kwargs src_SourceParam_kwargs2args src_SourceParam_param_list = Some source_block. Proof. vm_compute. reflexivity. Qed.

Lemma cosmo_ok : block_ok kname_id listpre cosmo_block = true. Proof. vm_compute. reflexivity. Qed.
Lemma lens_ok : block_ok kname_id listpre lens_block = true. Proof. vm_compute. reflexivity. Qed.
Lemma kin_ok : block_ok kname_id listpre kin_block = true. Proof. vm_compute. reflexivity. Qed.
Lemma source_ok : block_ok kname_id listpre source_block = true. Proof. vm_compute. reflexivity. Qed.
