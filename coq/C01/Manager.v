(* C01 — the parameter manager: five blocks in the fixed order cosmo, lens, kin, source, los; bounds through the same maps. *)
From Coq Require Import Reals ZArith List String Bool Arith Lia.
Require Import Py.PyAst Py.PyVal Py.PySem Py.XLemmas Py.Unfold Py.Tactics.
Require Import C01.LTree C01.Slots C01.Blocks C01.ToLadder C01.Src C01.Instances C01.Los.
Import ListNotations.
Open Scope string_scope.

(* ---------- 1. what the manager's own code does (PySem on the serialised source; the five blocks are recording oracles) ---------- *)
Fixpoint assoc {A} (k : string) (l : list (string * A)) : option A :=
  match l with [] => None | (k', v) :: t => if String.eqb k k' then Some v else assoc k t end.
Section MgrCode.
Variables (d1 d2 d3 d4 d5 : val) (w1 w2 w3 w4 w5 : Z).          (* what each block returns and how many components it reads *)
Variables (v1 v2 v3 v4 v5 : list val) (n1 n2 n3 n4 n5 : list val). (* kwargs2args / param_list results of the blocks *)
Definition blk (tag : string) (d : val) (w : Z) (v nm : list val) : list (string * callee) :=
  [("args2kwargs", COracle (fun args kws w0 => match field_get "i" kws with
        | Some (VInt i) => Ok (VTuple [d; VInt (i + w)], World (rng w0) (cur w0) ((tag, [VInt i]) :: olog w0) (decs w0) (pc w0))
        | _ => Stuck "args2kwargs: i" end));
   ("kwargs2args", COracle (fun args kws w0 => Ok (VList v, World (rng w0) (cur w0) ((tag, tl args ++ map snd kws)%list :: olog w0) (decs w0) (pc w0))));
   ("param_list", COracle (fun args kws w0 => Ok (VList nm, World (rng w0) (cur w0) ((tag, map snd kws) :: olog w0) (decs w0) (pc w0))))].
Definition mtab : list (string * list (string * callee)) :=
  [("CosmoParam", blk "cosmo" d1 w1 v1 n1); ("LensParam", blk "lens" d2 w2 v2 n2); ("KinParam", blk "kin" d3 w3 v3 n3);
   ("SourceParam", blk "source" d4 w4 v4 n4); ("LOSParam", blk "los" d5 w5 v5 n5);
   ("ParamManager", [("param_list", CFun src_ParamManager_param_list); ("kwargs2args", CFun src_ParamManager_kwargs2args)])].
Definition Gm : fenv := FEnv (fun cls m => match assoc cls mtab with Some t => assoc m t | None => None end) (fun _ => None).
Definition mgr (lo hi : list val) : val := VObj "ParamManager"
  ([("_cosmo_param", VObj "CosmoParam" []); ("_lens_param", VObj "LensParam" []); ("_kin_param", VObj "KinParam" []);
    ("_source_param", VObj "SourceParam" []); ("_los_param", VObj "LOSParam" [])] ++
   combine ["_kwargs_lower_cosmo"; "_kwargs_lower_lens"; "_kwargs_lower_kin"; "_kwargs_lower_source"; "_kwargs_lower_los"] lo ++
   combine ["_kwargs_upper_cosmo"; "_kwargs_upper_lens"; "_kwargs_upper_kin"; "_kwargs_upper_source"; "_kwargs_upper_los"] hi).
(* the code accumulates  acc = [] ; acc += block1 ; acc += block2 ; ... *)
Definition cat5 {A} (a b c0 d e : list A) : list A := ((((([] ++ a) ++ b) ++ c0) ++ d) ++ e)%list.
Lemma cat5_eq {A} (a b c0 d e : list A) : cat5 a b c0 d e = (a ++ b ++ c0 ++ d ++ e)%list.
Proof. unfold cat5. cbn [app]. rewrite <- !app_assoc. reflexivity. Qed.
Definition M := mgr [VStr "lc"; VStr "ll"; VStr "lk"; VStr "ls"; VStr "lo"] [VStr "uc"; VStr "ul"; VStr "uk"; VStr "us"; VStr "uo"].

(* the running index is threaded cosmo -> lens -> kin -> source -> los, each block starting where the previous one stopped *)
Theorem mgr_args2kwargs args rg cu :
  yields Gm 60 (CFun src_ParamManager_args2kwargs) (Some M) [args] [] rg cu (VTuple [d1; d2; d3; d4; d5]) cu
    [("los", [VInt (0 + w1 + w2 + w3 + w4)]); ("source", [VInt (0 + w1 + w2 + w3)]); ("kin", [VInt (0 + w1 + w2)]); ("lens", [VInt (0 + w1)]); ("cosmo", [VInt 0])].
Proof. yields_auto. Qed.
(* the vector is the concatenation of the five blocks' vectors in the SAME order, each block given its own dictionary *)
Theorem mgr_kwargs2args a1 a2 a3 a4 a5 rg cu :
  yields Gm 60 (CFun src_ParamManager_kwargs2args) (Some M) []
    [("kwargs_lens", a2); ("kwargs_cosmo", a1); ("kwargs_los", a5); ("kwargs_kin", a3); ("kwargs_source", a4)] rg cu
    (VList (cat5 v1 v2 v3 v4 v5)) cu
    [("los", [a5]); ("source", [a4]); ("kin", [a3]); ("lens", [a2]); ("cosmo", [a1])].
Proof. yields_auto. Qed.
(* names: same order, the style flag handed to every block *)
Theorem mgr_param_list (latex : bool) rg cu :
  yields Gm 60 (CFun src_ParamManager_param_list) (Some M) [] [("latex_style", VBool latex)] rg cu
    (VList (cat5 n1 n2 n3 n4 n5)) cu
    [("los", [VBool latex]); ("source", [VBool latex]); ("kin", [VBool latex]); ("lens", [VBool latex]); ("cosmo", [VBool latex])].
Proof. destruct latex; yields_auto. Qed.
(* bounds are the SAME dictionary -> vector map applied to the lower and to the upper bound dictionaries, block by block *)
Theorem mgr_param_bounds rg cu :
  yields Gm 60 (CFun src_ParamManager_param_bounds) (Some M) [] [] rg cu
    (VTuple [VList (cat5 v1 v2 v3 v4 v5); VList (cat5 v1 v2 v3 v4 v5)]) cu
    [("los", [VStr "uo"]); ("source", [VStr "us"]); ("kin", [VStr "uk"]); ("lens", [VStr "ul"]); ("cosmo", [VStr "uc"]);
     ("los", [VStr "lo"]); ("source", [VStr "ls"]); ("kin", [VStr "lk"]); ("lens", [VStr "ll"]); ("cosmo", [VStr "lc"])].
Proof. yields_auto. Qed.
(* the number of parameters is the length of the (plain) name list *)
Theorem mgr_num_param rg cu :
  yields Gm 60 (CFun src_ParamManager_num_param) (Some M) [] [] rg cu (VInt (Z.of_nat (List.length (cat5 n1 n2 n3 n4 n5)))) cu
    [("los", [VBool false]); ("source", [VBool false]); ("kin", [VBool false]); ("lens", [VBool false]); ("cosmo", [VBool false])].
Proof. yields_auto. Qed.
End MgrCode.

(* ---------- 2. the composed maps: vector -> five dictionaries -> vector ---------- *)
Section MgrSem.
Variables (cC cL cK cS : cfg) (pops : list pop) (sampling : bool) (args : list R).
Definition los_pops := if sampling then pops else [].     (* if self._los_sampling is True: ... *)
Definition mgr_a2k : option (dict * dict * dict * dict * list dict * nat) :=
  match run_a2k cosmo_block cC args 0 with Some (kc, i1) =>
  match run_a2k lens_block cL args i1 with Some (kl, i2) =>
  match run_a2k kin_block cK args i2 with Some (kk, i3) =>
  match run_a2k source_block cS args i3 with Some (ks, i4) =>
  match los_a2k false args los_pops i4 with Some (klos, i5) => Some (kc, kl, kk, ks, klos, i5)
  | None => None end | None => None end | None => None end | None => None end | None => None end.
Definition mgr_k2a (kc kl kk ks : dict) (klos : list dict) : option (list R) :=
  match run_k2a cosmo_block cC kc, run_k2a lens_block cL kl, run_k2a kin_block cK kk, run_k2a source_block cS ks, los_k2a false los_pops klos with
  | Some a, Some b, Some c0, Some d, Some e => Some (a ++ b ++ c0 ++ d ++ e)%list
  | _, _, _, _, _ => None end.
Definition num_param : nat :=
  (List.length (slots cosmo_block cC) + List.length (slots lens_block cL) + List.length (slots kin_block cK) + List.length (slots source_block cS) + los_width false los_pops)%nat.

Lemma firstn_all_skip0 (l : list R) n : n = List.length l -> firstn (n - 0) (skipn 0 l) = l.
Proof. intros ->. rewrite Nat.sub_0_r. cbn [skipn]. apply firstn_all. Qed.

(* for every configuration of every block, every population list and every real vector of the right length:
   the dictionaries map back to exactly that vector; the vector is read left to right with no gaps *)
Theorem manager_roundtrip kc kl kk ks klos n :
  mgr_a2k = Some (kc, kl, kk, ks, klos, n) ->
  n = num_param /\ (n <= List.length args)%nat /\
  (n = List.length args -> mgr_k2a kc kl kk ks klos = Some args).
Proof.
  unfold mgr_a2k, mgr_k2a, num_param. intros H.
  destruct (run_a2k cosmo_block cC args 0) as [[kc' i1]|] eqn:E1; [|discriminate].
  destruct (run_a2k lens_block cL args i1) as [[kl' i2]|] eqn:E2; [|discriminate].
  destruct (run_a2k kin_block cK args i2) as [[kk' i3]|] eqn:E3; [|discriminate].
  destruct (run_a2k source_block cS args i3) as [[ks' i4]|] eqn:E4; [|discriminate].
  destruct (los_a2k false args los_pops i4) as [[klos' i5]|] eqn:E5; [|discriminate].
  inversion H; subst kc' kl' kk' ks' klos' i5. clear H.
  destruct (block_roundtrip kname_id listpre cosmo_block cosmo_ok cC args 0 kc i1 (Nat.le_0_l _) E1) as (H1 & L1 & K1).
  destruct (block_roundtrip kname_id listpre lens_block lens_ok cL args i1 kl i2 L1 E2) as (H2 & L2 & K2).
  destruct (block_roundtrip kname_id listpre kin_block kin_ok cK args i2 kk i3 L2 E3) as (H3 & L3 & K3).
  destruct (block_roundtrip kname_id listpre source_block source_ok cS args i3 ks i4 L3 E4) as (H4 & L4 & K4).
  destruct (los_roundtrip false args los_pops i4 klos n L4 E5) as (H5 & L5 & K5 & _).
  split; [lia|]. split; [exact L5|]. intros Hn.
  rewrite K1, K2, K3, K4, K5.
  f_equal.
  rewrite <- (firstn_all_skip0 args n Hn) at 6.
  replace (n - 0)%nat with ((i1 - 0) + ((i2 - i1) + ((i3 - i2) + ((i4 - i3) + (n - i4)))))%nat by lia.
  rewrite firstn_skipn_add. f_equal. replace (0 + (i1 - 0))%nat with i1 by lia.
  rewrite firstn_skipn_add. f_equal. replace (i1 + (i2 - i1))%nat with i2 by lia.
  rewrite firstn_skipn_add. f_equal. replace (i2 + (i3 - i2))%nat with i3 by lia.
  rewrite firstn_skipn_add. f_equal. replace (i3 + (i4 - i3))%nat with i4 by lia. reflexivity.
Qed.
End MgrSem.

(* ---------- 3. constructor wiring: every block receives the manager's own parameter of the same name ---------- *)
Definition rec_class (cls : string) : callee := COracle (fun args kws w => Ok (VObj cls (("args", VList args) :: kws), w)).
Definition classes := ["CosmoParam"; "LensParam"; "KinParam"; "SourceParam"; "LOSParam"].
Definition Gi : fenv := FEnv (fun _ _ => None) (fun n => if existsb (String.eqb n) classes then Some (rec_class n) else None).
(* every constructor parameter is given its own name as a (symbolic) value, so that a mis-wired argument is visible *)
Definition tagged : list (string * val) := map (fun p => (fst p, VStr (fst p))) (tl (tl (f_params src_ParamManager_init))).
(* documented renames: the blocks call their fixed dictionary kwargs_fixed; KinParam calls the anisotropy distribution distribution_function *)
Definition expected_src (blockname kw : string) : string :=
  if String.eqb kw "kwargs_fixed" then "kwargs_fixed_" ++ blockname
  else if String.eqb kw "distribution_function" then "anisotropy_distribution" else kw.
Definition block_fields := [("_cosmo_param", "cosmo"); ("_lens_param", "lens"); ("_kin_param", "kin"); ("_source_param", "source"); ("_los_param", "los")].
Definition kws_ok (blockname : string) (o : val) : bool :=
  match o with
  | VObj _ (("args", VList []) :: kws) => forallb (fun kv => match snd kv with VStr src => String.eqb src (expected_src blockname (fst kv)) | _ => false end) kws
  | _ => false end.
Definition wiring_ok (o : val) : bool :=
  match o with
  | VObj "ParamManager" fs =>
      forallb (fun fb => match field_get (fst fb) fs with Some b => kws_ok (snd fb) b | None => false end) block_fields
      && forallb (fun side => forallb (fun blk => match field_get ("_kwargs_" ++ side ++ "_" ++ snd blk) fs with
                                                  | Some (VStr s) => String.eqb s ("kwargs_" ++ side ++ "_" ++ snd blk) | _ => false end) block_fields) ["lower"; "upper"]
  | _ => false end.
(* the fixed dictionaries (and every switch) reach the block they are named after *)
Definition receives (o : val) (field_ kw : string) : option val :=
  match o with VObj _ fs => match field_get field_ fs with Some (VObj _ kws) => field_get kw kws | _ => None end | _ => None end.
Theorem manager_wiring rg cu :
  exists o, yields Gi 80 (CClass "ParamManager" src_ParamManager_init) None [VStr "cosmology"] tagged rg cu o cu []
            /\ wiring_ok o = true
            /\ receives o "_lens_param" "kwargs_fixed" = Some (VStr "kwargs_fixed_lens")
            /\ receives o "_kin_param" "kwargs_fixed" = Some (VStr "kwargs_fixed_kin")
            /\ receives o "_cosmo_param" "kwargs_fixed" = Some (VStr "kwargs_fixed_cosmo")
            /\ receives o "_source_param" "kwargs_fixed" = Some (VStr "kwargs_fixed_source")
            /\ receives o "_los_param" "kwargs_fixed" = Some (VStr "kwargs_fixed_los")
            /\ receives o "_lens_param" "log_scatter" = Some (VStr "log_scatter")
            /\ receives o "_kin_param" "log_scatter" = Some (VStr "log_scatter")
            /\ receives o "_lens_param" "gamma_pl_num" = Some (VStr "gamma_pl_num")
            /\ receives o "_source_param" "z_apparent_m_anchor" = Some (VStr "z_apparent_m_anchor").
Proof. eexists. split; [unfold tagged; yields_auto | vm_compute; repeat split; reflexivity]. Qed.
