(* C01 - correspondence of the LADDER semantics (LTree / Slots: the semantics the all-configuration theorems are proved in) with CPython.
   harness/corr_ladder.py builds real parameter blocks on random configurations, runs args2kwargs / kwargs2args in CPython, and states
   that running the ladders READ FROM THE SERIALISED SOURCE (Instances.*_block) in the configuration record of that object gives the
   same dictionary / vector / refusal. *)
From Coq Require Import Reals ZArith List String Bool Lra.
From Interval Require Import Tactic.
Require Import Py.PyAst Py.PyVal Py.PySem Py.XLemmas Py.Tactics Py.Corr.
Require Import C01.LTree C01.Slots C01.Blocks C01.ToLadder C01.Src C01.Instances.
Import ListNotations.
Open Scope string_scope.

Fixpoint assoc_d {A} (d : A) (k : string) (l : list (string * A)) : A :=
  match l with [] => d | (k', v) :: t => if String.eqb k k' then v else assoc_d d k t end.
(* the configuration record of a block object: its boolean / string / integer attributes, its fixed dictionary, its float attributes *)
Definition mk_cfg (bs : list (string * bool)) (ss : list (string * string)) (ns : list (string * nat)) (fx : list (string * R)) (cs : list (string * R)) : cfg :=
  {| cb := fun f => assoc_d false f bs; cs := fun f => assoc_d "" f ss; cn := fun f => assoc_d 0%nat f ns; cfix := fx; cconst := fun f => assoc_d 0%R f cs; clatex := false |}.

Open Scope R_scope.
Fixpoint list_near (tol : R) (l1 l2 : list R) : Prop :=
  match l1, l2 with [] , [] => True | x :: r, y :: s => near tol x y /\ list_near tol r s | _, _ => False end.
Fixpoint dict_has (tol : R) (kw : dict) (exp : dict) : Prop :=
  match exp with [] => True | (k, vs) :: r => match LTree.lookup k kw with Some ws => list_near tol ws vs | None => False end /\ dict_has tol kw r end.
Definition a2k_agrees (b : block) (c : cfg) (args : list R) (i : nat) (exp : dict) (n : nat) (tol : R) : Prop :=
  match run_a2k b c args i with
  | Some (kw, m) => m = n /\ List.length kw = List.length exp /\ dict_has tol kw exp
  | None => False end.
Definition a2k_refuses (b : block) (c : cfg) (args : list R) (i : nat) : Prop := run_a2k b c args i = None.
Definition k2a_agrees (b : block) (c : cfg) (kw : dict) (exp : list R) (tol : R) : Prop :=
  match run_k2a b c kw with Some l => list_near tol l exp | None => False end.

Ltac RUNL t := eval lazy -[Rplus Rmult Rminus Rdiv Rinv Ropp Rmax Rmin Rlt Rle Rgt Rge ln exp sqrt IZR Rpower pow PI not Rabs near] in t.
Ltac lad_leaf :=
  match goal with
  | |- near _ ?x ?x => apply near_refl; lra
  | |- near _ _ _ => unfold near, Rminus; first [ ivl | lra ]
  | |- True => exact I
  | |- @eq _ _ _ => reflexivity
  end.
Ltac lad_case :=
  lazymatch goal with
  | |- a2k_refuses ?b ?c ?args ?i => unfold a2k_refuses; let r := RUNL (run_a2k b c args i) in change (r = None); reflexivity
  | |- a2k_agrees ?b ?c ?args ?i ?exp ?n ?tol =>
      unfold a2k_agrees; let r := RUNL (run_a2k b c args i) in change (run_a2k b c args i) with r;
      lazy [dict_has list_near LTree.lookup String.eqb Ascii.eqb Bool.eqb List.length];
      repeat match goal with |- _ /\ _ => split end;
      first [ lad_leaf | match goal with |- ?g => fail 10000 "ladder semantics differs from CPython:" g end ]
  | |- k2a_agrees ?b ?c ?kw ?exp ?tol =>
      unfold k2a_agrees; let r := RUNL (run_k2a b c kw) in change (run_k2a b c kw) with r;
      lazy [list_near]; repeat match goal with |- _ /\ _ => split end;
      first [ lad_leaf | match goal with |- ?g => fail 10000 "ladder semantics differs from CPython:" g end ]
  end.
