(* C01 — from the computed checks on one parameter block's three ladders to the theorems about that block, for every
   configuration and every real vector. *)
From Coq Require Import Reals List String Bool Arith Lia Lra Ascii.
Require Import C01.LTree C01.Slots.
Import ListNotations.
Open Scope string_scope.

(* ---------- dropping a literal that is known to hold / specialising to plain or LaTeX style (flat level) ---------- *)
Lemma geval_drop_true c l g : Bool.eqb (aeval c (fst l)) (snd l) = true -> geval c (drop_lit l g) = geval c g.
Proof.
  destruct l as [a b]. cbn [fst snd]. intros H. induction g as [|[a' b'] r IH]; [reflexivity|]. cbn [drop_lit]. destruct (lit_eqb (a', b') (a, b)) eqn:E.
  - apply lit_eqb_eq in E. inversion E; subst a' b'. rewrite geval_cons, H. reflexivity.
  - rewrite !geval_cons, IH. reflexivity.
Qed.
Lemma geval_has_false c l g : has_lit l g = true -> Bool.eqb (aeval c (fst l)) (snd l) = false -> geval c g = false.
Proof.
  intros H1 H2. destruct (geval c g) eqn:E; [|reflexivity]. pose proof (has_lit_geval c l g H1 E). congruence.
Qed.

Section FlatSpec.
Context {L St : Type}.
Variable do_leaf : cfg -> L -> St -> option St.
Definition flat_spec (b : bool) (N : list (guard * L)) : list (guard * L) :=
  flat_map (fun gl => if has_lit (ALatex, negb b) (fst gl) then [] else [(drop_lit (ALatex, b) (fst gl), snd gl)]) N.
Lemma flat_spec_sound c N s : exec_flat do_leaf c (flat_spec (clatex c) N) s = exec_flat do_leaf c N s.
Proof.
  revert s; induction N as [|[g l] N IH]; intros s; [reflexivity|]. unfold flat_spec in *. cbn [flat_map fst snd].
  destruct (has_lit (ALatex, negb (clatex c)) g) eqn:E.
  - cbn [app exec_flat]. rewrite (geval_has_false c _ _ E) by (cbn; destruct (clatex c); reflexivity). apply IH.
  - cbn [app exec_flat]. rewrite geval_drop_true by (cbn; destruct (clatex c); reflexivity).
    destruct (geval c g); [destruct (do_leaf c l s)|]; auto.
Qed.
End FlatSpec.

(* the list slot's own guard "self.n > 0" is immaterial for which vector positions it occupies *)
Definition relax (S : list (guard * a2k_leaf)) : list (guard * a2k_leaf) :=
  map (fun gl => match snd gl with AFreeN k f => (drop_lit (ANatPos f, true) (fst gl), snd gl) | _ => gl end) S.
Lemma geval_drop_weaker c l g : geval c g = true -> geval c (drop_lit l g) = true.
Proof.
  induction g as [|[a' b'] r IH]; [reflexivity|]. cbn [drop_lit]. rewrite geval_cons. intros H. apply andb_true_iff in H as [H1 H2].
  destruct (lit_eqb (a', b') l); [exact H2|]. rewrite geval_cons, H1, IH by exact H2. reflexivity.
Qed.
Lemma geval_drop_only c l g : geval c (drop_lit l g) = true -> geval c g = false -> Bool.eqb (aeval c (fst l)) (snd l) = false.
Proof.
  intros H1 H2. destruct (Bool.eqb (aeval c (fst l)) (snd l)) eqn:E; [|reflexivity]. rewrite geval_drop_true in H1 by exact E. congruence.
Qed.
Lemma table_relax c S : table c (relax S) = table c S.
Proof.
  induction S as [|[g l] S IH]; [reflexivity|]. cbn [relax map table snd fst]. fold (relax S). rewrite <- IH.
  destruct l as [k|k a|k t|k f]; cbn [table]; try reflexivity. f_equal.
  destruct (geval c g) eqn:Eg.
  - now rewrite geval_drop_weaker.
  - destruct (geval c (drop_lit (ANatPos f, true) g)) eqn:Ed; [|reflexivity].
    pose proof (geval_drop_only c _ _ Ed Eg) as H. cbn in H. destruct (cn c f); [reflexivity | discriminate].
Qed.

(* ---------- LaTeX labels: one per slot, carrying \log_{10} exactly where the component is sampled in log10 space ---------- *)
Fixpoint prefixb (p s : string) : bool :=
  match p, s with EmptyString, _ => true | String a p', String b s' => Ascii.eqb a b && prefixb p' s' | _, _ => false end.
Fixpoint substrb (p s : string) : bool := prefixb p s || match s with EmptyString => false | String _ s' => substrb p s' end.
Definition has_log (s : string) : bool := substrb "log_{10}" s.
Inductive lname_leaf := LName (s : string) | LSel (a : atom) (s1 s2 : string) | LNameN (pre f : string).
Definition do_lname (render : string -> nat -> string) (c : cfg) (l : lname_leaf) (acc : list string) : option (list string) :=
  match l with
  | LName s => Some (acc ++ [s])%list
  | LSel a s1 s2 => Some (acc ++ [if aeval c a then s1 else s2])%list
  | LNameN pre f => Some (acc ++ map (render pre) (seq 0 (cn c f)))%list
  end.
Definition tsel_shape_ok (t : tsel) (l : lname_leaf) : bool :=
  match t, l with
  | T1 Id, LName s => negb (has_log s)
  | T1 Pow10, LName s => has_log s
  | TIf a Pow10 Id, LSel a' s1 s2 => atom_eqb a a' && has_log s1 && negb (has_log s2)
  | _, _ => false
  end.
Fixpoint latex_compat (S : list (guard * a2k_leaf)) (N : list (guard * lname_leaf)) : bool :=
  match S with
  | [] => match N with [] => true | _ => false end
  | (g, AFix _) :: S' | (g, AConst _ _) :: S' => latex_compat S' N
  | (g, AFree k t) :: S' =>
      match N with (h, l) :: N' => guard_eqb g h && tsel_shape_ok t l && latex_compat S' N' | [] => false end
  | (g, AFreeN k f) :: S' =>
      match N with (h, LNameN pre f') :: N' => guard_eqb g h && String.eqb f f' && negb (has_log pre) && latex_compat S' N' | _ => false end
  end.
Definition slot_is_log (c : cfg) (s : slot) : bool :=
  match s with SScalar _ (T1 Pow10) => true | SScalar _ (TIf a Pow10 Id) => aeval c a | _ => false end.
(* the labels produced in LaTeX style: as many as slots, and label p mentions log_{10} iff slot p is log10-sampled *)
Theorem latex_alignment render c (Hrender : forall pre j, has_log pre = false -> has_log (render pre j) = false) : forall S N acc,
  latex_compat S N = true ->
  exists Ls, exec_flat (do_lname render) c N acc = Some (acc ++ Ls)%list /\
             Forall2 (fun s l => has_log l = slot_is_log c s) (table c S) Ls.
Proof.
  induction S as [|[g l] S IH]; intros N acc Hc; cbn [latex_compat] in Hc.
  - destruct N; [|discriminate]. exists []. cbn. rewrite app_nil_r. split; [reflexivity | constructor].
  - cbn [table]. destruct l as [k|k a|k t|k f].
    + destruct (IH N acc Hc) as (Ls & H1 & H2). exists Ls. split; [exact H1|]. destruct (geval c g); exact H2.
    + destruct (IH N acc Hc) as (Ls & H1 & H2). exists Ls. split; [exact H1|]. destruct (geval c g); exact H2.
    + destruct N as [|[h l] N]; [discriminate|].
      apply andb_true_iff in Hc as [Hc HcN]. apply andb_true_iff in Hc as [Hg Hs]. apply guard_eqb_eq in Hg. subst h.
      cbn [exec_flat]. destruct (geval c g).
      * assert (Hl : exists x, do_lname render c l acc = Some (acc ++ [x])%list /\ has_log x = slot_is_log c (SScalar k t)).
        { destruct t as [[| |]|a [| |] [| |]], l as [s|a' s1 s2|pre f']; cbn in Hs; try discriminate.
          - eexists; split; [reflexivity|]. cbn. now apply negb_true_iff in Hs.
          - eexists; split; [reflexivity|]. cbn. exact Hs.
          - apply andb_true_iff in Hs as [Hs H2']. apply andb_true_iff in Hs as [Ha H1']. apply atom_eqb_eq in Ha. subst a'.
            eexists; split; [reflexivity|]. cbn. destruct (aeval c a); [exact H1' | now apply negb_true_iff in H2']. }
        destruct Hl as (x & Hx & Hlog). rewrite Hx.
        destruct (IH N (acc ++ [x])%list HcN) as (Ls & H1 & H2). exists (x :: Ls). split.
        -- rewrite H1, <- app_assoc. reflexivity.
        -- cbn [app]. constructor; assumption.
      * destruct (IH N acc HcN) as (Ls & H1 & H2). exists Ls. split; assumption.
    + destruct N as [|[h [s|a' s1 s2|pre f']] N]; try discriminate.
      apply andb_true_iff in Hc as [Hc HcN]. apply andb_true_iff in Hc as [Hc Hp]. apply andb_true_iff in Hc as [Hg Hf].
      apply guard_eqb_eq in Hg. apply String.eqb_eq in Hf. subst h f'. apply negb_true_iff in Hp.
      cbn [exec_flat]. destruct (geval c g).
      * cbn [do_lname]. destruct (IH N (acc ++ map (render pre) (seq 0 (cn c f)))%list HcN) as (Ls & H1 & H2).
        exists (map (render pre) (seq 0 (cn c f)) ++ Ls)%list. split; [rewrite H1, <- app_assoc; reflexivity|].
        apply Forall2_app; [|exact H2].
        clear - Hrender Hp. generalize 0%nat. induction (cn c f) as [|n IHn]; intros j0; cbn; [constructor|]. constructor; [|apply IHn].
        cbn. apply Hrender. exact Hp.
      * destruct (IH N acc HcN) as (Ls & H1 & H2). exists Ls. split; assumption.
Qed.

(* ---------- the block theorem ---------- *)
Definition depth_ok {L} (fuel : nat) (l : list (tree L)) : bool := forallb (fun x => Nat.leb (depth x) fuel) l.
Lemma depth_ok_sound {L} fuel (l : list (tree L)) : depth_ok fuel l = true -> forall x, In x l -> depth x <= fuel.
Proof. unfold depth_ok. rewrite forallb_forall. intros H x Hx. apply Nat.leb_le. now apply H. Qed.

Record block := Block {
  b_a2k : list (tree a2k_leaf); b_k2a : list (tree k2a_leaf);
  b_names : list (tree name_leaf);      (* param_list, read with plain-style leaves *)
  b_lnames : list (tree lname_leaf) }.  (* param_list, read with LaTeX-style leaves *)
Definition FUEL := 60.
Definition flatA (b : block) := flat_map (flatten_tree FUEL) (b_a2k b).
Definition flatK (b : block) := flat_map (flatten_tree FUEL) (b_k2a b).
Definition flatN (b : block) := flat_map (flatten_tree FUEL) (b_names b).
Definition flatL (b : block) := flat_map (flatten_tree FUEL) (b_lnames b).
Definition block_ok (kname listpre : string -> string) (b : block) : bool :=
  depth_ok FUEL (b_a2k b) && depth_ok FUEL (b_k2a b) && depth_ok FUEL (b_names b) && depth_ok FUEL (b_lnames b) &&
  compat (flatA b) (flatK b) && keys_ok (flatA b) && fix_guarded (flatA b) &&
  names_compat kname listpre (relax (flatA b)) (flat_spec false (flatN b)) &&
  latex_compat (relax (flatA b)) (flat_spec true (flatL b)).

Section BlockThm.
Variables (render : string -> nat -> string) (kname listpre : string -> string) (b : block).
Hypothesis Hrender : forall pre j, has_log pre = false -> has_log (render pre j) = false.
Hypothesis Hok : block_ok kname listpre b = true.
Variables (c : cfg) (args : list R).

Definition run_a2k (i : nat) := exec_list (do_a2k args) c FUEL (b_a2k b) ([], i).
Definition run_k2a (kw : dict) := exec_list (do_k2a kw) c FUEL (b_k2a b) [].
Definition run_names := exec_list (do_name render) c FUEL (b_names b) [].
Definition run_lnames := exec_list (do_lname render) c FUEL (b_lnames b) [].
Definition slots := table c (flatA b).

Ltac unpack :=
  unfold block_ok in Hok;
  repeat match goal with H : (_ && _) = true |- _ => apply andb_true_iff in H; destruct H end.

(* vector -> dictionary -> vector: exactly the components read come back, in order; the index advances by the number of slots *)
Theorem block_roundtrip i kw n : (i <= List.length args)%nat -> run_a2k i = Some (kw, n) ->
  n = (i + List.length slots)%nat /\ (n <= List.length args)%nat /\ run_k2a kw = Some (firstn (n - i) (skipn i args)).
Proof.
  intros Hi Hr. unpack. unfold run_a2k, run_k2a, slots in *.
  rewrite exec_list_flat in Hr by (apply depth_ok_sound; assumption).
  rewrite exec_list_flat by (apply depth_ok_sound; assumption).
  pose proof (index_advance c args _ _ _ _ _ Hr) as Hn.
  destruct (roundtrip_flat c args (flatA b) (flatK b) [] i kw n []) as [H1' H2']; try assumption.
  split; [exact Hn|]. split; [lia | exact H2'].
Qed.
(* the component at position i + p is (up to the slot's transform) the dictionary value of the key of slot p *)
Theorem block_alignment i kw n p s : run_a2k i = Some (kw, n) -> nth_error slots p = Some s ->
  exists x, nth_error args (i + p) = Some x /\ slot_value c kw s = Some (slot_tr c s x).
Proof.
  intros Hr Hp. unpack. unfold run_a2k, slots in *.
  rewrite exec_list_flat in Hr by (apply depth_ok_sound; assumption).
  eapply slot_alignment; eassumption.
Qed.
(* plain names: the p-th name is the documented name of the key of slot p (gamma_pl_list[j] |-> listpre % j) *)
Theorem block_names : clatex c = false -> run_names = Some (map (slot_name render kname listpre) slots).
Proof.
  intros Hl. unpack. unfold run_names, slots.
  rewrite exec_list_flat by (apply depth_ok_sound; assumption).
  rewrite <- (flat_spec_sound (do_name render) c), Hl.
  rewrite (names_alignment render kname listpre c (relax (flatA b)) _ []) by assumption. cbn [app]. now rewrite table_relax.
Qed.
(* LaTeX names: one label per slot; it mentions log_{10} exactly for the log10-sampled components *)
Theorem block_latex : clatex c = true ->
  exists Ls, run_lnames = Some Ls /\ Forall2 (fun s l => has_log l = slot_is_log c s) slots Ls.
Proof.
  intros Hl. unpack. unfold run_lnames, slots.
  rewrite exec_list_flat by (apply depth_ok_sound; assumption).
  rewrite <- (flat_spec_sound (do_lname render) c), Hl.
  destruct (latex_alignment render c Hrender (relax (flatA b)) _ [] ltac:(eassumption)) as (Ls & H1' & H2').
  exists Ls. cbn [app] in H1'. rewrite table_relax in H2'. split; assumption.
Qed.
(* fixed parameters: present with their fixed value, never in a vector slot *)
Theorem block_fixed i kw n g k v : run_a2k i = Some (kw, n) -> In (g, AFix k) (flatA b) -> geval c g = true -> lookup k (cfix c) = Some v ->
  lookup k kw = Some [v] /\ forall p t, nth_error slots p <> Some (SScalar k t).
Proof.
  intros Hr Hin Hg Hv. unpack. unfold run_a2k, slots in *.
  rewrite exec_list_flat in Hr by (apply depth_ok_sound; assumption).
  split; [eapply fixed_value_flat; eassumption|].
  intros p t Hp. apply nth_error_In in Hp.
  assert (Hex : exists g', In (g', AFree k t) (flatA b) /\ geval c g' = true).
  { clear - Hp. induction (flatA b) as [|[g' l] S IH]; [contradiction|]. cbn [table] in Hp. apply in_app_or in Hp as [Hp | Hp].
    - destruct (geval c g') eqn:E; [|contradiction]. destruct l as [k0|k0 a0|k0 t0|k0 f0]; cbn in Hp; try contradiction.
      + destruct Hp as [Hp|[]]. inversion Hp; subst. exists g'. split; [left; reflexivity | exact E].
      + exfalso. clear - Hp. revert Hp. generalize 0%nat. induction (cn c f0); intros j Hp; cbn in Hp; [contradiction|]. destruct Hp as [Hp|Hp]; [discriminate | eapply IHn; exact Hp].
    - destruct (IH Hp) as (g'' & H1' & H2'). exists g''. split; [right; exact H1' | exact H2']. }
  destruct Hex as (g' & Hin' & Hg').
  pose proof (fixed_has_no_slot c (flatA b) g' k t v ltac:(assumption) Hin' Hv). congruence.
Qed.
End BlockThm.
