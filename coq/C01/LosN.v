(* C01 - the line-of-sight block for ANY number of populations (no fixed parameter), at interpreter level: the loop of LOSParam.kwargs2args by
   induction, the function around it, and the theorem.  Definitions and the one-iteration lemma are in LosStep.v.  Source = C01.Src. *)
From Coq Require Import Reals ZArith String List Bool Lra Lia.
Require Import Py.PyAst Py.PyVal Py.PySem Py.XLemmas Py.Unfold Py.Tactics Py.Sym.
Require Import C01.Src C01.LosStep.
Import ListNotations.
Open Scope string_scope.
Ltac RUNP tm := let r := eval lazy -[Rplus Rmult Rminus Rdiv Rinv Ropp Rmax Rmin Rlt Rle Rgt Rge ln exp sqrt log10 IZR dec Rpower pow PI DBL_MAX not snum map app length subscript Z.of_nat dstr fixd kwd] in tm in change tm with r.

Lemma loopL rest : forall pre acc prev idx w,
  exists prev',
  iter_loop stepL (enum_from (Z.of_nat (length pre)) (map dstr rest)) idx (envL (pre ++ rest) acc prev) w
  = Ok (ONormal (envL (pre ++ rest) (acc ++ flat_map free_vals rest) prev'), w).
Proof.
  induction rest as [|p r IH]; intros pre acc prev idx w.
  - exists prev. cbn [map enum_from iter_loop flat_map]. rewrite (app_nil_r acc). reflexivity.
  - cbn [map enum_from iter_loop flat_map]. rewrite stepL_one. cbn [bind fst snd].
    rewrite (Sym_app_snoc pre p r).
    replace (Z.of_nat (length pre) + 1)%Z with (Z.of_nat (length (pre ++ [p]))) by (rewrite app_length; cbn [length]; lia).
    destruct (IH (pre ++ [p])%list (acc ++ free_vals p)%list (Some (Z.of_nat (length pre), dstr p)) (idx + 1)%Z w) as [pv E].
    exists pv. rewrite E. rewrite <- (app_assoc acc (free_vals p) (flat_map free_vals r)). reflexivity.
Qed.
Definition finishL (ow : outcome * world) : res (val * world) :=
  match fst ow with
  | ONormal ρ' => Ok (VNone, snd ow)
  | OReturn v => Ok (v, snd ow)
  | OTail o targs tkws => o targs tkws (snd ow)
  end.
Definition afterL (ρ' : env) (w' : world) :=
  run_stmts (exec_stmt (tails G0) (runms G0 78) (eval G0 78) (evals_with (eval G0 78)) (exec G0 78) 78)
            (match src_LOSParam_kwargs2args with FunDef _ _ _ _ b => skipn 2 b end) ρ' w'.
Lemma prefixL pops w :
  call G0 80 (CFun src_LOSParam_kwargs2args) (Some (selfL pops)) [VList (map kwd pops)] [] w
  = (do ow <- seq_out (seq_out (iter_loop stepL (enum_from 0 (map dstr pops)) 0%Z (envL pops [] None) w) (fun ρ' w' => Ok (ONormal ρ', w'))) afterL; finishL ow).
Proof.
  rewrite call_fun.
  cbv beta zeta delta [f_static f_params f_kwarg f_body f_name src_LOSParam_kwargs2args] iota.
  (match goal with |- context [bind_params ?a ?b ?c ?d] => RUNP (bind_params a b c d) end).
  cbn [bind fst snd]. rewrite exec_S, run_stmts_cons.
  (match goal with |- context [seq_out (exec_stmt ?t ?rm ?a ?es ?b ?c ?d ?e ?f) _] => RUNP (exec_stmt t rm a es b c d e f) end).
  cbn [seq_out bind fst snd]. rewrite run_stmts_cons. cbn [exec_stmt].
  (match goal with |- context [eval G0 78 ?c ?r ?w0] => RUNP (eval G0 78 c r w0) end).
  cbn [bind fst snd].
  (match goal with |- context [m_truthy ?c ?w0] => RUNP (m_truthy c w0) end).
  cbn [bind fst snd]. rewrite exec_S, run_stmts_one. cbn [exec_stmt].
  (match goal with |- context [eval G0 77 ?c ?r ?w0] => RUNP (eval G0 77 c r w0) end).
  cbn [bind fst snd as_list].
  unfold stepL, itL, tgL, bodyL, blockL, envL, selfL, afterL, finishL.
  cbv beta iota zeta delta [src_LOSParam_kwargs2args nth skipn]. cbn [app String.eqb Ascii.eqb Bool.eqb].
  reflexivity.
Qed.
Lemma suffixL pops acc prev w : afterL (envL pops acc prev) w = Ok (OReturn (VList acc), w).
Proof.
  destruct prev as [[k0 d0]|]; unfold afterL, envL; cbv beta iota zeta delta [src_LOSParam_kwargs2args skipn]; cbn [app];
  (match goal with |- ?L = _ => RUNP L end); reflexivity.
Qed.
Theorem los_kwargs2args_any_number pops w :
  call G0 80 (CFun src_LOSParam_kwargs2args) (Some (selfL pops)) [VList (map kwd pops)] [] w = Ok (VList (flat_map free_vals pops), w).
Proof.
  rewrite prefixL. destruct (loopL pops [] [] None 0%Z w) as [pv E]. cbn [app length Z.of_nat] in E. rewrite E.
  cbn [seq_out bind fst snd app]. rewrite suffixL. reflexivity.
Qed.
