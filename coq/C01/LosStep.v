(* C01 - (definitions and the one-iteration lemma of LosN.v; kept in a file of its own because it is the expensive part)
   the line-of-sight block for ANY number of populations, at interpreter level: LOSParam.kwargs2args lists, population by population and
   within a population in the order mean, sigma, xi, exactly the parameters that are sampled (not fixed) - mean and sigma for GAUSSIAN and GEV
   populations, xi for GEV only, nothing for any other distribution name - by induction over the interpreter's loop.  The subscripts
   self._kwargs_fixed[k] and kwargs[k] at the symbolic population index are resolved by a lemma (coq/Base/Sym.v recipe).  This is a second,
   independent route to the vector layout that Los.v derives from the ladder reading of the same source.  Source = C01.Src (regenerated). *)
From Coq Require Import Reals ZArith String List Bool Lra Lia.
Require Import Py.PyAst Py.PyVal Py.PySem Py.XLemmas Py.Unfold Py.Tactics Py.Sym.
Require Import C01.Src.
Import ListNotations.
Open Scope string_scope.

Inductive dkind := DGev | DGauss | DOther.
Record pop := { pk : dkind; vm : R; vs : R; vx : R }.   (* kind of the population, the values in kwargs[k]; NO parameter of it is fixed *)
Definition dstr (p : pop) : val := VStr (match pk p with DGev => "GEV" | DGauss => "GAUSSIAN" | DOther => "NONE" end).
Definition fixd (p : pop) : val := VDict [].
(* the dictionary of a population: exactly the parameters its distribution has *)
Definition kwd (p : pop) : val :=
  match pk p with
  | DOther => VDict []
  | DGauss => VDict [(VStr "mean", snum (vm p)); (VStr "sigma", snum (vs p))]
  | DGev => VDict [(VStr "mean", snum (vm p)); (VStr "sigma", snum (vs p)); (VStr "xi", snum (vx p))]
  end.
(* the sampled parameters of one population, in vector order *)
Definition free_vals (p : pop) : list val :=
  match pk p with
  | DOther => []
  | DGauss => [snum (vm p); snum (vs p)]
  | DGev => [snum (vm p); snum (vs p); snum (vx p)]
  end.

Lemma subscript_map_at {A} (f : A -> val) (pre : list A) x rest k :
  length pre = k -> subscript (VList (map f (pre ++ x :: rest))) (VInt (Z.of_nat k)) = Ok (f x).
Proof.
  intros <-. unfold subscript. destruct (Z.ltb_spec (Z.of_nat (length pre)) 0); [lia|].
  rewrite Nat2Z.id, map_app, nth_error_app2 by (rewrite map_length; lia). rewrite map_length, Nat.sub_diag. reflexivity.
Qed.

Definition G0 : fenv := FEnv (fun _ _ => None) (fun _ => None).
Definition blockL := match src_LOSParam_kwargs2args with FunDef _ _ _ _ b => match nth 1 b SPass with SIf _ blk _ => blk | _ => [] end end.
Definition bodyL := match nth 0 blockL SPass with SFor _ _ bb => bb | _ => [] end.
Definition itL := match nth 0 blockL SPass with SFor _ it _ => it | _ => ENone end.
Definition tgL := match nth 0 blockL SPass with SFor t _ _ => t | _ => ENone end.
Definition selfL (pops : list pop) : val :=
  VObj "LOSParam" [("_los_sampling", VBool true); ("_los_distributions", VList (map dstr pops)); ("_kwargs_fixed", VList (map fixd pops))].
Definition envL (pops : list pop) (acc : list val) (prev : option (Z * val)) : env :=
  ([("self", selfL pops); ("kwargs", VList (map kwd pops)); ("args", VList acc)]
   ++ match prev with Some (k, d) => [("k", VInt k); ("los_distribution", d)] | None => [] end)%list.
Definition stepL := for_step (eval G0 77) (exec G0 77) 77 tgL itL bodyL.
Ltac RUNP tm := let r := eval lazy -[Rplus Rmult Rminus Rdiv Rinv Ropp Rmax Rmin Rlt Rle Rgt Rge ln exp sqrt log10 IZR dec Rpower pow PI DBL_MAX not snum map app length subscript Z.of_nat dstr fixd kwd] in tm in change tm with r.
Ltac RUNQ tm := let r := eval lazy -[Rplus Rmult Rminus Rdiv Rinv Ropp Rmax Rmin Rlt Rle Rgt Rge ln exp sqrt log10 IZR dec Rpower pow PI DBL_MAX not snum map length Z.of_nat] in tm in change tm with r.
Ltac leafL :=
  match goal with
  | |- context [eval ?G ?f (EName ?x) ?r ?w] => RUNP (eval G f (EName x) r w)
  | |- context [eval ?G ?f (EAttr ?a ?b) ?r ?w] => RUNP (eval G f (EAttr a b) r w)
  | |- context [eval ?G ?f (EStr ?k) ?r ?w] => RUNP (eval G f (EStr k) r w)
  | |- context [eval ?G ?f (EList ?l) ?r ?w] => RUNP (eval G f (EList l) r w)
  | |- context [do_cmp ?o (VStr ?a) ?b ?w] => RUNQ (do_cmp o (VStr a) b w)
  | |- context [m_truthy (VBool ?b) ?w] => RUNP (m_truthy (VBool b) w)
  | |- context [is_arr (VStr ?a)] => RUNP (is_arr (VStr a))
  | |- context [is_arr (VList ?a)] => RUNP (is_arr (VList a))
  | |- context [is_arr (fixd ?a)] => RUNQ (is_arr (fixd a))
  | |- context [is_arr (dstr ?a)] => RUNQ (is_arr (dstr a))
  | |- context [do_cmp ?o (dstr ?a) ?b ?w] => RUNQ (do_cmp o (dstr a) b w)
  | |- context [subscript (kwd ?p) (VStr ?k)] => RUNQ (subscript (kwd p) (VStr k))
  | |- context [exec ?G ?f (@nil stmt) ?r ?w] => RUNP (exec G f (@nil stmt) r w)
  | |- context [run_stmts ?st (@nil stmt) ?r ?w] => RUNP (run_stmts st (@nil stmt) r w)
  | |- context [assign ?a ?b (EName ?x) ?v ?r ?w] => RUNP (assign a b (EName x) v r w)
  end.
Ltac symL :=
  repeat first [ rewrite (eval_ECmp G0) | rewrite (eval_ESub G0)
               | erewrite subscript_map_at by (first [reflexivity | eassumption | symmetry; eassumption])
               | rewrite exec_S | rewrite run_stmts_cons; cbn [exec_stmt] | rewrite run_stmts_one; cbn [exec_stmt]
               | progress cbn [bind fst snd orb negb seq_out] | progress leafL ].
(* the loop body on the environment in which the loop variables exist (after the target assignment it always has this shape) *)
Lemma bodyL_run (pre rest : list pop) p acc w :
  exec G0 77 bodyL (envL (pre ++ p :: rest) acc (Some (Z.of_nat (length pre), dstr p))) w
  = Ok (ONormal (envL (pre ++ p :: rest) (acc ++ free_vals p) (Some (Z.of_nat (length pre), dstr p))), w).
Proof.
  destruct p as [k m s x]. destruct k; unfold envL; cbn [app];
  unfold bodyL, blockL; cbv beta iota zeta delta [src_LOSParam_kwargs2args nth]; symL;
  (match goal with |- ?L = _ => RUNP L end); unfold free_vals; cbn [pk vm vs vx];
  rewrite <- ?app_assoc; cbn [app]; rewrite ?app_nil_r; reflexivity.
Qed.
Lemma stepL_one (pre rest : list pop) p acc prev idx w :
  stepL (VTuple [VInt (Z.of_nat (length pre)); dstr p]) idx (envL (pre ++ p :: rest) acc prev) w
  = Ok (ONormal (envL (pre ++ p :: rest) (acc ++ free_vals p) (Some (Z.of_nat (length pre), dstr p))), w).
Proof.
  destruct prev as [[pk0 pd0]|]; unfold stepL, for_step; unfold envL at 1; cbn [app];
  (match goal with |- context [assign ?a ?b ?c ?d ?e ?f] => RUNP (assign a b c d e f) end);
  cbn [bind fst snd];
  (match goal with |- context [exec G0 77 bodyL ?r ?w0] =>
     change (exec G0 77 bodyL r w0) with (exec G0 77 bodyL (envL (pre ++ p :: rest) acc (Some (Z.of_nat (length pre), dstr p))) w0) end);
  rewrite bodyL_run; cbn [bind fst snd]; unfold envL;
  (match goal with |- ?L = _ => RUNP L end); reflexivity.
Qed.
