(* C01 - if-trees over configuration atoms, their flattening into guarded leaf lists, soundness of the flattening (generic in the leaf language) *)
From Coq Require Import Reals List String Bool Arith Lia Lra.
Import ListNotations.
Open Scope string_scope.

(* ---------- configuration, atoms, guards ---------- *)
Inductive atom :=
| ABool (f : string)                       (* self.f is True  /  truthiness of self.f *)
| AStrEq (f v : string)                    (* self.f == "v" *)
| AStrIn (f : string) (vs : list string)   (* self.f in [..] *)
| AFixed (k : string)                      (* "k" in self._kwargs_fixed *)
| ANatPos (f : string)                     (* self.f > 0 *)
| ALatex.                                  (* latex_style is True *)

Record cfg := { cb : string -> bool; cs : string -> string; cn : string -> nat; cfix : list (string * R); cconst : string -> R; clatex : bool }.

Fixpoint lookup {A} (k : string) (l : list (string * A)) : option A :=
  match l with [] => None | (k', v) :: t => if String.eqb k k' then Some v else lookup k t end.
Definition mem (k : string) (l : list string) := existsb (String.eqb k) l.
Definition aeval (c : cfg) (a : atom) : bool :=
  match a with
  | ABool f => cb c f
  | AStrEq f v => String.eqb (cs c f) v
  | AStrIn f vs => mem (cs c f) vs
  | AFixed k => match lookup k (cfix c) with Some _ => true | None => false end
  | ANatPos f => Nat.ltb 0 (cn c f)
  | ALatex => clatex c
  end.
Definition lit := (atom * bool)%type.
Definition guard := list lit.
Definition geval (c : cfg) (g : guard) := forallb (fun l => Bool.eqb (aeval c (fst l)) (snd l)) g.
Lemma geval_cons c a b g : geval c ((a, b) :: g) = Bool.eqb (aeval c a) b && geval c g.
Proof. reflexivity. Qed.

(* ---------- if-trees over an arbitrary leaf language ---------- *)
Inductive tree (L : Type) := Leaf (l : L) | If (a : atom) (t e : list (tree L)).
Arguments Leaf {L}. Arguments If {L}.

Section Sem.
Context {L St : Type}.
Variable do_leaf : cfg -> L -> St -> option St.
Variable c : cfg.

Fixpoint exec_tree (fuel : nat) (t : tree L) (s : St) {struct fuel} : option St :=
  match fuel with O => None | S f =>
  match t with
  | Leaf l => do_leaf c l s
  | If a th el =>
      (fix go (l : list (tree L)) (s : St) : option St :=
         match l with [] => Some s | x :: r => match exec_tree f x s with Some s' => go r s' | None => None end end)
        (if aeval c a then th else el) s
  end end.
Fixpoint exec_list (fuel : nat) (l : list (tree L)) (s : St) : option St :=
  match l with [] => Some s | x :: r => match exec_tree fuel x s with Some s' => exec_list fuel r s' | None => None end end.

Fixpoint flatten_tree (fuel : nat) (t : tree L) : list (guard * L) :=
  match fuel with O => [] | S f =>
  match t with
  | Leaf l => [([], l)]
  | If a th el =>
      map (fun ga => ((a, true) :: fst ga, snd ga)) (flat_map (flatten_tree f) th) ++
      map (fun ga => ((a, false) :: fst ga, snd ga)) (flat_map (flatten_tree f) el)
  end end.

Fixpoint exec_flat (l : list (guard * L)) (s : St) : option St :=
  match l with
  | [] => Some s
  | (g, a) :: r => if geval c g then match do_leaf c a s with Some s' => exec_flat r s' | None => None end
                   else exec_flat r s
  end.

Lemma exec_flat_app l1 l2 s :
  exec_flat (l1 ++ l2) s = match exec_flat l1 s with Some s' => exec_flat l2 s' | None => None end.
Proof.
  revert s; induction l1 as [|[g a] r IH]; intros s; cbn [app exec_flat]; [reflexivity|].
  destruct (geval c g); [destruct (do_leaf c a s)|]; auto.
Qed.
Lemma exec_flat_guard_on a b l s : aeval c a = b ->
  exec_flat (map (fun ga => ((a, b) :: fst ga, snd ga)) l) s = exec_flat l s.
Proof.
  intros H; revert s; induction l as [|[g x] r IH]; intros s; cbn [map exec_flat fst snd]; [reflexivity|].
  rewrite geval_cons, H, Bool.eqb_reflx. cbn [andb].
  destruct (geval c g); [destruct (do_leaf c x s)|]; auto.
Qed.
Lemma exec_flat_guard_off a b l s : aeval c a = negb b ->
  exec_flat (map (fun ga => ((a, b) :: fst ga, snd ga)) l) s = Some s.
Proof.
  intros H; revert s; induction l as [|[g x] r IH]; intros s; cbn [map exec_flat fst snd]; [reflexivity|].
  rewrite geval_cons, H. replace (Bool.eqb (negb b) b) with false by (destruct b; reflexivity).
  cbn [andb]. apply IH.
Qed.

Fixpoint depth (t : tree L) : nat :=
  match t with Leaf _ => 1 | If _ th el => S (fold_right Nat.max 0 (map depth th ++ map depth el)) end.
Lemma max_in l x : In x l -> x <= fold_right Nat.max 0 l.
Proof. induction l; cbn; [tauto|]. intros [->|H]; [lia|]. specialize (IHl H). lia. Qed.

Lemma flatten_sound : forall fuel t s, depth t <= fuel ->
  exec_tree fuel t s = exec_flat (flatten_tree fuel t) s.
Proof.
  induction fuel as [|f IH]; intros t s Hd.
  - destruct t; cbn in Hd; lia.
  - destruct t as [a|a th el]; cbn [exec_tree flatten_tree].
    + cbn. destruct (do_leaf c a s); reflexivity.
    + assert (Hth : forall x, In x th -> depth x <= f).
      { intros x Hx. cbn in Hd. apply le_S_n in Hd.
        etransitivity; [|exact Hd]. apply max_in. apply in_or_app; left. now apply in_map. }
      assert (Hel : forall x, In x el -> depth x <= f).
      { intros x Hx. cbn in Hd. apply le_S_n in Hd.
        etransitivity; [|exact Hd]. apply max_in. apply in_or_app; right. now apply in_map. }
      assert (Hgo : forall l, (forall x, In x l -> depth x <= f) -> forall s,
        (fix go (l : list (tree L)) (s : St) : option St :=
         match l with [] => Some s | x :: r => match exec_tree f x s with Some s' => go r s' | None => None end end) l s
        = exec_flat (flat_map (flatten_tree f) l) s).
      { induction l as [|x r IHl]; intros Hl s0; cbn [flat_map]; [reflexivity|].
        rewrite exec_flat_app. rewrite <- IH by (apply Hl; now left).
        destruct (exec_tree f x s0); [|reflexivity]. apply IHl. intros y Hy; apply Hl; now right. }
      rewrite exec_flat_app.
      destruct (aeval c a) eqn:Ha.
      * rewrite exec_flat_guard_on by exact Ha. rewrite <- Hgo by exact Hth.
        match goal with |- ?X = _ => destruct X end; [|reflexivity].
        symmetry. apply exec_flat_guard_off. now rewrite Ha.
      * rewrite (exec_flat_guard_off a true) by now rewrite Ha.
        rewrite exec_flat_guard_on by exact Ha. apply Hgo; exact Hel.
Qed.

Lemma exec_list_flat fuel l s : (forall x, In x l -> depth x <= fuel) ->
  exec_list fuel l s = exec_flat (flat_map (flatten_tree fuel) l) s.
Proof.
  revert s; induction l as [|x r IH]; intros s H; cbn [exec_list flat_map]; [reflexivity|].
  rewrite exec_flat_app, <- flatten_sound by (apply H; now left).
  destruct (exec_tree fuel x s); [|reflexivity]. apply IH. intros y Hy; apply H; now right.
Qed.
End Sem.
