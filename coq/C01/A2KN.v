(* C01 - LOSParam.args2kwargs for ANY number of line-of-sight populations (none with a fixed parameter), at interpreter level: the loop by
   induction, the function around it (the list comprehension [{} for _ in range(n)] for symbolic n included), and the theorem: the vector is read
   from position 0 on, population by population - mean, sigma for GAUSSIAN, mean, sigma, xi for GEV, nothing for another name - into one dictionary
   per population, and the returned position is the number of values read.  With LosN.v (kwargs2args) both directions of the line-of-sight block
   are proved at interpreter level for every number of populations.  Source = C01.Src (regenerated). *)
From Coq Require Import Reals ZArith String List Bool Lra Lia.
Require Import Py.PyAst Py.PyVal Py.PySem Py.XLemmas Py.Unfold Py.Tactics Py.Sym.
Require Import C01.Src C01.LosStep C01.LosN C01.A2KStep.
Import ListNotations.
Open Scope string_scope.
Ltac RUNP tm := let r := eval lazy -[Rplus Rmult Rminus Rdiv Rinv Ropp Rmax Rmin Rlt Rle Rgt Rge ln exp sqrt log10 IZR dec Rpower pow PI DBL_MAX not snum map app length subscript set_item Z.of_nat Z.to_nat Z.add dstr fixd kwd repeat zrange] in tm in change tm with r.

Lemma loopA rest : forall pre used more prev idx w,
  exists prev',
  iter_loop stepA (enum_from (Z.of_nat (Datatypes.length pre)) (map dstr rest)) idx
            (envA (pre ++ rest) (used ++ flat_map free_r rest ++ more) (Z.of_nat (Datatypes.length used)) (map kwd pre ++ repeat (VDict []) (Datatypes.length rest)) prev) w
  = Ok (ONormal (envA (pre ++ rest) (used ++ flat_map free_r rest ++ more) (Z.of_nat (Datatypes.length (used ++ flat_map free_r rest))) (map kwd (pre ++ rest)) prev'), w).
Proof.
  induction rest as [|p r IH]; intros pre used more prev idx w.
  - exists prev. cbn [map enum_from iter_loop flat_map Datatypes.length repeat app]. rewrite !app_nil_r. reflexivity.
  - cbn [map enum_from iter_loop flat_map Datatypes.length repeat].
    rewrite <- (app_assoc (free_r p) (flat_map free_r r) more).
    rewrite (stepA_one pre r p used (flat_map free_r r ++ more) (repeat (VDict []) (Datatypes.length r)) prev idx w). cbn [bind fst snd].
    rewrite iafter_eq.
    rewrite (Sym_app_snoc pre p r).
    replace (Z.of_nat (Datatypes.length pre) + 1)%Z with (Z.of_nat (Datatypes.length (pre ++ [p]))) by (rewrite app_length; cbn [Datatypes.length]; lia).
    replace (map kwd pre ++ kwd p :: repeat (VDict []) (Datatypes.length r))%list with (map kwd (pre ++ [p]) ++ repeat (VDict []) (Datatypes.length r))%list
      by (rewrite map_app; cbn [map]; rewrite <- app_assoc; reflexivity).
    rewrite (app_assoc used (free_r p) (flat_map free_r r ++ more)).
    destruct (IH (pre ++ [p])%list (used ++ free_r p)%list more (Some (Z.of_nat (Datatypes.length pre), dstr p)) (idx + 1)%Z w) as [pv E].
    exists pv. rewrite E. rewrite <- (app_assoc used (free_r p) (flat_map free_r r)). reflexivity.
Qed.

Definition finishA (ow : outcome * world) : res (val * world) :=
  match fst ow with
  | ONormal ρ' => Ok (VNone, snd ow)
  | OReturn v => Ok (v, snd ow)
  | OTail o targs tkws => o targs tkws (snd ow)
  end.
Definition afterA (ρ' : env) (w' : world) :=
  run_stmts (exec_stmt (tails G0) (runms G0 78) (eval G0 78) (evals_with (eval G0 78)) (exec G0 78) 78)
            (match src_LOSParam_args2kwargs with FunDef _ _ _ _ b => skipn 2 b end) ρ' w'.
Lemma prefixA pops argl w :
  call G0 80 (CFun src_LOSParam_args2kwargs) (Some (selfL pops)) [VList (map snum argl)] [] w
  = (do ow <- seq_out (seq_out (iter_loop stepA (enum_from 0 (map dstr pops)) 0%Z
                                          (envA pops argl 0 (repeat (VDict []) (Datatypes.length pops)) None) w) (fun ρ' w' => Ok (ONormal ρ', w'))) afterA;
     finishA ow).
Proof.
  rewrite call_fun.
  cbv beta zeta delta [f_static f_params f_kwarg f_body f_name src_LOSParam_args2kwargs] iota.
  (match goal with |- context [bind_params ?a ?b ?c ?d] => RUNP (bind_params a b c d) end).
  cbn [bind fst snd]. rewrite exec_S, run_stmts_cons. cbn [exec_stmt].
  (* kwargs = [{} for _ in range(len(self._los_distributions))] *)
  erewrite (listcomp_empty_dicts G0 75 _ _ _ 0%Z (Datatypes.length pops)).
  2:{ (match goal with |- ?L = _ => RUNP L end). rewrite ?Z.sub_0_r, Nat2Z.id, map_length. reflexivity. }
  cbn [bind fst snd].
  (match goal with |- context [assign ?a ?b ?c ?d ?e ?f] => RUNP (assign a b c d e f) end).
  cbn [seq_out bind fst snd]. rewrite run_stmts_cons. cbn [exec_stmt].
  (match goal with |- context [eval G0 78 ?c ?r ?w0] => RUNP (eval G0 78 c r w0) end).
  cbn [bind fst snd].
  (match goal with |- context [m_truthy ?c ?w0] => RUNP (m_truthy c w0) end).
  cbn [bind fst snd]. rewrite exec_S, run_stmts_one. cbn [exec_stmt].
  (match goal with |- context [eval G0 77 ?c ?r ?w0] => RUNP (eval G0 77 c r w0) end).
  cbn [bind fst snd as_list].
  unfold stepA, itA, tgA, bodyA, blockA, envA, selfL, afterA, finishA.
  cbv beta iota zeta delta [src_LOSParam_args2kwargs nth skipn]. cbn [app String.eqb Ascii.eqb Bool.eqb].
  reflexivity.
Qed.
Lemma suffixA pops argl i KW prev w : afterA (envA pops argl i KW prev) w = Ok (OReturn (VTuple [VList KW; VInt i]), w).
Proof.
  destruct prev as [[k0 d0]|]; unfold afterA, envA; cbv beta iota zeta delta [src_LOSParam_args2kwargs skipn]; cbn [app];
  (match goal with |- ?L = _ => RUNP L end); reflexivity.
Qed.
Theorem los_args2kwargs_any_number pops more w :
  call G0 80 (CFun src_LOSParam_args2kwargs) (Some (selfL pops)) [VList (map snum (flat_map free_r pops ++ more))] [] w
  = Ok (VTuple [VList (map kwd pops); VInt (Z.of_nat (Datatypes.length (flat_map free_r pops)))], w).
Proof.
  rewrite prefixA. destruct (loopA pops [] [] more None 0%Z w) as [pv E]. cbn [app Datatypes.length Z.of_nat map] in E. rewrite E.
  cbn [seq_out bind fst snd]. rewrite suffixA. reflexivity.
Qed.

Lemma free_vals_r pops : flat_map free_vals pops = map snum (flat_map free_r pops).
Proof.
  induction pops as [|p r IH]; [reflexivity|]. cbn [flat_map]. rewrite map_app, IH. f_equal.
  unfold free_vals, free_r. destruct (pk p); reflexivity.
Qed.
(* both directions: what args2kwargs builds from the vector, kwargs2args turns back into the vector - for every number of populations *)
Theorem los_round_trip_any_number pops more w :
  exists kw,
  call G0 80 (CFun src_LOSParam_args2kwargs) (Some (selfL pops)) [VList (map snum (flat_map free_r pops ++ more))] [] w
  = Ok (VTuple [VList kw; VInt (Z.of_nat (Datatypes.length (flat_map free_r pops)))], w)
  /\ call G0 80 (CFun src_LOSParam_kwargs2args) (Some (selfL pops)) [VList kw] [] w = Ok (VList (map snum (flat_map free_r pops)), w).
Proof.
  exists (map kwd pops). split; [apply los_args2kwargs_any_number|]. rewrite <- free_vals_r. apply LosN.los_kwargs2args_any_number.
Qed.
