(* C01 - reading the serialised Python bodies of one parameter block as ladders (if-trees whose leaves are slots).
   Purely syntactic, total, fail-closed: anything outside the recognised shapes gives None and the property theorems do not build. *)
From Coq Require Import Reals ZArith List String Bool.
Require Import Py.PyAst.
Require Import C01.LTree C01.Slots C01.Blocks.
Import ListNotations.
Open Scope string_scope.

(* Reading the serialised Python bodies as ladders.  Purely syntactic, total, returns None on anything
   outside the recognised shapes (fail closed).  No string literal is ever used as a match pattern. *)
Definition is_name (s : string) (e : expr) : bool := match e with EName x => String.eqb x s | _ => false end.
Definition self_attr (e : expr) : option string :=
  match e with EAttr o a => if is_name "self" o then Some a else None | _ => None end.
Fixpoint strs_of (l : list expr) : option (list string) :=
  match l with [] => Some [] | EStr s :: r => match strs_of r with Some t => Some (s :: t) | None => None end | _ => None end.

(* condition -> (atom, polarity) : the condition is true iff [aeval atom = polarity] *)
Definition cond_of_dict (e : expr) : option (atom * bool) :=
  match e with
  | ECmp CIs x (EBool true) =>
      if is_name "latex_style" x then Some (ALatex, true)
      else match self_attr x with Some f => Some (ABool f, true) | None => None end
  | ECmp o (EStr k) d =>
      match self_attr d, o with
      | Some a, CIn => if String.eqb a "_kwargs_fixed" then Some (AFixed k, true) else None
      | Some a, CNotIn => if String.eqb a "_kwargs_fixed" then Some (AFixed k, false) else None
      | _, _ => None end
  | ECmp o x (EList vs) =>
      match self_attr x, strs_of vs, o with
      | Some f, Some l, CIn => Some (AStrIn f l, true)
      | Some f, Some l, CNotIn => Some (AStrIn f l, false)
      | _, _, _ => None end
  | ECmp CEq x (EStr v) => match self_attr x with Some f => Some (AStrEq f v, true) | None => None end
  | ECmp CGt x (EInt 0) => match self_attr x with Some f => Some (ANatPos f, true) | None => None end
  | _ => match self_attr e with Some f => Some (ABool f, true) | None => None end
  end.
Definition mk_if {L} (ap : atom * bool) (t e : list (tree L)) : tree L :=
  if snd ap then If (fst ap) t e else If (fst ap) e t.

(* kwargs["K"] *)
Definition kw_key_dict (e : expr) : option string :=
  match e with ESub d (EStr k) => if is_name "kwargs" d then Some k else None | _ => None end.
(* args[i] or 10 ** (args[i]) *)
Definition arg_read (e : expr) : option tr :=
  match e with
  | ESub a i => if is_name "args" a && is_name "i" i then Some Id else None
  | EBin Pow (EInt 10) (ESub a i) => if is_name "args" a && is_name "i" i then Some Pow10 else None
  | _ => None
  end.
Definition fixed_read_dict (e : expr) : option string :=
  match e with ESub d (EStr k) => match self_attr d with Some a => if String.eqb a "_kwargs_fixed" then Some k else None | None => None end | _ => None end.

(* list.append("name")   and   for i in range(self._f): [if latex: list.append(L % i) else:] list.append(P % i) *)
Definition lname (e : expr) : bool := is_name "list" e || is_name "name_list" e.
Definition name_of_dict (s : stmt) : option string :=
  match s with
  | SExpr (ECall (EAttr r m) [EStr n] []) => if lname r && String.eqb m "append" then Some n else None
  | _ => None
  end.
(* ---- the readers, parametrised by the dialect: how this block spells  kwargs[K],  fixed[K]  and its conditions ---- *)
Section Dialect.
Variable cond_of : expr -> option (atom * bool).
Variable kw_key : expr -> option string.
Variable fixed_read : expr -> option string.
Variable name_of : stmt -> option string.
Definition is_inc (s : stmt) : bool := match s with SAug Add t (EInt 1) => is_name "i" t | _ => false end.
Definition set_from_arg (s : stmt) : option (string * tr) :=
  match s with SAssign t v => match kw_key t, arg_read v with Some k, Some r => Some (k, r) | _, _ => None end | _ => None end.

(* kwargs["K"] = self._attr   (an attribute other than the fixed dictionary) *)
Definition const_read (e : expr) : option string := match self_attr e with Some a => if String.eqb a "_kwargs_fixed" then None else Some a | None => None end.
(* range(self._f) *)
Definition range_of (e : expr) : option string :=
  match e with ECall r [x] [] => if is_name "range" r then self_attr x else None | _ => None end.
(* if self._f > 0:  L = [];  for k in range(self._f): L.append(args[i]); i += 1;  kwargs["K"] = L *)
Definition list_block (c : expr) (t e : list stmt) : option (tree a2k_leaf) :=
  match cond_of c, t, e with
  | Some (ANatPos f, true), [SAssign (EName l0) (EList []); SFor (EName _) it [SExpr (ECall (EAttr (EName l1) m) [v] []); inc]; SAssign tk (EName l2)], [] =>
      match range_of it, kw_key tk, arg_read v with
      | Some f', Some k, Some Id =>
          if String.eqb f f' && String.eqb l0 l1 && String.eqb l1 l2 && String.eqb m "append" && is_inc inc
          then Some (If (ANatPos f) [Leaf (AFreeN k f)] []) else None
      | _, _, _ => None end
  | _, _, _ => None
  end.
Fixpoint a2k_of (fuel : nat) (ss : list stmt) : option (list (tree a2k_leaf)) :=
  match fuel with O => None | S f =>
  match ss with
  | [] => Some []
  | [SReturn (Some (ETuple [k; i]))] => if is_name "kwargs" k && is_name "i" i then Some [] else None
  | SAssign t (EDict []) :: rest => if is_name "kwargs" t then a2k_of f rest else None
  (* if log_scatter: K = 10 ** args[i]  else: K = args[i] ;  i += 1 *)
  | SIf c [s1] [s2] :: inc :: rest =>
      match cond_of c, set_from_arg s1, set_from_arg s2, is_inc inc with
      | Some (a, true), Some (k1, t1), Some (k2, t2), true =>
          if String.eqb k1 k2 then match a2k_of f rest with Some r => Some (Leaf (AFree k1 (TIf a t1 t2)) :: r) | None => None end else None
      | Some ap, _, _, _ =>
          match a2k_of f [s1], a2k_of f [s2], a2k_of f (inc :: rest) with
          | Some t, Some e, Some r => Some (mk_if ap t e :: r) | _, _, _ => None end
      | None, _, _, _ => None
      end
  | SIf c t e :: rest =>
      match list_block c t e with
      | Some lf => match a2k_of f rest with Some r => Some (lf :: r) | None => None end
      | None =>
      match cond_of c, a2k_of f t, a2k_of f e, a2k_of f rest with
      | Some ap, Some tb, Some eb, Some r => Some (mk_if ap tb eb :: r) | _, _, _, _ => None end end
  | SAssign t v :: rest =>
      match kw_key t with
      | None => None
      | Some k =>
          match const_read v with
          | Some a => match a2k_of f rest with Some r => Some (Leaf (AConst k a) :: r) | None => None end
          | None =>
          match fixed_read v, arg_read v, rest with
          | Some k', _, _ => if String.eqb k k' then match a2k_of f rest with Some r => Some (Leaf (AFix k) :: r) | None => None end else None
          | None, Some r0, inc :: rest' =>
              if is_inc inc then match a2k_of f rest' with Some r => Some (Leaf (AFree k (T1 r0)) :: r) | None => None end else None
          | _, _, _ => None
          end end
      end
  | _ => None
  end end.

(* args.append(kwargs["K"])  or  args.append(np.log10(kwargs["K"])) *)
Definition append_of (s : stmt) : option (string * tr) :=
  match s with
  | SExpr (ECall (EAttr r m) [v] []) =>
      if is_name "args" r && String.eqb m "append" then
        match v with
        | ECall (EAttr np fn) [v'] [] =>
            if is_name "np" np && String.eqb fn "log10" then match kw_key v' with Some k => Some (k, Log10) | None => None end else None
        | _ => match kw_key v with Some k => Some (k, Id) | None => None end
        end
      else None
  | _ => None
  end.
Fixpoint k2a_of (fuel : nat) (ss : list stmt) : option (list (tree k2a_leaf)) :=
  match fuel with O => None | S f =>
  match ss with
  | [] => Some []
  | [SReturn (Some r)] => if is_name "args" r then Some [] else None
  | SAssign t (EList []) :: rest => if is_name "args" t then k2a_of f rest else None
  | SIf c t e :: rest =>
      match cond_of c, t, e with
      | Some (ANatPos f0, true), [SFor (EName j) it [SExpr (ECall (EAttr r m) [ESub v (EName j')] [])]], [] =>
          match range_of it, kw_key v with
          | Some f', Some k =>
              if String.eqb f0 f' && String.eqb j j' && is_name "args" r && String.eqb m "append"
              then match k2a_of f rest with Some rr => Some (If (ANatPos f0) [Leaf (KAppN k f0)] [] :: rr) | None => None end else None
          | _, _ => None end
      | Some (a, true), [s1], [s2] =>
          match append_of s1, append_of s2 with
          | Some (k1, t1), Some (k2, t2) =>
              if String.eqb k1 k2 then match k2a_of f rest with Some r => Some (Leaf (KApp k1 (TIf a t1 t2)) :: r) | None => None end else None
          | _, _ => match k2a_of f t, k2a_of f e, k2a_of f rest with
                    | Some tb, Some eb, Some r => Some (If a tb eb :: r) | _, _, _ => None end
          end
      | Some ap, _, _ =>
          match k2a_of f t, k2a_of f e, k2a_of f rest with
          | Some tb, Some eb, Some r => Some (mk_if ap tb eb :: r) | _, _, _ => None end
      | None, _, _ => None
      end
  | s :: rest =>
      match append_of s with
      | Some (k, t) => match k2a_of f rest with Some r => Some (Leaf (KApp k (T1 t)) :: r) | None => None end
      | None => None end
  end end.

Definition fmt_name_of (j : string) (s : stmt) : option string :=
  match s with
  | SExpr (ECall (EAttr r m) [EBin Mod (EStr p) (EName j')] []) => if lname r && String.eqb m "append" && String.eqb j j' then Some p else None
  | _ => None
  end.
Fixpoint names_of (fuel : nat) (ss : list stmt) : option (list (tree name_leaf)) :=
  match fuel with O => None | S f =>
  match ss with
  | [] => Some []
  | [SReturn (Some r)] => if lname r then Some [] else None
  | SAssign t (EList []) :: rest => if lname t then names_of f rest else None
  | SFor (EName j) it [SIf c [s1] [s2]] :: rest =>
      match range_of it, cond_of c, fmt_name_of j s1, fmt_name_of j s2, names_of f rest with
      | Some f0, Some (ALatex, true), Some p1, Some p2, Some r => Some (If ALatex [Leaf (NNameN p1 f0)] [Leaf (NNameN p2 f0)] :: r)
      | _, _, _, _, _ => None end
  | SIf c t e :: rest =>
      match cond_of c, names_of f t, names_of f e, names_of f rest with
      | Some ap, Some tb, Some eb, Some r => Some (mk_if ap tb eb :: r) | _, _, _, _ => None end
  | s :: rest =>
      match name_of s with
      | Some n => match names_of f rest with Some r => Some (Leaf (NName n) :: r) | None => None end
      | None => None end
  end end.

(* ---------- specialising the names tree to plain / LaTeX style ---------- *)
Fixpoint spec_latex {L} (b : bool) (fuel : nat) (t : tree L) : list (tree L) :=
  match fuel with O => [t] | S f =>
  match t with
  | Leaf l => [Leaf l]
  | If a th el =>
      match a with
      | ALatex => flat_map (spec_latex b f) (if b then th else el)
      | _ => [If a (flat_map (spec_latex b f) th) (flat_map (spec_latex b f) el)]
      end
  end end.

(* param_list read with LaTeX-style leaves: a two-way choice between two labels on a non-style condition is ONE conditional label *)
Fixpoint lnames_of (fuel : nat) (ss : list stmt) : option (list (tree lname_leaf)) :=
  match fuel with O => None | S f =>
  match ss with
  | [] => Some []
  | [SReturn (Some r)] => if lname r then Some [] else None
  | SAssign t (EList []) :: rest => if lname t then lnames_of f rest else None
  | SFor (EName j) it [SIf c [s1] [s2]] :: rest =>
      match range_of it, cond_of c, fmt_name_of j s1, fmt_name_of j s2, lnames_of f rest with
      | Some f0, Some (ALatex, true), Some p1, Some p2, Some r => Some (If ALatex [Leaf (LNameN p1 f0)] [Leaf (LNameN p2 f0)] :: r)
      | _, _, _, _, _ => None end
  | SIf c t e :: rest =>
      match cond_of c, t, e with
      | Some (a, true), [s1], [s2] =>
          match a, name_of s1, name_of s2 with
          | ALatex, _, _ | _, None, _ | _, _, None =>
              match lnames_of f t, lnames_of f e, lnames_of f rest with
              | Some tb, Some eb, Some r => Some (If a tb eb :: r) | _, _, _ => None end
          | _, Some n1, Some n2 => match lnames_of f rest with Some r => Some (Leaf (LSel a n1 n2) :: r) | None => None end
          end
      | Some ap, _, _ =>
          match lnames_of f t, lnames_of f e, lnames_of f rest with
          | Some tb, Some eb, Some r => Some (mk_if ap tb eb :: r) | _, _, _ => None end
      | None, _, _ => None
      end
  | s :: rest =>
      match name_of s with
      | Some n => match lnames_of f rest with Some r => Some (Leaf (LName n) :: r) | None => None end
      | None => None end
  end end.

End Dialect.

Definition read_block (fa fk fn : fundef) : option block :=
  match a2k_of cond_of_dict kw_key_dict fixed_read_dict 200 (f_body fa), k2a_of cond_of_dict kw_key_dict 200 (f_body fk), names_of cond_of_dict name_of_dict 200 (f_body fn), lnames_of cond_of_dict name_of_dict 200 (f_body fn) with
  | Some a, Some k, Some n, Some l => Some (Block a k n l)
  | _, _, _, _ => None
  end.
