(* C01 — property theorems only. Everything below is about ladders READ FROM the serialised source of this run (C01.Src):
   cosmo_block, lens_block, kin_block, source_block, los_elem are computed from src_*Param_{args2kwargs,kwargs2args,param_list}
   (Instances.v / Los.v); the boolean checks block_ok are computed by vm_compute; the theorems then hold for EVERY configuration
   (all switches, distribution names, fixed subsets, any number of per-lens slopes, any list of line-of-sight populations) and EVERY real vector. *)
From Coq Require Import Reals ZArith List String Bool Arith Lia.
Require Import Py.PyAst Py.PyVal Py.PySem Py.XLemmas.
Require Import C01.LTree C01.Slots C01.Blocks C01.ToLadder C01.Src C01.Instances C01.Los C01.Manager.
Import ListNotations.
Open Scope string_scope.

Definition dict_blocks := [cosmo_block; lens_block; kin_block; source_block].
Lemma dict_blocks_ok b : In b dict_blocks -> block_ok kname_id listpre b = true.
Proof. intros [<-|[<-|[<-|[<-|[]]]]]; [apply cosmo_ok | apply lens_ok | apply kin_ok | apply source_ok]. Qed.

(* vector -> dictionary -> vector, per block: exactly the components read come back, in order; the running index advances by the
   number of free slots of this configuration *)
Theorem C01_roundtrip_block : forall b, In b dict_blocks -> forall (c : cfg) (args : list R) i kw n,
  (i <= List.length args)%nat -> run_a2k b c args i = Some (kw, n) ->
  n = (i + List.length (slots b c))%nat /\ (n <= List.length args)%nat /\ run_k2a b c kw = Some (firstn (n - i) (skipn i args)).
Proof. intros b Hb c args i kw n. apply block_roundtrip with (kname := kname_id) (listpre := listpre). apply dict_blocks_ok. exact Hb. Qed.
Print Assumptions C01_roundtrip_block.

(* whole manager: five blocks in the order cosmo, lens, kin, source, los; a vector of length num_param maps back to itself *)
Theorem C01_roundtrip : forall (cC cL cK cS : cfg) (pops : list pop) (sampling : bool) (args : list R) kc kl kk ks klos n,
  mgr_a2k cC cL cK cS pops sampling args = Some (kc, kl, kk, ks, klos, n) ->
  n = num_param cC cL cK cS pops sampling /\ (n <= List.length args)%nat /\
  (n = List.length args -> mgr_k2a cC cL cK cS pops sampling kc kl kk ks klos = Some args).
Proof. exact manager_roundtrip. Qed.
Print Assumptions C01_roundtrip.

(* the p-th free slot of a block holds (up to its transform: identity, or 10^x for a log-sampled scatter) vector component i + p *)
Theorem C01_alignment : forall b, In b dict_blocks -> forall (c : cfg) (args : list R) i kw n p s,
  run_a2k b c args i = Some (kw, n) -> nth_error (slots b c) p = Some s ->
  exists x, nth_error args (i + p) = Some x /\ slot_value c kw s = Some (slot_tr c s x).
Proof. intros b Hb c args i kw n p s. apply block_alignment with (kname := kname_id) (listpre := listpre). apply dict_blocks_ok. exact Hb. Qed.
(* log-sampled scatters are exposed in linear space: the dictionary value is 10^component *)
Theorem C01_log_scatter_linear : forall (c : cfg) (a : atom) k x, aeval c a = true -> slot_tr c (SScalar k (TIf a Pow10 Id)) x = Rpower 10 x.
Proof. intros c a k x H. cbn. rewrite H. reflexivity. Qed.

(* names, plain style: the p-th name IS the documented name of the key of the p-th slot (gamma_pl_list[j] is called "gamma_pl_%s" % j) *)
Theorem C01_names_aligned : forall (render : string -> nat -> string) b, In b dict_blocks -> forall (c : cfg), clatex c = false ->
  run_names render b c = Some (map (slot_name render kname_id listpre) (slots b c)).
Proof. intros render b Hb c. apply block_names. apply dict_blocks_ok. exact Hb. Qed.
(* names, LaTeX style: one label per slot; a label mentions \log_{10} exactly when that component is sampled in log10 space *)
Theorem C01_latex_aligned : forall (render : string -> nat -> string), (forall pre j, has_log pre = false -> has_log (render pre j) = false) ->
  forall b, In b dict_blocks -> forall (c : cfg), clatex c = true ->
  exists Ls, run_lnames render b c = Some Ls /\ Forall2 (fun s l => has_log l = slot_is_log c s) (slots b c) Ls.
Proof. intros render Hr b Hb c. apply block_latex with (kname := kname_id) (listpre := listpre); [exact Hr | apply dict_blocks_ok; exact Hb]. Qed.
Print Assumptions C01_latex_aligned.

(* fixed parameters: in the dictionary with their fixed value, and in NO vector slot *)
Theorem C01_fixed : forall b, In b dict_blocks -> forall (c : cfg) (args : list R) i kw n g k v,
  run_a2k b c args i = Some (kw, n) -> In (g, AFix k) (flatA b) -> geval c g = true -> lookup k (cfix c) = Some v ->
  lookup k kw = Some [v] /\ forall p t, nth_error (slots b c) p <> Some (SScalar k t).
Proof. intros b Hb c args i kw n g k v. apply block_fixed with (kname := kname_id) (listpre := listpre). apply dict_blocks_ok. exact Hb. Qed.
Print Assumptions C01_fixed.

(* line-of-sight block: the element ladder once per population in list order; any number of populations *)
Theorem C01_los_roundtrip : forall (latex : bool) (args : list R) pops i kws n, (i <= List.length args)%nat -> los_a2k latex args pops i = Some (kws, n) ->
  n = (i + los_width latex pops)%nat /\ (n <= List.length args)%nat /\ los_k2a latex pops kws = Some (firstn (n - i) (skipn i args)) /\ List.length kws = List.length pops.
Proof. exact los_roundtrip. Qed.
Theorem C01_los_names : forall (render : string -> nat -> string) pops j, exists l, los_names render false pops j = Some l /\ List.length l = los_width false pops.
Proof. exact los_names_plain. Qed.
Theorem C01_los_block_checked : block_ok kname_los listpre_los los_elem = true.
Proof. exact los_ok. Qed.

(* what the manager's own code does: index threading, concatenation order, bounds through the same map, num_param, constructor wiring *)
Theorem C01_block_order : forall (d1 d2 d3 d4 d5 : val) (w1 w2 w3 w4 w5 : Z) (v1 v2 v3 v4 v5 n1 n2 n3 n4 n5 : list val) args rg cu,
  yields (Gm d1 d2 d3 d4 d5 w1 w2 w3 w4 w5 v1 v2 v3 v4 v5 n1 n2 n3 n4 n5) 60 (CFun src_ParamManager_args2kwargs) (Some M) [args] [] rg cu (VTuple [d1; d2; d3; d4; d5]) cu
    [("los", [VInt (0 + w1 + w2 + w3 + w4)]); ("source", [VInt (0 + w1 + w2 + w3)]); ("kin", [VInt (0 + w1 + w2)]); ("lens", [VInt (0 + w1)]); ("cosmo", [VInt 0])].
Proof. intros. apply mgr_args2kwargs. Qed.
Theorem C01_kwargs2args_order : forall (d1 d2 d3 d4 d5 : val) (w1 w2 w3 w4 w5 : Z) (v1 v2 v3 v4 v5 n1 n2 n3 n4 n5 : list val) a1 a2 a3 a4 a5 rg cu,
  yields (Gm d1 d2 d3 d4 d5 w1 w2 w3 w4 w5 v1 v2 v3 v4 v5 n1 n2 n3 n4 n5) 60 (CFun src_ParamManager_kwargs2args) (Some M) []
    [("kwargs_lens", a2); ("kwargs_cosmo", a1); ("kwargs_los", a5); ("kwargs_kin", a3); ("kwargs_source", a4)] rg cu
    (VList (cat5 v1 v2 v3 v4 v5)) cu
    [("los", [a5]); ("source", [a4]); ("kin", [a3]); ("lens", [a2]); ("cosmo", [a1])]
  /\ cat5 v1 v2 v3 v4 v5 = (v1 ++ v2 ++ v3 ++ v4 ++ v5)%list.
Proof. intros. split; [apply mgr_kwargs2args | apply cat5_eq]. Qed.
Theorem C01_names_order : forall (d1 d2 d3 d4 d5 : val) (w1 w2 w3 w4 w5 : Z) (v1 v2 v3 v4 v5 n1 n2 n3 n4 n5 : list val) (latex : bool) rg cu,
  yields (Gm d1 d2 d3 d4 d5 w1 w2 w3 w4 w5 v1 v2 v3 v4 v5 n1 n2 n3 n4 n5) 60 (CFun src_ParamManager_param_list) (Some M) [] [("latex_style", VBool latex)] rg cu
    (VList (cat5 n1 n2 n3 n4 n5)) cu
    [("los", [VBool latex]); ("source", [VBool latex]); ("kin", [VBool latex]); ("lens", [VBool latex]); ("cosmo", [VBool latex])].
Proof. intros. apply mgr_param_list. Qed.
Theorem C01_bounds_aligned : forall (d1 d2 d3 d4 d5 : val) (w1 w2 w3 w4 w5 : Z) (v1 v2 v3 v4 v5 n1 n2 n3 n4 n5 : list val) rg cu,
  yields (Gm d1 d2 d3 d4 d5 w1 w2 w3 w4 w5 v1 v2 v3 v4 v5 n1 n2 n3 n4 n5) 60 (CFun src_ParamManager_param_bounds) (Some M) [] [] rg cu
    (VTuple [VList (cat5 v1 v2 v3 v4 v5); VList (cat5 v1 v2 v3 v4 v5)]) cu
    [("los", [VStr "uo"]); ("source", [VStr "us"]); ("kin", [VStr "uk"]); ("lens", [VStr "ul"]); ("cosmo", [VStr "uc"]);
     ("los", [VStr "lo"]); ("source", [VStr "ls"]); ("kin", [VStr "lk"]); ("lens", [VStr "ll"]); ("cosmo", [VStr "lc"])].
Proof. intros. apply mgr_param_bounds. Qed.
Theorem C01_num_param : forall (d1 d2 d3 d4 d5 : val) (w1 w2 w3 w4 w5 : Z) (v1 v2 v3 v4 v5 n1 n2 n3 n4 n5 : list val) rg cu,
  yields (Gm d1 d2 d3 d4 d5 w1 w2 w3 w4 w5 v1 v2 v3 v4 v5 n1 n2 n3 n4 n5) 60 (CFun src_ParamManager_num_param) (Some M) [] [] rg cu
    (VInt (Z.of_nat (List.length (cat5 n1 n2 n3 n4 n5)))) cu
    [("los", [VBool false]); ("source", [VBool false]); ("kin", [VBool false]); ("lens", [VBool false]); ("cosmo", [VBool false])].
Proof. intros. apply mgr_num_param. Qed.
Theorem C01_constructor_wiring : forall rg cu,
  exists o, yields Gi 80 (CClass "ParamManager" src_ParamManager_init) None [VStr "cosmology"] tagged rg cu o cu []
            /\ wiring_ok o = true
            /\ receives o "_lens_param" "kwargs_fixed" = Some (VStr "kwargs_fixed_lens")
            /\ receives o "_kin_param" "kwargs_fixed" = Some (VStr "kwargs_fixed_kin")
            /\ receives o "_cosmo_param" "kwargs_fixed" = Some (VStr "kwargs_fixed_cosmo")
            /\ receives o "_source_param" "kwargs_fixed" = Some (VStr "kwargs_fixed_source")
            /\ receives o "_los_param" "kwargs_fixed" = Some (VStr "kwargs_fixed_los")
            /\ receives o "_lens_param" "log_scatter" = Some (VStr "log_scatter")
            /\ receives o "_kin_param" "log_scatter" = Some (VStr "log_scatter")
            /\ receives o "_lens_param" "gamma_pl_num" = Some (VStr "gamma_pl_num")
            /\ receives o "_source_param" "z_apparent_m_anchor" = Some (VStr "z_apparent_m_anchor").
Proof. exact manager_wiring. Qed.
Print Assumptions C01_constructor_wiring.

(* non-vacuity: a concrete kinematics configuration (OM, Gaussian scatter sampled in log space, systematic error fixed) has two slots:
   a_ani (identity) and a_ani_sigma (10^x); the round trip runs *)
Definition ex_cfg : cfg := {| cb := fun f => String.eqb f "_anisotropy_sampling" || String.eqb f "_log_scatter" || String.eqb f "_sigma_v_systematics";
  cs := fun f => if String.eqb f "_anisotropy_model" then "OM" else if String.eqb f "_distribution_function" then "GAUSSIAN" else "";
  cn := fun _ => 0%nat; cfix := [("sigma_v_sys_error", 5 / 100)%R]; cconst := fun _ => 0%R; clatex := false |}.
Example C01_example_slots : map (slot_name (fun p _ => p) kname_id listpre) (slots kin_block ex_cfg) = ["a_ani"; "a_ani_sigma"].
Proof. vm_compute. reflexivity. Qed.
Example C01_example_run : exists kw, run_a2k kin_block ex_cfg [2; -1]%R 0 = Some (kw, 2%nat).
Proof. eexists. vm_compute. reflexivity. Qed.

(* THE LINE-OF-SIGHT BLOCK AT INTERPRETER LEVEL, FOR ANY NUMBER OF POPULATIONS (LosStep.v / LosN.v: induction over the interpreter's loop, the
   subscripts at the symbolic population index resolved by a lemma) - a second route, independent of the ladder reading used above: when no
   line-of-sight parameter is fixed, LOSParam.kwargs2args returns, population by population, mean and sigma for a GAUSSIAN population, mean,
   sigma and xi for a GEV population, and nothing for any other distribution name - in that order, whatever the number of populations. *)
Require Import Py.Sym C01.LosStep C01.LosN C01.A2KStep C01.A2KN.
Theorem C01_los_vector_layout_any_number_of_populations : forall (pops : list pop) (w : world),
  call LosStep.G0 80 (CFun src_LOSParam_kwargs2args) (Some (selfL pops)) [VList (map kwd pops)] [] w = Ok (VList (flat_map free_vals pops), w).
Proof. exact los_kwargs2args_any_number. Qed.
Print Assumptions C01_los_vector_layout_any_number_of_populations.
Example C01_los_layout_instance :
  flat_map free_vals [{| pk := DGauss; vm := 1; vs := 2; vx := 3 |}; {| pk := DOther; vm := 4; vs := 5; vx := 6 |}; {| pk := DGev; vm := 7; vs := 8; vx := 9 |}]
  = [snum 1; snum 2; snum 7; snum 8; snum 9].
Proof. reflexivity. Qed.

(* BOTH DIRECTIONS of the line-of-sight block at interpreter level, for ANY number of populations (no parameter fixed): args2kwargs reads the
   vector from position 0 on into one dictionary per population (mean, sigma for GAUSSIAN; mean, sigma, xi for GEV; an empty dictionary for any
   other name), returns the number of values read - the rest of the vector ([more]) is not touched - and kwargs2args turns those dictionaries
   back into exactly the values read, in the same order.  (A2KStep.v / A2KN.v: the list comprehension [{} for _ in range(n)] for symbolic n,
   nested item assignments kwargs[k][name] = args[i] at symbolic k and i, induction over the loop.) *)
Theorem C01_los_round_trip_any_number_of_populations : forall (pops : list pop) (more : list R) (w : world),
  exists kw,
  call LosStep.G0 80 (CFun src_LOSParam_args2kwargs) (Some (selfL pops)) [VList (map snum (flat_map free_r pops ++ more))] [] w
  = Ok (VTuple [VList kw; VInt (Z.of_nat (Datatypes.length (flat_map free_r pops)))], w)
  /\ call LosStep.G0 80 (CFun src_LOSParam_kwargs2args) (Some (selfL pops)) [VList kw] [] w = Ok (VList (map snum (flat_map free_r pops)), w).
Proof. exact los_round_trip_any_number. Qed.
Print Assumptions C01_los_round_trip_any_number_of_populations.

(* THE BLOCK CONSTRUCTORS (Ctor.v).  The configuration over which all theorems above quantify is the record of attributes the ladders read from
   `self`.  Running each block's serialised __init__ with every parameter given its own name as value shows: parameter p is stored under the
   attribute _p (and nothing else is stored), every attribute read by param_list / args2kwargs / kwargs2args is among the stored ones, kwargs_fixed=None
   becomes an EMPTY dictionary (LOS: one fresh empty dictionary per population), and an unsupported cosmology / supernova distribution / line-of-sight
   distribution is refused with ValueError.  Together with C01_constructor_wiring (manager -> block keywords) this ties the user's keywords to the
   configuration of the ladders. *)
Require Import C01.Ctor.
Theorem C01_lens_block_constructor : forall rg cu,
  exists o, yields Gc 60 (CClass "LensParam" src_LensParam_init) None [] (tagged src_LensParam_init []) rg cu o cu []
    /\ stores o (tagged src_LensParam_init []) = true /\ only_fields o (tagged src_LensParam_init []) [] = true
    /\ reads_stored o [src_LensParam_param_list; src_LensParam_args2kwargs; src_LensParam_kwargs2args] = true
    /\ List.length (tagged src_LensParam_init []) = 17%nat.
Proof. exact lens_ctor. Qed.
Print Assumptions C01_lens_block_constructor.
Theorem C01_kin_block_constructor : forall rg cu (m : string), In m ["NONE"; "GOM"; "OM"; "const"] ->
  exists o, yields Gc 60 (CClass "KinParam" src_KinParam_init) None [] (tagged src_KinParam_init [("anisotropy_model", VStr m)]) rg cu o cu []
    /\ stores o (tagged src_KinParam_init [("anisotropy_model", VStr m)]) = true
    /\ only_fields o (tagged src_KinParam_init []) [] = true
    /\ reads_stored o [src_KinParam_param_list; src_KinParam_args2kwargs; src_KinParam_kwargs2args] = true.
Proof. exact kin_ctor. Qed.
Print Assumptions C01_kin_block_constructor.
Theorem C01_cosmo_block_constructor : forall rg cu (c : string), In c ["FLCDM"; "FwCDM"; "w0waCDM"; "oLCDM"; "NONE"] ->
  exists o, yields Gc 60 (CClass "CosmoParam" src_CosmoParam_init) None [] (tagged src_CosmoParam_init [("cosmology", VStr c)]) rg cu o cu []
    /\ stores o (tagged src_CosmoParam_init [("cosmology", VStr c)]) = true
    /\ only_fields o (tagged src_CosmoParam_init []) ["_supported_cosmologies"] = true
    /\ reads_stored o [src_CosmoParam_param_list; src_CosmoParam_args2kwargs; src_CosmoParam_kwargs2args] = true.
Proof. exact cosmo_ctor. Qed.
Print Assumptions C01_cosmo_block_constructor.
Theorem C01_source_block_constructor : forall rg cu (d : string), In d ["GAUSSIAN"; "NONE"] ->
  exists o, yields Gc 60 (CClass "SourceParam" src_SourceParam_init) None [] (tagged src_SourceParam_init [("sne_distribution", VStr d)]) rg cu o cu []
    /\ stores o (tagged src_SourceParam_init [("sne_distribution", VStr d)]) = true
    /\ only_fields o (tagged src_SourceParam_init []) [] = true
    /\ reads_stored o [src_SourceParam_param_list; src_SourceParam_args2kwargs; src_SourceParam_kwargs2args] = true.
Proof. exact source_ctor. Qed.
Print Assumptions C01_source_block_constructor.
Theorem C01_los_block_constructor : forall rg cu,
  exists o, yields Gc 60 (CClass "LOSParam" src_LOSParam_init) None [] (tagged src_LOSParam_init [("los_distributions", VList los_names)]) rg cu o cu []
    /\ stores o (tagged src_LOSParam_init [("los_distributions", VList los_names)]) = true
    /\ only_fields o (tagged src_LOSParam_init []) [] = true
    /\ reads_stored o [src_LOSParam_param_list; src_LOSParam_args2kwargs; src_LOSParam_kwargs2args] = true.
Proof. exact los_ctor. Qed.
Print Assumptions C01_los_block_constructor.
Theorem C01_fixed_defaults_to_empty : forall rg cu,
  (exists o, yields Gc 60 (CClass "LensParam" src_LensParam_init) None [] (tagged src_LensParam_init [("kwargs_fixed", VNone)]) rg cu o cu []
     /\ field_of o "_kwargs_fixed" = Some (VDict []))
  /\ (exists o, yields Gc 60 (CClass "KinParam" src_KinParam_init) None [] (tagged src_KinParam_init [("anisotropy_model", VStr "OM"); ("kwargs_fixed", VNone)]) rg cu o cu []
     /\ field_of o "_kwargs_fixed" = Some (VDict []))
  /\ (exists o, yields Gc 60 (CClass "CosmoParam" src_CosmoParam_init) None [] (tagged src_CosmoParam_init [("cosmology", VStr "FLCDM"); ("kwargs_fixed", VNone)]) rg cu o cu []
     /\ field_of o "_kwargs_fixed" = Some (VDict []))
  /\ (exists o, yields Gc 60 (CClass "LOSParam" src_LOSParam_init) None [] (tagged src_LOSParam_init [("los_distributions", VList los_names); ("kwargs_fixed", VNone)]) rg cu o cu []
     /\ field_of o "_kwargs_fixed" = Some (VList [VDict []; VDict []; VDict []; VDict []])
     /\ exists o', yields Gc 60 (CClass "LOSParam" src_LOSParam_init) None [] (tagged src_LOSParam_init [("los_distributions", VNone); ("kwargs_fixed", VNone)]) rg cu o' cu []
        /\ field_of o' "_los_distributions" = Some (VList []) /\ field_of o' "_kwargs_fixed" = Some (VList [])).
Proof. intros rg cu. exact (conj (lens_ctor_default_fixed rg cu) (conj (kin_ctor_default_fixed rg cu) (conj (cosmo_ctor_default_fixed rg cu) (los_ctor_defaults rg cu)))). Qed.
Print Assumptions C01_fixed_defaults_to_empty.
Theorem C01_unsupported_names_refused : forall rg cu,
  (exists ds, call Gc 60 (CClass "CosmoParam" src_CosmoParam_init) None [] (tagged src_CosmoParam_init []) (World rg cu [] ds []) = Exc "ValueError")
  /\ (exists ds, call Gc 60 (CClass "SourceParam" src_SourceParam_init) None [] (tagged src_SourceParam_init []) (World rg cu [] ds []) = Exc "ValueError")
  /\ (exists ds, call Gc 60 (CClass "LOSParam" src_LOSParam_init) None [] (tagged src_LOSParam_init [("los_distributions", VList [VStr "GAUSS"])]) (World rg cu [] ds []) = Exc "ValueError").
Proof. intros rg cu. exact (conj (cosmo_ctor_unsupported rg cu) (conj (source_ctor_unsupported rg cu) (los_ctor_unsupported rg cu))). Qed.
Print Assumptions C01_unsupported_names_refused.
