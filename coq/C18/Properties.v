(* C18 — property theorems only. Source = C18.Src, regenerated from /repo on this run. *)
From Coq Require Import Reals ZArith String List Bool Lra.
Require Import Py.PyAst Py.PyVal Py.PySem Py.XLemmas.
Require Import C18.Src C18.Model.
Import ListNotations.
Open Scope string_scope.
Open Scope R_scope.

(* the flattening keeps exactly the fibres whose value AND weight are finite, in row-major order, with radius = pixel distance from the
   FIRST flux maximum times the fibre scale — on a non-square 2 x 3 map with the peak at (0,2) *)
Theorem C18_flatten : forall d01 d02 d10 d12 dz w01 w02 w10 w11 w12 f00 f01 f02 f10 f11 f12 s,
  f00 < f02 /\ f01 < f02 /\ f10 < f02 /\ f11 < f02 /\ f12 < f02 -> forall rg cu,
  yields G 80 (CFun src_fn_2d_t0_1d) None [vmap d01 d02 d10 d12 dz; wmap w01 w02 w10 w11 w12; fmap f00 f01 f02 f10 f11 f12; num s] [] rg cu
    (VTuple [arr1 [rad s 1; rad s 0; rad s 5; rad s 1]; arr1 [d01; d02; d10; d12]; arr1 [w01; w02; w10; w12]; arr1 [f01; f02; f10; f12]]) cu [].
Proof. exact flatten_spec. Qed.
Print Assumptions C18_flatten.
(* binned dispersion = flux x weight weighted mean of the finite fibres with r_in <= r < r_out (the fibre at r = r_out is excluded);
   the reported weight is sum(w f)/sum(f) *)
Theorem C18_weighted_mean : forall d01 d02 d10 d12 dz w01 w02 w10 w11 w12 f00 f01 f02 f10 f11 f12 s r0 r1 r2,
  f00 < f02 /\ f01 < f02 /\ f10 < f02 /\ f11 < f02 /\ f12 < f02 ->
  r0 <= rad s 0 /\ rad s 0 < r1 /\ r1 <= rad s 1 /\ rad s 1 < r2 /\ r2 <= rad s 5 ->
  0 < w01 * f01 /\ 0 < w02 * f02 /\ 0 < w12 * f12 /\ 0 < f01 /\ 0 < f02 /\ 0 < f12 -> forall rg cu,
  yields G 100 (CFun src_fn_binned_dispersion) None
    [vmap d01 d02 d10 d12 dz; wmap w01 w02 w10 w11 w12; fmap f00 f01 f02 f10 f11 f12; num s; arr1 [r0; r1; r2]] [] rg cu
    (VTuple [arr1 [wmean [F02 d02 w02 f02 s]; wmean [F01 d01 w01 f01 s; F12 d12 w12 f12 s]];
             arr1 [wweight [F02 d02 w02 f02 s]; wweight [F01 d01 w01 f01 s; F12 d12 w12 f12 s]]]) cu [].
Proof. exact binned_dispersion_spec. Qed.
Print Assumptions C18_weighted_mean.

(* for fibre lists of ANY length: *)
Theorem C18_convex : forall l lo hi, l <> [] -> Forall (fun x => 0 < f_w x * f_f x /\ lo <= f_d x <= hi) l -> lo <= wmean l <= hi.
Proof. exact wmean_convex. Qed.
Theorem C18_scale_flux : forall c l, c <> 0 -> sumR (map (fun x => f_w x * f_f x) l) <> 0 -> wmean (map (scale_flux c) l) = wmean l.
Proof. exact wmean_scale_flux. Qed.
Theorem C18_scale_weight : forall c l, c <> 0 -> sumR (map (fun x => f_w x * f_f x) l) <> 0 -> wmean (map (scale_weight c) l) = wmean l.
Proof. exact wmean_scale_weight. Qed.
Theorem C18_uniform : forall v l, (forall x, In x l -> f_d x = v) -> sumR (map (fun x => f_w x * f_f x) l) <> 0 -> wmean l = v.
Proof. exact wmean_uniform. Qed.
Print Assumptions C18_convex.
Example C18_nonvacuous : [Fib 0 200 2 3] <> [] /\ Forall (fun x => 0 < f_w x * f_f x /\ 150 <= f_d x <= 250) [Fib 0 200 2 3].
Proof. split; [discriminate|]. repeat constructor; cbn; lra. Qed.

(* binned velocity: sqrt of the mean of v^2 weighted by flux x w/(2|v|); reported weight sum(w2 f)/sum(f) * 2 v *)
Theorem C18_velocity : forall ra rb rc va vb vc wa wb wc fa fb fc r0 r1 r2,
  r0 <= rb /\ rb < r1 /\ r1 <= ra /\ ra < r2 /\ r1 <= rc /\ rc < r2 -> va <> 0 /\ vb <> 0 /\ vc <> 0 ->
  sumR [w2 wb vb * fb] <> 0 /\ sumR [fb] <> 0 /\ sumR [w2 wa va * fa; w2 wc vc * fc] <> 0 /\ sumR [fa; fc] <> 0 ->
  0 <= v2mean [(vb, wb, fb)] /\ 0 <= v2mean [(va, wa, fa); (vc, wc, fc)] ->
  forall vm wm fm sc rg cu,
  yields (Gv ra rb rc va vb vc wa wb wc fa fb fc) 100 (CFun src_fn_binned_velocity) None [vm; wm; fm; sc; arr1 [r0; r1; r2]] [] rg cu
    (VTuple [arr1 [sqrt (v2mean [(vb, wb, fb)]); sqrt (v2mean [(va, wa, fa); (vc, wc, fc)])];
             arr1 [v2weight [(vb, wb, fb)] * (2 * sqrt (v2mean [(vb, wb, fb)])); v2weight [(va, wa, fa); (vc, wc, fc)] * (2 * sqrt (v2mean [(va, wa, fa); (vc, wc, fc)]))]])
    cu [("_2d_t0_1d", [vm; wm; fm; sc])].
Proof. exact binned_velocity_spec. Qed.
(* total second moment sqrt(v^2 + sigma^2) of the binned velocity and dispersion (each called once, with its own weight map and the shared
   flux map / fibre scale / bins); the two weights are combined in proportion to v^2 and sigma^2; the error is 1/sqrt(weight) *)
Theorem C18_total : forall v1 v2 wv1 wv2 s1 s2 ws1 ws2,
  0 < v1 ^ 2 + s1 ^ 2 /\ 0 < v2 ^ 2 + s2 ^ 2 /\ 0 < weight_total wv1 v1 ws1 s1 /\ 0 < weight_total wv2 v2 ws2 s2 ->
  forall dm wd vm wv fm sc rb rg cu,
  yields (Gt v1 v2 wv1 wv2 s1 s2 ws1 ws2) 100 (CFun src_fn_binned_total) None [dm; wd; vm; wv; fm; sc; rb] [] rg cu
    (VTuple [arr1 [disp_total v1 s1; disp_total v2 s2];
             arr1 [1 / sqrt (weight_total wv1 v1 ws1 s1); 1 / sqrt (weight_total wv2 v2 ws2 s2)]]) cu
    [("dispersion", [dm; wd; fm; sc; rb]); ("velocity", [vm; wv; fm; sc; rb])].
Proof. exact binned_total_spec. Qed.
Theorem C18_total_weight_form : forall wv v ws s, 0 < v ^ 2 + s ^ 2 -> weight_total wv v ws s = (ws * s ^ 2 + wv * v ^ 2) / (v ^ 2 + s ^ 2).
Proof. exact weight_total_form. Qed.
Print Assumptions C18_total.
