(* C18 — IFU radial binning is a flux- and weight-weighted convex mean of finite fibres. Source = C18.Src (regenerated). *)
From Coq Require Import Reals ZArith String List Bool Lra Lia.
Require Import Py.PyAst Py.PyVal Py.PySem Py.XLemmas Py.Unfold Py.Tactics.
Require Import C18.Src.
Import ListNotations.
Open Scope string_scope.
Definition num (r : R) := VNum (Fin r).
Definition arr1 (l : list R) : val := VArr (map num l).
Definition G : fenv := FEnv (fun _ _ => None)
  (fun n => if String.eqb n "_2d_t0_1d" then Some (CFun src_fn_2d_t0_1d)
            else if String.eqb n "binned_dispersion" then Some (CFun src_fn_binned_dispersion)
            else if String.eqb n "binned_velocity" then Some (CFun src_fn_binned_velocity) else None).
Open Scope R_scope.

(* ------------------------------------------------------------------------------------------- *)
(* 1. reference: weighted means over fibre lists of ANY length                                    *)
Record fibre := Fib { f_r : R; f_d : R; f_w : R; f_f : R }.       (* radius, value, weight, flux of a FINITE fibre *)
Fixpoint sumR (l : list R) : R := match l with [] => 0 | x :: r => x + sumR r end.
Definition in_bin (rin rout : R) (x : fibre) : Prop := rin <= f_r x /\ f_r x < rout.
Definition wmean (l : list fibre) : R := sumR (map (fun x => f_d x * f_w x * f_f x) l) / sumR (map (fun x => f_w x * f_f x) l).
Definition wweight (l : list fibre) : R := sumR (map (fun x => f_w x * f_f x) l) / sumR (map f_f l).

Lemma sumR_scale c l : sumR (map (fun x => c * x) l) = c * sumR l.
Proof. induction l as [|x r IH]; cbn [map sumR]; [ring | rewrite IH; ring]. Qed.
Lemma sumR_pos l : l <> [] -> Forall (fun x => 0 < x) l -> 0 < sumR l.
Proof.
  induction l as [|x r IH]; intros Hn Hp; [contradiction|]. inversion Hp; subst. cbn [sumR].
  destruct r as [|y r]; [cbn; lra|]. assert (0 < sumR (y :: r)) by (apply IH; [discriminate | assumption]). lra.
Qed.
(* convexity: with positive weight x flux, the weighted mean lies between the smallest and the largest contributing value *)
Theorem wmean_convex l lo hi : l <> [] -> Forall (fun x => 0 < f_w x * f_f x /\ lo <= f_d x <= hi) l -> lo <= wmean l <= hi.
Proof.
  intros Hn Hall. unfold wmean.
  assert (Hden : 0 < sumR (map (fun x => f_w x * f_f x) l)).
  { apply sumR_pos; [destruct l; [contradiction | discriminate]|]. rewrite Forall_map. eapply Forall_impl; [|exact Hall]. cbn; tauto. }
  assert (Hb : lo * sumR (map (fun x => f_w x * f_f x) l) <= sumR (map (fun x => f_d x * f_w x * f_f x) l) <= hi * sumR (map (fun x => f_w x * f_f x) l)).
  { clear Hn Hden. induction l as [|x r IH]; cbn [map sumR]; [lra|]. inversion Hall as [|? ? [Hp [H1 H2]] Hr]; subst. specialize (IH Hr).
    replace (f_d x * f_w x * f_f x) with (f_d x * (f_w x * f_f x)) by ring. nra. }
  split.
  - apply Rmult_le_reg_r with (sumR (map (fun x => f_w x * f_f x) l)); [assumption|]. unfold Rdiv. rewrite Rmult_assoc, Rinv_l by lra. lra.
  - apply Rmult_le_reg_r with (sumR (map (fun x => f_w x * f_f x) l)); [assumption|]. unfold Rdiv. rewrite Rmult_assoc, Rinv_l by lra. lra.
Qed.
(* multiplying the flux map (or the weight map) by a positive constant changes nothing *)
Definition scale_flux (c : R) (x : fibre) := Fib (f_r x) (f_d x) (f_w x) (c * f_f x).
Definition scale_weight (c : R) (x : fibre) := Fib (f_r x) (f_d x) (c * f_w x) (f_f x).
Theorem wmean_scale_flux c l : c <> 0 -> sumR (map (fun x => f_w x * f_f x) l) <> 0 -> wmean (map (scale_flux c) l) = wmean l.
Proof.
  intros Hc Hd. unfold wmean. rewrite !map_map. cbn [scale_flux f_d f_w f_f].
  rewrite (map_ext (fun x => f_d x * f_w x * (c * f_f x)) (fun x => c * (f_d x * f_w x * f_f x))) by (intros; ring).
  rewrite (map_ext (fun x => f_w x * (c * f_f x)) (fun x => c * (f_w x * f_f x))) by (intros; ring).
  rewrite <- (map_map (fun x => f_d x * f_w x * f_f x) (fun y => c * y)), <- (map_map (fun x => f_w x * f_f x) (fun y => c * y)), !sumR_scale.
  field. split; assumption.
Qed.
Theorem wmean_scale_weight c l : c <> 0 -> sumR (map (fun x => f_w x * f_f x) l) <> 0 -> wmean (map (scale_weight c) l) = wmean l.
Proof.
  intros Hc Hd. unfold wmean. rewrite !map_map. cbn [scale_weight f_d f_w f_f].
  rewrite (map_ext (fun x => f_d x * (c * f_w x) * f_f x) (fun x => c * (f_d x * f_w x * f_f x))) by (intros; ring).
  rewrite (map_ext (fun x => c * f_w x * f_f x) (fun x => c * (f_w x * f_f x))) by (intros; ring).
  rewrite <- (map_map (fun x => f_d x * f_w x * f_f x) (fun y => c * y)), <- (map_map (fun x => f_w x * f_f x) (fun y => c * y)), !sumR_scale.
  field. split; assumption.
Qed.
(* a uniform map returns that uniform value in every populated bin *)
Theorem wmean_uniform v l : (forall x, In x l -> f_d x = v) -> sumR (map (fun x => f_w x * f_f x) l) <> 0 -> wmean l = v.
Proof.
  intros Hu Hd. unfold wmean.
  rewrite (map_ext_in (fun x => f_d x * f_w x * f_f x) (fun x => v * (f_w x * f_f x))) by (intros x Hx; rewrite (Hu x Hx); ring).
  rewrite <- (map_map (fun x => f_w x * f_f x) (fun y => v * y)), sumR_scale. field. assumption.
Qed.
(* total second moment and its weight *)
Definition disp_total (v s : R) : R := sqrt (v ^ 2 + s ^ 2).
Definition weight_total (wv v ws s : R) : R := (ws * s ^ 2 + wv * v ^ 2) / (disp_total v s) ^ 2.
Lemma weight_total_form wv v ws s : 0 < v ^ 2 + s ^ 2 -> weight_total wv v ws s = (ws * s ^ 2 + wv * v ^ 2) / (v ^ 2 + s ^ 2).
Proof. intros H. unfold weight_total, disp_total. rewrite <- (Rsqr_pow2 (sqrt _)), Rsqr_sqrt by lra. reflexivity. Qed.

(* ------------------------------------------------------------------------------------------- *)
(* 2. the real code on a NON-SQUARE 2 x 3 map with the flux peak at (0,2), a non-finite value at (1,1) and a non-finite weight at (0,0) *)
Section Run.
Variables d01 d02 d10 d12 dz : R.               (* fibre values; (0,0) has value dz but a NaN weight, (1,1) has a NaN value *)
Variables w01 w02 w10 w11 w12 : R.
Variables f00 f01 f02 f10 f11 f12 : R.
Variables s r0 r1 r2 : R.
Definition vmap : val := VArr [VArr [num dz; num d01; num d02]; VArr [num d10; VNum NaN; num d12]].
Definition wmap : val := VArr [VArr [VNum NaN; num w01; num w02]; VArr [num w10; num w11; num w12]].
Definition fmap : val := VArr [VArr [num f00; num f01; num f02]; VArr [num f10; num f11; num f12]].
Definition rad (n : Z) : R := sqrt (IZR n) * s.            (* the radius the code computes for squared pixel distance n *)
Hypothesis peak : f00 < f02 /\ f01 < f02 /\ f10 < f02 /\ f11 < f02 /\ f12 < f02.

(* the flattening: finite fibres only, row-major, radius = pixel distance from the first flux maximum times the fibre scale *)
Theorem flatten_spec rg cu :
  yields G 80 (CFun src_fn_2d_t0_1d) None [vmap; wmap; fmap; num s] [] rg cu
    (VTuple [arr1 [rad 1; rad 0; rad 5; rad 1]; arr1 [d01; d02; d10; d12]; arr1 [w01; w02; w10; w12]; arr1 [f01; f02; f10; f12]]) cu [].
Proof.
  destruct peak as (P0 & P1 & P2 & P3 & P4). unfold rad.
  assert (Hmax : Rmax (Rmax (Rmax (Rmax (Rmax f00 f01) f02) f10) f11) f12 = f02) by (unfold Rmax; repeat (destruct (Rle_dec _ _)); lra).
  yields_with ltac:(first [real_fact | (rewrite Hmax; real_fact)]) ltac:(val_eq).
Qed.

Hypothesis bins : r0 <= rad 0 /\ rad 0 < r1 /\ r1 <= rad 1 /\ rad 1 < r2 /\ r2 <= rad 5.
Hypothesis pos : 0 < w01 * f01 /\ 0 < w02 * f02 /\ 0 < w12 * f12 /\ 0 < f01 /\ 0 < f02 /\ 0 < f12.
Definition F01 := Fib (rad 1) d01 w01 f01.  Definition F02 := Fib (rad 0) d02 w02 f02.
Definition F10 := Fib (rad 5) d10 w10 f10.  Definition F12 := Fib (rad 1) d12 w12 f12.
(* bin 1 = [r0, r1) holds the peak fibre only; bin 2 = [r1, r2) holds the two fibres at distance 1; the fibre at r = r2 is excluded *)
Theorem binned_dispersion_spec rg cu :
  yields G 100 (CFun src_fn_binned_dispersion) None [vmap; wmap; fmap; num s; arr1 [r0; r1; r2]] [] rg cu
    (VTuple [arr1 [wmean [F02]; wmean [F01; F12]]; arr1 [wweight [F02]; wweight [F01; F12]]]) cu [].
Proof.
  destruct peak as (P0 & P1 & P2 & P3 & P4). destruct bins as (B0 & B1 & B2 & B3 & B4). destruct pos as (Q0 & Q1 & Q2 & Q3 & Q4 & Q5).
  unfold rad in *. unfold wmean, wweight, F01, F02, F12. cbn [map sumR f_d f_w f_f].
  assert (Hmax : Rmax (Rmax (Rmax (Rmax (Rmax f00 f01) f02) f10) f11) f12 = f02) by (unfold Rmax; repeat (destruct (Rle_dec _ _)); lra).
  yields_with ltac:(first [real_fact | (rewrite Hmax; real_fact)]) ltac:(val_eq).
Qed.
End Run.

(* ------------------------------------------------------------------------------------------- *)
(* 3. binned_velocity on three finite fibres (the flattening is the logged collaborator here; it is the subject of flatten_spec) *)
Section Velocity.
Variables ra rb rc va vb vc wa wb wc fa fb fc : R.
Variables r0 r1 r2 : R.
Definition flat_oracle : callee :=
  COracle (fun args kws w => Ok (VTuple [arr1 [ra; rb; rc]; arr1 [va; vb; vc]; arr1 [wa; wb; wc]; arr1 [fa; fb; fc]],
                                 World (rng w) (cur w) (("_2d_t0_1d", args) :: olog w) (decs w) (pc w))).
Definition Gv : fenv := FEnv (fun _ _ => None) (fun n => if String.eqb n "_2d_t0_1d" then Some flat_oracle else None).
(* weight on v^2 from the weight on v:  w / (2 |v|) *)
Definition w2 (w v : R) : R := w / (2 * Rabs v).
Definition v2mean (l : list (R * R * R)) : R :=       (* (v, w, f) *)
  sumR (map (fun x => match x with (v, w, f) => v ^ 2 * w2 w v * f end) l) / sumR (map (fun x => match x with (v, w, f) => w2 w v * f end) l).
Definition v2weight (l : list (R * R * R)) : R :=
  sumR (map (fun x => match x with (v, w, f) => w2 w v * f end) l) / sumR (map (fun x => match x with (_, _, f) => f end) l).
Hypothesis bins : r0 <= rb /\ rb < r1 /\ r1 <= ra /\ ra < r2 /\ r1 <= rc /\ rc < r2.      (* bin 1 = {b}, bin 2 = {a, c} *)
Hypothesis nz : va <> 0 /\ vb <> 0 /\ vc <> 0.
Hypothesis den : sumR [w2 wb vb * fb] <> 0 /\ sumR [fb] <> 0 /\ sumR [w2 wa va * fa; w2 wc vc * fc] <> 0 /\ sumR [fa; fc] <> 0.
Hypothesis nonneg : 0 <= v2mean [(vb, wb, fb)] /\ 0 <= v2mean [(va, wa, fa); (vc, wc, fc)].
Theorem binned_velocity_spec vm wm fm sc rg cu :
  yields Gv 100 (CFun src_fn_binned_velocity) None [vm; wm; fm; sc; arr1 [r0; r1; r2]] [] rg cu
    (VTuple [arr1 [sqrt (v2mean [(vb, wb, fb)]); sqrt (v2mean [(va, wa, fa); (vc, wc, fc)])];
             arr1 [v2weight [(vb, wb, fb)] * (2 * sqrt (v2mean [(vb, wb, fb)])); v2weight [(va, wa, fa); (vc, wc, fc)] * (2 * sqrt (v2mean [(va, wa, fa); (vc, wc, fc)]))]])
    cu [("_2d_t0_1d", [vm; wm; fm; sc])].
Proof.
  destruct bins as (B0 & B1 & B2 & B3 & B4 & B5). destruct nz as (Na & Nb & Nc). destruct den as (D1 & D2 & D3 & D4). destruct nonneg as (P1 & P2).
  assert (Aa : 0 < Rabs va) by (apply Rabs_pos_lt; assumption). assert (Ab : 0 < Rabs vb) by (apply Rabs_pos_lt; assumption).
  assert (Ac : 0 < Rabs vc) by (apply Rabs_pos_lt; assumption).
  unfold v2mean, v2weight, w2 in *. cbn [map sumR] in *.
  yields_with real_fact ltac:(val_eq).
Qed.
End Velocity.

(* ------------------------------------------------------------------------------------------- *)
(* 4. binned_total: sqrt(v^2 + sigma^2) of the binned velocity and dispersion, weights combined in proportion to v^2 and sigma^2 *)
Section Total.
Variables v1 v2 wv1 wv2 s1 s2 ws1 ws2 : R.
Definition tag_oracle (tag : string) (v : val) : callee :=
  COracle (fun args kws w => Ok (v, World (rng w) (cur w) ((tag, args) :: olog w) (decs w) (pc w))).
Definition Gt : fenv := FEnv (fun _ _ => None)
  (fun n => if String.eqb n "binned_velocity" then Some (tag_oracle "velocity" (VTuple [arr1 [v1; v2]; arr1 [wv1; wv2]]))
            else if String.eqb n "binned_dispersion" then Some (tag_oracle "dispersion" (VTuple [arr1 [s1; s2]; arr1 [ws1; ws2]])) else None).
Hypothesis pos : 0 < v1 ^ 2 + s1 ^ 2 /\ 0 < v2 ^ 2 + s2 ^ 2 /\ 0 < weight_total wv1 v1 ws1 s1 /\ 0 < weight_total wv2 v2 ws2 s2.
Theorem binned_total_spec dm wd vm wv fm sc rb rg cu :
  yields Gt 100 (CFun src_fn_binned_total) None [dm; wd; vm; wv; fm; sc; rb] [] rg cu
    (VTuple [arr1 [disp_total v1 s1; disp_total v2 s2];
             arr1 [1 / sqrt (weight_total wv1 v1 ws1 s1); 1 / sqrt (weight_total wv2 v2 ws2 s2)]]) cu
    [("dispersion", [dm; wd; fm; sc; rb]); ("velocity", [vm; wv; fm; sc; rb])].
Proof.
  destruct pos as (P1 & P2 & P3 & P4).
  assert (S1 : 0 < sqrt (v1 ^ 2 + s1 ^ 2)) by (apply sqrt_lt_R0; assumption). assert (S2 : 0 < sqrt (v2 ^ 2 + s2 ^ 2)) by (apply sqrt_lt_R0; assumption).
  assert (T1 : 0 < sqrt (weight_total wv1 v1 ws1 s1)) by (apply sqrt_lt_R0; assumption).
  assert (T2 : 0 < sqrt (weight_total wv2 v2 ws2 s2)) by (apply sqrt_lt_R0; assumption).
  unfold weight_total, disp_total in *.
  assert (N1 : sqrt (v1 ^ 2 + s1 ^ 2) ^ 2 <> 0) by (apply pow_nonzero; lra). assert (N2 : sqrt (v2 ^ 2 + s2 ^ 2) ^ 2 <> 0) by (apply pow_nonzero; lra).
  yields_with real_fact ltac:(val_eq).
Qed.
End Total.
