PyAst.vo PyAst.glob PyAst.v.beautified PyAst.required_vo: PyAst.v 
PyAst.vio: PyAst.v 
PyAst.vos PyAst.vok PyAst.required_vos: PyAst.v 
PyVal.vo PyVal.glob PyVal.v.beautified PyVal.required_vo: PyVal.v PyAst.vo
PyVal.vio: PyVal.v PyAst.vio
PyVal.vos PyVal.vok PyVal.required_vos: PyVal.v PyAst.vos
PySem.vo PySem.glob PySem.v.beautified PySem.required_vo: PySem.v PyAst.vo PyVal.vo
PySem.vio: PySem.v PyAst.vio PyVal.vio
PySem.vos PySem.vok PySem.required_vos: PySem.v PyAst.vos PyVal.vos
XLemmas.vo XLemmas.glob XLemmas.v.beautified XLemmas.required_vo: XLemmas.v PyAst.vo PyVal.vo PySem.vo
XLemmas.vio: XLemmas.v PyAst.vio PyVal.vio PySem.vio
XLemmas.vos XLemmas.vok XLemmas.required_vos: XLemmas.v PyAst.vos PyVal.vos PySem.vos
Unfold.vo Unfold.glob Unfold.v.beautified Unfold.required_vo: Unfold.v PyAst.vo PyVal.vo PySem.vo
Unfold.vio: Unfold.v PyAst.vio PyVal.vio PySem.vio
Unfold.vos Unfold.vok Unfold.required_vos: Unfold.v PyAst.vos PyVal.vos PySem.vos
Tactics.vo Tactics.glob Tactics.v.beautified Tactics.required_vo: Tactics.v PyAst.vo PyVal.vo PySem.vo XLemmas.vo
Tactics.vio: Tactics.v PyAst.vio PyVal.vio PySem.vio XLemmas.vio
Tactics.vos Tactics.vok Tactics.required_vos: Tactics.v PyAst.vos PyVal.vos PySem.vos XLemmas.vos
Interp.vo Interp.glob Interp.v.beautified Interp.required_vo: Interp.v 
Interp.vio: Interp.v 
Interp.vos Interp.vok Interp.required_vos: Interp.v 
Corr.vo Corr.glob Corr.v.beautified Corr.required_vo: Corr.v PyAst.vo PyVal.vo PySem.vo XLemmas.vo Tactics.vo
Corr.vio: Corr.v PyAst.vio PyVal.vio PySem.vio XLemmas.vio Tactics.vio
Corr.vos Corr.vok Corr.required_vos: Corr.v PyAst.vos PyVal.vos PySem.vos XLemmas.vos Tactics.vos
Defaults.vo Defaults.glob Defaults.v.beautified Defaults.required_vo: Defaults.v PyAst.vo
Defaults.vio: Defaults.v PyAst.vio
Defaults.vos Defaults.vok Defaults.required_vos: Defaults.v PyAst.vos
Sym.vo Sym.glob Sym.v.beautified Sym.required_vo: Sym.v PyAst.vo PyVal.vo PySem.vo XLemmas.vo Unfold.vo
Sym.vio: Sym.v PyAst.vio PyVal.vio PySem.vio XLemmas.vio Unfold.vio
Sym.vos Sym.vok Sym.required_vos: Sym.v PyAst.vos PyVal.vos PySem.vos XLemmas.vos Unfold.vos
ArrN.vo ArrN.glob ArrN.v.beautified ArrN.required_vo: ArrN.v PyAst.vo PyVal.vo PySem.vo XLemmas.vo Unfold.vo Sym.vo
ArrN.vio: ArrN.v PyAst.vio PyVal.vio PySem.vio XLemmas.vio Unfold.vio Sym.vio
ArrN.vos ArrN.vok ArrN.required_vos: ArrN.v PyAst.vos PyVal.vos PySem.vos XLemmas.vos Unfold.vos Sym.vos
