(* Correspondence of PySem with CPython on concrete inputs.
   The harness (harness/corr_pysem.py) runs a serialised function in CPython on short-decimal inputs, prints the
   receiver, the arguments and the observed result as [val] terms, and states

       corr_ok (fun ds => call G fuel (CFun src_f) self args kws (World stream 0 [] ds [])) observed draws tol

   i.e. some list of answers to the real-number decisions, every one of which is TRUE (the path condition holds),
   drives the interpreter to a value that is structurally the observed one with every finite numeric leaf within
   [tol * (1 + |observed|)], having consumed exactly as many raw variates as CPython did.  The answers are found by
   asking the interpreter ([Need P]) and deciding P by lra / certified interval arithmetic; closeness is certified by
   Interval.  A lemma that does not check is a disagreement between the meaning PySem gives to the source and what
   CPython does with it. *)
From Coq Require Import Reals ZArith String List Bool Lra.
From Interval Require Import Tactic.
Require Import Py.PyAst Py.PyVal Py.PySem Py.XLemmas Py.Tactics.
Import ListNotations.
Open Scope string_scope.

Fixpoint assoc_c {A} (k : string) (l : list (string * A)) : option A :=
  match l with [] => None | (k', v) :: t => if String.eqb k k' then Some v else assoc_c k t end.
Fixpoint lookup_m (cls m : string) (mt : list (string * list (string * callee))) : option callee :=
  match mt with
  | [] => None
  | (c, t) :: r => if String.eqb c cls then match assoc_c m t with Some x => Some x | None => lookup_m cls m r end else lookup_m cls m r
  end.
Definition mk_fenv (mt : list (string * list (string * callee))) (gt : list (string * callee)) : fenv :=
  FEnv (fun cls m => lookup_m cls m mt) (fun n => assoc_c n gt).
Definition stream (l : list R) : nat -> R := fun k => nth k l 0%R.
Definition num (r : R) := VNum (Fin r).
Definition dict (l : list (string * val)) := VDict (map (fun kv => (VStr (fst kv), snd kv)) l).

Open Scope R_scope.
Definition near (tol x y : R) : Prop := Rabs (x - y) <= tol * (1 + Rabs y).
Definition xnear (tol : R) (a b : xreal) : Prop :=
  match a, b with
  | Fin x, Fin y => near tol x y
  | NegInf, NegInf | PosInf, PosInf | NaN, NaN => True
  | _, _ => False end.
(* [a] = what PySem computed, [b] = what CPython returned *)
Fixpoint close (tol : R) (a b : val) {struct a} : Prop :=
  let seqs := fix seqs (l1 l2 : list val) : Prop :=
      match l1, l2 with [], [] => True | p :: r, q :: s => close tol p q /\ seqs r s | _, _ => False end in
  match a, b with
  | VNone, VNone => True
  | VBool x, VBool y => x = y
  | VInt x, VInt y => x = y
  | VInt x, VNum (Fin y) => near tol (IZR x) y           (* an int where numpy returned a float (0 vs 0.0) *)
  | VNum x, VNum y => xnear tol x y
  | VNum (Fin x), VInt y => near tol x (IZR y)
  | VStr x, VStr y => x = y
  | VList x, VList y | VTuple x, VTuple y | VArr x, VArr y => seqs x y
  | VArr x, VList y | VList x, VArr y => seqs x y         (* rows of a 2-d array carry either tag in PySem *)
  | VDict x, VDict y =>
      (fix go (l1 l2 : list (val * val)) : Prop :=
         match l1, l2 with [], [] => True
         | (k, v) :: r, (k', v') :: s => close tol k k' /\ close tol v v' /\ go r s
         | _, _ => False end) x y
  | VObj c f, VObj c' f' =>
      c = c' /\
      (fix go (l1 l2 : list (string * val)) : Prop :=
         match l1, l2 with [], [] => True
         | (k, v) :: r, (k', v') :: s => k = k' /\ close tol v v' /\ go r s
         | _, _ => False end) f f'
  | VMod x, VMod y => x = y
  | _, _ => False
  end.

(* external calls (numpy.linalg, scipy, astropy, ...) are REPLAYED: the k-th call of a tag returns the k-th value CPython's call
   returned, and the call is logged with its arguments, which are then compared with the arguments CPython passed *)
Definition count_tag (t : string) (l : list (string * list val)) : nat := length (filter (fun e => String.eqb (fst e) t) l).
Definition replay (tag : string) (results : list val) : callee :=
  COracle (fun args kws w =>
    match nth_error results (count_tag tag (olog w)) with
    | Some v => Ok (v, World (rng w) (cur w) ((tag, args ++ map snd kws)%list :: olog w) (decs w) (pc w))
    | None => Stuck ("replay exhausted: " ++ tag) end).
(* the same for a method of an opaque object: the receiver is dropped from the logged arguments *)
Definition replay_m (tag : string) (results : list val) : callee :=
  COracle (fun args kws w =>
    match nth_error results (count_tag tag (olog w)) with
    | Some v => Ok (v, World (rng w) (cur w) ((tag, tl args ++ map snd kws)%list :: olog w) (decs w) (pc w))
    | None => Stuck ("replay exhausted: " ++ tag) end).
Fixpoint close_log (tol : R) (l1 l2 : list (string * list val)) : Prop :=
  match l1, l2 with
  | [], [] => True
  | (t, a) :: r, (t', a') :: s => t = t' /\ close tol (VList a) (VList a') /\ close_log tol r s
  | _, _ => False end.
Definition corr_ok (mk : list bool -> res (val * world)) (expected : val) (draws : nat) (tol : R) : Prop :=
  exists ds v w', mk ds = Ok (v, w') /\ decs w' = [] /\ cur w' = draws /\ holds (pc w') /\ close tol v expected.
(* with external calls: additionally the logged calls (in call order) are the calls CPython made, argument by argument *)
Definition corr_ok_log (mk : list bool -> res (val * world)) (expected : val) (draws : nat) (tol : R) (calls : list (string * list val)) : Prop :=
  exists ds v w', mk ds = Ok (v, w') /\ decs w' = [] /\ cur w' = draws /\ holds (pc w') /\ close tol v expected /\ close_log tol (rev (olog w')) calls.
(* CPython raised: the interpreter ends in the same exception kind (the answers are justified by the tactic that finds them;
   an exception result carries no path condition, so they are not part of the statement) *)
Definition corr_exc (mk : list bool -> res (val * world)) (kind : string) : Prop := exists ds, mk ds = Exc kind.

Ltac ivl := interval with (i_prec 80).
Ltac num_fact2 :=
  norm_dec; norm_max; unfold log10 in *;
  first [ lra | ivl
        | apply Rle_not_lt; first [lra | ivl] | apply Rlt_not_le; first [lra | ivl]
        | apply Rlt_not_eq; first [lra | ivl] | apply Rgt_not_eq; first [lra | ivl]
        | (intro; lra) ].
Lemma near_refl tol x : 0 <= tol -> near tol x x.
Proof. intros H. unfold near. replace (x - x) with 0 by ring. rewrite Rabs_R0. apply Rmult_le_pos; [exact H|]. pose proof (Rabs_pos x). lra. Qed.
Ltac close_leaf :=
  match goal with
  | |- near _ ?x ?x => apply near_refl; lra         (* a value passed through untouched *)
  | |- near _ _ _ => unfold near, Rminus; norm_dec; norm_max; unfold log10; first [ ivl | (rewrite Rabs_right by lra; lra) | lra ]
  | |- True => exact I
  | |- @eq _ _ _ => reflexivity
  end.
Ltac close_goal :=
  lazy [close xnear close_log rev app olog]; repeat match goal with |- _ /\ _ => split end;
  first [ close_leaf | match goal with |- ?g => fail 10000 "PySem result differs from CPython:" g end ].
(* [find_answers2 mk ds k]: extend the answer list until the interpreter no longer stops at [Need]; failures of the continuation
   escape with level 10000 so that they are reported as what they are and not as an undecided fact *)
Ltac find_answers2 mk ds k :=
  let r := RUN_ (mk ds) in
  lazymatch r with
  | Need ?P =>
      (* the fact is proved and dropped again (the path condition is re-proved at the end): a growing context slows lra down *)
      first [ (let H := fresh "Hdec" in assert (H : P) by num_fact2; clear H;
               let ds' := eval cbv in (ds ++ [true])%list in find_answers2 mk ds' k)
            | (let H := fresh "Hdec" in assert (H : ~ P) by num_fact2; clear H;
               let ds' := eval cbv in (ds ++ [false])%list in find_answers2 mk ds' k)
            | fail 10000 "undecided fact" P ]
  | _ => k ds
  end.
Ltac corr_case :=
  lazymatch goal with
  | |- corr_ok ?mk ?exp ?dr ?tol =>
      find_answers2 mk (@nil bool)
        ltac:(fun ds =>
                let r := RUN_ (mk ds) in
                lazymatch r with
                | Ok _ => idtac
                | _ => fail 10000 "PySem does not produce a value where CPython returned one:" r
                end;
                exists ds; eexists; eexists; split;
                [ run; reflexivity
                | split; [first [reflexivity | fail 10000 "unconsumed answers"]
                  | split; [first [reflexivity | match goal with |- ?g => fail 10000 "number of raw variates consumed differs:" g end]
                    | split;
                      [ cbn [decs cur olog pc holds]; repeat match goal with |- _ /\ _ => split end;
                        first [ exact I | num_fact2 | match goal with |- ?g => fail 10000 "path condition not provable:" g end ]
                      | close_goal ]]] ])
  | |- corr_ok_log ?mk ?exp ?dr ?tol ?calls =>
      find_answers2 mk (@nil bool)
        ltac:(fun ds =>
                let r := RUN_ (mk ds) in
                lazymatch r with
                | Ok _ => idtac
                | _ => fail 10000 "PySem does not produce a value where CPython returned one:" r
                end;
                exists ds; eexists; eexists; split;
                [ run; reflexivity
                | split; [first [reflexivity | fail 10000 "unconsumed answers"]
                  | split; [first [reflexivity | match goal with |- ?g => fail 10000 "number of raw variates consumed differs:" g end]
                    | split;
                      [ cbn [decs cur olog pc holds]; repeat match goal with |- _ /\ _ => split end;
                        first [ exact I | num_fact2 | match goal with |- ?g => fail 10000 "path condition not provable:" g end ]
                      | split; close_goal ]]] ])
  | |- corr_exc ?mk ?kind =>
      find_answers2 mk (@nil bool)
        ltac:(fun ds => exists ds; first [ run; reflexivity
                                         | let r := RUN_ (mk ds) in fail 10000 "CPython raised" kind "but PySem gives" r ])
  end.
