From Coq Require Import Reals ZArith String List Bool Lra.
Require Import Py.PyAst Py.PyVal Py.PySem.
Import ListNotations.
Open Scope string_scope.

Definition seq_out (r : res (outcome * world)) (k : env -> world -> res (outcome * world)) : res (outcome * world) :=
  do ow <- r; match fst ow with ONormal ρ' => k ρ' (snd ow) | _ => Ok ow end.

Lemma run_stmts_app step l1 l2 ρ w :
  run_stmts step (l1 ++ l2) ρ w = seq_out (run_stmts step l1 ρ w) (fun ρ' w' => run_stmts step l2 ρ' w').
Proof.
  revert ρ w; induction l1 as [|s l1 IH]; intros ρ w; [reflexivity|].
  cbn [app run_stmts]. unfold seq_out in *.
  destruct (step s ρ w) as [[o w'] | | | ]; cbn [bind]; try reflexivity.
  destruct o; cbn [fst snd]; [apply IH|reflexivity|reflexivity].
Qed.
Lemma run_stmts_one step s ρ w :
  run_stmts step [s] ρ w = seq_out (step s ρ w) (fun ρ' w' => Ok (ONormal ρ', w')).
Proof. reflexivity. Qed.

Lemma run_stmts_cons step s rest ρ w :
  run_stmts step (s :: rest) ρ w = seq_out (step s ρ w) (fun ρ' w' => run_stmts step rest ρ' w').
Proof. reflexivity. Qed.

Section U.
Variable G : fenv.
Definition tails (cls m : string) : option oracle := match methods G cls m with Some (CTail o) => Some o | _ => None end.
(* running a method body for its effect on the receiver (statement-level x.m(args)) *)
Definition runms (f : nat) (cls m : string) : option (val -> list val -> world -> res (val * world)) :=
  match methods G cls m with
  | Some (CFun fd) =>
      if f_static fd then None else
      Some (fun self args w =>
              do b <- bind_params (f_params fd) (self :: args) [] (fun de => do r <- eval G f de [] w; Ok (fst r));
              do ρ0 <- match snd b, f_kwarg fd with
                       | [], None => Ok (fst b)
                       | rest, Some k => Ok ((fst b ++ [(k, kw_dict rest)])%list)
                       | _ :: _, None => Exc "TypeError" end;
              do ow <- exec G f (f_body fd) ρ0 w;
              match fst ow with
              | ONormal ρ' => Ok (match lookup "self" ρ' with Some o => o | None => self end, snd ow)
              | OReturn _ => Ok (self, snd ow)
              | OTail o targs tkws => do r <- o targs tkws (snd ow); Ok (self, snd r)
              end)
  | _ => None end.
Lemma exec_S f ss ρ w : exec G (S f) ss ρ w = run_stmts (exec_stmt tails (runms f) (eval G f) (evals_with (eval G f)) (exec G f) f) ss ρ w.
Proof. reflexivity. Qed.
Lemma call_fun f fd self args kws w :
  call G (S f) (CFun fd) self args kws w =
  (let args' := match self with Some s => if f_static fd then args else s :: args | None => args end in
   do b <- bind_params (f_params fd) args' kws (fun de => do r <- eval G f de [] w; Ok (fst r));
   do ρ0 <- match snd b, f_kwarg fd with
            | [], None => Ok (fst b)
            | rest, Some k => Ok ((fst b ++ [(k, kw_dict rest)])%list)
            | _ :: _, None => Exc "TypeError" end;
   do ow <- exec G f (f_body fd) ρ0 w;
   match fst ow with
   | OReturn v => Ok (v, snd ow)
   | ONormal ρ' =>
       if String.eqb (f_name fd) "__init__" then Ok (match lookup "self" ρ' with Some o => o | None => VNone end, snd ow)
       else Ok (VNone, snd ow)
   | OTail o targs tkws => o targs tkws (snd ow)
   end).
Proof. reflexivity. Qed.
End U.

(* loops: an invariant indexed by the iteration number *)
Lemma iter_loop_inv (step : val -> Z -> env -> world -> res (outcome * world)) (Inv : nat -> env -> world -> Prop) :
  forall items k ρ w,
  (forall j x ρ w, nth_error items j = Some x -> Inv (k + j) ρ w ->
      exists ρ' w', step x (Z.of_nat (k + j)) ρ w = Ok (ONormal ρ', w') /\ Inv (S (k + j)) ρ' w') ->
  Inv k ρ w ->
  exists ρ' w', iter_loop step items (Z.of_nat k) ρ w = Ok (ONormal ρ', w') /\ Inv (k + length items) ρ' w'.
Proof.
  induction items as [|x r IH]; intros k ρ w Hstep H0.
  - exists ρ, w. cbn. rewrite Nat.add_0_r. auto.
  - cbn [iter_loop].
    destruct (Hstep 0%nat x ρ w eq_refl) as (ρ1 & w1 & E & I1); [now rewrite Nat.add_0_r|].
    rewrite Nat.add_0_r in E, I1. rewrite E. cbn [bind fst snd].
    replace (Z.of_nat k + 1)%Z with (Z.of_nat (S k)) by (rewrite Nat2Z.inj_succ; reflexivity).
    destruct (IH (S k) ρ1 w1) as (ρ' & w' & E' & I'); [|exact I1|].
    + intros j y ρ2 w2 Hj Hi. destruct (Hstep (S j) y ρ2 w2 Hj) as (a & b & E2 & I2).
      * now replace (k + S j)%nat with (S k + j)%nat by (cbn; rewrite <- plus_n_Sm; reflexivity).
      * exists a, b. replace (k + S j)%nat with (S k + j)%nat in E2, I2 by (cbn; rewrite <- plus_n_Sm; reflexivity). auto.
    + exists ρ', w'. split; [exact E'|]. cbn [length]. now replace (k + S (length r))%nat with (S k + length r)%nat by (cbn; rewrite <- plus_n_Sm; reflexivity).
Qed.
