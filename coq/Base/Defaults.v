(* Mutable default arguments.  PySem evaluates a default expression afresh at every call; CPython evaluates it ONCE, when the function is
   defined, and shares the object between calls.  The two agree as long as no function mutates, in place, a parameter whose default is a
   mutable object ([], {}, a call, a comprehension).  [defaults_safe] decides that syntactically on the serialised functions: a direct in-place
   write through the parameter name (item / slice assignment, augmented assignment, or a mutating list / dict method).  It does not follow
   the object into callees or attributes (stated limit). *)
From Coq Require Import ZArith String List Bool.
Require Import Py.PyAst.
Import ListNotations.
Open Scope string_scope.

Definition mutable_default (e : expr) : bool :=
  match e with EList _ | EDict _ | ECall _ _ _ | EListComp _ _ _ _ => true | _ => false end.
Definition mutators : list string :=
  ["append"; "extend"; "insert"; "pop"; "remove"; "clear"; "update"; "setdefault"; "sort"; "reverse"; "popitem"].
Definition is_mutator (m : string) : bool := existsb (String.eqb m) mutators.
Definition call_mutates (p : string) (e : expr) : bool :=
  match e with ECall (EAttr (EName x) m) _ _ => String.eqb x p && is_mutator m | _ => false end.
Fixpoint stmt_mutates (p : string) (s : stmt) {struct s} : bool :=
  let any := fix any (l : list stmt) : bool := match l with [] => false | x :: r => stmt_mutates p x || any r end in
  match s with
  | SAssign (ESub (EName x) _) _ => String.eqb x p
  | SAssign _ e => call_mutates p e
  | SAug _ (EName x) _ => String.eqb x p
  | SAug _ (ESub (EName x) _) _ => String.eqb x p
  | SExpr e => call_mutates p e
  | SIf _ t e => any t || any e
  | SFor _ _ b => any b
  | STry b h => any b || any h
  | SWith _ _ b => any b
  | _ => false
  end.
Definition body_mutates (p : string) (l : list stmt) : bool := existsb (stmt_mutates p) l.
Definition defaults_safe (fd : fundef) : bool :=
  forallb (fun pd => match snd pd with
                     | Some e => if mutable_default e then negb (body_mutates (fst pd) (f_body fd)) else true
                     | None => true end) (f_params fd).
Definition all_defaults_safe (l : list (string * fundef)) : bool := forallb (fun kv => defaults_safe (snd kv)) l.
(* the functions that HAVE a mutable default (reported, so that the statement is not vacuous without saying so) *)
Definition with_mutable_default (l : list (string * fundef)) : list string :=
  map fst (filter (fun kv => existsb (fun pd => match snd pd with Some e => mutable_default e | None => false end) (f_params (snd kv))) l).
