(* Arrays of ANY length: what the numpy fragment of PySem computes on vectors / matrices given as lists of reals of arbitrary (symbolic) length.
   Each lemma is proved by induction on the list; the decisions an elementwise operation asks for (0 <= x under a square root, c = 0 under a
   division) are consumed from the world's answer list as a block [rpt b (length xs)] and recorded in the path condition. *)
From Coq Require Import Reals ZArith String List Bool Lia Lra.
Require Import Py.PyAst Py.PyVal Py.PySem Py.XLemmas Py.Unfold Py.Sym.
Import ListNotations.
Open Scope string_scope.

(* folded constructors of symbolic data (blacklisted when the interpreter is run, so that they stay syntactically visible) *)
Definition nums (xs : list R) : list val := map snum xs.
Definition rowsv (m : list (list R)) : list val := map (fun r => VList (nums r)) m.
Definition vecR (xs : list R) : val := VArr (nums xs).
Definition matR (m : list (list R)) : val := VArr (rowsv m).
Definition rpt (b : bool) (n : nat) : list bool := repeat b n.
Definition cat (a b : list bool) : list bool := (a ++ b)%list.
Definition map2 {A B C} (f : A -> B -> C) (l1 : list A) (l2 : list B) : list C := map (fun p => f (fst p) (snd p)) (combine l1 l2).
Definition sumR (xs : list R) : R := fold_right Rplus 0%R xs.
Definition dotR (xs ys : list R) : R := sumR (map2 Rmult xs ys).
Definition mvR (m : list (list R)) (v : list R) : list R := map (fun r => dotR r v) m.
Definition outerR (u v : list R) : list (list R) := map (fun x => map (fun y => (x * y)%R) v) u.
Definition setw (w : world) (d : list bool) (p : list Prop) : world := World (rng w) (cur w) (olog w) d p.

Lemma nums_length xs : length (nums xs) = length xs. Proof. apply map_length. Qed.
Lemma rowsv_length m : length (rowsv m) = length m. Proof. apply map_length. Qed.

(* the local iteration functions of bcast / map1, as top-level functions *)
Fixpoint map_lw (l : list val) (g : val -> world -> res (val * world)) (w : world) : res (list val * world) :=
  match l with [] => Ok ([], w) | x :: r => do xw <- g x w; do rw <- map_lw r g (snd xw); Ok (fst xw :: fst rw, snd rw) end.
Section ZipL.
Variable g : val -> val -> world -> res (val * world).
Fixpoint zip_lw (l1 l2 : list val) (w : world) : res (list val * world) :=
  match l1, l2 with
  | [], [] => Ok ([], w)
  | x :: r, y :: s => do xw <- g x y w; do rw <- zip_lw r s (snd xw); Ok (fst xw :: fst rw, snd rw)
  | _, _ => Exc "ValueError" end.
End ZipL.

Lemma map_lw_pure (h : val -> val) g l w : (forall x w', In x l -> g x w' = Ok (h x, w')) -> map_lw l g w = Ok (map h l, w).
Proof.
  induction l as [|x r IH]; intros H; [reflexivity|]. cbn [map_lw map]. rewrite H by (left; reflexivity). cbn [bind fst snd].
  rewrite IH by (intros; apply H; right; assumption). reflexivity.
Qed.
Lemma zip_lw_pure (h : val -> val -> val) g l1 l2 w : length l1 = length l2 ->
  (forall x y w', In (x, y) (combine l1 l2) -> g x y w' = Ok (h x y, w')) -> zip_lw g l1 l2 w = Ok (map2 h l1 l2, w).
Proof.
  revert l2; induction l1 as [|x r IH]; intros [|y s] L H; try discriminate; [reflexivity|].
  cbn [zip_lw]. rewrite H by (left; reflexivity). cbn [bind fst snd]. rewrite (IH s) by (try (cbn in L; lia); intros; apply H; right; assumption). reflexivity.
Qed.

(* ---- scalar (op) scalar on finite numbers ---- *)
Definition opR (o : binop) (x y : R) : R := match o with Add => x + y | Sub => x + - y | Mul => x * y | _ => 0 end%R.
Definition pure_op (o : binop) : bool := match o with Add | Sub | Mul => true | _ => false end.
Lemma do_binop_num o x y w : pure_op o = true -> do_binop o (snum x) (snum y) w = Ok (snum (opR o x y), w).
Proof. destruct o; try discriminate; reflexivity. Qed.
Lemma bcast_ss f o x y w : pure_op o = true -> bcast (S f) o (snum x) (snum y) w = Ok (snum (opR o x y), w).
Proof. intros H. cbn [bcast snum]. apply (do_binop_num o x y w H). Qed.

(* ---- vector (op) scalar, scalar (op) vector, vector (op) vector ---- *)
Lemma bcast_vs_gen f o (l : list val) (b : val) w : (match b with VList _ => false | _ => true end) = true ->
  bcast (S f) o (VList l) b w = (do r <- map_lw l (fun x w => bcast f o x b w) w; Ok (VList (fst r), snd r)).
Proof. intros H. destruct b; try discriminate; destruct l as [|p0 [|q0 t0]]; reflexivity. Qed.
Lemma bcast_sv_gen f o (a : val) (l : list val) w : (match a with VList _ => false | _ => true end) = true ->
  bcast (S f) o a (VList l) w = (do r <- map_lw l (fun y w => bcast f o a y w) w; Ok (VList (fst r), snd r)).
Proof. intros H. destruct a; try discriminate; reflexivity. Qed.
Lemma map_snum_In x xs : In x (map snum xs) -> exists r, x = snum r.
Proof. intros H. apply in_map_iff in H. destruct H as (r & <- & _). eauto. Qed.
Lemma bcast_vs f o xs c w : pure_op o = true ->
  bcast (S (S f)) o (VList (nums xs)) (snum c) w = Ok (VList (nums (map (fun x => opR o x c) xs)), w).
Proof.
  intros H. rewrite bcast_vs_gen by reflexivity. unfold nums.
  rewrite (map_lw_pure (fun v => match v with VNum (Fin x) => snum (opR o x c) | _ => v end)).
  - cbn [bind fst snd]. rewrite !map_map. reflexivity.
  - intros x w' Hx. apply map_snum_In in Hx. destruct Hx as (r & ->). apply bcast_ss. exact H.
Qed.
Lemma bcast_sv f o c ys w : pure_op o = true ->
  bcast (S (S f)) o (snum c) (VList (nums ys)) w = Ok (VList (nums (map (fun y => opR o c y) ys)), w).
Proof.
  intros H. rewrite bcast_sv_gen by reflexivity. unfold nums.
  rewrite (map_lw_pure (fun v => match v with VNum (Fin y) => snum (opR o c y) | _ => v end)).
  - cbn [bind fst snd]. rewrite !map_map. reflexivity.
  - intros x w' Hx. apply map_snum_In in Hx. destruct Hx as (r & ->). apply bcast_ss. exact H.
Qed.

Lemma bcast_vv_gen f o xs ys w : length xs = length ys ->
  bcast (S f) o (VList (nums xs)) (VList (nums ys)) w = (do r <- zip_lw (bcast f o) (nums xs) (nums ys) w; Ok (VList (fst r), snd r)).
Proof.
  intros L. destruct xs as [|x [|x' xs']]; destruct ys as [|y [|y' ys']]; try discriminate; reflexivity.
Qed.
Lemma combine_nums_In p xs ys : In p (combine (nums xs) (nums ys)) -> exists a b, p = (snum a, snum b).
Proof.
  revert ys; induction xs as [|x r IH]; intros [|y s] H; cbn in H; try contradiction.
  destruct H as [<- | H]; [eauto | exact (IH s H)].
Qed.
Lemma map2_nums (h : R -> R -> R) xs ys :
  map2 (fun a b => match a, b with VNum (Fin x), VNum (Fin y) => snum (h x y) | _, _ => a end) (nums xs) (nums ys) = nums (map2 h xs ys).
Proof.
  unfold map2, nums. revert ys; induction xs as [|x r IH]; intros [|y s]; try reflexivity. cbn [combine map fst snd]. f_equal. apply IH.
Qed.
Lemma bcast_vv f o xs ys w : pure_op o = true -> length xs = length ys ->
  bcast (S (S f)) o (VList (nums xs)) (VList (nums ys)) w = Ok (VList (nums (map2 (opR o) xs ys)), w).
Proof.
  intros H L. rewrite bcast_vv_gen by exact L.
  rewrite (zip_lw_pure (fun a b => match a, b with VNum (Fin x), VNum (Fin y) => snum (opR o x y) | _, _ => a end)).
  - cbn [bind fst snd]. rewrite map2_nums. reflexivity.
  - rewrite !nums_length. exact L.
  - intros x y w' Hx. apply combine_nums_In in Hx. destruct Hx as (a & b & E). injection E as -> ->. apply bcast_ss. exact H.
Qed.
Lemma map2_length {A B C} (f : A -> B -> C) l1 l2 : length l1 = length l2 -> length (map2 f l1 l2) = length l1.
Proof. intros L. unfold map2. rewrite map_length, combine_length, L. apply Nat.min_id. Qed.

(* ---- matrices: rows are VList (nums r) ---- *)
Definition wf (n : nat) (m : list (list R)) : Prop := Forall (fun r => length r = n) m.
Lemma bcast_ms_gen f o (m : list (list R)) c w :
  bcast (S f) o (VList (rowsv m)) (snum c) w = (do r <- map_lw (rowsv m) (fun x w => bcast f o x (snum c) w) w; Ok (VList (fst r), snd r)).
Proof. apply bcast_vs_gen. reflexivity. Qed.
Lemma bcast_ms f o m c w : pure_op o = true ->
  bcast (S (S (S f))) o (VList (rowsv m)) (snum c) w = Ok (VList (rowsv (map (map (fun x => opR o x c)) m)), w).
Proof.
  intros H. rewrite bcast_ms_gen. unfold rowsv.
  rewrite (map_lw_pure (fun v => match v with VList l => VList (map (fun e => match e with VNum (Fin x) => snum (opR o x c) | _ => e end) l) | _ => v end)).
  - cbn [bind fst snd]. rewrite !map_map. match goal with |- Ok (VList ?a, _) = Ok (VList ?b, _) => replace a with b; [reflexivity|] end.
    apply map_ext. intros r. unfold nums. rewrite !map_map. reflexivity.
  - intros x w' Hx. apply in_map_iff in Hx. destruct Hx as (r & <- & _). rewrite bcast_vs by exact H. unfold nums. rewrite !map_map. reflexivity.
Qed.
Lemma bcast_mm_gen f o m q w : length m = length q -> m <> [] ->
  bcast (S f) o (VList (rowsv m)) (VList (rowsv q)) w = (do r <- zip_lw (bcast f o) (rowsv m) (rowsv q) w; Ok (VList (fst r), snd r)).
Proof.
  intros L N. destruct m as [|a [|a' m']]; destruct q as [|b [|b' q']]; try discriminate; try congruence.
  - (* 1 x k against 1 x k: a single row each *) reflexivity.
  - reflexivity.
Qed.
Lemma combine_rowsv_In p m q : In p (combine (rowsv m) (rowsv q)) -> exists a b, p = (VList (nums a), VList (nums b)) /\ In a m /\ In b q.
Proof.
  revert q; induction m as [|x r IH]; intros [|y s] H; cbn in H; try contradiction.
  destruct H as [<- | H]; [exists x, y; cbn; auto | destruct (IH s H) as (a & b & E & Ia & Ib); exists a, b; cbn; auto].
Qed.
Lemma bcast_mm f o n m q w : pure_op o = true -> length m = length q -> m <> [] -> wf n m -> wf n q ->
  bcast (S (S (S f))) o (VList (rowsv m)) (VList (rowsv q)) w = Ok (VList (rowsv (map2 (map2 (opR o)) m q)), w).
Proof.
  intros H L N Wm Wq. rewrite bcast_mm_gen by assumption.
  assert (E : forall m q w, length m = length q -> wf n m -> wf n q ->
              zip_lw (bcast (S (S f)) o) (rowsv m) (rowsv q) w = Ok (rowsv (map2 (map2 (opR o)) m q), w)).
  { clear - H. intros m. induction m as [|a r IH]; intros [|b s] w L Wm Wq; try discriminate; [reflexivity|].
    cbn [rowsv map zip_lw]. inversion Wm as [|? ? La Wr]; inversion Wq as [|? ? Lb Ws]; subst.
    rewrite bcast_vv by (try assumption; congruence). cbn [bind fst snd].
    fold (rowsv r). fold (rowsv s). rewrite IH by (try assumption; cbn in L; lia). reflexivity. }
  rewrite E by assumption. reflexivity.
Qed.

(* ---- elementwise operations that ask one decision per element ---- *)
Section GoL.
Variable g : val -> world -> res (val * world).
Fixpoint go_lw (l : list val) (w : world) : res (list val * world) :=
  match l with [] => Ok ([], w) | x :: r => do xw <- g x w; do rw <- go_lw r (snd xw); Ok (fst xw :: fst rw, snd rw) end.
End GoL.
Lemma go_lw_map_lw g l w : go_lw g l w = map_lw l g w.
Proof. revert w; induction l as [|x r IH]; intros w; [reflexivity|]. cbn [go_lw map_lw]. destruct (g x w) as [[v w1]| | |]; cbn [bind fst snd]; try reflexivity. rewrite IH. reflexivity. Qed.
Lemma decide_cons P w b r : decs w = b :: r -> decide P w = Ok (b, setw w r ((if b then P else ~ P) :: pc w)).
Proof. intros H. unfold decide. rewrite H. reflexivity. Qed.
Definition askP (b : bool) (P : R -> Prop) (x : R) : Prop := if b then P x else ~ P x.
Lemma go_dec g (P : R -> Prop) (h : R -> R) (b : bool) :
  (forall x w r, decs w = b :: r -> g (snum x) w = Ok (snum (h x), setw w r (askP b P x :: pc w))) ->
  forall xs w r, decs w = cat (rpt b (length xs)) r ->
  go_lw g (nums xs) w = Ok (nums (map h xs), setw w r (rev (map (askP b P) xs) ++ pc w)).
Proof.
  intros Hg xs. induction xs as [|x s IH]; intros w r D.
  - cbn in D. cbn [nums map go_lw rev app]. destruct w; cbn in *; subst; reflexivity.
  - cbn [nums map go_lw length rpt repeat cat app] in *. rewrite (Hg x w (cat (rpt b (length s)) r)) by exact D. cbn [bind fst snd].
    fold (nums s). rewrite (IH _ r) by reflexivity. cbn [bind fst snd]. unfold setw; cbn [rng cur olog decs pc rev].
    rewrite <- app_assoc. reflexivity.
Qed.
Lemma holds_app a b : holds (a ++ b) <-> holds a /\ holds b.
Proof. induction a as [|p a IH]; cbn; [tauto|]. rewrite IH. tauto. Qed.
Lemma holds_rev_map (Q : R -> Prop) xs : holds (rev (map Q xs)) <-> Forall Q xs.
Proof.
  induction xs as [|x s IH]; cbn [map rev]; [split; [constructor | exact (fun _ => I)]|].
  rewrite holds_app, IH. cbn. split; [intros (Hs & Hx & _); constructor; assumption | intros H; inversion H; tauto].
Qed.

(* np.sqrt on a vector: the answers [true ... true] assert 0 <= x for every element *)
Lemma m_sqrt_true x w r : decs w = true :: r -> map1 (S 0) m_sqrt (snum x) w = Ok (snum (sqrt x), setw w r ((0 <= x)%R :: pc w)).
Proof. intros D. cbn [map1 snum to_x lift_x m_sqrt]. rewrite (decide_cons _ w true r D). reflexivity. Qed.
Lemma map1_S f g a w : map1 (S f) g a w = match a with
  | VList l => do lw <- go_lw (map1 f g) l w; Ok (VList (fst lw), snd lw)
  | _ => match to_x a with Some x => lift_x (g x w) | None => Stuck "map1" end end.
Proof. reflexivity. Qed.
Lemma sqrt_vec f xs w r : decs w = cat (rpt true (length xs)) r ->
  map1 (S (S f)) m_sqrt (VList (nums xs)) w = Ok (VList (nums (map sqrt xs)), setw w r (rev (map (fun x => 0 <= x)%R xs) ++ pc w)).
Proof.
  intros D. rewrite map1_S. rewrite (go_dec (map1 (S f) m_sqrt) (fun x => 0 <= x)%R sqrt true) with (r := r); [reflexivity| |exact D].
  intros x w' r' D'. rewrite map1_S. cbn [snum to_x lift_x m_sqrt]. rewrite (decide_cons _ w' true r' D'). reflexivity.
Qed.
Lemma sqrt_scalar f x w r : decs w = true :: r -> map1 (S f) m_sqrt (snum x) w = Ok (snum (sqrt x), setw w r ((0 <= x)%R :: pc w)).
Proof. intros D. rewrite map1_S. cbn [snum to_x lift_x m_sqrt]. rewrite (decide_cons _ w true r D). reflexivity. Qed.

(* vector / scalar: the answers [false ... false] assert that the divisor is not zero, once per element *)
Lemma div_ss f x c w r : decs w = false :: r -> bcast (S f) Div (snum x) (snum c) w = Ok (snum (x / c), setw w r ((~ (c = 0)%R) :: pc w)).
Proof. intros D. cbn [bcast snum do_binop num2 to_x m_div lift_x]. rewrite (decide_cons _ w false r D). reflexivity. Qed.
Lemma div_vs f xs c w r : decs w = cat (rpt false (length xs)) r ->
  bcast (S (S f)) Div (VList (nums xs)) (snum c) w = Ok (VList (nums (map (fun x => x / c)%R xs)), setw w r (rev (map (fun _ => ~ (c = 0)%R) xs) ++ pc w)).
Proof.
  intros D. rewrite bcast_vs_gen by reflexivity. rewrite <- go_lw_map_lw.
  rewrite (go_dec (fun x w => bcast (S f) Div x (snum c) w) (fun _ => (c = 0)%R) (fun x => x / c)%R false) with (r := r); [reflexivity| |exact D].
  intros x w' r' D'. apply div_ss. exact D'.
Qed.

(* ---- np.outer, sums, dot products ---- *)
Lemma outer_vv us vs w : np_outer (VList (nums us)) (VList (nums vs)) w = Ok (VList (rowsv (outerR us vs)), w).
Proof.
  unfold np_outer. cbn beta iota.
  change ((do r <- go_lw (fun x w => bcast 3 Mul x (VList (nums vs)) w) (nums us) w; Ok (VList (fst r), snd r)) = Ok (VList (rowsv (outerR us vs)), w)).
  rewrite go_lw_map_lw. unfold nums at 1.
  rewrite (map_lw_pure (fun v => match v with VNum (Fin x) => VList (nums (map (fun y => (x * y)%R) vs)) | _ => v end)).
  - cbn [bind fst snd]. unfold rowsv, outerR. rewrite !map_map. reflexivity.
  - intros x w' Hx. apply map_snum_In in Hx. destruct Hx as (r & ->). rewrite bcast_sv by reflexivity. reflexivity.
Qed.
Lemma vsum_nums x xs w : vsum (nums (x :: xs)) w = Ok (snum (sumR (x :: xs)), w).
Proof.
  revert x; induction xs as [|y s IH]; intros x; [reflexivity|].
  change (vsum (nums (x :: y :: s)) w) with (do rw <- vsum (nums (y :: s)) w; do_binop Add (snum x) (fst rw) (snd rw)).
  rewrite IH. reflexivity.
Qed.
Lemma dot_vv x xs y ys w : length xs = length ys ->
  np_dot (VList (nums (x :: xs))) (VList (nums (y :: ys))) w = Ok (snum (dotR (x :: xs) (y :: ys)), w).
Proof.
  intros L. unfold np_dot. cbn [nums map]. change (snum x :: map snum xs) with (nums (x :: xs)). change (snum y :: map snum ys) with (nums (y :: ys)).
  rewrite bcast_vv by (cbn; congruence). cbn [bind fst snd]. unfold dotR. cbn [map2 combine map fst snd]. apply vsum_nums.
Qed.
Section DotGo.
Variable b : val.
Fixpoint dot_go (l : list val) (w : world) : res (list val * world) :=
  match l with [] => Ok ([], w)
  | row :: r => do pw <- bcast 3 Mul row b w;
                match fst pw with VList p => do sw <- vsum p (snd pw); do rw <- dot_go r (snd sw); Ok (fst sw :: fst rw, snd rw) | _ => Stuck "dot" end
  end.
End DotGo.
Lemma dot_go_rows n m y ys w : wf (S n) m -> length (y :: ys) = S n ->
  dot_go (VList (nums (y :: ys))) (rowsv m) w = Ok (nums (mvR m (y :: ys)), w).
Proof.
  intros Wm L. induction m as [|a r IH]; [reflexivity|]. inversion Wm as [|? ? La Wr]; subst.
  cbn [rowsv map dot_go]. rewrite bcast_vv by (try reflexivity; congruence). cbn [bind fst snd].
  destruct a as [|a0 a']; [discriminate|]. unfold map2 at 1. cbn [combine map fst snd].
  rewrite vsum_nums. cbn [bind fst snd].
  fold (rowsv r). rewrite IH by assumption. cbn [bind fst snd].
  unfold mvR, dotR, nums. cbn [map]. unfold map2. cbn [combine map fst snd opR]. reflexivity.
Qed.
Lemma np_dot_rows (a : list val) (m : list val) (b : list val) w :
  np_dot (VList (VList a :: m)) (VList b) w = (do r <- dot_go (VList b) (VList a :: m) w; Ok (VList (fst r), snd r)).
Proof. unfold np_dot. cbn beta iota zeta. cbn [dot_go]. reflexivity. Qed.
Lemma dot_mv n a m y ys w : wf (S n) (a :: m) -> length (y :: ys) = S n ->
  np_dot (VList (rowsv (a :: m))) (VList (nums (y :: ys))) w = Ok (VList (nums (mvR (a :: m) (y :: ys))), w).
Proof.
  intros Wm L. cbn [rowsv map]. rewrite np_dot_rows. change (VList (nums a) :: map (fun r => VList (nums r)) m) with (rowsv (a :: m)).
  rewrite (dot_go_rows n) by assumption. reflexivity.
Qed.

(* ---- the same lemmas in the syntactic form in which the stuck primitives appear after [lazy] (snum unfolded), with folded result constructors
   (mapR, map2R, mmapR, mmap2R, outerR, mvR, dotR are blacklisted when the interpreter is run, so results stay readable and rewritable), and with the
   length of the block of answers as a separate parameter ---- *)
Definition mapR (h : R -> R) (l : list R) : list R := map h l.
Definition map2R (h : R -> R -> R) (a b : list R) : list R := map2 h a b.
Definition mmapR (h : R -> R) (m : list (list R)) : list (list R) := map (map h) m.
Definition mmap2R (h : R -> R -> R) (m q : list (list R)) : list (list R) := map2 (map2 h) m q.
Lemma Bvs f o xs c w : pure_op o = true -> bcast (S (S f)) o (VList (nums xs)) (VNum (Fin c)) w = Ok (VList (nums (mapR (fun x => opR o x c) xs)), w).
Proof. apply bcast_vs. Qed.
Lemma Bsv f o c ys w : pure_op o = true -> bcast (S (S f)) o (VNum (Fin c)) (VList (nums ys)) w = Ok (VList (nums (mapR (fun y => opR o c y) ys)), w).
Proof. apply bcast_sv. Qed.
Lemma Bvv f o xs ys w : pure_op o = true -> length xs = length ys ->
  bcast (S (S f)) o (VList (nums xs)) (VList (nums ys)) w = Ok (VList (nums (map2R (opR o) xs ys)), w).
Proof. apply bcast_vv. Qed.
Lemma Bms f o m c w : pure_op o = true -> bcast (S (S (S f))) o (VList (rowsv m)) (VNum (Fin c)) w = Ok (VList (rowsv (mmapR (fun x => opR o x c) m)), w).
Proof. apply bcast_ms. Qed.
Lemma Bmm f o n m q w : pure_op o = true -> length m = length q -> m <> [] -> wf n m -> wf n q ->
  bcast (S (S (S f))) o (VList (rowsv m)) (VList (rowsv q)) w = Ok (VList (rowsv (mmap2R (opR o) m q)), w).
Proof. apply bcast_mm. Qed.
Definition pblock (P : R -> Prop) (xs : list R) : list Prop := rev (map P xs).
Definition pcapp (a b : list Prop) : list Prop := (a ++ b)%list.
Lemma holds_pcapp P xs rest : holds (pcapp (pblock P xs) rest) <-> Forall P xs /\ holds rest.
Proof. unfold pcapp, pblock. rewrite holds_app, holds_rev_map. tauto. Qed.
Lemma Bdiv f xs c w n r : decs w = cat (rpt false n) r -> length xs = n ->
  bcast (S (S f)) Div (VList (nums xs)) (VNum (Fin c)) w = Ok (VList (nums (mapR (fun x => x / c)%R xs)), setw w r (pcapp (pblock (fun _ => ~ (c = 0)%R) xs) (pc w))).
Proof. intros D <-. apply div_vs. exact D. Qed.
Lemma BdivZ f xs z w n r : decs w = cat (rpt false n) r -> length xs = n ->
  bcast (S (S f)) Div (VList (nums xs)) (VInt z) w = Ok (VList (nums (mapR (fun x => x / IZR z)%R xs)), setw w r (pcapp (pblock (fun _ => ~ (IZR z = 0)%R) xs) (pc w))).
Proof.
  intros D <-. rewrite bcast_vs_gen by reflexivity. rewrite <- go_lw_map_lw.
  rewrite (go_dec (fun x w => bcast (S f) Div x (VInt z) w) (fun _ => (IZR z = 0)%R) (fun x => x / IZR z)%R false) with (r := r); [reflexivity| |exact D].
  intros x w' r' D'. cbn [bcast snum do_binop num2 to_x m_div lift_x]. rewrite (decide_cons _ w' false r' D'). reflexivity.
Qed.
Lemma Msqrt f xs w n r : decs w = cat (rpt true n) r -> length xs = n ->
  map1 (S (S f)) m_sqrt (VList (nums xs)) w = Ok (VList (nums (mapR sqrt xs)), setw w r (pcapp (pblock (fun x => 0 <= x)%R xs) (pc w))).
Proof. intros D <-. apply sqrt_vec. exact D. Qed.
Lemma Msqrt1 f x w r : decs w = true :: r -> map1 (S f) m_sqrt (VNum (Fin x)) w = Ok (VNum (Fin (sqrt x)), setw w r ((0 <= x)%R :: pc w)).
Proof. apply sqrt_scalar. Qed.
Lemma mapR_length h l : length (mapR h l) = length l. Proof. apply map_length. Qed.
Lemma map2R_length h a b : length a = length b -> length (map2R h a b) = length a. Proof. apply map2_length. Qed.
Lemma mmapR_length h m : length (mmapR h m) = length m. Proof. apply map_length. Qed.
Lemma mmap2R_length h m q : length m = length q -> length (mmap2R h m q) = length m. Proof. apply map2_length. Qed.
Lemma outerR_length us vs : length (outerR us vs) = length us. Proof. apply map_length. Qed.
Lemma mvR_length m v : length (mvR m v) = length m. Proof. apply map_length. Qed.
Lemma outerR_wf us vs : wf (length vs) (outerR us vs).
Proof. unfold wf, outerR. apply Forall_forall. intros r H. apply in_map_iff in H. destruct H as (x & <- & _). apply map_length. Qed.
Lemma mmap2R_wf {n} (h : R -> R -> R) m q : wf n m -> wf n q -> wf n (mmap2R h m q).
Proof.
  unfold wf, mmap2R, map2. intros Wm Wq. apply Forall_forall. intros r H. apply in_map_iff in H. destruct H as ([a b] & <- & Hin). cbn [fst snd].
  pose proof (in_combine_l _ _ _ _ Hin) as Ha. pose proof (in_combine_r _ _ _ _ Hin) as Hb.
  rewrite Forall_forall in Wm, Wq. rewrite map_length, combine_length, (Wm a Ha), (Wq b Hb). apply Nat.min_id.
Qed.
Lemma mmapR_wf {n} (h : R -> R) m : wf n m -> wf n (mmapR h m).
Proof. unfold wf, mmapR. intros W. apply Forall_forall. intros r H. apply in_map_iff in H. destruct H as (a & <- & Ha). rewrite map_length. rewrite Forall_forall in W. auto. Qed.
Ltac len :=
  repeat first [ rewrite mapR_length | rewrite map2R_length by len | rewrite mmapR_length | rewrite mmap2R_length by len | rewrite outerR_length | rewrite mvR_length
               | rewrite nums_length | rewrite rowsv_length ];
  first [ reflexivity | assumption | congruence | lia ].
Ltac wfs := repeat first [ assumption | apply mmap2R_wf | apply mmapR_wf | apply outerR_wf ].

(* running the interpreter with the array primitives (and the folded constructors of symbolic data) kept folded, then resolving the innermost
   stuck primitive by its lemma *)
Ltac ARR_RUN t := eval lazy -[Rplus Rmult Rminus Rdiv Rinv Ropp Rmax Rmin Rlt Rle Rgt Rge ln exp sqrt log10 IZR dec Rpower pow PI DBL_MAX not Rabs
                              bcast map1 np_outer np_dot vsum nums rowsv rpt cat Z.of_nat length mapR map2R mmapR mmap2R outerR mvR dotR sumR m_sqrt pblock pcapp] in t.
Ltac ARR_run := match goal with |- ?t = ?rhs => let r := ARR_RUN t in change (r = rhs) end.
Lemma Dmv n m v w : wf n m -> length v = n -> m <> [] -> n <> 0%nat ->
  np_dot (VList (rowsv m)) (VList (nums v)) w = Ok (VList (nums (mvR m v)), w).
Proof.
  intros Wm Lv Nm Nn. destruct m as [|a m']; [congruence|]. destruct v as [|y ys]; [cbn in Lv; congruence|].
  destruct n as [|n']; [congruence|]. apply (dot_mv n'); assumption.
Qed.
Lemma Dvv xs ys w : length xs = length ys -> xs <> [] ->
  np_dot (VList (nums xs)) (VList (nums ys)) w = Ok (VNum (Fin (dotR xs ys)), w).
Proof.
  intros L N. destruct xs as [|x xs']; [congruence|]. destruct ys as [|y ys']; [discriminate|]. apply dot_vv. cbn in L. congruence.
Qed.
Lemma Forall_mapR (P Q : R -> Prop) h l : (forall x, P x -> Q (h x)) -> Forall P l -> Forall Q (mapR h l).
Proof. intros H F. unfold mapR. induction F; cbn; constructor; auto. Qed.
Lemma Forall_map2R (P Q S : R -> Prop) h a b : (forall x y, P x -> Q y -> S (h x y)) -> Forall P a -> Forall Q b -> Forall S (map2R h a b).
Proof.
  intros H Fa. revert b. unfold map2R, map2. induction Fa as [|x a' Px Fa IH]; intros b Fb; [constructor|].
  destruct Fb as [|y b' Qy Fb]; [constructor|]. cbn. constructor; [apply H; assumption | apply IH; assumption].
Qed.
Lemma Forall_const (P : Prop) (l : list R) : P -> Forall (fun _ => P) l.
Proof. intros H. induction l; constructor; auto. Qed.
Lemma outerR_wf_n n us vs : length vs = n -> wf n (outerR us vs).
Proof. intros <-. apply outerR_wf. Qed.
Lemma nonempty_len {A} (l : list A) n : length l = n -> n <> 0%nat -> l <> [].
Proof. intros <- H ->. apply H. reflexivity. Qed.
Lemma Mscalar f g x w : map1 (S f) g (VNum x) w = lift_x (g x w).
Proof. reflexivity. Qed.
Ltac wfs2 := repeat first [ assumption | apply mmap2R_wf | apply mmapR_wf | (apply outerR_wf_n; len) ].
(* side conditions of the array lemmas, for data all of whose dimensions equal the (named) n *)
Ltac ARR_side n := solve [ reflexivity | len | eassumption | (eapply (nonempty_len _ n); [len | assumption]) | wfs2 ].
Ltac ARR_prim n :=
  match goal with
  | |- context [np_outer (VList (nums _)) (VList (nums _)) _] => rewrite outer_vv
  | |- context [np_dot (VList (rowsv _)) (VList (nums _)) _] => rewrite (Dmv n) by ARR_side n
  | |- context [np_dot (VList (nums _)) (VList (nums _)) _] => rewrite Dvv by ARR_side n
  | |- context [map1 _ m_sqrt (VList (nums _)) _] => erewrite Msqrt by ARR_side n
  | |- context [map1 _ m_sqrt (VNum (Fin _)) _] => erewrite Msqrt1 by reflexivity
  | |- context [map1 _ _ (VNum _) _] => rewrite Mscalar
  | |- context [bcast _ _ (VList (rowsv _)) (VList (rowsv _)) _] => rewrite (Bmm _ _ n) by ARR_side n
  | |- context [bcast _ _ (VList (rowsv _)) (VNum (Fin _)) _] => rewrite Bms by reflexivity
  | |- context [bcast _ _ (VList (nums _)) (VList (nums _)) _] => rewrite Bvv by ARR_side n
  | |- context [bcast _ Div (VList (nums _)) (VNum (Fin _)) _] => erewrite Bdiv by ARR_side n
  | |- context [bcast _ Div (VList (nums _)) (VInt _) _] => erewrite BdivZ by ARR_side n
  | |- context [bcast _ _ (VList (nums _)) (VNum (Fin _)) _] => rewrite Bvs by reflexivity
  | |- context [bcast _ _ (VNum (Fin _)) (VList (nums _)) _] => rewrite Bsv by reflexivity
  end.
(* statement-wise symbolic execution (uses Py.Unfold: seq_out, run_stmts_cons): only the statement at the head of the list is run, on a concrete
   environment; the stuck array primitives inside it are resolved one after the other; the rest of the body stays folded *)
Ltac STMT_run := match goal with |- context [seq_out ?t ?k] => let r := ARR_RUN t in change t with r end.
Ltac STMT_prim n := ARR_prim n; cbn [bind fst snd].
Ltac STMT n := STMT_run; repeat (STMT_prim n; STMT_run).

(* entries of the folded results *)
Lemma nth_mapR h l i d : (i < length l)%nat -> nth i (mapR h l) d = h (nth i l d).
Proof. intros H. unfold mapR. rewrite (nth_indep _ d (h d)) by (rewrite map_length; exact H). apply map_nth. Qed.
Lemma nth_map2R h a b i d : length a = length b -> (i < length a)%nat -> nth i (map2R h a b) d = h (nth i a d) (nth i b d).
Proof.
  intros L H. unfold map2R, map2. rewrite (nth_indep _ d ((fun p => h (fst p) (snd p)) (d, d))) by (rewrite map_length, combine_length, <- L, Nat.min_id; exact H).
  rewrite (map_nth (fun p => h (fst p) (snd p))). rewrite combine_nth by exact L. reflexivity.
Qed.
Lemma nth_mmapR h m i j d : (i < length m)%nat -> (j < length (nth i m []))%nat -> nth j (nth i (mmapR h m) []) d = h (nth j (nth i m []) d).
Proof.
  intros Hi Hj. unfold mmapR. rewrite (nth_indep _ [] (map h [])) by (rewrite map_length; exact Hi). rewrite (map_nth (map h)).
  change (map h (nth i m [])) with (mapR h (nth i m [])). apply nth_mapR. exact Hj.
Qed.
Lemma nth_mmap2R h m q i j d : length m = length q -> (i < length m)%nat -> length (nth i m []) = length (nth i q []) -> (j < length (nth i m []))%nat ->
  nth j (nth i (mmap2R h m q) []) d = h (nth j (nth i m []) d) (nth j (nth i q []) d).
Proof.
  intros L Hi Lr Hj. unfold mmap2R. change (map2 (map2 h) m q) with (map (fun p => map2 h (fst p) (snd p)) (combine m q)).
  rewrite (nth_indep _ [] ((fun p => map2 h (fst p) (snd p)) ([], []))) by (rewrite map_length, combine_length, <- L, Nat.min_id; exact Hi).
  rewrite (map_nth (fun p => map2 h (fst p) (snd p))). rewrite combine_nth by exact L. cbn [fst snd].
  change (map2 h (nth i m []) (nth i q [])) with (map2R h (nth i m []) (nth i q [])). apply nth_map2R; assumption.
Qed.
Lemma nth_outerR u v i j d : (i < length u)%nat -> (j < length v)%nat -> nth j (nth i (outerR u v) []) d = (nth i u d * nth j v d)%R.
Proof.
  intros Hi Hj. unfold outerR. rewrite (nth_indep _ [] ((fun x => map (fun y => (x * y)%R) v) d)) by (rewrite map_length; exact Hi).
  rewrite (map_nth (fun x => map (fun y => (x * y)%R) v)). change (map (fun y => (nth i u d * y)%R) v) with (mapR (fun y => (nth i u d * y)%R) v).
  apply nth_mapR. exact Hj.
Qed.
Lemma wf_nth n m i : wf n m -> (i < length m)%nat -> length (nth i m []) = n.
Proof. intros W H. unfold wf in W. rewrite Forall_forall in W. apply W. apply nth_In. exact H. Qed.
