(* Symbolic stepping of the interpreter.  [lazy] normalises strongly: as soon as one primitive is stuck on a symbolic argument (a subscript
   at a symbolic index, say) it would normalise every branch of every later case distinction under the stuck continuation.  These lemmas unfold
   the interpreter ONE level along the spine of an expression, leaving the sub-evaluations folded; closed leaves are then computed, stuck
   primitives are resolved by rewriting with facts, and [bind (Ok _) k] is reduced - so that a loop body can be executed at a symbolic
   iteration index, which is what an induction over the loop needs. *)
From Coq Require Import Reals ZArith String List Bool Lia.
Require Import Py.PyAst Py.PyVal Py.PySem Py.XLemmas Py.Unfold.
Import ListNotations.
Open Scope string_scope.

Section Sym.
Variable G : fenv.
Lemma eval_ESub f c i ρ w : eval G (S f) (ESub c i) ρ w = (do cw <- eval G f c ρ w; do iw <- eval G f i ρ (snd cw); do v <- subscript (fst cw) (fst iw); Ok (v, snd iw)).
Proof. reflexivity. Qed.
Lemma eval_ECmp f o a b ρ w : eval G (S f) (ECmp o a b) ρ w =
  (do aw <- eval G f a ρ w; do bw <- eval G f b ρ (snd aw);
   if is_arr (fst aw) || is_arr (fst bw) then
     match o with CIs | CIsNot | CIn | CNotIn => do r <- do_cmp o (fst aw) (fst bw) (snd bw); Ok (VBool (fst r), snd r)
                | _ => cmp_map 4 o (fst aw) (fst bw) (snd bw) end
   else do r <- do_cmp o (fst aw) (fst bw) (snd bw); Ok (VBool (fst r), snd r)).
Proof. reflexivity. Qed.
Lemma eval_BOr2 f a b ρ w : eval G (S f) (EBoolOp BOr [a; b]) ρ w =
  (do vw <- eval G f a ρ w; do t <- m_truthy (fst vw) (snd vw); if fst t then Ok (fst vw, snd t) else eval G f b ρ (snd t)).
Proof. cbn [eval]. destruct (eval G f a ρ w) as [[v w1]| | |]; cbn [bind fst snd]; try reflexivity.
  all: try (destruct (m_truthy v w1) as [[t w2]| | |]; cbn [bind fst snd]; try reflexivity; destruct t; reflexivity). Qed.
Lemma eval_EBin f o a b ρ w : eval G (S f) (EBin o a b) ρ w = (do aw <- eval G f a ρ w; do bw <- eval G f b ρ (snd aw); do_binop_np o (fst aw) (fst bw) (snd bw)).
Proof. reflexivity. Qed.
End Sym.
Lemma subscript_dict d k : subscript (VDict d) k = match dict_get k d with Some v => Ok v | None => Exc "KeyError" end.
Proof. reflexivity. Qed.
Lemma Sym_app_snoc {A} (p : list A) a r : (p ++ a :: r = (p ++ [a]) ++ r)%list.
Proof. rewrite <- app_assoc. reflexivity. Qed.

Definition snum (r : R) := VNum (Fin r).
(* the element of a list of numbers at the position given by the length of a prefix *)
Lemma subscript_mid (pre : list R) x rest : subscript (VList (map snum (pre ++ x :: rest))) (VInt (Z.of_nat (length pre))) = Ok (snum x).
Proof.
  unfold subscript. destruct (Z.ltb_spec (Z.of_nat (length pre)) 0); [lia|].
  rewrite Nat2Z.id, map_app, nth_error_app2 by (rewrite map_length; lia). rewrite map_length, Nat.sub_diag. reflexivity.
Qed.
Lemma subscript_at (pre : list R) x rest k : length pre = k -> subscript (VList (map snum (pre ++ x :: rest))) (VInt (Z.of_nat k)) = Ok (snum x).
Proof. intros <-. apply subscript_mid. Qed.

(* compute a closed sub-term; lists, their lengths and the injection of reals stay folded *)
Ltac SYM_RUNF tm := let r := eval lazy -[Rplus Rmult Rminus Rdiv Rinv Ropp Rmax Rmin Rlt Rle Rgt Rge ln exp sqrt log10 IZR dec Rpower pow PI DBL_MAX not snum map app length subscript zrange Z.of_nat Z.to_nat Z.sub] in tm in change tm with r.
Ltac SYM_RUNG tm := let r := eval lazy -[Rplus Rmult Rminus Rdiv Rinv Ropp Rmax Rmin Rlt Rle Rgt Rge ln exp sqrt log10 IZR dec Rpower pow PI DBL_MAX not map app length subscript zrange Z.of_nat Z.to_nat Z.sub] in tm in change tm with r.
Ltac SYM_leaf :=
  match goal with
  | |- context [eval ?G ?f (EName ?x) ?r ?w] => SYM_RUNF (eval G f (EName x) r w)
  | |- context [eval ?G ?f (EAttr ?a ?b) ?r ?w] => SYM_RUNF (eval G f (EAttr a b) r w)
  | |- context [do_cmp ?o (snum ?a) (snum ?b) ?w] => SYM_RUNG (do_cmp o (snum a) (snum b) w)
  | |- context [m_truthy (VBool ?b) ?w] => SYM_RUNF (m_truthy (VBool b) w)
  | |- context [is_arr (snum ?a)] => SYM_RUNG (is_arr (snum a))
  end.
Ltac SYM_sym :=
  repeat first [ rewrite eval_ESub | rewrite eval_ECmp | rewrite eval_BOr2
               | erewrite subscript_at by (first [reflexivity | eassumption | symmetry; eassumption])
               | progress cbn [bind fst snd orb]
               | progress SYM_leaf ].
