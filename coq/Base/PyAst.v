From Coq Require Import ZArith String List.
Import ListNotations.

Inductive cmpop := CLt | CLtE | CGt | CGtE | CEq | CNotEq | CIs | CIsNot | CIn | CNotIn.
Inductive binop := Add | Sub | Mul | Div | Pow | Mod | BitAnd.
Inductive unop := USub | UNot.
Inductive boolop := BAnd | BOr.

Inductive expr :=
| ENone
| EBool (b : bool)
| EInt (z : Z)
| EFloat (m : Z) (e : Z)                 (* the decimal literal m * 10^e, e <= 0 *)
| EStr (s : string)
| EName (x : string)
| EAttr (e : expr) (a : string)
| ESub (e : expr) (i : expr)
| EBin (o : binop) (a b : expr)
| EUn (o : unop) (a : expr)
| ECmp (o : cmpop) (a b : expr)
| EBoolOp (o : boolop) (l : list expr)
| ECall (f : expr) (args : list expr) (kws : list (option string * expr))
| EList (l : list expr)
| ETuple (l : list expr)
| EDict (l : list (option expr * expr))
| EIfExp (c a b : expr)
| EListComp (elt target iter : expr) (conds : list expr)    (* [elt for target in iter if c1 if c2 ...] *)
| EUnsupported (s : string).

Inductive stmt :=
| SAssign (target : expr) (v : expr)
| SAug (o : binop) (target : expr) (v : expr)
| SIf (c : expr) (t e : list stmt)
| SFor (target : expr) (iter : expr) (body : list stmt)
| SReturn (v : option expr)
| SExpr (e : expr)
| SRaise (exc : string)
| STry (body handler : list stmt)
| SPass
| SAssert (c : expr)
| SWith (ctx : expr) (name : option string) (body : list stmt)     (* with ctx as name: body *)
| SUnsupported (s : string).

Record fundef := FunDef {
  f_name : string;
  f_static : bool;                          (* @staticmethod: no self *)
  f_params : list (string * option expr);   (* positional-or-keyword, with defaults *)
  f_kwarg : option string;                  (* **kwargs catch-all *)
  f_body : list stmt }.
