From Coq Require Import Reals ZArith String List Bool Lra.
Require Import Py.PyAst Py.PyVal Py.PySem.
Import ListNotations.
Open Scope R_scope.

Fixpoint holds (l : list Prop) : Prop := match l with [] => True | P :: r => P /\ holds r end.

(* "calling c on these arguments yields v": some list of answers to the real-number decisions drives the
   interpreter to v, is consumed exactly, and every answer is true *)
Definition yields (G : fenv) (fuel : nat) (c : callee) (self : option val) (args : list val) (kws : list (string * val))
           (rg : nat -> R) (cu : nat) (v : val) (cu' : nat) (log : list (string * list val)) : Prop :=
  exists ds w', call G fuel c self args kws (World rg cu [] ds []) = Ok (v, w')
                /\ decs w' = [] /\ cur w' = cu' /\ olog w' = log /\ holds (pc w').

(* safe now: control flow never waits on a real comparison *)
Ltac run :=
  lazy -[Rplus Rmult Rminus Rdiv Rinv Ropp Rmax Rmin Rlt Rle Rgt Rge ln exp sqrt log10 IZR dec Rpower pow PI DBL_MAX not Rabs].
Ltac norm_dec :=
  repeat match goal with
  | |- context [dec ?m ?e] =>
      let z := eval vm_compute in (10 ^ (- e))%Z in change (dec m e) with (IZR m / IZR z)
  end.
