(* Piecewise-linear and multilinear interpolation on a rectilinear grid: the mathematical object that
   scipy.interpolate.interp1d(kind="linear") / RegularGridInterpolator(method="linear") compute (tied to the
   library by numeric correspondence, not by proof). *)
From Coq Require Import Reals List Lra Lia.
Import ListNotations.
Open Scope R_scope.

Definition lerp (x0 x1 y0 y1 p : R) : R := y0 + (p - x0) / (x1 - x0) * (y1 - y0).

Lemma lerp_left x0 x1 y0 y1 : x0 <> x1 -> lerp x0 x1 y0 y1 x0 = y0.
Proof. intros. unfold lerp. field. lra. Qed.
Lemma lerp_right x0 x1 y0 y1 : x0 <> x1 -> lerp x0 x1 y0 y1 x1 = y1.
Proof. intros. unfold lerp. field. lra. Qed.
Lemma lerp_convex x0 x1 y0 y1 p : x0 < x1 -> x0 <= p <= x1 ->
  Rmin y0 y1 <= lerp x0 x1 y0 y1 p <= Rmax y0 y1.
Proof.
  intros Hx Hp. unfold lerp.
  set (t := (p - x0) / (x1 - x0)).
  assert (Ht : 0 <= t <= 1).
  { unfold t. split.
    - apply Rmult_le_pos; [lra | left; apply Rinv_0_lt_compat; lra].
    - apply Rmult_le_reg_r with (x1 - x0); [lra|]. unfold Rdiv. rewrite Rmult_assoc, Rinv_l by lra. lra. }
  unfold Rmin, Rmax. destruct (Rle_dec y0 y1); split; nra.
Qed.
(* affine in the values: used for scale / shift arguments *)
Lemma lerp_affine x0 x1 y0 y1 p a b : lerp x0 x1 (a * y0 + b) (a * y1 + b) p = a * lerp x0 x1 y0 y1 p + b.
Proof. unfold lerp. unfold Rdiv. ring. Qed.

(* 1-d interpolant on nodes (x_i, y_i), x strictly increasing: the segment containing p is the first one whose right
   end is >= p (scipy: searchsorted), the last segment is used beyond (extrapolation is never relied on) *)
Fixpoint interp1 (nodes : list (R * R)) (p : R) : R :=
  match nodes with
  | [] => 0
  | [(x0, y0)] => y0
  | (x0, y0) :: (((x1, y1) :: rest) as tl) =>
      match rest with
      | [] => lerp x0 x1 y0 y1 p
      | _ => if Rle_dec p x1 then lerp x0 x1 y0 y1 p else interp1 tl p
      end
  end.

Fixpoint increasing (xs : list R) : Prop :=
  match xs with
  | [] => True
  | x :: r => match r with [] => True | y :: _ => x < y /\ increasing r end
  end.
Fixpoint lmin (d : R) (l : list R) : R := match l with [] => d | x :: r => Rmin x (lmin x r) end.
Fixpoint lmax (d : R) (l : list R) : R := match l with [] => d | x :: r => Rmax x (lmax x r) end.
Definition all_between (lo hi : R) (l : list R) : Prop := Forall (fun y => lo <= y <= hi) l.

(* the interpolant is bounded by any bounds of the node values (convexity) *)
Lemma interp1_bounds lo hi : forall nodes p,
  (2 <= length nodes)%nat -> increasing (map fst nodes) -> all_between lo hi (map snd nodes) ->
  (forall x0 y0 r, nodes = (x0, y0) :: r -> x0 <= p) ->
  p <= last (map fst nodes) 0 ->
  lo <= interp1 nodes p <= hi.
Proof.
  induction nodes as [|[x0 y0] tl IH]; intros p Hlen Hinc Hall Hfirst Hlast; [cbn in Hlen; lia|].
  destruct tl as [|[x1 y1] rest]; [cbn in Hlen; lia|].
  assert (Hx0 : x0 <= p) by (eapply Hfirst; reflexivity).
  cbn [map fst snd increasing] in Hinc. destruct Hinc as [Hlt Hinc'].
  inversion Hall as [|? ? Hy0 Hall']; subst. inversion Hall' as [|? ? Hy1 Hall'']; subst. cbn [snd] in *.
  assert (Hseg : forall q, x0 <= q <= x1 -> lo <= lerp x0 x1 y0 y1 q <= hi).
  { intros q Hq. pose proof (lerp_convex x0 x1 y0 y1 q Hlt Hq) as [A B].
    unfold Rmin in A; unfold Rmax in B. destruct (Rle_dec y0 y1); lra. }
  destruct rest as [|[x2 y2] rest'].
  - cbn [interp1]. apply Hseg. cbn in Hlast. lra.
  - cbn [interp1]. destruct (Rle_dec p x1) as [Hle | Hgt].
    + apply Hseg. lra.
    + apply IH.
      * cbn; lia.
      * exact Hinc'.
      * exact Hall'.
      * intros a b r E. inversion E; subst. lra.
      * exact Hlast.
Qed.

(* at a node the interpolant returns the node value *)
Lemma interp1_node : forall nodes k x y,
  (2 <= length nodes)%nat -> increasing (map fst nodes) -> nth_error nodes k = Some (x, y) -> interp1 nodes x = y.
Proof.
  induction nodes as [|[x0 y0] tl IH]; intros k x y Hlen Hinc Hk; [cbn in Hlen; lia|].
  destruct tl as [|[x1 y1] rest]; [cbn in Hlen; lia|].
  cbn [map fst increasing] in Hinc. destruct Hinc as [Hlt Hinc'].
  destruct k as [|k].
  - cbn in Hk. inversion Hk; subst. destruct rest as [|n2 rest']; cbn [interp1].
    + apply lerp_left. lra.
    + destruct (Rle_dec x x1); [apply lerp_left; lra | lra].
  - cbn [nth_error] in Hk. destruct rest as [|[x2 y2] rest'].
    + destruct k as [|k]; [|destruct k; discriminate]. cbn in Hk. inversion Hk; subst. cbn [interp1]. apply lerp_right. lra.
    + cbn [interp1]. destruct (Rle_dec x x1) as [Hle | Hgt].
      * destruct k as [|k].
        -- cbn in Hk. inversion Hk; subst. apply lerp_right. lra.
        -- (* a later node has x > x1 *)
           exfalso. clear IH Hlen. cbn [nth_error] in Hk.
           assert (Hgt : forall (l : list (R * R)) (j : nat) a b c, increasing (c :: map fst l) -> nth_error l j = Some (a, b) -> c < a).
           { induction l as [|[u v] l IHl]; intros j a b c Hi Hj; [destruct j; discriminate|].
             cbn [map fst increasing] in Hi. destruct Hi as [Hcu Hi']. destruct j as [|j].
             - cbn in Hj. inversion Hj; subst. exact Hcu.
             - cbn [nth_error] in Hj. apply Rlt_trans with u; [exact Hcu|]. eapply IHl; [exact Hi' | exact Hj]. }
           cbn [map fst] in Hinc'. pose proof (Hgt ((x2, y2) :: rest') k x y x1 Hinc' Hk). lra.
      * eapply IH with (k := k); [cbn; lia | exact Hinc' | exact Hk].
Qed.

(* ---------- multilinear interpolation on a rectilinear grid, by recursion over the axes ---------- *)
(* a grid over d axes is a d-deep nested list; axis 0 is the outermost index *)
Inductive grid := Leaf (v : R) | Node (children : list grid).

Fixpoint interpN (axes : list (list R)) (g : grid) (p : list R) {struct axes} : R :=
  match axes, g, p with
  | [], Leaf v, _ => v
  | ax :: axes', Node ch, p0 :: p' => interp1 (combine ax (map (fun c => interpN axes' c p') ch)) p0
  | _, _, _ => 0
  end.

(* value at a multi-index *)
Fixpoint grid_at (g : grid) (idx : list nat) : option R :=
  match g, idx with
  | Leaf v, [] => Some v
  | Node ch, i :: idx' => match nth_error ch i with Some c => grid_at c idx' | None => None end
  | _, _ => None
  end.
Fixpoint node_of (axes : list (list R)) (idx : list nat) : option (list R) :=
  match axes, idx with
  | [], [] => Some []
  | ax :: axes', i :: idx' =>
      match nth_error ax i, node_of axes' idx' with Some x, Some r => Some (x :: r) | _, _ => None end
  | _, _ => None
  end.
(* well-shaped: every Node at depth k has exactly |axis_k| >= 2 children, each axis strictly increasing *)
Fixpoint shaped (axes : list (list R)) (g : grid) {struct axes} : Prop :=
  match axes, g with
  | [], Leaf _ => True
  | ax :: axes', Node ch => (2 <= length ax)%nat /\ increasing ax /\ length ch = length ax /\ Forall (shaped axes') ch
  | _, _ => False
  end.

Lemma map_fst_combine {A B} (l : list A) (m : list B) : length l = length m -> map fst (combine l m) = l.
Proof. revert m; induction l as [|a l IH]; intros [|b m] H; cbn in *; try lia; [reflexivity|]. f_equal. apply IH. lia. Qed.
Lemma nth_error_combine {A B} (l : list A) (m : list B) i a b :
  nth_error l i = Some a -> nth_error m i = Some b -> nth_error (combine l m) i = Some (a, b).
Proof. revert m i; induction l as [|x l IH]; intros [|y m] [|i] Ha Hb; cbn in *; try discriminate; [congruence|]. apply IH; assumption. Qed.

(* at a grid node, for ANY number of axes of any lengths >= 2, the interpolant returns the stored grid value *)
Theorem interpN_node : forall axes g idx pt v,
  shaped axes g -> node_of axes idx = Some pt -> grid_at g idx = Some v -> interpN axes g pt = v.
Proof.
  induction axes as [|ax axes IH]; intros g idx pt v Hs Hn Hg.
  - destruct g; [|contradiction]. destruct idx; [|discriminate]. cbn in *. congruence.
  - destruct g as [|ch]; [contradiction|]. cbn [shaped] in Hs. destruct Hs as (Hlen & Hinc & Hch & Hall).
    destruct idx as [|i idx]; [discriminate|]. cbn [node_of] in Hn. cbn [grid_at] in Hg.
    destruct (nth_error ax i) as [x|] eqn:Ex; [|discriminate].
    destruct (node_of axes idx) as [r|] eqn:Er; [|discriminate]. inversion Hn; subst pt.
    destruct (nth_error ch i) as [c|] eqn:Ec; [|discriminate].
    cbn [interpN].
    assert (Hc : shaped axes c). { rewrite Forall_forall in Hall. apply Hall. eapply nth_error_In; exact Ec. }
    pose proof (IH c idx r v Hc Er Hg) as Hval.
    apply interp1_node with (k := i).
    + rewrite combine_length, map_length, Hch, Nat.min_id. exact Hlen.
    + rewrite map_fst_combine by (rewrite map_length; lia). exact Hinc.
    + apply nth_error_combine; [exact Ex|]. rewrite nth_error_map, Ec. cbn. rewrite Hval. reflexivity.
Qed.

(* inside the grid the interpolant is bounded by the extreme grid values (here: by any common bounds of the leaves) *)
Fixpoint leaves_between (lo hi : R) (g : grid) : Prop :=
  match g with Leaf v => lo <= v <= hi | Node ch => (fix all (l : list grid) : Prop := match l with [] => True | c :: r => leaves_between lo hi c /\ all r end) ch end.
Fixpoint in_box (axes : list (list R)) (p : list R) : Prop :=
  match axes, p with
  | [], [] => True
  | ax :: axes', p0 :: p' => hd 0 ax <= p0 <= last ax 0 /\ in_box axes' p'
  | _, _ => False
  end.

Theorem interpN_bounds lo hi : forall axes g p,
  shaped axes g -> leaves_between lo hi g -> in_box axes p -> lo <= interpN axes g p <= hi.
Proof.
  induction axes as [|ax axes IH]; intros g p Hs Hl Hb.
  - destruct g; [|contradiction]. cbn in *. exact Hl.
  - destruct g as [|ch]; [contradiction|]. cbn [shaped] in Hs. destruct Hs as (Hlen & Hinc & Hch & Hall).
    destruct p as [|p0 p']; [contradiction|]. cbn [in_box] in Hb. destruct Hb as [Hp0 Hb']. cbn [interpN].
    assert (Hvals : all_between lo hi (map (fun c => interpN axes c p') ch)).
    { unfold all_between. rewrite Forall_forall. intros y Hy. apply in_map_iff in Hy. destruct Hy as (c & <- & Hc).
      apply IH; [rewrite Forall_forall in Hall; apply Hall; exact Hc | | exact Hb'].
      cbn [leaves_between] in Hl. clear - Hl Hc. induction ch as [|c0 ch IHc]; [contradiction|]. destruct Hl as [H0 Hr].
      destruct Hc as [<- | Hc]; [exact H0 | apply IHc; assumption]. }
    apply interp1_bounds.
    + rewrite combine_length, map_length, Hch, Nat.min_id. exact Hlen.
    + rewrite map_fst_combine by (rewrite map_length; lia). exact Hinc.
    + assert (E : map snd (combine ax (map (fun c => interpN axes c p') ch)) = map (fun c => interpN axes c p') ch).
      { clear - Hch. set (m := map (fun c => interpN axes c p') ch). assert (length ax = length m) by (unfold m; rewrite map_length; lia).
        clearbody m. clear Hch. revert m H. induction ax as [|a ax IHa]; intros [|b m] H; cbn in *; try lia; [reflexivity|]. f_equal. apply IHa. lia. }
      rewrite E. exact Hvals.
    + intros x0 y0 r E. destruct ax as [|a ax']; [cbn in Hlen; lia|]. destruct (map (fun c => interpN axes c p') ch); cbn in E; [discriminate|].
      inversion E; subst. cbn in Hp0. lra.
    + rewrite map_fst_combine by (rewrite map_length; lia). lra.
Qed.
