(* Proof automation for statements  [yields G fuel f self args kws rg cu v cu' log]  and friends:
   the answers to the real-number decisions are FOUND by asking the interpreter which fact it needs
   next ([Need P]) and deciding P from the hypotheses; so a proof does not depend on the order in which
   the Python code performs its tests. *)
From Coq Require Import Reals ZArith String List Bool Lra Classical_Prop.
From Interval Require Import Tactic.
Require Import Py.PyAst Py.PyVal Py.PySem Py.XLemmas.
Import ListNotations.
Open Scope R_scope.

Ltac norm_max :=
  repeat match goal with
  | |- context [Rmax ?a ?b] => first [ rewrite (Rmax_left a b) by lra | rewrite (Rmax_right a b) by lra ]
  | |- context [Rmin ?a ?b] => first [ rewrite (Rmin_left a b) by lra | rewrite (Rmin_right a b) by lra ]
  end.
Ltac norm_max_in H :=
  repeat match type of H with
  | context [Rmax ?a ?b] => first [ rewrite (Rmax_left a b) in H by lra | rewrite (Rmax_right a b) in H by lra ]
  | context [Rmin ?a ?b] => first [ rewrite (Rmin_left a b) in H by lra | rewrite (Rmin_right a b) in H by lra ]
  end.

(* a fact about reals that follows from the hypotheses *)
Ltac real_fact0 := first [ assumption | lra | (intro; lra) | congruence | (pose proof PI_RGT_0; lra) | timeout 8 nra | (intro; timeout 8 nra) ].
(* the cheap part only (no non-linear search): tried for P and for ~P before the expensive tactics are allowed to run *)
Ltac cheap_fact0 := first [ assumption | lra | (intro; lra) | congruence | (pose proof PI_RGT_0; lra) ].
Ltac cheap_fact :=
  norm_dec; norm_max;
  first [ cheap_fact0
        | apply Rle_not_lt; cheap_fact0 | apply Rlt_not_le; cheap_fact0
        | apply Rlt_not_eq; cheap_fact0 | apply Rgt_not_eq; cheap_fact0
        | apply not_eq_sym; cheap_fact0 ].
Ltac real_fact :=
  norm_dec; norm_max;
  first [ real_fact0
        | apply Rle_not_lt; real_fact0 | apply Rlt_not_le; real_fact0
        | apply Rlt_not_eq; real_fact0 | apply Rgt_not_eq; real_fact0
        | apply not_eq_sym; real_fact0 ].
(* with closed decimal inputs, also try certified interval arithmetic *)
Ltac num_fact :=
  norm_dec; norm_max;
  first [ real_fact0 | interval
        | apply Rle_not_lt; first [lra | interval] | apply Rlt_not_le; first [lra | interval]
        | apply Rlt_not_eq; first [lra | interval] | apply Rgt_not_eq; first [lra | interval]
        | (intro; lra) ].

Ltac log_eq_hook := fail.
Ltac RUN_ t :=
  eval lazy -[Rplus Rmult Rminus Rdiv Rinv Ropp Rmax Rmin Rlt Rle Rgt Rge ln exp sqrt log10 IZR dec Rpower pow PI DBL_MAX not Rabs] in t.

(* [find_answers mk ds k]: extend the answer list [ds] until [mk ds] no longer stops at [Need]; then call the
   continuation [k] with the final list. A fact that the hypotheses leave open is split by excluded middle. *)
Ltac find_answers fact mk ds k :=
  let r := RUN_ (mk ds) in
  lazymatch r with
  | Need ?P =>
      first [ (let H := fresh "Hdec" in assert (H : P) by cheap_fact;
               let ds' := eval cbv in (ds ++ [true])%list in find_answers fact mk ds' k)
            | (let H := fresh "Hdec" in assert (H : ~ P) by cheap_fact;
               let ds' := eval cbv in (ds ++ [false])%list in find_answers fact mk ds' k)
            | (let H := fresh "Hdec" in assert (H : P) by fact;
               let ds' := eval cbv in (ds ++ [true])%list in find_answers fact mk ds' k)
            | (let H := fresh "Hdec" in assert (H : ~ P) by fact;
               let ds' := eval cbv in (ds ++ [false])%list in find_answers fact mk ds' k)
            | (let H := fresh "Hdec" in destruct (classic P) as [H | H];
               [ let ds' := eval cbv in (ds ++ [true])%list in find_answers fact mk ds' k
               | let ds' := eval cbv in (ds ++ [false])%list in find_answers fact mk ds' k ]) ]
  | _ => k ds
  end.

(* the standard shape: goal [yields G fuel c self args kws rg cu v cu' log] *)
Ltac yields_with fact finish :=
  lazymatch goal with
  | |- yields ?G ?fuel ?c ?self ?args ?kws ?rg ?cu ?v ?cu' ?log =>
      find_answers fact (fun ds => call G fuel c self args kws (World rg cu [] ds [])) (@nil bool)
        ltac:(fun ds => exists ds; eexists; split;
                [ run; finish
                | cbn [decs cur olog pc holds]; repeat split; try reflexivity; try fact; try log_eq_hook ])
  end.
Ltac yields_auto := yields_with real_fact ltac:(reflexivity).

(* value equality up to real arithmetic inside [VNum (Fin _)] leaves *)
Ltac fin_eq := match goal with |- Fin ?a = Fin ?b => apply f_equal; first [reflexivity | ring | field | lra] end.

(* finish a run whose result is one number: equal up to ring/field reasoning once subtraction is unfolded on both sides
   (the interpreter computes a - b as a + - b) *)
Ltac finish_num extra :=
  extra; unfold Rminus; norm_dec;
  lazymatch goal with
  | |- Ok (VNum (Fin ?a), ?w) = Ok (VNum (Fin ?b), ?w') =>
      first [ reflexivity
            | unify w' w; apply (f_equal (fun x : R => @Ok (val * world) (VNum (Fin x), w)));
              first [ring | field; repeat split; real_fact0 | (unfold Rdiv; ring)] ]
  end.

(* ---- the same for an arbitrary interpreter run [f : world -> res (A * world)] (e.g. a method body whose final [self] is observed) ---- *)
Definition yields_f {A} (f : world -> res (A * world)) (rg : nat -> R) (cu : nat) (v : A) (cu' : nat) (log : list (string * list val)) : Prop :=
  exists ds w', f (World rg cu [] ds []) = Ok (v, w') /\ decs w' = [] /\ cur w' = cu' /\ olog w' = log /\ holds (pc w').
Ltac yields_f_with fact finish :=
  lazymatch goal with
  | |- yields_f ?f ?rg ?cu ?v ?cu' ?log =>
      find_answers fact (fun ds => f (World rg cu [] ds [])) (@nil bool)
        ltac:(fun ds => exists ds; eexists; split;
                [ run; finish
                | cbn [decs cur olog pc holds]; repeat split; try reflexivity; try fact; try log_eq_hook ])
  end.
(* run the body of a method and return the receiver as it is when the body ends (Python mutates [self] in place) *)
Definition run_method (G : fenv) (fuel : nat) (fd : fundef) (self : val) (extra : env) (w : world) : res (val * world) :=
  do ow <- exec G fuel (f_body fd) (("self", self) :: extra) w;
  match fst ow with
  | ONormal ρ => match lookup "self" ρ with Some s => Ok (s, snd ow) | None => Stuck "self lost" end
  | OReturn _ => Stuck "method returned a value"
  | OTail _ _ _ => Stuck "tail call" end.
(* equality of interpreter results up to real arithmetic in the numeric leaves *)
Ltac real_leaf0 := first [ reflexivity | ring | (field; repeat split; real_fact0) | lra ].
Ltac real_leaf :=
  first [ real_leaf0
        | (match goal with
           | |- Rmax _ _ = Rmax _ _ => apply f_equal2
           | |- Rmin _ _ = Rmin _ _ => apply f_equal2
           | |- sqrt _ = sqrt _ => apply f_equal
           | |- ln _ = ln _ => apply f_equal
           | |- exp _ = exp _ => apply f_equal
           | |- log10 _ = log10 _ => apply f_equal
           | |- (_ + _ = _ + _)%R => apply f_equal2
           | |- (_ * _ = _ * _)%R => apply f_equal2
           | |- (_ / _ = _ / _)%R => apply f_equal2
           | |- (- _ = - _)%R => apply f_equal
           end; real_leaf) ].
Ltac val_eq :=
  repeat lazymatch goal with
         | |- @eq R _ _ => fail
         | |- _ => first [ reflexivity | progress f_equal
                         | (match goal with |- ?a = ?b => let a' := eval hnf in a in let b' := eval hnf in b in progress change (a' = b') end) ]
         end;
  try (unfold Rminus; norm_dec; real_leaf).

Ltac log_eq_hook ::= (lazymatch goal with |- @eq (list (string * list val)) _ _ => val_eq end).
