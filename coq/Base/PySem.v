From Coq Require Import Reals ZArith String List Bool Lra.
Require Import Py.PyAst Py.PyVal.
Import ListNotations.
Open Scope string_scope.

Record world := World { rng : nat -> R; cur : nat; olog : list (string * list val);
                        decs : list bool;       (* answers to the real-number decisions, in order *)
                        pc : list Prop }.       (* the facts those answers assert (path condition) *)
Definition decide (P : Prop) (w : world) : res (bool * world) :=
  match decs w with
  | b :: r => Ok (b, World (rng w) (cur w) (olog w) r ((if b then P else ~ P) :: pc w))
  | [] => Need P
  end.
Definition env := list (string * val).
Definition oracle := list val -> list (string * val) -> world -> res (val * world).
Inductive callee :=
| CFun (f : fundef)
| COracle (o : oracle)
| CClass (cls : string) (init : fundef)   (* ClassName(args): runs __init__ on a fresh object and returns it *)
| CTail (o : oracle).      (* a self-call in tail position `return self.m(...)`: performed by the caller after the body returns *)
Record fenv := FEnv { methods : string -> string -> option callee; globals : string -> option callee }.
(* module constants such as const.c : looked up through [globals] as zero-argument oracles *)
Inductive outcome := ONormal (ρ : env) | OReturn (v : val) | OTail (o : list val -> list (string * val) -> world -> res (val * world)) (args : list val) (kws : list (string * val)).

(* ---------- arithmetic on values; every test on a real goes through [decide] ---------- *)
Definition pure2 (f : xreal -> xreal -> xreal) (a b : val) (w : world) : res (val * world) :=
  match to_x a, to_x b with Some x, Some y => Ok (VNum (f x y), w) | _, _ => Exc "TypeError" end.
Definition m_mul (x y : xreal) (w : world) : res (xreal * world) :=
  match x, y with Fin a, Fin b => Ok (Fin (a * b), w) | _, _ => Stuck "non-finite product" end.
Definition m_div (x y : xreal) (w : world) : res (xreal * world) :=
  match x, y with
  | Fin a, Fin b =>
      do d <- decide (b = 0)%R w;
      if fst d then
        do p <- decide (0 < a)%R (snd d);
        if fst p then Ok (PosInf, snd p)
        else do n <- decide (a < 0)%R (snd p); Ok (if fst n then NegInf else NaN, snd n)
      else Ok (Fin (a / b), snd d)
  | _, _ => Stuck "non-finite quotient"
  end.
Definition m_lt (x y : xreal) (w : world) : res (bool * world) :=
  match x, y with
  | Fin a, Fin b => decide (a < b)%R w
  | NaN, _ | _, NaN => Ok (false, w)
  | NegInf, NegInf => Ok (false, w) | NegInf, _ => Ok (true, w)
  | PosInf, _ => Ok (false, w) | Fin _, PosInf => Ok (true, w) | Fin _, NegInf => Ok (false, w)
  end.
Definition m_le (x y : xreal) (w : world) : res (bool * world) :=
  match x, y with
  | Fin a, Fin b => decide (a <= b)%R w
  | NaN, _ | _, NaN => Ok (false, w)
  | NegInf, _ => Ok (true, w) | _, PosInf => Ok (true, w) | _, _ => Ok (false, w)
  end.
Definition m_eq (x y : xreal) (w : world) : res (bool * world) :=
  match x, y with
  | Fin a, Fin b => decide (a = b) w
  | NegInf, NegInf | PosInf, PosInf => Ok (true, w)
  | _, _ => Ok (false, w)
  end.
Definition m_log (base10 : bool) (x : xreal) (w : world) : res (xreal * world) :=
  match x with
  | Fin a => do p <- decide (0 < a)%R w;
             if fst p then Ok (Fin (if base10 then log10 a else ln a), snd p)
             else do z <- decide (a = 0)%R (snd p); Ok (if fst z then NegInf else NaN, snd z)
  | PosInf => Ok (PosInf, w) | _ => Ok (NaN, w)
  end.
Definition m_sqrt (x : xreal) (w : world) : res (xreal * world) :=
  match x with
  | Fin a => do p <- decide (0 <= a)%R w; Ok (if fst p then Fin (sqrt a) else NaN, snd p)
  | PosInf => Ok (PosInf, w) | _ => Ok (NaN, w)
  end.
Definition m_truthy1 (v : val) (w : world) : res (bool * world) :=
  match truthy v, v with
  | Some b, _ => Ok (b, w)
  | None, VNum (Fin a) => do z <- decide (a = 0)%R w; Ok (negb (fst z), snd z)
  | None, _ => Ok (true, w)
  end.
(* the truth value of a numpy array is that of its only element; with more than one element numpy raises *)
Definition m_truthy (v : val) (w : world) : res (bool * world) :=
  match v with
  | VArr [x] => m_truthy1 x w
  | VArr (_ :: _ :: _) => Exc "ValueError"
  | _ => m_truthy1 v w
  end.
(* numpy arrays: payload as a (nested) list; [ul] forgets the array tag, [arr] puts it on a list result *)
Definition ul (v : val) : val := match v with VArr l => VList l | _ => v end.
Definition arr (v : val) : val := match v with VList l => VArr l | _ => v end.
Definition is_arr (v : val) : bool := match v with VArr _ => true | _ => false end.
Definition is_seq (v : val) : bool := match v with VList _ | VArr _ => true | _ => false end.
Definition lift_x (r : res (xreal * world)) : res (val * world) := do xw <- r; Ok (VNum (fst xw), snd xw).
Definition num2 (f : xreal -> xreal -> world -> res (xreal * world)) (a b : val) (w : world) : res (val * world) :=
  match to_x a, to_x b with Some x, Some y => lift_x (f x y w) | _, _ => Exc "TypeError" end.
Definition do_binop (o : binop) (a b : val) (w : world) : res (val * world) :=
  match o, a, b with
  | Add, VInt x, VInt y => Ok (VInt (x + y), w)
  | Sub, VInt x, VInt y => Ok (VInt (x - y), w)
  | Mul, VInt x, VInt y => Ok (VInt (x * y), w)
  | Add, VList x, VList y => Ok (VList (x ++ y)%list, w)
  | Add, VStr x, VStr y => Ok (VStr (x ++ y), w)
  | Mod, VStr p, v => match str_of v with Some s => match fmt1 p s with Some r => Ok (VStr r, w) | None => Stuck "fmt" end | None => Stuck "fmt arg" end
  | Add, _, _ => pure2 xadd a b w
  | Sub, _, _ => pure2 xsub a b w
  | Mul, _, _ => num2 m_mul a b w
  | Div, _, _ => num2 m_div a b w
  | Pow, VInt x, VInt z => if (0 <=? z)%Z then Ok (VInt (x ^ z), w) else Stuck "int ** negative"
  | Pow, _, VInt z =>
      match to_x a with
      | Some (Fin x) => if (0 <=? z)%Z then Ok (VNum (Fin (x ^ Z.to_nat z)), w)
                        else do d <- decide (x = 0)%R w; if fst d then Ok (VNum PosInf, snd d) else Ok (VNum (Fin (/ (x ^ Z.to_nat (- z)))), snd d)
      | Some _ => Stuck "pow of non-finite" | None => Exc "TypeError" end
  | Pow, _, _ =>
      match to_x a, to_x b with
      | Some (Fin x), Some (Fin y) => do p <- decide (0 < x)%R w; if fst p then Ok (VNum (Fin (Rpower x y)), snd p) else Stuck "non-positive ** real"
      | Some _, Some _ => Stuck "pow of non-finite" | _, _ => Exc "TypeError" end
  | Mod, _, _ => Stuck "mod"
  | BitAnd, VBool x, VBool y => Ok (VBool (x && y), w)
  | BitAnd, _, _ => Stuck "&"
  end.
(* numpy broadcasting on nested lists: list (op) list elementwise, scalar (op) list, and
   matrix (op) vector along the last axis; fuel bounds the nesting depth *)
Fixpoint bcast (fuel : nat) (o : binop) (a b : val) (w : world) {struct fuel} : res (val * world) :=
  match fuel with O => Stuck "bcast depth" | S f =>
  let map_l := fix map_l (l : list val) (g : val -> world -> res (val * world)) (w : world) : res (list val * world) :=
      match l with [] => Ok ([], w) | x :: r => do xw <- g x w; do rw <- map_l r g (snd xw); Ok (fst xw :: fst rw, snd rw) end in
  let zip_l := fix zip_l (l1 l2 : list val) (w : world) : res (list val * world) :=
      match l1, l2 with
      | [], [] => Ok ([], w)
      | x :: r, y :: s => do xw <- bcast f o x y w; do rw <- zip_l r s (snd xw); Ok (fst xw :: fst rw, snd rw)
      | _, _ => Exc "ValueError" end in
  match a, b with
  | VList [x], VList ((_ :: _ :: _) as lb) => do r <- map_l lb (fun y w => bcast f o x y w) w; Ok (VList (fst r), snd r)   (* an axis of length 1 is stretched *)
  | VList ((_ :: _ :: _) as la), VList [y] => do r <- map_l la (fun x w => bcast f o x y w) w; Ok (VList (fst r), snd r)
  | VList la, VList lb =>
      match la, lb with
      | VList _ :: _, VList _ :: _ => do r <- zip_l la lb w; Ok (VList (fst r), snd r)        (* matrix, matrix *)
      | VList _ :: _, _ => do r <- map_l la (fun row w => bcast f o row b w) w; Ok (VList (fst r), snd r)   (* matrix, vector *)
      | _, VList _ :: _ => do r <- map_l lb (fun row w => bcast f o a row w) w; Ok (VList (fst r), snd r)   (* vector, matrix *)
      | _, _ => do r <- zip_l la lb w; Ok (VList (fst r), snd r)
      end
  | VList la, _ => do r <- map_l la (fun x w => bcast f o x b w) w; Ok (VList (fst r), snd r)
  | _, VList lb => do r <- map_l lb (fun y w => bcast f o a y w) w; Ok (VList (fst r), snd r)
  | _, _ => do_binop o a b w
  end end.
Definition do_binop_np (o : binop) (a b : val) (w : world) : res (val * world) :=
  match a, b with
  | VList la, VList lb =>
      match o with
      | Add => Ok (VList (la ++ lb)%list, w)                       (* Python lists concatenate *)
      | _ => Exc "TypeError" end
  | _, _ =>
      if is_seq a || is_seq b then do r <- bcast 4 o (ul a) (ul b) w; Ok (arr (fst r), snd r)   (* numpy: elementwise with broadcasting *)
      else do_binop o a b w
  end.
Fixpoint map1 (fuel : nat) (g : xreal -> world -> res (xreal * world)) (a : val) (w : world) {struct fuel} : res (val * world) :=
  match fuel with O => Stuck "map1 depth" | S f =>
  match a with
  | VList l =>
      do lw <- (fix go (l : list val) (w : world) : res (list val * world) :=
         match l with [] => Ok ([], w) | x :: r => do xw <- map1 f g x w; do rw <- go r (snd xw); Ok (fst xw :: fst rw, snd rw) end) l w;
      Ok (VList (fst lw), snd lw)
  | _ => match to_x a with Some x => lift_x (g x w) | None => Stuck "map1" end
  end end.
Definition np_outer (u v : val) (w : world) : res (val * world) :=
  let as_vec (x : val) := match x with VList _ => x | VNum _ | VInt _ => VList [x] | _ => x end in     (* numpy flattens; a scalar is a 1-vector *)
  match as_vec u, as_vec v with
  | VList lu, VList lv =>
      do r <- (fix go (l : list val) (w : world) : res (list val * world) :=
                 match l with [] => Ok ([], w) | x :: r => do xw <- bcast 3 Mul x (VList lv) w; do rw <- go r (snd xw); Ok (fst xw :: fst rw, snd rw) end) lu w;
      Ok (VList (fst r), snd r)
  | _, _ => Stuck "outer" end.
Fixpoint vsum (l : list val) (w : world) : res (val * world) :=
  match l with [] => Ok (VInt 0, w) | x :: r => do rw <- vsum r w; do_binop Add x (fst rw) (snd rw) end.
Definition vsum_l (l : list val) (w : world) : res (val * world) := vsum l w.
(* a.dot(b): vector.vector -> scalar, matrix.vector -> vector *)
Definition np_dot (a b : val) (w : world) : res (val * world) :=
  match a, b with
  | VList ((VList _ :: _) as rows), VList _ =>
      do r <- (fix go (l : list val) (w : world) : res (list val * world) :=
                 match l with [] => Ok ([], w)
                 | row :: r => do pw <- bcast 3 Mul row b w;
                               match fst pw with VList p => do sw <- vsum p (snd pw); do rw <- go r (snd sw); Ok (fst sw :: fst rw, snd rw) | _ => Stuck "dot" end
                 end) rows w;
      Ok (VList (fst r), snd r)
  | VList _, VList _ => do pw <- bcast 3 Mul a b w; match fst pw with VList p => vsum p (snd pw) | _ => Stuck "dot" end
  | _, _ => Stuck "dot" end.
Definition is_ident (a b : val) : bool :=      (* `is` : only used against None / True / False *)
  match a, b with VNone, VNone => true | VBool x, VBool y => Bool.eqb x y | _, _ => false end.
Fixpoint contains_l (x : val) (l : list val) : res bool :=
  match l with
  | [] => Ok false
  | h :: t => match val_eqb3 x h with Some true => Ok true | Some false => contains_l x t | None => Stuck "in: real comparison" end
  end.
Definition contains (x c : val) : res bool :=
  match c with
  | VList l | VTuple l | VArr l => contains_l x l
  | VDict d => Ok (match dict_get x d with Some _ => true | None => false end)
  | _ => Stuck "in: container"
  end.
Definition do_cmp (o : cmpop) (a b : val) (w : world) : res (bool * world) :=
  match o with
  | CIs => Ok (is_ident a b, w) | CIsNot => Ok (negb (is_ident a b), w)
  | CIn => do r <- contains a b; Ok (r, w) | CNotIn => do r <- contains a b; Ok (negb r, w)
  | CEq | CNotEq =>
      let flip (r : res (bool * world)) := do bw <- r; Ok (match o with CEq => fst bw | _ => negb (fst bw) end, snd bw) in
      match val_eqb3 a b with
      | Some r => flip (Ok (r, w))
      | None => match to_x a, to_x b with Some x, Some y => flip (m_eq x y w) | _, _ => Stuck "==" end
      end
  | _ => match to_x a, to_x b with
         | Some x, Some y => match o with CLt => m_lt x y w | CLtE => m_le x y w | CGt => m_lt y x w | _ => m_le y x w end
         | _, _ => Exc "TypeError" end
  end.
(* slices: a[lo:hi] reaches the interpreter as a[slice(lo, hi)]; the slice value is an object with two fields *)
Definition mk_slice (lo hi : val) : val := VObj "<slice>" [("lo", lo); ("hi", hi)].
Definition slice_parts (i : val) : option (val * val) :=
  match i with
  | VObj cls fs => if String.eqb cls "<slice>" then
                     match field_get "lo" fs, field_get "hi" fs with Some lo, Some hi => Some (lo, hi) | _, _ => None end
                   else None
  | _ => None end.
Definition slice_bounds (i : val) (n : nat) : option (nat * nat) :=     (* [start, stop) clipped to the length; negative bounds count from the end *)
  match slice_parts i with
  | Some (lo, hi) =>
      let clip (z : Z) := if (z <? 0)%Z then Z.to_nat (Z.max 0 (Z.of_nat n + z)) else Nat.min (Z.to_nat z) n in
      match (match lo with VNone => Some 0%nat | VInt z => Some (clip z) | _ => None end),
            (match hi with VNone => Some n | VInt z => Some (clip z) | _ => None end) with
      | Some a, Some b => Some (a, b)
      | _, _ => None end
  | None => None
  end.
Definition is_full_slice (i : val) : bool := match slice_parts i with Some (VNone, VNone) => true | _ => false end.
Definition seq_payload (v : val) : option (list val) := match v with VList l | VArr l | VTuple l => Some l | _ => None end.
Fixpoint col_get (rows : list val) (j : nat) : res (list val) :=
  match rows with
  | [] => Ok []
  | r :: t => match seq_payload r with
              | Some l => match nth_error l j with Some v => do rest <- col_get t j; Ok (v :: rest) | None => Exc "IndexError" end
              | None => Exc "IndexError" end
  end.
Fixpoint list_set_total (l : list val) (n : nat) (v : val) : option (list val) :=
  match l, n with
  | _ :: t, O => Some (v :: t)
  | h :: t, S m => match list_set_total t m v with Some t' => Some (h :: t') | None => None end
  | [], _ => None
  end.
Fixpoint col_set (rows : list val) (j : nat) (col : list val) : res (list val) :=
  match rows, col with
  | [], [] => Ok []
  | r :: t, v :: cv =>
      match r with
      | VArr l => match list_set_total l j v with Some l' => do rest <- col_set t j cv; Ok (VArr l' :: rest) | None => Exc "IndexError" end
      | VList l => match list_set_total l j v with Some l' => do rest <- col_set t j cv; Ok (VList l' :: rest) | None => Exc "IndexError" end
      | _ => Exc "IndexError" end
  | _, _ => Exc "ValueError"
  end.
Definition retag (like : val) (l : list val) : val := match like with VArr _ => VArr l | VTuple _ => VTuple l | _ => VList l end.
(* numpy: comparison of an array with a scalar / an array, elementwise; every element test is a decision *)
Fixpoint cmp_map (fuel : nat) (o : cmpop) (a b : val) (w : world) {struct fuel} : res (val * world) :=
  match fuel with O => Stuck "cmp depth" | S f =>
  let map_l := fix map_l (l : list val) (g : val -> world -> res (val * world)) (w : world) : res (list val * world) :=
      match l with [] => Ok ([], w) | x :: r => do xw <- g x w; do rw <- map_l r g (snd xw); Ok (fst xw :: fst rw, snd rw) end in
  let zip_l := fix zip_l (l1 l2 : list val) (w : world) : res (list val * world) :=
      match l1, l2 with
      | [], [] => Ok ([], w)
      | x :: r, y :: s => do xw <- cmp_map f o x y w; do rw <- zip_l r s (snd xw); Ok (fst xw :: fst rw, snd rw)
      | _, _ => Exc "ValueError" end in
  match seq_payload a, seq_payload b with
  | Some la, Some lb => do r <- zip_l la lb w; Ok (VArr (fst r), snd r)
  | Some la, None => do r <- map_l la (fun x w => cmp_map f o x b w) w; Ok (VArr (fst r), snd r)
  | None, Some lb => do r <- map_l lb (fun y w => cmp_map f o a y w) w; Ok (VArr (fst r), snd r)
  | None, None => do r <- do_cmp o a b w; Ok (VBool (fst r), snd r)
  end end.
(* np.where(mask): indices of the True entries, row-major; one index array per axis *)
Fixpoint where1 (l : list val) (i : Z) : res (list val) :=
  match l with
  | [] => Ok []
  | VBool true :: r => do t <- where1 r (i + 1)%Z; Ok (VInt i :: t)
  | VBool false :: r => where1 r (i + 1)%Z
  | _ => Stuck "where: non-boolean mask" end.
Fixpoint where2 (rows : list val) (i : Z) : res (list val * list val) :=
  match rows with
  | [] => Ok ([], [])
  | r :: t => match seq_payload r with
              | Some l => do js <- where1 l 0%Z; do rest <- where2 t (i + 1)%Z; Ok ((map (fun _ => VInt i) js ++ fst rest)%list, (js ++ snd rest)%list)
              | None => Stuck "where: ragged mask" end
  end.
Definition is_nested (l : list val) : bool := match l with x :: _ => match seq_payload x with Some _ => true | None => false end | [] => false end.
Definition np_where (m : val) : res val :=
  match seq_payload m with
  | Some l => if is_nested l then do r <- where2 l 0%Z; Ok (VTuple [VArr (fst r); VArr (snd r)])
              else do r <- where1 l 0%Z; Ok (VTuple [VArr r])
  | None => Stuck "where: mask" end.
Fixpoint take_idx (l : list val) (idx : list val) : res (list val) :=
  match idx with
  | [] => Ok []
  | VInt z :: r => if (z <? 0)%Z then Stuck "negative index"
                   else match nth_error l (Z.to_nat z) with Some v => do t <- take_idx l r; Ok (v :: t) | None => Exc "IndexError" end
  | _ => Stuck "fancy index: non-integer" end.
Fixpoint flatten2 (l : list val) : list val :=
  match l with [] => [] | x :: r => match seq_payload x with Some xs => (xs ++ flatten2 r)%list | None => x :: flatten2 r end end.
(* arrays of any rank as nested lists: all-integer index tuples *)
Fixpoint all_ints (l : list val) : option (list Z) :=
  match l with [] => Some [] | VInt z :: r => match all_ints r with Some t => Some (z :: t) | None => None end | _ => None end.
Fixpoint nd_get (c : val) (idx : list Z) {struct idx} : res val :=
  match idx with
  | [] => Ok c
  | z :: r => if (z <? 0)%Z then Stuck "negative index"
              else match seq_payload c with
                   | Some l => match nth_error l (Z.to_nat z) with Some x => nd_get x r | None => Exc "IndexError" end
                   | None => Exc "IndexError" end
  end.
Fixpoint nd_set (c : val) (idx : list Z) (v : val) {struct idx} : res val :=
  match idx with
  | [] => Ok v
  | z :: r => if (z <? 0)%Z then Stuck "negative index"
              else match seq_payload c with
                   | Some l => match nth_error l (Z.to_nat z) with
                               | Some x => do x' <- nd_set x r v;
                                           match list_set_total l (Z.to_nat z) x' with Some l' => Ok (retag c l') | None => Exc "IndexError" end
                               | None => Exc "IndexError" end
                   | None => Exc "IndexError" end
  end.
Fixpoint nd_zeros (shape : list nat) : val :=
  match shape with [] => VNum (Fin 0) | n :: r => VList (repeat (nd_zeros r) n) end.
Definition subscript (c i : val) : res val :=
  match c, i with
  | VList l, VInt z | VTuple l, VInt z | VArr l, VInt z =>
      if (z <? 0)%Z then
        (if (z =? -1)%Z then match l with [] => Exc "IndexError" | x :: r => Ok (last r x) end else Stuck "negative index")
      else match nth_error l (Z.to_nat z) with Some v => Ok v | None => Exc "IndexError" end
  | VDict d, k => match dict_get k d with Some v => Ok v | None => Exc "KeyError" end
  | VArr rows, VTuple [a; VInt z] =>                         (* 2-d array: m[:, j]  and  m[i, j] *)
      if (z <? 0)%Z then Stuck "negative index"
      else if is_full_slice a then do cl <- col_get rows (Z.to_nat z); Ok (VArr cl)
      else match a with
           | VInt y => if (y <? 0)%Z then Stuck "negative index"
                       else match nth_error rows (Z.to_nat y) with
                            | Some r => match seq_payload r with
                                        | Some l => match nth_error l (Z.to_nat z) with Some v => Ok v | None => Exc "IndexError" end
                                        | None => Exc "IndexError" end
                            | None => Exc "IndexError" end
           | _ => Stuck "subscript" end
  | VArr l, VTuple [VArr idx] | VArr l, VArr idx => do r <- take_idx l idx; Ok (VArr r)     (* a[np.where(mask)] on a 1-d array *)
  | VArr l, VTuple ((_ :: _ :: _ :: _) as ix) => match all_ints ix with Some zs => nd_get (VArr l) zs | None => Stuck "subscript" end   (* rank >= 3 *)
  | VObj _ _, _ => Stuck "subscript"
  | _, VObj _ _ =>                                            (* 1-d slice a[lo:hi] *)
      match seq_payload c with
      | Some l => match slice_bounds i (length l) with
                  | Some (a, b) => Ok (retag c (firstn (b - a) (skipn a l)))
                  | None => Stuck "slice" end
      | None => Stuck "subscript" end
  | _, _ => Stuck "subscript"
  end.
Fixpoint list_set (l : list val) (n : nat) (v : val) : option (list val) :=
  match l, n with
  | _ :: t, O => Some (v :: t)
  | h :: t, S m => match list_set t m v with Some t' => Some (h :: t') | None => None end
  | [], _ => None
  end.
Definition set_item (c i v : val) : res val :=
  match c, i with
  | VList l, VInt z => match list_set l (Z.to_nat z) v with Some l' => Ok (VList l') | None => Exc "IndexError" end
  | VArr l, VInt z => match list_set l (Z.to_nat z) v with Some l' => Ok (VArr l') | None => Exc "IndexError" end
  | VDict d, k => Ok (VDict (dict_set k v d))
  | VArr rows, VTuple [a; VInt z] =>                         (* m[:, j] = column *)
      if (z <? 0)%Z then Stuck "negative index"
      else if is_full_slice a then
        match seq_payload v with
        | Some cv => do rows' <- col_set rows (Z.to_nat z) cv; Ok (VArr rows')
        | None => Stuck "set_item: column value" end
      else match a with
           | VInt y => if (y <? 0)%Z then Stuck "negative index"
                       else match nth_error rows (Z.to_nat y) with
                            | Some r => match seq_payload r with
                                        | Some l => match list_set_total l (Z.to_nat z) v with
                                                    | Some l' => match list_set rows (Z.to_nat y) (retag r l') with Some rows' => Ok (VArr rows') | None => Exc "IndexError" end
                                                    | None => Exc "IndexError" end
                                        | None => Exc "IndexError" end
                            | None => Exc "IndexError" end
           | _ => Stuck "set_item" end
  | VArr rows, VTuple [VInt y; sl] =>                         (* m[i, :] = row *)
      if (y <? 0)%Z then Stuck "negative index"
      else if is_full_slice sl then
        match seq_payload v, nth_error rows (Z.to_nat y) with
        | Some rv, Some r => match seq_payload r with
                             | Some l => if Nat.eqb (length l) (length rv)
                                         then match list_set rows (Z.to_nat y) (retag r rv) with Some rows' => Ok (VArr rows') | None => Exc "IndexError" end
                                         else Exc "ValueError"
                             | None => Exc "IndexError" end
        | _, _ => Stuck "set_item: row value" end
      else Stuck "set_item"
  | VArr rows, VTuple [VObj c1 f1; VObj c2 f2] =>            (* m[r0:r1, c0:c1] = block  (same shape) *)
      match slice_bounds (VObj c1 f1) (length rows), seq_payload v with
      | Some (r0, r1), Some vrows =>
          if Nat.eqb (length vrows) (r1 - r0) then
            (fix go (rows : list val) (i : nat) (vrows : list val) : res val :=
               match rows with
               | [] => Ok (VArr [])
               | r :: t =>
                   if (Nat.leb r0 i && Nat.ltb i r1)%bool then
                     match vrows, seq_payload r with
                     | vr :: vt, Some l =>
                         match slice_bounds (VObj c2 f2) (length l), seq_payload vr with
                         | Some (c0, c1), Some vs =>
                             if Nat.eqb (length vs) (c1 - c0) then
                               do rest <- go t (S i) vt;
                               match rest with VArr rs => Ok (VArr (retag r (firstn c0 l ++ vs ++ skipn c1 l)%list :: rs)) | _ => Stuck "block set" end
                             else Exc "ValueError"
                         | _, _ => Stuck "set_item: block columns" end
                     | _, _ => Stuck "set_item: block rows" end
                   else do rest <- go t (S i) vrows; match rest with VArr rs => Ok (VArr (r :: rs)) | _ => Stuck "block set" end
               end) rows 0%nat vrows
          else Exc "ValueError"
      | _, _ => Stuck "set_item: block" end
  | VArr l, VTuple ((_ :: _ :: _ :: _) as ix) => match all_ints ix with Some zs => nd_set (VArr l) zs v | None => Stuck "set_item" end   (* rank >= 3 *)
  | VArr l, VObj _ _ =>                                        (* a[lo:hi] = values (same length) or a scalar (broadcast) *)
      match slice_bounds i (length l) with
      | Some (a, b) =>
          let n := (b - a)%nat in
          match seq_payload v with
          | Some vs => if Nat.eqb (length vs) n then Ok (VArr (firstn a l ++ vs ++ skipn b l)%list) else Exc "ValueError"
          | None => Ok (VArr (firstn a l ++ repeat v n ++ skipn b l)%list) end
      | None => Stuck "set_item: slice" end
  | _, _ => Stuck "set_item"
  end.

Fixpoint lookup (x : string) (ρ : env) : option val :=
  match ρ with [] => None | (y, v) :: t => if String.eqb x y then Some v else lookup x t end.
Fixpoint update (x : string) (v : val) (ρ : env) : env :=
  match ρ with [] => [(x, v)] | (y, w) :: t => if String.eqb x y then (y, v) :: t else (y, w) :: update x v t end.

Fixpoint dotted (e : expr) (ρ : env) : option string :=
  match e with
  | EName x => match lookup x ρ with None => Some x | Some _ => None end
  | EAttr e' a => match dotted e' ρ with Some s => Some (s ++ "." ++ a) | None => None end
  | _ => None
  end.

(* ---------- builtins ---------- *)
Definition num1 (f : xreal -> xreal) (args : list val) (w : world) : res (val * world) :=
  match args with [a] => match to_x a with Some x => Ok (VNum (f x), w) | None => Stuck "num1: non-scalar" end | _ => Exc "TypeError" end.
Definition num1m (f : xreal -> world -> res (xreal * world)) (args : list val) (w : world) : res (val * world) :=
  match args with [a] => match to_x a with Some x => lift_x (f x w) | None => Stuck "num1: non-scalar" end | _ => Exc "TypeError" end.
Fixpoint zrange (start : Z) (n : nat) : list val :=
  match n with O => [] | S m => VInt start :: zrange (start + 1) m end.
Fixpoint enum_from (i : Z) (l : list val) : list val :=
  match l with [] => [] | h :: t => VTuple [VInt i; h] :: enum_from (i + 1) t end.
Definition as_list (v : val) : res (list val) :=
  match v with VList l | VTuple l | VArr l => Ok l | VDict d => Ok (map fst d) | _ => Stuck "not iterable" end.
Definition pure_ (r : res val) (w : world) : res (val * world) := do v <- r; Ok (v, w).
Definition fold_num (f : R -> R -> R) (l : list val) : res val :=
  match l with
  | [] => Exc "ValueError"
  | x :: r =>
      match to_x x with
      | Some (Fin x0) =>
          (fix go (acc : R) (r : list val) : res val :=
             match r with [] => Ok (VNum (Fin acc))
             | y :: r' => match to_x y with Some (Fin y0) => go (f acc y0) r' | _ => Stuck "min/max: non-finite" end end) x0 r
      | _ => Stuck "min/max: non-finite" end
  end.
Definition const_like (c : val) (x : val) : val := match seq_payload x with Some row => VList (map (fun _ => c) row) | None => c end.
Fixpoint transpose_rows (fuel : nat) (rows : list (list val)) : list val :=
  match fuel with O => [] | S f =>
  match rows with
  | [] => []
  | r :: _ => match r with
              | [] => []
              | _ => VList (map (fun row => hd VNone row) rows) :: transpose_rows f (map (@tl val) rows) end
  end end.
Definition np_transpose (v : val) : res val :=
  match seq_payload v with
  | Some l => if is_nested l then
                match (fix go (l : list val) : option (list (list val)) :=
                         match l with [] => Some [] | x :: r => match seq_payload x, go r with Some row, Some rest => Some (row :: rest) | _, _ => None end end) l with
                | Some rows => Ok (VArr (transpose_rows (S (length (hd [] rows))) rows))
                | None => Stuck "transpose: ragged" end
              else Ok v
  | None => Stuck "transpose" end.
Definition np_mean (l : list val) (w : world) : res (val * world) :=
  do sw <- vsum_l l w; num2 m_div (fst sw) (VInt (Z.of_nat (length l))) (snd sw).
Definition np_average (l wl : list val) (w : world) : res (val * world) :=
  do pw <- bcast 3 Mul (VList l) (VList wl) w;
  match fst pw with
  | VList p => do sw <- vsum_l p (snd pw); do tw <- vsum_l wl (snd sw); num2 m_div (fst sw) (fst tw) (snd tw)
  | _ => Stuck "np.average" end.
(* elementwise binary numpy function (np.maximum, np.minimum) with scalar/array broadcasting *)
Fixpoint map2x (fuel : nat) (f : xreal -> xreal -> xreal) (a b : val) {struct fuel} : res val :=
  match fuel with O => Stuck "map2x depth" | S k =>
  match seq_payload a, seq_payload b with
  | Some la, Some lb =>
      do r <- (fix go (l1 l2 : list val) : res (list val) :=
                 match l1, l2 with
                 | [], [] => Ok []
                 | x :: r, y :: s => do v <- map2x k f x y; do t <- go r s; Ok (v :: t)
                 | _, _ => Exc "ValueError" end) la lb;
      Ok (VArr r)
  | Some la, None => do r <- (fix go (l : list val) : res (list val) := match l with [] => Ok [] | x :: r => do v <- map2x k f x b; do t <- go r; Ok (v :: t) end) la; Ok (VArr r)
  | None, Some lb => do r <- (fix go (l : list val) : res (list val) := match l with [] => Ok [] | y :: r => do v <- map2x k f a y; do t <- go r; Ok (v :: t) end) lb; Ok (VArr r)
  | None, None => match to_x a, to_x b with Some x, Some y => Ok (VNum (f x y)) | _, _ => Exc "TypeError" end
  end end.
Definition builtin (name : string) (args : list val) (kws : list (string * val)) (w : world) : option (res (val * world)) :=
  match name with
  | "slice" => Some (pure_ (match args with [lo; hi] => Ok (mk_slice lo hi) | _ => Stuck "slice arity" end) w)
  | "np.maximum" => Some (match args with [a; b] => pure_ (map2x 4 xmax a b) w | _ => Exc "TypeError" end)
  | "np.minimum" => Some (match args with [a; b] => pure_ (map2x 4 (fun x y => xneg (xmax (xneg x) (xneg y))) a b) w | _ => Exc "TypeError" end)
  | "np.zeros" => Some (pure_ (match args with
                     | [VInt n] => Ok (VArr (repeat (VNum (Fin 0)) (Z.to_nat n)))
                     | [sh] => match seq_payload sh with
                               | Some [VInt n] => Ok (VArr (repeat (VNum (Fin 0)) (Z.to_nat n)))
                               | Some [VInt n; VInt m] => Ok (VArr (repeat (VList (repeat (VNum (Fin 0)) (Z.to_nat m))) (Z.to_nat n)))
                               | Some dims => match all_ints dims with
                                              | Some zs => Ok (arr (nd_zeros (map Z.to_nat zs)))
                                              | None => Stuck "np.zeros: shape" end
                               | _ => Stuck "np.zeros: shape" end
                     | _ => Stuck "np.zeros" end) w)
  | "np.log10" => Some (match args with [a] => do r <- map1 3 (m_log true) (ul a) w; Ok ((if is_seq a then arr (fst r) else fst r), snd r) | _ => Exc "TypeError" end)
  | "np.log" => Some (match args with [a] => do r <- map1 3 (m_log false) (ul a) w; Ok ((if is_seq a then arr (fst r) else fst r), snd r) | _ => Exc "TypeError" end)
  | "np.exp" => Some (match args with [a] => do r <- map1 3 (fun x w => Ok (xexp x, w)) (ul a) w; Ok ((if is_seq a then arr (fst r) else fst r), snd r) | _ => Exc "TypeError" end)
  | "np.diag" => Some (pure_ (match args with
                     | [a] => match seq_payload a with
                              | Some l => if is_nested l then Stuck "np.diag of a matrix"
                                          else Ok (VArr (map (fun i => VList (map (fun j => if Nat.eqb i j then nth i l VNone else VNum (Fin 0)) (seq 0 (length l)))) (seq 0 (length l))))
                              | None => Stuck "np.diag" end
                     | _ => Stuck "np.diag" end) w)
  | "np.sqrt" | "math.sqrt" => Some (match args with [a] => do r <- map1 3 m_sqrt (ul a) w; Ok ((if is_seq a then arr (fst r) else fst r), snd r) | _ => Exc "TypeError" end)
  | "np.outer" => Some (match args with [u; v] => do r <- np_outer (ul u) (ul v) w; Ok (arr (fst r), snd r) | _ => Exc "TypeError" end)
  | "np.sum" => Some (match args with [a] => do l <- as_list a; vsum_l (flatten2 l) w | _ => Exc "TypeError" end)
  | "sum" => Some (match args with [a] => do l <- as_list a; vsum_l l w | _ => Exc "TypeError" end)
  | "np.zeros_like" => Some (pure_ (match args with [a] => do l <- as_list a; Ok (VArr (map (const_like (VNum (Fin 0))) l)) | _ => Exc "TypeError" end) w)
  | "np.ones_like" => Some (pure_ (match args with [a] => do l <- as_list a; Ok (VArr (map (const_like (VNum (Fin 1))) l)) | _ => Exc "TypeError" end) w)
  | "np.nanmean" => Some (match args with                     (* entries are finite reals in this model (no NaN): nanmean = mean *)
                      | [a] => do l <- as_list a;
                               match field_get "axis" kws with
                               | Some (VInt 0) =>
                                   do t <- np_transpose (VArr l);
                                   match t with
                                   | VArr cols => (fix go (cols : list val) (w : world) : res (val * world) :=
                                                     match cols with
                                                     | [] => Ok (VArr [], w)
                                                     | c :: r => do cl <- as_list c; do mw <- np_mean cl w; do rw <- go r (snd mw);
                                                                 match fst rw with VArr ms => Ok (VArr (fst mw :: ms), snd rw) | _ => Stuck "np.nanmean axis" end
                                                     end) cols w
                                   | _ => Stuck "np.nanmean axis" end
                               | Some _ => Stuck "np.nanmean: axis"
                               | None => np_mean (flatten2 l) w end
                      | _ => Stuck "np.nanmean: arity" end)
  | "np.mean" => Some (match args with
                      | [a] => do l <- as_list a;
                               match field_get "axis" kws with
                               | Some (VInt 0) =>          (* column means of a 2-d array *)
                                   do t <- np_transpose (VArr l);
                                   match t with
                                   | VArr cols => (fix go (cols : list val) (w : world) : res (val * world) :=
                                                     match cols with
                                                     | [] => Ok (VArr [], w)
                                                     | c :: r => do cl <- as_list c; do mw <- np_mean cl w; do rw <- go r (snd mw);
                                                                 match fst rw with VArr ms => Ok (VArr (fst mw :: ms), snd rw) | _ => Stuck "np.mean axis" end
                                                     end) cols w
                                   | _ => Stuck "np.mean axis" end
                               | Some _ => Stuck "np.mean: axis"
                               | None => np_mean (flatten2 l) w end
                      | _ => Stuck "np.mean: arity" end)
  | "np.average" => Some (match args with
                         | [a] => do l <- as_list a;
                                  match field_get "weights" kws with
                                  | None | Some VNone => np_mean l w
                                  | Some wv => do wl <- as_list wv; np_average l wl w end
                         | [a; wv] => do l <- as_list a; do wl <- as_list wv; np_average l wl w
                         | _ => Stuck "np.average: arity" end)
  | "np.std" => Some (match args with
                     | [a] => do l <- as_list a; do mw <- np_mean l w;
                              do dw <- bcast 3 Sub (VList l) (fst mw) (snd mw); do sw <- bcast 3 Pow (fst dw) (VInt 2) (snd dw);
                              do ll <- as_list (fst sw); do vw <- np_mean ll (snd sw);
                              match to_x (fst vw) with Some x => lift_x (m_sqrt x (snd vw)) | None => Stuck "np.std" end
                     | _ => Stuck "np.std: arity" end)
  | "zip" => Some (pure_ (match args with
                     | [a; b] => do la <- as_list a; do lb <- as_list b; Ok (VList (map (fun p => VTuple [fst p; snd p]) (combine la lb)))
                     | _ => Stuck "zip: arity" end) w)
  | "np.where" => Some (pure_ (match args with [m] => np_where m | _ => Stuck "np.where: arity" end) w)
  | "np.shape" => Some (pure_ (match args with
                     | [a] => match seq_payload a with
                              | Some l => match l with
                                          | x :: _ => match seq_payload x with Some xs => Ok (VTuple [VInt (Z.of_nat (length l)); VInt (Z.of_nat (length xs))])
                                                                              | None => Ok (VTuple [VInt (Z.of_nat (length l))]) end
                                          | [] => Ok (VTuple [VInt 0]) end
                              | None => Stuck "np.shape" end
                     | _ => Stuck "np.shape" end) w)
  | "np.abs" => Some (match args with [a] => do r <- map1 3 (fun x w => match x with Fin v => Ok (Fin (Rabs v), w) | NaN => Ok (NaN, w) | _ => Ok (PosInf, w) end) (ul a) w;
                                              Ok ((if is_seq a then arr (fst r) else fst r), snd r) | _ => Exc "TypeError" end)
  | "min" | "np.min" => Some (pure_ (match args with [a] => do l <- as_list a; fold_num Rmin (flatten2 l) | _ :: _ :: _ => fold_num Rmin args | _ => Stuck "min: arity" end) w)
  | "max" | "np.max" => Some (pure_ (match args with [a] => do l <- as_list a; fold_num Rmax (flatten2 l) | _ :: _ :: _ => fold_num Rmax args | _ => Stuck "max: arity" end) w)
  | "isinstance" => Some (pure_ (match args with
                     | [VList _; VMod "list"] => Ok (VBool true) | [_; VMod "list"] => Ok (VBool false)
                     | [VInt _; VMod "int"] => Ok (VBool true) | [VBool _; VMod "int"] => Ok (VBool true) | [_; VMod "int"] => Ok (VBool false)
                     | _ => Stuck "isinstance" end) w)
  | "hasattr" => Some (pure_ (match args with
                     | [VObj _ fs; VStr a] => Ok (VBool (match field_get a fs with Some _ => true | None => false end))
                     | _ => Stuck "hasattr" end) w)
  | "callable" => Some (pure_ (match args with [VObj "<bound method>" _] => Ok (VBool true) | [VObj _ _] => Stuck "callable(object)" | [_] => Ok (VBool false) | _ => Stuck "callable" end) w)
  | "tuple" => Some (pure_ (match args with [a] => do l <- as_list a; Ok (VTuple l) | _ => Stuck "tuple" end) w)
  | "np.append" => Some (pure_ (match args with
                     | [a; b] => let fl (x : val) := match seq_payload x with Some l => flatten2 l | None => [x] end in Ok (VArr (fl a ++ fl b)%list)
                     | _ => Stuck "np.append: arity" end) w)
  | "np.squeeze" => Some (pure_ (match args with
                      | [a] => match seq_payload a with
                               | Some [x] => match seq_payload x with Some [y] => Ok y | Some _ => Ok x | None => Ok x end      (* shape (1,) / (1,1) -> scalar *)
                               | Some _ => Ok a
                               | None => Ok a end
                      | _ => Stuck "np.squeeze: arity" end) w)
  | "np.ones" => Some (pure_ (match args with [VInt n] => Ok (VArr (repeat (VNum (Fin 1)) (Z.to_nat n))) | _ => Stuck "np.ones" end) w)
  | "np.nan_to_num" => Some (num1 xnan_to_num args w)
  | "np.isfinite" => Some (match args with
                          | [a] => match to_x a, seq_payload a with
                                   | Some x, _ => Ok (VBool (xisfinite x), w)
                                   | None, Some l =>
                                       do r <- (fix go (l : list val) : res (list val) :=
                                                  match l with [] => Ok []
                                                  | y :: t => match to_x y with Some x => do rest <- go t; Ok (VBool (xisfinite x) :: rest) | None => Stuck "isfinite" end end) l;
                                       Ok (VArr r, w)
                                   | None, None => Stuck "isfinite" end
                          | _ => Exc "TypeError" end)
  | "copy.deepcopy" | "float" => Some (match args with a :: _ => Ok (a, w) | _ => Exc "TypeError" end)
  | "np.array" | "np.asarray" => Some (match args with a :: _ => Ok (arr a, w) | _ => Exc "TypeError" end)
  | "int" => Some (match args with [VInt z] => Ok (VInt z, w) | _ => Stuck "int()" end)
  | "str" => Some (pure_ (match args with [a] => match str_of a with Some s => Ok (VStr s) | None => Stuck "str()" end | _ => Exc "TypeError" end) w)
  | "len" => Some (pure_ (match args with [a] => do l <- as_list a; Ok (VInt (Z.of_nat (length l))) | _ => Exc "TypeError" end) w)
  | "range" => Some (pure_ (match args with
                     | [VInt n] => Ok (VList (zrange 0 (Z.to_nat n)))
                     | [VInt a; VInt b] => Ok (VList (zrange a (Z.to_nat (b - a))))
                     | _ => Stuck "range" end) w)
  | "enumerate" => Some (pure_ (match args with [a] => do l <- as_list a; Ok (VList (enum_from 0 l)) | _ => Exc "TypeError" end) w)
  | _ => None
  end.

Definition draw_normal (args : list val) (kws : list (string * val)) (w : world) : res (val * world) :=
  let get k i := match field_get k kws with Some v => Some v | None => nth_error args i end in
  match get "loc" 0%nat, get "scale" 1%nat with
  | Some l, Some s =>
      match to_x l, to_x s with
      | Some (Fin loc), Some (Fin sc) =>
          let x := VNum (Fin (loc + sc * rng w (cur w))) in
          let w' := World (rng w) (S (cur w)) (olog w) (decs w) (pc w) in
          match get "size" 2%nat with
          | None | Some VNone => Ok (x, w')
          | Some (VInt 1) => Ok (VArr [x], w')            (* size=1: a one-element ARRAY, as numpy returns *)
          | Some _ => Stuck "normal: size" end
      | _, _ => Stuck "normal: non-finite"
      end
  | _, _ => Exc "TypeError"
  end.

(* ---------- parameter binding ---------- *)
Fixpoint bind_params (ps : list (string * option expr)) (args : list val) (kws : list (string * val))
         (evald : expr -> res val) : res (env * list (string * val)) :=
  match ps with
  | [] => match args with [] => Ok ([], kws) | _ => Exc "TypeError" end
  | (p, d) :: ps' =>
      match args with
      | a :: args' => do r <- bind_params ps' args' kws evald; Ok ((p, a) :: fst r, snd r)
      | [] =>
          match field_get p kws with
          | Some v => do r <- bind_params ps' [] (filter (fun kv => negb (String.eqb (fst kv) p)) kws) evald; Ok ((p, v) :: fst r, snd r)
          | None => match d with
                    | Some de => do v <- evald de; do r <- bind_params ps' [] kws evald; Ok ((p, v) :: fst r, snd r)
                    | None => Exc "TypeError"
                    end
          end
      end
  end.
Definition kw_dict (kws : list (string * val)) : val := VDict (map (fun kv => (VStr (fst kv), snd kv)) kws).
Fixpoint dict_kws (d : list (val * val)) : res (list (string * val)) :=
  match d with [] => Ok [] | (VStr k, v) :: t => do r <- dict_kws t; Ok ((k, v) :: r) | _ => Exc "TypeError" end.

(* writing through an l-value path; [ev] is the expression evaluator at the current fuel *)
Fixpoint assign (ev : expr -> env -> world -> res (val * world)) (fu : nat) (t : expr) (v : val) (ρ : env) (w : world)
         {struct fu} : res (env * world) :=
  match fu with O => Stuck "fuel" | S fu' =>
  match t with
  | EName x => Ok (update x v ρ, w)
  | ETuple ts =>
      match v with
      | VTuple vs | VList vs =>
          (fix go (ts : list expr) (vs : list val) (ρ : env) (w : world) : res (env * world) :=
             match ts, vs with
             | [], [] => Ok (ρ, w)
             | t1 :: tr, v1 :: vr => do r <- assign ev fu' t1 v1 ρ w; go tr vr (fst r) (snd r)
             | _, _ => Exc "ValueError" end) ts vs ρ w
      | _ => Exc "TypeError" end
  | ESub c i =>
      do cw <- ev c ρ w; do iw <- ev i ρ (snd cw);
      do c' <- set_item (fst cw) (fst iw) v; assign ev fu' c c' ρ (snd iw)
  | EAttr o a =>
      do ow <- ev o ρ w;
      match fst ow with
      | VObj cls fs => assign ev fu' o (VObj cls (field_set a v fs)) ρ (snd ow)
      | _ => Stuck "attr assign" end
  | _ => Stuck "assign target"
  end end.

(* one iteration of `for t in it: body` *)
Definition for_step (ev : expr -> env -> world -> res (val * world))
           (ex : list stmt -> env -> world -> res (outcome * world)) (fu : nat)
           (t it : expr) (body : list stmt) (x : val) (idx : Z) (ρ : env) (w : world) : res (outcome * world) :=
  do a <- assign ev fu t x ρ w;
  do ow <- ex body (fst a) (snd a);
  match fst ow with
  | OReturn _ | OTail _ _ _ => Ok ow
  | ONormal ρ' =>
      (* aliasing idiom `for d in L: d[k] = ...` : write the element back *)
      match it, t with
      | EName L, EName xn =>
          match lookup L ρ', lookup xn ρ' with
          | Some (VList l), Some (VDict dnew) =>
              match list_set l (Z.to_nat idx) (VDict dnew) with
              | Some l' => Ok (ONormal (update L (VList l') ρ'), snd ow)
              | None => Ok ow end
          | _, _ => Ok ow end
      | _, _ => Ok ow end
  end.

(* the for-loop as a named combinator, so that statements for every iteration count go by induction *)
Fixpoint iter_loop (step : val -> Z -> env -> world -> res (outcome * world))
         (items : list val) (idx : Z) (ρ : env) (w : world) {struct items} : res (outcome * world) :=
  match items with
  | [] => Ok (ONormal ρ, w)
  | x :: r =>
      do ow <- step x idx ρ w;
      match fst ow with
      | ONormal ρ' => iter_loop step r (idx + 1)%Z ρ' (snd ow)
      | _ => Ok ow
      end
  end.

Fixpoint evals_with (ev : expr -> env -> world -> res (val * world)) (l : list expr) (ρ : env) (w : world)
         {struct l} : res (list val * world) :=
  match l with [] => Ok ([], w) | x :: r => do vw <- ev x ρ w; do rw <- evals_with ev r ρ (snd vw); Ok (fst vw :: fst rw, snd rw) end.
(* one statement, given the evaluators of the enclosing fuel level *)
Definition exec_stmt (tl : string -> string -> option oracle)
           (runm : string -> string -> option (val -> list val -> world -> res (val * world)))   (* run a method body, return the FINAL receiver *)
           (ev : expr -> env -> world -> res (val * world))
           (evs : list expr -> env -> world -> res (list val * world))
           (ex : list stmt -> env -> world -> res (outcome * world)) (fu : nat)
           (s : stmt) (ρ : env) (w : world) : res (outcome * world) :=
  let assign_ := assign ev fu in
  let norm (r : res (env * world)) : res (outcome * world) := do x <- r; Ok (ONormal (fst x), snd x) in
  match s with
  | SPass => Ok (ONormal ρ, w)
  | SAssign t (ECall (EAttr recv "pop") [k] []) | SAssign t (ECall (EAttr recv "pop") [k; _] []) =>
      (* x = d.pop(k[, default]) : value and the shrunken dict written back into recv *)
      do rw <- ev recv ρ w; do kw <- ev k ρ (snd rw);
      match fst rw with
      | VDict d =>
          do dflt <- match s with
                     | SAssign _ (ECall _ [_; de] _) => do r <- ev de ρ (snd kw); Ok (Some (fst r))
                     | _ => Ok None end;
          match dict_get (fst kw) d, dflt with
          | Some v, _ => do r1 <- assign_ recv (VDict (dict_del (fst kw) d)) ρ (snd kw); norm (assign_ t v (fst r1) (snd r1))
          | None, Some dv => norm (assign_ t dv ρ (snd kw))
          | None, None => Exc "KeyError" end
      | _ => Stuck "pop receiver" end
  | SAssign t e => do vw <- ev e ρ w; norm (assign_ t (fst vw) ρ (snd vw))
  | SAug o t e =>
      do cur <- ev t ρ w; do vw <- ev e ρ (snd cur); do nv <- do_binop_np o (fst cur) (fst vw) (snd vw);
      norm (assign_ t (fst nv) ρ (snd nv))
  | SExpr (ECall (EAttr recv "append") [a] []) =>
      do rw <- ev recv ρ w; do aw <- ev a ρ (snd rw);
      match fst rw with
      | VList l => norm (assign_ recv (VList (l ++ [fst aw])%list) ρ (snd aw))
      | _ => Stuck "append receiver" end
  | SExpr (ECall (EAttr (ECall (EName "super") [EName c; EName sname] []) "__init__") args kws) =>
      (* super(C, self).__init__(...): the base constructor is the global "super(C).__init__" of the program (which class that is, is part of the
         function environment); it runs on self and the constructed object is written back to self *)
      do vw <- ev (ECall (EAttr (EName ("super(" ++ c ++ ")")) "__init__") (EName sname :: args) kws) ρ w; norm (assign_ (EName sname) (fst vw) ρ (snd vw))
  | SExpr (ECall (EAttr (EName _) "__init__") (EName sname :: _) _ as e) =>
      (* Base.__init__(self, ...): the (functional) constructor result is written back to self *)
      do vw <- ev e ρ w; norm (assign_ (EName sname) (fst vw) ρ (snd vw))
  | SExpr (ECall (EAttr (EName x) m) args []) =>
      (* x.m(args) as a statement, x a local holding an object, m a method of this program that ends without `return`:
         Python mutates the receiver in place - the receiver as it is when the body ends is written back to x *)
      match lookup x ρ with
      | Some (VObj cls fs) =>
          match runm cls m with
          | Some r => do aw <- evs args ρ w; do sw <- r (VObj cls fs) (fst aw) (snd aw); Ok (ONormal (update x (fst sw) ρ), snd sw)
          | None => do vw <- ev (ECall (EAttr (EName x) m) args []) ρ w; Ok (ONormal ρ, snd vw)
          end
      | _ => do vw <- ev (ECall (EAttr (EName x) m) args []) ρ w; Ok (ONormal ρ, snd vw)
      end
  | SExpr e => do vw <- ev e ρ w; Ok (ONormal ρ, snd vw)
  | SIf c t e => do cw <- ev c ρ w; do b <- m_truthy (fst cw) (snd cw); ex (if fst b then t else e) ρ (snd b)
  | SFor t it body =>
      do iw <- ev it ρ w; do items <- as_list (fst iw);
      iter_loop (for_step ev ex fu t it body) items 0%Z ρ (snd iw)
  | SReturn None => Ok (OReturn VNone, w)
  | SReturn (Some (ECall (EAttr recv m) args [])) =>
      do rw <- ev recv ρ w;
      match fst rw with
      | VObj cls _ =>
          match tl cls m with
          | Some o => do aw <- evs args ρ (snd rw); Ok (OTail o (fst rw :: fst aw) [], snd aw)
          | None => do vw <- ev (ECall (EAttr recv m) args []) ρ w; Ok (OReturn (fst vw), snd vw)
          end
      | _ => do vw <- ev (ECall (EAttr recv m) args []) ρ w; Ok (OReturn (fst vw), snd vw)
      end
  | SReturn (Some e) => do vw <- ev e ρ w; Ok (OReturn (fst vw), snd vw)
  | SRaise k => Exc k
  | SAssert c => do cw <- ev c ρ w; do b <- m_truthy (fst cw) (snd cw); if fst b then Ok (ONormal ρ, snd b) else Exc "AssertionError"
  | STry body handler =>
      match ex body ρ w with
      | Ok ow => Ok ow
      | Exc _ => ex handler ρ w
      | Stuck m => Stuck m | Need P => Need P end
  | SWith ctx name body =>        (* the context manager's value is bound; __enter__/__exit__ are not modelled (files only) *)
      do cw <- ev ctx ρ w;
      ex body (match name with Some x => update x (fst cw) ρ | None => ρ end) (snd cw)
  | SUnsupported m => Stuck ("unsupported stmt: " ++ m)
  end.
Fixpoint run_stmts (step : stmt -> env -> world -> res (outcome * world)) (ss : list stmt) (ρ : env) (w : world)
         {struct ss} : res (outcome * world) :=
  match ss with
  | [] => Ok (ONormal ρ, w)
  | s :: rest => do ow <- step s ρ w;
                 match fst ow with ONormal ρ' => run_stmts step rest ρ' (snd ow) | _ => Ok ow end
  end.

Section Interp.
Variable G : fenv.

Fixpoint eval (fuel : nat) (e : expr) (ρ : env) (w : world) {struct fuel} : res (val * world) :=
  match fuel with O => Stuck "fuel" | S f =>
  let evals := fix evals (l : list expr) (w : world) : res (list val * world) :=
      match l with [] => Ok ([], w) | x :: r => do vw <- eval f x ρ w; do rw <- evals r (snd vw); Ok (fst vw :: fst rw, snd rw) end in
  let evalkws := fix evalkws (l : list (option string * expr)) (w : world) : res (list (string * val) * world) :=
      match l with
      | [] => Ok ([], w)
      | (Some k, x) :: r => do vw <- eval f x ρ w; do rw <- evalkws r (snd vw); Ok ((k, fst vw) :: fst rw, snd rw)
      | (None, x) :: r => do vw <- eval f x ρ w;
                          match fst vw with
                          | VDict d => do ks <- dict_kws d; do rw <- evalkws r (snd vw); Ok ((ks ++ fst rw)%list, snd rw)
                          | _ => Exc "TypeError" end
      end in
  match e with
  | ENone => Ok (VNone, w) | EBool b => Ok (VBool b, w) | EInt z => Ok (VInt z, w)
  | EFloat m ex => Ok (VNum (Fin (dec m ex)), w) | EStr s => Ok (VStr s, w)
  | EName x => match lookup x ρ with
               | Some v => Ok (v, w)
               | None => match globals G x with Some (COracle o) => o [] [] w | _ => Ok (VMod x, w) end end
  | EAttr e' a =>
      do vw <- eval f e' ρ w;
      match fst vw with
      | VObj cls fs => match field_get a fs with
                       | Some v => Ok (v, snd vw)
                       | None => match methods G cls ("@" ++ a) with
                                 | Some c => call f c (Some (fst vw)) [] [] (snd vw)        (* a @property: attribute access calls it *)
                                 | None =>
                                 match methods G cls a with
                                 | Some _ => Ok (VObj "<bound method>" [("self", fst vw); ("cls", VStr cls); ("name", VStr a)], snd vw)
                                 | None => Exc "AttributeError" end end end
      | VArr _ | VList _ => if String.eqb a "T" then do t <- np_transpose (fst vw); Ok (t, snd vw) else Stuck "attr of an array"
      | VMod "np" => Ok (match a with "inf" => VNum PosInf | "pi" => VNum (Fin PI) | _ => VMod ("np." ++ a) end, snd vw)
      | VMod m => match globals G (m ++ "." ++ a) with
                  | Some (COracle o) => o [] [] (snd vw)
                  | _ => Ok (VMod (m ++ "." ++ a), snd vw) end
      | _ => Stuck "attr"
      end
  | ESub c i => do cw <- eval f c ρ w; do iw <- eval f i ρ (snd cw); do v <- subscript (fst cw) (fst iw); Ok (v, snd iw)
  | EBin o a b => do aw <- eval f a ρ w; do bw <- eval f b ρ (snd aw); do_binop_np o (fst aw) (fst bw) (snd bw)
  | EUn USub a => do aw <- eval f a ρ w;
                  match fst aw with VInt z => Ok (VInt (- z), snd aw) | VNum x => Ok (VNum (xneg x), snd aw) | _ => Exc "TypeError" end
  | EUn UNot a => do aw <- eval f a ρ w; do t <- m_truthy (fst aw) (snd aw); Ok (VBool (negb (fst t)), snd t)
  | ECmp o a b => do aw <- eval f a ρ w; do bw <- eval f b ρ (snd aw);
                  if is_arr (fst aw) || is_arr (fst bw) then
                    match o with CIs | CIsNot | CIn | CNotIn => do r <- do_cmp o (fst aw) (fst bw) (snd bw); Ok (VBool (fst r), snd r)
                               | _ => cmp_map 4 o (fst aw) (fst bw) (snd bw) end
                  else do r <- do_cmp o (fst aw) (fst bw) (snd bw); Ok (VBool (fst r), snd r)
  | EBoolOp o l =>
      (fix go (l : list expr) (w : world) : res (val * world) :=
         match l with
         | [] => Ok (VBool (match o with BAnd => true | BOr => false end), w)
         | [x] => eval f x ρ w
         | x :: r => do vw <- eval f x ρ w; do t <- m_truthy (fst vw) (snd vw);
                     match o, fst t with
                     | BAnd, false | BOr, true => Ok (fst vw, snd t)
                     | _, _ => go r (snd t) end
         end) l w
  | EIfExp c a b => do cw <- eval f c ρ w; do t <- m_truthy (fst cw) (snd cw); if fst t then eval f a ρ (snd t) else eval f b ρ (snd t)
  | EList l => do r <- evals l w; Ok (VList (fst r), snd r)
  | ETuple l => do r <- evals l w; Ok (VTuple (fst r), snd r)
  | EDict l =>
      (fix go (l : list (option expr * expr)) (acc : list (val * val)) (w : world) : res (val * world) :=
         match l with
         | [] => Ok (VDict acc, w)
         | (Some k, v) :: r => do kw <- eval f k ρ w; do vw <- eval f v ρ (snd kw); go r (dict_set (fst kw) (fst vw) acc) (snd vw)
         | (None, v) :: r => do vw <- eval f v ρ w;
                             match fst vw with
                             | VDict d => go r (fold_left (fun a kv => dict_set (fst kv) (snd kv) a) d acc) (snd vw)
                             | _ => Exc "TypeError" end
         end) l [] w
  | ECall fe args kws =>
      do aw <- evals args w; do kw <- evalkws kws (snd aw);
      let argv := fst aw in let kwv := fst kw in let w1 := snd kw in
      match dotted fe ρ with
      | Some name =>
          match (if String.eqb name "hasattr" then
                   (* hasattr(obj, "a"): a stored attribute OR a method / property of the object's class (needs the program, not only the value) *)
                   match argv with
                   | [VObj cls fs; VStr a] =>
                       Some (Ok (VBool (match field_get a fs with
                                        | Some _ => true
                                        | None => match methods G cls a, methods G cls ("@" ++ a) with None, None => false | _, _ => true end end), w1))
                   | _ => None end
                 else None) with
          | Some r => r
          | None =>
          match builtin name argv kwv w1 with
          | Some r => r
          | None =>
              if String.eqb name "np.random.normal" then draw_normal argv kwv w1
              else match globals G name with
                   | Some c => call f c None argv kwv w1
                   | None => Stuck ("unknown function " ++ name) end
          end end
      | None =>
          match fe with
          | EAttr recv m =>
              do rw <- eval f recv ρ w1;
              match fst rw with
              | VObj cls fs => match methods G cls m with
                              | Some c => call f c (Some (fst rw)) argv kwv (snd rw)
                              | None =>
                                  (* an attribute holding a callable object: obj.attr(args) = attr.__call__(args) *)
                                  match field_get m fs with
                                  | Some (VObj ocls ofs) =>
                                      if String.eqb ocls "<bound method>" then
                                        match field_get "self" ofs, field_get "cls" ofs, field_get "name" ofs with
                                        | Some o, Some (VStr bc), Some (VStr bm) =>
                                            match methods G bc bm with Some c => call f c (Some o) argv kwv (snd rw) | None => Stuck "bound method" end
                                        | _, _, _ => Stuck "bound method" end
                                      else
                                      match methods G ocls "__call__" with
                                      | Some c => call f c (Some (VObj ocls ofs)) argv kwv (snd rw)
                                      | None => Stuck ("object not callable " ++ ocls) end
                                  | _ => Stuck ("unknown method " ++ cls ++ "." ++ m) end end
              | VList _ | VArr _ =>
                  if String.eqb m "dot" then match argv with [b] => do r <- np_dot (ul (fst rw)) (ul b) (snd rw); Ok (arr (fst r), snd r) | _ => Exc "TypeError" end
                  else if String.eqb m "diagonal" then
                    match seq_payload (fst rw), argv with
                    | Some rows, [] =>
                        (fix go (rows : list val) (i : nat) : res (val * world) :=
                           match rows with
                           | [] => Ok (VArr [], snd rw)
                           | r :: t => match seq_payload r with
                                       | Some l => match nth_error l i with
                                                   | Some v => do rest <- go t (S i); match fst rest with VArr vs => Ok (VArr (v :: vs), snd rw) | _ => Stuck "diagonal" end
                                                   | None => Stuck "diagonal: not square" end
                                       | None => Stuck "diagonal: not a matrix" end
                           end) rows 0%nat
                    | _, _ => Stuck "diagonal" end
                  else Stuck ("list method " ++ m)
              | VDict d =>
                  match m, argv with
                  | "get", [k] => Ok (match dict_get k d with Some v => v | None => VNone end, snd rw)
                  | "get", [k; dflt] => Ok (match dict_get k d with Some v => v | None => dflt end, snd rw)
                  | "keys", [] => Ok (VList (map fst d), snd rw)
                  | _, _ => Stuck ("dict method " ++ m) end
              | VNum _ | VInt _ =>
                  if String.eqb m "reshape" then match argv with [VInt 1; VInt (-1)] => Ok (VArr [VList [fst rw]], snd rw) | _ => Stuck "reshape" end
                  else Stuck "call: receiver"
              | _ => Stuck "call: receiver"
              end
          | EName x =>
              match lookup x ρ with
              | Some (VObj "<bound method>" bf) =>
                  match field_get "self" bf, field_get "cls" bf, field_get "name" bf with
                  | Some o, Some (VStr cls), Some (VStr m) =>
                      match methods G cls m with Some c => call f c (Some o) argv kwv w1 | None => Stuck "bound method" end
                  | _, _, _ => Stuck "bound method" end
              | _ => Stuck "call: callee" end
          | _ => Stuck "call: callee"
          end
      end
  | EListComp elt target iter conds =>
      do iw <- eval f iter ρ w; do items <- as_list (fst iw);
      (fix go (items : list val) (acc : list val) (w : world) : res (val * world) :=
         match items with
         | [] => Ok (VList (rev acc), w)
         | x :: r =>
             do a <- assign (eval f) f target x ρ w;
             do cw <- (fix conj (cs : list expr) (w : world) : res (bool * world) :=
                         match cs with
                         | [] => Ok (true, w)
                         | c :: cs' => do vw <- eval f c (fst a) w; do t <- m_truthy (fst vw) (snd vw);
                                       if fst t then conj cs' (snd t) else Ok (false, snd t)
                         end) conds (snd a);
             if fst cw then do ew <- eval f elt (fst a) (snd cw); go r (fst ew :: acc) (snd ew)
             else go r acc (snd cw)
         end) items [] (snd iw)
  | EUnsupported s => Stuck ("unsupported expr: " ++ s)
  end end

with call (fuel : nat) (c : callee) (self : option val) (args : list val) (kws : list (string * val)) (w : world) {struct fuel} : res (val * world) :=
  match fuel with O => Stuck "fuel" | S f =>
  match c with
  | COracle o | CTail o => o (match self with Some s => s :: args | None => args end) kws w
  | CClass cls fd => call f (CFun fd) (Some (VObj cls [])) args kws w
  | CFun fd =>
      let args' := match self with Some s => if f_static fd then args else s :: args | None => args end in
      do b <- bind_params (f_params fd) args' kws (fun de => do r <- eval f de [] w; Ok (fst r));
      do ρ0 <- match snd b, f_kwarg fd with
               | [], None => Ok (fst b)
               | rest, Some k => Ok ((fst b ++ [(k, kw_dict rest)])%list)
               | _ :: _, None => Exc "TypeError" end;
      do ow <- exec f (f_body fd) ρ0 w;
      match fst ow with
      | OReturn v => Ok (v, snd ow)
      | ONormal ρ' => (* a constructor call evaluates to the constructed object *)
          if String.eqb (f_name fd) "__init__" then Ok (match lookup "self" ρ' with Some o => o | None => VNone end, snd ow)
          else Ok (VNone, snd ow)
      | OTail o targs tkws => o targs tkws (snd ow)
      end
  end end

with exec (fuel : nat) (ss : list stmt) (ρ : env) (w : world) {struct fuel} : res (outcome * world) :=
  match fuel with O => Stuck "fuel" | S f =>
    run_stmts (exec_stmt (fun cls m => match methods G cls m with Some (CTail o) => Some o | _ => None end)
                         (fun cls m => match methods G cls m with
                                       | Some (CFun fd) =>
                                           if f_static fd then None else
                                           Some (fun self args w =>
                                                   do b <- bind_params (f_params fd) (self :: args) [] (fun de => do r <- eval f de [] w; Ok (fst r));
                                                   do ρ0 <- match snd b, f_kwarg fd with
                                                            | [], None => Ok (fst b)
                                                            | rest, Some k => Ok ((fst b ++ [(k, kw_dict rest)])%list)
                                                            | _ :: _, None => Exc "TypeError" end;
                                                   do ow <- exec f (f_body fd) ρ0 w;
                                                   match fst ow with
                                                   | ONormal ρ' => Ok (match lookup "self" ρ' with Some o => o | None => self end, snd ow)
                                                   | OReturn _ => Ok (self, snd ow)      (* a `return` loses the callee's environment: no write-back *)
                                                   | OTail o targs tkws => do r <- o targs tkws (snd ow); Ok (self, snd r)
                                                   end)
                                       | _ => None end)
                         (eval f)
                         (evals_with (eval f))
                         (exec f) f) ss ρ w end.
End Interp.
