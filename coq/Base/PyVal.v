From Coq Require Import Reals ZArith String List Bool Lra DecimalString.
Require Import Py.PyAst.
Import ListNotations.
Open Scope string_scope.

(* ---------- extended reals: the numeric domain ---------- *)
Inductive xreal := Fin (r : R) | NegInf | PosInf | NaN.

Definition xneg (a : xreal) := match a with Fin r => Fin (- r) | NegInf => PosInf | PosInf => NegInf | NaN => NaN end.
Definition xadd (a b : xreal) : xreal :=
  match a, b with
  | Fin x, Fin y => Fin (x + y)
  | NaN, _ | _, NaN => NaN
  | NegInf, PosInf | PosInf, NegInf => NaN
  | NegInf, _ | _, NegInf => NegInf
  | PosInf, _ | _, PosInf => PosInf
  end.
Definition xsub a b := xadd a (xneg b).
Definition sgn_mul (inf : xreal) (r : R) : xreal :=      (* inf * finite r *)
  if Rlt_dec 0 r then inf else if Rlt_dec r 0 then xneg inf else NaN.
Definition xmul (a b : xreal) : xreal :=
  match a, b with
  | Fin x, Fin y => Fin (x * y)
  | NaN, _ | _, NaN => NaN
  | Fin x, i | i, Fin x => sgn_mul i x
  | PosInf, PosInf | NegInf, NegInf => PosInf
  | _, _ => NegInf
  end.
(* numpy float64 semantics: division by zero gives inf/nan, no exception *)
Definition xdiv (a b : xreal) : xreal :=
  match a, b with
  | Fin x, Fin y => if Req_EM_T y 0 then (if Rlt_dec 0 x then PosInf else if Rlt_dec x 0 then NegInf else NaN) else Fin (x / y)
  | NaN, _ | _, NaN => NaN
  | Fin _, _ => Fin 0
  | i, Fin y => sgn_mul i y
  | _, _ => NaN
  end.
Definition xlt (a b : xreal) : bool :=
  match a, b with
  | Fin x, Fin y => if Rlt_dec x y then true else false
  | NaN, _ | _, NaN => false
  | NegInf, NegInf => false | NegInf, _ => true
  | _, PosInf => match a with PosInf => false | _ => true end
  | _, _ => false
  end.
Definition xle (a b : xreal) : bool :=
  match a, b with
  | Fin x, Fin y => if Rle_dec x y then true else false
  | NaN, _ | _, NaN => false
  | NegInf, _ => true
  | _, PosInf => true
  | _, _ => false
  end.
Definition xeqb (a b : xreal) : bool :=
  match a, b with
  | Fin x, Fin y => if Req_EM_T x y then true else false
  | NegInf, NegInf | PosInf, PosInf => true
  | _, _ => false
  end.
Definition xexp (a : xreal) := match a with Fin r => Fin (exp r) | NegInf => Fin 0 | PosInf => PosInf | NaN => NaN end.
Definition xlog (a : xreal) := match a with
  | Fin r => if Rlt_dec 0 r then Fin (ln r) else if Req_EM_T r 0 then NegInf else NaN
  | PosInf => PosInf | _ => NaN end.
Definition log10 (x : R) := (ln x / ln 10)%R.
Definition xlog10 (a : xreal) := match a with
  | Fin r => if Rlt_dec 0 r then Fin (log10 r) else if Req_EM_T r 0 then NegInf else NaN
  | PosInf => PosInf | _ => NaN end.
Definition xsqrt (a : xreal) := match a with
  | Fin r => if Rle_dec 0 r then Fin (sqrt r) else NaN | PosInf => PosInf | _ => NaN end.
Definition xmax (a b : xreal) := match a, b with
  | NaN, _ | _, NaN => NaN | Fin x, Fin y => Fin (Rmax x y)
  | PosInf, _ | _, PosInf => PosInf | NegInf, o | o, NegInf => o end.
Definition xisfinite (a : xreal) := match a with Fin _ => true | _ => false end.
Definition DBL_MAX : R := (17976931348623157 * 10 ^ 292)%R.
Definition xnan_to_num (a : xreal) := match a with Fin r => Fin r | NaN => Fin 0 | PosInf => Fin DBL_MAX | NegInf => Fin (- DBL_MAX) end.
(* x ** y *)
Definition xpow_int (x : R) (z : Z) : xreal :=
  match z with
  | Z0 => Fin 1
  | Zpos p => Fin (x ^ Pos.to_nat p)
  | Zneg p => if Req_EM_T x 0 then PosInf else Fin (/ (x ^ Pos.to_nat p))
  end.
Definition xpow_real (x y : R) : xreal :=
  if Rlt_dec 0 x then Fin (Rpower x y)
  else if Req_EM_T x 0 then (if Rlt_dec 0 y then Fin 0 else if Req_EM_T y 0 then Fin 1 else PosInf)
  else NaN.

(* ---------- values ---------- *)
Inductive val :=
| VNone | VBool (b : bool) | VInt (z : Z) | VNum (x : xreal) | VStr (s : string)
| VList (l : list val) | VTuple (l : list val) | VDict (d : list (val * val))
| VArr (l : list val)        (* a numpy array (rows of a matrix are nested lists): arithmetic is elementwise, unlike Python lists *)
| VObj (cls : string) (fields : list (string * val))
| VMod (name : string).

Inductive res (A : Type) := Ok (a : A) | Exc (kind : string) | Stuck (why : string) | Need (P : Prop).
Arguments Ok {A}. Arguments Exc {A}. Arguments Stuck {A}. Arguments Need {A}.
Definition bind {A B} (r : res A) (f : A -> res B) : res B :=
  match r with Ok a => f a | Exc k => Exc k | Stuck s => Stuck s | Need P => Need P end.
Notation "'do' x <- e ; k" := (bind e (fun x => k)) (at level 200, x pattern, e at level 100, k at level 200).

Definition dec (m e : Z) : R := (IZR m / IZR (10 ^ (- e)))%R.     (* e <= 0 *)

Definition to_x (v : val) : option xreal :=
  match v with VInt z => Some (Fin (IZR z)) | VNum x => Some x | VBool b => Some (Fin (if b then 1 else 0)) | _ => None end.

(* decidable equality on the discrete part; a comparison that would need a decision on reals is None *)
Fixpoint val_eqb3 (a b : val) {struct a} : option bool :=
  match a, b with
  | VNone, VNone => Some true
  | VBool x, VBool y => Some (Bool.eqb x y)
  | VInt x, VInt y => Some (Z.eqb x y)
  | VNum _, VNum _ | VInt _, VNum _ | VNum _, VInt _ => None
  | VStr x, VStr y => Some (String.eqb x y)
  | VList x, VList y | VTuple x, VTuple y | VArr x, VArr y =>
      (fix go (l1 l2 : list val) : option bool :=
         match l1, l2 with
         | [], [] => Some true
         | p :: r, q :: s => match val_eqb3 p q with Some true => go r s | o => o end
         | _, _ => Some false end) x y
  | VMod x, VMod y => Some (String.eqb x y)
  | _, _ => Some false
  end.
Fixpoint val_eqb (a b : val) {struct a} : bool :=
  match a, b with
  | VNone, VNone => true
  | VBool x, VBool y => Bool.eqb x y
  | VInt x, VInt y => Z.eqb x y
  | VStr x, VStr y => String.eqb x y
  | VList x, VList y | VTuple x, VTuple y | VArr x, VArr y =>
      (fix go (l1 l2 : list val) : bool :=
         match l1, l2 with [], [] => true | p :: r, q :: s => val_eqb p q && go r s | _, _ => false end) x y
  | VMod x, VMod y => String.eqb x y
  | _, _ => false
  end.

Definition truthy (v : val) : option bool :=
  match v with
  | VNone => Some false | VBool b => Some b | VInt z => Some (negb (Z.eqb z 0))
  | VNum _ => None | VStr s => Some (negb (String.eqb s ""))
  | VList l | VTuple l | VArr l => Some (match l with [] => false | _ => true end)
  | VDict d => Some (match d with [] => false | _ => true end)
  | _ => Some true
  end.

Fixpoint dict_get (k : val) (d : list (val * val)) : option val :=
  match d with [] => None | (k', v) :: t => if val_eqb k k' then Some v else dict_get k t end.
Fixpoint dict_set (k v : val) (d : list (val * val)) : list (val * val) :=
  match d with [] => [(k, v)] | (k', v') :: t => if val_eqb k k' then (k', v) :: t else (k', v') :: dict_set k v t end.
Fixpoint dict_del (k : val) (d : list (val * val)) : list (val * val) :=
  match d with [] => [] | (k', v') :: t => if val_eqb k k' then t else (k', v') :: dict_del k t end.
Fixpoint field_get (k : string) (d : list (string * val)) : option val :=
  match d with [] => None | (k', v) :: t => if String.eqb k k' then Some v else field_get k t end.
Fixpoint field_set (k : string) (v : val) (d : list (string * val)) : list (string * val) :=
  match d with [] => [(k, v)] | (k', v') :: t => if String.eqb k k' then (k', v) :: t else (k', v') :: field_set k v t end.

Definition string_of_Z (z : Z) : string := NilZero.string_of_int (Z.to_int z).
Definition str_of (v : val) : option string :=
  match v with VStr s => Some s | VInt z => Some (string_of_Z z) | _ => None end.

(* "...%s..." % v  (one placeholder, %s or %i) *)
Definition pct : Ascii.ascii := Ascii.ascii_of_nat 37.
Definition ch_s : Ascii.ascii := Ascii.ascii_of_nat 115.
Definition ch_i : Ascii.ascii := Ascii.ascii_of_nat 105.
Fixpoint fmt1 (pat : string) (sub : string) : option string :=
  match pat with
  | EmptyString => None
  | String c rest =>
      if Ascii.eqb c pct then
        match rest with
        | String c2 rest2 =>
            if orb (Ascii.eqb c2 ch_s) (Ascii.eqb c2 ch_i) then Some (sub ++ rest2)
            else match fmt1 rest sub with Some r => Some (String c r) | None => None end
        | EmptyString => None
        end
      else match fmt1 rest sub with Some r => Some (String c r) | None => None end
  end.
