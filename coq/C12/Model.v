(* C12 — sample-based Ddt likelihoods: blind to order and weight scale, measurement = weighted mean / std, flag = constant. Source = C12.Src. *)
From Coq Require Import Reals ZArith String List Bool Lra Lia Permutation.
Require Import Py.PyAst Py.PyVal Py.PySem Py.XLemmas Py.Unfold Py.Tactics.
Require Import C12.Src.
Import ListNotations.
Open Scope string_scope.
Fixpoint assoc {A} (k : string) (l : list (string * A)) : option A :=
  match l with [] => None | (k', v) :: t => if String.eqb k k' then Some v else assoc k t end.
Definition num (r : R) := VNum (Fin r).
Definition vec (l : list R) := VArr (map num l).
Definition logc (tag : string) (args : list val) (w : world) : world := World (rng w) (cur w) ((tag, args) :: olog w) (decs w) (pc w).
Open Scope R_scope.

(* ------------------------------------------------------------------------------------------- *)
(* 1. reference: weighted moments and weighted histogram counts for samples of ANY size           *)
Fixpoint sumR (l : list R) : R := match l with [] => 0 | x :: r => x + sumR r end.
Definition wsum (f : R -> R) (xw : list (R * R)) : R := sumR (map (fun p => snd p * f (fst p)) xw).      (* sum_i w_i f(x_i) *)
Definition wtot (xw : list (R * R)) : R := wsum (fun _ => 1) xw.
Definition wmean (xw : list (R * R)) : R := wsum (fun x => x) xw / wtot xw.
Definition wvar (xw : list (R * R)) : R := wsum (fun x => (x - wmean xw) ^ 2) xw / wtot xw.
Definition count (lo hi : R) (xw : list (R * R)) : R := wsum (fun x => if Rle_dec lo x then if Rlt_dec x hi then 1 else 0 else 0) xw.   (* weighted count of [lo, hi) *)
Lemma sumR_app a b : sumR (a ++ b) = sumR a + sumR b.
Proof. induction a as [|x a IH]; cbn [app sumR]; [ring | rewrite IH; ring]. Qed.
Lemma sumR_perm a b : Permutation a b -> sumR a = sumR b.
Proof. induction 1; cbn [sumR]; try lra. Qed.
(* joint permutation of (samples, weights) *)
Theorem wsum_perm f a b : Permutation a b -> wsum f a = wsum f b.
Proof. intros H. unfold wsum. apply sumR_perm. apply Permutation_map. exact H. Qed.
Theorem wmean_perm a b : Permutation a b -> wmean a = wmean b.
Proof. intros H. unfold wmean, wtot. rewrite (wsum_perm _ a b H), (wsum_perm (fun _ => 1) a b H). reflexivity. Qed.
Theorem wvar_perm a b : Permutation a b -> wvar a = wvar b.
Proof. intros H. unfold wvar, wtot. rewrite (wmean_perm a b H). rewrite (wsum_perm _ a b H), (wsum_perm (fun _ => 1) a b H). reflexivity. Qed.
Theorem count_perm lo hi a b : Permutation a b -> count lo hi a = count lo hi b.
Proof. intros H. apply wsum_perm. exact H. Qed.
(* all weights multiplied by c *)
Definition scale_w (c : R) (xw : list (R * R)) := map (fun p => (fst p, c * snd p)) xw.
Lemma wsum_scale f c xw : wsum f (scale_w c xw) = c * wsum f xw.
Proof. unfold wsum, scale_w. rewrite map_map. cbn [fst snd]. induction xw as [|p r IH]; cbn [map sumR]; [ring | rewrite IH; ring]. Qed.
Theorem wmean_scale c xw : c <> 0 -> wtot xw <> 0 -> wmean (scale_w c xw) = wmean xw.
Proof. intros Hc Ht. unfold wmean, wtot. rewrite !wsum_scale. field. split; assumption. Qed.
Theorem wvar_scale c xw : c <> 0 -> wtot xw <> 0 -> wvar (scale_w c xw) = wvar xw.
Proof. intros Hc Ht. unfold wvar, wtot. rewrite (wmean_scale c xw Hc Ht). rewrite !wsum_scale. field. split; assumption. Qed.
Theorem count_scale lo hi c xw : count lo hi (scale_w c xw) = c * count lo hi xw.
Proof. apply wsum_scale. Qed.
(* integer weights = repeated samples *)
Fixpoint replicate (xn : list (R * nat)) : list (R * R) := match xn with [] => [] | (x, n) :: r => repeat (x, 1) n ++ replicate r end.
Definition as_weights (xn : list (R * nat)) : list (R * R) := map (fun p => (fst p, INR (snd p))) xn.
Lemma wsum_repeat f x n : wsum f (repeat (x, 1) n) = INR n * f x.
Proof. induction n as [|n IH]; [cbn; ring|]. cbn [repeat]. unfold wsum in *. cbn [map sumR fst snd]. rewrite IH. rewrite S_INR. ring. Qed.
Theorem wsum_replicate f xn : wsum f (replicate xn) = wsum f (as_weights xn).
Proof.
  induction xn as [|[x n] r IH]; [reflexivity|]. cbn [replicate as_weights map]. unfold wsum in *. rewrite map_app, sumR_app.
  change (sumR (map (fun p => snd p * f (fst p)) (repeat (x, 1) n))) with (wsum f (repeat (x, 1) n)). rewrite wsum_repeat. cbn [map sumR fst snd]. rewrite IH. reflexivity.
Qed.
Theorem wmean_replicate xn : wmean (replicate xn) = wmean (as_weights xn).
Proof. unfold wmean, wtot. rewrite !wsum_replicate. reflexivity. Qed.
Theorem wvar_replicate xn : wvar (replicate xn) = wvar (as_weights xn).
Proof. unfold wvar, wtot. rewrite wmean_replicate. rewrite !wsum_replicate. reflexivity. Qed.
Theorem count_replicate lo hi xn : count lo hi (replicate xn) = count lo hi (as_weights xn).
Proof. apply wsum_replicate. Qed.
(* a weighted mixture of unit-mass kernels has unit mass: for any LINEAR functional I (the integral over Ddt) *)
Section Mixture.
Variable I : (R -> R) -> R.
Hypothesis I_add : forall f g, I (fun t => f t + g t) = I f + I g.
Hypothesis I_scal : forall c f, I (fun t => c * f t) = c * I f.
Hypothesis I_zero : I (fun _ => 0) = 0.
Variable K : R -> R -> R.                      (* kernel centred on a sample *)
Hypothesis K_unit : forall x, I (K x) = 1.
Fixpoint mix (xw : list (R * R)) (t : R) : R := match xw with [] => 0 | (x, w) :: r => w * K x t + mix r t end.
Lemma I_mix xw : I (mix xw) = wtot xw.
Proof.
  induction xw as [|[x w] r IH]; [cbn; exact I_zero|]. cbn [mix]. rewrite I_add, I_scal, K_unit, IH. unfold wtot, wsum. cbn [map sumR fst snd]. ring.
Qed.
Theorem mixture_integrates_to_one_partial xw : wtot xw <> 0 -> I (fun t => / wtot xw * mix xw t) = 1.
Proof. intros H. rewrite I_scal, I_mix. field. exact H. Qed.
End Mixture.

(* ------------------------------------------------------------------------------------------- *)
(* 2. the constructors and evaluation, run on three symbolic samples with symbolic weights         *)
Section Run.
Variables x0 x1 x2 w0 w1 w2 : R.
Variables v0 v2 e0 e1 e2 e3 : R.                (* what numpy.histogram returns: counts (v0, 0, v2), edges *)
Variable Kpdf : R -> R.                          (* the fitted density's log-pdf *)
Definition hist_oracle : callee := COracle (fun args kws w => Ok (VTuple [vec [v0; 0; v2]; vec [e0; e1; e2; e3]], logc "np.histogram" (args ++ map snd kws)%list w)).
Definition kde_ctor : callee := COracle (fun args kws w => Ok (VObj "gaussian_kde" kws, logc "gaussian_kde" (args ++ map snd kws)%list w)).
Definition skl_ctor : callee := COracle (fun args kws w => Ok (VObj "KernelDensity" kws, w)).
Definition skl_fit : callee := COracle (fun args kws w => Ok (VObj "KernelDensity" [], logc "fit" (tl args ++ map snd kws)%list w)).
Definition logpdf : callee := COracle (fun args kws w => match args with [_; v] => match to_x v with Some (Fin t) => Ok (num (Kpdf t), w) | _ => Stuck "logpdf" end | _ => Stuck "logpdf" end).
Definition score : callee := COracle (fun args kws w => match args with [_; VArr [VList [v]]] => match to_x v with Some (Fin t) => Ok (num (Kpdf t), w) | _ => Stuck "score" end | _ => Stuck "score: needs a (1, n) array" end).
Definition G : fenv := FEnv (fun cls m =>
    if String.eqb cls "gaussian_kde" then (if String.eqb m "logpdf" then Some logpdf else None)
    else if String.eqb cls "KernelDensity" then (if String.eqb m "fit" then Some skl_fit else if String.eqb m "score" then Some score else None) else None)
  (fun n => if String.eqb n "np.histogram" then Some hist_oracle else if String.eqb n "gaussian_kde" then Some kde_ctor
            else if String.eqb n "KernelDensity" then Some skl_ctor else None).
Definition samples := vec [x0; x1; x2].  Definition weights := vec [w0; w1; w2].
Definition xw := [(x0, w0); (x1, w1); (x2, w2)].
(* numpy.std of the samples: UNWEIGHTED (used only for the constant of the un-normalised form) *)
Definition mean_u := (x0 + (x1 + (x2 + 0))) / 3.
Definition var_u := ((x0 + - mean_u) ^ 2 + ((x1 + - mean_u) ^ 2 + ((x2 + - mean_u) ^ 2 + 0))) / 3.
Definition sigma_u := sqrt var_u.
(* numpy.average with weights, in the shape the interpreter produces it; equal to the reference wmean / wvar (below) *)
Definition mean_w := (x0 * w0 + (x1 * w1 + (x2 * w2 + 0))) / (w0 + (w1 + (w2 + 0))).
Definition var_w := ((x0 + - mean_w) ^ 2 * w0 + ((x1 + - mean_w) ^ 2 * w1 + ((x2 + - mean_w) ^ 2 * w2 + 0))) / (w0 + (w1 + (w2 + 0))).
Hypothesis wpos : w0 + (w1 + (w2 + 0)) <> 0.
Hypothesis spos : 0 < sigma_u.
Hypothesis vpos : 0 < v0 /\ 0 < v2.
Hypothesis varpos : 0 <= var_w.
Lemma var_u_nonneg : 0 <= var_u.
Proof. unfold var_u. pose proof (pow2_ge_0 (x0 + - mean_u)). pose proof (pow2_ge_0 (x1 + - mean_u)). pose proof (pow2_ge_0 (x2 + - mean_u)). lra. Qed.
Lemma mean_w_is_wmean : mean_w = wmean xw.
Proof. unfold mean_w, wmean, wtot, wsum, xw. cbn [map sumR fst snd]. field. intro E; apply wpos; lra. Qed.
Lemma var_w_is_wvar : var_w = wvar xw.
Proof. unfold var_w, wvar. rewrite <- mean_w_is_wmean. unfold wtot, wsum, xw. cbn [map sumR fst snd]. field. intro E; apply wpos; lra. Qed.

(* DdtHist, default (histogram) path: bin centres of the non-empty bins with their counts go to the KDE; measurement = weighted mean / std;
   the flag only switches a Ddt-independent constant *)
Definition hist_obj (normalized : bool) := VObj "DdtHistLikelihood"
  [("_kde", VObj "gaussian_kde" [("dataset", VList [num ((e0 + e1) / 2); num ((e2 + e3) / 2)]); ("weights", VList [num v0; num v2])]);
   ("num_data", VInt 1); ("_sigma", num sigma_u);
   ("_norm_factor", if normalized then VInt 0 else num (ln (1 / sigma_u / sqrt (2 * PI))));
   ("_ddt_mean", num mean_w); ("_ddt_sigma", num (sqrt var_w))].
Theorem ddt_hist_ctor (normalized : bool) zl zs rg cu :
  yields G 100 (CClass "DdtHistLikelihood" src_DdtHistLikelihood_init) None [zl; zs; samples]
    [("ddt_weights", weights); ("nbins_hist", VInt 3); ("normalized", VBool normalized)] rg cu (hist_obj normalized) cu
    [("gaussian_kde", [VList [num ((e0 + e1) / 2); num ((e2 + e3) / 2)]; VList [num v0; num v2]]);
     ("np.histogram", [samples; VInt 3; weights])].
Proof.
  destruct vpos as (V0 & V2). pose proof PI_RGT_0 as Hpi. pose proof var_u_nonneg as Hvu.
  assert (S2 : 0 < sqrt (2 * PI)) by (apply sqrt_lt_R0; lra).
  assert (Hn : 0 < 1 / sigma_u / sqrt (2 * PI)) by (apply Rdiv_lt_0_compat; [apply Rdiv_lt_0_compat; [lra | exact spos] | exact S2]).
  unfold hist_obj, sigma_u, var_w, mean_w, var_u, mean_u, samples, weights in *.
  destruct normalized; yields_with real_fact ltac:(val_eq).
Qed.
Theorem ddt_hist_value (normalized : bool) t rg cu :
  yields G 60 (CFun src_DdtHistLikelihood_log_likelihood) (Some (hist_obj normalized)) [num t] [] rg cu
    (num (Kpdf t - (if normalized then 0 else ln (1 / sigma_u / sqrt (2 * PI))))) cu [].
Proof. destruct normalized; unfold hist_obj; yields_with real_fact ltac:(val_eq). Qed.
(* hence: un-normalised minus normalised is a constant that does not depend on Ddt *)
Lemma flag_is_a_constant t : (Kpdf t - ln (1 / sigma_u / sqrt (2 * PI))) - (Kpdf t - 0) = - ln (1 / sigma_u / sqrt (2 * PI)).
Proof. ring. Qed.
Theorem ddt_hist_measurement (normalized : bool) rg cu :
  yields G 60 (CFun src_DdtHistLikelihood_ddt_measurement) (Some (hist_obj normalized)) [] [] rg cu (VTuple [num mean_w; num (sqrt var_w)]) cu [].
Proof. destruct normalized; yields_auto. Qed.

(* DdtHist with a bandwidth rule: the KDE is built on the RAW samples with their weights and the rule *)
Theorem ddt_hist_ctor_bw (rule : val) zl zs rg cu : rule = VStr "scott" ->
  exists o, yields G 100 (CClass "DdtHistLikelihood" src_DdtHistLikelihood_init) None [zl; zs; samples]
    [("ddt_weights", weights); ("binning_method", rule); ("normalized", VBool true)] rg cu o cu
    [("gaussian_kde", [samples; rule; weights])]
  /\ field_get "_ddt_mean" (match o with VObj _ fs => fs | _ => [] end) = Some (num mean_w)
  /\ field_get "_ddt_sigma" (match o with VObj _ fs => fs | _ => [] end) = Some (num (sqrt var_w)).
Proof.
  intros ->. pose proof var_u_nonneg as Hvu. unfold sigma_u, var_w, mean_w, var_u, mean_u, samples, weights in *.
  eexists. split; [yields_with real_fact ltac:(val_eq) | split; reflexivity].
Qed.

(* DdtHistKDE: density histogram -> bin centres of non-empty bins as 1-tuples with their heights -> sklearn KernelDensity(kernel, bandwidth).fit *)
Theorem ddt_hist_kde_ctor (normalized : bool) zl zs rg cu :
  exists o, yields G 100 (CClass "DdtHistKDELikelihood" src_DdtHistKDELikelihood_init) None [zl; zs; samples]
    [("ddt_weights", weights); ("bandwidth", num 20); ("nbins_hist", VInt 3); ("normalized", VBool normalized)] rg cu o cu
    [("fit", [VList [VTuple [num ((e0 + e1) / 2)]; VTuple [num ((e2 + e3) / 2)]]; VList [num v0; num v2]]);
     ("np.histogram", [samples; VInt 3; weights; VBool true])]
  /\ field_get "_ddt_mean" (match o with VObj _ fs => fs | _ => [] end) = Some (num mean_w)
  /\ field_get "_ddt_sigma" (match o with VObj _ fs => fs | _ => [] end) = Some (num (sqrt var_w))
  /\ field_get "_norm_factor" (match o with VObj _ fs => fs | _ => [] end) = Some (if normalized then VInt 0 else num (ln (1 / sigma_u / sqrt (2 * PI)))).
Proof.
  destruct vpos as (V0 & V2). pose proof PI_RGT_0 as Hpi. pose proof var_u_nonneg as Hvu.
  assert (S2 : 0 < sqrt (2 * PI)) by (apply sqrt_lt_R0; lra).
  assert (Hn : 0 < 1 / sigma_u / sqrt (2 * PI)) by (apply Rdiv_lt_0_compat; [apply Rdiv_lt_0_compat; [lra | exact spos] | exact S2]).
  unfold sigma_u, var_w, mean_w, var_u, mean_u, samples, weights in *.
  destruct normalized; (eexists; split; [yields_with real_fact ltac:(val_eq) | repeat split; try reflexivity; cbn [field_get String.eqb Ascii.eqb Bool.eqb]; val_eq]).
Qed.
Definition kde_obj (nf : val) := VObj "DdtHistKDELikelihood"
  [("_score", VObj "<bound method>" [("self", VObj "KernelDensity" []); ("cls", VStr "KernelDensity"); ("name", VStr "score")]); ("num_data", VInt 1);
   ("_norm_factor", nf); ("_ddt_mean", num mean_w); ("_ddt_sigma", num (sqrt var_w))].
Theorem ddt_hist_kde_value (nf : R) t rg cu :
  yields G 60 (CFun src_DdtHistKDELikelihood_log_likelihood) (Some (kde_obj (num nf))) [num t] [] rg cu (num (Kpdf t - nf)) cu [].
Proof. unfold kde_obj. yields_with real_fact ltac:(val_eq). Qed.
Theorem ddt_hist_kde_measurement nf rg cu :
  yields G 60 (CFun src_DdtHistKDELikelihood_ddt_measurement) (Some (kde_obj nf)) [] [] rg cu (VTuple [num mean_w; num (sqrt var_w)]) cu [].
Proof. yields_auto. Qed.
End Run.

(* ------------------------------------------------------------------------------------------- *)
(* 3. the joint histogram + kinematics type and the type table of ddt_measurement                  *)
Section Joint.
Variables (fa fb : list val -> list (string * val) -> R) (mm : val).
Definition part (tag : string) (f : list val -> list (string * val) -> R) : callee :=
  COracle (fun args kws w => Ok (num (f (tl args) kws), logc tag (tl args ++ map snd kws)%list w)).
Definition Gj : fenv := FEnv (fun cls m =>
    if String.eqb m "log_likelihood" then (if String.eqb cls "TD" then Some (part "ddt" fa) else if String.eqb cls "KIN" then Some (part "kin" fb) else None)
    else if String.eqb m "ddt_measurement" then
      (if String.eqb cls "TD" then Some (COracle (fun _ _ w => Ok (mm, w))) else if String.eqb cls "DdtHistKinLikelihood" then Some (CFun src_DdtHistKinLikelihood_ddt_measurement) else None)
    else None) (fun _ => None).
Definition joint := VObj "DdtHistKinLikelihood" [("_tdLikelihood", VObj "TD" []); ("_kinlikelihood", VObj "KIN" [])].
Theorem hist_kin_is_sum ddt dd ks sv rg cu :
  yields Gj 60 (CFun src_DdtHistKinLikelihood_log_likelihood) (Some joint) [ddt; dd; ks] [("sigma_v_sys_error", sv)] rg cu
    (num (fa [ddt] [] + fb [ddt; dd; ks] [("sigma_v_sys_error", sv)])) cu [("kin", [ddt; dd; ks; sv]); ("ddt", [ddt])].
Proof. yields_auto. Qed.
Theorem hist_kin_measurement rg cu : yields Gj 60 (CFun src_DdtHistKinLikelihood_ddt_measurement) (Some joint) [] [] rg cu mm cu [].
Proof. yields_auto. Qed.
(* which types report a Ddt measurement at all *)
Definition base_obj (t : string) := VObj "LensLikelihoodBase" [("likelihood_type", VStr t); ("_lens_type", VObj "TD" [])].
Theorem measurement_table rg cu :
  Forall (fun t => yields Gj 60 (CFun src_LensLikelihoodBase_ddt_measurement) (Some (base_obj t)) [] [] rg cu mm cu []) ["DdtGaussian"; "DdtHist"; "DdtHistKDE"; "DdtHistKin"; "DdtGaussKin"] /\
  Forall (fun t => yields Gj 60 (CFun src_LensLikelihoodBase_ddt_measurement) (Some (base_obj t)) [] [] rg cu (VTuple [VNone; VNone]) cu [])
         ["DdtLogNorm"; "DdtDdKDE"; "DdtDdGaussian"; "DsDdsGaussian"; "IFUKinCov"; "Mag"; "TDMag"; "TDMagMagnitude"; "DSPL"].
Proof. split; repeat constructor; yields_auto. Qed.
End Joint.
