(* C12 — property theorems only. Source = C12.Src, regenerated from /repo on this run. *)
From Coq Require Import Reals ZArith String List Bool Lra Permutation.
Require Import Py.PyAst Py.PyVal Py.PySem Py.XLemmas.
Require Import C12.Src C12.Model.
Import ListNotations.
Open Scope string_scope.
Open Scope R_scope.

(* for samples of ANY size: the weighted mean, the weighted variance and every weighted histogram count are unchanged by a joint
   permutation of (samples, weights) ... *)
Theorem C12_permutation : forall a b, Permutation a b ->
  wmean a = wmean b /\ wvar a = wvar b /\ forall lo hi, count lo hi a = count lo hi b.
Proof. intros a b H. split; [apply wmean_perm | split; [apply wvar_perm | intros; apply count_perm]]; exact H. Qed.
Print Assumptions C12_permutation.
(* ... by multiplying all weights by a constant (counts scale by that constant: the KDE normalises its weights) ... *)
Theorem C12_weight_scale : forall c xw, c <> 0 -> wtot xw <> 0 ->
  wmean (scale_w c xw) = wmean xw /\ wvar (scale_w c xw) = wvar xw /\ forall lo hi, count lo hi (scale_w c xw) = c * count lo hi xw.
Proof. intros c xw Hc Ht. split; [apply wmean_scale | split; [apply wvar_scale | intros; apply count_scale]]; assumption. Qed.
(* ... and by replacing integer weights with repeated samples *)
Theorem C12_replication : forall xn,
  wmean (replicate xn) = wmean (as_weights xn) /\ wvar (replicate xn) = wvar (as_weights xn) /\ forall lo hi, count lo hi (replicate xn) = count lo hi (as_weights xn).
Proof. intros xn. split; [apply wmean_replicate | split; [apply wvar_replicate | intros; apply count_replicate]]. Qed.
(* a normalised weighted mixture of unit-mass kernels has unit mass, for any linear "integral" (the Gaussian integral itself is assumed) *)
Theorem C12_integrates_to_one_partial : forall (I : (R -> R) -> R),
  (forall f g, I (fun t => f t + g t) = I f + I g) -> (forall c f, I (fun t => c * f t) = c * I f) -> I (fun _ => 0) = 0 ->
  forall (K : R -> R -> R), (forall x, I (K x) = 1) -> forall xw, wtot xw <> 0 -> I (fun t => / wtot xw * mix K xw t) = 1.
Proof. exact mixture_integrates_to_one_partial. Qed.

(* the real constructors and evaluators on three symbolic weighted samples: what reaches numpy.histogram and the density estimator, the
   stored measurement (numpy.average with the weights = the reference weighted mean / std), the constant of the un-normalised form *)
Theorem C12_ddt_hist_constructor : forall x0 x1 x2 w0 w1 w2 v0 v2 e0 e1 e2 e3 (Kpdf : R -> R),
  w0 + (w1 + (w2 + 0)) <> 0 -> 0 < sigma_u x0 x1 x2 -> 0 < v0 /\ 0 < v2 -> 0 <= var_w x0 x1 x2 w0 w1 w2 ->
  forall (normalized : bool) zl zs rg cu,
  yields (G v0 v2 e0 e1 e2 e3 Kpdf) 100 (CClass "DdtHistLikelihood" src_DdtHistLikelihood_init) None [zl; zs; samples x0 x1 x2]
    [("ddt_weights", weights w0 w1 w2); ("nbins_hist", VInt 3); ("normalized", VBool normalized)] rg cu (hist_obj x0 x1 x2 w0 w1 w2 v0 v2 e0 e1 e2 e3 normalized) cu
    [("gaussian_kde", [VList [num ((e0 + e1) / 2); num ((e2 + e3) / 2)]; VList [num v0; num v2]]);
     ("np.histogram", [samples x0 x1 x2; VInt 3; weights w0 w1 w2])].
Proof. exact ddt_hist_ctor. Qed.
Print Assumptions C12_ddt_hist_constructor.
Theorem C12_measurement_is_weighted_moments : forall x0 x1 x2 w0 w1 w2, w0 + (w1 + (w2 + 0)) <> 0 ->
  mean_w x0 x1 x2 w0 w1 w2 = wmean (xw x0 x1 x2 w0 w1 w2) /\ var_w x0 x1 x2 w0 w1 w2 = wvar (xw x0 x1 x2 w0 w1 w2).
Proof. intros. split; [apply mean_w_is_wmean | apply var_w_is_wvar]; assumption. Qed.
Theorem C12_ddt_hist_value : forall x0 x1 x2 w0 w1 w2 v0 v2 e0 e1 e2 e3 (Kpdf : R -> R) (normalized : bool) t rg cu,
  yields (G v0 v2 e0 e1 e2 e3 Kpdf) 60 (CFun src_DdtHistLikelihood_log_likelihood) (Some (hist_obj x0 x1 x2 w0 w1 w2 v0 v2 e0 e1 e2 e3 normalized)) [num t] [] rg cu
    (num (Kpdf t - (if normalized then 0 else ln (1 / sigma_u x0 x1 x2 / sqrt (2 * PI))))) cu [].
Proof. exact ddt_hist_value. Qed.
Theorem C12_flag_is_a_constant : forall x0 x1 x2 (Kpdf : R -> R) t,
  (Kpdf t - ln (1 / sigma_u x0 x1 x2 / sqrt (2 * PI))) - (Kpdf t - 0) = - ln (1 / sigma_u x0 x1 x2 / sqrt (2 * PI)).
Proof. exact flag_is_a_constant. Qed.
Theorem C12_ddt_hist_measurement : forall x0 x1 x2 w0 w1 w2 v0 v2 e0 e1 e2 e3 (Kpdf : R -> R) (normalized : bool) rg cu,
  yields (G v0 v2 e0 e1 e2 e3 Kpdf) 60 (CFun src_DdtHistLikelihood_ddt_measurement) (Some (hist_obj x0 x1 x2 w0 w1 w2 v0 v2 e0 e1 e2 e3 normalized)) [] [] rg cu
    (VTuple [num (mean_w x0 x1 x2 w0 w1 w2); num (sqrt (var_w x0 x1 x2 w0 w1 w2))]) cu [].
Proof. exact ddt_hist_measurement. Qed.
(* bandwidth-rule path: the KDE is built on the raw samples with their weights (for which scipy is NOT replication invariant: known finding) *)
Theorem C12_ddt_hist_bandwidth_rule : forall x0 x1 x2 w0 w1 w2 v0 v2 e0 e1 e2 e3 (Kpdf : R -> R), w0 + (w1 + (w2 + 0)) <> 0 -> 0 <= var_w x0 x1 x2 w0 w1 w2 ->
  forall (rule : val) zl zs rg cu, rule = VStr "scott" ->
  exists o, yields (G v0 v2 e0 e1 e2 e3 Kpdf) 100 (CClass "DdtHistLikelihood" src_DdtHistLikelihood_init) None [zl; zs; samples x0 x1 x2]
    [("ddt_weights", weights w0 w1 w2); ("binning_method", rule); ("normalized", VBool true)] rg cu o cu
    [("gaussian_kde", [samples x0 x1 x2; rule; weights w0 w1 w2])]
  /\ field_get "_ddt_mean" (match o with VObj _ fs => fs | _ => [] end) = Some (num (mean_w x0 x1 x2 w0 w1 w2))
  /\ field_get "_ddt_sigma" (match o with VObj _ fs => fs | _ => [] end) = Some (num (sqrt (var_w x0 x1 x2 w0 w1 w2))).
Proof. exact ddt_hist_ctor_bw. Qed.
(* the KDE class *)
Theorem C12_ddt_hist_kde_constructor : forall x0 x1 x2 w0 w1 w2 v0 v2 e0 e1 e2 e3 (Kpdf : R -> R),
  w0 + (w1 + (w2 + 0)) <> 0 -> 0 < sigma_u x0 x1 x2 -> 0 < v0 /\ 0 < v2 -> 0 <= var_w x0 x1 x2 w0 w1 w2 ->
  forall (normalized : bool) zl zs rg cu,
  exists o, yields (G v0 v2 e0 e1 e2 e3 Kpdf) 100 (CClass "DdtHistKDELikelihood" src_DdtHistKDELikelihood_init) None [zl; zs; samples x0 x1 x2]
    [("ddt_weights", weights w0 w1 w2); ("bandwidth", num 20); ("nbins_hist", VInt 3); ("normalized", VBool normalized)] rg cu o cu
    [("fit", [VList [VTuple [num ((e0 + e1) / 2)]; VTuple [num ((e2 + e3) / 2)]]; VList [num v0; num v2]]);
     ("np.histogram", [samples x0 x1 x2; VInt 3; weights w0 w1 w2; VBool true])]
  /\ field_get "_ddt_mean" (match o with VObj _ fs => fs | _ => [] end) = Some (num (mean_w x0 x1 x2 w0 w1 w2))
  /\ field_get "_ddt_sigma" (match o with VObj _ fs => fs | _ => [] end) = Some (num (sqrt (var_w x0 x1 x2 w0 w1 w2)))
  /\ field_get "_norm_factor" (match o with VObj _ fs => fs | _ => [] end) = Some (if normalized then VInt 0 else num (ln (1 / sigma_u x0 x1 x2 / sqrt (2 * PI)))).
Proof. exact ddt_hist_kde_ctor. Qed.
Theorem C12_ddt_hist_kde_value : forall x0 x1 x2 w0 w1 w2 v0 v2 e0 e1 e2 e3 (Kpdf : R -> R) (nf : R) t rg cu,
  yields (G v0 v2 e0 e1 e2 e3 Kpdf) 60 (CFun src_DdtHistKDELikelihood_log_likelihood) (Some (kde_obj x0 x1 x2 w0 w1 w2 (num nf))) [num t] [] rg cu (num (Kpdf t - nf)) cu [].
Proof. exact ddt_hist_kde_value. Qed.
(* the joint type: sum of its parts, measurement of its Ddt part; which types report a Ddt measurement *)
Theorem C12_hist_kin_is_sum : forall (fa fb : list val -> list (string * val) -> R) (mm : val) ddt dd ks sv rg cu,
  yields (Gj fa fb mm) 60 (CFun src_DdtHistKinLikelihood_log_likelihood) (Some joint) [ddt; dd; ks] [("sigma_v_sys_error", sv)] rg cu
    (num (fa [ddt] [] + fb [ddt; dd; ks] [("sigma_v_sys_error", sv)])) cu [("kin", [ddt; dd; ks; sv]); ("ddt", [ddt])].
Proof. exact hist_kin_is_sum. Qed.
Theorem C12_measurement_table : forall (fa fb : list val -> list (string * val) -> R) (mm : val) rg cu,
  Forall (fun t => yields (Gj fa fb mm) 60 (CFun src_LensLikelihoodBase_ddt_measurement) (Some (base_obj t)) [] [] rg cu mm cu []) ["DdtGaussian"; "DdtHist"; "DdtHistKDE"; "DdtHistKin"; "DdtGaussKin"] /\
  Forall (fun t => yields (Gj fa fb mm) 60 (CFun src_LensLikelihoodBase_ddt_measurement) (Some (base_obj t)) [] [] rg cu (VTuple [VNone; VNone]) cu [])
         ["DdtLogNorm"; "DdtDdKDE"; "DdtDdGaussian"; "DsDdsGaussian"; "IFUKinCov"; "Mag"; "TDMag"; "TDMagMagnitude"; "DSPL"].
Proof. exact measurement_table. Qed.
