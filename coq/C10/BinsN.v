(* C10 - "for any number of kinematic bins": one scaling axis (three nodes), ANY number of bins.  The constructor of KinScaling builds one
   1-d interpolant per bin on (axis, grid of the bin), in bin order; kin_scaling then returns, per bin and in bin order, the piecewise-linear
   interpolant of THAT bin's grid at the parameter found by name.  Both by induction over the interpreter's loops (over the grid list in the
   constructor, over the per-bin objects in kin_scaling); scipy's interp1d is the oracle of Model.v (= interp1 of Base/Interp.v).
   Source = C10.Src (regenerated). *)
From Coq Require Import Reals ZArith String List Bool Lra Lia.
Require Import Py.PyAst Py.PyVal Py.PySem Py.XLemmas Py.Unfold Py.Tactics Py.Interp Py.Sym.
Require Import C10.Src C10.Model.
Import ListNotations.
Open Scope string_scope.

Lemma call_class G f cls fd self args kws w : call G (S f) (CClass cls fd) self args kws w = call G f (CFun fd) (Some (VObj cls [])) args kws w.
Proof. reflexivity. Qed.
Section Bins.
Variables x0 x1 x2 : R.                         (* the axis *)
Definition binv (g : R * R * R) : val := match g with (a, b, c) => nums [a; b; c] end.
Definition bin_obj (g : R * R * R) : val :=
  VObj "ParameterScalingSingleMeasurement"
    [("_evalute_scaling", VBool true); ("_dim_scaling", VInt 1); ("_f_ani", VObj "interp1d" [("x", nums [x0; x1; x2]); ("y", binv g)])].
Definition ks_obj (objs : list val) : val :=
  VObj "KinScaling"
    [("_param_arrays", VList [nums [x0; x1; x2]]); ("_evaluate_scaling", VBool true); ("_is_log_m2l_population_level", VBool false);
     ("_j_scaling_ifu", VList objs); ("_f_ani_list", VList []); ("_dim_scaling", VInt 1); ("_param_list", VList [VStr "a_ani"]); ("_num_param", VInt 1)].
Definition scal (p : R) (g : R * R * R) : val := match g with (a, b, c) => num (interp1 [(x0, a); (x1, b); (x2, c)] p) end.
Ltac RUNB tm := let r := eval lazy -[Rplus Rmult Rminus Rdiv Rinv Ropp Rmax Rmin Rlt Rle Rgt Rge ln exp sqrt log10 IZR dec Rpower pow PI DBL_MAX not interp1 bin_obj binv] in tm in change tm with r.
Ltac RUNC tm := let r := eval lazy -[Rplus Rmult Rminus Rdiv Rinv Ropp Rmax Rmin Rlt Rle Rgt Rge ln exp sqrt log10 IZR dec Rpower pow PI DBL_MAX not interp1] in tm in change tm with r.

(* ---------------- kin_scaling: the loop over the per-bin objects ---------------- *)
Definition bodyK := match src_KinScaling_kin_scaling with FunDef _ _ _ _ b => match nth 4 b SPass with SFor _ _ bb => bb | _ => [] end end.
Definition itK := match src_KinScaling_kin_scaling with FunDef _ _ _ _ b => match nth 4 b SPass with SFor _ it _ => it | _ => ENone end end.
Definition envK (selfv kw : val) (p : R) (acc : list val) (prev : option (val * val)) : env :=
  ([("self", selfv); ("kwargs_param", kw); ("param_array", VList [num p]); ("scaling_list", VList acc)]
   ++ match prev with Some (o, s) => [("scaling_class", o); ("scaling", s)] | None => [] end)%list.
Definition stepK := for_step (eval G 78) (exec G 78) 78 (EName "scaling_class") itK bodyK.
Lemma stepK_one selfv kw p acc prev g idx w :
  stepK (bin_obj g) idx (envK selfv kw p acc prev) w = Ok (ONormal (envK selfv kw p (acc ++ [scal p g]) (Some (bin_obj g, scal p g))), w).
Proof.
  destruct g as [[a b] c]. destruct prev as [[po ps]|]; unfold stepK, envK, bin_obj, binv, scal; cbn [app];
  (match goal with |- ?L = _ => RUNC L end); reflexivity.
Qed.
Lemma loopK selfv kw p gs : forall acc prev idx w,
  exists prev', iter_loop stepK (map bin_obj gs) idx (envK selfv kw p acc prev) w = Ok (ONormal (envK selfv kw p (acc ++ map (scal p) gs) prev'), w).
Proof.
  induction gs as [|g r IH]; intros acc prev idx w.
  - exists prev. cbn [map iter_loop]. rewrite (app_nil_r acc). reflexivity.
  - cbn [map iter_loop]. rewrite stepK_one. cbn [bind fst snd].
    destruct (IH (acc ++ [scal p g])%list (Some (bin_obj g, scal p g)) (idx + 1)%Z w) as [pv E]. exists pv. rewrite E.
    rewrite <- (app_assoc acc [scal p g] (map (scal p) r)). reflexivity.
Qed.
Definition afterK (ρ' : env) (w' : world) :=
  run_stmts (exec_stmt (tails G) (runms G 78) (eval G 78) (evals_with (eval G 78)) (exec G 78) 78)
            (match src_KinScaling_kin_scaling with FunDef _ _ _ _ b => skipn 5 b end) ρ' w'.
Definition finishK (ow : outcome * world) : res (val * world) :=
  match fst ow with
  | ONormal ρ' => Ok (VNone, snd ow)
  | OReturn v => Ok (v, snd ow)
  | OTail o targs tkws => o targs tkws (snd ow)
  end.
Definition kwK (vx : val) (p : R) : val := dict [("gamma_pl", vx); ("a_ani", num p)].
Lemma prefixK gs vx p w :
  call G 80 (CFun src_KinScaling_kin_scaling) (Some (ks_obj (map bin_obj gs))) [kwK vx p] [] w
  = (do ow <- seq_out (iter_loop stepK (map bin_obj gs) 0%Z (envK (ks_obj (map bin_obj gs)) (kwK vx p) p [] None) w) afterK; finishK ow).
Proof.
  rewrite call_fun.
  cbv beta zeta delta [f_static f_params f_kwarg f_body f_name src_KinScaling_kin_scaling] iota.
  (match goal with |- context [bind_params ?a ?b ?c ?d] => RUNB (bind_params a b c d) end).
  cbn [bind fst snd]. rewrite exec_S.
  (match goal with |- context [run_stmts ?st ?body ?r ?w0] =>
     change (run_stmts st body r w0) with (run_stmts st (firstn 4 body ++ skipn 4 body) r w0) end).
  rewrite run_stmts_app. cbn [firstn].
  (match goal with |- context [seq_out (run_stmts ?st ?l ?r ?w0) _] => RUNB (run_stmts st l r w0) end).
  cbn [seq_out bind fst snd skipn]. rewrite run_stmts_cons. cbn [exec_stmt].
  (match goal with |- context [eval G 78 ?c ?r ?w0] => RUNB (eval G 78 c r w0) end).
  cbn [bind fst snd as_list].
  unfold stepK, itK, bodyK, envK, ks_obj, kwK, afterK, finishK, dict, nums, num.
  cbv beta iota zeta delta [src_KinScaling_kin_scaling nth skipn]. cbn [app map fst snd String.eqb Ascii.eqb Bool.eqb].
  reflexivity.
Qed.
Lemma suffixK selfv kw p acc prev w : afterK (envK selfv kw p acc prev) w = Ok (OReturn (VArr acc), w).
Proof.
  destruct prev as [[po ps]|]; unfold afterK, envK; cbv beta iota zeta delta [src_KinScaling_kin_scaling skipn]; cbn [app];
  (match goal with |- ?L = _ => RUNC L end); reflexivity.
Qed.
Theorem kin_scaling_any_number_of_bins gs vx p w :
  call G 80 (CFun src_KinScaling_kin_scaling) (Some (ks_obj (map bin_obj gs))) [kwK vx p] [] w = Ok (VArr (map (scal p) gs), w).
Proof.
  rewrite prefixK. destruct (loopK (ks_obj (map bin_obj gs)) (kwK vx p) p gs [] None 0%Z w) as [pv E]. rewrite E.
  cbn [seq_out bind fst snd app]. rewrite suffixK. reflexivity.
Qed.

(* ---------------- the constructor: the loop over the grid list ---------------- *)
Definition bodyI := match src_KinScaling_init with FunDef _ _ _ _ b => b end.
Definition blockC := match nth 4 bodyI SPass with SIf _ blk _ => blk | _ => [] end.
Definition bodyC := match nth 3 blockC SPass with SFor _ _ bb => bb | _ => [] end.
Definition selfC (acc : list val) : val :=
  VObj "KinScaling" [("_param_arrays", VList [nums [x0; x1; x2]]); ("_evaluate_scaling", VBool true); ("_is_log_m2l_population_level", VBool false);
                     ("_j_scaling_ifu", VList acc); ("_f_ani_list", VList [])].
Definition envC (L acc : list val) (prev : option val) : env :=
  ([("self", selfC acc); ("j_kin_scaling_param_axes", VList [nums [x0; x1; x2]]); ("j_kin_scaling_grid_list", VList L);
    ("j_kin_scaling_param_name_list", VList [VStr "a_ani"])] ++ match prev with Some v => [("scaling_grid", v)] | None => [] end)%list.
Definition stepC := for_step (eval G 76) (exec G 76) 76 (EName "scaling_grid") (EName "j_kin_scaling_grid_list") bodyC.
Lemma stepC_one L acc prev g idx w :
  stepC (binv g) idx (envC L acc prev) w = Ok (ONormal (envC L (acc ++ [bin_obj g]) (Some (binv g))), w).
Proof.
  destruct g as [[a b] c]. destruct prev as [pv|]; unfold stepC, envC, selfC, bin_obj, binv; cbn [app];
  (match goal with |- ?L0 = _ => RUNC L0 end); reflexivity.
Qed.
Lemma loopC L gs : forall acc prev idx w,
  exists prev', iter_loop stepC (map binv gs) idx (envC L acc prev) w = Ok (ONormal (envC L (acc ++ map bin_obj gs) prev'), w).
Proof.
  induction gs as [|g r IH]; intros acc prev idx w.
  - exists prev. cbn [map iter_loop]. rewrite (app_nil_r acc). reflexivity.
  - cbn [map iter_loop]. rewrite stepC_one. cbn [bind fst snd].
    destruct (IH (acc ++ [bin_obj g])%list (Some (binv g)) (idx + 1)%Z w) as [pv E]. exists pv. rewrite E.
    rewrite <- (app_assoc acc [bin_obj g] (map bin_obj r)). reflexivity.
Qed.
Definition afterC (ρ' : env) (w' : world) :=
  run_stmts (exec_stmt (tails G) (runms G 77) (eval G 77) (evals_with (eval G 77)) (exec G 77) 77) (skipn 5 bodyI) ρ' w'.
Definition finishC (ow : outcome * world) : res (val * world) :=
  match fst ow with
  | ONormal ρ' => Ok (match lookup "self" ρ' with Some o => o | None => VNone end, snd ow)
  | OReturn v => Ok (v, snd ow)
  | OTail o targs tkws => o targs tkws (snd ow)
  end.
Definition ctorC (gs : list (R * R * R)) : list val := [VList [nums [x0; x1; x2]]; VList (map binv gs); VList [VStr "a_ani"]].
Lemma prefixC gs w :
  call G 80 (CClass "KinScaling" src_KinScaling_init) None (ctorC gs) [] w
  = (do ow <- seq_out (seq_out (iter_loop stepC (map binv gs) 0%Z (envC (map binv gs) [] None) w) (fun ρ' w' => Ok (ONormal ρ', w'))) afterC; finishC ow).
Proof.
  rewrite call_class, call_fun. unfold ctorC.
  cbv beta zeta delta [f_static f_params f_kwarg f_body f_name src_KinScaling_init] iota.
  (match goal with |- context [bind_params ?a ?b ?c ?d] => RUNB (bind_params a b c d) end).
  cbn [bind fst snd]. rewrite exec_S.
  (match goal with |- context [run_stmts ?st ?body ?r ?w0] =>
     change (run_stmts st body r w0) with (run_stmts st (firstn 4 body ++ skipn 4 body) r w0) end).
  rewrite run_stmts_app. cbn [firstn].
  (match goal with |- context [seq_out (run_stmts ?st ?l ?r ?w0) _] => RUNB (run_stmts st l r w0) end).
  cbn [seq_out bind fst snd skipn]. rewrite run_stmts_cons. cbn [exec_stmt].
  (match goal with |- context [eval G 77 ?c ?r ?w0] => RUNB (eval G 77 c r w0) end).
  cbn [bind fst snd].
  (match goal with |- context [m_truthy ?c ?w0] => RUNB (m_truthy c w0) end).
  cbn [bind fst snd]. rewrite exec_S.
  (match goal with |- context [run_stmts ?st ?body ?r ?w0] =>
     change (run_stmts st body r w0) with (run_stmts st (firstn 3 body ++ skipn 3 body) r w0) end).
  rewrite run_stmts_app. cbn [firstn].
  (match goal with |- context [seq_out (run_stmts ?st ?l ?r ?w0) _] => RUNB (run_stmts st l r w0) end).
  cbn [seq_out bind fst snd skipn]. rewrite run_stmts_one. cbn [exec_stmt].
  (match goal with |- context [eval G 76 ?c ?r ?w0] => RUNB (eval G 76 c r w0) end).
  cbn [bind fst snd as_list].
  unfold stepC, bodyC, blockC, bodyI, envC, selfC, afterC, finishC, nums, num.
  cbv beta iota zeta delta [src_KinScaling_init nth skipn]. cbn [app map fst snd String.eqb Ascii.eqb Bool.eqb].
  reflexivity.
Qed.
Lemma suffixC L acc prev w : (do ow <- afterC (envC L acc prev) w; finishC ow) = Ok (ks_obj acc, w).
Proof.
  destruct prev as [pv|]; unfold afterC, bodyI, envC, selfC, finishC, ks_obj; cbv beta iota zeta delta [src_KinScaling_init skipn]; cbn [app];
  (match goal with |- ?L0 = _ => RUNB L0 end); reflexivity.
Qed.
Theorem constructor_any_number_of_bins gs w :
  call G 80 (CClass "KinScaling" src_KinScaling_init) None (ctorC gs) [] w = Ok (ks_obj (map bin_obj gs), w).
Proof.
  rewrite prefixC. destruct (loopC (map binv gs) gs [] None 0%Z w) as [pv E]. rewrite E.
  cbn [seq_out bind fst snd app]. exact (suffixC (map binv gs) (map bin_obj gs) pv w).
Qed.
End Bins.
