(* C10 — kinematic J-scaling reproduces the supplied grid and routes parameters by name. Source = C10.Src (regenerated). *)
From Coq Require Import Reals ZArith String List Bool Lra Lia.
Require Import Py.PyAst Py.PyVal Py.PySem Py.XLemmas Py.Unfold Py.Tactics Py.Interp.
Require Import C10.Src.
Import ListNotations.
Open Scope string_scope.
Fixpoint assoc {A} (k : string) (l : list (string * A)) : option A :=
  match l with [] => None | (k', v) :: t => if String.eqb k k' then Some v else assoc k t end.
Definition num (r : R) := VNum (Fin r).
Definition dict (l : list (string * val)) := VDict (map (fun kv => (VStr (fst kv), snd kv)) l).
Definition nums (l : list R) := VList (map num l).

(* ---------- library oracles: the interpolants ARE the mathematical interpolants of Base/Interp.v ---------- *)
Fixpoint reals_of (l : list val) : option (list R) :=
  match l with [] => Some [] | v :: r => match to_x v, reals_of r with Some (Fin x), Some xs => Some (x :: xs) | _, _ => None end end.
Fixpoint grid_of (fuel : nat) (v : val) : option grid :=
  match fuel with O => None | S f =>
  match v with
  | VList l => match (fix go (l : list val) : option (list grid) :=
                        match l with [] => Some [] | c :: r => match grid_of f c, go r with Some g, Some gs => Some (g :: gs) | _, _ => None end end) l with
               | Some gs => Some (Node gs) | None => None end
  | _ => match to_x v with Some (Fin x) => Some (Leaf x) | _ => None end
  end end.
Fixpoint axes_of (l : list val) : option (list (list R)) :=
  match l with [] => Some [] | VList a :: r | VTuple a :: r => match reals_of a, axes_of r with Some x, Some xs => Some (x :: xs) | _, _ => None end | _ => None end.
(* interp1d(x, y, kind="linear", fill_value="extrapolate") : construction records the nodes *)
Definition interp1d_new : callee :=
  COracle (fun args kws w => match args with [x; y] => Ok (VObj "interp1d" [("x", x); ("y", y)], w) | _ => Stuck "interp1d: args" end).
Definition interp1d_call : callee :=
  COracle (fun args kws w => match args with
    | [VObj _ fs; p] =>
        match field_get "x" fs, field_get "y" fs, to_x p with
        | Some (VList x), Some (VList y), Some (Fin p0) =>
            match reals_of x, reals_of y with
            | Some xs, Some ys => Ok (num (interp1 (combine xs ys) p0), w)
            | _, _ => Stuck "interp1d: nodes" end
        | _, _, _ => Stuck "interp1d: call" end
    | _ => Stuck "interp1d: call arity" end).
(* RegularGridInterpolator(points, values) ; f(point) returns a length-1 array *)
Definition rgi_new : callee :=
  COracle (fun args kws w => match args with [ax; g] => Ok (VObj "RGI" [("axes", ax); ("grid", g)], w) | _ => Stuck "RGI: args" end).
Definition rgi_call : callee :=
  COracle (fun args kws w => match args with
    | [VObj _ fs; VList p] =>
        match field_get "axes" fs, field_get "grid" fs with
        | Some (VTuple ax), Some g =>
            match axes_of ax, grid_of 6 g, reals_of p with
            | Some axes, Some gr, Some pt => Ok (VList [num (interpN axes gr pt)], w)
            | _, _, _ => Stuck "RGI: shapes" end
        | _, _ => Stuck "RGI: fields" end
    | _ => Stuck "RGI: call arity" end).

Definition mtab : list (string * list (string * callee)) :=
  [("KinScaling", [("kwargs2param_array", CFun src_KinScalingParamManager_kwargs2param_array);
                   ("param_array2kwargs", CFun src_KinScalingParamManager_param_array2kwargs);
                   ("param_bounds_interpol", CFun src_KinScaling_param_bounds_interpol);
                   ("kin_scaling", CFun src_KinScaling_kin_scaling)]);
   ("ParameterScalingSingleMeasurement", [("j_scaling", CFun src_ParameterScalingSingleMeasurement_j_scaling)]);
   ("interp1d", [("__call__", interp1d_call)]);
   ("RGI", [("__call__", rgi_call)])].
Definition gtab : list (string * callee) :=
  [("interp1d", interp1d_new); ("RegularGridInterpolator", rgi_new);
   ("ParameterScalingSingleMeasurement", CClass "ParameterScalingSingleMeasurement" src_ParameterScalingSingleMeasurement_init);
   ("KinScalingParamManager.__init__", CFun src_KinScalingParamManager_init);
   ("KinScaling", CClass "KinScaling" src_KinScaling_init)].
Definition G : fenv := FEnv (fun cls m => match assoc cls mtab with Some t => assoc m t | None => None end) (fun n => assoc n gtab).
Open Scope R_scope.

(* ---------- 1. routing by name ---------- *)
Definition ks_names (names : list string) := VObj "KinScaling" [("_param_list", VList (map VStr names))].
Theorem routing_by_name va vg vx rg cu :
  yields G 60 (CFun src_KinScalingParamManager_kwargs2param_array) (Some (ks_names ["a_ani"; "gamma_pl"]))
    [dict [("extra", vx); ("gamma_pl", vg); ("a_ani", va)]] [] rg cu (VList [va; vg]) cu []
  /\ yields G 60 (CFun src_KinScalingParamManager_kwargs2param_array) (Some (ks_names ["a_ani"; "gamma_pl"]))
    [dict [("a_ani", va); ("gamma_pl", vg)]] [] rg cu (VList [va; vg]) cu [].
Proof. split; yields_auto. Qed.
Theorem routing_missing_raises va rg cu ds p0 :
  call G 60 (CFun src_KinScalingParamManager_kwargs2param_array) (Some (ks_names ["a_ani"; "gamma_pl"]))
    [dict [("a_ani", va); ("gamma_in", va)]] [] (World rg cu [] ds p0) = Exc "ValueError".
Proof. run. reflexivity. Qed.
(* the generic fact behind it: looking keys up by name does not depend on the order of the (duplicate-free) dictionary *)
Fixpoint lookup_s (k : string) (d : list (string * val)) : option val :=
  match d with [] => None | (k', v) :: t => if String.eqb k k' then Some v else lookup_s k t end.
Lemma lookup_in k v d : NoDup (map fst d) -> In (k, v) d -> lookup_s k d = Some v.
Proof.
  induction d as [|[k' v'] d IH]; intros Hnd Hin; [contradiction|]. cbn [map fst] in Hnd. inversion Hnd; subst.
  cbn [lookup_s]. destruct Hin as [E | Hin].
  - inversion E; subst. rewrite String.eqb_refl. reflexivity.
  - destruct (String.eqb k k') eqn:Ek.
    + apply String.eqb_eq in Ek; subst. exfalso. apply H1. apply in_map_iff. exists (k', v). split; [reflexivity | exact Hin].
    + apply IH; assumption.
Qed.
Theorem lookup_order_independent k v d d' :
  NoDup (map fst d) -> NoDup (map fst d') -> (forall x, In x d <-> In x d') -> lookup_s k d = Some v -> lookup_s k d' = Some v.
Proof.
  intros Hd Hd' Hperm H. apply lookup_in; [exact Hd'|]. apply Hperm.
  clear - H. induction d as [|[k' v'] d IH]; [discriminate|]. cbn [lookup_s] in H. destruct (String.eqb k k') eqn:E.
  - apply String.eqb_eq in E; subst. inversion H; subst. left; reflexivity.
  - right. apply IH. exact H.
Qed.

(* ---------- 2. interpolation bounds = per-axis min / max, keyed by the declared names ---------- *)
Definition ks_axes := VObj "KinScaling" [("_param_list", VList [VStr "a_ani"; VStr "gamma_pl"]); ("_evaluate_scaling", VBool true)].
Theorem bounds_are_axis_min_max a0 a1 a2 b0 b1 rg cu :
  yields G 60 (CFun src_KinScaling_param_bounds_interpol)
    (Some (VObj "KinScaling" [("_param_list", VList [VStr "a_ani"; VStr "gamma_pl"]); ("_evaluate_scaling", VBool true);
                              ("_param_arrays", VList [nums [a0; a1; a2]; nums [b0; b1]])])) [] [] rg cu
    (VTuple [dict [("a_ani", num (Rmin (Rmin a0 a1) a2)); ("gamma_pl", num (Rmin b0 b1))];
             dict [("a_ani", num (Rmax (Rmax a0 a1) a2)); ("gamma_pl", num (Rmax b0 b1))]]) cu [].
Proof. yields_auto. Qed.

(* ---------- 3. construction + evaluation ---------- *)
(* one axis, two bins: one 1-d interpolant per bin on (axis, grid_bin), results stacked in bin order *)
Theorem one_axis_two_bins x0 x1 x2 g0 g1 g2 h0 h1 h2 p vx rg cu :
  exists ks,
  yields G 80 (CClass "KinScaling" src_KinScaling_init) None
    [VList [nums [x0; x1; x2]]; VList [nums [g0; g1; g2]; nums [h0; h1; h2]]; VList [VStr "a_ani"]] [] rg cu ks cu []
  /\ yields G 80 (CFun src_KinScaling_kin_scaling) (Some ks) [dict [("gamma_pl", vx); ("a_ani", num p)]] [] rg cu
       (VArr [num (interp1 [(x0, g0); (x1, g1); (x2, g2)] p); num (interp1 [(x0, h0); (x1, h1); (x2, h2)] p)]) cu [].
Proof. eexists. split; yields_auto. Qed.

(* two axes (3 x 2), one bin: the regular-grid interpolant receives (axes in declared order, grid as supplied) and is evaluated at
   the parameters looked up BY NAME in that declared order *)
Theorem two_axes x0 x1 x2 y0 y1 g00 g01 g10 g11 g20 g21 pa pg rg cu :
  exists ks,
  yields G 80 (CClass "KinScaling" src_KinScaling_init) None
    [VList [nums [x0; x1; x2]; nums [y0; y1]]; VList [VList [nums [g00; g01]; nums [g10; g11]; nums [g20; g21]]]; VList [VStr "a_ani"; VStr "gamma_pl"]] [] rg cu ks cu []
  /\ yields G 80 (CFun src_KinScaling_kin_scaling) (Some ks) [dict [("gamma_pl", num pg); ("a_ani", num pa)]] [] rg cu
       (VArr [num (interpN [[x0; x1; x2]; [y0; y1]]
                            (Node [Node [Leaf g00; Leaf g01]; Node [Leaf g10; Leaf g11]; Node [Leaf g20; Leaf g21]]) [pa; pg])]) cu [].
Proof. eexists. split; yields_auto. Qed.

(* no scaling configured: exactly one(s) *)
Theorem not_configured_is_one kw rg cu :
  exists ks,
  yields G 80 (CClass "KinScaling" src_KinScaling_init) None [] [] rg cu ks cu []
  /\ yields G 80 (CFun src_KinScaling_kin_scaling) (Some ks) [dict kw] [] rg cu (VArr [num 1]) cu []
  /\ yields G 80 (CFun src_KinScaling_kin_scaling) (Some ks) [VNone] [] rg cu (VArr [num 1]) cu [].
Proof. eexists. split; [yields_auto | split; yields_auto]. Qed.
