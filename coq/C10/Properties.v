(* C10 — property theorems only. Source = C10.Src, regenerated from /repo on this run. *)
From Coq Require Import Reals ZArith String List Bool Lra.
Require Import Py.PyAst Py.PyVal Py.PySem Py.XLemmas Py.Interp.
Require Import C10.Src C10.Model C10.RouteN C10.BinsN.
Require C10.Wiring.
Import ListNotations.
Open Scope string_scope.
Open Scope R_scope.

(* parameters are looked up by name, in the declared order, whatever the dictionary order and extra keys *)
Theorem C10_routing : forall va vg vx rg cu,
  yields G 60 (CFun src_KinScalingParamManager_kwargs2param_array) (Some (ks_names ["a_ani"; "gamma_pl"]))
    [dict [("extra", vx); ("gamma_pl", vg); ("a_ani", va)]] [] rg cu (VList [va; vg]) cu []
  /\ yields G 60 (CFun src_KinScalingParamManager_kwargs2param_array) (Some (ks_names ["a_ani"; "gamma_pl"]))
    [dict [("a_ani", va); ("gamma_pl", vg)]] [] rg cu (VList [va; vg]) cu [].
Proof. exact routing_by_name. Qed.
Theorem C10_routing_order_independent : forall k v d d',
  NoDup (map fst d) -> NoDup (map fst d') -> (forall x, In x d <-> In x d') -> lookup_s k d = Some v -> lookup_s k d' = Some v.
Proof. exact lookup_order_independent. Qed.
Theorem C10_missing_raises : forall va rg cu ds p0,
  call G 60 (CFun src_KinScalingParamManager_kwargs2param_array) (Some (ks_names ["a_ani"; "gamma_pl"]))
    [dict [("a_ani", va); ("gamma_in", va)]] [] (World rg cu [] ds p0) = Exc "ValueError".
Proof. exact routing_missing_raises. Qed.
Print Assumptions C10_routing.

(* reported interpolation bounds = min and max of each axis, keyed by the declared names *)
Theorem C10_bounds : forall a0 a1 a2 b0 b1 rg cu,
  yields G 60 (CFun src_KinScaling_param_bounds_interpol)
    (Some (VObj "KinScaling" [("_param_list", VList [VStr "a_ani"; VStr "gamma_pl"]); ("_evaluate_scaling", VBool true);
                              ("_param_arrays", VList [nums [a0; a1; a2]; nums [b0; b1]])])) [] [] rg cu
    (VTuple [dict [("a_ani", num (Rmin (Rmin a0 a1) a2)); ("gamma_pl", num (Rmin b0 b1))];
             dict [("a_ani", num (Rmax (Rmax a0 a1) a2)); ("gamma_pl", num (Rmax b0 b1))]]) cu [].
Proof. exact bounds_are_axis_min_max. Qed.
Print Assumptions C10_bounds.

(* what the constructed object computes: one interpolant per bin, stacked in bin order; axes/grid paired as declared *)
Theorem C10_dispatch_1d : forall x0 x1 x2 g0 g1 g2 h0 h1 h2 p vx rg cu,
  exists ks,
  yields G 80 (CClass "KinScaling" src_KinScaling_init) None
    [VList [nums [x0; x1; x2]]; VList [nums [g0; g1; g2]; nums [h0; h1; h2]]; VList [VStr "a_ani"]] [] rg cu ks cu []
  /\ yields G 80 (CFun src_KinScaling_kin_scaling) (Some ks) [dict [("gamma_pl", vx); ("a_ani", num p)]] [] rg cu
       (VArr [num (interp1 [(x0, g0); (x1, g1); (x2, g2)] p); num (interp1 [(x0, h0); (x1, h1); (x2, h2)] p)]) cu [].
Proof. exact one_axis_two_bins. Qed.
Theorem C10_dispatch_2d : forall x0 x1 x2 y0 y1 g00 g01 g10 g11 g20 g21 pa pg rg cu,
  exists ks,
  yields G 80 (CClass "KinScaling" src_KinScaling_init) None
    [VList [nums [x0; x1; x2]; nums [y0; y1]]; VList [VList [nums [g00; g01]; nums [g10; g11]; nums [g20; g21]]]; VList [VStr "a_ani"; VStr "gamma_pl"]] [] rg cu ks cu []
  /\ yields G 80 (CFun src_KinScaling_kin_scaling) (Some ks) [dict [("gamma_pl", num pg); ("a_ani", num pa)]] [] rg cu
       (VArr [num (interpN [[x0; x1; x2]; [y0; y1]]
                            (Node [Node [Leaf g00; Leaf g01]; Node [Leaf g10; Leaf g11]; Node [Leaf g20; Leaf g21]]) [pa; pg])]) cu [].
Proof. exact two_axes. Qed.
Print Assumptions C10_dispatch_2d.
Theorem C10_not_configured : forall kw rg cu,
  exists ks,
  yields G 80 (CClass "KinScaling" src_KinScaling_init) None [] [] rg cu ks cu []
  /\ yields G 80 (CFun src_KinScaling_kin_scaling) (Some ks) [dict kw] [] rg cu (VArr [num 1]) cu []
  /\ yields G 80 (CFun src_KinScaling_kin_scaling) (Some ks) [VNone] [] rg cu (VArr [num 1]) cu [].
Proof. exact not_configured_is_one. Qed.

(* the interpolant itself, for ANY number of axes of ANY lengths >= 2 (induction over the axes):
   at a grid node it returns the stored value; inside the grid it is bounded by the grid values *)
Theorem C10_node_exact : forall axes g idx pt v,
  shaped axes g -> node_of axes idx = Some pt -> grid_at g idx = Some v -> interpN axes g pt = v.
Proof. exact interpN_node. Qed.
Theorem C10_bounded : forall lo hi axes g p,
  shaped axes g -> leaves_between lo hi g -> in_box axes p -> lo <= interpN axes g p <= hi.
Proof. exact interpN_bounds. Qed.
Print Assumptions C10_node_exact.
Print Assumptions C10_bounded.
(* non-vacuity: a 3 x 2 grid is well shaped and has the node (x1, y0) *)
Example C10_shape_example : shaped [[0; 1; 2]; [10; 20]] (Node [Node [Leaf 1; Leaf 2]; Node [Leaf 3; Leaf 4]; Node [Leaf 5; Leaf 6]])
  /\ node_of [[0; 1; 2]; [10; 20]] [1%nat; 0%nat] = Some [1; 10]
  /\ grid_at (Node [Node [Leaf 1; Leaf 2]; Node [Leaf 3; Leaf 4]; Node [Leaf 5; Leaf 6]]) [1%nat; 0%nat] = Some 3.
Proof. cbn. repeat split; try lra; auto with arith; repeat constructor; cbn; repeat split; try lra; auto with arith. Qed.

(* the scaling REACHES the data likelihood, whatever the likelihood type (the lens object below has no likelihood_type attribute, so the
   hand-over cannot look at it): log_likelihood_single evaluates kin_scaling - here an arbitrary function K - at the realised (drawn and
   merged) parameters and hands the result to the data likelihood as its kin_scaling argument; nothing else decides whether the grid is used *)
Theorem C10_scaling_reaches_the_data_likelihood : forall (D : list val -> list (string * val) -> R) (K : val -> val)
    (ifu : bool) (ddt dd dl beta lam lifu al be g x y kap mu : R) (rg : nat -> R) (cu : nat),
  let l := (if ifu then lifu else lam) + al * x + be * y in
  1/10000 <= l * (1 - kap) ->
  let args := [VArr [Wiring.num (ddt * (l * (1 - kap)))]; Wiring.num (dd * (1 + g) / 2)] in
  let kws := [("beta_dsp", Wiring.num beta); ("kin_scaling", K (Wiring.dict [("lambda_mst", Wiring.num l); ("gamma_ppn", Wiring.num g)]));
              ("sigma_v_sys_error", VNone); ("mu_intrinsic", VArr [Wiring.num (mu + dl + 5 * log10 (l * (1 - kap)))]);
              ("gamma_pl", VInt 2); ("lambda_mst", Wiring.num l)] in
  yields (Wiring.Gw D K) 100 (CFun src_LensLikelihood_log_likelihood_single) (Some (Wiring.lens_self ifu x y))
    [Wiring.num ddt; Wiring.num dd; Wiring.num dl; Wiring.num beta; Wiring.dict (Wiring.lens_kws lam lifu al be g); Wiring.dict [];
     Wiring.dict [("mu_sne", Wiring.num mu); ("sigma_sne", Wiring.num 0)]; VList [Wiring.dict [("mean", Wiring.num kap); ("sigma", Wiring.num 0)]]] [] rg cu
    (Wiring.num (D args kws + 0)) (S (S cu)) [("log_likelihood", (args ++ map snd kws)%list)].
Proof. intros D K ifu ddt dd dl beta lam lifu al be g x y kap mu rg cu l H. exact (Wiring.single_wiring D K ifu ddt dd dl beta lam lifu al be g x y kap mu rg cu H). Qed.
Print Assumptions C10_scaling_reaches_the_data_likelihood.

(* FOR ANY NUMBER OF SCALING DIMENSIONS (induction over the interpreter's loop, RouteN.v): with a name list of any length and an ARBITRARY
   dictionary - any order, any extra keys - kwargs2param_array returns, in the DECLARED order, what the dictionary holds under each declared name
   ([value_of d n] is [kwargs.get(n)]); and the first declared name that the dictionary lacks raises ValueError whatever comes before or after it *)
Theorem C10_routing_any_length : forall (names : list string) (d : list (val * val)) (w : world),
  (forall n, In n names -> dict_get (VStr n) d <> None) ->
  call G 60 (CFun src_KinScalingParamManager_kwargs2param_array) (Some (selfR names)) [VDict d] [] w
  = Ok (VList (map (value_of d) names), w).
Proof. exact routing_any_length. Qed.
Print Assumptions C10_routing_any_length.
Theorem C10_missing_any_length : forall (pre : list string) (n : string) (rest : list string) (d : list (val * val)) (w : world),
  (forall m, In m pre -> dict_get (VStr m) d <> None) -> dict_get (VStr n) d = None ->
  call G 60 (CFun src_KinScalingParamManager_kwargs2param_array) (Some (selfR (pre ++ n :: rest))) [VDict d] [] w = Exc "ValueError".
Proof. exact missing_any_length. Qed.
Print Assumptions C10_missing_any_length.
Example C10_routing_any_length_instance :
  map (value_of [(VStr "extra", VInt 0); (VStr "gamma_pl", VInt 2); (VStr "a_ani", VInt 1); (VStr "beta_inf", VInt 3)]) ["a_ani"; "beta_inf"; "gamma_pl"]
  = [VInt 1; VInt 3; VInt 2].
Proof. reflexivity. Qed.

(* ANY NUMBER OF KINEMATIC BINS (inductions over the constructor's loop over the grid list and over kin_scaling's loop over the per-bin
   objects, BinsN.v): for one scaling axis (x0, x1, x2) and a list of per-bin grids of ANY length, the constructor builds one interpolant per
   bin, in bin order, and kin_scaling returns for every bin - in bin order - the piecewise-linear interpolant of THAT bin's grid at the
   parameter found by name (extra keys ignored); on a node it is that bin's grid value (C10_node_exact). *)
Theorem C10_any_number_of_bins : forall (x0 x1 x2 : R) (gs : list (R * R * R)) (vx : val) (p : R) (w : world),
  exists ks,
  call G 80 (CClass "KinScaling" src_KinScaling_init) None (ctorC x0 x1 x2 gs) [] w = Ok (ks, w)
  /\ call G 80 (CFun src_KinScaling_kin_scaling) (Some ks) [kwK vx p] [] w = Ok (VArr (map (scal x0 x1 x2 p) gs), w).
Proof.
  intros. exists (ks_obj x0 x1 x2 (map (bin_obj x0 x1 x2) gs)). split; [apply constructor_any_number_of_bins | apply kin_scaling_any_number_of_bins].
Qed.
Print Assumptions C10_any_number_of_bins.
