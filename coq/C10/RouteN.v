(* C10 - "for any number of scaling dimensions ... parameters are looked up by name in the declared order regardless of dictionary order or
   extra keys ... a missing required parameter raises ValueError": KinScalingParamManager.kwargs2param_array for a name list of ANY length
   and an ARBITRARY dictionary, by induction over the interpreter's loop
       for param in self._param_list:
           if param not in kwargs: raise ValueError(...)
           param_array.append(kwargs.get(param))
   The dictionary look-ups on the symbolic dictionary are resolved by rewriting with the facts about it (the technique of coq/Base/Sym.v).
   Source = C10.Src (regenerated). *)
From Coq Require Import Reals ZArith String List Bool Lra Lia.
Require Import Py.PyAst Py.PyVal Py.PySem Py.XLemmas Py.Unfold Py.Tactics Py.Sym.
Require Import C10.Src C10.Model.
Import ListNotations.
Open Scope string_scope.

Definition bodyR := match src_KinScalingParamManager_kwargs2param_array with FunDef _ _ _ _ b => match nth 1 b SPass with SFor _ _ bb => bb | _ => [] end end.
Definition itR := match src_KinScalingParamManager_kwargs2param_array with FunDef _ _ _ _ b => match nth 1 b SPass with SFor _ it _ => it | _ => ENone end end.
Definition selfR (names : list string) := VObj "KinScaling" [("_param_list", VList (map VStr names))].
Definition envR (self : val) (d : list (val * val)) (acc : list val) (op : option string) : env :=
  ([("self", self); ("kwargs", VDict d); ("param_array", VList acc)] ++ match op with Some p => [("param", VStr p)] | None => [] end)%list.
(* what kwargs.get(name) returns *)
Definition value_of (d : list (val * val)) (n : string) : val := match dict_get (VStr n) d with Some v => v | None => VNone end.
Definition stepR := for_step (eval G 58) (exec G 58) 58 (EName "param") itR bodyR.

Ltac RUNR tm := let r := eval lazy -[Rplus Rmult Rminus Rdiv Rinv Ropp Rmax Rmin Rlt Rle Rgt Rge ln exp sqrt log10 IZR dec Rpower pow PI DBL_MAX not map app length dict_get value_of] in tm in change tm with r.

Ltac leafR :=
  match goal with
  | |- context [eval ?G ?f (EName ?x) ?r ?w] => RUNR (eval G f (EName x) r w)
  | |- context [eval ?G ?f (ECall (EAttr (EName ?x) "get") ?a ?k) ?r ?w] => RUNR (eval G f (ECall (EAttr (EName x) "get") a k) r w)
  | |- context [do_cmp ?o (VStr ?a) (VDict ?b) ?w] => RUNR (do_cmp o (VStr a) (VDict b) w)
  | |- context [m_truthy (VBool ?b) ?w] => RUNR (m_truthy (VBool b) w)
  | |- context [is_arr (VStr ?a)] => RUNR (is_arr (VStr a))
  | |- context [is_arr (VDict ?a)] => RUNR (is_arr (VDict a))
  | |- context [exec ?G ?f (@nil stmt) ?r ?w] => RUNR (exec G f (@nil stmt) r w)
  | |- context [exec ?G ?f [SRaise ?e] ?r ?w] => RUNR (exec G f [SRaise e] r w)
  end.
Ltac symR Hg :=
  repeat first [ rewrite (Sym.eval_ECmp G) | rewrite Hg | rewrite run_stmts_one; cbn [exec_stmt]
               | progress cbn [bind fst snd orb negb seq_out] | progress leafR ].
Ltac startR op :=
  destruct op; unfold stepR, envR, for_step; cbn [app];
  (match goal with |- context [assign ?a ?b ?c ?d ?e ?f] => RUNR (assign a b c d e f) end);
  cbn [bind fst snd]; unfold bodyR; cbv beta iota zeta delta [src_KinScalingParamManager_kwargs2param_array nth];
  rewrite exec_S, run_stmts_cons; cbn [exec_stmt].
(* one iteration: the name is present -> its value is appended, nothing else changes *)
Lemma stepR_present self d acc op n v idx w :
  dict_get (VStr n) d = Some v ->
  stepR (VStr n) idx (envR self d acc op) w = Ok (ONormal (envR self d (acc ++ [v]) (Some n)), w).
Proof. intros Hg. startR op; symR Hg; (match goal with |- ?L = _ => RUNR L end); reflexivity. Qed.
(* one iteration: the name is missing -> ValueError *)
Lemma stepR_missing self d acc op n idx w :
  dict_get (VStr n) d = None ->
  stepR (VStr n) idx (envR self d acc op) w = Exc "ValueError".
Proof. intros Hg. startR op; symR Hg; (match goal with |- ?L = _ => RUNR L end); reflexivity. Qed.

(* the loop over a name list of any length *)
Lemma loopR_present self d names : forall acc op idx w,
  (forall n, In n names -> dict_get (VStr n) d <> None) ->
  exists op', iter_loop stepR (map VStr names) idx (envR self d acc op) w
              = Ok (ONormal (envR self d (acc ++ map (value_of d) names) op'), w).
Proof.
  induction names as [|n names IH]; intros acc op idx w Hall.
  - exists op. cbn [map iter_loop]. rewrite app_nil_r. reflexivity.
  - destruct (dict_get (VStr n) d) as [v|] eqn:Hg; [|exfalso; apply (Hall n); [left; reflexivity | exact Hg]].
    cbn [map iter_loop]. rewrite (stepR_present self d acc op n v idx w Hg). cbn [bind fst snd].
    destruct (IH (acc ++ [v])%list (Some n) (idx + 1)%Z w) as [op' E]; [intros m Hm; apply Hall; right; exact Hm|].
    exists op'. rewrite E. unfold value_of at 2. rewrite Hg. rewrite <- app_assoc. reflexivity.
Qed.
Lemma loopR_missing self d pre n rest : forall acc op idx w,
  (forall m, In m pre -> dict_get (VStr m) d <> None) -> dict_get (VStr n) d = None ->
  iter_loop stepR (map VStr (pre ++ n :: rest)) idx (envR self d acc op) w = Exc "ValueError".
Proof.
  induction pre as [|m pre IH]; intros acc op idx w Hall Hn.
  - cbn [app map iter_loop]. rewrite (stepR_missing self d acc op n idx w Hn). reflexivity.
  - destruct (dict_get (VStr m) d) as [v|] eqn:Hg; [|exfalso; apply (Hall m); [left; reflexivity | exact Hg]].
    cbn [app map iter_loop]. rewrite (stepR_present self d acc op m v idx w Hg). cbn [bind fst snd].
    apply IH; [intros k Hk; apply Hall; right; exact Hk | exact Hn].
Qed.

(* the function around the loop *)
Definition afterR (ρ' : env) (w' : world) :=
  run_stmts (exec_stmt (tails G) (runms G 58) (eval G 58) (evals_with (eval G 58)) (exec G 58) 58)
            (match src_KinScalingParamManager_kwargs2param_array with FunDef _ _ _ _ b => skipn 2 b end) ρ' w'.
Definition finishR (ow : outcome * world) : res (val * world) :=
  match fst ow with
  | ONormal ρ' => Ok (VNone, snd ow)
  | OReturn v => Ok (v, snd ow)
  | OTail o targs tkws => o targs tkws (snd ow)
  end.
Lemma prefixR names d w :
  call G 60 (CFun src_KinScalingParamManager_kwargs2param_array) (Some (selfR names)) [VDict d] [] w
  = (do ow <- seq_out (iter_loop stepR (map VStr names) 0%Z (envR (selfR names) d [] None) w) afterR; finishR ow).
Proof.
  rewrite call_fun.
  cbv beta zeta delta [f_static f_params f_kwarg f_body f_name src_KinScalingParamManager_kwargs2param_array] iota.
  (match goal with |- context [bind_params ?a ?b ?c ?d] => RUNR (bind_params a b c d) end).
  cbn [bind fst snd]. rewrite exec_S, run_stmts_cons.
  (match goal with |- context [seq_out (exec_stmt ?t ?rm ?a ?es ?b ?c ?d ?e ?f) _] => RUNR (exec_stmt t rm a es b c d e f) end).
  cbn [seq_out bind fst snd]. rewrite run_stmts_cons. cbn [exec_stmt].
  (match goal with |- context [eval G 58 ?c ?r ?w] => RUNR (eval G 58 c r w) end).
  cbn [bind fst snd as_list].
  unfold stepR, itR, bodyR, envR, selfR, afterR, finishR.
  cbv beta iota zeta delta [src_KinScalingParamManager_kwargs2param_array nth skipn]. cbn [app String.eqb Ascii.eqb Bool.eqb].
  reflexivity.
Qed.
Lemma suffixR self d acc op w : afterR (envR self d acc op) w = Ok (OReturn (VList acc), w).
Proof.
  destruct op; unfold afterR, envR; cbv beta iota zeta delta [src_KinScalingParamManager_kwargs2param_array skipn]; cbn [app];
  (match goal with |- ?L = _ => RUNR L end); reflexivity.
Qed.

(* every declared name present: the values, in the DECLARED order, whatever else the dictionary holds and in whatever order *)
Theorem routing_any_length names d w :
  (forall n, In n names -> dict_get (VStr n) d <> None) ->
  call G 60 (CFun src_KinScalingParamManager_kwargs2param_array) (Some (selfR names)) [VDict d] [] w
  = Ok (VList (map (value_of d) names), w).
Proof.
  intros Hall. rewrite prefixR.
  destruct (loopR_present (selfR names) d names [] None 0%Z w Hall) as [op' E]. rewrite E.
  cbn [seq_out bind fst snd app]. rewrite suffixR. reflexivity.
Qed.
(* the first declared name that the dictionary lacks: ValueError (nothing is silently defaulted) *)
Theorem missing_any_length pre n rest d w :
  (forall m, In m pre -> dict_get (VStr m) d <> None) -> dict_get (VStr n) d = None ->
  call G 60 (CFun src_KinScalingParamManager_kwargs2param_array) (Some (selfR (pre ++ n :: rest))) [VDict d] [] w = Exc "ValueError".
Proof.
  intros Hall Hn. rewrite prefixR. rewrite (loopR_missing (selfR (pre ++ n :: rest)) d pre n rest [] None 0%Z w Hall Hn). reflexivity.
Qed.
