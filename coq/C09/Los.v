(* C09 — line-of-sight draws: Gaussian / GEV laws, the tabulated-PDF CDF, the draw flag. Source = C09.Src. *)
From Coq Require Import Reals ZArith String List Bool Lra Lia.
Require Import Py.PyAst Py.PyVal Py.PySem Py.XLemmas Py.Unfold Py.Tactics Py.Interp.
Require Import C09.Src.
Import ListNotations.
Open Scope string_scope.
Fixpoint assoc {A} (k : string) (l : list (string * A)) : option A :=
  match l with [] => None | (k', v) :: t => if String.eqb k k' then Some v else assoc k t end.
Definition num (r : R) := VNum (Fin r).
Definition dict (l : list (string * val)) := VDict (map (fun kv => (VStr (fst kv), snd kv)) l).

Section LOS.
Variable gev_ppf : R -> R -> R.        (* quantile function of the standardised GEV law (shape c): arbitrary *)
(* scipy.stats.genextreme.rvs(c, loc, scale) = loc + scale * ppf_c(u_k), u_k the next uniform variate *)
Definition gev_oracle : callee :=
  COracle (fun args kws w =>
    match field_get "c" kws, field_get "loc" kws, field_get "scale" kws with
    | Some (VNum (Fin c)), Some (VNum (Fin loc)), Some (VNum (Fin sc)) =>
        let x := VNum (Fin (loc + sc * gev_ppf c (rng w (cur w)))) in
        let w' := World (rng w) (S (cur w)) (olog w) (decs w) (pc w) in
        match field_get "size" kws with
        | None | Some VNone => Ok (x, w')
        | Some (VInt 1) => Ok (VArr [x], w')           (* size=1: a one-element array, as scipy returns *)
        | Some _ => Stuck "genextreme.rvs: size" end
    | _, _, _ => Stuck "genextreme.rvs: arguments" end).
Definition mt : list (string * callee) :=
  [("draw_los", CFun src_LOSDistribution_draw_los); ("draw_bool", CFun src_LOSDistribution_draw_bool)].
Definition Gl : fenv := FEnv (fun cls m => assoc m mt) (fun n => if String.eqb n "genextreme.rvs" then Some gev_oracle else None).
Definition los_glob (dist : string) := VObj "LOSDistribution"
  [("_draw_kappa_individual", VBool false); ("_draw_kappa_global", VBool true); ("_global_los_distribution", VInt 1); ("_los_distribution", VStr dist)].
Definition los_none := VObj "LOSDistribution" [("_draw_kappa_individual", VBool false); ("_draw_kappa_global", VBool false)].
Open Scope R_scope.

(* the lens reads population number 1 of the list, never population 0 *)
Theorem los_gaussian other m sg rg cu :
  yields Gl 60 (CFun src_LOSDistribution_draw_los) (Some (los_glob "GAUSSIAN")) [VList [other; dict [("mean", num m); ("sigma", num sg)]]] [] rg cu
    (VArr [num (m + sg * rg cu)]) (S cu) [].      (* size=1: a one-element array *)
Proof. yields_auto. Qed.
Theorem los_gev other m sg xi rg cu :
  yields Gl 60 (CFun src_LOSDistribution_draw_los) (Some (los_glob "GEV")) [VList [other; dict [("mean", num m); ("sigma", num sg); ("xi", num xi)]]] [] rg cu
    (VArr [num (m + sg * gev_ppf xi (rg cu))]) (S cu) [].
Proof. yields_auto. Qed.
Theorem los_none_is_zero kl rg cu :
  yields Gl 60 (CFun src_LOSDistribution_draw_los) (Some los_none) [kl] [] rg cu (VInt 0) cu [].
Proof. yields_auto. Qed.
(* degenerate Gaussian: sigma = 0 gives the mean for every stream *)
Lemma los_gaussian_degenerate m z : m + 0 * z = m. Proof. ring. Qed.

(* the 'is this a distribution' flag *)
Definition los_obj (indiv glob : bool) := VObj "LOSDistribution" [("_draw_kappa_individual", VBool indiv); ("_draw_kappa_global", VBool glob); ("_global_los_distribution", VInt 0)].
Theorem draw_bool_individual glob kl rg cu :
  yields Gl 50 (CFun src_LOSDistribution_draw_bool) (Some (los_obj true glob)) [kl] [] rg cu (VBool true) cu [].
Proof. yields_auto. Qed.
Theorem draw_bool_none kl rg cu :
  yields Gl 50 (CFun src_LOSDistribution_draw_bool) (Some (los_obj false false)) [kl] [] rg cu (VBool false) cu [].
Proof. yields_auto. Qed.
Theorem draw_bool_global m sg rg cu :
  (sg = 0 -> yields Gl 50 (CFun src_LOSDistribution_draw_bool) (Some (los_obj false true)) [VList [dict [("mean", num m); ("sigma", num sg)]]] [] rg cu (VBool false) cu [])
  /\ (sg <> 0 -> yields Gl 50 (CFun src_LOSDistribution_draw_bool) (Some (los_obj false true)) [VList [dict [("mean", num m); ("sigma", num sg)]]] [] rg cu (VBool true) cu []).
Proof. split; intros H; yields_auto. Qed.
(* the constructor binds the object to ITS OWN population of the list (the one at index global_los_distribution) or, without a global
   population, to its individual law; index 0 is a valid population (the flag is `False` only for the boolean False) *)
Definition Gc9 : fenv := FEnv (fun _ _ => None)
  (fun n => if String.eqb n "GEV" then Some (CClass "GEV" src_GEV_init)
            else if String.eqb n "PDFSampling" then Some (COracle (fun args kws w => Ok (VObj "PDFSampling" kws, w))) else None).
Theorem los_ctor_global_population (d0 d1 d2 : string) rg cu :
  yields Gc9 60 (CClass "LOSDistribution" src_LOSDistribution_init) None [] [("global_los_distribution", VInt 1); ("los_distributions", VList [VStr d0; VStr d1; VStr d2])] rg cu
    (VObj "LOSDistribution" [("_global_los_distribution", VInt 1); ("_draw_kappa_global", VBool true); ("_los_distribution", VStr d1); ("_draw_kappa_individual", VBool false)]) cu []
  /\ yields Gc9 60 (CClass "LOSDistribution" src_LOSDistribution_init) None [] [("global_los_distribution", VInt 0); ("los_distributions", VList [VStr d0; VStr d1; VStr d2])] rg cu
    (VObj "LOSDistribution" [("_global_los_distribution", VInt 0); ("_draw_kappa_global", VBool true); ("_los_distribution", VStr d0); ("_draw_kappa_individual", VBool false)]) cu [].
Proof. split; yields_auto. Qed.
Theorem los_ctor_individual_gev xi m sg (ld : val) rg cu :
  yields Gc9 60 (CClass "LOSDistribution" src_LOSDistribution_init) None []
    [("global_los_distribution", VBool false); ("los_distributions", ld); ("individual_distribution", VStr "GEV");
     ("kwargs_individual", dict [("xi", num xi); ("mean", num m); ("sigma", num sg)])] rg cu
    (VObj "LOSDistribution" [("_global_los_distribution", VBool false); ("_draw_kappa_global", VBool false);
                             ("_kappa_dist", VObj "GEV" [("_xi", num xi); ("_mean", num m); ("_sigma", num sg)]); ("_draw_kappa_individual", VBool true)]) cu [].
Proof. yields_auto. Qed.
(* a global population wins over an individual law (the individual one is then not even built); neither -> no draw *)
Theorem los_ctor_global_wins_and_none (ld ki : val) rg cu :
  yields Gc9 60 (CClass "LOSDistribution" src_LOSDistribution_init) None []
    [("global_los_distribution", VInt 0); ("los_distributions", VList [VStr "GAUSSIAN"]); ("individual_distribution", VStr "GEV"); ("kwargs_individual", ki)] rg cu
    (VObj "LOSDistribution" [("_global_los_distribution", VInt 0); ("_draw_kappa_global", VBool true); ("_los_distribution", VStr "GAUSSIAN"); ("_draw_kappa_individual", VBool false)]) cu []
  /\ yields Gc9 60 (CClass "LOSDistribution" src_LOSDistribution_init) None [] [("global_los_distribution", VBool false); ("los_distributions", ld)] rg cu
    (VObj "LOSDistribution" [("_global_los_distribution", VBool false); ("_draw_kappa_global", VBool false); ("_draw_kappa_individual", VBool false)]) cu [].
Proof. split; yields_auto. Qed.
End LOS.

(* ---------- the tabulated PDF: cumulative normalised histogram ---------- *)
Open Scope R_scope.
Fixpoint sumR (l : list R) : R := match l with [] => 0 | x :: r => x + sumR r end.
Fixpoint cumsum (a : R) (l : list R) : list R := match l with [] => [] | x :: r => (a + x) :: cumsum (a + x) r end.
Definition cdf (w : list R) : list R := 0 :: cumsum 0 (map (fun x => x / sumR w) w).

Lemma cumsum_length a l : length (cumsum a l) = length l.
Proof. revert a; induction l as [|x l IH]; intros a; cbn; [reflexivity|]. rewrite IH. reflexivity. Qed.
Lemma cdf_length w : length (cdf w) = S (length w).
Proof. unfold cdf. cbn. rewrite cumsum_length, map_length. reflexivity. Qed.
Lemma cdf_first w : hd 1 (cdf w) = 0. Proof. reflexivity. Qed.
Lemma cumsum_last a l : last (a :: cumsum a l) 0 = a + sumR l.
Proof.
  revert a; induction l as [|x l IH]; intros a; [cbn; ring|].
  cbn [cumsum sumR]. change (last (a :: (a + x) :: cumsum (a + x) l) 0) with (last ((a + x) :: cumsum (a + x) l) 0).
  rewrite IH. ring.
Qed.
Lemma sumR_scale c l : sumR (map (fun x => x / c) l) = sumR l / c.
Proof. induction l as [|x l IH]; cbn [map sumR]; [unfold Rdiv; ring|]. rewrite IH. unfold Rdiv. ring. Qed.
Theorem cdf_last w : sumR w <> 0 -> last (cdf w) 0 = 1.
Proof. intros H. unfold cdf. rewrite cumsum_last, sumR_scale. field. exact H. Qed.
Fixpoint nondecreasing (l : list R) : Prop :=
  match l with [] => True | x :: r => match r with [] => True | y :: _ => x <= y /\ nondecreasing r end end.
Lemma cumsum_nondecr a l : Forall (fun x => 0 <= x) l -> nondecreasing (a :: cumsum a l).
Proof.
  revert a; induction l as [|x l IH]; intros a H; [cbn; exact I|].
  inversion H; subst. cbn [cumsum]. change (a <= a + x /\ nondecreasing ((a + x) :: cumsum (a + x) l)). split; [lra | apply IH; assumption].
Qed.
Theorem cdf_nondecreasing w : Forall (fun x => 0 <= x) w -> 0 < sumR w -> nondecreasing (cdf w).
Proof.
  intros Hw Hs. unfold cdf. apply cumsum_nondecr. rewrite Forall_forall in *. intros y Hy. apply in_map_iff in Hy.
  destruct Hy as (x & <- & Hx). apply Rmult_le_pos; [apply Hw; exact Hx | left; apply Rinv_0_lt_compat; exact Hs].
Qed.

(* tie to the source at three bins with symbolic weights: approx_cdf_1d builds exactly [cdf w] and hands
   (bin_edges, cdf) / (cdf, bin_edges) to the two interpolants *)
Definition interp_oracle : callee :=
  COracle (fun args kws w => match args with [x; y] => Ok (VObj "interp1d" [("x", x); ("y", y)], w) | _ => Stuck "interp1d" end).
Definition Gc : fenv := FEnv (fun _ _ => None) (fun n => if String.eqb n "interp1d" then Some interp_oracle else None).
(* equal as numbers (the Python int 0 stored by `cdf_array[0] = 0` is the float 0.0 in the numpy array) *)
Definition same_reals (a b : val) : Prop := match to_x a, to_x b with Some (Fin x), Some (Fin y) => x = y | _, _ => False end.
Theorem approx_cdf_three e0 e1 e2 e3 w0 w1 w2 rg cu : w0 + (w1 + (w2 + 0)) <> 0 ->
  let edges := VArr [num e0; num e1; num e2; num e3] in
  exists c',
  yields Gc 80 (CFun src_fn_approx_cdf_1d) None [edges; VArr [num w0; num w1; num w2]] [] rg cu
    (VTuple [VArr c'; VObj "interp1d" [("x", edges); ("y", VArr c')]; VObj "interp1d" [("x", VArr c'); ("y", edges)]]) cu []
  /\ Forall2 same_reals c' (map num (cdf [w0; w1; w2])).
Proof.
  intros Hs edges. subst edges.
  eexists. split; [yields_auto|].
  unfold cdf, num. cbn [map cumsum sumR]. repeat constructor; unfold same_reals, to_x, Rdiv; ring.
Qed.

(* inverse-CDF sampling stays inside the bin range (strictly positive weights; bins of zero weight make the CDF flat and are
   left to the oracle: partial) *)
Lemma cumsum_incr a l : Forall (fun x => 0 < x) l -> increasing (a :: cumsum a l).
Proof.
  revert a; induction l as [|x l IH]; intros a H; [cbn; exact I|].
  inversion H; subst. cbn [cumsum]. change (a < a + x /\ increasing ((a + x) :: cumsum (a + x) l)). split; [lra | apply IH; assumption].
Qed.
Lemma cdf_increasing w : Forall (fun x => 0 < x) w -> 0 < sumR w -> increasing (cdf w).
Proof.
  intros Hw Hs. unfold cdf. apply cumsum_incr. rewrite Forall_forall in *. intros y Hy. apply in_map_iff in Hy.
  destruct Hy as (x & <- & Hx). apply Rmult_lt_0_compat; [apply Hw; exact Hx | apply Rinv_0_lt_compat; exact Hs].
Qed.
Lemma increasing_between : forall l, increasing l -> all_between (hd 0 l) (last l 0) l.
Proof.
  induction l as [|x l IH]; intros H; [constructor|].
  destruct l as [|y l'].
  - constructor; [cbn; lra | constructor].
  - cbn [increasing] in H. destruct H as [Hxy Hinc]. specialize (IH Hinc).
    assert (Hyl : y <= last (y :: l') 0).
    { unfold all_between in IH. inversion IH; subst. cbn [hd] in *. lra. }
    constructor.
    + cbn [hd]. change (last (x :: y :: l') 0) with (last (y :: l') 0). lra.
    + unfold all_between in *. rewrite Forall_forall in *. intros z Hz. specialize (IH z Hz). cbn [hd] in *.
      change (last (x :: y :: l') 0) with (last (y :: l') 0). lra.
Qed.
Lemma sumR_pos w : w <> [] -> Forall (fun x => 0 < x) w -> 0 < sumR w.
Proof.
  induction w as [|x w IH]; intros Hne H; [contradiction|]. inversion H; subst. cbn [sumR].
  destruct w as [|y w']; [cbn; lra|]. assert (0 < sumR (y :: w')) by (apply IH; [discriminate | assumption]). lra.
Qed.
Theorem pdf_draw_in_range_partial w edges p :
  w <> [] -> Forall (fun x => 0 < x) w -> length edges = S (length w) -> increasing edges -> 0 <= p <= 1 ->
  hd 0 edges <= interp1 (combine (cdf w) edges) p <= last edges 0.
Proof.
  intros Hne Hw Hlen Hinc Hp.
  pose proof (sumR_pos w Hne Hw) as Hs.
  assert (Hcl : length (cdf w) = length edges) by (rewrite cdf_length; lia).
  apply interp1_bounds.
  - rewrite combine_length, Hcl, Nat.min_id, Hlen. destruct w; [contradiction | cbn; lia].
  - rewrite map_fst_combine by exact Hcl. apply cdf_increasing; assumption.
  - assert (E : map snd (combine (cdf w) edges) = edges).
    { clear - Hcl. revert Hcl. generalize (cdf w). induction edges as [|e edges IH]; intros [|c l] H; cbn in *; try lia; [reflexivity|]. f_equal. apply IH. lia. }
    rewrite E. apply increasing_between. exact Hinc.
  - intros x0 y0 r E. unfold cdf in E. destruct edges as [|e edges']; [cbn in Hlen; lia|]. cbn in E. inversion E; subst. lra.
  - rewrite map_fst_combine by exact Hcl. rewrite cdf_last by lra. lra.
Qed.
