(* C09 - the interpolation range reaches the draw functions: LensLikelihood.__init__ hands the per-axis (min, max) of the kinematic scaling
   grid (KinScaling.param_bounds_interpol on the axes stored by KinScaling.__init__) to the lens and the anisotropy distribution, together
   with this lens' own flags. Source = C09.Src. *)
From Coq Require Import Reals ZArith String List Bool Lra.
Require Import Py.PyAst Py.PyVal Py.PySem Py.XLemmas Py.Unfold Py.Tactics.
Require Import C09.Src.
Import ListNotations.
Open Scope string_scope.
Fixpoint assoc_h {A} (k : string) (l : list (string * A)) : option A :=
  match l with [] => None | (k', v) :: t => if String.eqb k k' then Some v else assoc_h k t end.
Definition numh (r : R) := VNum (Fin r).
Definition vech (l : list R) := VArr (map numh l).
Definition dicth (l : list (string * val)) := VDict (map (fun kv => (VStr (fst kv), snd kv)) l).

Section Handover.
(* constructors of the collaborators: the object records the keywords it was built with *)
Definition cap (cls : string) : callee := COracle (fun args kws w => Ok (VObj cls kws, w)).
(* base-class initialisers that are not the subject here: leave the receiver as it is *)
Definition keep : callee := COracle (fun args kws w => Ok (hd VNone args, w)).
Definition gth : list (string * callee) :=
  [("TransformedCosmography.__init__", keep); ("LensLikelihoodBase.__init__", keep);
   ("KinScaling.__init__", CFun src_KinScaling_init); ("KinScalingParamManager.__init__", CFun src_KinScalingParamManager_init);
   ("ParameterScalingSingleMeasurement", cap "ParameterScalingSingleMeasurement");
   ("LOSDistribution", cap "LOSDistribution"); ("LensDistribution", cap "LensDistribution");
   ("AnisotropyDistribution", cap "AnisotropyDistribution"); ("PriorLikelihood", cap "PriorLikelihood")].
Definition Gh : fenv := FEnv (fun cls m => if String.eqb m "param_bounds_interpol" then Some (CFun src_KinScaling_param_bounds_interpol) else None) (fun n => assoc_h n gth).
Definition field (o : val) (k : string) : option val := match o with VObj _ fs => field_get k fs | _ => None end.
Open Scope R_scope.

Variables (a0 a1 a2 b0 b1 : R) (ifu : bool) (x y : R).
Definition grid := VObj "<scaling grid of one bin>" [].        (* the grid itself is not looked at by the constructor (a constructor term: the interpreter inspects loop variables) *)
Definition kmin := dicth [("a_ani", numh (Rmin (Rmin a0 a1) a2)); ("beta_inf", numh (Rmin b0 b1))].
Definition kmax := dicth [("a_ani", numh (Rmax (Rmax a0 a1) a2)); ("beta_inf", numh (Rmax b0 b1))].
Theorem range_handover rg cu :
  exists o,
  yields Gh 200 (CClass "LensLikelihood" src_LensLikelihood_init) None [numh (1/2); numh 2]
    [("likelihood_type", VStr "IFUKinCov"); ("mst_ifu", VBool ifu); ("lambda_scaling_property", numh x); ("lambda_scaling_property_beta", numh y);
     ("anisotropy_model", VStr "GOM"); ("anisotropy_sampling", VBool true); ("anisotropy_distribution", VStr "GAUSSIAN");
     ("kin_scaling_param_list", VList [VStr "a_ani"; VStr "beta_inf"]); ("j_kin_scaling_param_axes", VList [vech [a0; a1; a2]; vech [b0; b1]]);
     ("j_kin_scaling_grid_list", VList [grid]); ("num_distribution_draws", VInt 20)] rg cu o cu []
  /\ (exists fs, field o "_lens_distribution" = Some (VObj "LensDistribution" fs)
        /\ field_get "kwargs_min" fs = Some kmin /\ field_get "kwargs_max" fs = Some kmax
        /\ field_get "mst_ifu" fs = Some (VBool ifu)
        /\ field_get "lambda_scaling_property" fs = Some (numh x) /\ field_get "lambda_scaling_property_beta" fs = Some (numh y))
  /\ (exists fs, field o "_aniso_distribution" = Some (VObj "AnisotropyDistribution" fs)
        /\ field_get "kwargs_anisotropy_min" fs = Some kmin /\ field_get "kwargs_anisotropy_max" fs = Some kmax
        /\ field_get "anisotropy_model" fs = Some (VStr "GOM") /\ field_get "distribution_function" fs = Some (VStr "GAUSSIAN")
        /\ field_get "anisotropy_sampling" fs = Some (VBool true))
  /\ field o "_num_distribution_draws" = Some (VInt 20).
Proof.
  eexists. split; [yields_with real_fact ltac:(reflexivity)|].
  unfold kmin, kmax. cbn. repeat split; eexists; repeat split; reflexivity.
Qed.
End Handover.
