(* C09 - population draws stay inside the supported range and follow the declared law. Source = C09.Src (regenerated). *)
From Coq Require Import Reals ZArith String List Bool Lra Lia.
Require Import Py.PyAst Py.PyVal Py.PySem Py.XLemmas Py.Unfold Py.Tactics.
Require Import C09.Src.
Import ListNotations.
Open Scope string_scope.
Definition num (r : R) := VNum (Fin r).
Definition FUEL := 100%nat.

(* stratified environment: n = number of re-draws still allowed *)
Fixpoint rec_call (n : nat) (args : list val) (kws : list (string * val)) (w : world) : res (val * world) :=
  match n with
  | O => Stuck "recursion depth"
  | S m => call (FEnv (fun _ meth => if String.eqb meth "draw_anisotropy" then Some (CTail (rec_call m)) else None) (fun _ => None))
                FUEL (CFun src_AnisotropyDistribution_draw_anisotropy) None args kws w
  end.
Notation Gn n :=
  (FEnv (fun _ meth => if String.eqb meth "draw_anisotropy" then Some (CTail (rec_call n)) else None) (fun _ => None)).

Section Law.
Variable scaled : bool.     (* GAUSSIAN_SCALED: proposal scale sigma*mean; GAUSSIAN: sigma *)
Definition aniso_obj (amin amax : R) : val :=
  VObj "AnisotropyDistribution"
    [("_anisotropy_sampling", VBool true); ("_anisotropy_model", VStr "OM"); ("_distribution_function", VStr (if scaled then "GAUSSIAN_SCALED" else "GAUSSIAN"));
     ("_a_ani_min", num amin); ("_a_ani_max", num amax); ("_beta_inf_min", VNum NegInf); ("_beta_inf_max", VNum PosInf)].
Open Scope R_scope.

Ltac RUNH H := match type of H with ?t = _ =>
  let r := eval lazy -[Rplus Rmult Rminus Rdiv Rinv Ropp Rmax Rmin Rlt Rle Rgt Rge ln exp sqrt log10 IZR dec Rpower pow PI DBL_MAX not rec_call] in t in
  change t with r in H end.

Lemma rec_call_S n args kws w :
  rec_call (S n) args kws w = call (Gn n) FUEL (CFun src_AnisotropyDistribution_draw_anisotropy) None args kws w.
Proof. reflexivity. Qed.
Definition ARGS amin amax a sg := [aniso_obj amin amax; num a; num sg; VNone; VInt 0].
Definition prop_ (a sg z : R) : R := a + (if scaled then sg * a else sg) * z.

(* one level of the method: either it re-draws (tail call with the rest of the stream) or it accepts *)
Lemma step_cases amin amax a sg (rg : nat -> R) n cu ds p0 v w' :
  call (Gn n) FUEL (CFun src_AnisotropyDistribution_draw_anisotropy) None (ARGS amin amax a sg) [] (World rg cu [] ds p0) = Ok (v, w') ->
  (exists ds', rec_call n (ARGS amin amax a sg) []
        (World rg (S cu) [] ds' ((prop_ a sg (rg cu) < amin) :: (~ amax < a) :: (~ a < amin) :: p0)) = Ok (v, w'))
  \/ (exists ds', rec_call n (ARGS amin amax a sg) []
        (World rg (S cu) [] ds' ((amax < prop_ a sg (rg cu)) :: (~ prop_ a sg (rg cu) < amin) :: (~ amax < a) :: (~ a < amin) :: p0)) = Ok (v, w'))
  \/ (exists ds', v = VDict [(VStr "a_ani", num (prop_ a sg (rg cu)))] /\
        w' = World rg (S cu) [] ds' ((~ amax < prop_ a sg (rg cu)) :: (~ prop_ a sg (rg cu) < amin) :: (~ amax < a) :: (~ a < amin) :: p0)).
Proof.
  intros Hrun. unfold ARGS, prop_, aniso_obj in *.
  destruct scaled;
  (destruct ds as [|b1 ds]; [RUNH Hrun; discriminate|];
   destruct b1; [RUNH Hrun; discriminate|];
   destruct ds as [|b2 ds]; [RUNH Hrun; discriminate|];
   destruct b2; [RUNH Hrun; discriminate|];
   destruct ds as [|b3 ds]; [RUNH Hrun; discriminate|];
   destruct b3;
   [ left; exists ds; RUNH Hrun; exact Hrun
   | destruct ds as [|b4 ds]; [RUNH Hrun; discriminate|];
     destruct b4;
     [ right; left; exists ds; RUNH Hrun; exact Hrun
     | right; right; exists ds; RUNH Hrun; injection Hrun as <- <-; split; reflexivity ] ]).
Qed.

(* C09: whatever the random stream and however many re-draws happen, a returned a_ani lies in the grid range,
   and it is the first proposal of the stream that does (re-sampling, not clipping) *)
Theorem draw_anisotropy_in_range amin amax a sg (rg : nat -> R) :
  forall n cu ds p0 v w',
  rec_call n (ARGS amin amax a sg) [] (World rg cu [] ds p0) = Ok (v, w') ->
  holds (pc w') ->
  (holds p0) /\
  (exists k x, v = VDict [(VStr "a_ani", num x)] /\ amin <= x <= amax /\ x = prop_ a sg (rg (cu + k)%nat) /\ cur w' = S (cu + k)
              /\ forall j, (j < k)%nat -> ~ (amin <= prop_ a sg (rg (cu + j)%nat) <= amax)).
Proof.
  induction n as [|n IH]; intros cu ds p0 v w' Hrun Hpc. discriminate Hrun.
  rewrite rec_call_S in Hrun.
  apply (step_cases amin amax a sg rg n cu ds p0 v w') in Hrun.
  destruct Hrun as [[ds' Hr] | [[ds' Hr] | [ds' [Hv Hw]]]].
  - pose proof (IH (S cu) ds' _ v w' Hr Hpc) as HH. destruct HH as (Hp & k & x & Hv & Hx & Hxk & Hc & Hprev).
    cbn [holds] in Hp. destruct Hp as (Hlow & _ & _ & Hp0). clear IH Hr Hpc. split; [exact Hp0|].
    exists (S k), x. split; [exact Hv|]. split; [exact Hx|]. split; [|split].
    + rewrite Hxk. replace (cu + S k)%nat with (S cu + k)%nat by lia. reflexivity.
    + rewrite Hc. lia.
    + intros j Hj. destruct j as [|j].
      * rewrite Nat.add_0_r. lra.
      * replace (cu + S j)%nat with (S cu + j)%nat by lia. apply Hprev. lia.
  - destruct (IH _ _ _ _ _ Hr Hpc) as (Hp & k & x & Hv & Hx & Hxk & Hc & Hprev).
    cbn [holds] in Hp. destruct Hp as (Hhigh & _ & _ & _ & Hp0). clear IH Hr Hpc. split; [exact Hp0|].
    exists (S k), x. split; [exact Hv|]. split; [exact Hx|]. split; [|split].
    + rewrite Hxk. replace (cu + S k)%nat with (S cu + k)%nat by lia. reflexivity.
    + rewrite Hc. lia.
    + intros j Hj. destruct j as [|j].
      * rewrite Nat.add_0_r. lra.
      * replace (cu + S j)%nat with (S cu + j)%nat by lia. apply Hprev. lia.
  - subst v w'. cbn [pc holds] in Hpc. destruct Hpc as (Hnh & Hnl & _ & _ & Hp0). clear IH. split; [exact Hp0|].
    exists 0%nat, (prop_ a sg (rg cu)). rewrite Nat.add_0_r.
    split; [reflexivity|]. split; [lra|]. split; [reflexivity|]. split; [reflexivity|].
    intros j Hj; lia.
Qed.

(* a population mean outside the grid range raises ValueError: the first two questions the method asks are
   "a < amin ?" and "amax < a ?" (before any draw, which asks nothing), and a positive answer to either raises *)
Theorem mean_out_of_range_raises amin amax a sg (rg : nat -> R) n cu p0 :
  let run ds := call (Gn n) FUEL (CFun src_AnisotropyDistribution_draw_anisotropy) None (ARGS amin amax a sg) [] (World rg cu [] ds p0) in
  run [] = Need (a < amin) /\ run [true] = Exc "ValueError" /\
  run [false] = Need (amax < a) /\ run [false; true] = Exc "ValueError".
Proof. unfold ARGS. repeat split; run; reflexivity. Qed.
End Law.

(* ------------------------------------------------------------------------------------------- *)
(* the re-draw of LensDistribution.draw_lens (inner slope / mass-to-light outside the interpolation range) re-enters draw_lens with
   EXACTLY the caller's sixteen arguments, by name: every population parameter keeps its declared value on every re-draw (in
   particular the scatters: a dropped one would silently fall back to its default 0 and freeze that parameter) *)
Section Redraw.
Definition log_redraw : callee :=
  CTail (fun args kws w => Ok (VStr "<re-drawn>", World (rng w) (cur w) (("draw_lens", map (fun kv => VTuple [VStr (fst kv); snd kv]) kws) :: olog w) (decs w) (pc w))).
Definition Gr : fenv := FEnv (fun _ meth => if String.eqb meth "draw_lens" then Some log_redraw else None) (fun _ => None).
Variables (lo hi x : R) (ifu : bool).
Definition ld_obj (gin m2l : bool) : val :=
  VObj "LensDistribution"
    [("_mst_ifu", VBool ifu); ("_lambda_scaling_property", num x); ("_lambda_scaling_property_beta", num 0);
     ("_lambda_mst_sampling", VBool true); ("_lambda_mst_distribution", VStr "GAUSSIAN");
     ("_gamma_in_sampling", VBool gin); ("_gamma_in_distribution", VStr "GAUSSIAN"); ("_gamma_in_min", num lo); ("_gamma_in_max", num hi);
     ("_log_m2l_sampling", VBool m2l); ("_log_m2l_min", num lo); ("_log_m2l_max", num hi);
     ("_gamma_pl_model", VBool false); ("_gamma_pl_global_sampling", VBool false)].
Variables (lam slam gp lifu sifu al be gi sgi agi lm slm alm gmean gsig : R) (glist : val).
Definition all_kws : list (string * val) :=
  [("lambda_mst", num lam); ("lambda_mst_sigma", num slam); ("gamma_ppn", num gp); ("lambda_ifu", num lifu); ("lambda_ifu_sigma", num sifu);
   ("alpha_lambda", num al); ("beta_lambda", num be); ("gamma_in", num gi); ("gamma_in_sigma", num sgi); ("alpha_gamma_in", num agi);
   ("log_m2l", num lm); ("log_m2l_sigma", num slm); ("alpha_log_m2l", num alm); ("gamma_pl_list", glist); ("gamma_pl_mean", num gmean); ("gamma_pl_sigma", num gsig)].
Definition forwarded := [("draw_lens", map (fun kv => VTuple [VStr (fst kv); snd kv]) all_kws)].
Open Scope R_scope.
(* mass-to-light draw above / below the range: one lambda draw, one M/L draw, then the re-entry *)
Theorem redraw_m2l_forwards_everything rg cu :
  lo <= lm <= hi -> (hi < lm + alm * x + slm * rg (S cu) \/ lm + alm * x + slm * rg (S cu) < lo) ->
  yields Gr FUEL (CFun src_LensDistribution_draw_lens) (Some (ld_obj false true)) [] all_kws rg cu (VStr "<re-drawn>") (S (S cu)) forwarded.
Proof.
  intros Hm [Hout | Hout]; unfold ld_obj, all_kws, forwarded; destruct ifu; yields_with real_fact ltac:(reflexivity).
Qed.
(* inner-slope draw outside the range *)
Theorem redraw_gamma_in_forwards_everything rg cu :
  lo <= gi <= hi -> (hi < gi + agi * x + sgi * rg (S cu) \/ gi + agi * x + sgi * rg (S cu) < lo) ->
  yields Gr FUEL (CFun src_LensDistribution_draw_lens) (Some (ld_obj true false)) [] all_kws rg cu (VStr "<re-drawn>") (S (S cu)) forwarded.
Proof.
  intros Hm [Hout | Hout]; unfold ld_obj, all_kws, forwarded; destruct ifu; yields_with real_fact ltac:(reflexivity).
Qed.
End Redraw.
