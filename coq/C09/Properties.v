(* C09 — property theorems only. Source = C09.Src, regenerated from /repo on this run. *)
From Coq Require Import Reals ZArith String List Bool Lra.
Require Import Py.PyAst Py.PyVal Py.PySem Py.XLemmas Py.Interp.
Require Import C09.Src C09.Model C09.Los.
Import ListNotations.
Open Scope string_scope.
Open Scope R_scope.

(* Rejection sampling, for EVERY random stream, every start cursor and every re-draw budget n, for both laws
   (scaled = GAUSSIAN_SCALED: proposal mean + (sigma*mean)*z; otherwise GAUSSIAN: mean + sigma*z):
   a returned a_ani (i) lies in [min,max], (ii) IS the first proposal of the stream that lies in [min,max] - so it is
   re-sampled, never clipped - and (iii) the cursor has advanced by exactly the number of proposals consumed. *)
Theorem C09_first_accept_in_range : forall (scaled : bool) amin amax a sg (rg : nat -> R) n cu ds p0 v w',
  rec_call n (ARGS scaled amin amax a sg) [] (World rg cu [] ds p0) = Ok (v, w') ->
  holds (pc w') ->
  holds p0 /\
  exists k x, v = VDict [(VStr "a_ani", num x)] /\ amin <= x <= amax /\ x = prop_ scaled a sg (rg (cu + k)%nat) /\ cur w' = S (cu + k)
              /\ forall j, (j < k)%nat -> ~ (amin <= prop_ scaled a sg (rg (cu + j)%nat) <= amax).
Proof. exact draw_anisotropy_in_range. Qed.
Print Assumptions C09_first_accept_in_range.
Example C09_proposal_scale : prop_ true 2 (1/10) 1 = 2 + 1/10 * 2 * 1 /\ prop_ false 2 (1/10) 1 = 2 + 1/10 * 1.
Proof. unfold prop_. split; reflexivity. Qed.

(* a population mean outside the range raises ValueError; the two range questions are the first things asked (no draw before) *)
Theorem C09_mean_checked : forall (scaled : bool) amin amax a sg (rg : nat -> R) n cu p0,
  let run ds := call (Gn n) FUEL (CFun src_AnisotropyDistribution_draw_anisotropy) None (ARGS scaled amin amax a sg) [] (World rg cu [] ds p0) in
  run [] = Need (a < amin) /\ run [true] = Exc "ValueError" /\
  run [false] = Need (amax < a) /\ run [false; true] = Exc "ValueError".
Proof. exact mean_out_of_range_raises. Qed.
Print Assumptions C09_mean_checked.

(* line-of-sight laws: Gaussian mean + sigma*z_k, GEV mean + sigma*ppf_xi(u_k), from the lens' OWN population entry (one-element
   arrays: the source draws with size=1); none -> 0 *)
Theorem C09_los_laws : forall (gev_ppf : R -> R -> R) other m sg xi kl rg cu,
  yields (Gl gev_ppf) 60 (CFun src_LOSDistribution_draw_los) (Some (los_glob "GAUSSIAN")) [VList [other; dict [("mean", num m); ("sigma", num sg)]]] [] rg cu
    (VArr [num (m + sg * rg cu)]) (S cu) []
  /\ yields (Gl gev_ppf) 60 (CFun src_LOSDistribution_draw_los) (Some (los_glob "GEV")) [VList [other; dict [("mean", num m); ("sigma", num sg); ("xi", num xi)]]] [] rg cu
    (VArr [num (m + sg * gev_ppf xi (rg cu))]) (S cu) []
  /\ yields (Gl gev_ppf) 60 (CFun src_LOSDistribution_draw_los) (Some los_none) [kl] [] rg cu (VInt 0) cu [].
Proof. intros. split; [apply los_gaussian | split; [apply los_gev | apply los_none_is_zero]]. Qed.
Print Assumptions C09_los_laws.

(* which law an object is bound to: its own population of the list (index 0 included), else its individual law, else none *)
Theorem C09_los_constructor : forall (gev_ppf : R -> R -> R) (d0 d1 d2 : string) xi m sg (ld ki : val) rg cu,
  yields Gc9 60 (CClass "LOSDistribution" src_LOSDistribution_init) None [] [("global_los_distribution", VInt 1); ("los_distributions", VList [VStr d0; VStr d1; VStr d2])] rg cu
    (VObj "LOSDistribution" [("_global_los_distribution", VInt 1); ("_draw_kappa_global", VBool true); ("_los_distribution", VStr d1); ("_draw_kappa_individual", VBool false)]) cu []
  /\ yields Gc9 60 (CClass "LOSDistribution" src_LOSDistribution_init) None [] [("global_los_distribution", VInt 0); ("los_distributions", VList [VStr d0; VStr d1; VStr d2])] rg cu
    (VObj "LOSDistribution" [("_global_los_distribution", VInt 0); ("_draw_kappa_global", VBool true); ("_los_distribution", VStr d0); ("_draw_kappa_individual", VBool false)]) cu []
  /\ yields Gc9 60 (CClass "LOSDistribution" src_LOSDistribution_init) None []
    [("global_los_distribution", VBool false); ("los_distributions", ld); ("individual_distribution", VStr "GEV");
     ("kwargs_individual", dict [("xi", num xi); ("mean", num m); ("sigma", num sg)])] rg cu
    (VObj "LOSDistribution" [("_global_los_distribution", VBool false); ("_draw_kappa_global", VBool false);
                             ("_kappa_dist", VObj "GEV" [("_xi", num xi); ("_mean", num m); ("_sigma", num sg)]); ("_draw_kappa_individual", VBool true)]) cu []
  /\ yields Gc9 60 (CClass "LOSDistribution" src_LOSDistribution_init) None []
    [("global_los_distribution", VInt 0); ("los_distributions", VList [VStr "GAUSSIAN"]); ("individual_distribution", VStr "GEV"); ("kwargs_individual", ki)] rg cu
    (VObj "LOSDistribution" [("_global_los_distribution", VInt 0); ("_draw_kappa_global", VBool true); ("_los_distribution", VStr "GAUSSIAN"); ("_draw_kappa_individual", VBool false)]) cu []
  /\ yields Gc9 60 (CClass "LOSDistribution" src_LOSDistribution_init) None [] [("global_los_distribution", VBool false); ("los_distributions", ld)] rg cu
    (VObj "LOSDistribution" [("_global_los_distribution", VBool false); ("_draw_kappa_global", VBool false); ("_draw_kappa_individual", VBool false)]) cu [].
Proof. intros. pose proof (los_ctor_global_population d0 d1 d2 rg cu) as [A B]. pose proof (los_ctor_global_wins_and_none ld ki rg cu) as [C D].
  repeat split; [exact A | exact B | apply los_ctor_individual_gev | exact C | exact D]. Qed.
Print Assumptions C09_los_constructor.

(* 'is this a distribution': False exactly when the draw is degenerate *)
Theorem C09_draw_bool : forall (gev_ppf : R -> R -> R) glob kl m sg rg cu,
  yields (Gl gev_ppf) 50 (CFun src_LOSDistribution_draw_bool) (Some (los_obj true glob)) [kl] [] rg cu (VBool true) cu []
  /\ yields (Gl gev_ppf) 50 (CFun src_LOSDistribution_draw_bool) (Some (los_obj false false)) [kl] [] rg cu (VBool false) cu []
  /\ (sg = 0 -> yields (Gl gev_ppf) 50 (CFun src_LOSDistribution_draw_bool) (Some (los_obj false true)) [VList [dict [("mean", num m); ("sigma", num sg)]]] [] rg cu (VBool false) cu [])
  /\ (sg <> 0 -> yields (Gl gev_ppf) 50 (CFun src_LOSDistribution_draw_bool) (Some (los_obj false true)) [VList [dict [("mean", num m); ("sigma", num sg)]]] [] rg cu (VBool true) cu []).
Proof. intros. split; [apply draw_bool_individual | split; [apply draw_bool_none | apply draw_bool_global]]. Qed.
Print Assumptions C09_draw_bool.

(* tabulated PDF: the cumulative normalised histogram has len(bin_edges) entries, starts at 0, ends at 1, is non-decreasing *)
Theorem C09_cdf : forall w, Forall (fun x => 0 <= x) w -> 0 < sumR w ->
  length (cdf w) = S (length w) /\ hd 1 (cdf w) = 0 /\ last (cdf w) 0 = 1 /\ nondecreasing (cdf w).
Proof. intros w Hw Hs. split; [apply cdf_length | split; [apply cdf_first | split; [apply cdf_last; lra | apply cdf_nondecreasing; assumption]]]. Qed.
Print Assumptions C09_cdf.
(* ... and approx_cdf_1d builds exactly that list and hands (edges, cdf) / (cdf, edges) to the two interpolants (three symbolic bins) *)
Theorem C09_cdf_is_source : forall e0 e1 e2 e3 w0 w1 w2 rg cu, w0 + (w1 + (w2 + 0)) <> 0 ->
  let edges := VArr [num e0; num e1; num e2; num e3] in
  exists c',
  yields Gc 80 (CFun src_fn_approx_cdf_1d) None [edges; VArr [num w0; num w1; num w2]] [] rg cu
    (VTuple [VArr c'; VObj "interp1d" [("x", edges); ("y", VArr c')]; VObj "interp1d" [("x", VArr c'); ("y", edges)]]) cu []
  /\ Forall2 same_reals c' (map num (cdf [w0; w1; w2])).
Proof. exact approx_cdf_three. Qed.
Print Assumptions C09_cdf_is_source.
(* inverse-CDF draws stay inside the bin range (positive weights; zero-weight bins: oracle only) *)
Theorem C09_pdf_draw_in_range_partial : forall w edges p,
  w <> [] -> Forall (fun x => 0 < x) w -> length edges = S (length w) -> increasing edges -> 0 <= p <= 1 ->
  hd 0 edges <= interp1 (combine (cdf w) edges) p <= last edges 0.
Proof. exact pdf_draw_in_range_partial. Qed.
Print Assumptions C09_pdf_draw_in_range_partial.

(* the interpolation range reaches the draw functions: LensLikelihood.__init__ (real source, with the real KinScaling.__init__ and
   param_bounds_interpol; collaborators' constructors record their keywords) hands the per-axis (min, max) of the scaling grid axes to BOTH
   the lens distribution and the anisotropy distribution, with this lens' own flags; so C09_first_accept_in_range's [min, max] are the axis
   minimum and maximum *)
Require Import C09.Handover.
Theorem C09_range_handover : forall (a0 a1 a2 b0 b1 : R) (ifu : bool) (x y : R) rg cu,
  exists o,
  yields Gh 200 (CClass "LensLikelihood" src_LensLikelihood_init) None [numh (1/2); numh 2]
    [("likelihood_type", VStr "IFUKinCov"); ("mst_ifu", VBool ifu); ("lambda_scaling_property", numh x); ("lambda_scaling_property_beta", numh y);
     ("anisotropy_model", VStr "GOM"); ("anisotropy_sampling", VBool true); ("anisotropy_distribution", VStr "GAUSSIAN");
     ("kin_scaling_param_list", VList [VStr "a_ani"; VStr "beta_inf"]); ("j_kin_scaling_param_axes", VList [vech [a0; a1; a2]; vech [b0; b1]]);
     ("j_kin_scaling_grid_list", VList [grid]); ("num_distribution_draws", VInt 20)] rg cu o cu []
  /\ (exists fs, field o "_lens_distribution" = Some (VObj "LensDistribution" fs)
        /\ field_get "kwargs_min" fs = Some (kmin a0 a1 a2 b0 b1) /\ field_get "kwargs_max" fs = Some (kmax a0 a1 a2 b0 b1)
        /\ field_get "mst_ifu" fs = Some (VBool ifu)
        /\ field_get "lambda_scaling_property" fs = Some (numh x) /\ field_get "lambda_scaling_property_beta" fs = Some (numh y))
  /\ (exists fs, field o "_aniso_distribution" = Some (VObj "AnisotropyDistribution" fs)
        /\ field_get "kwargs_anisotropy_min" fs = Some (kmin a0 a1 a2 b0 b1) /\ field_get "kwargs_anisotropy_max" fs = Some (kmax a0 a1 a2 b0 b1)
        /\ field_get "anisotropy_model" fs = Some (VStr "GOM") /\ field_get "distribution_function" fs = Some (VStr "GAUSSIAN")
        /\ field_get "anisotropy_sampling" fs = Some (VBool true))
  /\ field o "_num_distribution_draws" = Some (VInt 20).
Proof. exact range_handover. Qed.
Print Assumptions C09_range_handover.

(* re-drawing the lens parameters (inner slope / mass-to-light outside the range) re-enters draw_lens with exactly the caller's sixteen
   arguments by name: all means, scatters and slopes keep their declared values on every re-draw *)
Theorem C09_redraw_keeps_all_arguments : forall lo hi x ifu lam slam gp lifu sifu al be gi sgi agi lm slm alm gmean gsig glist rg cu,
  (lo <= lm <= hi -> (hi < lm + alm * x + slm * rg (S cu) \/ lm + alm * x + slm * rg (S cu) < lo) ->
   yields Gr FUEL (CFun src_LensDistribution_draw_lens) (Some (ld_obj lo hi x ifu false true)) []
     (all_kws lam slam gp lifu sifu al be gi sgi agi lm slm alm gmean gsig glist) rg cu (VStr "<re-drawn>") (S (S cu))
     (forwarded lam slam gp lifu sifu al be gi sgi agi lm slm alm gmean gsig glist))
  /\ (lo <= gi <= hi -> (hi < gi + agi * x + sgi * rg (S cu) \/ gi + agi * x + sgi * rg (S cu) < lo) ->
   yields Gr FUEL (CFun src_LensDistribution_draw_lens) (Some (ld_obj lo hi x ifu true false)) []
     (all_kws lam slam gp lifu sifu al be gi sgi agi lm slm alm gmean gsig glist) rg cu (VStr "<re-drawn>") (S (S cu))
     (forwarded lam slam gp lifu sifu al be gi sgi agi lm slm alm gmean gsig glist)).
Proof. intros. split; intros; [apply redraw_m2l_forwards_everything | apply redraw_gamma_in_forwards_everything]; assumption. Qed.
Print Assumptions C09_redraw_keeps_all_arguments.
