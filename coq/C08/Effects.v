(* C08 — which caller-visible objects can a function write?  A may-alias / may-mutate analysis over the serialised source
   (all of hierarc/Likelihood, Sampling/Distributions, Sampling/ParamManager, two Util modules), written in Coq and decided by
   vm_compute on the regenerated ASTs.  "Sources" are the parameters of a function (by name; "self" stands for the receiver and
   everything reachable from its attributes).  A local may alias a set of sources; a store through a local, an in-place operator on
   it, a mutating container method on it, or handing it to a callee that writes the corresponding parameter, MUTATES those sources. *)
From Coq Require Import ZArith String List Bool.
Require Import Py.PyAst.
Import ListNotations.
Open Scope string_scope.
Open Scope list_scope.

Definition mem (x : string) (l : list string) : bool := existsb (String.eqb x) l.
Fixpoint uniq (l : list string) : list string := match l with [] => [] | x :: r => if mem x r then uniq r else x :: uniq r end.
Fixpoint lookup_a (x : string) (al : list (string * list string)) : list string :=
  match al with [] => [] | (y, s) :: t => if String.eqb x y then s else lookup_a x t end.
Fixpoint set_a (x : string) (s : list string) (al : list (string * list string)) : list (string * list string) :=
  match al with [] => [(x, s)] | (y, s') :: t => if String.eqb x y then (y, s) :: t else (y, s') :: set_a x s t end.
Fixpoint merge_a (a b : list (string * list string)) : list (string * list string) :=
  match b with [] => a | (y, s) :: t => merge_a (set_a y (uniq (lookup_a y a ++ s)) a) t end.

(* per-function summary: parameter names, sources it may mutate, sources its return value may alias *)
Record summary := Summ { s_cls : string; s_key : string; s_params : list string; s_static : bool; s_muts : list string; s_ret : list string }.
Definition summaries := list summary.
Definition by_key (k : string) (SM : summaries) : list summary := filter (fun s => String.eqb (s_key s) k) SM.
(* a call on the receiver `self` resolves inside the caller's own class when that class defines the method; otherwise (inherited
   methods, other receivers) every function of that name is considered *)
Definition is_self (r : option expr) : bool := match r with Some (EName x) => String.eqb x "self" | _ => false end.
Definition resolve (cls : string) (recv : option expr) (k : string) (SM : summaries) : list summary :=
  let all := by_key k SM in
  if is_self recv then match filter (fun s => String.eqb (s_cls s) cls) all with [] => all | own => own end else all.

(* container methods that write their receiver; library functions that write their first argument *)
Definition mutators : list string := ["pop"; "append"; "update"; "setdefault"; "extend"; "remove"; "clear"; "insert"; "sort"; "reverse"; "popitem"; "fill"; "resize"; "itemset"; "put"].
Definition lib_mut_first : list string := ["fill_diagonal"; "shuffle"; "put"; "place"; "copyto"].

Fixpoint root (e : expr) : option string :=
  match e with
  | EName x => Some x | ESub c _ => root c | EAttr c _ => root c
  | ECall (EName g) (a :: _) _ => if String.eqb g "getattr" then root a else None
  | _ => None end.
Fixpoint tnames (t : expr) : list string := match t with EName x => [x] | ETuple l | EList l => flat_map tnames l | _ => [] end.
Definition callee_name (f : expr) : option (option expr * string) :=      (* (receiver, name) *)
  match f with EName g => Some (None, g) | EAttr r m => Some (Some r, m) | _ => None end.
Fixpoint nth_s (n : nat) (l : list string) : option string := match l, n with x :: _, O => Some x | _ :: r, S m => nth_s m r | [], _ => None end.
Fixpoint index_of (x : string) (l : list string) (i : nat) : option nat :=
  match l with [] => None | y :: r => if String.eqb x y then Some i else index_of x r (S i) end.

Section WithSumm.
Variable SM : summaries.
Variable CLS : string.                 (* the class of the function under analysis *)
Variable IDX : list string.             (* names used as subscript indices in it: integers, for which += is not a mutation *)
(* sources the value of an expression may alias *)
Fixpoint srcs (fuel : nat) (al : list (string * list string)) (e : expr) : list string :=
  match fuel with O => ["<fuel>"] | S f =>
  match e with
  | EName x => lookup_a x al
  | ESub c _ | EAttr c _ => srcs f al c
  | EIfExp _ a b => srcs f al a ++ srcs f al b
  | EBoolOp _ l => flat_map (srcs f al) l
  | ECall fe args kws =>
      match callee_name fe with
      | Some (recv, g) =>
          flat_map (fun s =>
            let ps := if negb (s_static s) && mem "self" (firstn 1 (s_params s)) then match recv with Some _ => tl (s_params s) | None => s_params s end else s_params s in
            (match recv with Some r => if mem "self" (s_ret s) then srcs f al r else [] | None => [] end) ++
            flat_map (fun p => match index_of p ps 0 with
                               | Some i => (match nth_error args i with Some a => srcs f al a | None => [] end) ++
                                           flat_map (fun kv => match fst kv with Some k => if String.eqb k p then srcs f al (snd kv) else [] | None => srcs f al (snd kv) end) kws
                               | None => [] end) (s_ret s)) (resolve CLS recv g SM)
      | None => [] end
  | _ => []
  end end.
(* sources mutated by evaluating an expression (mutating calls anywhere inside it) *)
Fixpoint emuts (fuel : nat) (al : list (string * list string)) (e : expr) : list string :=
  match fuel with O => ["<fuel>"] | S f =>
  let sub := flat_map (emuts f al) in
  match e with
  | ECall fe args kws =>
      sub args ++ sub (map snd kws) ++
      match callee_name fe with
      | Some (recv, g) =>
          (match recv with
           | Some r => emuts f al r ++ (if mem g mutators then srcs f al r else []) ++
                       (if mem g lib_mut_first then match args with a :: _ => srcs f al a | [] => [] end else [])
           | None => if mem g ["setattr"; "delattr"] then match args with a :: _ => srcs f al a | [] => [] end else [] end) ++
          flat_map (fun s =>
            let meth := negb (s_static s) && mem "self" (firstn 1 (s_params s)) in
            let ps := if meth then match recv with Some _ => tl (s_params s) | None => s_params s end else s_params s in
            (match recv with Some r => if meth && mem "self" (s_muts s) then srcs f al r else [] | None => [] end) ++
            flat_map (fun p => match index_of p ps 0 with
                               | Some i => (match nth_error args i with Some a => srcs f al a | None => [] end) ++
                                           flat_map (fun kv => match fst kv with Some k => if String.eqb k p then srcs f al (snd kv) else [] | None => srcs f al (snd kv) end) kws
                               | None => [] end) (s_muts s)) (resolve CLS recv g SM)
      | None => emuts f al fe end
  | EAttr c _ => emuts f al c
  | ESub c i => emuts f al c ++ emuts f al i
  | EBin _ a b | ECmp _ a b => emuts f al a ++ emuts f al b
  | EUn _ a => emuts f al a
  | EBoolOp _ l | EList l | ETuple l => sub l
  | EDict l => sub (map snd l) ++ sub (flat_map (fun kv => match fst kv with Some k => [k] | None => [] end) l)
  | EIfExp c a b => emuts f al c ++ emuts f al a ++ emuts f al b
  | EListComp elt t it conds => emuts f al it ++ emuts f (fold_left (fun a x => set_a x (srcs f al it) a) (tnames t) al) elt ++ sub conds
  | _ => []
  end end.

(* statements: returns (alias map after, mutated sources, sources the returned values may alias) *)
Fixpoint walk (fuel : nat) (al : list (string * list string)) (ss : list stmt) : list (string * list string) * list string * list string :=
  match fuel with O => (al, ["<fuel>"], []) | S f =>
  match ss with
  | [] => (al, [], [])
  | s :: rest =>
      let '(al1, m1, r1) :=
        match s with
        | SAssign t e =>
            match t with
            | EName _ | ETuple _ | EList _ => (fold_left (fun a x => set_a x (srcs f al e) a) (tnames t) al, emuts f al e, [])
            | _ => (al, (match root t with Some r => lookup_a r al | None => ["<unknown target>"] end) ++ emuts f al e ++ emuts f al t, [])
            end
        | SAug _ (EName x) e => (al, (if mem x IDX then [] else lookup_a x al) ++ emuts f al e, [])
        | SAug _ t e => (al, (match root t with Some r => lookup_a r al | None => ["<unknown target>"] end) ++ emuts f al e ++ emuts f al t, [])
        | SIf c a b =>
            let '(ala, ma, ra) := walk f al a in let '(alb, mb, rb) := walk f al b in
            (merge_a ala alb, emuts f al c ++ ma ++ mb, ra ++ rb)
        | SFor t it body =>
            let al0 := fold_left (fun a x => set_a x (uniq (lookup_a x a ++ srcs f al it)) a) (tnames t) al in
            let '(alb, mb, rb) := walk f al0 body in
            let '(alc, mc, rc) := walk f (merge_a al0 alb) body in       (* second pass: loop-carried aliases *)
            (merge_a al (merge_a alb alc), emuts f al it ++ mb ++ mc, rb ++ rc)
        | SReturn (Some e) => (al, emuts f al e, srcs f al e)
        | SReturn None | SPass | SRaise _ => (al, [], [])
        | SExpr e | SAssert e => (al, emuts f al e, [])
        | STry a b =>
            let '(ala, ma, ra) := walk f al a in let '(alb, mb, rb) := walk f (merge_a al ala) b in
            (merge_a ala alb, ma ++ mb, ra ++ rb)
        | SWith c nm b =>
            let '(alb, mb, rb) := walk f (match nm with Some x => set_a x (srcs f al c) al | None => al end) b in (alb, emuts f al c ++ mb, rb)
        | SUnsupported m => (al, ["<unsupported statement>"], [])
        end in
      let '(al2, m2, r2) := walk f al1 rest in (al2, m1 ++ m2, r1 ++ r2)
  end end.
End WithSumm.

Definition split_key (k : string) : string * string :=      (* "Class.method" -> (Class, method) *)
  match index 0 "." k with Some i => (substring 0 i k, substring (i + 1) (String.length k - i - 1) k) | None => ("", k) end.
(* names used as a subscript index somewhere in the function *)
Fixpoint idx_e (fuel : nat) (e : expr) : list string :=
  match fuel with O => [] | S f =>
  let sub := flat_map (idx_e f) in
  match e with
  | ESub c (EName i) => i :: idx_e f c
  | ESub c i => idx_e f c ++ idx_e f i
  | EAttr c _ | EUn _ c => idx_e f c
  | EBin _ a b | ECmp _ a b => idx_e f a ++ idx_e f b
  | EBoolOp _ l | EList l | ETuple l => sub l
  | ECall fe args kws => idx_e f fe ++ sub args ++ sub (map snd kws)
  | EDict l => sub (map snd l)
  | EIfExp c a b => idx_e f c ++ idx_e f a ++ idx_e f b
  | EListComp a t it cs => idx_e f a ++ idx_e f it ++ sub cs
  | _ => [] end end.
Fixpoint idx_s (fuel : nat) (ss : list stmt) : list string :=
  match fuel with O => [] | S f =>
  flat_map (fun s => match s with
    | SAssign t e | SAug _ t e => idx_e 30 t ++ idx_e 30 e
    | SIf c a b => idx_e 30 c ++ idx_s f a ++ idx_s f b
    | SFor t it b => idx_e 30 it ++ idx_s f b
    | SReturn (Some e) | SExpr e | SAssert e => idx_e 30 e
    | STry a b => idx_s f a ++ idx_s f b
    | SWith c _ b => idx_e 30 c ++ idx_s f b
    | _ => [] end) ss end.
(* [allow]: (function, source) pairs that are accepted and documented exceptions; they are removed from the summaries so that they do not
   taint callers *)
Definition analyse1 (allow : list (string * string)) (SM : summaries) (kf : string * fundef) : list summary :=
  let fd := snd kf in
  let ps := map fst (f_params fd) ++ (match f_kwarg fd with Some k => [k] | None => [] end) in
  let al0 := map (fun p => (p, [p])) ps in
  let cm := split_key (fst kf) in
  let '(_, m, r) := walk SM (fst cm) (idx_s 40 (f_body fd)) 60 al0 (f_body fd) in
  let m' := filter (fun x => negb (existsb (fun a => String.eqb (fst a) (fst kf) && String.eqb (snd a) x) allow)) (uniq m) in
  let s := Summ (fst cm) (snd cm) ps (f_static fd) m' (uniq r) in
  if String.eqb (snd cm) "__init__"
  then [s; Summ "" (fst cm) (tl ps) true (filter (fun x => negb (String.eqb x "self")) m') []]      (* ClassName(args): the constructor call *)
  else [s].
Definition step (allow : list (string * string)) (prog : list (string * fundef)) (SM : summaries) : summaries := flat_map (analyse1 allow SM) prog.
Fixpoint iter (n : nat) (allow : list (string * string)) (prog : list (string * fundef)) (SM : summaries) : summaries :=
  match n with O => SM | S m => iter m allow prog (step allow prog SM) end.
Definition summ_eqb (a b : summary) : bool :=
  String.eqb (s_key a) (s_key b) && (length (s_muts a) =? length (s_muts b))%nat && forallb (fun x => mem x (s_muts b)) (s_muts a)
  && (length (s_ret a) =? length (s_ret b))%nat && forallb (fun x => mem x (s_ret b)) (s_ret a).
Fixpoint all2 {A} (f : A -> A -> bool) (a b : list A) : bool :=
  match a, b with [] , [] => true | x :: r, y :: s => f x y && all2 f r s | _, _ => false end.
(* the result: for every function of the program, the sources it may mutate (after the summaries have stabilised) *)
Definition effects (allow : list (string * string)) (prog : list (string * fundef)) : list (string * list string) :=
  let SM := iter 5 allow prog [] in
  map (fun kf => (fst kf, match analyse1 allow SM kf with s :: _ => s_muts s | [] => ["<none>"] end)) prog.
Definition stable (allow : list (string * string)) (prog : list (string * fundef)) : bool := all2 summ_eqb (iter 5 allow prog []) (iter 6 allow prog []).
(* functions that write something other than: nothing, or (constructors) the object under construction *)
Definition impure (allow : list (string * string)) (prog : list (string * fundef)) : list (string * list string) :=
  filter (fun kv => match snd kv with
                    | [] => false
                    | ["self"] => negb (String.eqb (snd (split_key (fst kv))) "__init__")
                    | _ => true end) (effects allow prog).

(* who calls a function of this name *)
Fixpoint calls_e (fuel : nat) (g : string) (e : expr) : bool :=
  match fuel with O => false | S f =>
  let sub := existsb (calls_e f g) in
  match e with
  | ECall fe args kws => (match callee_name fe with Some (_, n) => String.eqb n g | None => false end) || calls_e f g fe || sub args || sub (map snd kws)
  | ESub c i => calls_e f g c || calls_e f g i
  | EAttr c _ | EUn _ c => calls_e f g c
  | EBin _ a b | ECmp _ a b => calls_e f g a || calls_e f g b
  | EBoolOp _ l | EList l | ETuple l => sub l
  | EDict l => sub (map snd l)
  | EIfExp c a b => calls_e f g c || calls_e f g a || calls_e f g b
  | EListComp a t it cs => calls_e f g a || calls_e f g it || sub cs
  | _ => false end end.
Fixpoint calls_s (fuel : nat) (g : string) (ss : list stmt) : bool :=
  match fuel with O => false | S f =>
  existsb (fun s => match s with
    | SAssign t e | SAug _ t e => calls_e 30 g t || calls_e 30 g e
    | SIf c a b => calls_e 30 g c || calls_s f g a || calls_s f g b
    | SFor t it b => calls_e 30 g it || calls_s f g b
    | SReturn (Some e) | SExpr e | SAssert e => calls_e 30 g e
    | STry a b => calls_s f g a || calls_s f g b
    | SWith c _ b => calls_e 30 g c || calls_s f g b
    | _ => false end) ss end.
Definition callers (g : string) (prog : list (string * fundef)) : list string :=
  map fst (filter (fun kf => calls_s 40 g (f_body (snd kf))) prog).
