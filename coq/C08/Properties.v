(* C08 — property theorems only. Source = C08.Src, regenerated from /repo on this run. *)
From Coq Require Import Reals ZArith String List Bool Lra.
Require Import Py.PyAst Py.PyVal Py.PySem Py.XLemmas.
Require Import C08.Src C08.Effects C08.Wiring C08.Sharp C08.Model.
Import ListNotations.
Open Scope string_scope.
Open Scope R_scope.

(* Whole-program may-mutate analysis, decided in the kernel on the regenerated source of ~170 functions: apart from constructors (which
   write the object under construction) and three documented exceptions, the ONLY functions that may write a caller-visible object
   are the chain-management methods and the two vector helpers (first argument). Nothing on the evaluation path writes the sampling
   vector, a parameter dictionary, a configuration list/array or the likelihood object. *)
Theorem C08_no_caller_writes : impure allow src_all = expected_impure.
Proof. exact impure_is_expected. Qed.
Print Assumptions C08_no_caller_writes.
Theorem C08_analysis_reached_fixpoint : stable allow src_all = true.
Proof. exact summaries_stable. Qed.
Theorem C08_evaluation_path_pure :
  map effect_of ["CosmoLikelihood.likelihood"; "LensSampleLikelihood.log_likelihood"; "LensLikelihood.lens_log_likelihood";
                 "LensLikelihood.hyper_param_likelihood"; "LensLikelihood.log_likelihood_single"; "LensLikelihood.check_dist";
                 "LensDistribution.draw_lens"; "AnisotropyDistribution.draw_anisotropy"; "LOSDistribution.draw_los";
                 "KinLikelihood.log_likelihood"; "CustomSneLikelihood.log_likelihood_lum_dist"; "SneLikelihoodFromFile.log_likelihood_lum_dist";
                 "SneLikelihood.log_likelihood"; "DdtHistLikelihood.log_likelihood"; "ParamManager.args2kwargs"; "PriorLikelihood.log_likelihood"]
  = repeat (Some []) 16.
Proof. exact evaluation_path_pure. Qed.
(* the exceptions: constructor helpers are reached from constructors only; the fixed-cosmology interpolation cache is the only attribute
   assigned outside a constructor, and only under `not hasattr(self, "_cosmo_fixed_interp")` *)
Theorem C08_exception_callers :
  callers "init_loglikelihood" src_all = ["KDELikelihood.__init__"] /\
  callers "_inverse_covariance_matrix" src_all = ["CustomSneLikelihood.log_likelihood_lum_dist"; "SneLikelihoodFromFile.__init__"] /\
  effect_of "CustomSneLikelihood._inverse_covariance_matrix" = Some [] /\
  callers "cosmo_instance" src_all = ["CosmoLikelihood.likelihood"].
Proof. exact exception_callers. Qed.
Theorem C08_cache_written_once_under_guard :
  map (fun w => (fst w, existsb is_hasattr_guard (snd w))) (attr_writes 20 [] (f_body src_cosmo_instance)) = [("_cosmo_fixed_interp", true)].
Proof. exact cache_written_under_guard. Qed.

(* For sharp hyper-parameters the value of a lens evaluation is the same for EVERY random stream and cursor position (the draws are
   consumed but multiply a zero scatter): independence of the random-number state and of how many numbers earlier calls consumed. *)
Theorem C08_sharp_value_ignores_rng_state : forall (D : list val -> list (string * val) -> R) (K : val -> val)
    (ifu : bool) (ddt dd dl beta lam lifu al be g x y kap mu : R) (rg rg' : nat -> R) (cu cu' : nat),
  1/10000 <= ((if ifu then lifu else lam) + al * x + be * y) * (1 - kap) ->
  exists v log,
  yields (Gw D K) 100 (CFun src_LensLikelihood_log_likelihood_single) (Some (lens_self ifu x y))
    [num ddt; num dd; num dl; num beta; dict (lens_kws lam lifu al be g); dict [];
     dict [("mu_sne", num mu); ("sigma_sne", num 0)]; VList [dict [("mean", num kap); ("sigma", num 0)]]] [] rg cu v (S (S cu)) log
  /\
  yields (Gw D K) 100 (CFun src_LensLikelihood_log_likelihood_single) (Some (lens_self ifu x y))
    [num ddt; num dd; num dl; num beta; dict (lens_kws lam lifu al be g); dict [];
     dict [("mu_sne", num mu); ("sigma_sne", num 0)]; VList [dict [("mean", num kap); ("sigma", num 0)]]] [] rg' cu' v (S (S cu')) log.
Proof. exact sharp_value_ignores_rng. Qed.
Print Assumptions C08_sharp_value_ignores_rng_state.

(* history independence also needs that no evaluation-path function keeps state in a default argument: none of the ~170 functions writes in
   place through a parameter whose default is a mutable object; the functions that have such a default at all are listed *)
Require Import Py.Defaults.
Theorem C08_no_state_in_default_arguments : all_defaults_safe src_all = true /\ with_mutable_default src_all = [].
Proof. split; vm_compute; reflexivity. Qed.
Print Assumptions C08_no_state_in_default_arguments.
