(* C08 — for sharp hyper-parameters the single-draw value does not depend on the random stream (corollary of the C03 wiring theorem,
   whose model file is compiled here against C08's own regenerated source) *)
From Coq Require Import Reals ZArith String List Bool Lra.
Require Import Py.PyAst Py.PyVal Py.PySem Py.XLemmas.
Require Import C08.Src C08.Wiring.
Import ListNotations.
Open Scope string_scope.
Open Scope R_scope.
Theorem sharp_value_ignores_rng (D : list val -> list (string * val) -> R) (K : val -> val)
    (ifu : bool) (ddt dd dl beta lam lifu al be g x y kap mu : R) (rg rg' : nat -> R) (cu cu' : nat) :
  1/10000 <= ((if ifu then lifu else lam) + al * x + be * y) * (1 - kap) ->
  exists v log,
  yields (Gw D K) 100 (CFun src_LensLikelihood_log_likelihood_single) (Some (lens_self ifu x y))
    [num ddt; num dd; num dl; num beta; dict (lens_kws lam lifu al be g); dict [];
     dict [("mu_sne", num mu); ("sigma_sne", num 0)]; VList [dict [("mean", num kap); ("sigma", num 0)]]] [] rg cu v (S (S cu)) log
  /\
  yields (Gw D K) 100 (CFun src_LensLikelihood_log_likelihood_single) (Some (lens_self ifu x y))
    [num ddt; num dd; num dl; num beta; dict (lens_kws lam lifu al be g); dict [];
     dict [("mu_sne", num mu); ("sigma_sne", num 0)]; VList [dict [("mean", num kap); ("sigma", num 0)]]] [] rg' cu' v (S (S cu')) log.
Proof.
  intros H. do 2 eexists. split.
  - exact (single_wiring D K ifu ddt dd dl beta lam lifu al be g x y kap mu rg cu H).
  - exact (single_wiring D K ifu ddt dd dl beta lam lifu al be g x y kap mu rg' cu' H).
Qed.
