(* C08 — likelihood evaluation is a pure, reproducible function of its inputs. Source = C08.Src: EVERY function of hierarc/Likelihood/**,
   Sampling/Distributions, Sampling/ParamManager, Util/distribution_util, Util/likelihood_util (regenerated, ~170 functions). *)
From Coq Require Import Reals ZArith String List Bool Lra.
Require Import Py.PyAst Py.PyVal Py.PySem Py.XLemmas.
Require Import C08.Src C08.Effects C08.Sharp.
Import ListNotations.
Open Scope string_scope.
Open Scope list_scope.

(* the documented exceptions (function, source it writes):
   - CosmoLikelihood.cosmo_instance caches the interpolated FIXED cosmology in self._cosmo_fixed_interp (once, from constructor-time fields);
   - KDELikelihood.init_loglikelihood and SneLikelihoodFromFile._inverse_covariance_matrix are constructor helpers (called from __init__ only) *)
Definition allow : list (string * string) :=
  [("CosmoLikelihood.cosmo_instance", "self"); ("KDELikelihood.init_loglikelihood", "self"); ("SneLikelihoodFromFile._inverse_covariance_matrix", "self")].
(* everything else that may write a caller-visible object: the chain-management API (mutators by design, never called during an
   evaluation) and the two vector helpers, which write their first argument *)
Definition expected_impure : list (string * list string) :=
  [("Chain.fill_default", ["self"]); ("Chain.fill_default_array", ["self"]); ("Chain.create_param", ["self"]);
   ("Chain.rescale_to_unity", ["self"]); ("Chain.rescale_from_unity", ["self"]);
   (".rescale_vector_from_unity", ["vector"]); (".rescale_vector_to_unity", ["vector"])].
Lemma impure_is_expected : impure allow src_all = expected_impure.
Proof. vm_compute. reflexivity. Qed.
Lemma summaries_stable : stable allow src_all = true.
Proof. vm_compute. reflexivity. Qed.
(* in particular the evaluation path writes neither its arguments nor the object *)
Definition effect_of (k : string) : option (list string) :=
  (fix go (l : list (string * list string)) := match l with [] => None | (k', m) :: t => if String.eqb k k' then Some m else go t end) (effects allow src_all).
Lemma evaluation_path_pure :
  map effect_of ["CosmoLikelihood.likelihood"; "LensSampleLikelihood.log_likelihood"; "LensLikelihood.lens_log_likelihood";
                 "LensLikelihood.hyper_param_likelihood"; "LensLikelihood.log_likelihood_single"; "LensLikelihood.check_dist";
                 "LensDistribution.draw_lens"; "AnisotropyDistribution.draw_anisotropy"; "LOSDistribution.draw_los";
                 "KinLikelihood.log_likelihood"; "CustomSneLikelihood.log_likelihood_lum_dist"; "SneLikelihoodFromFile.log_likelihood_lum_dist";
                 "SneLikelihood.log_likelihood"; "DdtHistLikelihood.log_likelihood"; "ParamManager.args2kwargs"; "PriorLikelihood.log_likelihood"]
  = repeat (Some []) 16.
Proof. vm_compute. reflexivity. Qed.
(* the constructor helpers are called from constructors only (callers by method name; CustomSneLikelihood calls its OWN, pure,
   _inverse_covariance_matrix), the cache is filled from likelihood -> cosmo_instance only *)
Lemma exception_callers :
  callers "init_loglikelihood" src_all = ["KDELikelihood.__init__"] /\
  callers "_inverse_covariance_matrix" src_all = ["CustomSneLikelihood.log_likelihood_lum_dist"; "SneLikelihoodFromFile.__init__"] /\
  effect_of "CustomSneLikelihood._inverse_covariance_matrix" = Some [] /\
  callers "cosmo_instance" src_all = ["CosmoLikelihood.likelihood"].
Proof. vm_compute. repeat split; reflexivity. Qed.
(* the only attribute cosmo_instance assigns is the cache, under `if not hasattr(self, "_cosmo_fixed_interp")` *)
Fixpoint attr_writes (fuel : nat) (guard : list expr) (ss : list stmt) : list (string * list expr) :=
  match fuel with O => [] | S f =>
  flat_map (fun s => match s with
    | SAssign (EAttr (EName o) a) _ => if String.eqb o "self" then [(a, guard)] else []
    | SIf c a b => attr_writes f (c :: guard) a ++ attr_writes f guard b
    | SFor _ _ b => attr_writes f guard b
    | _ => [] end) ss end.
Definition src_cosmo_instance : fundef :=
  match (fix go (l : list (string * fundef)) := match l with [] => None | (k, fd) :: t => if String.eqb k "CosmoLikelihood.cosmo_instance" then Some fd else go t end) src_all with
  | Some fd => fd | None => FunDef "" false [] None [] end.
Definition is_hasattr_guard (e : expr) : bool :=
  match e with EUn UNot (ECall (EName h) [EName o; EStr a] []) => String.eqb h "hasattr" && String.eqb o "self" && String.eqb a "_cosmo_fixed_interp" | _ => false end.
Lemma cache_written_under_guard :
  map (fun w => (fst w, existsb is_hasattr_guard (snd w))) (attr_writes 20 [] (f_body src_cosmo_instance)) = [("_cosmo_fixed_interp", true)].
Proof. vm_compute. reflexivity. Qed.
