from common import *
from hierarc.Likelihood.cosmo_likelihood import CosmoLikelihood
import traceback, collections
rng = np.random.default_rng(0)
stats = collections.Counter()
examples = {}
for cosmology in ["FLCDM", "FwCDM", "w0waCDM", "oLCDM"]:
    lo = dict(h0=0, om=0.05, w=-2, w0=-2, wa=-1, ok=-1, gamma_ppn=0); hi = dict(h0=150, om=1, w=0, w0=0, wa=1, ok=1, gamma_ppn=5)
    for t in TYPES:
        if t == "DdtDdKDE": continue
        lens = dict(z_lens=0.5, z_source=2.0, likelihood_type=t, **lens_kwargs(t, rng))
        kwargs_model = dict(ppn_sampling=True, lambda_mst_sampling=True, lambda_mst_distribution="GAUSSIAN", sne_apparent_m_sampling=True, sne_distribution="GAUSSIAN", log_scatter=False)
        kb = dict(kwargs_lower_cosmo=lo, kwargs_upper_cosmo=hi, kwargs_lower_lens=dict(lambda_mst=0.5, lambda_mst_sigma=0), kwargs_upper_lens=dict(lambda_mst=1.5, lambda_mst_sigma=0.5),
                  kwargs_lower_source=dict(mu_sne=10, sigma_sne=0), kwargs_upper_source=dict(mu_sne=30, sigma_sne=1),
                  kwargs_fixed_lens={}, kwargs_fixed_cosmo={})
        try:
            cl = CosmoLikelihood([lens], cosmology, kwargs_model, kb, interpolate_cosmo=True, num_redshift_interp=50)
        except Exception as e:
            stats[("INIT", cosmology, t, type(e).__name__)] += 1; continue
        lower, upper = np.array(cl.param.param_bounds[0], float), np.array(cl.param.param_bounds[1], float)
        n = len(lower)
        for k in range(40):
            mode = k % 4
            u = rng.uniform(size=n)
            if mode == 1: u = np.round(u)            # corners
            if mode == 2: u[rng.integers(n)] = rng.choice([0., 1.])   # one edge
            x = lower + u*(upper-lower)
            if mode == 3:   # outside
                j = rng.integers(n); x[j] = upper[j] + 1e-9*max(1, abs(upper[j])) if rng.random()<.5 else lower[j] - 1e-9*max(1,abs(lower[j]))
            try:
                np.random.seed(k)
                v = cl.likelihood(x)
                v = float(np.squeeze(v))
                if mode == 3:
                    key = "outside:-inf" if v == -np.inf else "outside:NOT-inf"
                else:
                    key = "nan" if np.isnan(v) else ("+inf" if v == np.inf else ("-inf" if v == -np.inf else "finite"))
                stats[key] += 1
                if key in ("nan", "+inf", "outside:NOT-inf"): examples.setdefault(key, (cosmology, t, list(x), v))
            except Exception as e:
                stats["RAISE:"+type(e).__name__] += 1
                examples.setdefault("RAISE:"+type(e).__name__, (cosmology, t, list(x), str(e)[:100]))
print(dict(stats)); 
for k, v in examples.items(): print(k, v)
