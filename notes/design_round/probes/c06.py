from common import *
from scipy.stats import multivariate_normal as mvn, norm, lognorm
from lenstronomy.Util import constants as const
from hierarc.Likelihood.LensLikelihood.kin_likelihood import KinLikelihood
from hierarc.Likelihood.LensLikelihood.ddt_gauss_kin_likelihood import DdtGaussKinLikelihood
from hierarc.Likelihood.LensLikelihood.mag_likelihood import MagnificationLikelihood
from hierarc.Likelihood.LensLikelihood.td_mag_likelihood import TDMagLikelihood
from hierarc.Likelihood.LensLikelihood.td_mag_magnitude_likelihood import TDMagMagnitudeLikelihood
from hierarc.Likelihood.LensLikelihood.ddt_lognorm_likelihood import DdtLogNormLikelihood
from hierarc.Likelihood.LensLikelihood.ddt_gauss_likelihood import DdtGaussianLikelihood
from hierarc.Likelihood.LensLikelihood.ds_dds_gauss_likelihood import DsDdsGaussianLikelihood
from hierarc.Likelihood.LensLikelihood.ddt_dd_gauss_likelihood import DdtDdGaussian
from hierarc.Likelihood.LensLikelihood.double_source_plane import DSPLikelihood
rng = np.random.default_rng(0); bad = 0
ckm = const.c/1000
for trial in range(200):
    n = rng.integers(1, 5); zl = rng.uniform(.1, 1)
    sv = rng.uniform(200, 300, n); J = rng.uniform(.015, .03, n); M = pd(rng, n, 12.); Q = pd(rng, n, .002)
    ddt, dd = rng.uniform(2000, 6000), rng.uniform(600, 1600); s = rng.uniform(.7, 1.3, n); eps = rng.uniform(0, .1)
    for normed in [True, False]:
        for inc in [True, False]:
            k = KinLikelihood(zl, 2., sv, J, M, Q, normalized=normed, sigma_sys_error_include=inc)
            v = k.log_likelihood(ddt, dd, kin_scaling=s, sigma_v_sys_error=eps)
            r = ddt/dd/(1+zl); mu = ckm*np.sqrt(J*r*s)
            C = M + (np.outer(sv*eps, sv*eps) if inc else 0) + Q*np.outer(np.sqrt(s), np.sqrt(s))*r*ckm**2
            ref = mvn.logpdf(sv, mu, C)
            if not normed: ref += .5*(n*np.log(2*np.pi) + np.linalg.slogdet(C)[1])
            if not np.isclose(v, ref, rtol=1e-9, atol=1e-8): bad += 1; print("KIN", normed, inc, v, ref)
            g = DdtGaussKinLikelihood(zl, 2., 4000., 200., sv, J, M, Q, normalized=normed, sigma_sys_error_include=inc)
            v2 = g.log_likelihood(ddt, dd, kin_scaling=s, sigma_v_sys_error=eps)
            if not np.isclose(v2, v + DdtGaussianLikelihood(zl, 2., 4000., 200.).log_likelihood(ddt), rtol=1e-12): bad += 1; print("JOINT")
    # singular
    k = KinLikelihood(zl, 2., sv, J, np.zeros((n, n)), np.zeros((n, n)))
    try:
        v = k.log_likelihood(ddt, dd)
        if v != -np.inf: bad += 1; print("SINGULAR not -inf", v)
    except Exception as e: bad += 1; print("SINGULAR raise", e)
    # scalar
    x = rng.uniform(3000, 5000)
    if not np.isclose(DdtGaussianLikelihood(zl, 2, 4000., 200.).log_likelihood(x), norm.logpdf(x, 4000, 200) + np.log(200*np.sqrt(2*np.pi))): bad += 1; print("GAUSS")
    if not np.isclose(DdtLogNormLikelihood(zl, 2, 8.3, .05).log_likelihood(x), lognorm.logpdf(x, .05, scale=np.exp(8.3)) + .5*np.log(2*np.pi)): bad += 1; print("LOGN")
    m = rng.uniform(18, 21)
    mk = lens_kwargs("Mag", rng); amp = 10**(-(m-20)/2.5)
    v = MagnificationLikelihood(**mk).log_likelihood(m); ref = mvn.logpdf(mk["amp_measured"], amp*mk["magnification_model"], mk["cov_amp_measured"] + amp**2*mk["cov_magnification_model"])
    if not np.isclose(v, ref, rtol=1e-9): bad += 1; print("MAG", v, ref)
    tk = lens_kwargs("TDMag", rng); fu = const.Mpc/const.c/const.day_s*const.arcsec**2
    sc = np.append(ddt*fu*np.ones(2), amp*np.ones(3))
    v = TDMagLikelihood(**tk).log_likelihood(ddt, m)
    C = np.zeros((5, 5)); C[:2, :2] = tk["cov_td_measured"]; C[2:, 2:] = tk["cov_amp_measured"]; C = C + np.outer(sc, sc)*tk["cov_model"]
    ref = mvn.logpdf(np.append(tk["time_delay_measured"], tk["amp_measured"]), sc*np.append(tk["fermat_diff"], tk["magnification_model"]), C)
    if not np.isclose(v, ref, rtol=1e-9): bad += 1; print("TDMAG", v, ref)
    tk = lens_kwargs("TDMagMagnitude", rng); sc = np.append(ddt*fu*np.ones(2), np.ones(3))
    v = TDMagMagnitudeLikelihood(**tk).log_likelihood(ddt, m)
    C = np.zeros((5, 5)); C[:2, :2] = tk["cov_td_measured"]; C[2:, 2:] = tk["cov_magnitude_measured"]; C = C + np.outer(sc, sc)*tk["cov_model"]
    mu = np.append(ddt*fu*tk["fermat_diff"], tk["magnification_model"] + m)
    ref = mvn.logpdf(np.append(tk["time_delay_measured"], tk["magnitude_measured"]), mu, C)
    if not np.isclose(v, ref, rtol=1e-9): bad += 1; print("TDMAGM", v, ref)
print("C06 bad=", bad)
