from common import *
from hierarc.Likelihood.cosmo_likelihood import CosmoLikelihood
import traceback, collections
rng = np.random.default_rng(0)
lens = dict(z_lens=0.5, z_source=2.0, likelihood_type="DdtGaussian", ddt_mean=4000., ddt_sigma=200.)
for cosmology, extra in [("FwCDM", ["w"]), ("w0waCDM", ["w0", "wa"]), ("oLCDM", ["ok"]), ("FLCDM", [])]:
    lo = dict(h0=0, om=0.05, w=-2, w0=-2, wa=-1, ok=-1); hi = dict(h0=150, om=1, w=0, w0=0, wa=1, ok=1)
    cl = CosmoLikelihood([lens], cosmology, {}, dict(kwargs_lower_cosmo=lo, kwargs_upper_cosmo=hi), interpolate_cosmo=True, num_redshift_interp=50)
    lower, upper = map(np.array, cl.param.param_bounds)
    res = collections.Counter(); ex = {}
    for k in range(400):
        u = rng.uniform(size=len(lower))
        if k % 3 == 0: u = np.round(u)
        if k % 3 == 1: u[rng.integers(len(u))] = rng.choice([0., 1.])
        x = lower + u*(upper-lower)
        try:
            v = float(np.squeeze(cl.likelihood(x)))
            key = "nan" if np.isnan(v) else ("finite" if np.isfinite(v) else str(v))
        except Exception as e:
            key = "RAISE " + type(e).__name__
            tb = traceback.extract_tb(e.__traceback__)[-1]
            ex.setdefault(key + " h0=0" if x[0]==0 else key + " h0>0", (list(np.round(x,4)), str(e)[:80], tb.filename.split('/')[-1], tb.lineno))
        res[key + (" [h0=0]" if x[0] == 0 else "")] += 1
    print(cosmology, dict(res)); 
    for k, v in ex.items(): print("   ", k, v)
