from common import *
import os, itertools
from scipy.stats import multivariate_normal as mvn
from hierarc.Likelihood.hierarchy_likelihood import LensLikelihood
rng = np.random.default_rng(0)
# ---------- C14
bad = 0
cosmo = cosmo_interp()
for t in ["IFUKinCov", "DdtGaussKin", "DdtHistKin"]:
    for trial in range(10):
        kw = lens_kwargs(t, rng); n = len(kw["j_model"])
        axes = [np.linspace(.1, 5, 6)]; grid = [rng.uniform(.8, 1.3, 6) for _ in range(n)]
        for normed in (True, False):
            ll = LensLikelihood(z_lens=.5, z_source=2., likelihood_type=t, normalized=normed, anisotropy_model="OM", anisotropy_sampling=True, anisotropy_distribution="NONE",
                                kin_scaling_param_list=["a_ani"], j_kin_scaling_param_axes=axes, j_kin_scaling_grid_list=grid, num_distribution_draws=5, sigma_sys_error_include=True, **kw)
            kl = dict(lambda_mst=rng.uniform(.9, 1.1), gamma_ppn=rng.uniform(.8, 1.2)); kk = dict(a_ani=rng.uniform(.2, 4), sigma_v_sys_error=.03)
            v = float(np.squeeze(ll.lens_log_likelihood(cosmo, kwargs_lens=kl, kwargs_kin=kk)))
            m, Cm, p, Cp = ll.sigma_v_measured_vs_predict(cosmo, kwargs_lens=kl, kwargs_kin=kk)
            ref = mvn.logpdf(m, p, Cm + Cp)
            if not normed: ref += .5*(n*np.log(2*np.pi) + np.linalg.slogdet(Cm+Cp)[1])
            ddt, dd = ll.angular_diameter_distances(cosmo)
            dm, ds, ddm, dds_ = ll.ddt_dd_model_prediction(cosmo, kwargs_lens=kl)
            if t != "IFUKinCov":
                ref += float(np.squeeze(ll._lens_type._ddt_gauss_likelihood.log_likelihood(dm) if t == "DdtGaussKin" else ll._lens_type._tdLikelihood.log_likelihood(dm)))
            if not np.isclose(v, ref, rtol=1e-8, atol=1e-6): bad += 1; print("C14 kin", t, normed, v, ref)
            if not (np.isclose(dm, ddt*kl["lambda_mst"]) and ds < 1e-9*dm and np.isclose(ddm, dd*(1+kl["gamma_ppn"])/2) and dds_ < 1e-9*ddm): bad += 1; print("C14 ddt model", dm, ds, ddm, dds_)
from hierarc.Diagnostics.goodness_of_fit import GoodnessOfFit
lenses = [dict(z_lens=.5, z_source=2., likelihood_type="DdtGaussian", ddt_mean=4000., ddt_sigma=200.), dict(z_lens=.4, z_source=1.5, likelihood_type="DdtDdGaussian", ddt_mean=3000., ddt_sigma=100., dd_mean=1000., dd_sigma=50.)]
G = GoodnessOfFit(lenses, {})
chi = G.reduced_chi2(cosmo, {}, {})
L = [LensLikelihood(**l) for l in lenses]
ref = -2*sum(float(np.squeeze(l.lens_log_likelihood(cosmo))) for l in L)/3
if not np.isclose(chi, ref): bad += 1; print("chi2", chi, ref)
print("C14 bad=", bad)
# ---------- C15
import emcee
from hierarc.Sampling.mcmc_sampling import MCMCSampler
bad = 0
lens = dict(z_lens=0.5, z_source=2.0, likelihood_type="DdtGaussian", ddt_mean=4000., ddt_sigma=200.)
kb = dict(kwargs_lower_cosmo=dict(h0=10, om=0.05), kwargs_upper_cosmo=dict(h0=150, om=0.9))
S = MCMCSampler([lens], "FLCDM", {}, kb, interpolate_cosmo=True, num_redshift_interp=30)
ms, ss = dict(kwargs_cosmo=dict(h0=70, om=.3)), dict(kwargs_cosmo=dict(h0=5, om=.05))
os.makedirs("/tmp/probe/h5", exist_ok=True)
for mk in ["mem", "h5"]:
    be = emcee.backends.Backend() if mk == "mem" else emcee.backends.HDFBackend("/tmp/probe/h5/t.h5")
    np.random.seed(1)
    fs, lp = S.mcmc_emcee(6, 2, 3, ms, ss, backend=be)
    if fs.shape != (18, 2) or lp.shape != (18,): bad += 1; print("shape", fs.shape)
    lo, hi = S.param.param_bounds
    if np.any(fs < lo) or np.any(fs > hi): bad += 1; print("outside box")
    re = np.array([float(np.squeeze(S.chain.likelihood(x))) for x in fs])
    if not np.allclose(re, lp, rtol=1e-12): bad += 1; print("logp mismatch", np.max(np.abs(re-lp)))
    c0 = be.get_chain().copy(); l0 = be.get_log_prob().copy()
    fs2, lp2 = S.mcmc_emcee(6, 1, 2, ms, ss, backend=be, continue_from_backend=True)
    c1 = be.get_chain()
    if c1.shape[0] != c0.shape[0] + 3 or not np.array_equal(c1[:c0.shape[0]], c0) or not np.array_equal(be.get_log_prob()[:len(l0)], l0): bad += 1; print("continue", c1.shape, c0.shape)
    print(mk, "continued run returned", fs2.shape, "(requested n_run=2, walkers 6)")
    fs3, lp3 = S.mcmc_emcee(6, 1, 2, ms, ss, backend=be, continue_from_backend=False)
    if be.get_chain().shape[0] != 3: bad += 1; print("fresh not reset", be.get_chain().shape)
import shutil; shutil.rmtree("/tmp/probe/h5")
print("C15 bad=", bad)
