import numpy as np, warnings
warnings.simplefilter("ignore")
from lenstronomy.Cosmo.cosmo_interp import CosmoInterp
from astropy.cosmology import FlatLambdaCDM, LambdaCDM, FlatwCDM, w0waCDM
def cosmo_interp(H0=70, Om0=0.3, zmax=6, n=200):
    return CosmoInterp(cosmo=FlatLambdaCDM(H0=H0, Om0=Om0), z_stop=zmax, num_interp=n)
def pd(rng, n, scale):
    a = rng.normal(size=(n, n)); m = a @ a.T + n*np.eye(n); d = np.sqrt(np.diag(m)); return m/np.outer(d, d)*scale**2
def kin_kw(rng, n=3):
    return dict(sigma_v_measurement=list(rng.uniform(200, 300, n)), j_model=list(rng.uniform(0.015, 0.03, n)),
                error_cov_measurement=pd(rng, n, 12.), error_cov_j_sqrt=pd(rng, n, 0.002))
def lens_kwargs(t, rng):
    ddts = rng.normal(4000, 200, 400); dds = rng.normal(1200, 80, 400)
    if t == "DdtGaussian": return dict(ddt_mean=4100., ddt_sigma=250.)
    if t == "DdtDdKDE": return dict(dd_samples=dds, ddt_samples=ddts)
    if t == "DdtDdGaussian": return dict(ddt_mean=4100., ddt_sigma=250., dd_mean=1250., dd_sigma=90.)
    if t == "DsDdsGaussian": return dict(ds_dds_mean=2.1, ds_dds_sigma=0.2)
    if t == "DdtLogNorm": return dict(ddt_mu=8.3, ddt_sigma=0.05)
    if t == "IFUKinCov": return kin_kw(rng)
    if t == "DdtHist": return dict(ddt_samples=ddts, ddt_weights=rng.uniform(.5, 2, 400), nbins_hist=40)
    if t == "DdtHistKDE": return dict(ddt_samples=ddts, bandwidth=60, nbins_hist=40)
    if t == "DdtHistKin": return dict(ddt_samples=ddts, ddt_weights=None, bandwidth=60, nbins_hist=40, **kin_kw(rng))
    if t == "DdtGaussKin": return dict(ddt_mean=4100., ddt_sigma=250., **kin_kw(rng))
    if t == "Mag": return dict(amp_measured=np.array([10., 8.]), cov_amp_measured=pd(rng, 2, 1.), magnification_model=np.array([5., 4.]), cov_magnification_model=pd(rng, 2, .3))
    if t == "TDMag": return dict(time_delay_measured=np.array([10., 25.]), cov_td_measured=pd(rng, 2, 1.), amp_measured=np.array([10., 8., 3.]), cov_amp_measured=pd(rng, 3, 1.), fermat_diff=np.array([0.3, 0.7]), magnification_model=np.array([5., 4., 1.5]), cov_model=pd(rng, 5, 0.05))
    if t == "TDMagMagnitude": return dict(time_delay_measured=np.array([10., 25.]), cov_td_measured=pd(rng, 2, 1.), magnitude_measured=np.array([18., 18.3, 19.2]), cov_magnitude_measured=pd(rng, 3, .1), fermat_diff=np.array([0.3, 0.7]), magnification_model=np.array([-1.7, -1.5, -0.4]), cov_model=pd(rng, 5, 0.05))
    if t == "DSPL": return dict(z_source2=3.0, beta_dspl=0.8, sigma_beta_dspl=0.05)
TYPES = ["DdtGaussian","DdtDdKDE","DdtDdGaussian","DsDdsGaussian","DdtLogNorm","IFUKinCov","DdtHist","DdtHistKDE","DdtHistKin","DdtGaussKin","Mag","TDMag","TDMagMagnitude","DSPL"]
