from common import *
import os, shutil, copy
from scipy.stats import multivariate_normal as mvn
rng = np.random.default_rng(0)
# ---------- C13
bad = 0
from hierarc.Likelihood.KDELikelihood.chain import Chain, import_Planck_chain, rescale_vector_to_unity, rescale_vector_from_unity
from hierarc.Likelihood.KDELikelihood.kde_likelihood import KDELikelihood
from hierarc.Likelihood.cosmo_likelihood import CosmoLikelihood
n = 300
P = {"h0": rng.normal(68, 1, n), "om": rng.normal(.31, .01, n)}
P0 = copy.deepcopy(P)
ch = Chain("k", "p", copy.deepcopy(P), np.ones(n), "FLCDM", rescale=True)
try: ch.rescale_to_unity(); bad += 1; print("double not refused")
except RuntimeError: pass
ch.rescale_from_unity()
for k in P0:
    if not np.allclose(ch.params[k], P0[k], rtol=1e-12): bad += 1; print("inverse", k)
try: ch.rescale_from_unity(); bad += 1; print("double from not refused")
except RuntimeError: pass
ch.rescale_to_unity()
v = np.array([[67.3, .305]]); v2 = rescale_vector_from_unity(rescale_vector_to_unity(v.copy(), ch.rescale_dic, ["h0", "om"]), ch.rescale_dic, ["h0", "om"])
if not np.allclose(v, v2, rtol=1e-12): bad += 1; print("vector inverse")
# KDE term unit/order invariance through CosmoLikelihood
lens = dict(z_lens=.5, z_source=2., likelihood_type="DdtGaussian", ddt_mean=4000., ddt_sigma=200.)
kb = dict(kwargs_lower_cosmo=dict(h0=0, om=0), kwargs_upper_cosmo=dict(h0=200, om=1))
def total(params, point, order):
    chn = Chain("k", "p", {k: params[k].copy() for k in order}, np.ones(n), "FLCDM", rescale=True)
    cl = CosmoLikelihood([lens], "FLCDM", {}, kb, KDE_likelihood_chain=chn, kwargs_kde_likelihood=dict(likelihood_type="kde_full", bandwidth=.1), interpolate_cosmo=True, num_redshift_interp=30)
    cl0 = CosmoLikelihood([lens], "FLCDM", {}, kb, interpolate_cosmo=True, num_redshift_interp=30)
    return cl.likelihood(point) - cl0.likelihood(point)
a = total(P0, [68.5, .3], ["h0", "om"]); b = total(P0, [68.5, .3], ["om", "h0"])
if not np.isclose(a, b, rtol=1e-9): bad += 1; print("order", a, b)
# affine change of units cannot be tested through CosmoLikelihood for h0 (h0 enters cosmology) -> test on KDE object
def kde_term(params, point, keys):
    chn = Chain("k", "p", {k: params[k].copy() for k in keys}, np.ones(n), "X", rescale=True)
    K = KDELikelihood(chn, likelihood_type="kde_full", bandwidth=.1)
    pt = rescale_vector_to_unity(np.array([[point[k] for k in chn.list_params()]]), chn.rescale_dic, chn.list_params())
    return K.kdelikelihood_samples(pt)[0]
a = kde_term(P0, dict(h0=68.5, om=.3), ["h0", "om"]); b = kde_term({"h0": P0["h0"]*100+7, "om": P0["om"]}, dict(h0=68.5*100+7, om=.3), ["h0", "om"])
if not np.isclose(a, b, rtol=1e-9): bad += 1; print("affine", a, b)
for lt in ["kde_hist_nd"]:
    def kde_term2(params, point, keys):
        chn = Chain("k", "p", {k: params[k].copy() for k in keys}, np.ones(n), "X", rescale=True)
        K = KDELikelihood(chn, likelihood_type=lt, bandwidth=.1, nbins_hist=10)
        pt = rescale_vector_to_unity(np.array([[point[k] for k in chn.list_params()]]), chn.rescale_dic, chn.list_params())
        return K.kdelikelihood_samples(pt)[0]
    a = kde_term2(P0, dict(h0=68.5, om=.3), ["h0", "om"]); b = kde_term2(P0, dict(h0=68.5, om=.3), ["om", "h0"])
    if not np.isclose(a, b, rtol=1e-6): bad += 1; print("order hist_nd", a, b)
# Planck import with synthetic layout
d = "/tmp/probe/planck/base_x/probe1"; os.makedirs(d, exist_ok=True)
names = ["omegabh2\t\\Omega_b h^2\n", "ns\tn_s\n", "omegam*\t\\Omega_m\n", "foo\tbar\n", "H0*\tH_0\n", "omegal*\t\\Omega_\\Lambda\n"]
perm = rng.permutation(len(names)); names_p = [names[i] for i in perm]
open(f"{d}/base_x_probe1.paramnames", "w").writelines(names_p)
rows = rng.uniform(0, 1, (20, 2+len(names)))
for i in (1, 2): np.savetxt(f"{d}/base_x_probe1_{i}.txt", rows[(i-1)*10:i*10])
c = import_Planck_chain("/tmp/probe/planck", "base_x", "probe1", ["h0", "om", "ns"], "FLCDM", rescale=False)
col = {"h0": names_p.index(names[4])+2, "om": names_p.index(names[2])+2, "ns": names_p.index(names[1])+2}
srt = lambda a: np.sort(a)
for k in col:
    if not np.allclose(srt(c.params[k]), srt(rows[:, col[k]])): bad += 1; print("planck col", k)
if not np.allclose(srt(c.weights["default"]), srt(rows[:, 0])) or not np.allclose(srt(c.loglsamples), srt(rows[:, 1])): bad += 1; print("planck w")
shutil.rmtree("/tmp/probe/planck")
print("C13 bad=", bad)
# ---------- C17
from hierarc.Diagnostics.blinding import blind_posterior
bad = 0
for trial in range(50):
    names = list(rng.permutation(["h0", "om", "lambda_mst", "a_ani"])); 
    if rng.random() < .3: names.remove("h0")
    post = np.abs(rng.normal(5, 1, (rng.integers(3, 40), len(names)))); p0 = post.copy()
    b = blind_posterior(post, names)
    if not np.array_equal(post, p0): bad += 1; print("input modified")
    sc = post.copy(); f = rng.uniform(.1, 10, 2)
    for i, nm in enumerate(names):
        if nm == "h0": sc[:, i] *= f[0]
        if nm == "lambda_mst": sc[:, i] *= f[1]
    b2 = blind_posterior(sc, names)
    if not np.allclose(b, b2, rtol=1e-12): bad += 1; print("scale dep")
    for i, nm in enumerate(names):
        if nm == "h0" and not np.isclose(np.median(b[:, i]), 70, rtol=1e-12): bad += 1; print("median h0")
        if nm == "lambda_mst" and not np.isclose(np.median(b[:, i]), 1, rtol=1e-12): bad += 1; print("median lam")
        if nm not in ("h0", "lambda_mst") and not np.array_equal(b[:, i], post[:, i]): bad += 1; print("other col")
        if nm in ("h0", "lambda_mst") and not np.allclose(b[:, i]/b[0, i], post[:, i]/post[0, i], rtol=1e-12): bad += 1; print("ratio")
print("C17 bad=", bad)
# ---------- C18
from hierarc.Util import ifu_util
bad = 0
for trial in range(100):
    nx, ny = rng.integers(5, 12, 2)
    disp = rng.uniform(150, 300, (nx, ny)); vel = rng.uniform(10, 80, (nx, ny))*rng.choice([-1, 1], (nx, ny)); w = rng.uniform(.5, 2, (nx, ny)); wv = rng.uniform(.5, 2, (nx, ny)); fl = rng.uniform(1, 10, (nx, ny))
    bad_mask = rng.random((nx, ny)) < .1
    disp2 = disp.copy(); disp2[bad_mask] = rng.choice([np.nan, np.inf], bad_mask.sum())
    rb = np.array([0, 1.5, 3, 4.5, 20.])*0.5
    d, wr = ifu_util.binned_dispersion(disp2, w, fl, .5, rb)
    cx, cy = np.unravel_index(np.argmax(fl), fl.shape)
    ii, jj = np.meshgrid(range(nx), range(ny), indexing="ij"); r = np.sqrt((ii-cx)**2 + (jj-cy)**2)*.5
    for k in range(4):
        m = (r >= rb[k]) & (r < rb[k+1]) & ~bad_mask
        if m.sum() == 0: continue
        ref = np.sum(disp[m]*w[m]*fl[m])/np.sum(w[m]*fl[m])
        if not np.isclose(d[k], ref, rtol=1e-12): bad += 1; print("mean", d[k], ref)
        if not (disp[m].min()-1e-9 <= d[k] <= disp[m].max()+1e-9): bad += 1; print("convex")
    d2, _ = ifu_util.binned_dispersion(disp2, w*3.3, fl*0.7, .5, rb)
    if not np.allclose(d, d2, rtol=1e-12, equal_nan=True): bad += 1; print("scale")
    tot, err = ifu_util.binned_total(disp, w, vel, wv, fl, .5, rb)
    v, wvr = ifu_util.binned_velocity(vel, wv, fl, .5, rb); dd_, wd = ifu_util.binned_dispersion(disp, w, fl, .5, rb)
    if not np.allclose(tot, np.sqrt(v**2 + dd_**2), rtol=1e-12, equal_nan=True): bad += 1; print("total")
    if not np.allclose(1/err**2, (wd*dd_**2 + wvr*v**2)/(v**2+dd_**2), rtol=1e-10, equal_nan=True): bad += 1; print("weights")
u, _ = ifu_util.binned_dispersion(np.ones((7, 7))*222., rng.uniform(1, 2, (7, 7)), rng.uniform(1, 2, (7, 7)), 1., np.array([0, 2, 4, 6.]))
if not np.allclose(u, 222.): bad += 1; print("uniform", u)
print("C18 bad=", bad)
