from common import *
from hierarc.Likelihood.hierarchy_likelihood import LensLikelihood
rng = np.random.default_rng(0)
cosmo = cosmo_interp()
bad = 0
for t in TYPES:
    if t == "DdtDdKDE": continue
    for trial in range(30):
        kw = lens_kwargs(t, rng)
        x, y = rng.uniform(-1, 1, 2)
        mst_ifu = bool(rng.integers(0, 2))
        ll = LensLikelihood(z_lens=0.5, z_source=2.0, likelihood_type=t, lambda_scaling_property=x, lambda_scaling_property_beta=y,
                            mst_ifu=mst_ifu, alpha_lambda_sampling=True, beta_lambda_sampling=True, global_los_distribution=0,
                            los_distributions=["GAUSSIAN"], normalized=bool(rng.integers(0,2)), **kw)
        lam, lifu, al, be, kap, gppn = rng.uniform(.8, 1.2), rng.uniform(.8, 1.2), rng.uniform(-.1, .1), rng.uniform(-.1, .1), rng.uniform(-.1, .1), rng.uniform(.5, 1.5)
        kl = dict(lambda_mst=lam, lambda_ifu=lifu, alpha_lambda=al, beta_lambda=be, gamma_ppn=gppn)
        ks = dict(mu_sne=19.3, sigma_sne=0, z_apparent_m_anchor=0.1)
        klos = [dict(mean=kap, sigma=0)]
        v = ll.lens_log_likelihood(cosmo, kwargs_lens=kl, kwargs_kin={}, kwargs_source=ks, kwargs_los=klos)
        lam_l = (lifu if mst_ifu else lam) + al*x + be*y
        ddt, dd = ll.angular_diameter_distances(cosmo)
        dl = ll.luminosity_distance_modulus(cosmo, 0.1)
        lt = lam_l*(1-kap)
        ref = ll._lens_type
        if t in ["DdtGaussian","DdtLogNorm","DdtHist","DdtHistKDE"]: r = ref.log_likelihood(ddt*lt, dd*(1+gppn)/2)
        elif t in ["DdtDdGaussian","DsDdsGaussian"]: r = ref.log_likelihood(ddt*lt, dd*(1+gppn)/2, kin_scaling=np.ones(1))
        elif t in ["DdtHistKin","IFUKinCov","DdtGaussKin"]: r = ref.log_likelihood(ddt*lt, dd*(1+gppn)/2, kin_scaling=np.ones(1))
        elif t == "Mag": r = ref.log_likelihood(mu_intrinsic=19.3+dl+5*np.log10(lt))
        elif t in ["TDMag","TDMagMagnitude"]: r = ref.log_likelihood(ddt=ddt*lt, mu_intrinsic=19.3+dl+5*np.log10(lt))
        elif t == "DSPL": r = ref.log_likelihood(beta_dsp=ll.beta_dsp(cosmo), gamma_pl=2, lambda_mst=lam_l)
        r = float(np.squeeze(r)); v = float(np.squeeze(v))
        if not np.isclose(v, r, rtol=1e-9, atol=1e-9):
            bad += 1; print("C03 MISMATCH", t, v, r)
        # degeneracy
        if t != "DSPL":
            v2 = ll.lens_log_likelihood(cosmo, kwargs_lens=dict(lambda_mst=lt, lambda_ifu=lt, gamma_ppn=gppn), kwargs_kin={}, kwargs_source=ks, kwargs_los=[dict(mean=0, sigma=0)])
            if not np.isclose(float(np.squeeze(v2)), v, rtol=1e-9, atol=1e-9): bad += 1; print("C03 DEGEN", t, v, v2)
print("C03 done bad=", bad)
