from common import *
from scipy.integrate import quad
from hierarc.Likelihood.cosmo_likelihood import CosmoLikelihood
from hierarc.Likelihood.hierarchy_likelihood import LensLikelihood
rng = np.random.default_rng(0)
c = 299792.458
def E2(z, om, ok, w0, wa):
    return om*(1+z)**3 + ok*(1+z)**2 + (1-om-ok)*(1+z)**(3*(1+w0+wa))*np.exp(-3*wa*z/(1+z))
def DC(z1, z2, h0, om, ok, w0, wa):
    return c/h0*quad(lambda z: 1/np.sqrt(E2(z, om, ok, w0, wa)), z1, z2, epsabs=1e-12, epsrel=1e-12)[0]
def DM(z1, z2, h0, om, ok, w0, wa):
    dc = DC(z1, z2, h0, om, ok, w0, wa); dh = c/h0
    if abs(ok) < 1e-12: return dc
    s = np.sqrt(abs(ok))
    return dh/s*np.sinh(s*dc/dh) if ok > 0 else dh/s*np.sin(s*dc/dh)
def DA(z1, z2, *p): return DM(z1, z2, *p)/(1+z2)
worst = {}
for cosmology in ["FLCDM", "FwCDM", "w0waCDM", "oLCDM"]:
    for trial in range(25):
        h0, om = rng.uniform(50, 90), rng.uniform(.1, .5)
        w, w0, wa, ok = rng.uniform(-1.5, -.5), rng.uniform(-1.5, -.5), rng.uniform(-.5, .5), rng.uniform(-.2, .2)
        zl = rng.uniform(.1, 1.); zs = zl + rng.uniform(.2, 2.); zs2 = zs + rng.uniform(.2, 1.5)
        if cosmology == "FLCDM": args = [h0, om]; p = (h0, om, 0, -1, 0)
        if cosmology == "FwCDM": args = [h0, om, w]; p = (h0, om, 0, w, 0)
        if cosmology == "w0waCDM": args = [h0, om, w0, wa]; p = (h0, om, 0, w0, wa)
        if cosmology == "oLCDM": args = [h0, om, ok]; p = (h0, om, ok, -1, 0)
        lens = dict(z_lens=zl, z_source=zs, likelihood_type="TDMag", **lens_kwargs("TDMag", rng))
        dsp = dict(z_lens=zl, z_source=zs, z_source2=zs2, likelihood_type="DSPL", beta_dspl=.8, sigma_beta_dspl=.05)
        lo = dict(h0=0, om=0.0, w=-3, w0=-3, wa=-2, ok=-1); hi = dict(h0=150, om=1, w=0, w0=0, wa=2, ok=1)
        cl = CosmoLikelihood([lens, dsp], cosmology, {}, dict(kwargs_lower_cosmo=lo, kwargs_upper_cosmo=hi), interpolate_cosmo=True, num_redshift_interp=100)
        kc = cl.param.args2kwargs(args)[0]
        cos = cl.cosmo_instance(kc)
        L = cl._likelihoodLensSample._lens_list
        ddt, dd = L[0].angular_diameter_distances(cos)
        dmod = L[0].luminosity_distance_modulus(cos, 0.1)
        beta = L[1].beta_dsp(cos)
        Dd, Ds, Dds = DA(0, zl, *p), DA(0, zs, *p), DA(zl, zs, *p)
        rddt = (1+zl)*Dd*Ds/Dds
        rmod = 5*np.log10((1+zs)**2*Ds) - 5*np.log10(1.1**2*DA(0, .1, *p))
        rbeta = DA(zl, zs, *p)/DA(0, zs, *p)*DA(0, zs2, *p)/DA(zl, zs2, *p)
        for name, a, b in [("ddt", ddt, rddt), ("dd", dd, Dd), ("mod", dmod, rmod), ("beta", beta, rbeta)]:
            rel = abs(a-b)/abs(b)
            if rel > worst.get((cosmology, name), (0,))[0]: worst[(cosmology, name)] = (rel, args, zl, zs)
for k, v in worst.items(): print(k, "%.2e" % v[0], np.round(v[1], 3), round(v[2], 2), round(v[3], 2))
