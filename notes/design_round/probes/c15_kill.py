# C15 probe: kill the sampling process at several points, then continue from the HDF5 store
import subprocess, os, shutil, numpy as np, warnings
warnings.simplefilter("ignore")
import emcee
from hierarc.Sampling.mcmc_sampling import MCMCSampler
d = "/tmp/probe/h5k"; os.makedirs(d, exist_ok=True); path = d + "/run.h5"
here = os.path.dirname(os.path.abspath(__file__))
lens = dict(z_lens=0.5, z_source=2.0, likelihood_type="DdtGaussian", ddt_mean=4000., ddt_sigma=200.)
kb = dict(kwargs_lower_cosmo=dict(h0=10, om=0.05), kwargs_upper_cosmo=dict(h0=150, om=0.9))
S = MCMCSampler([lens], "FLCDM", {}, kb, interpolate_cosmo=True, num_redshift_interp=30)
for kill_at in [8, 20, 33, 47]:
    if os.path.exists(path): os.remove(path)
    r = subprocess.run(["/venv/bin/python", here + "/c15_kill_child.py", str(kill_at), path], env=dict(os.environ, PYTHONPATH="/repo"), capture_output=True)
    try:
        be = emcee.backends.HDFBackend(path); k = be.iteration; c0 = be.get_chain().copy() if k > 0 else None
        try:
            S.mcmc_emcee(6, 0, 3, dict(kwargs_cosmo=dict(h0=70, om=.3)), dict(kwargs_cosmo=dict(h0=5, om=.05)), backend=be, continue_from_backend=True)
            c1 = be.get_chain()
            print("kill_at", kill_at, "rc", r.returncode, "stored", k, "continue ok:", (c1.shape[0] == k + 3) and (k == 0 or np.array_equal(c1[:k], c0)))
        except Exception as e:
            print("kill_at", kill_at, "rc", r.returncode, "stored", k, "continue RAISE", type(e).__name__, str(e)[:80])
    except Exception as e:
        print("kill_at", kill_at, "rc", r.returncode, "OPEN FAILED", type(e).__name__, str(e)[:100])
shutil.rmtree(d)
