from common import *
from hierarc.Likelihood.lens_sample_likelihood import LensSampleLikelihood
from hierarc.Likelihood.hierarchy_likelihood import LensLikelihood
rng = np.random.default_rng(0); bad = 0
cosmo = cosmo_interp()
axes = [np.linspace(1.5, 2.5, 6)]
def mklens(i):
    t = rng.choice([x for x in TYPES if x not in ("DdtDdKDE",)])
    kw = dict(z_lens=0.3+0.05*i, z_source=1.5+0.1*i, likelihood_type=t, name="L%d" % i, **lens_kwargs(t, rng))
    if t in ("IFUKinCov", "DdtGaussKin", "DdtHistKin") and rng.random() < .7:
        n = len(kw["j_model"])
        kw.update(kin_scaling_param_list=["gamma_pl"], j_kin_scaling_param_axes=axes, j_kin_scaling_grid_list=[rng.uniform(.8, 1.2, 6) for _ in range(n)])
    if rng.random() < .4: kw["mst_ifu"] = True
    if rng.random() < .5: kw.update(global_los_distribution=int(rng.integers(0, 2)))
    if rng.random() < .3: kw.update(lambda_scaling_property=float(rng.uniform(-1, 1)))
    return kw
gm = dict(los_distributions=["GAUSSIAN", "GAUSSIAN"], alpha_lambda_sampling=True, anisotropy_model="NONE", lambda_mst_distribution="NONE")
for trial in range(40):
    lenses = [mklens(i) for i in range(rng.integers(1, 6))]
    S = LensSampleLikelihood(lenses, normalized=False, kwargs_global_model=gm)
    npl = S.gamma_pl_num
    expn = sum(1 for l in lenses if "gamma_pl" in l.get("kin_scaling_param_list", []))
    if npl != expn: bad += 1; print("GAMMA_PL_NUM", npl, expn)
    gl = list(rng.uniform(1.8, 2.2, npl))
    kl = dict(lambda_mst=1.02, lambda_ifu=0.97, alpha_lambda=0.1, gamma_ppn=1.1)
    if npl: kl["gamma_pl_list"] = gl
    ks = dict(mu_sne=19.3, sigma_sne=0, z_apparent_m_anchor=0.1); klos = [dict(mean=.02, sigma=0), dict(mean=-.03, sigma=0)]
    tot = float(np.squeeze(S.log_likelihood(cosmo, kwargs_lens=kl, kwargs_kin={}, kwargs_source=ks, kwargs_los=klos)))
    # additivity: each lens alone
    parts = []
    idx = 0
    for l in lenses:
        S1 = LensSampleLikelihood([l], normalized=False, kwargs_global_model=gm)
        kl1 = dict(kl)
        if S1.gamma_pl_num: kl1["gamma_pl_list"] = [gl[idx]]; idx += 1
        else: kl1.pop("gamma_pl_list", None)
        parts.append(float(np.squeeze(S1.log_likelihood(cosmo, kwargs_lens=kl1, kwargs_kin={}, kwargs_source=ks, kwargs_los=klos))))
    if not np.isclose(tot, sum(parts), rtol=1e-10, atol=1e-8): bad += 1; print("ADD", tot, sum(parts))
    # permutation
    p = rng.permutation(len(lenses))
    lp = [lenses[i] for i in p]
    Sp = LensSampleLikelihood(lp, normalized=False, kwargs_global_model=gm)
    # slopes re-ordered accordingly
    has = [("gamma_pl" in l.get("kin_scaling_param_list", [])) for l in lenses]
    slope_of = {}; j = 0
    for i, h in enumerate(has):
        if h: slope_of[i] = gl[j]; j += 1
    glp = [slope_of[i] for i in p if has[i]]
    klp = dict(kl); 
    if npl: klp["gamma_pl_list"] = glp
    totp = float(np.squeeze(Sp.log_likelihood(cosmo, kwargs_lens=klp, kwargs_kin={}, kwargs_source=ks, kwargs_los=klos)))
    if not np.isclose(tot, totp, rtol=1e-10, atol=1e-8): bad += 1; print("PERM", tot, totp)
    # non-interference: lambda_ifu for non-IFU lenses, LOS population not assigned, mu_sne for non-mag
    for i, l in enumerate(lenses):
        L = S._lens_list[i]
        base = float(np.squeeze(L.lens_log_likelihood(cosmo, kwargs_lens=kl, kwargs_kin={}, kwargs_source=ks, kwargs_los=klos)))
        kl2 = dict(kl); kl2["lambda_ifu" if not l.get("mst_ifu") else "lambda_mst"] = 1.3
        v = float(np.squeeze(L.lens_log_likelihood(cosmo, kwargs_lens=kl2, kwargs_kin={}, kwargs_source=ks, kwargs_los=klos)))
        if v != base: bad += 1; print("INTERF lambda", l["likelihood_type"], base, v)
        g = l.get("global_los_distribution", False)
        klos2 = [dict(d) for d in klos]
        other = 1 - g if (g is not False) else 0
        klos2[other]["mean"] = 0.2
        if g is False: klos2[1]["mean"] = 0.3
        v = float(np.squeeze(L.lens_log_likelihood(cosmo, kwargs_lens=kl, kwargs_kin={}, kwargs_source=ks, kwargs_los=klos2)))
        if v != base: bad += 1; print("INTERF los", l["likelihood_type"], g, base, v)
        if l["likelihood_type"] not in ("Mag", "TDMag", "TDMagMagnitude"):
            v = float(np.squeeze(L.lens_log_likelihood(cosmo, kwargs_lens=kl, kwargs_kin={}, kwargs_source=dict(mu_sne=25., sigma_sne=0, z_apparent_m_anchor=0.3), kwargs_los=klos)))
            if v != base: bad += 1; print("INTERF sne", l["likelihood_type"], base, v)
    # num_data
    try:
        nd = S.num_data()
    except Exception as e:
        if not any(l["likelihood_type"] == "DSPL" for l in lenses): bad += 1; print("NUMDATA raise w/o DSPL", e)
print("C07 bad=", bad)
