from common import *
import itertools
from hierarc.Sampling.Distributions.anisotropy_distributions import AnisotropyDistribution
from hierarc.Sampling.Distributions.lens_distribution import LensDistribution
from hierarc.Sampling.Distributions.los_distributions import LOSDistribution
from hierarc.Util.distribution_util import PDFSampling, approx_cdf_1d
from hierarc.Likelihood.kin_scaling import KinScaling
rng = np.random.default_rng(0); bad = 0
# C09
for model in ["OM", "GOM", "const"]:
    for dist in ["GAUSSIAN", "GAUSSIAN_SCALED", "NONE"]:
        if model == "const" and dist == "GAUSSIAN_SCALED": continue
        A = AnisotropyDistribution(model, True, dist, dict(a_ani=0.5, beta_inf=0.2), dict(a_ani=3., beta_inf=1.))
        np.random.seed(1)
        for k in range(2000):
            d = A.draw_anisotropy(a_ani=1.2, a_ani_sigma=1.0, beta_inf=0.7, beta_inf_sigma=0.5)
            if not (0.5 <= d["a_ani"] <= 3.): bad += 1; print("RANGE a_ani", d)
            if model == "GOM" and not (0.2 <= d["beta_inf"] <= 1.): bad += 1; print("RANGE beta", d)
        for mean in [0.4, 3.1]:
            try: A.draw_anisotropy(a_ani=mean, a_ani_sigma=.1, beta_inf=.5, beta_inf_sigma=0); bad += 1; print("NO ValueError", model, dist, mean)
            except ValueError: pass
L = LensDistribution(gamma_in_sampling=True, gamma_in_distribution="GAUSSIAN", log_m2l_sampling=True, log_m2l_distribution="GAUSSIAN", kwargs_min=dict(gamma_in=0.5, log_m2l=0.), kwargs_max=dict(gamma_in=1.5, log_m2l=1.))
for k in range(2000):
    d = L.draw_lens(gamma_in=1., gamma_in_sigma=.8, log_m2l=.5, log_m2l_sigma=.9)
    if not (0.5 <= d["gamma_in"] <= 1.5 and 0 <= d["log_m2l"] <= 1): bad += 1; print("RANGE lens", d)
for kw in [dict(gamma_in=1.6), dict(log_m2l=-0.1)]:
    try: L.draw_lens(**kw); bad += 1; print("NO ValueError lens", kw)
    except ValueError: pass
# PDF
edges = np.linspace(-.1, .3, 9); pdf = rng.uniform(0, 1, 8); pdf[3] = 0
cdf, f, finv = approx_cdf_1d(edges, pdf)
if not (cdf[0] == 0 and abs(cdf[-1]-1) < 1e-12 and np.all(np.diff(cdf) >= 0)): bad += 1; print("CDF", cdf)
P = PDFSampling(edges, pdf); x = P.draw(20000)
if x.min() < edges[0] or x.max() > edges[-1]: bad += 1; print("PDF range")
h = np.histogram(x, bins=edges)[0]/20000; 
if np.max(np.abs(h - pdf/pdf.sum())) > 0.02: bad += 1; print("PDF law", h, pdf/pdf.sum())
# draw_bool
for g, ind, klos, exp in [(False, None, None, False), (0, None, [dict(mean=0, sigma=0)], False), (0, None, [dict(mean=0, sigma=.1)], True), (False, "PDF", None, True)]:
    D = LOSDistribution(global_los_distribution=g, los_distributions=["GAUSSIAN"], individual_distribution=ind, kwargs_individual=dict(bin_edges=edges, pdf_array=pdf) if ind else None)
    if D.draw_bool(klos) != exp: bad += 1; print("draw_bool", g, ind)
# C10
for nd in [1, 3, 4]:
    axes = [np.sort(rng.uniform(0, 5, rng.integers(2, 6))) for _ in range(nd)]
    names = ["p%d" % i for i in range(nd)]
    nb = 3
    grids = [rng.integers(1, 1000, [len(a) for a in axes]).astype(float) for _ in range(nb)]
    K = KinScaling(j_kin_scaling_param_axes=axes if nd > 1 else axes, j_kin_scaling_grid_list=grids, j_kin_scaling_param_name_list=names)
    for idx in itertools.product(*[range(len(a)) for a in axes]):
        kw = {n: axes[i][idx[i]] for i, n in enumerate(names)}
        kw = dict(reversed(list(kw.items()))); kw["extra"] = 7.
        s = np.array(K.kin_scaling(kw), float).ravel()
        exp = np.array([g[idx] for g in grids])
        if not np.allclose(s, exp, rtol=1e-12): bad += 1; print("NODE", nd, idx, s, exp); break
    mn, mx = K.param_bounds_interpol()
    if any(mn[n] != axes[i].min() or mx[n] != axes[i].max() for i, n in enumerate(names)): bad += 1; print("BOUNDS")
    try: K.kin_scaling({names[0]: 1.}) if nd > 1 else K.kin_scaling({"zz": 1.}); bad += 1; print("no ValueError missing")
    except ValueError: pass
K0 = KinScaling()
print("unconfigured:", K0.kin_scaling({"a": 1}), K0.kin_scaling(None))
try:
    K2 = KinScaling(j_kin_scaling_param_axes=[np.linspace(0,1,3), np.linspace(0,2,4)], j_kin_scaling_grid_list=[np.ones((3,4))], j_kin_scaling_param_name_list=["a","b"])
except Exception as e: print("2D:", type(e).__name__)
print("C09/C10 bad=", bad)
