from common import *
from hierarc.Likelihood.hierarchy_likelihood import LensLikelihood
rng = np.random.default_rng(0)
cosmo = cosmo_interp()
def count_eval(ll, **kw):
    n = {"c": 0}
    orig = ll._lens_type.log_likelihood
    def f(*a, **k): n["c"] += 1; return orig(*a, **k)
    ll._lens_type.log_likelihood = f
    np.random.seed(1); a = float(np.squeeze(ll.lens_log_likelihood(cosmo, **kw)))
    c = n["c"]
    np.random.seed(2); b = float(np.squeeze(ll.lens_log_likelihood(cosmo, **kw)))
    ll._lens_type.log_likelihood = orig
    return c, a, b
N = 37
axes = [np.linspace(0.1, 5, 6)]
grid = [np.linspace(0.8, 1.3, 6)]*3
kin = kin_kw(rng)
base = dict(z_lens=0.5, z_source=2.0, num_distribution_draws=N)
def kinlens(**extra):
    return LensLikelihood(likelihood_type="IFUKinCov", **base, **kin, **extra)
cases = []
# lambda_mst sigma, non-IFU
cases.append(("lambda_mst_sigma/nonIFU", LensLikelihood(likelihood_type="DdtGaussian", ddt_mean=4000., ddt_sigma=200., lambda_mst_distribution="GAUSSIAN", **base), dict(kwargs_lens=dict(lambda_mst=1., lambda_mst_sigma=.1)), True))
cases.append(("lambda_ifu_sigma/IFU", LensLikelihood(likelihood_type="DdtGaussian", ddt_mean=4000., ddt_sigma=200., lambda_mst_distribution="GAUSSIAN", mst_ifu=True, **base), dict(kwargs_lens=dict(lambda_mst=1., lambda_ifu=1., lambda_ifu_sigma=.1)), True))
cases.append(("lambda_mst_sigma/IFU (inapplicable)", LensLikelihood(likelihood_type="DdtGaussian", ddt_mean=4000., ddt_sigma=200., lambda_mst_distribution="GAUSSIAN", mst_ifu=True, **base), dict(kwargs_lens=dict(lambda_mst=1., lambda_mst_sigma=.1, lambda_ifu=1., lambda_ifu_sigma=0.)), False))
cases.append(("lambda_ifu_sigma/nonIFU (inapplicable)", LensLikelihood(likelihood_type="DdtGaussian", ddt_mean=4000., ddt_sigma=200., lambda_mst_distribution="GAUSSIAN", **base), dict(kwargs_lens=dict(lambda_mst=1., lambda_mst_sigma=0., lambda_ifu=1., lambda_ifu_sigma=0.2)), False))
# a_ani sigma
cases.append(("a_ani_sigma", kinlens(anisotropy_model="OM", anisotropy_sampling=True, anisotropy_distribution="GAUSSIAN", kin_scaling_param_list=["a_ani"], j_kin_scaling_param_axes=axes, j_kin_scaling_grid_list=grid), dict(kwargs_lens={}, kwargs_kin=dict(a_ani=1., a_ani_sigma=.2)), True))
# gamma_in sigma
cases.append(("gamma_in_sigma", kinlens(gamma_in_sampling=True, gamma_in_distribution="GAUSSIAN", kin_scaling_param_list=["gamma_in"], j_kin_scaling_param_axes=axes, j_kin_scaling_grid_list=grid), dict(kwargs_lens=dict(gamma_in=1., gamma_in_sigma=.2), kwargs_kin={}), True))
cases.append(("log_m2l_sigma", kinlens(log_m2l_sampling=True, log_m2l_distribution="GAUSSIAN", kin_scaling_param_list=["log_m2l"], j_kin_scaling_param_axes=axes, j_kin_scaling_grid_list=grid), dict(kwargs_lens=dict(log_m2l=1., log_m2l_sigma=.2), kwargs_kin={}), True))
cases.append(("gamma_pl_sigma (global)", kinlens(gamma_pl_global_sampling=True, gamma_pl_global_dist="GAUSSIAN", kin_scaling_param_list=["gamma_pl"], j_kin_scaling_param_axes=[np.linspace(1.5, 2.5, 6)], j_kin_scaling_grid_list=grid), dict(kwargs_lens=dict(gamma_pl_mean=2., gamma_pl_sigma=.05), kwargs_kin={}), True))
cases.append(("sigma_sne/Mag", LensLikelihood(likelihood_type="Mag", **base, **lens_kwargs("Mag", rng)), dict(kwargs_lens={}, kwargs_source=dict(mu_sne=19., sigma_sne=.1)), True))
cases.append(("sigma_sne/DdtGaussian (inapplicable)", LensLikelihood(likelihood_type="DdtGaussian", ddt_mean=4000., ddt_sigma=200., **base), dict(kwargs_lens={}, kwargs_source=dict(mu_sne=19., sigma_sne=.1)), False))
cases.append(("los global sigma", LensLikelihood(likelihood_type="DdtGaussian", ddt_mean=4000., ddt_sigma=200., global_los_distribution=0, los_distributions=["GAUSSIAN"], **base), dict(kwargs_lens={}, kwargs_los=[dict(mean=0., sigma=.05)]), True))
cases.append(("los individual PDF", LensLikelihood(likelihood_type="DdtGaussian", ddt_mean=4000., ddt_sigma=200., los_distribution_individual="PDF", kwargs_los_individual=dict(bin_edges=np.linspace(-.1,.1,11), pdf_array=np.ones(10)), **base), dict(kwargs_lens={}), True))
cases.append(("gamma_in_sigma but lens not gamma_in_sampling (inapplicable)", LensLikelihood(likelihood_type="DdtGaussian", ddt_mean=4000., ddt_sigma=200., **base), dict(kwargs_lens=dict(gamma_in=1., gamma_in_sigma=.2)), False))
cases.append(("a_ani_sigma / no kin (inapplicable, aniso sampling on)", LensLikelihood(likelihood_type="DdtGaussian", ddt_mean=4000., ddt_sigma=200., anisotropy_model="OM", anisotropy_sampling=True, anisotropy_distribution="GAUSSIAN", **base), dict(kwargs_lens={}, kwargs_kin=dict(a_ani=1., a_ani_sigma=.2)), False))
for name, ll, kw, applicable in cases:
    try:
        c, a, b = count_eval(ll, **kw)
        exp = N if applicable else 1
        flag = "OK " if c == exp else "BAD"
        print(f"{flag} {name:60s} evals={c:3d} expected={exp:3d}  seed1={a:.4f} seed2={b:.4f}")
    except Exception as e:
        print("ERR", name, type(e).__name__, e)
